/-
C13 — the event handler's application paths UNDER FAULTS (`NGF.Model.ResolverFaults`: `stepH`, `runH`, `traceH`
are the functions the driver runs on the `faults` stream and the correspondence compares with the real
`HandleEventBatch`; `inSync`/`outOfSyncHttp`/`outOfSyncStream` are what the judge evaluates on the REAL views).

Quantification: ALL handler states reached by ALL sequences of batches (change kind × configuration × fault
script: ReplaceFiles error, Reload error, GetUpstreams error, per-upstream API update errors), OSS and Plus.
Helper lemmas: `NGF.Proofs.ResolverFaults`.
-/
import NGF.Proofs.ResolverFaults
import NGF.Generated.ResolverFacts

namespace NGF.Resolver

/-! ## 1. One batch -/

/-- OSS: a batch either fails as a whole (ReplaceFiles / Reload error: NGINX keeps what it held, the error is
recorded) or NGINX holds exactly the servers of the files generated from the batch's configuration; in both
cases the handler remembers the batch's configuration as `latestConfiguration`. -/
theorem oss_batch_spec (s : HState) (o : HOp) :
    stepH false s o =
      if o.faults.noReload then (⟨s.ngx, some o.conf, true⟩, true)
      else (⟨{ s.ngx with api := loadOss o.conf }, some o.conf, false⟩, false) := by
  simp only [stepH, applyOp_oss]
  cases o.faults.noReload <;> rfl

/-- the handler's memory is the last GENERATED configuration — whether or not NGINX accepted it -/
theorem latest_is_last_generated (plus : Bool) (s : HState) (pre : List HOp) (o : HOp) :
    (stepH plus (runH plus s pre) o).1.latest = some o.conf := rfl

/-- … and after a failed batch it is NOT what NGINX holds (so it must not be used to decide "nothing to do") -/
theorem latest_not_held_after_failure :
    let cA : Conf := ⟨[⟨"ns_svc_80", [⟨"10.0.0.1", 80, false⟩]⟩], []⟩
    let cB : Conf := ⟨[⟨"ns_svc_80", [⟨"10.0.0.2", 80, false⟩]⟩], []⟩
    let s := runH false HState.init [⟨.cluster, cA, Faults.none⟩, ⟨.endpoints, cB, ⟨false, true, false, [], []⟩⟩]
    s.latest.map (·.http) = some cB.http ∧ s.lastErr = true ∧
    s.ngx.api.http = [("ns_svc_80", ["10.0.0.1:80"])] ∧ inSync false cB s.ngx.api = false := by
  refine ⟨by decide, by decide, by decide, by decide⟩

/-! ## 2. `held_equals_last_successful` -/

/-- **held_equals_last_successful (OSS, all sequences, all fault scripts).** NGINX holds exactly the servers of
the configuration of the LAST batch whose ReplaceFiles and Reload both succeeded (what it held at the start when
there is none); failed batches leave no trace. -/
theorem held_equals_last_successful : ∀ (ops : List HOp) (s : HState),
    (runH false s ops).ngx.api =
      match (ops.filter fun o => !o.faults.noReload).getLast? with
      | some o => loadOss o.conf
      | none => s.ngx.api
  | [], _ => rfl
  | o :: os, s => by
    simp only [runH]
    rw [held_equals_last_successful os, oss_batch_spec, List.filter_cons]
    by_cases hn : o.faults.noReload = true
    · simp only [hn, if_true, Bool.not_true, Bool.false_eq_true, if_false]
    · simp only [hn, Bool.false_eq_true, if_false, Bool.not_false, if_true, List.getLast?_cons]
      cases (os.filter fun o => !o.faults.noReload).getLast? <;> rfl

/-- a batch whose failure is all-or-nothing under NGINX Plus: no per-upstream API error, and `GetUpstreams` does
not fail after NGINX has already been reloaded -/
def HOp.allOrNothing (o : HOp) : Bool :=
  o.faults.http.isEmpty && o.faults.stream.isEmpty &&
    (decide (o.kind = .endpoints) || o.faults.noReload || !o.faults.get)

def HOp.failsWhole (o : HOp) : Bool :=
  match o.kind with
  | .cluster => o.faults.noReload || o.faults.get
  | .endpoints => o.faults.get

theorem applyOp_plus_failsWhole {o : HOp} (h : o.allOrNothing = true) (hf : o.failsWhole = true) (x : Ngx) :
    applyOp true o x = (x, true) := by
  simp only [HOp.allOrNothing, Bool.and_eq_true, List.isEmpty_iff, Bool.or_eq_true, decide_eq_true_eq,
    Bool.not_eq_true'] at h
  obtain ⟨_, hk⟩ := h
  cases hkind : o.kind with
  | cluster =>
    rw [applyOp_plus_cluster hkind]
    simp only [HOp.failsWhole, hkind, Bool.or_eq_true] at hf
    have : o.faults.noReload = true := by
      rcases hk with (hk | hk) | hk
      · rw [hkind] at hk; cases hk
      · exact hk
      · rcases hf with hf | hf
        · exact hf
        · rw [hk] at hf; cases hf
    simp [this]
  | endpoints =>
    rw [applyOp_plus_endpoints hkind]
    simp only [HOp.failsWhole, hkind] at hf
    simp [updateUpstreamServersF, hf]

theorem applyOp_plus_succeeds {o : HOp} (h : o.allOrNothing = true) (hf : o.failsWhole = false) (x : Ngx) :
    (applyOp true o x).2 = false := by
  simp only [HOp.allOrNothing, Bool.and_eq_true, List.isEmpty_iff] at h
  obtain ⟨⟨hh, hs⟩, _⟩ := h
  have hupd : ∀ y, o.faults.get = false → (updateUpstreamServersF o.faults o.conf y).2 = false := by
    intro y hg
    simp [updateUpstreamServersF, hg, hh, hs, applyTableF_nofaults]
  cases hkind : o.kind with
  | cluster =>
    simp only [HOp.failsWhole, hkind, Bool.or_eq_false_iff] at hf
    rw [applyOp_plus_cluster hkind]
    simp only [hf.1, Bool.false_eq_true, if_false]
    exact hupd _ hf.2
  | endpoints =>
    simp only [HOp.failsWhole, hkind] at hf
    rw [applyOp_plus_endpoints hkind]
    exact hupd _ hf

/-- **held_equals_last_successful (Plus).** When every failure is all-or-nothing, failed batches leave NO trace in
NGINX Plus (servers and state files): it holds exactly what the batches that did not fail, in order, produce — and
each of those recorded no error. -/
theorem held_is_run_of_successful_plus : ∀ (ops : List HOp) (s : HState),
    (∀ o ∈ ops, o.allOrNothing = true) →
    (runH true s ops).ngx = (runH true s (ops.filter fun o => !o.failsWhole)).ngx ∧
    (∀ r ∈ traceH true s (ops.filter fun o => !o.failsWhole), quiet r = true)
  | [], _, _ => ⟨rfl, by simp [traceH]⟩
  | o :: os, s, h => by
    have ih := fun s' => held_is_run_of_successful_plus os s' (fun o' ho' => h o' (List.mem_cons_of_mem _ ho'))
    have ho := h o (List.mem_cons_self ..)
    rw [List.filter_cons]
    by_cases hf : o.failsWhole = true
    · have := applyOp_plus_failsWhole ho hf s.ngx
      simp only [hf, Bool.not_true, Bool.false_eq_true, if_false, runH]
      have hcongr : (stepH true s o).1.ngx = s.ngx := by simp [stepH, this]
      constructor
      · rw [(ih _).1]; exact runH_ngx_congr true _ _ _ hcongr
      · have h2 := (ih s).2
        exact h2
    · have hf' : o.failsWhole = false := by simpa using hf
      simp only [hf', Bool.not_false, if_true, runH, traceH, List.mem_cons]
      refine ⟨(ih _).1, ?_⟩
      rintro r (rfl | hr)
      · simp [quiet, stepH, applyOp_plus_succeeds ho hf']
      · exact (ih _).2 r hr

/-! ## 3. `every_quiet_batch_is_in_sync` -/

/-- **every_quiet_batch_is_in_sync.** For ALL histories `pre` (any kinds, configurations, fault scripts) from any
start state and every further batch `o`: if the handler records no error for `o`, then
* OSS (either kind) and Plus/ClusterStateChange: NGINX holds, for EVERY upstream of `o`'s configuration, exactly
  the servers of that configuration (`inSync`, the Bool the judge evaluates on the real views);
* Plus/EndpointsOnlyChange: the same for every upstream NGINX knows at that moment.
Hence a failed application can never be followed by a quiet batch that leaves NGINX with the old servers: the
handler has to apply again. -/
theorem every_quiet_batch_is_in_sync (plus : Bool) (s0 : HState) (h0 : plus = true → s0.ngx.Inv)
    (pre : List HOp) (o : HOp) (hc : o.conf.WF)
    (hq : quiet (stepH plus (runH plus s0 pre) o) = true) :
    let before := (runH plus s0 pre).ngx.api
    let after := (stepH plus (runH plus s0 pre) o).1.ngx.api
    ((plus = false ∨ o.kind = .cluster) → inSync plus o.conf after = true) ∧
    (∀ u ∈ o.conf.http, u.name ∈ before.http.keys →
      SetEq (after.http.servers u.name) (heldHttpExpected plus u)) ∧
    (∀ u ∈ o.conf.stream, u.name ∈ before.stream.keys →
      SetEq (after.stream.servers u.name) (heldStreamExpected plus u)) := by
  intro before after
  have hq' : (applyOp plus o (runH plus s0 pre).ngx).2 = false := by simpa [quiet, stepH] using hq
  cases plus with
  | false =>
    have hafter : after = loadOss o.conf := by
      show (applyOp false o (runH false s0 pre).ngx).1.api = _
      rw [applyOp_oss] at hq' ⊢
      by_cases hn : o.faults.noReload = true
      · simp [hn] at hq'
      · simp [hn]
    rw [hafter]
    have hs := inSync_iff.mp (inSync_loadOss hc)
    exact ⟨fun _ => inSync_loadOss hc, fun u hu _ => hs.1 u hu, fun u hu _ => hs.2 u hu⟩
  | true =>
    have hinv : (runH true s0 pre).ngx.Inv := inv_runH_plus pre s0 (h0 rfl)
    have hafter : after = updateUpstreamServers o.conf (apiBeforeUpdate o (runH true s0 pre).ngx) :=
      applyOp_plus_quiet hq'
    rw [hafter]
    refine ⟨?_, ?_, ?_⟩
    · rintro (h | hk)
      · cases h
      · simp only [apiBeforeUpdate, hk]
        exact inSync_iff.mpr ⟨fun u hu => loaded_update_http hc hinv.state hu,
          fun u hu => loaded_update_stream hc hinv.state hu⟩
    · intro u hu hk
      cases hkind : o.kind with
      | cluster => simp only [apiBeforeUpdate, hkind]; exact loaded_update_http hc hinv.state hu
      | endpoints => simp only [apiBeforeUpdate, hkind]; exact endpoints_step_http hc hinv.api hu hk
    · intro u hu hk
      cases hkind : o.kind with
      | cluster => simp only [apiBeforeUpdate, hkind]; exact loaded_update_stream hc hinv.state hu
      | endpoints => simp only [apiBeforeUpdate, hkind]; exact endpoints_step_stream hc hinv.api hu hk

/-
FULL-STRENGTH statement for Plus/EndpointsOnlyChange (no "NGINX knows the upstream" side condition):

  theorem every_quiet_batch_is_in_sync_plus (s0) (pre) (o) (hc : o.conf.WF) (hk : o.kind = .endpoints)
      (hq : quiet (stepH true (runH true s0 pre) o) = true) :
      inSync true o.conf (stepH true (runH true s0 pre) o).1.ngx.api = true

It is FALSE for the current code (`quiet_endpoints_batch_out_of_sync_after_failed_reload` below, known finding
`C13:plus_quiet_after_failed_reload`; and the older `C13:plus_stream_upstream_absent`).  The `_partial` theorem
states the excluded region as a decidable hypothesis on the history: the configuration NGINX last LOADED has the
http upstream names of `o`, and its stream upstreams that now have endpoints had endpoints then.
-/

/-- **every_quiet_batch_is_in_sync — Plus/EndpointsOnlyChange, partial.** -/
theorem every_quiet_batch_is_in_sync_plus_partial (s0 : HState) (h0 : s0.ngx.Inv)
    (pre : List HOp) (o : HOp) (hc : o.conf.WF) (cL : Conf)
    (hL : lastLoaded pre none = some cL)
    (hhttp : ∀ u ∈ o.conf.http, u.name ∈ cL.http.map (·.name))
    (hstream : ∀ u ∈ o.conf.stream, u.eps ≠ [] → ∃ uL ∈ cL.stream, uL.name = u.name ∧ uL.eps ≠ [])
    (hq : quiet (stepH true (runH true s0 pre) o) = true) :
    inSync true o.conf (stepH true (runH true s0 pre) o).1.ngx.api = true := by
  have hkeys := keys_runH_plus pre s0 none rfl
  rw [hL] at hkeys
  simp only [keysOf, Prod.mk.injEq] at hkeys
  have hbase := every_quiet_batch_is_in_sync true s0 (fun _ => h0) pre o hc hq
  refine inSync_iff.mpr ⟨fun u hu => hbase.2.1 u hu ?_, fun u hu => ?_⟩
  · rw [hkeys.1, mem_dedup]; exact hhttp u hu
  · by_cases he : u.eps = []
    · -- no endpoints: NGINX must hold none; either it knows the upstream (then exact) or it holds nothing
      by_cases hk : u.name ∈ (runH true s0 pre).ngx.api.stream.keys
      · exact hbase.2.2 u hu hk
      · have hk' : u.name ∉ (stepH true (runH true s0 pre) o).1.ngx.api.stream.keys := by
          have := keys_applyOp_plus o (runH true s0 pre).ngx
          by_cases hl : o.loads = true
          · -- a loading batch: the stream upstream without endpoints is not generated
            simp only [hl, if_true, keysOf, Prod.mk.injEq] at this
            show u.name ∉ (applyOp true o (runH true s0 pre).ngx).1.api.stream.keys
            rw [this.2, mem_dedup]
            intro hin
            obtain ⟨u', hu', hn⟩ := List.mem_map.mp hin
            obtain ⟨hu'm, hne⟩ := List.mem_filter.mp hu'
            have := unique_of_nodup_names hc.stream hu'm hu hn
            subst this
            simp [he] at hne
          · simp only [hl, Bool.false_eq_true, if_false, Prod.mk.injEq] at this
            show u.name ∉ (applyOp true o (runH true s0 pre).ngx).1.api.stream.keys
            rw [this.2]; exact hk
        have hget : (stepH true (runH true s0 pre) o).1.ngx.api.stream.get u.name = none := by
          cases hg : (stepH true (runH true s0 pre) o).1.ngx.api.stream.get u.name with
          | none => rfl
          | some l =>
            exact absurd ((Table.get_isSome _ _).mp (by simp [hg])) hk'
        simp [Table.servers, hget, heldStreamExpected, he, convertEndpoints, SetEq]
    · apply hbase.2.2 u hu
      rw [hkeys.2, mem_dedup]
      obtain ⟨uL, huL, hn, hne⟩ := hstream u hu he
      refine List.mem_map.mpr ⟨uL, List.mem_filter.mpr ⟨huL, ?_⟩, hn⟩
      cases h : uL.eps with
      | nil => exact absurd h hne
      | cons _ _ => simp

/-- **The full-strength Plus statement is FALSE for the current code** (known finding
`C13:plus_quiet_after_failed_reload`): a ClusterStateChange whose reload fails, then an EndpointSlice event. The
second batch only talks to the API, which does not know the upstream: no call, no error — the handler reports
success (and clears `latestReloadResult.Error`) while NGINX holds nothing of the configuration. Under OSS the same
history is repaired by the second batch (it reloads). -/
theorem quiet_endpoints_batch_out_of_sync_after_failed_reload :
    let c : Conf := ⟨[⟨"ns_svc_80", [⟨"10.0.0.1", 80, false⟩]⟩], []⟩
    let ops : List HOp := [⟨.cluster, c, ⟨false, true, false, [], []⟩⟩, ⟨.endpoints, c, Faults.none⟩]
    c.WF ∧
    (traceH true HState.init ops).map (fun r => (quiet r, r.1.lastErr, outOfSyncHttp true c r.1.ngx.api)) =
      [(false, true, ["ns_svc_80"]), (true, false, ["ns_svc_80"])] ∧
    (traceH false HState.init ops).map (fun r => (quiet r, r.1.lastErr, outOfSyncHttp false c r.1.ngx.api)) =
      [(false, true, ["ns_svc_80"]), (true, false, [])] := by
  refine ⟨⟨by decide, by decide⟩, by decide, by decide⟩

/-! ## 4. Retry: a batch the environment does not disturb repairs whatever earlier failures left -/

/-- **fault_free_batch_is_quiet_and_in_sync.** After ANY history of failures, a batch whose calls all succeed
records no error and (OSS, Plus/ClusterStateChange: for every upstream; Plus/EndpointsOnlyChange: for every
upstream NGINX knows) leaves NGINX with the servers of the CURRENT configuration — even when that configuration
equals the one a failed batch generated before. -/
theorem fault_free_batch_is_quiet_and_in_sync (plus : Bool) (s0 : HState) (h0 : plus = true → s0.ngx.Inv)
    (pre : List HOp) (o : HOp) (hc : o.conf.WF) (hf : o.faults = Faults.none) :
    let before := (runH plus s0 pre).ngx.api
    let r := stepH plus (runH plus s0 pre) o
    quiet r = true ∧ r.1.lastErr = false ∧
    ((plus = false ∨ o.kind = .cluster) → inSync plus o.conf r.1.ngx.api = true) ∧
    (∀ u ∈ o.conf.http, u.name ∈ before.http.keys → SetEq (r.1.ngx.api.http.servers u.name) (heldHttpExpected plus u)) ∧
    (∀ u ∈ o.conf.stream, u.name ∈ before.stream.keys →
      SetEq (r.1.ngx.api.stream.servers u.name) (heldStreamExpected plus u)) := by
  intro before r
  have hq2 : (applyOp plus o (runH plus s0 pre).ngx).2 = false := applyOp_nofaults plus hf _
  have hq : quiet r = true := by
    simp only [r, quiet, stepH, applyOp_nofaults plus hf, Bool.not_false]
  exact ⟨hq, hq2, every_quiet_batch_is_in_sync plus s0 h0 pre o hc hq⟩

/-- **api_failure_is_local** (Plus). A failing `UpdateHTTPServers` / `UpdateStreamServers` call does not keep the OTHER
upstreams from being updated: in a batch whose only faults are per-upstream API errors, every upstream of the batch's
configuration that NGINX knows and whose own call the environment did not fail holds the batch's endpoints afterwards —
although the batch records an error. (The update loops go on after an error and join the errors.) -/
theorem api_failure_is_local (s0 : HState) (h0 : s0.ngx.Inv) (pre : List HOp) (o : HOp) (hc : o.conf.WF)
    (hf : o.faults.replace = false ∧ o.faults.reload = false ∧ o.faults.get = false) :
    let before := apiBeforeUpdate o (runH true s0 pre).ngx
    let after := (stepH true (runH true s0 pre) o).1.ngx.api
    (∀ u ∈ o.conf.http, u.name ∉ o.faults.http → u.name ∈ before.http.keys →
      SetEq (after.http.servers u.name) (heldHttpExpected true u)) ∧
    (∀ u ∈ o.conf.stream, u.name ∉ o.faults.stream → u.name ∈ before.stream.keys →
      SetEq (after.stream.servers u.name) (heldStreamExpected true u)) := by
  intro before after
  have hinv : (runH true s0 pre).ngx.Inv := inv_runH_plus pre s0 h0
  have hnr : o.faults.noReload = false := by simp [Faults.noReload, hf.1, hf.2.1]
  cases hk : o.kind with
  | cluster =>
    have hafter : after = (updateUpstreamServersF o.faults o.conf
        { (runH true s0 pre).ngx with api := loadPlus o.conf (runH true s0 pre).ngx.state }).1.api := by
      show (applyOp true o (runH true s0 pre).ngx).1.api = _
      rw [applyOp_plus_cluster hk]; simp [hnr]
    have hb : before = loadPlus o.conf (runH true s0 pre).ngx.state := by simp [before, apiBeforeUpdate, hk]
    rw [hafter, hb]
    exact updateF_local (x := { (runH true s0 pre).ngx with api := loadPlus o.conf (runH true s0 pre).ngx.state })
      hc (inv_loadPlus _ hinv.state) hf.2.2
  | endpoints =>
    have hafter : after = (updateUpstreamServersF o.faults o.conf (runH true s0 pre).ngx).1.api := by
      show (applyOp true o (runH true s0 pre).ngx).1.api = _
      rw [applyOp_plus_endpoints hk]
    have hb : before = (runH true s0 pre).ngx.api := by simp [before, apiBeforeUpdate, hk]
    rw [hafter, hb]
    exact updateF_local hc hinv.api hf.2.2

example :
    let c1 : Conf := ⟨[⟨"u", [⟨"10.0.0.1", 80, false⟩]⟩, ⟨"v", [⟨"10.0.0.9", 80, false⟩]⟩], []⟩
    let c2 : Conf := ⟨[⟨"u", [⟨"10.0.0.2", 80, false⟩]⟩, ⟨"v", [⟨"10.0.0.8", 80, false⟩]⟩], []⟩
    let r := stepH true (runH true HState.init [⟨.cluster, c1, Faults.none⟩]) ⟨.endpoints, c2, ⟨false, false, false, ["u"], []⟩⟩
    quiet r = false ∧ r.1.ngx.api.http = [("u", ["10.0.0.1:80"]), ("v", ["10.0.0.8:80"])] := by
  refine ⟨by decide, by decide⟩

/-! ## 5. The "skip when equal to the last generated configuration" variant is refuted -/

/-- **skip_when_equal_to_last_generated_refuted** (seeded change C13-r3m2). Endpoints change A → B, the application
of B fails (OSS: reload error; Plus: the API call of the upstream fails), a further EndpointSlice event resolves to
the same set B. The handler as written (`traceH`) applies B again: third batch quiet AND in sync. The variant that
compares with `latestConfiguration` (`traceSkip`) returns early: third batch quiet, NGINX keeps the servers of A —
`every_quiet_batch_is_in_sync` and `fault_free_batch_is_quiet_and_in_sync` do not hold for it. -/
theorem skip_when_equal_to_last_generated_refuted :
    let cA : Conf := ⟨[⟨"ns_svc_80", [⟨"10.0.0.1", 80, false⟩]⟩], []⟩
    let cB : Conf := ⟨[⟨"ns_svc_80", [⟨"10.0.0.2", 80, false⟩]⟩], []⟩
    let oss : List HOp := [⟨.cluster, cA, Faults.none⟩, ⟨.endpoints, cB, ⟨false, true, false, [], []⟩⟩,
      ⟨.endpoints, cB, Faults.none⟩]
    let pls : List HOp := [⟨.cluster, cA, Faults.none⟩, ⟨.endpoints, cB, ⟨false, false, false, ["ns_svc_80"], []⟩⟩,
      ⟨.endpoints, cB, Faults.none⟩]
    let obs := fun (plus : Bool) (r : HState × Bool) => (quiet r, inSync plus cB r.1.ngx.api, r.1.ngx.api.http.servers "ns_svc_80")
    (traceH false HState.init oss).map (obs false) =
      [(true, false, ["10.0.0.1:80"]), (false, false, ["10.0.0.1:80"]), (true, true, ["10.0.0.2:80"])] ∧
    (traceSkip false HState.init oss).map (obs false) =
      [(true, false, ["10.0.0.1:80"]), (false, false, ["10.0.0.1:80"]), (true, false, ["10.0.0.1:80"])] ∧
    (traceH true HState.init pls).map (obs true) =
      [(true, false, ["10.0.0.1:80"]), (false, false, ["10.0.0.1:80"]), (true, true, ["10.0.0.2:80"])] ∧
    (traceSkip true HState.init pls).map (obs true) =
      [(true, false, ["10.0.0.1:80"]), (false, false, ["10.0.0.1:80"]), (true, false, ["10.0.0.1:80"])] := by
  refine ⟨by decide, by decide, by decide, by decide⟩

/-- also for a Service that went to zero endpoints: the variant keeps the old servers instead of the 503 placeholder -/
theorem skip_variant_keeps_old_servers_instead_of_503 :
    let cA : Conf := ⟨[⟨"ns_svc_80", [⟨"10.0.0.1", 80, false⟩]⟩], []⟩
    let c0 : Conf := ⟨[⟨"ns_svc_80", []⟩], []⟩
    let ops : List HOp := [⟨.cluster, cA, Faults.none⟩, ⟨.endpoints, c0, ⟨true, false, false, [], []⟩⟩,
      ⟨.endpoints, c0, Faults.none⟩]
    ((traceH false HState.init ops).map fun r => r.1.ngx.api.http.servers "ns_svc_80") =
      [["10.0.0.1:80"], ["10.0.0.1:80"], [nginx503Server]] ∧
    ((traceSkip false HState.init ops).map fun r => r.1.ngx.api.http.servers "ns_svc_80") =
      [["10.0.0.1:80"], ["10.0.0.1:80"], ["10.0.0.1:80"]] := by
  refine ⟨by decide, by decide⟩

/-! non-vacuity: a history with every fault kind, partial API failure included; Plus -/
example :
    let c1 : Conf := ⟨[⟨"u", [⟨"10.0.0.1", 80, false⟩]⟩, ⟨"v", [⟨"10.0.0.9", 80, false⟩]⟩], [⟨"s", [⟨"fd00::1", 443, true⟩]⟩]⟩
    let c2 : Conf := ⟨[⟨"u", [⟨"10.0.0.2", 80, false⟩]⟩, ⟨"v", [⟨"10.0.0.8", 80, false⟩]⟩], [⟨"s", [⟨"fd00::2", 443, true⟩]⟩]⟩
    let ops : List HOp := [⟨.cluster, c1, Faults.none⟩, ⟨.endpoints, c2, ⟨false, false, false, ["u"], ["s"]⟩⟩,
      ⟨.endpoints, c2, ⟨false, false, true, [], []⟩⟩, ⟨.cluster, c2, ⟨true, false, false, [], []⟩⟩,
      ⟨.endpoints, c2, Faults.none⟩]
    c1.WF ∧ c2.WF ∧
    (traceH true HState.init ops).map (fun r => (quiet r, outOfSyncHttp true c2 r.1.ngx.api, outOfSyncStream true c2 r.1.ngx.api)) =
      [(true, ["u", "v"], ["s"]), (false, ["u"], ["s"]), (false, ["u"], ["s"]), (false, ["u"], ["s"]), (true, [], [])] ∧
    (lastLoaded ops none).map (fun c => (c.http, c.stream)) = some (c1.http, c1.stream) := by
  refine ⟨⟨by decide, by decide⟩, ⟨by decide, by decide⟩, by decide, by decide⟩

/-! ## 6. Tie to the source: the two arms, the error recording, the two application functions -/

/-- The `EndpointsOnlyChange` and `ClusterStateChange` arms of `HandleEventBatch` are, statement for statement, what
`stepH`/`applyOp` transcribe: build, `setLatestConfiguration(&cfg)` BEFORE the application, no comparison with the
previous configuration, Plus ⇒ `updateUpstreamServers` / else `updateNginxConf`; after the switch the error is
logged and stored in `latestReloadResult`. (`updateUpstreamServersBody` and `updateNginxConfBody` are pinned in
`handler_source_as_modelled` of `Props/C13.lean`.) -/
theorem handler_arms_source_as_modelled :
    Generated.Resolver.endpointsOnlyArm =
      ["h.version++",
       "cfg := dataplane.BuildConfiguration(ctx, gr, h.cfg.serviceResolver, h.version)",
       "depCtx, getErr := h.getDeploymentContext(ctx)",
       "if getErr != nil { logger.Error(getErr, \"error getting deployment context for usage reporting\") }",
       "cfg.DeploymentContext = depCtx",
       "h.setLatestConfiguration(&cfg)",
       "if h.cfg.plus { err = h.updateUpstreamServers(cfg) } else { err = h.updateNginxConf(ctx, cfg) }"] ∧
    Generated.Resolver.clusterStateArm =
      ["h.version++",
       "cfg := dataplane.BuildConfiguration(ctx, gr, h.cfg.serviceResolver, h.version)",
       "depCtx, getErr := h.getDeploymentContext(ctx)",
       "if getErr != nil { logger.Error(getErr, \"error getting deployment context for usage reporting\") }",
       "cfg.DeploymentContext = depCtx",
       "h.setLatestConfiguration(&cfg)",
       "err = h.updateNginxConf(ctx, cfg)"] ∧
    Generated.Resolver.handleEventBatchAfterSwitch =
      ["var nginxReloadRes status.NginxReloadResult",
       "if err != nil { logger.Error(err, \"Failed to update NGINX configuration\") nginxReloadRes.Error = err if !h.cfg.nginxConfiguredOnStartChecker.ready { h.cfg.nginxConfiguredOnStartChecker.firstBatchError = err } } else { logger.Info(\"NGINX configuration was successfully updated\") if !h.cfg.nginxConfiguredOnStartChecker.ready { h.cfg.nginxConfiguredOnStartChecker.setAsReady() } }",
       "h.latestReloadResult = nginxReloadRes",
       "h.updateStatuses(ctx, logger, gr)"] ∧
    Generated.Resolver.handleEventBatchSwitchCases =
      ["state.NoChange", "state.EndpointsOnlyChange", "state.ClusterStateChange"] ∧
    Generated.Resolver.latestConfigurationUses =
      ["GetLatestConfiguration: return h.latestConfiguration",
       "setLatestConfiguration: h.latestConfiguration = cfg"] := by
  exact ⟨rfl, rfl, rfl, rfl, rfl⟩

end NGF.Resolver
