/-
C13 — the event handler's application paths UNDER FAULTS (`NGF.Model.ResolverFaults`: `stepH`, `runH`, `traceH`
are the functions the driver runs on the `faults` stream and the correspondence compares with the real
`HandleEventBatch`; `inSync`/`outOfSyncHttp`/`outOfSyncStream` are what the judge evaluates on the REAL views).

Quantification: ALL handler states reached by ALL sequences of batches (change kind × configuration × fault
script: ReplaceFiles error, Reload error, GetUpstreams error, per-upstream API update errors), OSS and Plus.
Helper lemmas: `NGF.Proofs.ResolverFaults`.
-/
import NGF.Proofs.ResolverFaults
import NGF.Generated.ResolverFacts

namespace NGF.Resolver

/-! ## 1. One batch -/

/-- OSS: a batch either fails as a whole (ReplaceFiles / Reload error: NGINX keeps what it held, the error is
recorded) or NGINX holds exactly the servers of the files generated from the batch's configuration; in both
cases the handler remembers the batch's configuration as `latestConfiguration`. -/
theorem oss_batch_spec (s : HState) (o : HOp) :
    stepH false s o =
      if o.faults.noReload then (⟨s.ngx, some o.conf, true⟩, true)
      else (⟨{ s.ngx with api := loadOss o.conf }, some o.conf, false⟩, false) := by
  simp only [stepH, applyOp_oss]
  cases o.faults.noReload <;> rfl

/-- the handler's memory is the last GENERATED configuration — whether or not NGINX accepted it -/
theorem latest_is_last_generated (plus : Bool) (s : HState) (pre : List HOp) (o : HOp) :
    (stepH plus (runH plus s pre) o).1.latest = some o.conf := rfl

/-- … and after a failed batch it is NOT what NGINX holds (so it must not be used to decide "nothing to do") -/
theorem latest_not_held_after_failure :
    let cA : Conf := ⟨[⟨"ns_svc_80", [⟨"10.0.0.1", 80, false⟩]⟩], []⟩
    let cB : Conf := ⟨[⟨"ns_svc_80", [⟨"10.0.0.2", 80, false⟩]⟩], []⟩
    let s := runH false HState.init [⟨.cluster, cA, Faults.none⟩, ⟨.endpoints, cB, ⟨false, true, false, [], []⟩⟩]
    s.latest.map (·.http) = some cB.http ∧ s.lastErr = true ∧
    s.ngx.api.http = [("ns_svc_80", ["10.0.0.1:80"])] ∧ inSync false cB s.ngx.api = false := by
  refine ⟨by decide, by decide, by decide, by decide⟩

/-! ## 2. `held_equals_last_successful` -/

/-- **held_equals_last_successful (OSS, all sequences, all fault scripts).** NGINX holds exactly the servers of
the configuration of the LAST batch whose ReplaceFiles and Reload both succeeded (what it held at the start when
there is none); failed batches leave no trace. -/
theorem held_equals_last_successful : ∀ (ops : List HOp) (s : HState),
    (runH false s ops).ngx.api =
      match (ops.filter fun o => !o.faults.noReload).getLast? with
      | some o => loadOss o.conf
      | none => s.ngx.api
  | [], _ => rfl
  | o :: os, s => by
    simp only [runH]
    rw [held_equals_last_successful os, oss_batch_spec, List.filter_cons]
    by_cases hn : o.faults.noReload = true
    · simp only [hn, if_true, Bool.not_true, Bool.false_eq_true, if_false]
    · simp only [hn, Bool.false_eq_true, if_false, Bool.not_false, if_true, List.getLast?_cons]
      cases (os.filter fun o => !o.faults.noReload).getLast? <;> rfl

/-- **failed_whole_batch_changes_nothing (Plus).** A batch that fails as a whole — it had to write and reload and
ReplaceFiles or Reload failed, or it went through the API alone and `GetUpstreams` failed — leaves NGINX (servers and
state files) exactly as it was and records the error; the handler then remembers the failure, which sends the next
EndpointsOnlyChange through the files and a reload. -/
theorem failed_whole_batch_changes_nothing (s : HState) (o : HOp)
    (h : (viaReload s.lastErr o = true ∧ o.faults.noReload = true) ∨
         (viaReload s.lastErr o = false ∧ o.faults.get = true)) :
    (stepH true s o).1.ngx = s.ngx ∧ (stepH true s o).1.lastErr = true ∧ (stepH true s o).2 = true ∧
    ∀ o', viaReload (stepH true s o).1.lastErr o' = true := by
  have key : applyOp true s.lastErr o s.ngx = (s.ngx, true) := by
    rcases h with ⟨hv, hn⟩ | ⟨hv, hg⟩
    · exact applyOp_plus_noReload_err hv hn
    · rw [applyOp_plus_api hv]; simp [updateUpstreamServersF, hg]
  refine ⟨by simp [stepH, key], by simp [stepH, key], by simp [stepH, key], ?_⟩
  intro o'; simp [stepH, key, viaReload]

/-! ## 3. `every_quiet_batch_is_in_sync` -/

/-- **every_quiet_batch_is_in_sync.** For ALL histories `pre` (any kinds, configurations, fault scripts) from any
start state and every further batch `o`: if the handler records no error for `o`, then
* OSS (either kind), Plus/ClusterStateChange, and Plus/EndpointsOnlyChange while the last apply is remembered as failed
  (it reloads, /repo c94173a): NGINX holds, for EVERY upstream of `o`'s configuration, exactly the servers of that
  configuration (`inSync`, the Bool the judge evaluates on the real views);
* Plus/EndpointsOnlyChange through the API: the same for every upstream NGINX knows at that moment.
Hence a failed application can never be followed by a quiet batch that leaves NGINX with the old servers: the
handler has to apply again. -/
theorem every_quiet_batch_is_in_sync (plus : Bool) (s0 : HState) (h0 : plus = true → s0.ngx.Inv)
    (pre : List HOp) (o : HOp) (hc : o.conf.WF)
    (hq : quiet (stepH plus (runH plus s0 pre) o) = true) :
    let before := (runH plus s0 pre).ngx.api
    let after := (stepH plus (runH plus s0 pre) o).1.ngx.api
    ((plus = false ∨ viaReload (runH plus s0 pre).lastErr o = true) → inSync plus o.conf after = true) ∧
    (∀ u ∈ o.conf.http, u.name ∈ before.http.keys →
      SetEq (after.http.servers u.name) (heldHttpExpected plus u)) ∧
    (∀ u ∈ o.conf.stream, u.name ∈ before.stream.keys →
      SetEq (after.stream.servers u.name) (heldStreamExpected plus u)) := by
  intro before after
  have hq' : (applyOp plus (runH plus s0 pre).lastErr o (runH plus s0 pre).ngx).2 = false := by
    simpa [quiet, stepH] using hq
  cases plus with
  | false =>
    have hafter : after = loadOss o.conf := by
      show (applyOp false _ o (runH false s0 pre).ngx).1.api = _
      rw [applyOp_oss] at hq' ⊢
      by_cases hn : o.faults.noReload = true
      · simp [hn] at hq'
      · simp [hn]
    rw [hafter]
    have hs := inSync_iff.mp (inSync_loadOss hc)
    exact ⟨fun _ => inSync_loadOss hc, fun u hu _ => hs.1 u hu, fun u hu _ => hs.2 u hu⟩
  | true =>
    have hinv : (runH true s0 pre).ngx.Inv := inv_runH_plus pre s0 (h0 rfl)
    have hafter : after = updateUpstreamServers o.conf
        (apiBeforeUpdate (runH true s0 pre).lastErr o (runH true s0 pre).ngx) := applyOp_plus_quiet hq'
    rw [hafter]
    by_cases hv : viaReload (runH true s0 pre).lastErr o = true
    · simp only [apiBeforeUpdate, hv, if_true]
      exact ⟨fun _ => inSync_iff.mpr ⟨fun u hu => loaded_update_http hc hinv.state hu,
          fun u hu => loaded_update_stream hc hinv.state hu⟩,
        fun u hu _ => loaded_update_http hc hinv.state hu, fun u hu _ => loaded_update_stream hc hinv.state hu⟩
    · have hv' : viaReload (runH true s0 pre).lastErr o = false := by simpa using hv
      simp only [apiBeforeUpdate, hv', Bool.false_eq_true, if_false]
      refine ⟨?_, fun u hu hk => endpoints_step_http hc hinv.api hu hk,
        fun u hu hk => endpoints_step_stream hc hinv.api hu hk⟩
      rintro (h | h)
      · cases h
      · cases h

/-- **every_quiet_batch_is_in_sync — NGINX Plus, every http upstream** (full strength since /repo c94173a). Along ANY
history in which an EndpointsOnlyChange keeps the http upstream names of the configuration generated just before it
(`Coherent`: what the change processor's classification means), with ANY fault scripts: a batch the handler records no
error for leaves EVERY http upstream of its configuration with exactly that configuration's endpoints — also right after
failed writes / reloads / API calls. For stream upstreams the only exclusion left is the one the registered finding
`C13:plus_stream_upstream_absent` forces: a stream upstream WITH endpoints that NGINX does not know on the API path.
(`C13:plus_empty_no_503` is about WHICH servers an empty upstream should hold — `heldHttpExpected true` = none — not
about synchronisation.) -/
theorem every_quiet_batch_is_in_sync_plus (s0 : HState) (h0 : s0.ngx.Inv) (hk0 : NamesKnown s0)
    (pre : List HOp) (hpre : Coherent s0 pre) (o : HOp) (hc : o.conf.WF)
    (ho : CoherentStep (runH true s0 pre) o)
    (hq : quiet (stepH true (runH true s0 pre) o) = true) :
    let before := (runH true s0 pre).ngx.api
    let after := (stepH true (runH true s0 pre) o).1.ngx.api
    (∀ u ∈ o.conf.http, SetEq (after.http.servers u.name) (heldHttpExpected true u)) ∧
    (∀ u ∈ o.conf.stream,
      (u.eps ≠ [] → viaReload (runH true s0 pre).lastErr o = true ∨ u.name ∈ before.stream.keys) →
      SetEq (after.stream.servers u.name) (heldStreamExpected true u)) := by
  intro before after
  have hbase := every_quiet_batch_is_in_sync true s0 (fun _ => h0) pre o hc hq
  have hknown := namesKnown_runH pre s0 hk0 hpre
  by_cases hv : viaReload (runH true s0 pre).lastErr o = true
  · have hs := inSync_iff.mp (hbase.1 (.inr hv))
    exact ⟨hs.1, fun u hu _ => hs.2 u hu⟩
  · have hv' : viaReload (runH true s0 pre).lastErr o = false := by simpa using hv
    obtain ⟨hkind, hle⟩ := viaReload_false hv'
    obtain ⟨c0, hc0, hsame⟩ := ho hkind
    constructor
    · intro u hu
      apply hbase.2.1 u hu
      have hin : u.name ∈ c0.http.map (·.name) := by rw [← hsame]; exact List.mem_map.mpr ⟨u, hu, rfl⟩
      obtain ⟨u0, hu0, hn0⟩ := List.mem_map.mp hin
      rw [← hn0]; exact hknown hle c0 hc0 u0 hu0
    · intro u hu hex
      by_cases hk : u.name ∈ (runH true s0 pre).ngx.api.stream.keys
      · exact hbase.2.2 u hu hk
      · have he : u.eps = [] := by
          cases h : u.eps with
          | nil => rfl
          | cons e t =>
            rcases hex (by rw [h]; simp) with h1 | h1
            · rw [hv'] at h1; cases h1
            · exact absurd h1 hk
        have hq' : (applyOp true (runH true s0 pre).lastErr o (runH true s0 pre).ngx).2 = false := by
          simpa [quiet, stepH] using hq
        have hafter : after = updateUpstreamServers o.conf (runH true s0 pre).ngx.api := by
          have := applyOp_plus_quiet hq'
          simp only [apiBeforeUpdate, hv', Bool.false_eq_true, if_false] at this
          exact this
        have habs := @endpoints_step_absent o.conf (runH true s0 pre).ngx.api u.name hk
        have : after.stream.get u.name = none := by rw [hafter]; exact habs
        simp [Table.servers, this, heldStreamExpected, he, convertEndpoints, SetEq]

/-- the excluded stream region is not empty (`C13:plus_stream_upstream_absent`): a quiet API batch, stream upstream with
endpoints unknown to NGINX -/
theorem quiet_batch_stream_upstream_absent_out_of_sync :
    let cR : Conf := ⟨[], [⟨"ns_svc_443", []⟩]⟩
    let c : Conf := ⟨[], [⟨"ns_svc_443", [⟨"10.0.1.1", 80, false⟩]⟩]⟩
    let ops : List HOp := [⟨.cluster, cR, Faults.none⟩, ⟨.endpoints, c, Faults.none⟩]
    Coherent HState.init ops ∧
    (traceH true HState.init ops).map (fun r => (quiet r, outOfSyncStream true c r.1.ngx.api)) =
      [(true, ["ns_svc_443"]), (true, ["ns_svc_443"])] := by
  intro cR c ops
  refine ⟨?_, by decide⟩
  show CoherentStep _ _ ∧ (CoherentStep _ _ ∧ True)
  exact ⟨fun h => (by cases h), fun _ => ⟨_, rfl, rfl⟩, trivial⟩

/-- **The repaired sequence** (former known finding `C13:plus_quiet_after_failed_reload`, fixed by /repo c94173a): a
ClusterStateChange whose reload fails, then an EndpointSlice event. The code (`traceH`) sends the second batch through
the files and a reload: quiet AND in sync, like OSS. The PRE-FIX arm (`traceHPre`: `if h.cfg.plus { updateUpstreamServers
}`) only talked to the API, which does not know the upstream: no call, no error, `latestReloadResult.Error` cleared,
NGINX without the upstream — kept as a regression detector. -/
theorem quiet_endpoints_batch_after_failed_reload :
    let c : Conf := ⟨[⟨"ns_svc_80", [⟨"10.0.0.1", 80, false⟩]⟩], []⟩
    let ops : List HOp := [⟨.cluster, c, ⟨false, true, false, [], []⟩⟩, ⟨.endpoints, c, Faults.none⟩]
    c.WF ∧
    (traceH true HState.init ops).map (fun r => (quiet r, r.1.lastErr, outOfSyncHttp true c r.1.ngx.api)) =
      [(false, true, ["ns_svc_80"]), (true, false, [])] ∧
    (traceHPre true HState.init ops).map (fun r => (quiet r, r.1.lastErr, outOfSyncHttp true c r.1.ngx.api)) =
      [(false, true, ["ns_svc_80"]), (true, false, ["ns_svc_80"])] ∧
    (traceH false HState.init ops).map (fun r => (quiet r, r.1.lastErr, outOfSyncHttp false c r.1.ngx.api)) =
      [(false, true, ["ns_svc_80"]), (true, false, [])] := by
  refine ⟨⟨by decide, by decide⟩, by decide, by decide, by decide⟩

/-! ## 4. Retry: a batch the environment does not disturb repairs whatever earlier failures left -/

/-- **fault_free_batch_is_quiet_and_in_sync.** After ANY history of failures, a batch whose calls all succeed
records no error and (OSS, Plus/ClusterStateChange, Plus/EndpointsOnlyChange after a remembered failure: for every
upstream; Plus/EndpointsOnlyChange through the API: for every upstream NGINX knows) leaves NGINX with the servers of the
CURRENT configuration — even when that configuration equals the one a failed batch generated before. -/
theorem fault_free_batch_is_quiet_and_in_sync (plus : Bool) (s0 : HState) (h0 : plus = true → s0.ngx.Inv)
    (pre : List HOp) (o : HOp) (hc : o.conf.WF) (hf : o.faults = Faults.none) :
    let before := (runH plus s0 pre).ngx.api
    let r := stepH plus (runH plus s0 pre) o
    quiet r = true ∧ r.1.lastErr = false ∧
    ((plus = false ∨ viaReload (runH plus s0 pre).lastErr o = true) → inSync plus o.conf r.1.ngx.api = true) ∧
    (∀ u ∈ o.conf.http, u.name ∈ before.http.keys → SetEq (r.1.ngx.api.http.servers u.name) (heldHttpExpected plus u)) ∧
    (∀ u ∈ o.conf.stream, u.name ∈ before.stream.keys →
      SetEq (r.1.ngx.api.stream.servers u.name) (heldStreamExpected plus u)) := by
  intro before r
  have hq2 : (applyOp plus (runH plus s0 pre).lastErr o (runH plus s0 pre).ngx).2 = false :=
    applyOp_nofaults plus _ hf _
  have hq : quiet r = true := by
    simp only [r, quiet, stepH, hq2, Bool.not_false]
  exact ⟨hq, hq2, every_quiet_batch_is_in_sync plus s0 h0 pre o hc hq⟩

/-- **api_failure_is_local** (Plus). A failing `UpdateHTTPServers` / `UpdateStreamServers` call does not keep the OTHER
upstreams from being updated: in a batch whose only faults are per-upstream API errors, every upstream of the batch's
configuration that NGINX knows and whose own call the environment did not fail holds the batch's endpoints afterwards —
although the batch records an error. (The update loops go on after an error and join the errors.) -/
theorem api_failure_is_local (s0 : HState) (h0 : s0.ngx.Inv) (pre : List HOp) (o : HOp) (hc : o.conf.WF)
    (hf : o.faults.replace = false ∧ o.faults.reload = false ∧ o.faults.get = false) :
    let before := apiBeforeUpdate (runH true s0 pre).lastErr o (runH true s0 pre).ngx
    let after := (stepH true (runH true s0 pre) o).1.ngx.api
    (∀ u ∈ o.conf.http, u.name ∉ o.faults.http → u.name ∈ before.http.keys →
      SetEq (after.http.servers u.name) (heldHttpExpected true u)) ∧
    (∀ u ∈ o.conf.stream, u.name ∉ o.faults.stream → u.name ∈ before.stream.keys →
      SetEq (after.stream.servers u.name) (heldStreamExpected true u)) := by
  intro before after
  have hinv : (runH true s0 pre).ngx.Inv := inv_runH_plus pre s0 h0
  have hnr : o.faults.noReload = false := by simp [Faults.noReload, hf.1, hf.2.1]
  by_cases hv : viaReload (runH true s0 pre).lastErr o = true
  · have hafter : after = (updateUpstreamServersF o.faults o.conf
        { (runH true s0 pre).ngx with api := loadPlus o.conf (runH true s0 pre).ngx.state }).1.api := by
      show (applyOp true _ o (runH true s0 pre).ngx).1.api = _
      rw [applyOp_plus_reload hv]; simp [hnr]
    have hb : before = loadPlus o.conf (runH true s0 pre).ngx.state := by simp [before, apiBeforeUpdate, hv]
    rw [hafter, hb]
    exact updateF_local (x := { (runH true s0 pre).ngx with api := loadPlus o.conf (runH true s0 pre).ngx.state })
      hc (inv_loadPlus _ hinv.state) hf.2.2
  · have hv' : viaReload (runH true s0 pre).lastErr o = false := by simpa using hv
    have hafter : after = (updateUpstreamServersF o.faults o.conf (runH true s0 pre).ngx).1.api := by
      show (applyOp true _ o (runH true s0 pre).ngx).1.api = _
      rw [applyOp_plus_api hv']
    have hb : before = (runH true s0 pre).ngx.api := by simp [before, apiBeforeUpdate, hv']
    rw [hafter, hb]
    exact updateF_local hc hinv.api hf.2.2

example :
    let c1 : Conf := ⟨[⟨"u", [⟨"10.0.0.1", 80, false⟩]⟩, ⟨"v", [⟨"10.0.0.9", 80, false⟩]⟩], []⟩
    let c2 : Conf := ⟨[⟨"u", [⟨"10.0.0.2", 80, false⟩]⟩, ⟨"v", [⟨"10.0.0.8", 80, false⟩]⟩], []⟩
    let r := stepH true (runH true HState.init [⟨.cluster, c1, Faults.none⟩]) ⟨.endpoints, c2, ⟨false, false, false, ["u"], []⟩⟩
    quiet r = false ∧ r.1.ngx.api.http = [("u", ["10.0.0.1:80"]), ("v", ["10.0.0.8:80"])] := by
  refine ⟨by decide, by decide⟩

/-! ## 5. The "skip when equal to the last generated configuration" variant is refuted -/

/-- **skip_when_equal_to_last_generated_refuted** (seeded change C13-r3m2). Endpoints change A → B, the application
of B fails (OSS: reload error; Plus: the API call of the upstream fails), a further EndpointSlice event resolves to
the same set B. The handler as written (`traceH`) applies B again: third batch quiet AND in sync. The variant that
compares with `latestConfiguration` (`traceSkip`) returns early: third batch quiet, NGINX keeps the servers of A —
`every_quiet_batch_is_in_sync` and `fault_free_batch_is_quiet_and_in_sync` do not hold for it. -/
theorem skip_when_equal_to_last_generated_refuted :
    let cA : Conf := ⟨[⟨"ns_svc_80", [⟨"10.0.0.1", 80, false⟩]⟩], []⟩
    let cB : Conf := ⟨[⟨"ns_svc_80", [⟨"10.0.0.2", 80, false⟩]⟩], []⟩
    let oss : List HOp := [⟨.cluster, cA, Faults.none⟩, ⟨.endpoints, cB, ⟨false, true, false, [], []⟩⟩,
      ⟨.endpoints, cB, Faults.none⟩]
    let pls : List HOp := [⟨.cluster, cA, Faults.none⟩, ⟨.endpoints, cB, ⟨false, false, false, ["ns_svc_80"], []⟩⟩,
      ⟨.endpoints, cB, Faults.none⟩]
    let obs := fun (plus : Bool) (r : HState × Bool) => (quiet r, inSync plus cB r.1.ngx.api, r.1.ngx.api.http.servers "ns_svc_80")
    (traceH false HState.init oss).map (obs false) =
      [(true, false, ["10.0.0.1:80"]), (false, false, ["10.0.0.1:80"]), (true, true, ["10.0.0.2:80"])] ∧
    (traceSkip false HState.init oss).map (obs false) =
      [(true, false, ["10.0.0.1:80"]), (false, false, ["10.0.0.1:80"]), (true, false, ["10.0.0.1:80"])] ∧
    (traceH true HState.init pls).map (obs true) =
      [(true, false, ["10.0.0.1:80"]), (false, false, ["10.0.0.1:80"]), (true, true, ["10.0.0.2:80"])] ∧
    (traceSkip true HState.init pls).map (obs true) =
      [(true, false, ["10.0.0.1:80"]), (false, false, ["10.0.0.1:80"]), (true, false, ["10.0.0.1:80"])] := by
  refine ⟨by decide, by decide, by decide, by decide⟩

/-- also for a Service that went to zero endpoints: the variant keeps the old servers instead of the 503 placeholder -/
theorem skip_variant_keeps_old_servers_instead_of_503 :
    let cA : Conf := ⟨[⟨"ns_svc_80", [⟨"10.0.0.1", 80, false⟩]⟩], []⟩
    let c0 : Conf := ⟨[⟨"ns_svc_80", []⟩], []⟩
    let ops : List HOp := [⟨.cluster, cA, Faults.none⟩, ⟨.endpoints, c0, ⟨true, false, false, [], []⟩⟩,
      ⟨.endpoints, c0, Faults.none⟩]
    ((traceH false HState.init ops).map fun r => r.1.ngx.api.http.servers "ns_svc_80") =
      [["10.0.0.1:80"], ["10.0.0.1:80"], [nginx503Server]] ∧
    ((traceSkip false HState.init ops).map fun r => r.1.ngx.api.http.servers "ns_svc_80") =
      [["10.0.0.1:80"], ["10.0.0.1:80"], ["10.0.0.1:80"]] := by
  refine ⟨by decide, by decide⟩

/-! non-vacuity: a history with every fault kind, partial API failure included; Plus -/
example :
    let c1 : Conf := ⟨[⟨"u", [⟨"10.0.0.1", 80, false⟩]⟩, ⟨"v", [⟨"10.0.0.9", 80, false⟩]⟩], [⟨"s", [⟨"fd00::1", 443, true⟩]⟩]⟩
    let c2 : Conf := ⟨[⟨"u", [⟨"10.0.0.2", 80, false⟩]⟩, ⟨"v", [⟨"10.0.0.8", 80, false⟩]⟩], [⟨"s", [⟨"fd00::2", 443, true⟩]⟩]⟩
    let ops : List HOp := [⟨.cluster, c1, Faults.none⟩, ⟨.endpoints, c2, ⟨false, false, false, ["u"], ["s"]⟩⟩,
      ⟨.endpoints, c2, ⟨false, false, true, [], []⟩⟩, ⟨.cluster, c2, ⟨true, false, false, [], []⟩⟩,
      ⟨.endpoints, c2, Faults.none⟩]
    c1.WF ∧ c2.WF ∧
    (traceH true HState.init ops).map (fun r => (quiet r, outOfSyncHttp true c2 r.1.ngx.api, outOfSyncStream true c2 r.1.ngx.api)) =
      [(true, ["u", "v"], ["s"]), (false, ["u"], ["s"]), (false, ["u"], ["s"]), (false, ["u"], ["s"]), (true, [], [])] ∧
    NamesKnown HState.init := by
  refine ⟨⟨by decide, by decide⟩, ⟨by decide, by decide⟩, by decide, ?_⟩
  intro _ c hc; cases hc

/-! ## 6. Tie to the source: the two arms, the error recording, the two application functions -/

/-- The `EndpointsOnlyChange` and `ClusterStateChange` arms of `HandleEventBatch` are, statement for statement, what
`stepH`/`applyOp` transcribe: build, `setLatestConfiguration(&cfg)` BEFORE the application, no comparison with the
previous configuration, Plus AND no remembered failure ⇒ `updateUpstreamServers` / else `updateNginxConf`; after the switch the error is
logged and stored in `latestReloadResult`. (`updateUpstreamServersBody` and `updateNginxConfBody` are pinned in
`handler_source_as_modelled` of `Props/C13.lean`.) -/
theorem handler_arms_source_as_modelled :
    Generated.Resolver.endpointsOnlyArm =
      ["h.version++",
       "cfg := dataplane.BuildConfiguration(ctx, gr, h.cfg.serviceResolver, h.version)",
       "depCtx, getErr := h.getDeploymentContext(ctx)",
       "if getErr != nil { logger.Error(getErr, \"error getting deployment context for usage reporting\") }",
       "cfg.DeploymentContext = depCtx",
       "h.setLatestConfiguration(&cfg)",
       "if h.cfg.plus && h.latestReloadResult.Error == nil { err = h.updateUpstreamServers(cfg) } else { err = h.updateNginxConf(ctx, cfg) }"] ∧
    Generated.Resolver.clusterStateArm =
      ["h.version++",
       "cfg := dataplane.BuildConfiguration(ctx, gr, h.cfg.serviceResolver, h.version)",
       "depCtx, getErr := h.getDeploymentContext(ctx)",
       "if getErr != nil { logger.Error(getErr, \"error getting deployment context for usage reporting\") }",
       "cfg.DeploymentContext = depCtx",
       "h.setLatestConfiguration(&cfg)",
       "err = h.updateNginxConf(ctx, cfg)"] ∧
    Generated.Resolver.handleEventBatchAfterSwitch =
      ["var nginxReloadRes status.NginxReloadResult",
       "if err != nil { logger.Error(err, \"Failed to update NGINX configuration\") nginxReloadRes.Error = err if !h.cfg.nginxConfiguredOnStartChecker.ready { h.cfg.nginxConfiguredOnStartChecker.firstBatchError = err } } else { logger.Info(\"NGINX configuration was successfully updated\") if !h.cfg.nginxConfiguredOnStartChecker.ready { h.cfg.nginxConfiguredOnStartChecker.setAsReady() } }",
       "h.latestReloadResult = nginxReloadRes",
       "h.updateStatuses(ctx, logger, gr)"] ∧
    Generated.Resolver.handleEventBatchSwitchCases =
      ["state.NoChange", "state.EndpointsOnlyChange", "state.ClusterStateChange"] ∧
    Generated.Resolver.latestConfigurationUses =
      ["GetLatestConfiguration: return h.latestConfiguration",
       "setLatestConfiguration: h.latestConfiguration = cfg"] := by
  exact ⟨rfl, rfl, rfl, rfl, rfl⟩

end NGF.Resolver
