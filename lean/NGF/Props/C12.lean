/-
C12 — a reload is reported successful only if NGINX really runs that version.

Theorems about `NGF.Reload.reload` / `waitForCorrectVersion` (every oracle: arbitrary scripts for the
pid file, the children file, kill, the version endpoint, arbitrary poll budgets), about
`NGF.HandlerVer.hstep` / `hrun` (every batch sequence, every environment per batch) and about
`NGF.HandlerVer.fold` (every condition list).  These are the functions `ngfdriver_C12` runs.
-/
import NGF.Model.Reload
import NGF.Model.HandlerVer
import NGF.Proofs.Reload
import NGF.Proofs.HandlerVer
import NGF.Generated.ReloadFacts
import NGF.Props.C12Apply

namespace NGF.C12
open NGF.Reload NGF.HandlerVer

/-! ## 1. Reload -/

/-- `Reload(n) = nil` exactly when: the pid was found, the children file was read, the HUP was
delivered, some later read of the children file differed from the pre-HUP content (all reads before
it were unchanged and none failed), and then the version endpoint answered exactly `n` after only
well-formed answers different from `n` — all within the deadline. -/
theorem reload_ok_iff (o : Oracle) (n : Int) : (reload o n).res = none ↔ Running o n :=
  reload_res_none_iff o n

/-- The pid is found exactly when the pid file shows up within `PidFileTimeout` after only
"does not exist" results (any other stat error aborts) and its content parses. -/
theorem find_pid_ok_iff (o : Oracle) (p : Nat) :
    findMainProcess o = .ok p ↔
      o.pidRead = .pid p ∧ ∃ i, i ≤ o.pidBudget ∧ o.pidPolls[i]? = some .present ∧
        ∀ k, k < i → o.pidPolls[k]? = some .missing := by
  unfold findMainProcess
  rcases hp : pollLoop pidTick o.pidBudget o.pidPolls with ⟨r, b, rest⟩
  have key := pollLoop_ok_iff pidTick o.pidPolls o.pidBudget
  cases r with
  | ok =>
    obtain ⟨i, hi, ⟨x, hx, hfx⟩, hbefore, _, _⟩ := (key b rest).1 hp
    rw [pidTick_done.1 hfx] at hx
    have hb : ∀ k, k < i → o.pidPolls[k]? = some .missing := by
      intro k hk
      obtain ⟨y, hy, hfy⟩ := hbefore k hk
      rw [pidTick_retry.1 hfy] at hy; exact hy
    cases hr : o.pidRead <;> simp
    exact fun _ => ⟨i, hi, hx, hb⟩
  | aborted =>
    simp only [reduceCtorEq, false_iff]
    rintro ⟨_, i, hi, hx, hb⟩
    have := (key (o.pidBudget - i) (o.pidPolls.drop (i + 1))).2
      ⟨i, hi, ⟨_, hx, pidTick_done.2 rfl⟩, fun k hk => ⟨_, hb k hk, pidTick_retry.2 rfl⟩, rfl, rfl⟩
    rw [hp] at this; simp at this
  | deadline =>
    simp only [reduceCtorEq, false_iff]
    rintro ⟨_, i, hi, hx, hb⟩
    have := (key (o.pidBudget - i) (o.pidPolls.drop (i + 1))).2
      ⟨i, hi, ⟨_, hx, pidTick_done.2 rfl⟩, fun k hk => ⟨_, hb k hk, pidTick_retry.2 rfl⟩, rfl, rfl⟩
    rw [hp] at this; simp at this

/-- The C12 clause "reported successful only after new NGINX workers exist and answer with exactly
that version", over every behaviour of the master. -/
theorem reload_ok_implies_running (o : Oracle) (n : Int) (h : (reload o n).res = none) :
    o.kill = true ∧ (reload o n).killCalled = true ∧
    ∃ prev c i j, o.prevRead = .content prev ∧
      o.children[i]? = some (.content c) ∧ c ≠ prev ∧
      o.versions[j]? = some (.ver n) ∧
      (∀ k, k < j → ∃ v, o.versions[k]? = some (.ver v) ∧ v ≠ n) ∧ i + j ≤ o.budget := by
  obtain ⟨_, prev, hp, hk, i, j, hb, ⟨c, hc, hne⟩, _, hv, hbefore⟩ := (reload_ok_iff o n).1 h
  refine ⟨hk, ?_, prev, c, i, j, hp, hc, hne, hv, hbefore, hb⟩
  obtain ⟨⟨p, hf⟩, _⟩ := (reload_ok_iff o n).1 h
  simp [reload, hf, hp, hk]

/-- No signal is sent unless the pid was found and the children file could be read. -/
theorem no_kill_without_pid (o : Oracle) (n : Int) (h : (reload o n).killCalled = true) :
    (∃ p, findMainProcess o = .ok p) ∧ ∃ prev, o.prevRead = .content prev := by
  revert h
  unfold reload
  cases hf : findMainProcess o with
  | error e => simp
  | ok p =>
    cases hp : o.prevRead with
    | err => simp
    | content prev => simp

/-- A failing `kill` is an error (never ignored). -/
theorem kill_failure_is_error (o : Oracle) (n : Int) (h : o.kill = false) :
    (reload o n).res ≠ none := by
  intro hr
  obtain ⟨_, _, _, hk, _⟩ := (reload_ok_iff o n).1 hr
  rw [h] at hk; cases hk

/-- Workers not respawned (every read of the children file equals the pre-HUP content): never ok,
whatever the version endpoint says — in particular if it already answers `n`. -/
theorem no_new_workers_never_ok (o : Oracle) (n : Int) (prev : Nat) (hp : o.prevRead = .content prev)
    (h : ∀ r ∈ o.children, r = .content prev) : (reload o n).res ≠ none := by
  intro hr
  obtain ⟨_, prev', hp', _, i, j, _, ⟨c, hc, hne⟩, _⟩ := (reload_ok_iff o n).1 hr
  rw [hp] at hp'; cases hp'
  have := h _ (List.mem_of_getElem? hc)
  cases this; exact hne rfl

/-- A stale endpoint (no answer equals `n`) never yields ok: `≥ n`, `n ± 1`, anything else. -/
theorem stale_version_never_ok (o : Oracle) (n : Int) (h : ∀ a ∈ o.versions, a ≠ .ver n) :
    (reload o n).res ≠ none := by
  intro hr
  obtain ⟨_, _, _, _, i, j, _, _, _, hv, _⟩ := (reload_ok_iff o n).1 hr
  exact h _ (List.mem_of_getElem? hv) rfl

/-- The first error of the version endpoint aborts (it is not polled away): if an error answer
precedes every answer `n`, the reload fails. -/
theorem version_error_aborts (o : Oracle) (n : Int) (k : Nat) (hk : o.versions[k]? = some .err)
    (h : ∀ j, j < k → o.versions[j]? ≠ some (.ver n)) : (reload o n).res ≠ none := by
  intro hr
  obtain ⟨_, _, _, _, i, j, _, _, _, hv, hbefore⟩ := (reload_ok_iff o n).1 hr
  rcases Nat.lt_trichotomy j k with hjk | hjk | hjk
  · exact h j hjk hv
  · subst hjk; rw [hk] at hv; cases hv
  · obtain ⟨v, hv', _⟩ := hbefore k hjk
    rw [hk] at hv'; cases hv'

/-- Completeness (the model is not vacuously strict): a master that behaves is accepted. -/
theorem wellbehaved_master_ok (o : Oracle) (n : Int) (p prev c : Nat)
    (h1 : o.pidPolls.head? = some .present) (h2 : o.pidRead = .pid p)
    (h3 : o.prevRead = .content prev) (h4 : o.kill = true)
    (h5 : o.children.head? = some (.content c)) (h6 : c ≠ prev)
    (h7 : o.versions.head? = some (.ver n)) : (reload o n).res = none := by
  rw [reload_ok_iff]
  refine ⟨⟨p, ?_⟩, prev, h3, h4, 0, 0, Nat.zero_le _, ⟨c, ?_, h6⟩, by simp, ?_, by simp⟩
  · cases hpp : o.pidPolls with
    | nil => simp [hpp] at h1
    | cons x xs =>
      simp [hpp] at h1; subst h1
      simp [findMainProcess, hpp, pollLoop, pidTick, h2]
  · cases hc : o.children with
    | nil => simp [hc] at h5
    | cons x xs => simp [hc] at h5; simp [h5]
  · cases hv : o.versions with
    | nil => simp [hv] at h7
    | cons x xs => simp [hv] at h7; simp [h7]

/-- the model's counters never exceed the scripts -/
theorem reload_reads_bounded (o : Oracle) (n : Int) :
    (reload o n).childReads ≤ o.children.length ∧ (reload o n).verReqs ≤ o.versions.length := by
  unfold reload
  cases findMainProcess o <;> simp
  cases o.prevRead <;> simp
  cases o.kill <;> simp
  unfold waitForCorrectVersion
  rcases hp : pollLoop (childTick _) o.budget o.children with ⟨r, b, rest⟩
  cases r <;> simp
  · rcases hq : pollLoop (verTick n) b o.versions with ⟨r2, b2, rest2⟩
    cases r2 <;> simp <;> omega
  all_goals omega

/-- a late pid file, two unchanged reads, a stale answer, then the right one: ok -/
example :
    let o : Oracle := ⟨[.missing, .present], 20, .pid 7, .content 1, true,
      [.content 1, .content 1, .content 2], [.ver 4, .ver 5], 10⟩
    (reload o 5).res = none ∧ (reload o 5).childReads = 3 ∧ (reload o 5).verReqs = 2 := by decide

/-- the deadline is shared by both polls: budget 2 is used up by the children reads -/
example :
    let o : Oracle := ⟨[.present], 20, .pid 7, .content 1, true,
      [.content 1, .content 1, .content 2], [.ver 4, .ver 5], 2⟩
    (reload o 5).res = some .versionTimeout := by decide

/-- old workers still answer the previous version `n` is never accepted if no new worker appeared -/
example :
    let o : Oracle := ⟨[.present], 20, .pid 7, .content 1, true,
      [.content 1, .content 1], [.ver 5], 10⟩
    (reload o 5).res = some .workersTimeout := by decide

/-- an error answer before the right one: aborted (hypotheses of `version_error_aborts`) -/
example :
    let o : Oracle := ⟨[.present], 20, .pid 7, .content 1, true, [.content 2], [.ver 4, .err, .ver 5], 10⟩
    o.versions[1]? = some .err ∧ (∀ j, j < 1 → o.versions[j]? ≠ some (.ver 5)) ∧
      (reload o 5).res = some .versionErr ∧ (reload o 5).verReqs = 2 := by
  refine ⟨by decide, ?_, by decide, by decide⟩
  intro j hj; have : j = 0 := by omega
  subst this; decide

/-- kill fails although new workers and the right version are there: still an error, no poll -/
example :
    let o : Oracle := ⟨[.present], 20, .pid 7, .content 1, false, [.content 2], [.ver 5], 10⟩
    (reload o 5).res = some .kill ∧ (reload o 5).killCalled = true ∧ (reload o 5).verReqs = 0 := by
  decide

/-- garbled pid file: nothing is signalled -/
example :
    let o : Oracle := ⟨[.missing, .missing, .present], 20, .garbage, .content 1, true, [.content 2], [.ver 5], 10⟩
    (reload o 5).res = some .pidParse ∧ (reload o 5).killCalled = false := by decide

/-! ## 2. Versions -/

/-- Every configuration handed to the generator carries a version strictly greater than all
earlier ones — over every batch sequence, change type and failure pattern, from any state. -/
theorem version_strict_mono (plus : Bool) (s : H) (bs : List Batch) :
    (cfgVersions (hrun plus s bs).2).Pairwise (· < ·) ∧
    ∀ v ∈ cfgVersions (hrun plus s bs).2, s.version < v :=
  ⟨(versions_mono_aux plus bs s).2, (versions_mono_aux plus bs s).1⟩

/-- A version is consumed by every batch that builds a configuration, successful or not, and by
no other batch. -/
theorem version_bumped_iff (plus : Bool) (s : H) (b : Batch) :
    ((hstep plus s b).2.cfgVersion = some (s.version + 1) ↔ b.ct ≠ .noChange) ∧
    ((hstep plus s b).2.cfgVersion = none ↔ b.ct = .noChange) ∧
    (hstep plus s b).1.version = if b.ct = .noChange then s.version else s.version + 1 := by
  refine ⟨?_, ?_, hstep_version plus s b⟩ <;> rw [hstep_cfgVersion] <;>
    by_cases h : b.ct = .noChange <;> simp [h]

/-- `Reload` is always called with the version of the configuration that was just written. -/
theorem reload_gets_configuration_version (plus : Bool) (s : H) (b : Batch) (v : Nat)
    (h : (hstep plus s b).2.reloadVersion = some v) :
    (hstep plus s b).2.cfgVersion = some v ∧ b.writeOk = true :=
  ⟨(hstep_reloadVersion plus s b v h).1, (hstep_reloadVersion plus s b v h).2.2.2⟩

example : cfgVersions (hrun false H.init
    [⟨.clusterState, 3, 1, .failed .io 1, ⟨[], 0, .readErr, .err, false, [], [], 0⟩, true⟩,
     ⟨.noChange, 3, 1, .ok, ⟨[], 0, .readErr, .err, false, [], [], 0⟩, true⟩,
     ⟨.endpointsOnly, 3, 1, .ok, ⟨[], 0, .readErr, .err, false, [], [], 0⟩, true⟩]).2 = [1, 2] := by
  decide

/-! ### Known finding `C12:version_reuse_after_controller_restart`

The counter lives in the handler: a restarted NGF container starts again at 0 while the NGINX
master keeps running what the previous process loaded.  "Strictly greater than all earlier ones"
therefore holds per controller process (`version_strict_mono`, the `_partial` form below), not over
the life of the NGINX master, and the exact-version check can be satisfied by old workers. -/

/-- witness: every controller process hands out version 1 for its first configuration -/
theorem restart_reuses_version (plus : Bool) (b1 b2 : Batch) (h1 : b1.ct ≠ .noChange)
    (h2 : b2.ct ≠ .noChange) :
    (hstep plus H.init b1).2.cfgVersion = some 1 ∧ (hstep plus H.init b2).2.cfgVersion = some 1 := by
  constructor <;> rw [hstep_cfgVersion] <;> simp [*, H.init]

/-- witness: after a restart, a master that rejected the new files and kept its old workers (one
old worker exited, so the children file changed; the remaining ones answer the version loaded by
the PREVIOUS process, which is 1 as well) is reported as successfully reloaded, and the pod turns
ready.  Reproduced on the real handler + Reload by harness/c12 `restartCase`. -/
theorem restart_stale_master_accepted :
    let o : Oracle := ⟨[.present], 5, .pid 7, .content 1, true, [.content 3], [.ver 1], 5⟩
    let r := hstep false H.init ⟨.clusterState, 3, 1, .ok, o, true⟩
    r.2.err = false ∧ r.2.reloadVersion = some 1 ∧ r.1.ready = true ∧ r.1.lastErr = false := by
  decide

/-- `_partial`: within one controller process no version is handed out twice. -/
theorem version_unique_partial (plus : Bool) (bs : List Batch) :
    (cfgVersions (hrun plus H.init bs).2).Nodup := by
  have h := (versions_mono_aux plus bs H.init).2
  exact h.imp (fun hlt => Nat.ne_of_lt hlt)

/-! ## 3. Success is reported only if NGINX runs that version -/

/-- End to end: if a batch that had to reload (OSS: any change; Plus: cluster state change, or an
endpoints-only change while a failed apply is remembered — /repo c94173a) ends
without error — so that statuses carry no reload failure and the pod may become ready — then the
master received the HUP, showed changed children and answered exactly the version of the
configuration written in this batch. -/
theorem programmed_implies_running (plus : Bool) (s : H) (b : Batch)
    (hct : b.ct ≠ .noChange) (hre : plus = false ∨ b.ct = .clusterState ∨ s.lastErr = true)
    (hok : (hstep plus s b).2.err = false) :
    (hstep plus s b).2.cfgVersion = some (s.version + 1) ∧
    (hstep plus s b).2.reloadVersion = some (s.version + 1) ∧
    b.writeOk = true ∧ Running b.oracle (s.version + 1 : Nat) := by
  rw [hstep_change plus s b hct] at hok ⊢
  have ha : apiOnly plus s.lastErr b = false := by
    rcases hre with rfl | hc | hl
    · simp [apiOnly]
    · simp [apiOnly, hc]
    · simp [apiOnly, hl]
  obtain ⟨h1, h2⟩ := apply_ok_reload plus s.lastErr b _ hok ha hct
  obtain ⟨_, _, h3, _⟩ := apply_reloadVersion plus s.lastErr b _ _ h1
  exact ⟨apply_cfgVersion plus s.lastErr b _ hct, h1, h3, (reload_ok_iff _ _).1 h2⟩

/-- hypotheses of `programmed_implies_running` are satisfiable: third batch of a sequence, OSS -/
example :
    let good (n : Int) : Oracle := ⟨[.present], 5, .pid 7, .content 1, true, [.content 1, .content 2], [.ver (n - 1), .ver n], 5⟩
    let s := (hrun false H.init [⟨.clusterState, 3, 1, .ok, good 1, true⟩, ⟨.endpointsOnly, 3, 1, .failed .io 1, good 2, true⟩]).1
    s.version = 2 ∧ s.lastErr = true ∧
      (hstep false s ⟨.endpointsOnly, 3, 1, .ok, good 3, true⟩).2.err = false ∧
      (hstep false s ⟨.endpointsOnly, 3, 1, .ok, good 3, true⟩).1.lastErr = false := by decide

/-- Plus, endpoints only, nothing failed before: no reload at all, the API result decides; with a
failed apply remembered the same batch goes through files + reload -/
example :
    let o : Oracle := ⟨[], 0, .readErr, .err, false, [], [], 0⟩
    (hstep true H.init ⟨.endpointsOnly, 3, 1, .ok, o, true⟩).2.reloadVersion = none ∧
    (hstep true H.init ⟨.endpointsOnly, 3, 1, .ok, o, true⟩).2.err = false ∧
    (hstep true H.init ⟨.endpointsOnly, 3, 1, .ok, o, false⟩).2.err = true ∧
    (hstep true { H.init with lastErr := true } ⟨.endpointsOnly, 3, 1, .ok, o, true⟩).2.reloadVersion = some 1 ∧
    (hstep true { H.init with lastErr := true } ⟨.endpointsOnly, 3, 1, .ok, o, true⟩).2.apiCalled = false := by
  decide

/-- Any failure to write, signal or verify (or of the Plus API) makes the batch fail — exactly. (The
API-only arm: Plus, endpoints-only, AND no failed apply remembered.) -/
theorem failure_iff (plus : Bool) (s : H) (b : Batch) :
    (hstep plus s b).2.err = true ↔
      (b.ct ≠ .noChange ∧
        if plus = true ∧ s.lastErr = false ∧ b.ct = .endpointsOnly then b.apiOk = false
        else (b.writeOk = false ∨ (reload b.oracle (s.version + 1)).res.isSome = true ∨
              (plus = true ∧ b.apiOk = false))) := by
  have h := hstep_err_iff plus s b
  have hiff := apiOnly_iff plus s.lastErr b
  cases ha : apiOnly plus s.lastErr b with
  | true =>
    have ha' := hiff.1 ha
    rw [ha] at h
    rw [if_pos ha']
    simpa using h
  | false =>
    have ha' : ¬(plus = true ∧ s.lastErr = false ∧ b.ct = .endpointsOnly) := by
      intro hc; rw [hiff.2 hc] at ha; cases ha
    rw [ha] at h
    rw [if_neg ha']
    simpa using h

/-! ## 4. Failures surface in statuses -/

/-- A failed batch stores the error as `latestReloadResult` and issues statuses with it; a
`NoChange` batch leaves the stored result (and the issued statuses) alone. -/
theorem failure_recorded (plus : Bool) (s : H) (b : Batch) :
    ((hstep plus s b).2.err = true →
      (hstep plus s b).1.lastErr = true ∧ (hstep plus s b).2.statusUpdated = true) ∧
    (b.ct = .noChange →
      (hstep plus s b).1.lastErr = s.lastErr ∧ (hstep plus s b).2.statusUpdated = false) ∧
    (b.ct ≠ .noChange → (hstep plus s b).1.lastErr = (hstep plus s b).2.err) := by
  refine ⟨fun h => ⟨(hstep_err_status plus s b h).2.2, (hstep_err_status plus s b h).2.1⟩, ?_, ?_⟩
  · intro h
    refine ⟨by rw [hstep_lastErr]; simp [h], ?_⟩
    cases hs : (hstep plus s b).2.statusUpdated with
    | false => rfl
    | true => exact absurd h ((hstep_status_iff plus s b).1 hs)
  · intro h; rw [hstep_lastErr]; simp [h]

/-- With a reload error, the folded conditions report the failure condition for its type, report
no other condition of that type, and leave every other type as it would have been. For Gateways
and Listeners: `Programmed=False/Invalid`; for Route parents: `Accepted=False/GatewayNotProgrammed`.
Holds for EVERY list of conditions collected before (also ones that say Programmed=True). -/
theorem failure_surfaces (t : Target) (cs : List Cond) :
    lookup (failureCond t).type (fold t true cs) = some (failureCond t) ∧
    (∀ x ∈ fold t true cs, x.type = (failureCond t).type → x = failureCond t) ∧
    (∀ ty, ty ≠ (failureCond t).type → lookup ty (fold t true cs) = lookup ty (fold t false cs)) := by
  refine ⟨?_, ?_, ?_⟩
  · simpa [fold] using lookup_dedup_snoc_self (failureCond t) cs
  · intro x hx ht
    exact dedup_snoc_unique (failureCond t) cs x (by simpa [fold] using hx) ht
  · intro ty hty
    simpa [fold] using lookup_dedup_snoc_other (failureCond t) ty (fun h => hty h.symm) cs

/-- In particular no `Programmed=True` (resp. `Accepted=True`) survives a reload error. -/
theorem failure_never_true (t : Target) (cs : List Cond) :
    ∀ x ∈ fold t true cs, x.type = (failureCond t).type → x.status = "False" := by
  intro x hx ht
  rw [(failure_surfaces t cs).2.1 x hx ht]
  cases t <;> rfl

/-- Folding is insensitive to a prior de-duplication (justifies feeding the status observed
without an error into the model during the correspondence run). -/
theorem fold_of_dedup (t : Target) (e : Bool) (cs : List Cond) :
    fold t e (dedup cs) = fold t e cs := by
  cases e
  · simp [fold, dedup_idem]
  · simp [fold, dedup_dedup_snoc]

example : fold .listener true
    [⟨"Accepted", "True", "Accepted"⟩, ⟨"Programmed", "True", "Programmed"⟩,
     ⟨"ResolvedRefs", "True", "ResolvedRefs"⟩] =
    [⟨"Accepted", "True", "Accepted"⟩, ⟨"ResolvedRefs", "True", "ResolvedRefs"⟩,
     ⟨"Programmed", "False", "Invalid"⟩] := by decide

/-! ## 5. Readiness -/

/-- Ready is a latch: over every batch sequence it never turns false again. -/
theorem ready_latch (plus : Bool) (s : H) (bs : List Batch) (h : s.ready = true) :
    (hrun plus s bs).1.ready = true ∧ ∀ s' ∈ hstates plus s bs, s'.ready = true := by
  refine ⟨run_ready_latch plus bs s h, ?_⟩
  induction bs generalizing s with
  | nil => simp [hstates]
  | cons b bs ih =>
    intro s' hs'
    simp only [hstates, List.mem_cons] at hs'
    rcases hs' with rfl | hs'
    · exact hstep_ready_latch plus s b h
    · exact ih _ (hstep_ready_latch plus s b h) s' hs'

/-- A failed apply keeps an unready pod unready, and afterwards `NoChange` batches do not make it
ready either: only a later successful apply does. -/
theorem failure_keeps_unready (plus : Bool) (s : H) (b : Batch) (h0 : s.ready = false)
    (h1 : (hstep plus s b).2.err = true) :
    (hstep plus s b).1.ready = false ∧
    ∀ b', b'.ct = .noChange → (hstep plus (hstep plus s b).1 b').1.ready = false := by
  obtain ⟨hr, hf⟩ := hstep_failure_unready plus s b h0 h1
  refine ⟨hr, fun b' hb' => ?_⟩
  rw [hstep_fbe_blocks_noChange plus _ b' hr hf hb']; exact hr

/-- From start-up: if the pod is ready after a batch sequence then some batch made it ready, and
that batch either applied a configuration successfully, or was a `NoChange` batch before which no
apply had failed ("none was needed"). -/
theorem ready_only_after_success (plus : Bool) (bs : List Batch)
    (h : (hrun plus H.init bs).1.ready = true) :
    ∃ pre b post, bs = pre ++ b :: post ∧ (hrun plus H.init pre).1.ready = false ∧
      ((b.ct ≠ .noChange ∧ (hstep plus (hrun plus H.init pre).1 b).2.err = false) ∨
       (b.ct = .noChange ∧ ∀ e ∈ (hrun plus H.init pre).2, e.err = false)) := by
  obtain ⟨pre, b, post, hbs, hpre, hor⟩ := run_becomes_ready plus bs H.init rfl h
  refine ⟨pre, b, post, hbs, hpre, ?_⟩
  rcases hor with hl | ⟨hn, hf⟩
  · exact Or.inl hl
  · refine Or.inr ⟨hn, ?_⟩
    have hfb := run_fbe_unready plus pre H.init hpre
    rw [hf] at hfb
    have hany : (hrun plus H.init pre).2.any (·.err) = false := by
      cases ha : (hrun plus H.init pre).2.any (·.err) with
      | false => rfl
      | true => rw [ha] at hfb; simp [H.init] at hfb
    intro e he
    cases hee : e.err with
    | false => rfl
    | true =>
      have : (hrun plus H.init pre).2.any (·.err) = true := List.any_eq_true.2 ⟨e, he, hee⟩
      rw [hany] at this; cases this

/-- For OSS NGINX "applied successfully" means: NGINX runs the version written in that batch. -/
theorem ready_means_nginx_configured (bs : List Batch)
    (h : (hrun false H.init bs).1.ready = true) :
    ∃ pre b post, bs = pre ++ b :: post ∧
      ((b.ct ≠ .noChange ∧ b.writeOk = true ∧
          Running b.oracle ((hrun false H.init pre).1.version + 1 : Nat)) ∨
       (b.ct = .noChange ∧ ∀ e ∈ (hrun false H.init pre).2, e.err = false)) := by
  obtain ⟨pre, b, post, hbs, _, hor⟩ := ready_only_after_success false bs h
  refine ⟨pre, b, post, hbs, ?_⟩
  rcases hor with ⟨hct, hok⟩ | hr
  · obtain ⟨_, _, hw, hrun⟩ := programmed_implies_running false _ b hct (Or.inl rfl) hok
    exact Or.inl ⟨hct, hw, hrun⟩
  · exact Or.inr hr

/-- `close(readyCh)` runs at most once (a second close would panic), exactly when ready. -/
theorem setAsReady_once (plus : Bool) (bs : List Batch) :
    let s := (hrun plus H.init bs).1
    s.closes ≤ 1 ∧ (s.closes = 1 ↔ s.ready = true) ∧ (s.firstBatchErr = true → s.ready = false) := by
  have hi := inv_run plus bs H.init inv_init
  obtain ⟨h1, h2, h3⟩ := hi
  cases hr : (hrun plus H.init bs).1.ready with
  | true => simp only; rw [h2 hr]; simp_all
  | false => simp only; rw [h3 hr]; simp_all

/-- first batch fails, nothing changes, then a successful apply: unready, unready, ready -/
example :
    let good : Oracle := ⟨[.present], 5, .pid 7, .content 1, true, [.content 2], [.ver 2], 5⟩
    let bad : Oracle := ⟨[.present], 5, .pid 7, .content 1, false, [], [], 5⟩
    (hstates false H.init
      [⟨.clusterState, 3, 1, .ok, bad, true⟩, ⟨.noChange, 3, 1, .ok, bad, true⟩,
       ⟨.clusterState, 3, 1, .ok, good, true⟩]).map (·.ready) = [false, false, true] := by decide

/-- first batch needs no change: ready at once -/
example : (hrun true H.init [⟨.noChange, 3, 1, .ok, ⟨[], 0, .readErr, .err, false, [], [], 0⟩, true⟩]).1.ready
    = true := by decide

/-! ## 6. Tie to the source: facts regenerated by the translator on every run -/

/-- The version file makes NGINX answer `200 <version>` on `/version` of the socket that the
verify client dials. -/
theorem version_endpoint_as_modelled :
    containsSub Generated.Reload.versionTemplateText.toList
      ("listen unix:" ++ Generated.Reload.configVersionURI ++ ";").toList = true ∧
    containsSub Generated.Reload.versionTemplateText.toList "location /version {".toList = true ∧
    containsSub Generated.Reload.versionTemplateText.toList "return 200 {{.}};".toList = true ∧
    Generated.Reload.verifyClientDial = ["net.Dial(\"unix\", configVersionURI)"] ∧
    Generated.Reload.executeVersionBody =
      ["result := executeResult{ dest: configVersionFile, data: helpers.MustExecuteTemplate(versionTemplate, conf.Version), }",
       "return []executeResult{result}"] := by
  refine ⟨by decide +kernel, by decide +kernel, by decide +kernel, rfl, rfl⟩

/-- Constants and wiring. -/
theorem constants_as_modelled :
    Generated.Reload.pidFile = "/var/run/nginx/nginx.pid" ∧
    Generated.Reload.pidFileTimeoutMs = 10000 ∧
    Generated.Reload.nginxReloadTimeoutMs = 60000 ∧
    Generated.Reload.childProcPathFmt = "/proc/%[1]v/task/%[1]v/children" ∧
    Generated.Reload.findMainProcessPolls = ["500 * time.Millisecond|true"] ∧
    Generated.Reload.ensureConfigVersionPolls = ["25 * time.Millisecond|true"] ∧
    Generated.Reload.ensureNewNginxWorkersPolls = ["25 * time.Millisecond|true"] ∧
    Generated.Reload.killBody = ["return syscall.Kill(pid, syscall.SIGHUP)"] ∧
    Generated.Reload.wiring =
      ["ngxruntime.NewProcessHandlerImpl(os.ReadFile, os.Stat)",
       "ngxruntime.NewVerifyClient(ngxruntime.NginxReloadTimeout)",
       "mgr.AddReadyzCheck(\"readyz\", nginxChecker.readyCheck)"] := by
  repeat' constructor

/-- `Reload`: find pid → read children → HUP → wait for new workers and version; every error is
returned. -/
theorem reload_source_as_modelled :
    Generated.Reload.reloadSteps =
      ["m.processHandler.FindMainProcess(ctx, PidFileTimeout)",
       "m.processHandler.ReadFile(childProcFile)",
       "m.processHandler.Kill(pid)",
       "m.verifyClient.WaitForCorrectVersion( ctx, configVersion, childProcFile, previousChildProcesses, os.ReadFile, )"] ∧
    Generated.Reload.reloadBody =
      ["start := time.Now()",
       "pid, err := m.processHandler.FindMainProcess(ctx, PidFileTimeout)",
       "if err != nil { return fmt.Errorf(\"failed to find NGINX main process: %w\", err) }",
       "childProcFile := fmt.Sprintf(childProcPathFmt, pid)",
       "previousChildProcesses, err := m.processHandler.ReadFile(childProcFile)",
       "if err != nil { return err }",
       "if errP := m.processHandler.Kill(pid); errP != nil { m.metricsCollector.IncReloadErrors() return fmt.Errorf(\"failed to send the HUP signal to NGINX main: %w\", errP) }",
       "if err = m.verifyClient.WaitForCorrectVersion( ctx, configVersion, childProcFile, previousChildProcesses, os.ReadFile, ); err != nil { m.metricsCollector.IncReloadErrors() return err }",
       "m.metricsCollector.IncReloadCount()",
       "finish := time.Now()",
       "m.metricsCollector.ObserveLastReloadTime(finish.Sub(start))",
       "return nil"] ∧
    Generated.Reload.findMainProcessBody =
      ["ctx, cancel := context.WithTimeout(ctx, timeout)",
       "defer cancel()",
       "err := wait.PollUntilContextCancel( ctx, 500*time.Millisecond, true, func(_ context.Context) (bool, error) { _, err := p.checkFile(PidFile) if err == nil { return true, nil } if !errors.Is(err, fs.ErrNotExist) { return false, err } return false, nil })",
       "if err != nil { return 0, err }",
       "content, err := p.readFile(PidFile)",
       "if err != nil { return 0, err }",
       "pid, err := strconv.Atoi(strings.TrimSpace(string(content)))",
       "if err != nil { return 0, fmt.Errorf(\"invalid pid file content %q: %w\", content, err) }",
       "return pid, nil"] := by
  repeat' constructor

/-- `WaitForCorrectVersion`: new workers first, then the exact version; one deadline for both;
poll conditions return errors (abort) and compare with `==` / `bytes.Equal`. -/
theorem verify_source_as_modelled :
    Generated.Reload.waitForCorrectVersionBody =
      ["ctx, cancel := context.WithTimeout(ctx, c.timeout)",
       "defer cancel()",
       "if err := ensureNewNginxWorkers( ctx, childProcFile, previousChildProcesses, readFile, ); err != nil { return fmt.Errorf(noNewWorkersErrFmt, expectedVersion, err) }",
       "if err := c.EnsureConfigVersion(ctx, expectedVersion); err != nil { if errors.Is(err, context.DeadlineExceeded) { err = fmt.Errorf( \"config version check didn't return expected version %d within the deadline\", expectedVersion, ) } return fmt.Errorf(\"could not get expected config version %d: %w\", expectedVersion, err) }",
       "return nil"] ∧
    Generated.Reload.ensureConfigVersionBody =
      ["return wait.PollUntilContextCancel( ctx, 25*time.Millisecond, true, func(_ context.Context) (bool, error) { version, err := c.GetConfigVersion() return version == expectedVersion, err }, )"] ∧
    Generated.Reload.ensureNewNginxWorkersBody =
      ["return wait.PollUntilContextCancel( ctx, 25*time.Millisecond, true, func(_ context.Context) (bool, error) { content, err := readFile(childProcFile) if err != nil { return false, err } if !bytes.Equal(previousContents, content) { return true, nil } return false, nil }, )"] ∧
    Generated.Reload.getConfigVersionBody =
      ["ctx, cancel := context.WithTimeout(context.Background(), c.timeout)",
       "defer cancel()",
       "req, err := http.NewRequestWithContext(ctx, http.MethodGet, \"http://config-version/version\", nil)",
       "if err != nil { return 0, fmt.Errorf(\"error creating request: %w\", err) }",
       "resp, err := c.client.Do(req)",
       "if err != nil { return 0, fmt.Errorf(\"error getting client: %w\", err) }",
       "defer resp.Body.Close()",
       "if resp.StatusCode != http.StatusOK { return 0, fmt.Errorf(\"non-200 response: %v\", resp.StatusCode) }",
       "body, err := io.ReadAll(resp.Body)",
       "if err != nil { return 0, fmt.Errorf(\"failed to read the response body: %w\", err) }",
       "v, err := strconv.Atoi(string(body))",
       "if err != nil { return 0, fmt.Errorf(\"error converting string to int: %w\", err) }",
       "return v, nil"] := by
  repeat' constructor

/-- `HandleEventBatch`: the three arms, what follows the switch, `updateNginxConf`, and the only
writers of `h.version`, `h.latestReloadResult`, `ready`, `firstBatchError`. -/
theorem handler_source_as_modelled :
    Generated.Reload.switchCases =
      ["state.NoChange", "state.EndpointsOnlyChange", "state.ClusterStateChange"] ∧
    Generated.Reload.case_state_NoChange =
      ["if !h.cfg.nginxConfiguredOnStartChecker.ready && h.cfg.nginxConfiguredOnStartChecker.firstBatchError == nil { h.cfg.nginxConfiguredOnStartChecker.setAsReady() }",
       "return"] ∧
    Generated.Reload.case_state_EndpointsOnlyChange =
      ["h.version++",
       "cfg := dataplane.BuildConfiguration(ctx, gr, h.cfg.serviceResolver, h.version)",
       "depCtx, getErr := h.getDeploymentContext(ctx)",
       "if getErr != nil { logger.Error(getErr, \"error getting deployment context for usage reporting\") }",
       "cfg.DeploymentContext = depCtx",
       "h.setLatestConfiguration(&cfg)",
       "if h.cfg.plus && h.latestReloadResult.Error == nil { err = h.updateUpstreamServers(cfg) } else { err = h.updateNginxConf(ctx, cfg) }"] ∧
    Generated.Reload.case_state_ClusterStateChange =
      ["h.version++",
       "cfg := dataplane.BuildConfiguration(ctx, gr, h.cfg.serviceResolver, h.version)",
       "depCtx, getErr := h.getDeploymentContext(ctx)",
       "if getErr != nil { logger.Error(getErr, \"error getting deployment context for usage reporting\") }",
       "cfg.DeploymentContext = depCtx",
       "h.setLatestConfiguration(&cfg)",
       "err = h.updateNginxConf(ctx, cfg)"] ∧
    Generated.Reload.afterSwitch =
      ["var nginxReloadRes status.NginxReloadResult",
       "if err != nil { logger.Error(err, \"Failed to update NGINX configuration\") nginxReloadRes.Error = err if !h.cfg.nginxConfiguredOnStartChecker.ready { h.cfg.nginxConfiguredOnStartChecker.firstBatchError = err } } else { logger.Info(\"NGINX configuration was successfully updated\") if !h.cfg.nginxConfiguredOnStartChecker.ready { h.cfg.nginxConfiguredOnStartChecker.setAsReady() } }",
       "h.latestReloadResult = nginxReloadRes",
       "h.updateStatuses(ctx, logger, gr)"] ∧
    Generated.Reload.updateNginxConfBody =
      ["files := h.cfg.generator.Generate(conf)",
       "if err := h.cfg.nginxFileMgr.ReplaceFiles(files); err != nil { return fmt.Errorf(\"failed to replace NGINX configuration files: %w\", err) }",
       "if err := h.cfg.nginxRuntimeMgr.Reload(ctx, conf.Version); err != nil { return fmt.Errorf(\"failed to reload NGINX: %w\", err) }",
       "if err := h.updateUpstreamServers(conf); err != nil { return fmt.Errorf(\"failed to update upstream servers: %w\", err) }",
       "return nil"] ∧
    Generated.Reload.updateUpstreamServersGuard = "if !h.cfg.plus { return nil }" ∧
    Generated.Reload.versionWrites = ["HandleEventBatch: h.version++", "HandleEventBatch: h.version++"] ∧
    Generated.Reload.latestReloadResultWrites =
      ["HandleEventBatch: h.latestReloadResult = nginxReloadRes"] ∧
    Generated.Reload.readyWrites =
      ["HandleEventBatch: h.cfg.nginxConfiguredOnStartChecker.firstBatchError = err",
       "setAsReady: h.ready = true", "setAsReady: h.firstBatchError = nil"] ∧
    Generated.Reload.setAsReadyBody =
      ["h.lock.Lock()", "defer h.lock.Unlock()", "h.ready = true", "h.firstBatchError = nil",
       "close(h.readyCh)"] ∧
    Generated.Reload.readyCheckBody =
      ["h.lock.RLock()", "defer h.lock.RUnlock()",
       "if !h.ready { return errors.New(\"nginx has not yet become ready to accept traffic\") }",
       "return nil"] := by
  repeat' constructor

/-- The apply transaction as modelled by `applyTx`: `ReplaceFiles`, `Reload`, `updateUpstreamServers`
in this order; each error branch is taken on EVERY non-nil error (condition exactly `err != nil`, no
class is exempt) and ends in `return`, so a `ReplaceFiles` error returns before `Reload`.  And the
stored `latestReloadResult` is what the status writers are handed (`issued`). -/
theorem apply_source_as_modelled :
    Generated.Reload.updateNginxConfGuards =
      ["h.cfg.nginxFileMgr.ReplaceFiles(files) | err != nil | return",
       "h.cfg.nginxRuntimeMgr.Reload(ctx, conf.Version) | err != nil | return",
       "h.updateUpstreamServers(conf) | err != nil | return"] ∧
    Generated.Reload.latestReloadResultReads =
      ["updateStatuses: status.PrepareRouteRequests",
       "updateStatuses: status.PrepareGatewayRequests",
       "nginxGatewayServiceUpsert: status.PrepareGatewayRequests",
       "nginxGatewayServiceDelete: status.PrepareGatewayRequests"] := by
  repeat' constructor

/-- `prepare_requests.go`: the three places where a reload error is appended (last, so that it
wins the de-duplication), and the failure conditions themselves. -/
theorem status_source_as_modelled :
    Generated.Reload.reloadErrorFolds =
      ["prepareRouteStatus: if nginxReloadRes.Error != nil { allConds = append( allConds, staticConds.NewRouteGatewayNotProgrammed(staticConds.RouteMessageFailedNginxReload), ) }",
       "prepareGatewayRequest: if nginxReloadRes.Error != nil { conds = append( conds, staticConds.NewListenerNotProgrammedInvalid(staticConds.ListenerMessageFailedNginxReload), ) }",
       "prepareGatewayRequest: if nginxReloadRes.Error != nil { gwConds = append( gwConds, staticConds.NewGatewayNotProgrammedInvalid(staticConds.GatewayMessageFailedNginxReload), ) }"] ∧
    Generated.Reload.dedupCalls =
      ["prepareGatewayRequest: conditions.DeduplicateConditions(gateway.Conditions)",
       "prepareGatewayRequest: conditions.DeduplicateConditions(conds)",
       "prepareGatewayRequest: conditions.DeduplicateConditions(gwConds)",
       "prepareRouteStatus: conditions.DeduplicateConditions(allConds)"] ∧
    Generated.Reload.cond_NewGatewayNotProgrammedInvalid =
      ["return conditions.Condition{ Type: string(v1.GatewayConditionProgrammed), Status: metav1.ConditionFalse, Reason: string(v1.GatewayReasonInvalid), Message: msg, }"] ∧
    Generated.Reload.cond_NewListenerNotProgrammedInvalid =
      ["return conditions.Condition{ Type: string(v1.ListenerConditionProgrammed), Status: metav1.ConditionFalse, Reason: string(v1.ListenerReasonInvalid), Message: msg, }"] ∧
    Generated.Reload.cond_NewRouteGatewayNotProgrammed =
      ["return conditions.Condition{ Type: string(v1.RouteConditionAccepted), Status: metav1.ConditionFalse, Reason: string(RouteReasonGatewayNotProgrammed), Message: msg, }"] ∧
    Generated.Reload.routeReasonGatewayNotProgrammed = "\"GatewayNotProgrammed\"" ∧
    Generated.Reload.deduplicateConditionsBody =
      ["type elem struct { cond Condition reverseIdx int }",
       "uniqueElems := make(map[string]elem)",
       "idx := 0",
       "for i := len(conds) - 1; i >= 0; i-- { if _, exist := uniqueElems[conds[i].Type]; exist { continue } uniqueElems[conds[i].Type] = elem{ cond: conds[i], reverseIdx: idx, } idx++ }",
       "result := make([]Condition, len(uniqueElems))",
       "for _, el := range uniqueElems { result[len(result)-el.reverseIdx-1] = el.cond }",
       "return result"] := by
  repeat' constructor

end NGF.C12
