/-
C05 — the control plane never crashes on admissible resources, in any order.

Property theorems over the mirrors of `NGF.Model.PanicSites` (the functions `NGF/Driver/C05.lean`
runs on the views extracted from the REAL pipeline), the generated panic-site inventory
(`NGF.Generated.PanicSites`, regenerated from /repo on every run) and the pinned source texts of the
mirrored functions.

Structure
  §A  binding routes to listeners: the namespace lookup.  Since commit d734bd5 the FULL statement holds:
      `bind_total` (every view) and `no_panic_any_order` (every history of admissible events, any order and
      batching).  The pre-fix mirror (`…Pre`) with its witnesses (`pre_ns_lookup_witness`, `pre_order_matters`,
      `pre_all_orders_of_three`, …) and partial theorems is kept as a regression detector.
  §B  host path rules: the hostname lookup of `buildServers` is total (all inputs).
  §C  path types: `convertPathType` is total on what `upsertRoute` hands it (needs CRD defaulting of
      `path`; witness for the nil case).
  §D  backend refs: `Resolve`'s precondition holds for every ref `createBackendRef` marks valid.
  §E  NGINX Plus secrets: `generateMgmtFiles_total`; `setPlusSecretContent_total` (commit 02715d5) + pre-fix
      witness.   §E' BackendTLSPolicy: `btpLookup_total` (commit 72dccd7) + pre-fix witness/characterisation.
  §F  object store: every configured kind is accepted; the watched kinds are configured.
  §G  closed enumerations: RouteType and FilterType switches.
  §H  the inventory: every `panic(` of the control-plane packages is accounted for; no index write
      into a zero-length slice; the mirrored functions still read as mirrored.
  §H' reporting: `buildSectionNameRefs` (known finding: witness + partial).
  §I  one whole step.
-/
import NGF.Model.PanicSites
import NGF.Proofs.PanicSites
import NGF.Generated.PanicSites
import NGF.Props.C05Deref
import NGF.Props.C05Guards

namespace NGF.PanicSites

/-! ## §A  binding: namespace lookup -/

/-- the input class of the repaired defect (corpus/C05/01-…): Gateway `default/gw0` with a listener
`allowedRoutes.namespaces.from=Selector`, a route in `team-a` referring to it; `nss` = the Namespace
objects in the store. -/
def witnessView (nss : List String) : BindView :=
  { namespaces := nss,
    gw := some { ns := "default", name := "gw0", valid := true,
                 listeners := [{ name := "l0", attachable := true, from_ := .selector, hasSelector := true }] },
    routes := [{ ns := "team-a", attachable := true, refs := [⟨"default", "gw0", "", false⟩] }] }

def wGw : Option Gateway := (witnessView []).gw
def wRoutes : List Route := (witnessView []).routes

/-! ### the current code (commit d734bd5): FULL STRENGTH -/

theorem nsAllowed_total (m : String → String → Bool) (l : Listener) (routeNS gwNS : String)
    (nss : List String) (hf : l.from_ ≠ .nilPtr) : ∃ b, nsAllowed m l routeNS gwNS nss = .ok b := by
  unfold nsAllowed
  cases hfr : l.from_ with
  | nilPtr => exact absurd hfr hf
  | selector =>
    by_cases hs : l.hasSelector = true <;> by_cases hn : routeNS ∈ nss <;> simp [hs, hn]
  | _ => exact ⟨_, rfl⟩

theorem tryAttach_total (m : String → String → Bool) (routeNS gwNS : String) (nss : List String) :
    ∀ ls, FromSet ls → tryAttach m routeNS gwNS nss ls = .ok ()
  | [], _ => rfl
  | l :: ls, hf => by
    obtain ⟨b, hb⟩ := nsAllowed_total m l routeNS gwNS nss (hf l (List.mem_cons_self ..))
    simp only [tryAttach, hb]
    exact tryAttach_total m routeNS gwNS nss ls (fun x hx => hf x (List.mem_cons_of_mem _ hx))

theorem bindRefs_total (m : String → String → Bool) (gw : Gateway) (nss : List String) (routeNS : String)
    (hf : FromSet gw.listeners) : ∀ refs, bindRefs m gw nss routeNS refs = .ok ()
  | [] => rfl
  | ref :: rest => by
    unfold bindRefs
    cases hv : validateParentRef ref gw with
    | none => simpa using bindRefs_total m gw nss routeNS hf rest
    | some att =>
      have := tryAttach_total m routeNS gw.ns nss att (fun l hl => hf l (validateParentRef_sub hv l hl))
      simp only [this]
      exact bindRefs_total m gw nss routeNS hf rest

theorem bindRoutes_total (m : String → String → Bool) (gw : Gateway) (nss : List String)
    (hf : FromSet gw.listeners) : ∀ rs, bindRoutes m gw nss rs = .ok ()
  | [] => rfl
  | r :: rs => by
    have : (if !r.attachable then (Except.ok () : Except Site Unit) else bindRefs m gw nss r.ns r.refs) = .ok () := by
      by_cases ha : r.attachable = true
      · simp [ha, bindRefs_total m gw nss r.ns hf r.refs]
      · simp [ha]
    simp only [bindRoutes, this]
    exact bindRoutes_total m gw nss hf rs

/-- binding is total for EVERY view: no hypothesis on which Namespace objects are in the store -/
theorem bind_total (m : String → String → Bool) (v : BindView)
    (hfrom : ∀ gw, v.gw = some gw → FromSet gw.listeners) : bindAll m v = .ok () := by
  unfold bindAll
  cases hg : v.gw with
  | none => rfl
  | some gw => exact bindRoutes_total m gw v.namespaces (hfrom gw hg) v.routes

/-- every Gateway an event can bring has `From` set (CRD defaulting) -/
def EvAdm : Ev → Prop
  | .setGw (some g) => FromSet g.listeners
  | _ => True

/-- MAIN THEOREM for the namespace site: for every history of admissible events (Namespace upserts and
deletes, any Gateway, any routes), in any order and any batching, starting from any non-crashed state, the
controller never crashes in `bindRoutesToListeners`. -/
theorem no_panic_any_order (m : String → String → Bool) :
    ∀ (evs : List Ev) (c : Ctl), (∀ e ∈ evs, EvAdm e) → c.crashed = none →
      (∀ gw, c.view.gw = some gw → FromSet gw.listeners) →
      (Ctl.run (bindAll m) c evs).crashed = none
  | [], c, _, hc, _ => hc
  | e :: es, c, ha, hc, hg => by
    have hrest : ∀ e ∈ es, EvAdm e := fun x hx => ha x (List.mem_cons_of_mem _ hx)
    cases e with
    | apply =>
      have hb := bind_total m c.view hg
      have : c.step (bindAll m) .apply = c := by simp [Ctl.step, hc, hb]
      simp only [Ctl.run, this]
      exact no_panic_any_order m es c hrest hc hg
    | upsertNs n => exact no_panic_any_order m es _ hrest hc hg
    | deleteNs n => exact no_panic_any_order m es _ hrest hc hg
    | setRoutes rs => exact no_panic_any_order m es _ hrest hc hg
    | setGw g =>
      refine no_panic_any_order m es _ hrest hc ?_
      intro gw hgw
      have h1 : g = some gw := by simpa [Ctl.step] using hgw
      subst h1
      exact ha _ (List.mem_cons_self ..)

example : (Ctl.run (bindAll fun _ _ => true) Ctl.init
    [.setGw wGw, .setRoutes wRoutes, .apply, .upsertNs "team-a", .apply]).crashed = none := by decide

/-- the regression input is harmless on the current code, Namespace present or not -/
theorem ns_witness_now_ok : bindAll (fun _ _ => true) (witnessView []) = .ok ()
    ∧ bindAll (fun _ _ => true) (witnessView ["team-a"]) = .ok () := by decide

/-- all six delivery orders of {Namespace, Gateway, route}, one event per batch: none crashes -/
theorem all_orders_of_three :
    let run := fun evs => (Ctl.run (bindAll fun _ _ => true) Ctl.init (withApplies evs)).crashed
    let n := Ev.upsertNs "team-a"; let g := Ev.setGw wGw; let r := Ev.setRoutes wRoutes
    run [n, g, r] = none ∧ run [n, r, g] = none ∧ run [g, n, r] = none ∧ run [r, n, g] = none
      ∧ run [g, r, n] = none ∧ run [r, g, n] = none := by decide

/-! ### regression detectors: the PRE-FIX mirror (code before d734bd5). These theorems document the old
defect and keep the old signature meaningful: a revert of the commit makes the real code behave like
`bindAllPre` again, which the harness recognises through `preSites`. -/


/-- what could be proved before the repair (all views, all selector-match oracles): if every attachable
route's namespace has its Namespace object in the store and `From` is set, the pre-fix binding cannot panic. -/
theorem pre_bind_total_of_nsClosed (m : String → String → Bool) (v : BindView)
    (hns : NsClosed v.namespaces v.routes)
    (hfrom : ∀ gw, v.gw = some gw → FromSet gw.listeners) :
    bindAllPre m v = .ok () := by
  unfold bindAllPre
  cases hg : v.gw with
  | none => rfl
  | some gw => exact bindRoutes_ok (hfrom gw hg) v.routes hns

example : NsClosed ["team-a"] [{ ns := "team-a", attachable := true, refs := [⟨"default", "gw0", "", false⟩] }] := by
  intro r hr _; simp at hr; subst hr; simp

/-- before d734bd5 an admissible state panicked -/
theorem pre_ns_lookup_witness : bindAllPre (fun _ _ => true) (witnessView []) = .error .nsLookup := by decide

theorem pre_ns_lookup_witness_ok_with_namespace :
    bindAllPre (fun _ _ => true) (witnessView ["team-a"]) = .ok () := by decide

/-- the selector-match result never decides whether binding panics -/
theorem pre_bind_indep_of_match (m m' : String → String → Bool) (v : BindView) :
    bindAllPre m v = bindAllPre m' v := by
  unfold bindAllPre
  cases v.gw with
  | none => rfl
  | some gw => exact bindRoutes_indep m m' gw v.namespaces v.routes

/-- history level, partial: whatever the order and batching of events, if at every `apply` the store is
namespace-closed (and `From` is set), the controller does not crash. -/
def ClosedAt (c : Ctl) : Ev → Prop
  | .apply => NsClosed c.view.namespaces c.view.routes ∧ ∀ gw, c.view.gw = some gw → FromSet gw.listeners
  | _ => True

inductive SafeHist : List Ev → Ctl → Prop
  | nil (c : Ctl) : SafeHist [] c
  | cons (e : Ev) (es : List Ev) (c : Ctl) :
      ClosedAt c e → SafeHist es (c.step (bindAllPre fun _ _ => true) e) → SafeHist (e :: es) c

theorem pre_no_panic_history_partial :
    ∀ (evs : List Ev) (c : Ctl), c.crashed = none → SafeHist evs c →
      (Ctl.run (bindAllPre fun _ _ => true) c evs).crashed = none
  | [], c, hc, _ => hc
  | e :: es, c, hc, hs => by
    obtain ⟨h1, h2⟩ : ClosedAt c e ∧ SafeHist es (c.step (bindAllPre fun _ _ => true) e) := by
      cases hs with
      | cons _ _ _ a b => exact ⟨a, b⟩
    cases e with
    | apply =>
      have hb := pre_bind_total_of_nsClosed (fun _ _ => true) c.view h1.1 h1.2
      have : c.step (bindAllPre fun _ _ => true) .apply = c := by simp [Ctl.step, hc, hb]
      rw [this] at h2
      simp only [Ctl.run, this]
      exact pre_no_panic_history_partial es c hc h2
    | upsertNs n => exact pre_no_panic_history_partial es _ hc h2
    | deleteNs n => exact pre_no_panic_history_partial es _ hc h2
    | setGw g => exact pre_no_panic_history_partial es _ hc h2
    | setRoutes rs => exact pre_no_panic_history_partial es _ hc h2

example : SafeHist [.upsertNs "team-a", .setGw wGw, .setRoutes wRoutes, .apply] Ctl.init := by
  refine .cons _ _ _ trivial (.cons _ _ _ trivial (.cons _ _ _ trivial (.cons _ _ _ ⟨?_, ?_⟩ (.nil _))))
  · intro r hr _; simp [Ctl.step, Ctl.init, wRoutes, witnessView] at hr; subst hr; simp [Ctl.step, Ctl.init, addKey]
  · intro gw hg l hl; simp [Ctl.step, Ctl.init, wGw, witnessView] at hg; subst hg; simp at hl; subst hl; simp

/-- before d734bd5: the same events in two orders — dependants before the Namespace crashed, Namespace
first did not -/
theorem pre_order_matters :
    (Ctl.run (bindAllPre fun _ _ => true) Ctl.init
        [.setGw wGw, .setRoutes wRoutes, .apply, .upsertNs "team-a", .apply]).crashed = some .nsLookup
    ∧ (Ctl.run (bindAllPre fun _ _ => true) Ctl.init
        [.upsertNs "team-a", .setGw wGw, .setRoutes wRoutes, .apply, .apply]).crashed = none := by
  constructor <;> decide

/-- exhaustive small scope (the Lean twin of the harness's `-perms` run): of the six delivery orders of
{Namespace, Gateway, route}, processed one event per batch, exactly the two in which the Namespace comes
last crash. -/
theorem pre_all_orders_of_three :
    let run := fun evs => (Ctl.run (bindAllPre fun _ _ => true) Ctl.init (withApplies evs)).crashed
    let n := Ev.upsertNs "team-a"; let g := Ev.setGw wGw; let r := Ev.setRoutes wRoutes
    run [n, g, r] = none ∧ run [n, r, g] = none ∧ run [g, n, r] = none ∧ run [r, n, g] = none
      ∧ run [g, r, n] = some .nsLookup ∧ run [r, g, n] = some .nsLookup := by decide

/-- …and so does deleting the Namespace while the route stays. -/
theorem pre_delete_namespace_crashes :
    (Ctl.run (bindAllPre fun _ _ => true) Ctl.init
        [.upsertNs "team-a", .setGw wGw, .setRoutes wRoutes, .apply, .deleteNs "team-a", .apply]).crashed
      = some .nsLookup := by decide

/-! ## §B  host path rules -/

/-- for EVERY sequence of `upsertRoute` calls (any listeners, routes, hostnames, order) the hostname
lookup of `buildServers` finds a listener. -/
theorem buildServers_total (ops : List (List String)) : (Hpr.upsertAll {} ops).buildServers = .ok () := by
  unfold Hpr.buildServers
  apply lookupAll_ok
  exact Hpr.inv_upsertAll ops {} (by intro h hh; simp at hh)

theorem buildAllServers_total : ∀ (ports : List (List (List String))), buildAllServers ports = .ok ()
  | [] => rfl
  | ops :: rest => by simp only [buildAllServers, buildServers_total]; exact buildAllServers_total rest

example : ((Hpr.upsertAll {} [["a.example.com", "~^"], [], ["a.example.com"]]).rulesPerHost).length = 2 := by decide

/-! ## §C  path types -/

/-- every match of the rule has a `path` (what the CRD default `{type: PathPrefix, value: "/"}` and
`ConvertGRPCMatches` guarantee) -/
def PathsPresent (ms : List Match) : Prop := ∀ m ∈ ms, m.path ≠ none

theorem rulePathTypes_total (valueOk : String → Bool) :
    ∀ (ms : List Match), PathsPresent ms → validMatches valueOk ms = true → ∃ ts, rulePathTypes ms = .ok ts
  | [], _, _ => ⟨[], rfl⟩
  | m :: ms, hp, hv => by
    simp only [validMatches, List.all_cons, Bool.and_eq_true] at hv
    have hm : validateMatch valueOk m = 0 := by simpa using hv.1
    obtain ⟨ts, hts⟩ := rulePathTypes_total valueOk ms (fun x hx => hp x (List.mem_cons_of_mem _ hx))
      (by simpa [validMatches] using hv.2)
    cases hpath : m.path with
    | none => exact absurd hpath (hp m (List.mem_cons_self ..))
    | some pm =>
      have h0 : validatePathMatch valueOk (some pm) = 0 := by
        unfold validateMatch at hm; rw [hpath] at hm; omega
      obtain ⟨t, ht, htv⟩ := validatePathMatch_zero h0
      obtain ⟨p, hpc⟩ := convertPathType_ok htv
      exact ⟨p :: ts, by simp [rulePathTypes, matchPathType, hpath, ht, hpc, hts]⟩

/-- `upsertRoute`'s rule loop never reaches the panic of `convertPathType` (nor the nil dereference
of `*m.Path.Type`) for admissible routes: any validator, any matches. -/
theorem upsertRule_total (valueOk : String → Bool) (ms : List Match) (hp : PathsPresent ms) :
    ∃ ts, upsertRule valueOk ms = .ok ts := by
  unfold upsertRule
  by_cases hv : validMatches valueOk ms = true
  · simpa [hv] using rulePathTypes_total valueOk ms hp hv
  · exact ⟨[], by simp [hv]⟩

example : PathsPresent [{ path := some ⟨some "RegularExpression", some "/a.*"⟩, otherErrs := 0 }] := by
  intro m hm; simp at hm; subst hm; simp

/-- a RegularExpression match is admissible, is reported (ValidMatches = false) and skipped -/
example : upsertRule (fun _ => true) [{ path := some ⟨some "RegularExpression", some "/a.*"⟩, otherErrs := 0 }] = .ok [] := by
  decide

/-- why admissibility (CRD defaulting) is needed: `validatePathMatch` accepts a nil path, `upsertRoute`
dereferences it. Not reachable through the API server, which defaults `path`. -/
theorem nil_path_witness :
    validMatches (fun _ => true) [{ path := none, otherErrs := 0 }] = true
      ∧ upsertRule (fun _ => true) [{ path := none, otherErrs := 0 }] = .error .nilPath := by decide

/-- GRPCRoute matches are converted to matches with a path of a supported type -/
theorem grpc_rule_total : ∀ (flags : List Bool), ∃ ts, rulePathTypes (flags.map convertGRPCMatch) = .ok ts
  | [] => ⟨[], rfl⟩
  | f :: fs => by
    obtain ⟨ts, hts⟩ := grpc_rule_total fs
    cases f <;> simp [rulePathTypes, matchPathType, convertGRPCMatch, convertPathType, hts]

/-! ## §D  backend refs and `Resolve` -/

/-- admissible backendRef in an admissible route: names are non-empty (minLength 1), ports ≥ 1 -/
structure RefAdm (ref : BackendRefIn) (routeNs : String) : Prop where
  name : ref.name ≠ ""
  routeNs : routeNs ≠ ""
  ns : ∀ n, ref.nsOpt = some n → n ≠ ""
  port : ∀ p, ref.port = some p → p ≠ 0

theorem createBackendRef_resolvePre (ref : BackendRefIn) (routeNs : String) (svcs : List Service)
    (ha : RefAdm ref routeNs) :
    let b := createBackendRef ref routeNs svcs
    b.valid = true → resolvePre b.ns b.name b.port = .ok () := by
  intro b hb
  have hnsne : ref.nsOpt.getD routeNs ≠ "" := by
    cases hn : ref.nsOpt with
    | none => simpa using ha.routeNs
    | some n => simpa using ha.ns n hn
  revert hb
  show (createBackendRef ref routeNs svcs).valid = true →
    resolvePre (createBackendRef ref routeNs svcs).ns (createBackendRef ref routeNs svcs).name
      (createBackendRef ref routeNs svcs).port = .ok ()
  unfold createBackendRef
  by_cases hr : ref.refOk = true
  · simp only [hr, Bool.not_true, Bool.false_eq_true, if_false]
    cases hp : ref.port with
    | none => simp
    | some p =>
      simp only
      cases hs : svcs.find? (fun s => s.ns == ref.nsOpt.getD routeNs && s.name == ref.name) with
      | none => simp
      | some svc =>
        simp only
        cases hsp : getServicePort svc p with
        | none => simp
        | some sp =>
          simp only
          intro _
          have hport : sp.port = p := by
            unfold getServicePort at hsp
            have := List.find?_some hsp
            simpa using this
          have hp0 : p ≠ 0 := ha.port p hp
          simp [resolvePre, hport, hp0, ha.name, hnsne]
  · simp [hr]

/-- `buildUpstreams`: every call of `Resolve` satisfies its precondition -/
theorem resolveAll_total (routeNs : String) (svcs : List Service) :
    ∀ (refs : List BackendRefIn), (∀ r ∈ refs, RefAdm r routeNs) →
      resolveAll (refs.map fun r => createBackendRef r routeNs svcs) = .ok ()
  | [], _ => rfl
  | r :: rs, ha => by
    have h1 := createBackendRef_resolvePre r routeNs svcs (ha r (List.mem_cons_self ..))
    have h2 := resolveAll_total routeNs svcs rs (fun x hx => ha x (List.mem_cons_of_mem _ hx))
    simp only [List.map_cons, resolveAll]
    by_cases hv : (createBackendRef r routeNs svcs).valid = true
    · simp only [hv, if_true, h1 hv]; exact h2
    · simp only [hv]; exact h2

example : (createBackendRef ⟨"svc0", none, some 80, true, true⟩ "default" [⟨"default", "svc0", [⟨80⟩]⟩]).valid = true := by
  decide

/-! ## §E  NGINX Plus secrets -/

/-- `generateMgmtFiles` finds the token whenever the JWT secret file is registered, which
`createPlusSecretMetadata` always does in Plus mode — whether or not the Secret has arrived. -/
theorem generateMgmtFiles_total (plus : Bool) (fs : List PlusFile) (h : plus = true → ∃ f ∈ fs, f.type = jwtTokenType) :
    generateMgmtFiles plus fs = .ok () := by
  unfold generateMgmtFiles
  by_cases hp : plus = true
  · obtain ⟨f, hf, ht⟩ := h hp
    have : jwtTokenType ∈ auxSecretKeys fs := by
      unfold auxSecretKeys; exact List.mem_map.mpr ⟨f, hf, ht⟩
    simp [hp, this]
  · simp [hp]

/-- MAIN THEOREM for the Plus secret site (commit 02715d5): `setPlusSecretContent` is total — any
registered files, Secret present or not, field present or not. -/
theorem setPlusSecretContent_total : ∀ (fs : List PlusFile), setPlusSecretContent fs = .ok ()
  | [] => rfl
  | f :: fs => by simp only [setPlusSecretContent, ite_self]; exact setPlusSecretContent_total fs

/-! regression detector: the pre-fix mirror (before 02715d5) -/

/-- before the repair only this could be proved: no panic if every registered file's field is present
in its Secret whenever the Secret is there -/
theorem pre_setPlusSecretContent_partial :
    ∀ (fs : List PlusFile), (∀ f ∈ fs, f.secretPresent = true → f.fieldPresent = true) →
      setPlusSecretContentPre fs = .ok ()
  | [], _ => rfl
  | f :: fs, h => by
    have hf := h f (List.mem_cons_self ..)
    have : (f.secretPresent && !f.fieldPresent) = false := by
      cases hs : f.secretPresent <;> simp_all
    simp only [setPlusSecretContentPre, this]
    exact pre_setPlusSecretContent_partial fs (fun x hx => h x (List.mem_cons_of_mem _ hx))

/-- the old defect: an admissible update of the license Secret that drops the `license.jwt` key
(corpus/C05/02-…) crashed the pre-fix code and is harmless now -/
theorem pre_plus_field_witness :
    setPlusSecretContentPre [{ secretPresent := true, fieldPresent := false, type := 0 }] = .error .plusField
      ∧ setPlusSecretContent [{ secretPresent := true, fieldPresent := false, type := 0 }] = .ok () := by decide

/-! ## §E'  BackendTLSPolicy with a full ancestor list -/

/-- MAIN THEOREM for the `Conditions[0]` access (commit 72dccd7): the lookup is total for every policy —
ancestors full or not, any number of spec errors. -/
theorem btpLookup_total (b : Btp) : ∃ msg, btpLookup b = .ok msg := by
  unfold btpLookup btpMessage
  by_cases h : (validateBtp b).1 = true <;> simp [h]

theorem btpMessage_total (valid : Bool) (n : Nat) : ∃ msg, btpMessage valid n = .ok msg := by
  unfold btpMessage; cases valid <;> simp

/-- the full-ancestors policy now yields the fixed message instead of an index panic -/
example : btpLookup { ancestorsFull := true, specErrs := 0 } = .ok "its ancestor status list is full" := by decide

/-! regression detector: the pre-fix mirror (before 72dccd7) -/

/-- the old defect: a BackendTLSPolicy whose status.ancestors holds 16 entries of other controllers
(admissible: maxItems 16) and whose spec is fine is marked invalid without a condition; the first
backendRef that resolved to it indexed `Conditions[0]` (corpus/C05/03-…). -/
theorem pre_btp_full_witness : btpLookupPre { ancestorsFull := true, specErrs := 0 } = .error .btpCondIndex := by decide

/-- exact characterisation of the old panic over the mirror of `validateBackendTLSPolicy` -/
theorem pre_btpLookup_error_iff (b : Btp) :
    btpLookupPre b = .error .btpCondIndex ↔ (b.ancestorsFull = true ∧ b.specErrs = 0) := by
  unfold btpLookupPre btpMessagePre validateBtp
  cases hf : b.ancestorsFull <;> cases he : b.specErrs <;> simp

theorem pre_btpLookup_partial (b : Btp) (h : b.ancestorsFull = false) : btpLookupPre b = .ok () := by
  unfold btpLookupPre btpMessagePre validateBtp
  cases he : b.specErrs <;> simp [h]

/-! ## §F  the object store -/

theorem newUpdater_supported (cfgs : List KindCfg) : (newUpdater cfgs).supported = cfgs.map (·.kind) := by
  induction cfgs with
  | nil => rfl
  | cons c cs ih => simp [newUpdater, ih]

/-- by construction of `newChangeTrackingUpdater`, every persisted kind has a store -/
theorem newUpdater_persisted_has_store (cfgs : List KindCfg) :
    (newUpdater cfgs).persisted = (newUpdater cfgs).stores := by
  induction cfgs with
  | nil => rfl
  | cons c cs ih => cases hc : c.hasStore <;> simp [newUpdater, hc, ih]

/-- an event of ANY configured kind passes `assertSupportedGVK` and `mustFindStoreForObj` -/
theorem capture_total (cfgs : List KindCfg) (k : String) (hk : k ∈ cfgs.map (·.kind)) :
    (newUpdater cfgs).capture k = .ok () := by
  unfold Updater.capture
  have hs : k ∈ (newUpdater cfgs).supported := by rw [newUpdater_supported]; exact hk
  rw [← newUpdater_persisted_has_store]
  by_cases hp : k ∈ (newUpdater cfgs).persisted <;> simp [hs, hp]

theorem captureAll_total (cfgs : List KindCfg) :
    ∀ (ks : List String), (∀ k ∈ ks, k ∈ cfgs.map (·.kind)) → (newUpdater cfgs).captureAll ks = .ok ()
  | [], _ => rfl
  | k :: ks, h => by
    simp only [Updater.captureAll, capture_total cfgs k (h k (List.mem_cons_self ..))]
    exact captureAll_total cfgs ks (fun x hx => h x (List.mem_cons_of_mem _ hx))

/-- every kind the manager registers a controller for (except NginxGateway, which the handler's object
filter keeps away from the processor) is configured in the store: its events cannot hit
"unsupported GVK". Breaks when a watch is added without a store entry. -/
theorem watched_kinds_configured :
    ∀ k ∈ Generated.PanicSites.watchedKinds, k ≠ "NginxGateway" → k ∈ Generated.PanicSites.storeKinds := by decide

/-! ## §G  closed enumerations -/

theorem validateFilter_total (grpc : Bool) (t : String) : ∃ b, validateFilter grpc t = .ok b := by
  unfold validateFilter
  by_cases hv : validateFilterType grpc t = true
  · have hh : t ∈ supportedHTTPFilters := by
      unfold validateFilterType at hv
      split at hv
      · cases hv
      · simpa using hv
    have : t ∈ filterCases := by
      simp only [supportedHTTPFilters, List.mem_cons, List.not_mem_nil, or_false] at hh
      rcases hh with rfl | rfl | rfl | rfl | rfl <;> decide
    simp [hv, this]
  · simp [hv]

theorem validateFilters_total : ∀ (fs : List (Bool × String)), validateFilters fs = .ok ()
  | [] => rfl
  | (g, t) :: fs => by
    obtain ⟨b, hb⟩ := validateFilter_total g t
    simp only [validateFilters, hb]; exact validateFilters_total fs

/-- the model's lists are the source's lists -/
theorem filter_lists_match_source :
    Generated.PanicSites.supportedHTTPFilterTypes = supportedHTTPFilters ∧ Generated.PanicSites.supportedGRPCFilterTypes = supportedGRPCFilters
      ∧ Generated.PanicSites.validateFilterCases = filterCases := by decide

/-- RouteType is closed: the graph only ever assigns the two constants, and each switch over it has a
case for both (so `convertRouteType`, `getRefGrantFromResourceForRoute`, `PrepareRouteRequests` cannot
reach their default arm); `routeKeyForKind` is only called under a case that fixes the kind. -/
theorem routeType_closed :
    Generated.PanicSites.routeTypeConsts = ["RouteTypeHTTP=http", "RouteTypeGRPC=grpc"]
      ∧ (∀ v ∈ Generated.PanicSites.routeTypeAssigned, v = "RouteTypeHTTP" ∨ v = "RouteTypeGRPC")
      ∧ (∀ c ∈ ["RouteTypeHTTP", "RouteTypeGRPC"],
          c ∈ Generated.PanicSites.convertRouteTypeCases ∧ c ∈ Generated.PanicSites.refGrantFromCases ∧ c ∈ Generated.PanicSites.prepareRouteRequestsCases)
      ∧ Generated.PanicSites.routeKeyForKindCases = ["kinds.HTTPRoute", "kinds.GRPCRoute"]
      ∧ Generated.PanicSites.routeKeyForKindCallGuards =
          ["Graph.attachPolicies: case kinds.HTTPRoute, kinds.GRPCRoute",
           "Graph.gatewayAPIResourceExist: case kinds.HTTPRoute, kinds.GRPCRoute",
           "processPolicies: case hrGroupKind, grpcGroupKind"] := by
  decide

theorem switchRouteTypes_total : ∀ (ts : List String), (∀ t ∈ ts, t = "http" ∨ t = "grpc") → switchRouteTypes ts = .ok ()
  | [], _ => rfl
  | t :: ts, h => by
    have : switchRouteType t = .ok () := by
      rcases h t (List.mem_cons_self ..) with rfl | rfl <;> decide
    simp only [switchRouteTypes, this]
    exact switchRouteTypes_total ts (fun x hx => h x (List.mem_cons_of_mem _ hx))

theorem pathType_cases_match_source : Generated.PanicSites.convertPathTypeCases = ["PathMatchPathPrefix", "PathMatchExact"] := by decide

/-! ## §H  the inventory of explicit panic sites -/

/-- how a site is discharged -/
inductive Disp
  | mirrored (s : Site) (thm : String)     -- mirrored in the model; unreachable for admissible inputs by the named theorem
  | finding (s : Site) (sig : String)      -- mirrored; REACHABLE by admissible histories: witness + partial theorem + known finding
                                           -- (none left since commits d734bd5 / 02715d5 removed the two such sites)
  | closedEnum (thm : String)              -- default arm of a switch over a closed enumeration, by the named fact theorem
  | typeInv (why : String)                 -- Go type assertion / nil check on values whose type is fixed by registration;
                                           -- argued from the call sites and exercised by the exploration, not modelled
  | offPath (why : String)                 -- start-up, test helper or another subsystem: not on the event path of C05
  deriving Repr

def handledSites : List ((String × String × String) × Disp) :=
  [(("internal/framework/controller/index/endpointslice.go", "ServiceNameIndexFunc", "if !ok"),
      .typeInv "the index is registered for EndpointSlice only (manager.go); exercised through the fake client index"),
   (("internal/framework/controller/reconciler.go", "Reconciler.mustCreateNewObject", "if !ok"),
      .typeInv "reflect.New of the registered object type, which is a client.Object"),
   (("internal/framework/controller/register.go", "Register", "if objectType.GetObjectKind().GroupVersionKind().Empty()"),
      .offPath "start-up: registering a metadata-only controller without GVK"),
   (("internal/framework/helpers/helpers.go", "MustCastObject", "unconditional"),
      .typeInv "upsertRoute casts route.Source by route.RouteType; both are set together by buildHTTPRoute/buildGRPCRoute (routeType_closed)"),
   (("internal/framework/helpers/helpers.go", "MustExecuteTemplate", "if err != nil"),
      .typeInv "template execution over the generator's own structs; every template runs in every explored case"),
   (("internal/framework/helpers/helpers.go", "PrepareTimeForFakeClient", "if err != nil"),
      .offPath "test helper"),
   (("internal/framework/kinds/kinds.go", "NewMustExtractGKV", "if err != nil"),
      .typeInv "objects of the manager's scheme; watched kinds are registered in the scheme (watched_kinds_configured)"),
   (("internal/framework/status/leader_aware_group_updater.go", "LeaderAwareGroupUpdater.Enable", "if u.enabled"),
      .offPath "leader election callback, once per process (property C09)"),
   (("internal/framework/status/updater.go", "Updater.writeStatuses", "if !ok"),
      .typeInv "UpdateRequest.ResourceType values are the typed objects of prepare_requests.go"),
   (("internal/mode/static/handler.go", "eventHandlerImpl.nginxGatewayCRDUpsert", "if !ok"),
      .typeInv "objectFilters key is built from the NginxGateway type"),
   (("internal/mode/static/handler.go", "eventHandlerImpl.nginxGatewayServiceUpsert", "if !ok"),
      .typeInv "objectFilters key is built from the Service type"),
   (("internal/mode/static/handler.go", "eventHandlerImpl.parseAndCaptureEvent", "switch e := event.(type) default"),
      .typeInv "the reconciler emits only *UpsertEvent and *DeleteEvent"),
   (("internal/mode/static/nginx/config/main_config.go", "GeneratorImpl.generateMgmtFiles", "if !ok"),
      .mirrored .mgmtToken "generateMgmtFiles_total"),
   (("internal/mode/static/nginx/config/policies/validator.go", "CompositeValidator.Conflicts", "if !ok"),
      .typeInv "validators are registered for the three policy kinds that share the policy store"),
   (("internal/mode/static/nginx/config/policies/validator.go", "CompositeValidator.Validate", "if !ok"),
      .typeInv "validators are registered for the three policy kinds that share the policy store"),
   (("internal/mode/static/nginx/config/servers.go", "GeneratorImpl.executeServers", "if err != nil"),
      .typeInv "json.Marshal of plain structs"),
   (("internal/mode/static/state/changed_predicate.go", "annotationChangedPredicate.upsert", "if newObject == nil"),
      .typeInv "changeTrackingUpdater.upsert passes the event's object"),
   (("internal/mode/static/state/changed_predicate.go", "funcPredicate.upsert", "if newObject == nil"),
      .typeInv "changeTrackingUpdater.upsert passes the event's object"),
   (("internal/mode/static/state/dataplane/configuration.go", "hostPathRules.buildServers", "if !ok"),
      .mirrored .noListenerForHost "buildServers_total"),
   (("internal/mode/static/state/dataplane/convert.go", "convertPathType", "switch pathType default"),
      .mirrored .pathType "upsertRule_total"),
   (("internal/mode/static/state/graph/backend_refs.go", "getRefGrantFromResourceForRoute", "switch routeType default"),
      .closedEnum "routeType_closed"),
   (("internal/mode/static/state/graph/common_filter.go", "validateFilter", "switch filter.FilterType default"),
      .mirrored .filterType "validateFilter_total"),
   (("internal/mode/static/state/graph/graph.go", "Graph.IsNGFPolicyRelevant", "if policy == nil"),
      .typeInv "called with the event's object or the bare typed object of a delete event, never nil"),
   (("internal/mode/static/state/graph/route_common.go", "CreateRouteKey", "switch obj.(type) default"),
      .typeInv "called on values of the HTTPRoute / GRPCRoute maps and on L7Route.Source"),
   (("internal/mode/static/state/graph/route_common.go", "convertRouteType", "switch routeType default"),
      .closedEnum "routeType_closed"),
   (("internal/mode/static/state/graph/route_common.go", "routeKeyForKind", "switch kind default"),
      .closedEnum "routeType_closed"),
   (("internal/mode/static/state/resolver/resolver.go", "ServiceResolverImpl.Resolve",
      "if svcPort.Port == 0 || svcNsName.Name == \"\" || svcNsName.Namespace == \"\""),
      .mirrored .resolvePre "resolveAll_total"),
   (("internal/mode/static/state/store.go", "changeTrackingUpdater.assertSupportedGVK", "if !s.supportedGVKs.contains(gvk)"),
      .mirrored .storeGVK "capture_total"),
   (("internal/mode/static/state/store.go", "multiObjectStore.mustFindStoreForObj", "if !exist"),
      .mirrored .storeFind "capture_total"),
   (("internal/mode/static/state/store.go", "ngfPolicyObjectStore.upsert", "if !ok"),
      .typeInv "the policy store is configured for the three policy kinds only"),
   (("internal/mode/static/state/store.go", "objectStoreMapAdapter.upsert", "if !ok"),
      .typeInv "each map adapter is configured under the GVK of its own element type (since ecaa5d2 also EndpointSlice); CRDs arrive as PartialObjectMetadata (explored)"),
   (("internal/mode/static/status/prepare_requests.go", "PrepareRouteRequests", "switch r.RouteType default"),
      .closedEnum "routeType_closed")]

/-- EVERY explicit `panic(` of the control-plane packages is accounted for. A new panic site, a moved
one, or one whose guard text changes makes this fail. -/
theorem every_site_has_lemma : ∀ s ∈ Generated.PanicSites.panicSites, s ∈ handledSites.map (·.1) := by decide

/-- …and the inventory has no stale entries. -/
theorem no_stale_sites : ∀ s ∈ handledSites.map (·.1), s ∈ Generated.PanicSites.panicSites := by decide

/-- no `x[i] = …` into a slice created with `make([]T, 0, n)` anywhere in the scanned packages
(the defect repaired by commit d04c841: `C05:panic:backendref-filters-index`). -/
theorem no_zero_length_index_writes : Generated.PanicSites.zeroLenIndexWrites = [] := by decide

/-! the mirrored functions still read as mirrored -/

theorem nsAllowedBody_pinned : Generated.PanicSites.nsAllowedBody =
  ["if listener.Source.AllowedRoutes != nil && listener.Source.AllowedRoutes.Namespaces != nil { switch *listener.Source.AllowedRoutes.Namespaces.From { case v1.NamespacesFromAll: return true case v1.NamespacesFromSame: return routeNS == gwNS case v1.NamespacesFromSelector: if listener.AllowedRouteLabelSelector == nil { return false } ns, exists := namespaces[types.NamespacedName{Name: routeNS}] if !exists { return false } return listener.AllowedRouteLabelSelector.Matches(labels.Set(ns.Labels)) } }",
   "return true"] := rfl

theorem validateParentRefBody_pinned : Generated.PanicSites.validateParentRefBody =
  ["attachment := &ParentRefAttachmentStatus{ AcceptedHostnames: make(map[string][]string), }",
   "ref.Attachment = attachment",
   "path := field.NewPath(\"spec\").Child(\"parentRefs\").Index(ref.Idx)",
   "attachableListeners, listenerExists := findAttachableListeners( getSectionName(ref.SectionName), gw.Listeners, )",
   "if !listenerExists { attachment.FailedCondition = staticConds.NewRouteNoMatchingParent() return attachment, nil }",
   "if ref.Port != nil { valErr := field.Forbidden(path.Child(\"port\"), \"cannot be set\") attachment.FailedCondition = staticConds.NewRouteUnsupportedValue(valErr.Error()) return attachment, attachableListeners }",
   "referencesWinningGw := ref.Gateway.Namespace == gw.Source.Namespace && ref.Gateway.Name == gw.Source.Name",
   "if !referencesWinningGw { attachment.FailedCondition = staticConds.NewRouteNotAcceptedGatewayIgnored() return attachment, attachableListeners }",
   "if !gw.Valid { attachment.FailedCondition = staticConds.NewRouteInvalidGateway() return attachment, attachableListeners }",
   "return attachment, attachableListeners"] := rfl

theorem findAttachableBody_pinned : Generated.PanicSites.findAttachableBody =
  ["if sectionName != \"\" { for _, l := range listeners { if l.Name == sectionName { if l.Attachable { return []*Listener{l}, true } return nil, true } } return nil, false }",
   "attachableListeners := make([]*Listener, 0, len(listeners))",
   "for _, l := range listeners { if !l.Attachable { continue } attachableListeners = append(attachableListeners, l) }",
   "return attachableListeners, true"] := rfl

theorem bindL7Body_pinned : Generated.PanicSites.bindL7Body =
  ["if !route.Attachable { return }",
   "for i := range route.ParentRefs { ref := &(route.ParentRefs)[i] attachment, attachableListeners := validateParentRef(ref, gw) if attachment.FailedCondition != (conditions.Condition{}) { continue } cond, attached := tryToAttachL7RouteToListeners( ref.Attachment, attachableListeners, route, gw, namespaces, ) if !attached { attachment.FailedCondition = cond continue } if cond != (conditions.Condition{}) { route.Conditions = append(route.Conditions, cond) } attachment.Attached = true }"] := rfl

theorem bindL4Body_pinned : Generated.PanicSites.bindL4Body =
  ["if !route.Attachable { return }",
   "for i := range route.ParentRefs { ref := &(route.ParentRefs)[i] attachment, attachableListeners := validateParentRef(ref, gw) if attachment.FailedCondition != (conditions.Condition{}) { continue } cond, attached := tryToAttachL4RouteToListeners( ref.Attachment, attachableListeners, route, gw, namespaces, portHostnamesMap, ) if !attached { attachment.FailedCondition = cond continue } if cond != (conditions.Condition{}) { route.Conditions = append(route.Conditions, cond) } attachment.Attached = true }"] := rfl

theorem validatePathMatchBody_pinned : Generated.PanicSites.validatePathMatchBody =
  ["var allErrs field.ErrorList",
   "if path == nil { return allErrs }",
   "if path.Type == nil { return field.ErrorList{field.Required(fieldPath.Child(\"type\"), \"path type cannot be nil\")} }",
   "if path.Value == nil { return field.ErrorList{field.Required(fieldPath.Child(\"value\"), \"path value cannot be nil\")} }",
   "if strings.HasPrefix(*path.Value, http.InternalRoutePathPrefix) { msg := fmt.Sprintf( \"path cannot start with %s. This prefix is reserved for internal use\", http.InternalRoutePathPrefix, ) return field.ErrorList{field.Invalid(fieldPath.Child(\"value\"), *path.Value, msg)} }",
   "if *path.Type != v1.PathMatchPathPrefix && *path.Type != v1.PathMatchExact { valErr := field.NotSupported( fieldPath.Child(\"type\"), *path.Type, []string{string(v1.PathMatchExact), string(v1.PathMatchPathPrefix)}, ) allErrs = append(allErrs, valErr) }",
   "if err := validator.ValidatePathInMatch(*path.Value); err != nil { valErr := field.Invalid(fieldPath.Child(\"value\"), *path.Value, err.Error()) allErrs = append(allErrs, valErr) }",
   "return allErrs"] := rfl

theorem setPlusSecretContentBody_pinned : Generated.PanicSites.setPlusSecretContentBody =
  ["for name, plusSecretFiles := range plusSecrets { if secret, ok := clusterSecrets[name]; ok { for idx, file := range plusSecretFiles { content, ok := secret.Data[file.FieldName] if !ok { continue } file.Content = content plusSecrets[name][idx] = file } } }"] := rfl

theorem buildAuxiliarySecretsBody_pinned : Generated.PanicSites.buildAuxiliarySecretsBody =
  ["auxSecrets := make(map[graph.SecretFileType][]byte)",
   "for _, secretFiles := range secrets { for _, file := range secretFiles { auxSecrets[file.Type] = file.Content } }",
   "return auxSecrets"] := rfl

theorem storeUpsertOuterBody_pinned : Generated.PanicSites.storeUpsertOuterBody =
  ["s.assertSupportedGVK(s.extractGVK(obj))",
   "changingUpsert := s.upsert(obj)",
   "s.setChangeType(obj, changingUpsert)"] := rfl

theorem storeDeleteOuterBody_pinned : Generated.PanicSites.storeDeleteOuterBody =
  ["s.assertSupportedGVK(s.extractGVK(objType))",
   "changingDelete := s.delete(objType, nsname)",
   "s.setChangeType(objType, changingDelete)"] := rfl

theorem storeUpsertBody_pinned : Generated.PanicSites.storeUpsertBody =
  ["objTypeGVK := s.extractGVK(obj)",
   "var oldObj client.Object",
   "if s.store.persists(objTypeGVK) { oldObj = s.store.get(obj, client.ObjectKeyFromObject(obj)) s.store.upsert(obj) }",
   "stateChanged, ok := s.stateChangedPredicates[objTypeGVK]",
   "if !ok { return true }",
   "return stateChanged.upsert(oldObj, obj)"] := rfl

theorem storeDeleteBody_pinned : Generated.PanicSites.storeDeleteBody =
  ["objTypeGVK := s.extractGVK(objType)",
   "subject := client.Object(objType)",
   "if s.store.persists(objTypeGVK) { old := s.store.get(objType, nsname) if old == nil { return false } subject = old s.store.delete(objType, nsname) }",
   "stateChanged, ok := s.stateChangedPredicates[objTypeGVK]",
   "if !ok { return true }",
   "return stateChanged.delete(subject, nsname)"] := rfl

theorem upsertRouteHostLoop_pinned : Generated.PanicSites.upsertRouteHostLoop =
  ["if prevListener, exists := hpr.listenersForHost[h]; exists { if listenerHostnameMoreSpecific(listener.Source.Hostname, prevListener.Source.Hostname) { hpr.listenersForHost[h] = listener } } else { hpr.listenersForHost[h] = listener }",
   "if _, exist := hpr.rulesPerHost[h]; !exist { hpr.rulesPerHost[h] = make(map[pathAndType]PathRule) }"] := rfl

theorem upsertRouteRuleGuard_pinned : Generated.PanicSites.upsertRouteRuleGuard =
  ["if !rule.ValidMatches { continue }"] := rfl

theorem validateFilterTypeBody_pinned : Generated.PanicSites.validateFilterTypeBody =
  ["if filter.RouteType == RouteTypeGRPC && !slices.Contains(supportedGRPCFilterTypes, filter.FilterType) { return field.NotSupported(filterPath.Child(\"type\"), filter.FilterType, supportedGRPCFilterTypes) }",
   "if !slices.Contains(supportedHTTPFilterTypes, filter.FilterType) { return field.NotSupported(filterPath.Child(\"type\"), filter.FilterType, supportedHTTPFilterTypes) }",
   "return nil"] := rfl


theorem findBackendTLSPolicyForServiceBody_pinned : Generated.PanicSites.findBackendTLSPolicyForServiceBody =
  ["var beTLSPolicy *BackendTLSPolicy",
   "var err error",
   "refNs := routeNamespace",
   "if refNamespace != nil { refNs = string(*refNamespace) }",
   "for _, btp := range backendTLSPolicies { btpNs := btp.Source.Namespace for _, targetRef := range btp.Source.Spec.TargetRefs { if string(targetRef.Name) == refName && btpNs == refNs { if beTLSPolicy != nil { if sort.LessClientObject(btp.Source, beTLSPolicy.Source) { beTLSPolicy = btp } } else { beTLSPolicy = btp } } } }",
   "if beTLSPolicy != nil { beTLSPolicy.IsReferenced = true if !beTLSPolicy.Valid { msg := \"its ancestor status list is full\" if len(beTLSPolicy.Conditions) > 0 { msg = beTLSPolicy.Conditions[0].Message } err = fmt.Errorf(\"the backend TLS policy is invalid: %s\", msg) } else { beTLSPolicy.Conditions = append(beTLSPolicy.Conditions, staticConds.NewPolicyAccepted()) } }",
   "return beTLSPolicy, err"] := rfl

theorem funcPredicateUpsertBody_pinned : Generated.PanicSites.funcPredicateUpsertBody =
  ["if newObject == nil { panic(\"new object cannot be nil\") }",
   "nsname := client.ObjectKeyFromObject(newObject)",
   "return f.stateChanged(newObject, nsname) || (oldObject != nil && f.stateChanged(oldObject, nsname))"] := rfl

theorem funcPredicateDeleteBody_pinned : Generated.PanicSites.funcPredicateDeleteBody =
  ["return f.stateChanged(object, nsname)"] := rfl

theorem getServicePortBody_pinned : Generated.PanicSites.getServicePortBody =
  ["for _, p := range svc.Spec.Ports { if p.Port == port { return p, nil } }",
   "return v1.ServicePort{}, fmt.Errorf(\"no matching port for Service %s and port %d\", svc.Name, port)"] := rfl

theorem getIPFamilyAndPortFromRefBody_pinned : Generated.PanicSites.getIPFamilyAndPortFromRefBody =
  ["svc, ok := services[svcNsName]",
   "if !ok { return []v1.IPFamily{}, v1.ServicePort{}, field.NotFound(refPath.Child(\"name\"), ref.Name) }",
   "svcPort, err := getServicePort(svc, int32(*ref.Port))",
   "if err != nil { return []v1.IPFamily{}, v1.ServicePort{}, err }",
   "return svc.Spec.IPFamilies, svcPort, nil"] := rfl

/-! ## §H'  reporting: `buildSectionNameRefs` (second half of the property) -/

/-- FULL STRENGTH FAILS ("inconsistent features are reported through status conditions"): two parentRefs to
one Gateway that differ only in `port` are admitted by the CRD, yet `buildSectionNameRefs` reports a
duplicate and the route becomes invalid with no condition and no parent status (reproduced on the real
pipeline: known finding `C05:unreported:parentrefs-same-section-different-port`). -/
theorem dup_port_witness :
    celParentRefsOK [⟨"default/gw0", "", some 80⟩, ⟨"default/gw0", "", some 443⟩] = true
      ∧ buildSectionNameRefs [] [⟨"default/gw0", "", some 80⟩, ⟨"default/gw0", "", some 443⟩] = .error ()
      ∧ classifySilent [⟨"default/gw0", "", some 80⟩, ⟨"default/gw0", "", some 443⟩]
          = "parentrefs-same-section-different-port" := by decide

/-- partial: when the (gateway, sectionName) pairs are pairwise distinct the function succeeds -/
theorem buildSectionNameRefs_partial :
    ∀ (refs : List SpecRef) (seen : List (String × String)),
      (refs.map fun r => (r.gw, r.section_)).Nodup → (∀ r ∈ refs, (r.gw, r.section_) ∉ seen) →
      ∃ l, buildSectionNameRefs seen refs = .ok l
  | [], _, _, _ => ⟨[], rfl⟩
  | r :: rs, seen, hnd, hs => by
    have hr : (r.gw, r.section_) ∉ seen := hs r (List.mem_cons_self ..)
    simp only [List.map_cons, List.nodup_cons] at hnd
    obtain ⟨l, hl⟩ := buildSectionNameRefs_partial rs ((r.gw, r.section_) :: seen) hnd.2 (by
      intro q hq hmem
      simp only [List.mem_cons] at hmem
      rcases hmem with h | h
      · exact hnd.1 (List.mem_map.mpr ⟨q, hq, h⟩)
      · exact hs q (List.mem_cons_of_mem _ hq) h)
    exact ⟨r :: l, by simp [buildSectionNameRefs, hr, hl]⟩

example : (([⟨"default/gw0", "http", none⟩, ⟨"default/gw0", "https", none⟩] : List SpecRef).map
    fun r => (r.gw, r.section_)).Nodup := by decide

/-! ## §I  one whole step -/

/-- what holds of the views of admissible inputs at an `apply` -/
structure StepInv (cfgs : List KindCfg) (v : StepView) : Prop where
  events   : ∀ k ∈ v.events, k ∈ cfgs.map (·.kind)
  fromSet  : ∀ gw, v.bind.gw = some gw → FromSet gw.listeners
  routeTs  : ∀ t ∈ v.routeTypes, t = "http" ∨ t = "grpc"
  jwt      : v.plus = true → ∃ f ∈ v.plusFiles, f.type = jwtTokenType
  paths    : ∀ t ∈ v.pathTypes, t = "PathPrefix" ∨ t = "Exact"
  backends : ∀ b ∈ v.backends, b.port ≠ 0 ∧ b.name ≠ "" ∧ b.ns ≠ ""

theorem convertAll_total : ∀ (ts : List String), (∀ t ∈ ts, t = "PathPrefix" ∨ t = "Exact") → convertAll ts = .ok ()
  | [], _ => rfl
  | t :: ts, h => by
    have : ∃ p, pathTypeOf t = .ok p := by
      rcases h t (List.mem_cons_self ..) with rfl | rfl
      · exact ⟨.prefix_, by decide⟩
      · exact ⟨.exact, by decide⟩
    obtain ⟨p, hp⟩ := this
    simp only [convertAll, hp]
    exact convertAll_total ts (fun x hx => h x (List.mem_cons_of_mem _ hx))

theorem resolveAll_ok : ∀ (bs : List BackendRef), (∀ b ∈ bs, b.port ≠ 0 ∧ b.name ≠ "" ∧ b.ns ≠ "") → resolveAll bs = .ok ()
  | [], _ => rfl
  | b :: bs, h => by
    obtain ⟨h1, h2, h3⟩ := h b (List.mem_cons_self ..)
    have hb : resolvePre b.ns b.name b.port = .ok () := by simp [resolvePre, h1, h2, h3]
    have hr := resolveAll_ok bs (fun x hx => h x (List.mem_cons_of_mem _ hx))
    unfold resolveAll
    by_cases hv : b.valid = true
    · simp only [hv, if_true, hb]; exact hr
    · simp only [hv]; exact hr

/-- no mirrored site fires in a step whose views satisfy the invariants: for every step view, every
updater configuration and every selector-match oracle. -/
theorem step_no_panic (cfgs : List KindCfg) (m : String → String → Bool) (v : StepView) (h : StepInv cfgs v) :
    stepSites (newUpdater cfgs) m v = [] := by
  unfold stepSites
  simp only [captureAll_total cfgs v.events h.events, validateFilters_total,
    bind_total m v.bind h.fromSet, switchRouteTypes_total v.routeTypes h.routeTs,
    setPlusSecretContent_total v.plusFiles, convertAll_total v.pathTypes h.paths,
    buildAllServers_total, resolveAll_ok v.backends h.backends, generateMgmtFiles_total v.plus v.plusFiles h.jwt]
  by_cases hc : v.changed = true <;> simp [hc]

end NGF.PanicSites
