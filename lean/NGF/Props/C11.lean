/-
C11 — files on disk equal the last generated set, whatever I/O faults occurred.

Property theorems for the file manager model (`NGF.Model.FileMgr`): the functions below are the ones
the driver `ngfdriver_C11` runs and the correspondence compares with the real
`file.ManagerImpl.ReplaceFiles` / `file.ClearFolders`.  Every theorem quantifies over ALL fault
schedules `sch : Nat → Option Fault` (any number of failing operations of any kind at any operation
index, including a crash of the process at any operation, with any partial-write length), all file
sets (no `Nodup` assumption unless stated) and all histories.
-/
import NGF.Model.FileMgr
import NGF.Model.GenPaths
import NGF.Proofs.FileMgr
import NGF.Proofs.GenPaths
import NGF.Generated.FileFacts

namespace NGF.FileMgr
open NGF.Generated.FileMgr

/-! ## 1. Facts regenerated from /repo on every run, pinned to what the model assumes -/

theorem facts_file_modes : regularFileMode = regularMode ∧ secretFileMode = secretMode := by decide

/-- the secret mode has no permission bit for "others", the regular one is world-readable (NGINX workers) -/
theorem secret_mode_not_world_readable : modeOf .secret % 8 = 0 ∧ secretFileMode % 8 = 0 := by decide

theorem facts_config_folders : configFolders = managedFolders := by decide

theorem facts_ignore_paths : ignoreFilePaths = ignorePaths := by decide

/-- the bootstrap files live in a managed folder (so `ClearFolders` meets them and must skip them) -/
theorem ignore_paths_in_managed_folders : ∀ p ∈ ignorePaths, dirOf p ∈ managedFolders := by decide

/-- the path is tracked BEFORE `WriteFile` is called (commit 167f009): the model's `replaceFiles` is
`replaceFilesV true`. -/
theorem facts_track_before_write : trackBeforeWrite = true := by decide

theorem facts_replaceFiles_skeleton : replaceFilesSkeleton =
    ["0|range m.lastWrittenPaths",
     "1|if err := m.osFileManager.Remove(path); err != nil",
     "2|if os.IsNotExist(err)",
     "3|continue",
     "2|return fmt.Errorf(…)",
     "0|m.lastWrittenPaths = make([]string, 0, len(files))",
     "0|range files",
     "1|m.lastWrittenPaths = append(m.lastWrittenPaths, file.Path)",
     "1|if err := WriteFile(m.osFileManager, file); err != nil",
     "2|return fmt.Errorf(…)",
     "0|return nil"] := by decide

/-- `WriteFile`: Create, then Chmod (per type), then Write -/
theorem facts_writeFile_calls : writeFileCalls =
    ["Create(file.Path)", "Chmod(f, regularFileMode)", "Chmod(f, secretFileMode)",
     "Write(f, file.Content)"] := by decide

theorem facts_writeFile_skeleton : writeFileSkeleton =
    ["0|ensureType(file.Type)",
     "0|f, err := fileMgr.Create(file.Path)",
     "0|if err != nil",
     "1|return fmt.Errorf(…)",
     "0|var resultErr error",
     "0|defer",
     "1|if err := f.Close(); err != nil",
     "2|resultErr = errors.Join(resultErr, fmt.Errorf(…)",
     "0|switch file.Type",
     "1|case TypeRegular",
     "2|if err := fileMgr.Chmod(f, regularFileMode); err != nil",
     "3|resultErr = fmt.Errorf(…)",
     "3|return resultErr",
     "1|case TypeSecret",
     "2|if err := fileMgr.Chmod(f, secretFileMode); err != nil",
     "3|resultErr = fmt.Errorf(…)",
     "3|return resultErr",
     "1|default",
     "2|panic(fmt.Sprintf(\"unknown file type %d\", file.Type))",
     "0|if err := fileMgr.Write(f, file.Content); err != nil",
     "1|resultErr = fmt.Errorf(…)",
     "1|return resultErr",
     "0|return resultErr"] := by decide

theorem facts_clearFolders_skeleton : clearFoldersSkeleton =
    ["0|range paths",
     "1|entries, err := fileMgr.ReadDir(path)",
     "1|if err != nil",
     "2|return removedFiles, fmt.Errorf(…)",
     "1|range entries",
     "2|entryPath := filepath.Join(path, entry.Name())",
     "2|if slices.Contains(ignoreFilePaths, entryPath)",
     "3|continue",
     "2|if err := fileMgr.Remove(entryPath); err != nil",
     "3|return removedFiles, fmt.Errorf(…)",
     "2|removedFiles = append(removedFiles, entryPath)",
     "0|return removedFiles, nil"] := by decide

/-- `os.Create` truncates; `Remove`/`Chmod`/`Write`/`ReadDir` are the plain library calls -/
theorem facts_stdlib_os_calls : stdlibBodies =
    ["ReadDir: return os.ReadDir(dirname)",
     "Remove: return os.Remove(name)",
     "Write: _, err := file.Write(contents); return err",
     "Create: return os.Create(name)",
     "Chmod: return file.Chmod(mode)"] := by decide

/-- **The producer/classifier pair of ENOENT.** `StdLibOSFileManager.Remove` hands on the error of `os.Remove`
in a form that the test of `ReplaceFiles` recognises as "already gone" (returned unchanged and tested with
`os.IsNotExist` — or any other consistent pair, e.g. wrapped with `%w` and tested with `errors.Is`). This is what
makes `removeLoop` (= `removeLoopE true`, `remove_loop_is_enoent_tolerant`) the model of the code: wrapping the
error with `%w` while still testing with `os.IsNotExist` gives `removeLoopE false`, for which recovery is lost
for ever (`enoent_unrecognised_never_recovers`). -/
theorem facts_enoent_pair_consistent : enoentRecognised removeErrorShape notExistTest = true := by decide

example : enoentRecognised "wrapped-%w" "os.IsNotExist" = false ∧ enoentRecognised "wrapped-%w" "errors.Is" = true ∧
    enoentRecognised "wrapped-opaque" "errors.Is" = false := by decide

/-- `ClearFolders` keeps an entry iff its FULL path (`filepath.Join(folder, name)`) is an element of
`ignoreFilePaths` (`slices.Contains`, i.e. equality — not a suffix or base-name match), and the list holds
absolute paths. -/
theorem facts_ignore_match_full_path :
    ignoreMatchExpr = "slices.Contains(ignoreFilePaths, entryPath)" ∧
    entryPathExpr = "filepath.Join(path, entry.Name())" ∧
    ∀ p ∈ ignoreFilePaths, p.toList.head? = some '/' := by decide

/-- every path the generator can produce is built from a managed folder, directly inside it -/
theorem paths_in_managed_folders :
    (∀ p ∈ generatedFileConsts, dirOf p ∈ managedFolders) ∧
    (∀ d ∈ generatedPathFolders, d ∈ managedFolders) ∧
    (∀ s ∈ generatedPathShapes, s ∈ ["folder+/…", "join(folder,…)"]) ∧
    generatedPathShapes.length = generatedPathExprs.length ∧
    generatedPathFolders.length = generatedPathExprs.length := by decide

/-- every folder nginx.conf pulls `*.conf` files from is cleared at start-up and tracked afterwards -/
theorem nginx_conf_includes_only_managed_folders :
    nginxConfGlobIncludeDirs ≠ [] ∧ ∀ d ∈ nginxConfGlobIncludeDirs, d ∈ managedFolders := by decide

/-- static.StartManager clears exactly `ConfigFolders`, before the file manager exists, and gives up on error -/
theorem facts_startup_clears_config_folders :
    clearFoldersArgs = ["file.NewStdLibOSFileManager()", "ngxcfg.ConfigFolders"] ∧
    ngxcfgImport = "github.com/nginx/nginx-gateway-fabric/internal/mode/static/nginx/config" ∧
    clearBeforeManagerCreated = true ∧ clearFoldersErrorReturned = true := by decide

/-! ## 2. The invariant `Tracked`, under every fault schedule -/

/-- One `ReplaceFiles` call, whatever fails or crashes in it, keeps every file of the managed folders
tracked (in `lastWrittenPaths`) or in the bootstrap set `B`. -/
theorem tracked_preserved (B : List String) (sch : Sched) (s : St) (F : List File)
    (h : Tracked B s) : Tracked B (replaceFiles sch s F).st :=
  replaceFiles_tracked B sch s F h

/-- … hence after any history of failed, partially executed or successful replacements. -/
theorem tracked_after_any_history (B : List String) :
    ∀ (calls : List (Sched × List File)) (s : St), Tracked B s → Tracked B (runCalls s calls)
  | [], _, h => h
  | (sch, F) :: r, s, h => tracked_after_any_history B r _ (tracked_preserved B sch s F h)

example : Tracked [] ⟨[], []⟩ := fun _ h => absurd rfl h

/-! ## 3. A successful replacement leaves exactly its set -/

/-- Successful `ReplaceFiles F` from a tracked state: `lastWrittenPaths` = the paths of `F`; outside the
bootstrap set the disk is EXACTLY `F` (later entries of `F` win for a repeated path): every path of the
set holds content and mode of its entry, every other path is absent — no stale or partial file. A
bootstrap path not in `F` is removed if it was tracked and untouched otherwise. -/
theorem replace_ok_exact (B : List String) (sch : Sched) (s : St) (F : List File)
    (ht : Tracked B s) (hok : (replaceFiles sch s F).out = .ok) :
    (replaceFiles sch s F).st.last = F.map (·.path) ∧
    (∀ q, q ∉ B → get (replaceFiles sch s F).st.fs q = expectAfter F q none) ∧
    (∀ q, q ∈ B → get (replaceFiles sch s F).st.fs q =
        expectAfter F q (if q ∈ s.last then none else get s.fs q)) := by
  obtain ⟨hl, hg⟩ := replaceFiles_ok sch s F hok
  refine ⟨hl, fun q hq => ?_, fun q _ => hg q⟩
  rw [hg q]
  by_cases hlq : q ∈ s.last
  · simp [hlq]
  · have : get s.fs q = none := by
      apply Classical.byContradiction; intro hne
      rcases ht q hne with h | h
      · exact hlq h
      · exact hq h
    simp [hlq, this]

/-- Every file of the set is on disk with its exact content and its mode (distinct paths). -/
theorem replace_ok_files_present (sch : Sched) (s : St) (F : List File)
    (hnd : (F.map (·.path)).Nodup) (hok : (replaceFiles sch s F).out = .ok) :
    ∀ f ∈ F, get (replaceFiles sch s F).st.fs f.path = some ⟨f.content, modeOf f.typ⟩ := by
  intro f hf
  rw [(replaceFiles_ok sch s F hok).2 f.path]
  exact expectAfter_nodup F hnd _ f hf

/-- Without the distinctness assumption: a path of the set holds content and mode of ONE of its entries
(the code lets the last one win; the generator never repeats a path). -/
theorem replace_ok_some_entry (sch : Sched) (s : St) (F : List File)
    (hok : (replaceFiles sch s F).out = .ok) :
    ∀ q ∈ F.map (·.path), ∃ f ∈ F, f.path = q ∧
      get (replaceFiles sch s F).st.fs q = some ⟨f.content, modeOf f.typ⟩ := by
  intro q hq
  rw [(replaceFiles_ok sch s F hok).2 q]
  rcases expectAfter_cases F q (if q ∈ s.last then none else get s.fs q) with ⟨hn, _⟩ | ⟨f, hf, hp, he⟩
  · exact absurd hq hn
  · exact ⟨f, hf, hp, he⟩

/-- Nothing else is left: a path outside the set and outside the bootstrap files is absent — in
particular the key file of a removed listener. -/
theorem replace_ok_nothing_else (B : List String) (sch : Sched) (s : St) (F : List File)
    (ht : Tracked B s) (hok : (replaceFiles sch s F).out = .ok) (q : String)
    (hq : q ∉ F.map (·.path)) (hb : q ∉ B) : get (replaceFiles sch s F).st.fs q = none := by
  rw [(replace_ok_exact B sch s F ht hok).2.1 q hb, expectAfter_not_mem F q none hq]

/-- After a successful replacement a path whose entries are all secret is not world-readable. -/
theorem replace_ok_secret_not_world_readable (sch : Sched) (s : St) (F : List File)
    (hok : (replaceFiles sch s F).out = .ok) (q : String) (hq : q ∈ F.map (·.path))
    (hsec : ∀ f ∈ F, f.path = q → f.typ = .secret) :
    ∃ o, get (replaceFiles sch s F).st.fs q = some o ∧ o.mode % 8 = 0 := by
  obtain ⟨f, hf, hp, hg⟩ := replace_ok_some_entry sch s F hok q hq
  refine ⟨_, hg, ?_⟩
  simp [hsec f hf hp, modeOf, secretMode]

/-- Even when `WriteFile` is interrupted by any fault or by a crash at any operation: the file it works on
is untouched, or empty, or has the requested mode and a prefix of the requested content. Secret bytes
are therefore never in a file with a mode other than the secret one. -/
theorem write_file_never_exposes (sch : Sched) (k : Nat) (fs : FS) (f : File) :
    get (writeFile sch k fs f).fs f.path = get fs f.path ∨
    ∃ o, get (writeFile sch k fs f).fs f.path = some o ∧
      (o.content = [] ∨ (o.mode = modeOf f.typ ∧ o.content <+: f.content)) :=
  writeFile_safe sch k fs f

/-! ## 4. After any failures, the next successful replacement leaves exactly the latest set -/

/-- From a tracked state, after ANY history of replacements under ANY fault schedules (single, double,
n-fold failures of remove / create / chmod / write at any operation index, partial writes of any length),
a replacement that succeeds leaves exactly its own set outside the bootstrap files. -/
theorem next_success_exact (B : List String) (calls : List (Sched × List File)) (s : St)
    (ht : Tracked B s) (sch : Sched) (F : List File)
    (hok : (replaceFiles sch (runCalls s calls) F).out = .ok) :
    ∀ q, q ∉ B → get (replaceFiles sch (runCalls s calls) F).st.fs q = expectAfter F q none :=
  (replace_ok_exact B sch _ F (tracked_after_any_history B calls s ht) hok).2.1

/-- … with no bootstrap files at all (`B = []`), the whole disk is exactly the latest set. -/
theorem next_success_exact_whole_disk (calls : List (Sched × List File)) (s : St)
    (ht : Tracked [] s) (sch : Sched) (F : List File)
    (hok : (replaceFiles sch (runCalls s calls) F).out = .ok) :
    ∀ q, get (replaceFiles sch (runCalls s calls) F).st.fs q = expectAfter F q none :=
  fun q => next_success_exact [] calls s ht sch F hok q (by simp)

private def kpL : File := ⟨"/etc/nginx/secrets/ssl_keypair_ns_l.pem", [75, 69, 89], .secret⟩
private def hcL : File := ⟨"/etc/nginx/conf.d/http.conf", [104, 49], .regular⟩

/-! ## 4b. Liveness of recovery: a call during which nothing is injected succeeds -/

/-- the model's removal loop is the ENOENT-tolerant one (see `facts_enoent_pair_consistent`) -/
theorem remove_loop_is_enoent_tolerant (sch : Sched) (s : St) (F : List File) :
    replaceFilesE true sch s F = replaceFiles sch s F := replaceFilesE_true sch s F

/-- **`ReplaceFiles` without an injected fault returns nil — from EVERY state**, in particular from every
state reachable by any history of failed, partial or crashed calls: tracked paths that are not on disk
(failed `Create`, half-done removal loop, a file somebody else removed) are tolerated. "The next successful
replacement leaves exactly the latest set" is therefore not vacuous: the next fault-free replacement IS
successful. -/
theorem fault_free_replace_succeeds (s : St) (F : List File) : (replaceFiles noFaults s F).out = .ok :=
  replaceFiles_noFaults s F

/-- … after any history, and then the disk is exactly the new set (outside the bootstrap files). -/
theorem fault_free_replace_recovers (B : List String) (calls : List (Sched × List File)) (s : St)
    (ht : Tracked B s) (F : List File) :
    (replaceFiles noFaults (runCalls s calls) F).out = .ok ∧
    ∀ q, q ∉ B → get (replaceFiles noFaults (runCalls s calls) F).st.fs q = expectAfter F q none :=
  ⟨fault_free_replace_succeeds _ F, next_success_exact B calls s ht noFaults F (fault_free_replace_succeeds _ F)⟩

/-- the same for the whole control plane: while it is up, a fault-free replacement succeeds -/
theorem system_fault_free_replace_succeeds (fs0 : FS) (steps : List Step) (F : List File) :
    let s := sysRun ⟨⟨fs0, []⟩, false⟩ steps
    s.up = true → (sysStep s (.replace noFaults F)).2 = .ok := by
  intro s hup
  unfold sysStep
  simp only [hup, if_true]
  exact fault_free_replace_succeeds s.st F

/-- create of the first file fails: its path is tracked and not on disk -/
private def createFails : Sched := fun k => if k = 0 then some .eio else none

example : (replaceFiles createFails ⟨[], []⟩ [hcL, kpL]).out = .failed ∧
    (replaceFiles createFails ⟨[], []⟩ [hcL, kpL]).st.last = [hcL.path] ∧
    (replaceFiles noFaults (replaceFiles createFails ⟨[], []⟩ [hcL, kpL]).st [hcL]).out = .ok := by decide

/-- **Witness for the variant that does not recognise ENOENT** (`Remove` wraps the error with `%w`,
`ReplaceFiles` still asks `os.IsNotExist`): one failed `Create` leaves a tracked path that is not on disk … -/
theorem enoent_unrecognised_witness :
    let r := replaceFilesE false createFails ⟨[], []⟩ [hcL, kpL]
    r.out = .failed ∧ r.st.last = [hcL.path] ∧ get r.st.fs hcL.path = none := by decide

/-- … and from then on EVERY replacement fails, with no fault injected, for every file set, and leaves the
state as it is — so also the one after it, and so on: the disk never reaches the latest set again. -/
theorem enoent_unrecognised_never_recovers (sets : List (List File)) (F : List File) :
    let s1 := (replaceFilesE false createFails ⟨[], []⟩ [hcL, kpL]).st
    let sn := sets.foldl (fun s G => (replaceFilesE false noFaults s G).st) s1
    sn = s1 ∧ (replaceFilesE false noFaults sn F).out = .failed := by
  intro s1 sn
  have h1 : s1.last = [hcL.path] ∧ get s1.fs hcL.path = none := by decide
  have hstuck : ∀ G, (replaceFilesE false noFaults s1 G).out = .failed ∧ (replaceFilesE false noFaults s1 G).st = s1 :=
    fun G => replaceFilesE_false_stuck s1 hcL.path [] G h1.1 h1.2
  have hsn : sn = s1 := by
    show sets.foldl (fun s G => (replaceFilesE false noFaults s G).st) s1 = s1
    induction sets with
    | nil => rfl
    | cons G r ih => rw [List.foldl_cons, (hstuck G).2]; exact ih
  exact ⟨hsn, by rw [hsn]; exact (hstuck F).1⟩

/-! ## 4c. A `WriteFile` error of ANY class aborts the call -/

/-- **No error value is benign in the write phase.** If `ReplaceFiles` returns nil then NO operation of its write
phase (Create, Chmod, Write of every file: the `3 * |F|` operations after the removal loop) was hit by a fault —
of any kind and whatever error the operation would have returned (EIO, EACCES, ENOSPC, a bare or wrapped ENOENT,
a short write): every such error makes the call return an error (or the process die), so that the caller retries
instead of reloading NGINX with a file missing. -/
theorem write_error_aborts_any_class (sch : Sched) (s : St) (F : List File)
    (hok : (replaceFiles sch s F).out = .ok) :
    ∀ j, j < 3 * F.length → sch (s.last.length + j) = none := by
  intro j hj
  unfold replaceFiles replaceFilesV at hok
  simp only at hok
  split at hok
  · next hr =>
    have hk := removeLoop_ok_k sch s.last 0 s.fs hr
    have := writeLoop_ok_noFault true sch F _ _ _ hok j hj
    rw [hk] at this
    simpa using this
  · next hne => exact absurd hok (by simpa using hne)

/-- in particular an ENOENT at the `Create` of the key file (operation 3) fails the call -/
example :
    let sch : Sched := fun k => if k = 3 then some .enoent else none
    (replaceFiles sch ⟨[], []⟩ [hcL, kpL]).out = .failed ∧
      (replaceFiles noFaults (replaceFiles sch ⟨[], []⟩ [hcL, kpL]).st [hcL, kpL]).out = .ok := by decide

/-- **Witness for the variant "ENOENT on create is benign"** (the write loop `continue`s on an error that unwraps to
`fs.ErrNotExist`): the call returns nil although the key file of the new listener was never written — the disk is
not the generated set after a "successful" replacement, and nobody retries. -/
theorem enoent_on_create_benign_witness :
    let sch : Sched := fun k => if k = 3 then some .enoent else none
    let r := replaceFilesBenign sch ⟨[], []⟩ [hcL, kpL]
    r.out = .ok ∧ get r.st.fs kpL.path = none ∧ kpL.path ∈ r.st.last := by decide

/-! ## 5. Start-up cleanup, crashes and the whole control plane -/

/-- `ClearFolders` never touches a bootstrap file and never creates anything — under every schedule. -/
theorem clear_keeps_bootstrap (sch : Sched) (fs : FS) (folders : List String) (q : String)
    (hq : q ∈ ignorePaths) : get (clearFolders sch fs folders).fs q = get fs q := by
  rcases clearLoop_get sch folders 0 fs q with h | ⟨_, hn⟩
  · exact h
  · exact absurd hq hn

/-- A `ClearFolders` run that completes leaves, in the folders it was given, only bootstrap files. -/
theorem clear_ok_only_bootstrap (sch : Sched) (fs : FS)
    (hin : InFolders fs) (hok : (clearFolders sch fs managedFolders).out = .ok) (q : String)
    (hq : get (clearFolders sch fs managedFolders).fs q ≠ none) : q ∈ ignorePaths := by
  apply Classical.byContradiction; intro hn
  have hg := clearLoop_ok sch managedFolders 0 fs hok q
  have hpres : get fs q ≠ none := by
    rcases clearLoop_get sch managedFolders 0 fs q with h | ⟨h, _⟩
    · rw [← h]; exact hq
    · exact absurd h hq
  have : dirOf q ∈ managedFolders ∧ q ∉ ignorePaths := ⟨hin q hpres, hn⟩
  rw [if_pos this] at hg
  exact hq hg

/-- Without faults `ClearFolders` completes. -/
theorem clear_without_faults_ok (fs : FS) (folders : List String) :
    (clearFolders noFaults fs folders).out = .ok := clearLoop_noFaults folders 0 fs

/-- **What start-up keeps is decided by the FULL path.** A completed `ClearFolders(ConfigFolders)` keeps a file
of the managed folders iff its full path is an element of `ignorePaths`; every other file — also one whose
NAME equals, ends with or contains a bootstrap file name, in any folder — is removed. -/
theorem clear_keeps_iff_full_path (sch : Sched) (fs : FS) (hin : InFolders fs)
    (hok : (clearFolders sch fs managedFolders).out = .ok) (q : String) :
    get (clearFolders sch fs managedFolders).fs q ≠ none ↔ (get fs q ≠ none ∧ q ∈ ignorePaths) := by
  constructor
  · intro hq
    have hi := clear_ok_only_bootstrap sch fs hin hok q hq
    exact ⟨by rw [← clear_keeps_bootstrap sch fs managedFolders q hi]; exact hq, hi⟩
  · rintro ⟨hq, hi⟩
    rw [clear_keeps_bootstrap sch fs managedFolders q hi]; exact hq

/-- stale files whose names end with / equal / contain a bootstrap name do not survive a restart -/
example :
    let o : FileObj := ⟨[1], 0o644⟩
    let fs : FS := [("/etc/nginx/main-includes/main.conf", o), ("/etc/nginx/main-includes/xmain.conf", o),
      ("/etc/nginx/main-includes/main.conf.bak", o), ("/etc/nginx/conf.d/main.conf", o),
      ("/etc/nginx/conf.d/mgmt.conf", o), ("/etc/nginx/includes/SnippetsFilter_http_default_main.conf", o),
      ("/etc/nginx/secrets/deployment_ctx.json", o)]
    let r := clearFolders noFaults fs managedFolders
    r.out = .ok ∧ keys r.fs = ["/etc/nginx/main-includes/main.conf"] := by decide

/-- **Crash at any operation, then start-up cleanup.** Let the disk hold only files of the managed
folders; run `ReplaceFiles` under ANY schedule — in particular one that kills the process at operation
`k` after `n` bytes of a write, for every `k` and `n`; then a restarted control plane runs
`ClearFolders(ConfigFolders)`: it completes and leaves nothing but bootstrap files, each exactly as the
crash left it. -/
theorem crash_then_clear (sch : Sched) (s : St) (F : List File)
    (hin : InFolders s.fs) (hF : PathsManaged F) :
    let crashed := (replaceFiles sch s F).st.fs
    let r := clearFolders noFaults crashed managedFolders
    r.out = .ok ∧ (∀ q, get r.fs q ≠ none → q ∈ ignorePaths) ∧
      (∀ q ∈ ignorePaths, get r.fs q = get crashed q) := by
  have hin' := replaceFiles_inFolders sch s F hin hF
  exact ⟨clear_without_faults_ok _ _,
    fun q hq => clear_ok_only_bootstrap noFaults _ hin' (clear_without_faults_ok _ _) q hq,
    fun q hq => clear_keeps_bootstrap noFaults _ _ q hq⟩

/-- invariant of the control plane across replacements, failures, crashes and restarts -/
structure SysInv (s : Sys) : Prop where
  inFolders : InFolders s.st.fs
  tracked   : s.up = true → Tracked ignorePaths s.st

def StepManaged : Step → Prop
  | .replace _ F => PathsManaged F
  | .start _ => True

theorem sys_inv_init (fs : FS) (h : InFolders fs) : SysInv ⟨⟨fs, []⟩, false⟩ :=
  ⟨h, fun hup => by simp at hup⟩

theorem sys_inv_step (s : Sys) (a : Step) (hi : SysInv s) (ha : StepManaged a) :
    SysInv (sysStep s a).1 := by
  cases a with
  | replace sch F =>
    unfold sysStep
    by_cases hup : s.up = true
    · simp only [hup, if_true]
      exact ⟨replaceFiles_inFolders sch s.st F hi.inFolders ha,
        fun _ => replaceFiles_tracked ignorePaths sch s.st F (hi.tracked hup)⟩
    · simp only [hup]; exact hi
  | start sch =>
    unfold sysStep
    refine ⟨fun q hq => ?_, fun hup q hq => ?_⟩
    · have hq' : get (clearFolders sch s.st.fs managedFolders).fs q ≠ none := hq
      apply hi.inFolders q
      rcases clearLoop_get sch managedFolders 0 s.st.fs q with h | ⟨h, _⟩
      · rw [← h]; exact hq'
      · exact absurd h hq'
    · have hok : (clearFolders sch s.st.fs managedFolders).out = .ok := by simpa using hup
      exact .inr (clear_ok_only_bootstrap sch s.st.fs hi.inFolders hok q hq)

/-- The invariant holds after every sequence of replacements (each under any fault schedule, possibly
crashing) and (re)starts (each possibly failing or crashing half-way). -/
theorem sys_invariant :
    ∀ (steps : List Step) (s : Sys), SysInv s → (∀ a ∈ steps, StepManaged a) → SysInv (sysRun s steps)
  | [], _, hi, _ => hi
  | a :: as, s, hi, hm =>
    sys_invariant as _ (sys_inv_step s a hi (hm a (by simp))) (fun b hb => hm b (by simp [hb]))

/-- **The property for the whole control plane.** Start from any disk content inside the managed
folders (e.g. what a previous incarnation left), take any sequence of start-ups, replacements, failures
and crashes; whenever a replacement then succeeds, the managed folders contain exactly its set, except
for bootstrap files that start-up deliberately kept. -/
theorem system_success_exact (fs0 : FS) (h0 : InFolders fs0) (steps : List Step)
    (hm : ∀ a ∈ steps, StepManaged a) (sch : Sched) (F : List File) :
    let s := sysRun ⟨⟨fs0, []⟩, false⟩ steps
    (sysStep s (.replace sch F)).2 = .ok →
      ∀ q, q ∉ ignorePaths → get (sysStep s (.replace sch F)).1.st.fs q = expectAfter F q none := by
  intro s hok q hq
  have hi : SysInv s := sys_invariant steps _ (sys_inv_init fs0 h0) hm
  unfold sysStep at hok ⊢
  by_cases hup : s.up = true
  · simp only [hup, if_true] at hok ⊢
    exact (replace_ok_exact ignorePaths sch s.st F (hi.tracked hup) hok).2.1 q hq
  · simp [hup] at hok

/-- A completed start-up leaves only bootstrap files, untouched (whatever happened before). -/
theorem system_start_ok_only_bootstrap (fs0 : FS) (h0 : InFolders fs0) (steps : List Step)
    (hm : ∀ a ∈ steps, StepManaged a) (sch : Sched) :
    let s := sysRun ⟨⟨fs0, []⟩, false⟩ steps
    (sysStep s (.start sch)).2 = .ok →
      (∀ q, get (sysStep s (.start sch)).1.st.fs q ≠ none → q ∈ ignorePaths) ∧
      (∀ q ∈ ignorePaths, get (sysStep s (.start sch)).1.st.fs q = get s.st.fs q) ∧
      (sysStep s (.start sch)).1.st.last = [] := by
  intro s hok
  have hi : SysInv s := sys_invariant steps _ (sys_inv_init fs0 h0) hm
  exact ⟨fun q hq => clear_ok_only_bootstrap sch s.st.fs hi.inFolders hok q hq,
    fun q hq => clear_keeps_bootstrap sch s.st.fs managedFolders q hq, rfl⟩

/-! ## 6. Non-vacuity: concrete runs of the same functions -/

private def kp : File := ⟨"/etc/nginx/secrets/ssl_keypair_ns_l.pem", [75, 69, 89], .secret⟩
private def hc : File := ⟨"/etc/nginx/conf.d/http.conf", [104, 49], .regular⟩
private def hc2 : File := ⟨"/etc/nginx/conf.d/http.conf", [104, 50], .regular⟩
/-- operation 5 (the write of the key file) puts one byte on disk and fails -/
private def partialKey : Sched := fun k => if k = 5 then some (.partialW 1) else none
/-- the process dies at operation 5 after two bytes -/
private def crashKey : Sched := fun k => if k = 5 then some (.crash 2) else none

/-- a failed replacement leaves a partial key file, tracked … -/
example :
    let r := replaceFiles partialKey ⟨[], []⟩ [hc, kp]
    r.out = .failed ∧ get r.st.fs kp.path = some ⟨[75], 0o640⟩ ∧ kp.path ∈ r.st.last := by decide

/-- … and the next successful replacement (listener removed) leaves exactly the new set. -/
example :
    let r := replaceFiles partialKey ⟨[], []⟩ [hc, kp]
    let r2 := replaceFiles noFaults r.st [hc2]
    r2.out = .ok ∧ get r2.st.fs kp.path = none ∧ get r2.st.fs hc.path = some ⟨[104, 50], 0o644⟩ ∧
      r2.st.last = [hc.path] := by decide

/-- a crash in the middle of the key file, then start-up cleanup with main.conf present -/
example :
    let boot : FS := [("/etc/nginx/main-includes/main.conf", ⟨[1], 0o644⟩)]
    let r := replaceFiles crashKey ⟨boot, []⟩ [hc, kp]
    let c := clearFolders noFaults r.st.fs managedFolders
    r.out = .crashed ∧ get r.st.fs kp.path = some ⟨[75, 69], 0o640⟩ ∧
      c.out = .ok ∧ keys c.fs = ["/etc/nginx/main-includes/main.conf"] := by decide

/-- hypotheses of `system_success_exact` / `crash_then_clear` are satisfiable -/
example : PathsManaged [hc, kp] := by
  intro f hf; simp at hf; rcases hf with rfl | rfl <;> decide

/-- a tolerated ENOENT followed by a second fault in the same call -/
example :
    let sch : Sched := fun k => if k = 0 then some .enoent else if k = 2 then some .eio else none
    let r := replaceFiles sch ⟨[(hc.path, ⟨[1], 0o644⟩)], [hc.path]⟩ [hc, kp]
    r.out = .failed ∧ r.ops = 3 ∧ r.st.last = [hc.path] ∧ get r.st.fs hc.path = some ⟨[], 0o644⟩ := by
  decide

/-! ## 7. The regression the check must see again: tracking only after a successful write -/

/-- With the earlier code (`before = false`) the invariant is NOT preserved: the partially written key
file is on disk and untracked … -/
theorem untracked_failed_write_witness :
    let r := replaceFilesV false partialKey ⟨[], []⟩ [hc, kp]
    r.out = .failed ∧ get r.st.fs kp.path = some ⟨[75], 0o640⟩ ∧ kp.path ∉ r.st.last := by decide

/-- … and it survives the next successful replacement: the property fails for that variant. -/
theorem untracked_failed_write_survives :
    let r := replaceFilesV false partialKey ⟨[], []⟩ [hc, kp]
    let r2 := replaceFilesV false noFaults r.st [hc2]
    r2.out = .ok ∧ get r2.st.fs kp.path = some ⟨[75], 0o640⟩ := by decide

/-- For that variant the statement only holds when no chmod/write fails after a successful create,
i.e. when every call either succeeds or leaves `Tracked` intact by hypothesis. -/
theorem next_success_exact_partial (B : List String) (s : St) (ht : Tracked B s)
    (sch : Sched) (F : List File) (hok : (replaceFilesV false sch s F).out = .ok) :
    ∀ q, q ∉ B → get (replaceFilesV false sch s F).st.fs q = expectAfter F q none := by
  intro q hq
  rw [(replaceFiles_ok_get false sch s F hok).2 q]
  by_cases hlq : q ∈ s.last
  · simp [hlq]
  · have : get s.fs q = none := by
      apply Classical.byContradiction; intro hne
      rcases ht q hne with h | h
      · exact hlq h
      · exact hq h
    simp [hlq, this]

/-! ## 8. The generated file SET: `GeneratorImpl.Generate` inside the model

`NGF.GenPaths.generatedEntries` mirrors `Generate` / `executeConfigTemplates` / `generateMgmtFiles` (which files,
in which folder, of which type); `Objs.toIn` adds the name manglings (key pair / bundle ids, SnippetsFilter and
policy include names). The hypotheses `PathsManaged F` and `Nodup` of the theorems above are DISCHARGED here for
every set the generator can produce from Kubernetes-legal names. -/

section Generated
open NGF.GenPaths NGF.Mangle

/-- the structure of `Generate` the model mirrors: key pairs, then the configuration templates, then the bundles;
one file per distinct destination (map keyed by `res.dest`), all regular; the mgmt files only for NGINX Plus -/
theorem facts_generate_structure :
    generateSkeleton =
      ["0|files := make([]file.File, 0)",
       "0|range conf.SSLKeyPairs",
       "1|files = append(files, generatePEM(id, pair.Cert, pair.Key))",
       "0|policyGenerator := policies.NewCompositeGenerator( clientsettings.NewGenerator(), observability.NewGenerator(conf.Telemetry), )",
       "0|files = append(files, g.executeConfigTemplates(conf, policyGenerator)...)",
       "0|range conf.CertBundles",
       "1|files = append(files, generateCertBundle(id, bundle))",
       "0|return files"] ∧
    executeConfigTemplatesSkeleton =
      ["0|fileBytes := make(map[string][]byte)",
       "0|httpUpstreams := g.createUpstreams(conf.Upstreams, upstreamsettings.NewProcessor())",
       "0|keepAliveCheck := newKeepAliveChecker(httpUpstreams)",
       "0|range g.getExecuteFuncs(generator, httpUpstreams, keepAliveCheck)",
       "1|results := execute(conf)",
       "1|range results",
       "2|fileBytes[res.dest] = append(fileBytes[res.dest], res.data...)",
       "0|var mgmtFiles []file.File",
       "0|if g.plus",
       "1|mgmtFiles = g.generateMgmtFiles(conf)",
       "0|files := make([]file.File, 0, len(fileBytes)+len(mgmtFiles))",
       "0|range fileBytes",
       "1|files = append(files, file.File{ Path: fp, Content: bytes, Type: file.TypeRegular, })",
       "0|files = append(files, mgmtFiles...)",
       "0|return files"] := by decide +kernel

/-- every `file.File` literal of the generator package with its path expression and its type: exactly the entries
of `pemEntry`, `crtEntry`, `confEntries` (regular) and `mgmtAll` — in particular WHICH files are `TypeSecret` -/
theorem facts_generated_file_literals : generatedFileLiterals =
    ["generator.go:GenerateDeploymentContext: mainIncludesFolder + \"/deployment_ctx.json\" | file.TypeRegular",
     "generator.go:executeConfigTemplates: fp | file.TypeRegular",
     "generator.go:generatePEM: generatePEMFileName(id) | file.TypeSecret",
     "generator.go:generateCertBundle: generateCertBundleFileName(id) | file.TypeRegular",
     "main_config.go:generateMgmtFiles: secretsFolder + \"/license.jwt\" | file.TypeSecret",
     "main_config.go:generateMgmtFiles: secretsFolder + \"/mgmt-ca.crt\" | file.TypeSecret",
     "main_config.go:generateMgmtFiles: secretsFolder + \"/mgmt-tls.crt\" | file.TypeSecret",
     "main_config.go:generateMgmtFiles: secretsFolder + \"/mgmt-tls.key\" | file.TypeSecret",
     "main_config.go:generateMgmtFiles: mgmtIncludesFile | file.TypeRegular"] := by decide

/-- the destinations of all `executeResult`s: the five fixed files of `fixedConf` and the include files -/
theorem facts_execute_dests :
    executeDests =
      ["base_http_config.go:executeBaseHTTPConfig: httpConfigFile",
       "includes.go:createIncludeExecuteResultsFromServers: filename",
       "includes.go:createIncludeExecuteResults: inc.Name",
       "main_config.go:executeMainConfig: mainIncludesConfigFile",
       "maps.go:executeMaps: httpConfigFile",
       "maps.go:executeStreamMaps: streamConfigFile",
       "servers.go:executeServers: httpConfigFile",
       "servers.go:executeServers: httpMatchVarsFile",
       "split_clients.go:executeSplitClients: httpConfigFile",
       "stream_servers.go:executeStreamServers: streamConfigFile",
       "telemetry.go:executeTelemetry: httpConfigFile",
       "upstreams.go:executeUpstreams: httpConfigFile",
       "upstreams.go:executeStreamUpstreams: streamConfigFile",
       "version.go:executeVersion: configVersionFile"] ∧
    executeFuncs =
      ["executeMainConfig", "executeBaseHTTPConfig", "g.newExecuteServersFunc(generator, keepAliveCheck)",
       "newExecuteUpstreamsFunc(upstreams)", "executeSplitClients", "executeMaps", "executeTelemetry",
       "g.executeStreamServers", "g.executeStreamUpstreams", "executeStreamMaps", "executeVersion"] ∧
    (fixedConf.map fun e => String.ofList e.path) =
      ["/etc/nginx/main-includes/main.conf", "/etc/nginx/conf.d/http.conf", "/etc/nginx/conf.d/matches.json",
       "/etc/nginx/stream-conf.d/stream.conf", "/etc/nginx/conf.d/config-version.conf"] ∧
    (∀ p ∈ fixedConf.map (fun e => String.ofList e.path), p ∈ generatedFileConsts) := by decide

/-- the include names use the formats of the source: `createSnippetName` with the four `NginxContext` values, the
ClientSettingsPolicy and ObservabilityPolicy file names -/
theorem facts_include_name_formats (c : SnipCtx) (k : ObsKind) (ns name : Name) :
    snippetName c ns name = sprintf snippetNameFmt [c.str, ns, name] ∧
    snippetNameArgs = ["nc", "nsname.Namespace", "nsname.Name"] ∧
    nginxContexts = [SnipCtx.main, .http, .server, .location].map (fun c => String.ofList c.str) ∧
    cspFileFmts = ["ClientSettingsPolicy_%s_%s.conf"] ∧
    cspName ns name = sprintf cspFileFmt [ns, name] ∧
    obsFileFmts = ["ObservabilityPolicy_%s_%s_%s.conf", "ObservabilityPolicy_%s_%s_int.conf"] ∧
    obsFileSuffixes = ["ext", "redirect"] ∧
    obsName k ns name = sprintf obsFileFmt [ns, name, k.str] ∧
    obsName .int ns name = sprintf obsIntFileFmt [ns, name] := by
  refine ⟨?_, by decide, by decide, by decide, ?_, by decide, by decide, ?_, ?_⟩
  · simp [snippetName, sprintf, snippetNameFmt, lit]
  · simp [cspName, sprintf, cspFileFmt, lit]
  · simp [obsName, sprintf, obsFileFmt, lit]
  · simp [obsName, ObsKind.str, sprintf, obsIntFileFmt, lit]

/-- a non-trivial object set: two key pairs (one name with dots), a bundle, all four snippet contexts, both policy
kinds, NGINX Plus with client certificate material -/
def sampleObjs : Objs where
  keyPairs    := [("default".toList, "cafe-secret".toList), ("team-a".toList, "tls.example.com".toList)]
  bundles     := [("default".toList, "backend-ca".toList)]
  snippets    := [(.main, "default".toList, "sf".toList), (.http, "default".toList, "sf".toList),
                  (.server, "default".toList, "main".toList), (.location, "default".toList, "sf".toList),
                  (.location, "default".toList, "sf".toList)]
  csPolicies  := [("default".toList, "csp".toList)]
  obsPolicies := [(.ext, "default".toList, "obs".toList), (.redirect, "default".toList, "obs".toList),
                  (.int, "default".toList, "obs".toList)]
  plus := true
  mgmtCA := false
  mgmtCert := true
  mgmtKey := true

theorem sampleObjs_legal : Legal sampleObjs := by
  constructor <;> first
    | decide
    | (intro p hp; revert p; simp only [sampleObjs, K8sName]; decide)

example : (generatedPaths sampleObjs.toIn).map (fun pt => (String.ofList pt.1, pt.2)) =
    [("/etc/nginx/secrets/ssl_keypair_default_cafe-secret.pem", .secret),
     ("/etc/nginx/secrets/ssl_keypair_team-a_tls.example.com.pem", .secret),
     ("/etc/nginx/main-includes/main.conf", .regular),
     ("/etc/nginx/conf.d/http.conf", .regular),
     ("/etc/nginx/includes/SnippetsFilter_main_default_sf.conf", .regular),
     ("/etc/nginx/includes/SnippetsFilter_http_default_sf.conf", .regular),
     ("/etc/nginx/includes/SnippetsFilter_http.server_default_main.conf", .regular),
     ("/etc/nginx/includes/SnippetsFilter_http.server.location_default_sf.conf", .regular),
     ("/etc/nginx/includes/ClientSettingsPolicy_default_csp.conf", .regular),
     ("/etc/nginx/includes/ObservabilityPolicy_default_obs_ext.conf", .regular),
     ("/etc/nginx/includes/ObservabilityPolicy_default_obs_redirect.conf", .regular),
     ("/etc/nginx/includes/ObservabilityPolicy_default_obs_int.conf", .regular),
     ("/etc/nginx/conf.d/matches.json", .regular),
     ("/etc/nginx/stream-conf.d/stream.conf", .regular),
     ("/etc/nginx/conf.d/config-version.conf", .regular),
     ("/etc/nginx/secrets/license.jwt", .secret),
     ("/etc/nginx/secrets/mgmt-tls.crt", .secret),
     ("/etc/nginx/secrets/mgmt-tls.key", .secret),
     ("/etc/nginx/main-includes/deployment_ctx.json", .regular),
     ("/etc/nginx/main-includes/mgmt.conf", .regular),
     ("/etc/nginx/secrets/cert_bundle_default_backend-ca.crt", .regular)] := by decide +kernel

/-- the model's key pair / bundle / ClientSettingsPolicy paths ARE the manglings C03 ties to the source formats
(`NGF.Mangle.pemFile/bundleFile/cspFile`, `Props/C03: keyPair_bundle_use_source_format`, `cspFile_uses_source_format`) -/
theorem generated_paths_use_mangle (ns name : Name) :
    (pemEntry (keyPairId ns name)).path = pemFile ns name ∧
    (crtEntry (bundleId ns name)).path = bundleFile ns name ∧
    (policyEntry (cspName ns name)).path = cspFile ns name :=
  ⟨pemEntry_path ns name, crtEntry_path ns name, cspEntry_path ns name⟩

/-- **Every generated path lies directly in one of the five managed folders** — for ALL inputs of `Generate` whose
names contain no `/` (no Kubernetes name does): key pair and bundle ids, snippet names, policy file names of any
number and shape, OSS and Plus. This is the hypothesis `PathsManaged` of `crash_then_clear` and of the control-plane
theorems, now a theorem about the generator model. -/
theorem generated_paths_managed (g : GenIn) (hs : SlashFree g) :
    (∀ pt ∈ generatedPaths g, dirOf (String.ofList pt.1) ∈ managedFolders) ∧
    ∀ c, PathsManaged (generatedFiles g c) := by
  refine ⟨fun pt hpt => ?_, fun c f hf => ?_⟩
  · obtain ⟨e, he, rfl⟩ := List.mem_map.1 hpt
    exact entry_managed g hs e he
  · obtain ⟨e, he, rfl⟩ := List.mem_map.1 hf
    exact entry_managed g hs e he

example : SlashFree sampleObjs.toIn := slashFree_toIn _ sampleObjs_legal

/-- the hypothesis cannot be dropped: an id with a slash leaves the managed folders (it would neither be cleared at
start-up nor, the sub-directory missing, be creatable) -/
example :
    let g : GenIn := ⟨["a/b".toList], [], [], [], false, false, false, false⟩
    (generatedPaths g).head?.map (fun pt => dirOf (String.ofList pt.1)) = some "/etc/nginx/secrets/a" := by
  decide +kernel

/-- **Distinct objects give distinct paths**: for Kubernetes-legal namespaces and names (no `_`, no `/`) and
distinct key-pair Secrets / bundle ConfigMaps, no two files of the generated set share a path — whatever the
multiplicity of snippets and policies (they are deduplicated by destination), OSS or Plus. -/
theorem generated_paths_nodup (o : Objs) (hl : Legal o) :
    ((generatedPaths o.toIn).map (·.1)).Nodup ∧ ∀ c, ((generatedFiles o.toIn c).map (·.path)).Nodup := by
  have hp := paths_nodup o hl
  refine ⟨?_, fun c => ?_⟩
  · have : (generatedPaths o.toIn).map (·.1) = (generatedEntries o.toIn).map Entry.path := by
      simp [generatedPaths, List.map_map, Function.comp]
    rw [this]; exact hp
  have : (generatedFiles o.toIn c).map (·.path) = ((generatedEntries o.toIn).map Entry.path).map String.ofList := by
    simp [generatedFiles, List.map_map, Function.comp]
  rw [this]
  exact nodup_map_of_inj_on _ _ hp (fun a _ b _ e => String.ofList_injective e)

/-- without the legality of the names the statement is false: `_` in a namespace makes two Secrets collide
(the collision C03 registers for the ids; here it means one PEM file for two key pairs) -/
theorem generated_paths_nodup_false :
    let o : Objs := { sampleObjs with keyPairs := [("a_b".toList, "c".toList), ("a".toList, "b_c".toList)] }
    o.keyPairs.Nodup ∧ ¬ ((generatedPaths o.toIn).map (·.1)).Nodup := by decide +kernel

/-- **Secret files have the secret type.** (i) For arbitrary slash-free ids: the file at the PEM path of every key
pair is `TypeSecret`. (ii) For legal objects: a generated file is `TypeSecret` IFF its path is a secret path (PEM of
a key pair, NGINX Plus token, mgmt client certificate material); so no key material is ever written under the
world-readable mode, and `modeOf .secret` has no bit for others. -/
theorem secret_files_have_secret_type :
    (∀ (g : GenIn), SlashFree g → ∀ pt ∈ generatedPaths g, ∀ id ∈ g.keyPairIds,
        pt.1 = (pemEntry id).path → pt.2 = .secret) ∧
    (∀ (o : Objs), Legal o → ∀ pt ∈ generatedPaths o.toIn,
        (pt.2 = .secret ↔ pt.1 ∈ secretPaths o.toIn)) ∧
    modeOf .secret % 8 = 0 := by
  refine ⟨fun g hs pt hpt id hid hp => ?_, fun o hl pt hpt => ?_, by decide⟩
  · obtain ⟨e, he, rfl⟩ := List.mem_map.1 hpt
    exact pem_typ_secret g hs e he id hid hp
  · obtain ⟨e, he, rfl⟩ := List.mem_map.1 hpt
    exact ⟨secret_typ_path _ e he, secret_path_typ o hl e he⟩

example : (secretPaths sampleObjs.toIn).map String.ofList =
    ["/etc/nginx/secrets/ssl_keypair_default_cafe-secret.pem", "/etc/nginx/secrets/ssl_keypair_team-a_tls.example.com.pem",
     "/etc/nginx/secrets/license.jwt", "/etc/nginx/secrets/mgmt-ca.crt", "/etc/nginx/secrets/mgmt-tls.crt",
     "/etc/nginx/secrets/mgmt-tls.key"] := by decide +kernel

/-- **Generate, then replace.** Take ANY legal object set, ANY contents, ANY tracked state (any history of failed
or crashed calls) and ANY fault schedule: if `ReplaceFiles` of the generated set succeeds, then `lastWrittenPaths`
is the generated path list, every generated file is on disk with exactly its content and the mode of its type, the
PEM file of every key pair is not world-readable, every generated path lies in a managed folder, and outside the
bootstrap files nothing else is on disk. (`replace_ok_exact` with `PathsManaged` and `Nodup` discharged by
`generated_paths_managed` / `generated_paths_nodup`.) -/
theorem generate_then_replace_exact (B : List String) (sch : Sched) (s : St) (o : Objs) (c : Name → List Nat)
    (hl : Legal o) (ht : Tracked B s) (hok : (replaceFiles sch s (generatedFiles o.toIn c)).out = .ok) :
    let F := generatedFiles o.toIn c
    let r := replaceFiles sch s F
    r.st.last = F.map (·.path) ∧
    (∀ f ∈ F, get r.st.fs f.path = some ⟨f.content, modeOf f.typ⟩) ∧
    (∀ p ∈ o.keyPairs, get r.st.fs (String.ofList (pemFile p.1 p.2)) =
        some ⟨c (pemFile p.1 p.2), secretMode⟩) ∧
    (∀ q, q ∉ B → q ∉ F.map (·.path) → get r.st.fs q = none) ∧
    PathsManaged F := by
  intro F r
  have hnd := (generated_paths_nodup o hl).2 c
  have hpres := replace_ok_files_present sch s F hnd hok
  refine ⟨(replace_ok_exact B sch s F ht hok).1, hpres, fun p hp => ?_,
    fun q hq hn => replace_ok_nothing_else B sch s F ht hok q hn hq,
    (generated_paths_managed _ (slashFree_toIn o hl)).2 c⟩
  have hmem : (⟨String.ofList (pemFile p.1 p.2), c (pemFile p.1 p.2), .secret⟩ : File) ∈ F := by
    refine List.mem_map.2 ⟨pemEntry (keyPairId p.1 p.2), ?_, by rw [pemEntry_path]; rfl⟩
    exact (mem_generatedEntries _ _).2 (.inl ⟨_, List.mem_map.2 ⟨p, hp, rfl⟩, rfl⟩)
  simpa [modeOf] using hpres _ hmem

/-- the hypotheses are satisfiable: the sample set replaced without faults on an empty disk -/
example : (replaceFiles noFaults ⟨[], []⟩ (generatedFiles sampleObjs.toIn fun p => [p.length])).out = .ok :=
  fault_free_replace_succeeds _ _

/-- a control-plane step whose file set comes from the generator -/
inductive GStep
  | replace (sch : Sched) (o : Objs) (c : Name → List Nat)
  | start (sch : Sched)

def GStep.toStep : GStep → Step
  | .replace sch o c => .replace sch (generatedFiles o.toIn c)
  | .start sch => .start sch

def GStep.Legal : GStep → Prop
  | .replace _ o _ => GenPaths.Legal o
  | .start _ => True

/-- **The property for the control plane fed by the generator**: `StepManaged` is no longer a hypothesis. From any
disk inside the managed folders, after any sequence of start-ups and replacements of generated sets under any fault
schedules (failures, crashes, restarts), a replacement of a generated set that succeeds leaves every generated file
with its exact content and mode, and nothing else outside the bootstrap files. -/
theorem system_generated_success_exact (fs0 : FS) (h0 : InFolders fs0) (steps : List GStep)
    (hlg : ∀ a ∈ steps, a.Legal) (sch : Sched) (o : Objs) (c : Name → List Nat) (hl : Legal o) :
    let F := generatedFiles o.toIn c
    let s := sysRun ⟨⟨fs0, []⟩, false⟩ (steps.map GStep.toStep)
    (sysStep s (.replace sch F)).2 = .ok →
      (∀ f ∈ F, get (sysStep s (.replace sch F)).1.st.fs f.path = some ⟨f.content, modeOf f.typ⟩) ∧
      (∀ q, q ∉ ignorePaths → q ∉ F.map (·.path) → get (sysStep s (.replace sch F)).1.st.fs q = none) := by
  intro F s hok
  have hm : ∀ a ∈ steps.map GStep.toStep, StepManaged a := by
    intro a ha
    obtain ⟨g, hg, rfl⟩ := List.mem_map.1 ha
    cases g with
    | replace sch' o' c' => exact (generated_paths_managed _ (slashFree_toIn o' (hlg _ hg))).2 c'
    | start _ => trivial
  have hex := system_success_exact fs0 h0 (steps.map GStep.toStep) hm sch F hok
  refine ⟨fun f hf => ?_, fun q hq hn => ?_⟩
  · have hnd := (generated_paths_nodup o hl).2 c
    by_cases hb : f.path ∈ ignorePaths
    · -- a bootstrap path that is part of the set (main.conf, mgmt.conf, deployment_ctx.json): written like any other
      have hup : s.up = true := by
        apply Classical.byContradiction; intro hup
        simp [sysStep, hup] at hok
      have hok' : (replaceFiles sch s.st F).out = .ok := by simpa [sysStep, hup] using hok
      have := replace_ok_files_present sch s.st F hnd hok' f hf
      simpa [sysStep, hup] using this
    · rw [hex f.path hb]
      exact expectAfter_nodup F hnd none f hf
  · rw [hex q hq]
    exact expectAfter_not_mem F q none hn

end Generated

end NGF.FileMgr
