/-
C11 — files on disk equal the last generated set, whatever I/O faults occurred.

Property theorems for the file manager model (`NGF.Model.FileMgr`): the functions below are the ones
the driver `ngfdriver_C11` runs and the correspondence compares with the real
`file.ManagerImpl.ReplaceFiles` / `file.ClearFolders`.  Every theorem quantifies over ALL fault
schedules `sch : Nat → Option Fault` (any number of failing operations of any kind at any operation
index, including a crash of the process at any operation, with any partial-write length), all file
sets (no `Nodup` assumption unless stated) and all histories.
-/
import NGF.Model.FileMgr
import NGF.Proofs.FileMgr
import NGF.Generated.FileFacts

namespace NGF.FileMgr
open NGF.Generated.FileMgr

/-! ## 1. Facts regenerated from /repo on every run, pinned to what the model assumes -/

theorem facts_file_modes : regularFileMode = regularMode ∧ secretFileMode = secretMode := by decide

/-- the secret mode has no permission bit for "others", the regular one is world-readable (NGINX workers) -/
theorem secret_mode_not_world_readable : modeOf .secret % 8 = 0 ∧ secretFileMode % 8 = 0 := by decide

theorem facts_config_folders : configFolders = managedFolders := by decide

theorem facts_ignore_paths : ignoreFilePaths = ignorePaths := by decide

/-- the bootstrap files live in a managed folder (so `ClearFolders` meets them and must skip them) -/
theorem ignore_paths_in_managed_folders : ∀ p ∈ ignorePaths, dirOf p ∈ managedFolders := by decide

/-- the path is tracked BEFORE `WriteFile` is called (commit 167f009): the model's `replaceFiles` is
`replaceFilesV true`. -/
theorem facts_track_before_write : trackBeforeWrite = true := by decide

theorem facts_replaceFiles_skeleton : replaceFilesSkeleton =
    ["0|range m.lastWrittenPaths",
     "1|if err := m.osFileManager.Remove(path); err != nil",
     "2|if os.IsNotExist(err)",
     "3|continue",
     "2|return fmt.Errorf(…)",
     "0|m.lastWrittenPaths = make([]string, 0, len(files))",
     "0|range files",
     "1|m.lastWrittenPaths = append(m.lastWrittenPaths, file.Path)",
     "1|if err := WriteFile(m.osFileManager, file); err != nil",
     "2|return fmt.Errorf(…)",
     "0|return nil"] := by decide

/-- `WriteFile`: Create, then Chmod (per type), then Write -/
theorem facts_writeFile_calls : writeFileCalls =
    ["Create(file.Path)", "Chmod(f, regularFileMode)", "Chmod(f, secretFileMode)",
     "Write(f, file.Content)"] := by decide

theorem facts_writeFile_skeleton : writeFileSkeleton =
    ["0|ensureType(file.Type)",
     "0|f, err := fileMgr.Create(file.Path)",
     "0|if err != nil",
     "1|return fmt.Errorf(…)",
     "0|var resultErr error",
     "0|defer",
     "1|if err := f.Close(); err != nil",
     "2|resultErr = errors.Join(resultErr, fmt.Errorf(…)",
     "0|switch file.Type",
     "1|case TypeRegular",
     "2|if err := fileMgr.Chmod(f, regularFileMode); err != nil",
     "3|resultErr = fmt.Errorf(…)",
     "3|return resultErr",
     "1|case TypeSecret",
     "2|if err := fileMgr.Chmod(f, secretFileMode); err != nil",
     "3|resultErr = fmt.Errorf(…)",
     "3|return resultErr",
     "1|default",
     "2|panic(fmt.Sprintf(\"unknown file type %d\", file.Type))",
     "0|if err := fileMgr.Write(f, file.Content); err != nil",
     "1|resultErr = fmt.Errorf(…)",
     "1|return resultErr",
     "0|return resultErr"] := by decide

theorem facts_clearFolders_skeleton : clearFoldersSkeleton =
    ["0|range paths",
     "1|entries, err := fileMgr.ReadDir(path)",
     "1|if err != nil",
     "2|return removedFiles, fmt.Errorf(…)",
     "1|range entries",
     "2|entryPath := filepath.Join(path, entry.Name())",
     "2|if slices.Contains(ignoreFilePaths, entryPath)",
     "3|continue",
     "2|if err := fileMgr.Remove(entryPath); err != nil",
     "3|return removedFiles, fmt.Errorf(…)",
     "2|removedFiles = append(removedFiles, entryPath)",
     "0|return removedFiles, nil"] := by decide

/-- `os.Create` truncates; `Remove`/`Chmod`/`Write`/`ReadDir` are the plain library calls -/
theorem facts_stdlib_os_calls : stdlibBodies =
    ["ReadDir: return os.ReadDir(dirname)",
     "Remove: return os.Remove(name)",
     "Write: _, err := file.Write(contents); return err",
     "Create: return os.Create(name)",
     "Chmod: return file.Chmod(mode)"] := by decide

/-- every path the generator can produce is built from a managed folder, directly inside it -/
theorem paths_in_managed_folders :
    (∀ p ∈ generatedFileConsts, dirOf p ∈ managedFolders) ∧
    (∀ d ∈ generatedPathFolders, d ∈ managedFolders) ∧
    (∀ s ∈ generatedPathShapes, s ∈ ["folder+/…", "join(folder,…)"]) ∧
    generatedPathShapes.length = generatedPathExprs.length ∧
    generatedPathFolders.length = generatedPathExprs.length := by decide

/-- every folder nginx.conf pulls `*.conf` files from is cleared at start-up and tracked afterwards -/
theorem nginx_conf_includes_only_managed_folders :
    nginxConfGlobIncludeDirs ≠ [] ∧ ∀ d ∈ nginxConfGlobIncludeDirs, d ∈ managedFolders := by decide

/-- static.StartManager clears exactly `ConfigFolders`, before the file manager exists, and gives up on error -/
theorem facts_startup_clears_config_folders :
    clearFoldersArgs = ["file.NewStdLibOSFileManager()", "ngxcfg.ConfigFolders"] ∧
    ngxcfgImport = "github.com/nginx/nginx-gateway-fabric/internal/mode/static/nginx/config" ∧
    clearBeforeManagerCreated = true ∧ clearFoldersErrorReturned = true := by decide

/-! ## 2. The invariant `Tracked`, under every fault schedule -/

/-- One `ReplaceFiles` call, whatever fails or crashes in it, keeps every file of the managed folders
tracked (in `lastWrittenPaths`) or in the bootstrap set `B`. -/
theorem tracked_preserved (B : List String) (sch : Sched) (s : St) (F : List File)
    (h : Tracked B s) : Tracked B (replaceFiles sch s F).st :=
  replaceFiles_tracked B sch s F h

/-- … hence after any history of failed, partially executed or successful replacements. -/
theorem tracked_after_any_history (B : List String) :
    ∀ (calls : List (Sched × List File)) (s : St), Tracked B s → Tracked B (runCalls s calls)
  | [], _, h => h
  | (sch, F) :: r, s, h => tracked_after_any_history B r _ (tracked_preserved B sch s F h)

example : Tracked [] ⟨[], []⟩ := fun _ h => absurd rfl h

/-! ## 3. A successful replacement leaves exactly its set -/

/-- Successful `ReplaceFiles F` from a tracked state: `lastWrittenPaths` = the paths of `F`; outside the
bootstrap set the disk is EXACTLY `F` (later entries of `F` win for a repeated path): every path of the
set holds content and mode of its entry, every other path is absent — no stale or partial file. A
bootstrap path not in `F` is removed if it was tracked and untouched otherwise. -/
theorem replace_ok_exact (B : List String) (sch : Sched) (s : St) (F : List File)
    (ht : Tracked B s) (hok : (replaceFiles sch s F).out = .ok) :
    (replaceFiles sch s F).st.last = F.map (·.path) ∧
    (∀ q, q ∉ B → get (replaceFiles sch s F).st.fs q = expectAfter F q none) ∧
    (∀ q, q ∈ B → get (replaceFiles sch s F).st.fs q =
        expectAfter F q (if q ∈ s.last then none else get s.fs q)) := by
  obtain ⟨hl, hg⟩ := replaceFiles_ok sch s F hok
  refine ⟨hl, fun q hq => ?_, fun q _ => hg q⟩
  rw [hg q]
  by_cases hlq : q ∈ s.last
  · simp [hlq]
  · have : get s.fs q = none := by
      apply Classical.byContradiction; intro hne
      rcases ht q hne with h | h
      · exact hlq h
      · exact hq h
    simp [hlq, this]

/-- Every file of the set is on disk with its exact content and its mode (distinct paths). -/
theorem replace_ok_files_present (sch : Sched) (s : St) (F : List File)
    (hnd : (F.map (·.path)).Nodup) (hok : (replaceFiles sch s F).out = .ok) :
    ∀ f ∈ F, get (replaceFiles sch s F).st.fs f.path = some ⟨f.content, modeOf f.typ⟩ := by
  intro f hf
  rw [(replaceFiles_ok sch s F hok).2 f.path]
  exact expectAfter_nodup F hnd _ f hf

/-- Without the distinctness assumption: a path of the set holds content and mode of ONE of its entries
(the code lets the last one win; the generator never repeats a path). -/
theorem replace_ok_some_entry (sch : Sched) (s : St) (F : List File)
    (hok : (replaceFiles sch s F).out = .ok) :
    ∀ q ∈ F.map (·.path), ∃ f ∈ F, f.path = q ∧
      get (replaceFiles sch s F).st.fs q = some ⟨f.content, modeOf f.typ⟩ := by
  intro q hq
  rw [(replaceFiles_ok sch s F hok).2 q]
  rcases expectAfter_cases F q (if q ∈ s.last then none else get s.fs q) with ⟨hn, _⟩ | ⟨f, hf, hp, he⟩
  · exact absurd hq hn
  · exact ⟨f, hf, hp, he⟩

/-- Nothing else is left: a path outside the set and outside the bootstrap files is absent — in
particular the key file of a removed listener. -/
theorem replace_ok_nothing_else (B : List String) (sch : Sched) (s : St) (F : List File)
    (ht : Tracked B s) (hok : (replaceFiles sch s F).out = .ok) (q : String)
    (hq : q ∉ F.map (·.path)) (hb : q ∉ B) : get (replaceFiles sch s F).st.fs q = none := by
  rw [(replace_ok_exact B sch s F ht hok).2.1 q hb, expectAfter_not_mem F q none hq]

/-- After a successful replacement a path whose entries are all secret is not world-readable. -/
theorem replace_ok_secret_not_world_readable (sch : Sched) (s : St) (F : List File)
    (hok : (replaceFiles sch s F).out = .ok) (q : String) (hq : q ∈ F.map (·.path))
    (hsec : ∀ f ∈ F, f.path = q → f.typ = .secret) :
    ∃ o, get (replaceFiles sch s F).st.fs q = some o ∧ o.mode % 8 = 0 := by
  obtain ⟨f, hf, hp, hg⟩ := replace_ok_some_entry sch s F hok q hq
  refine ⟨_, hg, ?_⟩
  simp [hsec f hf hp, modeOf, secretMode]

/-- Even when `WriteFile` is interrupted by any fault or by a crash at any operation: the file it works on
is untouched, or empty, or has the requested mode and a prefix of the requested content. Secret bytes
are therefore never in a file with a mode other than the secret one. -/
theorem write_file_never_exposes (sch : Sched) (k : Nat) (fs : FS) (f : File) :
    get (writeFile sch k fs f).fs f.path = get fs f.path ∨
    ∃ o, get (writeFile sch k fs f).fs f.path = some o ∧
      (o.content = [] ∨ (o.mode = modeOf f.typ ∧ o.content <+: f.content)) :=
  writeFile_safe sch k fs f

/-! ## 4. After any failures, the next successful replacement leaves exactly the latest set -/

/-- From a tracked state, after ANY history of replacements under ANY fault schedules (single, double,
n-fold failures of remove / create / chmod / write at any operation index, partial writes of any length),
a replacement that succeeds leaves exactly its own set outside the bootstrap files. -/
theorem next_success_exact (B : List String) (calls : List (Sched × List File)) (s : St)
    (ht : Tracked B s) (sch : Sched) (F : List File)
    (hok : (replaceFiles sch (runCalls s calls) F).out = .ok) :
    ∀ q, q ∉ B → get (replaceFiles sch (runCalls s calls) F).st.fs q = expectAfter F q none :=
  (replace_ok_exact B sch _ F (tracked_after_any_history B calls s ht) hok).2.1

/-- … with no bootstrap files at all (`B = []`), the whole disk is exactly the latest set. -/
theorem next_success_exact_whole_disk (calls : List (Sched × List File)) (s : St)
    (ht : Tracked [] s) (sch : Sched) (F : List File)
    (hok : (replaceFiles sch (runCalls s calls) F).out = .ok) :
    ∀ q, get (replaceFiles sch (runCalls s calls) F).st.fs q = expectAfter F q none :=
  fun q => next_success_exact [] calls s ht sch F hok q (by simp)

/-! ## 5. Start-up cleanup, crashes and the whole control plane -/

/-- `ClearFolders` never touches a bootstrap file and never creates anything — under every schedule. -/
theorem clear_keeps_bootstrap (sch : Sched) (fs : FS) (folders : List String) (q : String)
    (hq : q ∈ ignorePaths) : get (clearFolders sch fs folders).fs q = get fs q := by
  rcases clearLoop_get sch folders 0 fs q with h | ⟨_, hn⟩
  · exact h
  · exact absurd hq hn

/-- A `ClearFolders` run that completes leaves, in the folders it was given, only bootstrap files. -/
theorem clear_ok_only_bootstrap (sch : Sched) (fs : FS)
    (hin : InFolders fs) (hok : (clearFolders sch fs managedFolders).out = .ok) (q : String)
    (hq : get (clearFolders sch fs managedFolders).fs q ≠ none) : q ∈ ignorePaths := by
  apply Classical.byContradiction; intro hn
  have hg := clearLoop_ok sch managedFolders 0 fs hok q
  have hpres : get fs q ≠ none := by
    rcases clearLoop_get sch managedFolders 0 fs q with h | ⟨h, _⟩
    · rw [← h]; exact hq
    · exact absurd h hq
  have : dirOf q ∈ managedFolders ∧ q ∉ ignorePaths := ⟨hin q hpres, hn⟩
  rw [if_pos this] at hg
  exact hq hg

/-- Without faults `ClearFolders` completes. -/
theorem clear_without_faults_ok (fs : FS) (folders : List String) :
    (clearFolders noFaults fs folders).out = .ok := clearLoop_noFaults folders 0 fs

/-- **Crash at any operation, then start-up cleanup.** Let the disk hold only files of the managed
folders; run `ReplaceFiles` under ANY schedule — in particular one that kills the process at operation
`k` after `n` bytes of a write, for every `k` and `n`; then a restarted control plane runs
`ClearFolders(ConfigFolders)`: it completes and leaves nothing but bootstrap files, each exactly as the
crash left it. -/
theorem crash_then_clear (sch : Sched) (s : St) (F : List File)
    (hin : InFolders s.fs) (hF : PathsManaged F) :
    let crashed := (replaceFiles sch s F).st.fs
    let r := clearFolders noFaults crashed managedFolders
    r.out = .ok ∧ (∀ q, get r.fs q ≠ none → q ∈ ignorePaths) ∧
      (∀ q ∈ ignorePaths, get r.fs q = get crashed q) := by
  have hin' := replaceFiles_inFolders sch s F hin hF
  exact ⟨clear_without_faults_ok _ _,
    fun q hq => clear_ok_only_bootstrap noFaults _ hin' (clear_without_faults_ok _ _) q hq,
    fun q hq => clear_keeps_bootstrap noFaults _ _ q hq⟩

/-- invariant of the control plane across replacements, failures, crashes and restarts -/
structure SysInv (s : Sys) : Prop where
  inFolders : InFolders s.st.fs
  tracked   : s.up = true → Tracked ignorePaths s.st

def StepManaged : Step → Prop
  | .replace _ F => PathsManaged F
  | .start _ => True

theorem sys_inv_init (fs : FS) (h : InFolders fs) : SysInv ⟨⟨fs, []⟩, false⟩ :=
  ⟨h, fun hup => by simp at hup⟩

theorem sys_inv_step (s : Sys) (a : Step) (hi : SysInv s) (ha : StepManaged a) :
    SysInv (sysStep s a).1 := by
  cases a with
  | replace sch F =>
    unfold sysStep
    by_cases hup : s.up = true
    · simp only [hup, if_true]
      exact ⟨replaceFiles_inFolders sch s.st F hi.inFolders ha,
        fun _ => replaceFiles_tracked ignorePaths sch s.st F (hi.tracked hup)⟩
    · simp only [hup]; exact hi
  | start sch =>
    unfold sysStep
    refine ⟨fun q hq => ?_, fun hup q hq => ?_⟩
    · have hq' : get (clearFolders sch s.st.fs managedFolders).fs q ≠ none := hq
      apply hi.inFolders q
      rcases clearLoop_get sch managedFolders 0 s.st.fs q with h | ⟨h, _⟩
      · rw [← h]; exact hq'
      · exact absurd h hq'
    · have hok : (clearFolders sch s.st.fs managedFolders).out = .ok := by simpa using hup
      exact .inr (clear_ok_only_bootstrap sch s.st.fs hi.inFolders hok q hq)

/-- The invariant holds after every sequence of replacements (each under any fault schedule, possibly
crashing) and (re)starts (each possibly failing or crashing half-way). -/
theorem sys_invariant :
    ∀ (steps : List Step) (s : Sys), SysInv s → (∀ a ∈ steps, StepManaged a) → SysInv (sysRun s steps)
  | [], _, hi, _ => hi
  | a :: as, s, hi, hm =>
    sys_invariant as _ (sys_inv_step s a hi (hm a (by simp))) (fun b hb => hm b (by simp [hb]))

/-- **The property for the whole control plane.** Start from any disk content inside the managed
folders (e.g. what a previous incarnation left), take any sequence of start-ups, replacements, failures
and crashes; whenever a replacement then succeeds, the managed folders contain exactly its set, except
for bootstrap files that start-up deliberately kept. -/
theorem system_success_exact (fs0 : FS) (h0 : InFolders fs0) (steps : List Step)
    (hm : ∀ a ∈ steps, StepManaged a) (sch : Sched) (F : List File) :
    let s := sysRun ⟨⟨fs0, []⟩, false⟩ steps
    (sysStep s (.replace sch F)).2 = .ok →
      ∀ q, q ∉ ignorePaths → get (sysStep s (.replace sch F)).1.st.fs q = expectAfter F q none := by
  intro s hok q hq
  have hi : SysInv s := sys_invariant steps _ (sys_inv_init fs0 h0) hm
  unfold sysStep at hok ⊢
  by_cases hup : s.up = true
  · simp only [hup, if_true] at hok ⊢
    exact (replace_ok_exact ignorePaths sch s.st F (hi.tracked hup) hok).2.1 q hq
  · simp [hup] at hok

/-- A completed start-up leaves only bootstrap files, untouched (whatever happened before). -/
theorem system_start_ok_only_bootstrap (fs0 : FS) (h0 : InFolders fs0) (steps : List Step)
    (hm : ∀ a ∈ steps, StepManaged a) (sch : Sched) :
    let s := sysRun ⟨⟨fs0, []⟩, false⟩ steps
    (sysStep s (.start sch)).2 = .ok →
      (∀ q, get (sysStep s (.start sch)).1.st.fs q ≠ none → q ∈ ignorePaths) ∧
      (∀ q ∈ ignorePaths, get (sysStep s (.start sch)).1.st.fs q = get s.st.fs q) ∧
      (sysStep s (.start sch)).1.st.last = [] := by
  intro s hok
  have hi : SysInv s := sys_invariant steps _ (sys_inv_init fs0 h0) hm
  exact ⟨fun q hq => clear_ok_only_bootstrap sch s.st.fs hi.inFolders hok q hq,
    fun q hq => clear_keeps_bootstrap sch s.st.fs managedFolders q hq, rfl⟩

/-! ## 6. Non-vacuity: concrete runs of the same functions -/

private def kp : File := ⟨"/etc/nginx/secrets/ssl_keypair_ns_l.pem", [75, 69, 89], .secret⟩
private def hc : File := ⟨"/etc/nginx/conf.d/http.conf", [104, 49], .regular⟩
private def hc2 : File := ⟨"/etc/nginx/conf.d/http.conf", [104, 50], .regular⟩
/-- operation 5 (the write of the key file) puts one byte on disk and fails -/
private def partialKey : Sched := fun k => if k = 5 then some (.partialW 1) else none
/-- the process dies at operation 5 after two bytes -/
private def crashKey : Sched := fun k => if k = 5 then some (.crash 2) else none

/-- a failed replacement leaves a partial key file, tracked … -/
example :
    let r := replaceFiles partialKey ⟨[], []⟩ [hc, kp]
    r.out = .failed ∧ get r.st.fs kp.path = some ⟨[75], 0o640⟩ ∧ kp.path ∈ r.st.last := by decide

/-- … and the next successful replacement (listener removed) leaves exactly the new set. -/
example :
    let r := replaceFiles partialKey ⟨[], []⟩ [hc, kp]
    let r2 := replaceFiles noFaults r.st [hc2]
    r2.out = .ok ∧ get r2.st.fs kp.path = none ∧ get r2.st.fs hc.path = some ⟨[104, 50], 0o644⟩ ∧
      r2.st.last = [hc.path] := by decide

/-- a crash in the middle of the key file, then start-up cleanup with main.conf present -/
example :
    let boot : FS := [("/etc/nginx/main-includes/main.conf", ⟨[1], 0o644⟩)]
    let r := replaceFiles crashKey ⟨boot, []⟩ [hc, kp]
    let c := clearFolders noFaults r.st.fs managedFolders
    r.out = .crashed ∧ get r.st.fs kp.path = some ⟨[75, 69], 0o640⟩ ∧
      c.out = .ok ∧ keys c.fs = ["/etc/nginx/main-includes/main.conf"] := by decide

/-- hypotheses of `system_success_exact` / `crash_then_clear` are satisfiable -/
example : PathsManaged [hc, kp] := by
  intro f hf; simp at hf; rcases hf with rfl | rfl <;> decide

/-- a tolerated ENOENT followed by a second fault in the same call -/
example :
    let sch : Sched := fun k => if k = 0 then some .enoent else if k = 2 then some .eio else none
    let r := replaceFiles sch ⟨[(hc.path, ⟨[1], 0o644⟩)], [hc.path]⟩ [hc, kp]
    r.out = .failed ∧ r.ops = 3 ∧ r.st.last = [hc.path] ∧ get r.st.fs hc.path = some ⟨[], 0o644⟩ := by
  decide

/-! ## 7. The regression the check must see again: tracking only after a successful write -/

/-- With the earlier code (`before = false`) the invariant is NOT preserved: the partially written key
file is on disk and untracked … -/
theorem untracked_failed_write_witness :
    let r := replaceFilesV false partialKey ⟨[], []⟩ [hc, kp]
    r.out = .failed ∧ get r.st.fs kp.path = some ⟨[75], 0o640⟩ ∧ kp.path ∉ r.st.last := by decide

/-- … and it survives the next successful replacement: the property fails for that variant. -/
theorem untracked_failed_write_survives :
    let r := replaceFilesV false partialKey ⟨[], []⟩ [hc, kp]
    let r2 := replaceFilesV false noFaults r.st [hc2]
    r2.out = .ok ∧ get r2.st.fs kp.path = some ⟨[75], 0o640⟩ := by decide

/-- For that variant the statement only holds when no chmod/write fails after a successful create,
i.e. when every call either succeeds or leaves `Tracked` intact by hypothesis. -/
theorem next_success_exact_partial (B : List String) (s : St) (ht : Tracked B s)
    (sch : Sched) (F : List File) (hok : (replaceFilesV false sch s F).out = .ok) :
    ∀ q, q ∉ B → get (replaceFilesV false sch s F).st.fs q = expectAfter F q none := by
  intro q hq
  rw [(replaceFiles_ok_get false sch s F hok).2 q]
  by_cases hlq : q ∈ s.last
  · simp [hlq]
  · have : get s.fs q = none := by
      apply Classical.byContradiction; intro hne
      rcases ht q hne with h | h
      · exact hlq h
      · exact hq h
    simp [hlq, this]

end NGF.FileMgr
