import NGF.Model.FileMgr
namespace NGF.FileMgr
theorem secret_mode_not_world_readable : modeOf .secret % 8 = 0 := by decide
end NGF.FileMgr
