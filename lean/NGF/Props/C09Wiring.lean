/-
C09 — the wiring between the event handler and the leader-aware status updater.

`UpdateGroup` keeps the caller's variadic slice by reference while the replica is not the leader.  The
theorems below are about `runR` (reference level: slices over a memory, `Model/LeaderWiring.lean`; its
updater is the very `step` of `Model/Leader.lean`, applied to slice headers) and `runV` (value level =
`run init`, the subject of `Props/C09.lean`).  For call sites that build their argument per call
(`allFresh` — the discipline of handler.go, pinned below from the source) the two coincide on ALL
handler histories, so what `Enable` writes for a group is the list computed by the LAST call for that
group, read at call time, whatever is computed later for other groups.  With one scratch buffer shared by
two call sites (`scratchShared`) this is false: concrete witnesses.
-/
import NGF.Model.LeaderWiring
import NGF.Model.LeaderWiringJudge
import NGF.Proofs.LeaderWiring
import NGF.Proofs.LeaderWiringJudge
import NGF.Generated.LeaderFacts

namespace NGF.Leader

/-! ### saved requests are the values at call time -/

/-- For ALL handler histories (graph-changing batches, no-change batches, control-plane events,
fronting-Service events, the enable point anywhere, anything after it): when every call site passes a
slice allocated for that call, reading the saved slice headers at write time gives exactly the lists
that were passed — the reference-level behaviour IS the value-level behaviour. -/
theorem saved_requests_are_call_values (evs : List HEv) : runR allFresh evs = runV evs :=
  hrun_fresh_eq_run (opsOf evs) sim_init

/-- the same for every operation list (not only those that handler events produce) -/
theorem saved_requests_are_call_values_ops (ops : List Op) : hrun allFresh hinit ops = run init ops :=
  hrun_fresh_eq_run ops sim_init

/-- What `Enable` writes, in the reference-level semantics: one write per group, and `(g, r)` is written
iff `r` is the non-empty list passed by the LAST call for `g` before `Enable` — the value at call time. -/
theorem flush_writes_values_at_call_time (pre : List HEv) (o : List Group) (post : List HEv)
    (h : NoEnableEv pre) :
    ∃ ws, (runR allFresh (pre ++ .enable o :: post))[(opsOf pre).length]? = some (Out.writes ws) ∧
      (keys ws).Nodup ∧
      ∀ g r, (g, r) ∈ ws ↔ (lastCall g pre = some r ∧ r ≠ []) := by
  have hn := noEnable_opsOf h
  have hops : opsOf (pre ++ .enable o :: post) = opsOf pre ++ .enable o :: opsOf post := by
    rw [opsOf_append]; rfl
  refine ⟨flush o (exec init (opsOf pre)).saved, ?_, ?_, ?_⟩
  · rw [saved_requests_are_call_values, runV, hops,
      run_decompose_aux (opsOf pre) o (opsOf post) hn]
    rw [List.getElem?_append_right (by simp)]
    simp
  · obtain ⟨_, hnd, _, _⟩ := disabled_exec (opsOf pre) init rfl hn (by simp [init, keys])
    have hp : (keys (flush o (exec init (opsOf pre)).saved)).Perm (keys (exec init (opsOf pre)).saved) :=
      (flush_perm o _ hnd).map _
    exact hp.nodup_iff.2 hnd
  · intro g r
    obtain ⟨_, hnd, _, hp⟩ := disabled_exec (opsOf pre) init rfl hn (by simp [init, keys])
    have hperm : (flush o (exec init (opsOf pre)).saved).Perm (latest (opsOf pre)) :=
      (flush_perm o _ hnd).trans (by simpa [init] using hp)
    rw [hperm.mem_iff, mem_latest_iff_lastSub]
    rfl

/-- An event that does not submit group `g` (another batch kind, a control-plane event while `g` is a
graph group, …) does not change what will be flushed for `g`. -/
theorem later_calls_for_other_groups_irrelevant (g : Group) (pre : List HEv) (ev : HEv)
    (h : g ∉ ev.groups) : lastCall g (pre ++ [ev]) = lastCall g pre := by
  unfold lastCall
  rw [opsOf_append]
  apply lastSub_append_other
  have : opsOf [ev] = ev.ops := by simp [opsOf]
  rw [this]
  cases ev <;> simp_all [HEv.groups, HEv.ops, superseded]
  all_goals first
    | exact ⟨fun e => h.1 e.symm, fun e => h.2 e.symm⟩
    | exact fun e => h e.symm

/-- Before `Enable` the handler's calls write nothing (reference level). -/
theorem handler_no_write_before_enable (pre : List HEv) (rest : List HEv) (h : NoEnableEv pre) :
    (runR allFresh (pre ++ rest)).take (opsOf pre).length =
      (opsOf pre).map (fun _ => Out.writes []) := by
  have hn := noEnable_opsOf h
  rw [saved_requests_are_call_values, runV, opsOf_append]
  obtain ⟨_, _, hr, _⟩ := disabled_exec (opsOf pre) init rfl hn (by simp [init, keys])
  rw [run_append, hr, List.take_left' (by simp)]

/-- After `Enable` every call of the handler is one immediate write of exactly the list it passes. -/
theorem handler_immediate_after_enable (pre : List HEv) (o : List Group) (post : List HEv)
    (h : NoEnableEv pre) :
    (runR allFresh (pre ++ .enable o :: post)).drop ((opsOf pre).length + 1) =
      (opsOf post).map after := by
  have hn := noEnable_opsOf h
  have hops : opsOf (pre ++ .enable o :: post) = opsOf pre ++ .enable o :: opsOf post := by
    rw [opsOf_append]; rfl
  rw [saved_requests_are_call_values, runV, hops, run_decompose_aux (opsOf pre) o (opsOf post) hn]
  simp [List.drop_append]

/-! ### a shared scratch buffer breaks it -/

/-- `updateStatuses` and `updateControlPlaneAndSetStatus` assemble their requests in one reusable buffer:
a graph-changing batch submits `[10, 11]` for all-except-gateways (saved: a header into the buffer), then
an NginxGateway event builds `[30]` in the same cells; `Enable` writes `[30, 11]` for the first group —
request 10 (the GatewayClass status, first in the list) is never written. -/
theorem flush_shared_buffer_false :
    runR scratchShared [.graph [10, 11] [20], .control [30], .enable [0, 1, 2]] =
      [.writes [], .writes [], .writes [], .writes [(0, [30, 11]), (1, [20]), (2, [30])]] ∧
    runV [.graph [10, 11] [20], .control [30], .enable [0, 1, 2]] =
      [.writes [], .writes [], .writes [], .writes [(0, [10, 11]), (1, [20]), (2, [30])]] := by
  decide

/-- start-up order NginxGateway first, then a graph with a single request: the control-plane request is
lost instead -/
theorem flush_shared_buffer_startup_false :
    runR scratchShared [.control [30], .graph [10] [20], .enable [2, 0, 1]] =
      [.writes [], .writes [], .writes [], .writes [(2, [10]), (0, [10]), (1, [20])]] ∧
    lastCall gControl [.control [30], .graph [10] [20]] = some [30] := by
  decide

/-- hence the equation of `saved_requests_are_call_values` does not hold for the shared-buffer variant -/
theorem saved_requests_shared_buffer_false : ¬ ∀ evs, runR scratchShared evs = runV evs := by
  intro h
  have := h [.graph [10, 11] [20], .control [30], .enable [0, 1, 2]]
  revert this
  decide

/-- a leader is unaffected by the shared buffer (every call is written before the buffer is reused) -/
example : runR scratchShared [.enable [], .graph [10, 11] [20], .control [30], .graph [12] []] =
    runV [.enable [], .graph [10, 11] [20], .control [30], .graph [12] []] := by decide

/-! ### requests are keyed by (kind, namespace, name) -/

/-- Every request of the last call for `g` is written at `Enable`, in particular two requests for
resources of DIFFERENT kinds that share namespace/name are both written. -/
theorem flush_writes_every_resource (pre : List HEv) (o : List Group) (post : List HEv)
    (h : NoEnableEv pre) (g : Group) (r : List Req) (hl : lastCall g pre = some r)
    (tbl : List SReq) (a b : SReq) (ha : a ∈ resources tbl r) (hb : b ∈ resources tbl r)
    (_ : a.nsName = b.nsName) (_ : a.kind ≠ b.kind) :
    ∃ ws, (runR allFresh (pre ++ .enable o :: post))[(opsOf pre).length]? = some (Out.writes ws) ∧
      ∃ w ∈ ws, w.1 = g ∧ a ∈ resources tbl w.2 ∧ b ∈ resources tbl w.2 := by
  obtain ⟨ws, h1, _, h3⟩ := flush_writes_values_at_call_time pre o post h
  have hne : r ≠ [] := by
    intro e
    subst e
    simp [resources] at ha
  exact ⟨ws, h1, (g, r), (h3 g r).2 ⟨hl, hne⟩, rfl, ha, hb⟩

/-- a flush that de-duplicates by NsName only ("write each resource once", ignoring the kind) drops the
status of the HTTPRoute that shares namespace/name with the Gateway -/
theorem flush_dedup_by_nsname_false :
    dedupNsName [] [⟨0, 1, 7, 100⟩, ⟨1, 1, 7, 200⟩, ⟨1, 1, 8, 300⟩] = [⟨0, 1, 7, 100⟩, ⟨1, 1, 8, 300⟩] ∧
    (⟨1, 1, 7, 200⟩ : SReq).key ≠ (⟨0, 1, 7, 100⟩ : SReq).key := by
  decide

/-! ### what the wiring judge looks at, on the model -/

/-- The judge attributes the writes of `Enable` to groups by resource kind (`ofGroup`/`groupOfKind`).  When every
request submitted under a group addresses a kind of that group (`KindsOk`, cf. `kinds_partition_groups`), the
group-`g` part of what the model flushes is exactly the resources of the list passed by the LAST call for `g`
(nothing when that list was empty or the group was never submitted). -/
theorem flush_per_group_is_last_call (tbl : List SReq) (pre : List HEv) (o : List Group) (post : List HEv)
    (h : NoEnableEv pre) (hk : KindsOk tbl (opsOf pre)) :
    ∃ ws, (runR allFresh (pre ++ .enable o :: post))[(opsOf pre).length]? = some (Out.writes ws) ∧
      ∀ g, ofGroup g ((ws.map fun w => resources tbl w.2).flatten) =
        resources tbl ((lastCall g pre).getD []) := by
  obtain ⟨ws, h1, h2, h3⟩ := flush_writes_values_at_call_time pre o post h
  refine ⟨ws, h1, fun g => ?_⟩
  have hkind : ∀ w ∈ ws, ∀ q ∈ resources tbl w.2, groupOfKind q.kind = w.1 := by
    intro w hw q hq
    have := (h3 w.1 w.2).1 hw
    exact hk w.1 w.2 (lastSub_mem this.1) q hq
  rw [ofGroup_flush tbl g ws h2 hkind]
  have hnone : (∀ r, lastCall g pre = some r → r = []) → get g ws = none := by
    intro hall
    apply get_none_of_not_mem
    intro hm
    obtain ⟨⟨g', r'⟩, hm', hg⟩ := List.mem_map.1 hm
    simp only at hg
    subst hg
    have := (h3 g' r').1 hm'
    exact this.2 (hall r' this.1)
  cases hl : lastCall g pre with
  | none => rw [hnone (by intro r e; rw [hl] at e; cases e)]
  | some r =>
    by_cases hr : r = []
    · subst hr
      rw [hnone (by intro r e; rw [hl] at e; cases e; rfl)]
      rfl
    · rw [get_of_mem h2 ((h3 g r).2 ⟨hl, hr⟩)]

/-- Hence the judge's flush clause accepts every run of the model whenever the fresh-handler oracle of the step
that submitted `g` last (`lastSubmitter`) is, as a multiset, the resources of the model's last call for `g`: the
judge demands nothing the theorems do not give. -/
theorem judge_flush_clause_accepts_model (tbl : List SReq) (pre : List HEv) (o : List Group) (post : List HEv)
    (h : NoEnableEv pre) (hk : KindsOk tbl (opsOf pre)) (before : List WStep) (g : Group) (s : WStep)
    (want : List SReq) (hs : lastSubmitter g before = some s) (hw : wantOf s g = some want)
    (hfresh : (resources tbl ((lastCall g pre).getD [])).Perm want) :
    ∃ ws, (runR allFresh (pre ++ .enable o :: post))[(opsOf pre).length]? = some (Out.writes ws) ∧
      flushOk before ((ws.map fun w => resources tbl w.2).flatten) g = none := by
  obtain ⟨ws, h1, h2⟩ := flush_per_group_is_last_call tbl pre o post h hk
  refine ⟨ws, h1, ?_⟩
  simp only [flushOk, hs, hw, h2 g]
  rw [if_pos (List.isPerm_iff.2 hfresh)]

/-- … and a group that no step submitted gets no write -/
theorem judge_flush_clause_accepts_model_unsubmitted (tbl : List SReq) (pre : List HEv) (o : List Group)
    (post : List HEv) (h : NoEnableEv pre) (hk : KindsOk tbl (opsOf pre)) (before : List WStep) (g : Group)
    (hs : lastSubmitter g before = none) (hl : lastCall g pre = none) :
    ∃ ws, (runR allFresh (pre ++ .enable o :: post))[(opsOf pre).length]? = some (Out.writes ws) ∧
      flushOk before ((ws.map fun w => resources tbl w.2).flatten) g = none := by
  obtain ⟨ws, h1, h2⟩ := flush_per_group_is_last_call tbl pre o post h hk
  refine ⟨ws, h1, ?_⟩
  have e : ofGroup g ((ws.map fun w => resources tbl w.2).flatten) = [] := by
    rw [h2 g, hl]; rfl
  simp only [flushOk, hs, e]
  rfl

/-- non-vacuity: a table in which group 0 holds a GatewayClass and an HTTPRoute, group 1 a Gateway sharing the
route's namespace/name, group 2 the NginxGateway -/
example : KindsOk [⟨0, 0, 0, 1⟩, ⟨2, 1, 7, 3⟩, ⟨1, 1, 7, 2⟩, ⟨4, 1, 7, 4⟩]
    (opsOf [.graph [0, 1] [2], .control [3], .graph [0] [2]]) := by
  intro g r hm q hq
  simp only [opsOf, HEv.ops, List.cons_append, List.nil_append, List.mem_cons, Op.update.injEq,
    List.not_mem_nil, or_false] at hm
  rcases hm with ⟨rfl, rfl⟩ | ⟨rfl, rfl⟩ | ⟨rfl, rfl⟩ | ⟨rfl, rfl⟩ | ⟨rfl, rfl⟩ <;>
    revert q <;> decide

/-! ### Non-vacuity -/

example : NoEnableEv [.graph [1, 2] [3], .noChange, .control [4], .frontSvc [5], .graph [6] []] := by
  decide

example : runR allFresh [.graph [1, 2] [3], .noChange, .control [4], .frontSvc [5], .graph [6] [],
    .enable [2, 0], .control [], .graph [7] [8]] =
    [.writes [], .writes [], .writes [], .writes [], .writes [], .writes [],
     .writes [(2, [4]), (0, [6])], .writes [(2, [])], .writes [(0, [7])], .writes [(1, [8])]] := by
  decide

example : lastCall gGateways [.graph [1, 2] [3], .noChange, .control [4], .frontSvc [5]] = some [5] := by
  decide

example : gAll ∉ (HEv.control [4]).groups ∧ gAll ∉ (HEv.frontSvc [5]).groups ∧ gAll ∉ HEv.noChange.groups := by
  decide

example : ∃ a b : SReq, a ∈ resources [⟨0, 1, 7, 100⟩, ⟨1, 1, 7, 200⟩] [0, 1] ∧
    b ∈ resources [⟨0, 1, 7, 100⟩, ⟨1, 1, 7, 200⟩] [0, 1] ∧ a.nsName = b.nsName ∧ a.kind ≠ b.kind :=
  ⟨⟨0, 1, 7, 100⟩, ⟨1, 1, 7, 200⟩, by decide, by decide, by decide, by decide⟩

/-! ### Tie to the source -/

/-- The call sites of handler.go are the ones `HEv.ops` transcribes: `updateStatuses` (only called as the
last statement of `HandleEventBatch`, which returns earlier on `state.NoChange`) submits
all-except-gateways and then gateways; `updateControlPlaneAndSetStatus` (only called by the NginxGateway
object-filter callbacks) submits control-plane; the fronting-Service callbacks submit gateways. -/
theorem handler_call_sites_as_modelled :
    Generated.Leader.updateGroupCallSites =
      ["updateStatuses: groupAllExceptGateways: reqs...",
       "updateStatuses: groupGateways: gwReqs...",
       "updateControlPlaneAndSetStatus: groupControlPlane: reqs...",
       "nginxGatewayServiceUpsert: groupGateways: gatewayStatuses...",
       "nginxGatewayServiceDelete: groupGateways: gatewayStatuses..."] ∧
    Generated.Leader.handleEventBatchLastStmt = "h.updateStatuses(ctx, logger, gr)" ∧
    Generated.Leader.noChangeCaseLastStmt = "return" ∧
    Generated.Leader.updateStatusesCallers = ["HandleEventBatch: h.updateStatuses(ctx, logger, gr)"] := by
  decide +kernel

/-- `updateControlPlaneAndSetStatus` is only reached through the NginxGateway object filter (upsert with the
object, delete with nil); the fronting-Service filter has the two gateway-status callbacks. -/
theorem object_filters_as_modelled :
    Generated.Leader.controlPlaneStatusCallers =
      ["nginxGatewayCRDUpsert: h.updateControlPlaneAndSetStatus(ctx, logger, cfg)",
       "nginxGatewayCRDDelete: h.updateControlPlaneAndSetStatus(ctx, logger, nil)"] ∧
    Generated.Leader.objectFilterEntries =
      ["&ngfAPI.NginxGateway{} => { upsert: handler.nginxGatewayCRDUpsert, delete: handler.nginxGatewayCRDDelete, }",
       "&v1.Service{} => { upsert: handler.nginxGatewayServiceUpsert, delete: handler.nginxGatewayServiceDelete, captureChangeInGraph: true, }"] := by
  decide +kernel

/-- the group ids of the model are the positions of the three group-name constants of handler.go -/
theorem handler_groups_as_modelled :
    Generated.Leader.groupNames[gAll]? = some "all-graphs-except-gateways" ∧
    Generated.Leader.groupNames[gGateways]? = some "gateways" ∧
    Generated.Leader.groupNames[gControl]? = some "control-plane" := by
  decide +kernel

/-- The hypothesis `allFresh` of the theorems above, for the Go code: every `UpdateGroup` argument in
handler.go is `ident...` where `ident` is declared inside the calling function (by `make`, `var`, or as
the result of `status.PrepareGatewayRequests`), only ever assigned by appending to itself, and not
mentioned after the call; the `Prepare*Requests` functions return a slice they declared themselves; no
struct field (other than the updater's own map) and no package-level variable holds a slice of
`UpdateRequest`; and the updater stores exactly the slice it was given. -/
theorem call_sites_allocate_per_call :
    Generated.Leader.updateGroupArgDefs =
      ["updateStatuses: reqs := make( []frameworkStatus.UpdateRequest, 0, len(gcReqs)+len(routeReqs)+len(polReqs)+len(ngfPolReqs)+len(snippetsFilterReqs), )",
       "updateStatuses: reqs = append(reqs, gcReqs...)",
       "updateStatuses: reqs = append(reqs, routeReqs...)",
       "updateStatuses: reqs = append(reqs, polReqs...)",
       "updateStatuses: reqs = append(reqs, ngfPolReqs...)",
       "updateStatuses: reqs = append(reqs, snippetsFilterReqs...)",
       "updateStatuses: gwReqs := status.PrepareGatewayRequests( gr.Gateway, gr.IgnoredGateways, transitionTime, gwAddresses, h.latestReloadResult, )",
       "updateControlPlaneAndSetStatus: var reqs []frameworkStatus.UpdateRequest",
       "updateControlPlaneAndSetStatus: reqs = append(reqs, *req)",
       "nginxGatewayServiceUpsert: gatewayStatuses := status.PrepareGatewayRequests( gr.Gateway, gr.IgnoredGateways, transitionTime, gwAddresses, h.latestReloadResult, )",
       "nginxGatewayServiceDelete: gatewayStatuses := status.PrepareGatewayRequests( gr.Gateway, gr.IgnoredGateways, transitionTime, gwAddresses, h.latestReloadResult, )"] ∧
    Generated.Leader.updateGroupArgNonLocal = [] ∧
    Generated.Leader.updateGroupArgUsesAfterCall = [] ∧
    Generated.Leader.requestSliceFields =
      ["internal/framework/status/leader_aware_group_updater.go: LeaderAwareGroupUpdater.groupReqs map[string][]UpdateRequest"] ∧
    Generated.Leader.requestPackageVars = [] ∧
    Generated.Leader.prepareResultOrigins =
      ["PrepareRouteRequests: return reqs: reqs := make([]frameworkStatus.UpdateRequest, 0, len(routes))",
       "PrepareGatewayClassRequests: return reqs: var reqs []frameworkStatus.UpdateRequest",
       "PrepareGatewayRequests: return reqs: reqs := make([]frameworkStatus.UpdateRequest, 0, 1+len(ignoredGateways))",
       "PrepareNGFPolicyRequests: return reqs: reqs := make([]frameworkStatus.UpdateRequest, 0, len(policies))",
       "PrepareBackendTLSPolicyRequests: return reqs: reqs := make([]frameworkStatus.UpdateRequest, 0, len(policies))",
       "PrepareSnippetsFilterRequests: return reqs: reqs := make([]frameworkStatus.UpdateRequest, 0, len(snippetsFilters))"] ∧
    Generated.Leader.updateGroupBody[2]? =
      some "if !u.enabled { if len(reqs) == 0 { delete(u.groupReqs, name) return } u.groupReqs[name] = reqs return }" := by
  decide +kernel

/-- The judge attributes a write to a group by the kind of the resource (`groupOfKind`): Gateway statuses are
only produced by `PrepareGatewayRequests`/`prepareGatewayRequest` (submitted under gateways), NginxGateway
statuses only by `PrepareNginxGatewayStatus` (control-plane), and the functions feeding all-except-gateways
produce neither. -/
theorem kinds_partition_groups :
    Generated.Leader.prepareResourceTypes =
      ["PrepareRouteRequests: &v1alpha2.TLSRoute{}",
       "PrepareRouteRequests: &v1.HTTPRoute{}",
       "PrepareRouteRequests: &v1.GRPCRoute{}",
       "PrepareGatewayClassRequests: &v1.GatewayClass{}",
       "PrepareGatewayRequests: &v1.Gateway{}",
       "prepareGatewayRequest: &v1.Gateway{}",
       "PrepareNGFPolicyRequests: pol.Source",
       "PrepareBackendTLSPolicyRequests: &v1alpha3.BackendTLSPolicy{}",
       "PrepareSnippetsFilterRequests: snippetsFilter.Source",
       "PrepareNginxGatewayStatus: &ngfAPI.NginxGateway{}"] ∧
    groupOfKind kGateway = gGateways ∧ groupOfKind kNginxGateway = gControl ∧
    groupOfKind 0 = gAll ∧ groupOfKind 2 = gAll ∧ groupOfKind 3 = gAll ∧ groupOfKind 5 = gAll := by
  decide +kernel

/-! ### the wiring judge separates good and bad histories

`gc` GatewayClass, `gw`/`rt` Gateway and HTTPRoute sharing namespace/name, `ng` NginxGateway. -/

private def gc : SReq := ⟨0, 0, 0, 1⟩
private def gw : SReq := ⟨1, 1, 7, 2⟩
private def rt : SReq := ⟨2, 1, 7, 3⟩
private def ng : SReq := ⟨4, 1, 7, 4⟩

/-- start-up batch, control-plane event, election, one more batch: accepted -/
example : judgeW [⟨false, [0, 1], some [[gc, rt], [gw], []], []⟩, ⟨false, [2], some [[gc, rt], [gw], [ng]], []⟩,
                  ⟨true, [], none, [gw, gc, rt, ng]⟩,
                  ⟨false, [0, 1], some [[gc, rt], [gw], [ng]], [gc, rt, gw]⟩] = none := by decide

/-- shared scratch buffer: the control-plane request sits where the GatewayClass request was -/
example : judgeW [⟨false, [0, 1], some [[gc, rt], [gw], []], []⟩, ⟨false, [2], some [[gc, rt], [gw], [ng]], []⟩,
                  ⟨true, [], none, [ng, rt, gw, ng]⟩] = some "flush_wrong_requests" := by decide

/-- flush de-duplicated by NsName: the HTTPRoute that shares namespace/name with the Gateway is dropped -/
example : judgeW [⟨false, [0, 1], some [[gc, rt], [gw], []], []⟩,
                  ⟨true, [], none, [gw, gc]⟩] = some "flush_wrong_requests" := by decide

/-- a stale control-plane status (the NginxGateway was deleted before the election) -/
example : judgeW [⟨false, [2], some [[], [], [ng]], []⟩, ⟨false, [2], some [[], [], []], []⟩,
                  ⟨true, [], none, [ng]⟩] = some "flush_wrong_requests" := by decide

example : judgeW [⟨false, [0, 1], some [[gc], [gw], []], [gc]⟩] = some "write_before_leader" := by decide

example : judgeW [⟨true, [], none, []⟩, ⟨false, [0, 1], some [[gc, rt], [gw], []], [gc, gw]⟩] =
    some "not_immediate" := by decide

end NGF.Leader
