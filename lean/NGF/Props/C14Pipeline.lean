import NGF.Model.Pipeline
import NGF.Proofs.PipelinePerm
/-
C14 on the pipeline fragment model `gen : Scenario → Conf` (Model/Pipeline.lean, tied to the real graph → dataplane →
NGINX configuration pipeline by translation validation in C02 and, per arrival order, in C14's `pipeline` stream):

  the generated configuration — and therefore what NGINX does with every request — does not depend on the order in which
  GatewayClasses, Gateways and HTTPRoutes arrive / are iterated over (Go maps = lists, arrival order = list order;
  every theorem quantifies over ALL permutations `List.Perm`).

All statements are about the same `winner`, `gen`, `nginxEvalConf` that `ngfdriver_C14 pipeline` / `ngfdriver_C02 pipeline`
execute. Helper lemmas: NGF/Proofs/PipelinePerm.lean, NGF/Proofs/ListPerm.lean, NGF/Proofs/Sort.lean.
-/
namespace NGF.Props.C14Pipeline
open NGF.Pipeline NGF.ListPerm

/-- `s'` is `s` with the GatewayClasses, the Gateways and the HTTPRoutes in another order -/
structure Reordered (s s' : Scenario) : Prop where
  cls : s'.cls = s.cls
  ctlr : s'.ctlr = s.ctlr
  classes : s.classes.Perm s'.classes
  gateways : s.gateways.Perm s'.gateways
  routes : s.routes.Perm s'.routes

/-! ## 1. The served Gateway -/

/-- `LessClientObject` on Gateways is a strict weak order (what `sort.Slice` needs), and total on distinct
(namespace, name) -/
theorem olderGw_strict_total :
    NGF.Sort.SWO olderGw ∧
    (∀ a b : Gateway, olderGw a b = true ∨ (a.age = b.age ∧ a.ns = b.ns ∧ a.name = b.name) ∨ olderGw b a = true) :=
  ⟨olderGw_swo, olderGw_tri⟩

/-- the executable form of the Gateway-key hypothesis (`nodup`, as in `inFragment`; what the driver evaluates) gives `KeyInj` -/
theorem keyInj_of_nodup (l : List Gateway) (h : nodup (l.map fun g => (g.ns, g.name)) = true) : KeyInj l := by
  unfold nodup at h
  have hn := nodup_of_eraseDups_length (l := l.map fun g => (g.ns, g.name)) (by simpa using h)
  intro a ha b hb e1 e2
  exact inj_of_nodup_map hn a ha b hb (by simp [e1, e2])

/-- `winner_perm`: the served Gateway does not depend on the order of the Gateway map nor of the GatewayClass map.
`KeyInj` (decidable): Gateways have distinct (namespace, name). -/
theorem winner_perm (s s' : Scenario) (h : Reordered s s') (hk : KeyInj s.gateways) : winner s' = winner s := by
  unfold winner
  rw [classOurs_perm h.cls h.ctlr h.classes, h.cls]
  by_cases hc : classOurs s = true
  · simp only [hc, ↓reduceIte]
    exact (oldest_perm (h.gateways.filter _) (hk.sub fun a ha => (List.mem_filter.mp ha).1)).symm
  · simp [hc]

/-- `winner_is_min` on the fragment: the served Gateway belongs to the configured class, which names our controller, and
every other Gateway of the class comes strictly later in (creationTimestamp, namespace, name). -/
theorem pipeline_winner_is_min (s : Scenario) (hk : KeyInj s.gateways) (w : Gateway) (h : winner s = some w) :
    classOurs s = true ∧ w ∈ s.gateways ∧ w.cls = s.cls ∧
    ∀ g ∈ s.gateways, g.cls = s.cls → g = w ∨ (olderGw w g = true ∧ olderGw g w = false) := by
  unfold winner at h
  by_cases hc : classOurs s = true
  · simp only [hc, ↓reduceIte] at h
    obtain ⟨hm, hmin⟩ := oldest_spec (hk.sub fun a ha => (List.mem_filter.mp ha).1) h
    have hw := List.mem_filter.mp hm
    refine ⟨hc, hw.1, by simpa using hw.2, ?_⟩
    intro g hg hcl
    rcases hmin g (List.mem_filter.mpr ⟨hg, by simp [hcl]⟩) with e | e
    · exact Or.inl e
    · exact Or.inr ⟨e, olderGw_asymm e⟩
  · simp [hc] at h

/-- nothing is served iff the class is not ours or has no Gateway -/
theorem pipeline_no_winner_iff (s : Scenario) :
    winner s = none ↔ (classOurs s = false ∨ ∀ g ∈ s.gateways, g.cls ≠ s.cls) := by
  unfold winner
  by_cases hc : classOurs s = true
  · simp only [hc, ↓reduceIte, Bool.true_eq_false, false_or]
    rw [oldest_none, List.filter_eq_nil_iff]
    constructor
    · intro h g hg e; exact h g hg (by simp [e])
    · intro h g hg e; exact h g hg (by simpa using e)
  · simp [hc]

/-! ## 2. Ties of `higherPriority` and the stable sort -/

/-- two match rules tie in `higherPriority` only if they come from objects with the same
(creationTimestamp, namespace, name) — with distinct route keys: from ONE route -/
theorem ties_only_within_one_source (a b : NGF.Precedence.MatchKey) (h1 : NGF.Precedence.le a b = true)
    (h2 : NGF.Precedence.le b a = true) : a.age = b.age ∧ a.ns = b.ns ∧ a.name = b.name :=
  key_equiv_same_source h1 h2

/-- under a permutation of the routes the match rules handed to `sortMatchRules` are permuted, but the rules of each
equivalence class (= of one route) keep their relative order — the hypothesis of `stable_sort_perm_invariant` -/
theorem entries_same_up_to_ties (g : Gateway) (routes routes' : List Route) (hp : routes.Perm routes')
    (hn : RouteKeysNodup routes) : SameUpToTies (entries g routes) (entries g routes') :=
  ⟨entries_perm g hp, entries_class g hp hn⟩

/-- … hence every (port, host, path) rule gets the same sorted match list, whatever the order of the routes -/
theorem sorted_rules_perm_invariant (g : Gateway) (routes routes' : List Route) (hp : routes.Perm routes')
    (hn : RouteKeysNodup routes) (port : Nat) (host : Str) (k : Bool × Str) :
    sortEntries ((mineOf (entries g routes) port host).filter fun e => pathKey e == k) =
    sortEntries ((mineOf (entries g routes') port host).filter fun e => pathKey e == k) := by
  rw [sortEntries_eq, sortEntries_eq]
  apply NGF.Sort.stable_sort_perm_invariant entryLe_trans entryLe_total
  intro a
  unfold mineOf
  rw [filter_comm3, filter_comm3 (entries g routes'), entries_class g hp hn a]

/-! ## 3. The configuration up to order, and its well-formedness -/

/-- `gen s'` and `gen s` are equal up to a permutation of the default-server ports, of the servers, and of the locations
of each server (`Conf.equiv`) -/
theorem gen_perm_equiv (s s' : Scenario) (h : Reordered s s') (hk : KeyInj s.gateways)
    (hn : RouteKeysNodup s.routes) : Conf.equiv (gen s) (gen s') :=
  gen_equiv_of_routes_perm s s' (winner_perm s s' h hk) h.routes hn

/-- server names are distinct per port -/
theorem gen_servers_distinct (s : Scenario) : ((gen s).servers.map fun sv => (sv.port, sv.name)).Nodup := by
  unfold gen
  cases winner s with
  | none => simp
  | some g =>
    simp only [List.map_map]
    have : (hostsOf g s.routes).map ((fun sv : CServer => (sv.port, sv.name)) ∘
        fun ph => serverOf (entries g s.routes) ph.1 ph.2) = (hostsOf g s.routes).map id :=
      List.map_congr_left (fun ph _ => rfl)
    rw [this, List.map_id]
    exact hostsOf_nodup g s.routes

/-- (modifier, path) of the locations of each server are distinct, provided no match has an empty path (`matchOK`
demands a leading `/`) -/
theorem gen_locs_distinct (s : Scenario) (hp : PathsOK s.routes) :
    ∀ sv ∈ (gen s).servers, (sv.locs.map fun l => (l.exact, l.path)).Nodup :=
  (gen_wf s hp).locs

/-- the same for scenarios inside the fragment -/
theorem gen_wf_fragment (s : Scenario) (hf : inFragment s = true) : (gen s).WF := gen_wf s (pathsOK_of_fragment hf)

/-- NGINX (`nginxEvalConf`) cannot tell two equivalent well-formed configurations apart -/
theorem equiv_same_meaning (c c' : Conf) (he : Conf.equiv c c') (hw : c.WF) :
    ∀ q, nginxEvalConf c q = nginxEvalConf c' q := equiv_meaning he hw

/-- the empty-path hypothesis of `gen_locs_distinct` cannot be dropped: a PathPrefix "" rule yields `location /` twice
(its own `<path>/` and the default root) -/
theorem locs_distinct_needs_nonempty_path :
    ((NGF.Precedence.genLocs [⟨[], true⟩]).map fun g => (g.exact, g.path)) = [(false, ['/']), (true, []), (false, ['/'])] := by
  decide

/-! ## 4. The meaning does not depend on arrival / map order -/

/-- `gen_perm_meaning`: for `s'` obtained from `s` by ANY permutation of routes, Gateways and GatewayClasses, NGINX
answers every request the same way under `gen s'` and under `gen s`. -/
theorem gen_perm_meaning (s s' : Scenario) (h : Reordered s s') (hk : KeyInj s.gateways) (hf : inFragment s = true) :
    ∀ q, nginxEvalConf (gen s') q = nginxEvalConf (gen s) q := by
  intro q
  exact (equiv_meaning (gen_perm_equiv s s' h hk (routeKeys_of_fragment hf)) (gen_wf_fragment s hf) q).symm

/-- the same from the two hypotheses it really needs (distinct route keys, non-empty paths) -/
theorem gen_perm_meaning' (s s' : Scenario) (h : Reordered s s') (hk : KeyInj s.gateways)
    (hn : RouteKeysNodup s.routes) (hp : PathsOK s.routes) :
    ∀ q, nginxEvalConf (gen s') q = nginxEvalConf (gen s) q := by
  intro q
  exact (equiv_meaning (gen_perm_equiv s s' h hk hn) (gen_wf s hp) q).symm

/-- without distinct Gateway keys the served Gateway DOES depend on the order: two Gateways default/gw with one age -/
def dupA : Gateway := ⟨['d'], ['g'], ['c'], 1, []⟩
def dupB : Gateway := ⟨['d'], ['g'], ['c'], 1, [⟨['l'], 80, [], true⟩]⟩
theorem winner_order_dependent_without_distinct_keys : oldest [dupA, dupB] ≠ oldest [dupB, dupA] := by decide

/-! ### non-vacuity: a scenario with competition, inside the fragment, and a reordering that changes `gen` textually -/

private def cOurs : GwClass := ⟨"nginx".toList, "ctl".toList⟩
private def cOther : GwClass := ⟨"other".toList, "x".toList⟩
private def lisA : Listener := ⟨"l0".toList, 80, [], true⟩
private def lisB : Listener := ⟨"l1".toList, 80, "*.example.com".toList, true⟩
private def gwOld : Gateway := ⟨"default".toList, "gw".toList, "nginx".toList, 5, [lisA, lisB]⟩
/-- same age: the name decides -/
private def gwLater : Gateway := ⟨"default".toList, "gw2".toList, "nginx".toList, 5, [lisA]⟩
private def gwForeign : Gateway := ⟨"default".toList, "fg".toList, "other".toList, 1, []⟩
private def par : Parent := ⟨"default".toList, "gw".toList, none⟩
private def mP (p : String) : Match := ⟨false, p.toList, [], [], []⟩
private def mH (p : String) : Match := ⟨false, p.toList, [], [("version".toList, "v1".toList)], []⟩
private def be (t : String) : Backend := ⟨t.toList, 1, true⟩
private def r1 : Route := ⟨"default".toList, "r1".toList, 7, [par], ["cafe.example.com".toList],
  [⟨[mP "/coffee", mH "/tea", mP "/tea"], .forward [be "default_svc0_80"]⟩], true⟩
/-- same age as r1, two rules tying on /tea -/
private def r2 : Route := ⟨"default".toList, "r2".toList, 7, [par], [],
  [⟨[mP "/tea"], .redirect 302 none none none⟩, ⟨[mP "/tea", mP "/"], .forward [be "default_svc1_80"]⟩], true⟩
private def r3 : Route := ⟨"team-a".toList, "r3".toList, 3, [par], ["cafe.example.com".toList, "bar.org".toList],
  [⟨[mH "/tea", mP "/x"], .forward [be "team-a_svc2_80", be "team-a_svc0_80"]⟩], true⟩
private def sA : Scenario := ⟨"nginx".toList, "ctl".toList, [cOurs, cOther], [gwLater, gwOld, gwForeign], [r1, r2, r3]⟩
private def sB : Scenario :=
  { sA with classes := sA.classes.reverse, gateways := sA.gateways.reverse, routes := sA.routes.reverse }

example : Reordered sA sB :=
  ⟨rfl, rfl, (List.reverse_perm _).symm, (List.reverse_perm _).symm, (List.reverse_perm _).symm⟩
example : KeyInj sA.gateways := by decide
private def rq (host path : String) (hdr : List (Str × Str)) : Req :=
  { port := 80, host := host.toList, path := path.toList, method := "GET".toList, headers := hdr, query := [] }

example : RouteKeysNodup sA.routes := by unfold RouteKeysNodup; decide
example : PathsOK sA.routes := by unfold PathsOK; decide
example : Conf.equiv (gen sA) (gen sB) :=
  gen_perm_equiv sA sB ⟨rfl, rfl, (List.reverse_perm _).symm, (List.reverse_perm _).symm, (List.reverse_perm _).symm⟩
    (by decide) (by unfold RouteKeysNodup; decide)
example : (gen sA).WF := gen_wf sA (by unfold PathsOK; decide)

#guard inFragment sA
#guard winner sA == some gwOld && winner sB == some gwOld
-- the two configurations differ as lists (server order) …
#guard (gen sA).servers.map (·.name) != (gen sB).servers.map (·.name)
#guard (gen sA).servers.length == 4
-- … but not in meaning; the outcomes are not trivial
#guard [rq "cafe.example.com" "/tea" [("version".toList, "v1".toList)], rq "cafe.example.com" "/tea" [],
        rq "cafe.example.com" "/coffee/x" [], rq "x.example.com" "/tea" [], rq "bar.org" "/x" [], rq "bar.org" "/" [],
        rq "nobody.net" "/" []].all fun q => nginxEvalConf (gen sA) q == nginxEvalConf (gen sB) q
#guard nginxEvalConf (gen sA) (rq "cafe.example.com" "/tea" [("version".toList, "v1".toList)])
        == .proxy [("team-a_svc2_80".toList, 5000), ("team-a_svc0_80".toList, 5000)]
#guard nginxEvalConf (gen sA) (rq "x.example.com" "/tea" []) == .redirect 302 "http".toList "x.example.com".toList 80

end NGF.Props.C14Pipeline
