/-
C13 — upstreams contain exactly the ready endpoints of the referenced Service port.

Property theorems about the model functions of `NGF.Model.Resolver` (the functions the driver runs and the
correspondence compares with the real code) and the judges of `NGF.Model.ResolverSpec` (the property as it
is evaluated on the real code's outputs).  Helper lemmas: `NGF.Proofs.Resolver`, `NGF.Proofs.ResolverPlus`.
Quantification: ALL lists of EndpointSlices, ServicePorts, allowed address types, and ALL sequences of
reload / endpoints-only steps under NGINX Plus.
-/
import NGF.Proofs.Resolver
import NGF.Proofs.ResolverPlus
import NGF.Generated.ResolverFacts
import NGF.Props.C13Handler
import NGF.Props.C13History
import NGF.Proofs.PipelineEndpoints

namespace NGF.Resolver

/-! ## 1. Resolution -/

/-- `findPort` returns the value of the first EndpointPort entry that has no number ("all ports": the
ServicePort's integer targetPort, else its port) or that carries the ServicePort's name; 0 when no entry does. -/
theorem findPort_spec (ports : List EndpointPort) (sp : SvcPort) :
    findPort ports sp = match ports.find? (hitsB sp) with
      | some p => hitValue sp p
      | none => 0 :=
  findPort_eq ports sp

/-- Under the Kubernetes rules for a slice derived from a Service (every entry has a number, names are
unique) `findPort` is simply "the number of the entry named like the ServicePort". -/
theorem findPort_named {ports : List EndpointPort} {sp : SvcPort} {n : Nat}
    (hnum : ∀ p ∈ ports, p.port ≠ none) (huniq : (ports.map (·.name)).Nodup)
    (hmem : ⟨some sp.name, some n⟩ ∈ ports) : findPort ports sp = n := by
  rw [findPort_eq]
  cases hf : ports.find? (hitsB sp) with
  | none =>
    have := List.find?_eq_none.mp hf _ hmem
    simp [hitsB] at this
  | some p =>
    have hp := List.mem_of_find?_eq_some hf
    have hh := List.find?_some hf
    have hname : p.name = some sp.name := by
      cases hpp : p.port with
      | none => exact absurd hpp (hnum p hp)
      | some _ => simpa [hitsB, hpp] using hh
    have : p = ⟨some sp.name, some n⟩ := by
      clear hf hh
      induction ports with
      | nil => simp at hp
      | cons x r ih =>
        simp only [List.map_cons, List.nodup_cons, List.mem_map, not_exists, not_and] at huniq
        rcases List.mem_cons.mp hp with rfl | hpr <;> rcases List.mem_cons.mp hmem with h | hmr
        · exact h.symm
        · exact absurd hname.symm (by simpa using fun e => huniq.1 _ hmr (by simp [e]))
        · subst h; exact absurd hname (by simpa using fun e => huniq.1 _ hpr e)
        · exact ih (fun q hq => hnum q (List.mem_cons_of_mem _ hq)) huniq.2 hmr hpr
    subst this
    rfl

theorem findPort_unnamed {ports : List EndpointPort} {sp : SvcPort}
    (hnum : ∀ p ∈ ports, p.port ≠ none) (hno : ∀ p ∈ ports, p.name ≠ some sp.name) :
    findPort ports sp = 0 := by
  rw [findPort_eq]
  cases hf : ports.find? (hitsB sp) with
  | none => rfl
  | some p =>
    have hp := List.mem_of_find?_eq_some hf
    have hh := List.find?_some hf
    cases hpp : p.port with
    | none => exact absurd hpp (hnum p hp)
    | some _ => simp [hitsB, hpp, hno p hp] at hh

/-- **resolve_eq_spec.** For every set of EndpointSlices, ServicePort and allowed address types the list
returned by `Resolve` is duplicate-free and contains exactly the endpoints of the declarative set `InSpec`:
ready addresses of the slices that carry the Service's label in its namespace, are not FQDN, have an allowed
address type and publish the referenced port — each with the port that slice publishes. -/
theorem resolve_eq_spec (all : List Slice) (ns name : String) (sp : SvcPort) (allowed : List AddrType)
    (hp : sp.port ≠ 0) (hname : name ≠ "") (hns : ns ≠ "") :
    (∀ e, e ∈ (resolve all ns name sp allowed).eps ↔ InSpec all ns name sp allowed e) ∧
    (resolve all ns name sp allowed).eps.Nodup :=
  ⟨mem_resolve_eps hp hname hns, nodup_resolve_eps all ns name sp allowed⟩

/-- The same for what `buildUpstreams` stores, for each IP-family setting. -/
theorem upstreamEndpoints_eq_spec (all : List Slice) (ns name : String) (sp : SvcPort) (fam : IPFamily)
    (hp : sp.port ≠ 0) (hname : name ≠ "") (hns : ns ≠ "") :
    (∀ e, e ∈ upstreamEndpoints all ns name sp fam ↔ InSpec all ns name sp (getAllowedAddressType fam) e) ∧
    (upstreamEndpoints all ns name sp fam).Nodup :=
  resolve_eq_spec all ns name sp _ hp hname hns

/-- no endpoint of the declarative set ⇔ the upstream gets no endpoints (errors included) -/
theorem resolve_empty_iff (all : List Slice) (ns name : String) (sp : SvcPort) (allowed : List AddrType)
    (hp : sp.port ≠ 0) (hname : name ≠ "") (hns : ns ≠ "") :
    (resolve all ns name sp allowed).eps = [] ↔ ∀ e, ¬ InSpec all ns name sp allowed e := by
  constructor
  · intro h e he
    have := (mem_resolve_eps hp hname hns e).mpr he
    simp [h] at this
  · intro h
    cases hl : (resolve all ns name sp allowed).eps with
    | nil => rfl
    | cons e t => exact absurd ((mem_resolve_eps hp hname hns e).mp (by simp [hl])) (h e)

/-- an unready, nil-ready or FQDN endpoint never reaches NGINX; IPv4 never passes an IPv6-only setting -/
theorem resolve_excludes (all : List Slice) (ns name : String) (sp : SvcPort) (allowed : List AddrType)
    (hp : sp.port ≠ 0) (hname : name ≠ "") (hns : ns ≠ "") (e : Ep)
    (he : e ∈ (resolve all ns name sp allowed).eps) :
    e.port ≠ 0 ∧ ∃ s ∈ all, s.addrType ∈ allowed ∧ s.addrType ≠ .fqdn ∧
      ∃ ep ∈ s.endpoints, ep.ready = some true ∧ e.address ∈ ep.addresses := by
  obtain ⟨s, hs, _, _, hf, ha, hpub, _, hep⟩ := (mem_resolve_eps hp hname hns e).mp he
  exact ⟨(publishedPort_some.mp hpub).2, s, hs, ha, hf, hep⟩

/-- **The judge run on the real outputs accepts everything the model computes** (for every admissible input),
so a `fail` of the judge on a real output is a divergence of the code from the proved model. -/
theorem judge_accepts_model (all : List Slice) (ns name : String) (sp : SvcPort) (allowed : List AddrType)
    (hadm : admissible all ns name sp allowed = true) :
    judgeResolve all ns name sp allowed (resolve all ns name sp allowed).eps = [] :=
  judgeResolve_model hadm

/-! non-vacuity: two slices with an overlapping address, an unready endpoint, a nil ready, an FQDN slice,
a slice of another service with a similar name, named and nil ports -/
def exSlices : List Slice :=
  [ ⟨"ns", some "svc", .ipv4, [⟨some "http", some 8080⟩, ⟨some "https", some 8443⟩],
      [⟨["10.0.0.1", "10.0.0.2"], some true⟩, ⟨["10.0.0.3"], some false⟩, ⟨["10.0.0.4"], none⟩]⟩,
    ⟨"ns", some "svc", .ipv4, [⟨some "http", some 8080⟩], [⟨["10.0.0.2", "10.0.0.5"], some true⟩]⟩,
    ⟨"ns", some "svc", .ipv6, [⟨some "http", none⟩], [⟨["fd00::1"], some true⟩]⟩,
    ⟨"ns", some "svc", .fqdn, [⟨some "http", some 8080⟩], [⟨["a.example.com"], some true⟩]⟩,
    ⟨"ns", some "svc-a", .ipv4, [⟨some "http", some 8080⟩], [⟨["10.9.9.9"], some true⟩]⟩,
    ⟨"ns2", some "svc", .ipv4, [⟨some "http", some 8080⟩], [⟨["10.8.8.8"], some true⟩]⟩ ]

example :
    resolve exSlices "ns" "svc" ⟨"http", 80, .int 3000⟩ [.ipv4, .ipv6] =
      .ok [⟨"10.0.0.1", 8080, false⟩, ⟨"10.0.0.2", 8080, false⟩, ⟨"10.0.0.5", 8080, false⟩,
           ⟨"fd00::1", 3000, true⟩] := by decide

example : admissible exSlices "ns" "svc" ⟨"http", 80, .int 3000⟩ [.ipv4, .ipv6] = true := by decide
example : resolve exSlices "ns" "svc" ⟨"grpc", 80, .int 3000⟩ [.ipv4] = .errNoValid := by decide
example : resolve exSlices "ns" "nope" ⟨"http", 80, .int 3000⟩ [.ipv4] = .errNoEndpoints := by decide

/-- the judge is not vacuous: it rejects an output that keeps an unready address, drops a ready one,
uses the Service port instead of the slice's port, or repeats an endpoint -/
example :
    judgeResolve exSlices "ns" "svc" ⟨"http", 80, .int 3000⟩ [.ipv4]
      [⟨"10.0.0.1", 8080, false⟩, ⟨"10.0.0.2", 8080, false⟩, ⟨"10.0.0.5", 8080, false⟩, ⟨"10.0.0.3", 8080, false⟩]
      = ["resolve_unsound"] ∧
    judgeResolve exSlices "ns" "svc" ⟨"http", 80, .int 3000⟩ [.ipv4]
      [⟨"10.0.0.1", 8080, false⟩, ⟨"10.0.0.2", 8080, false⟩] = ["resolve_incomplete"] ∧
    judgeResolve exSlices "ns" "svc" ⟨"http", 80, .int 3000⟩ [.ipv4]
      [⟨"10.0.0.1", 80, false⟩, ⟨"10.0.0.2", 80, false⟩, ⟨"10.0.0.5", 80, false⟩]
      = ["resolve_unsound", "resolve_incomplete"] ∧
    judgeResolve exSlices "ns" "svc" ⟨"http", 80, .int 3000⟩ [.ipv4]
      [⟨"10.0.0.1", 8080, false⟩, ⟨"10.0.0.2", 8080, false⟩, ⟨"10.0.0.5", 8080, false⟩, ⟨"10.0.0.2", 8080, false⟩]
      = ["resolve_duplicates"] := by decide

/-! ## 2. From endpoints to `server` lines -/

/-- **empty_gives_503** (NGINX OSS): an upstream without endpoints gets exactly the 503 placeholder server. -/
theorem empty_gives_503 (name : String) :
    configServers (createUpstream false ⟨name, []⟩) = [nginx503Server] := by
  simp [createUpstream, configServers]

/-- OSS: otherwise exactly one `server address:port` per endpoint (IPv6 in brackets), never the placeholder list. -/
theorem oss_servers (u : Up) :
    configServers (createUpstream false u) =
      if u.eps = [] then [nginx503Server] else u.eps.map serverAddress := by
  cases h : u.eps <;> simp [createUpstream, configServers, h]

/-- OSS: the judge of the property accepts the generated servers (for duplicate-free server strings). -/
theorem oss_judge_accepts (u : Up) (hnd : (u.eps.map serverAddress).Nodup) :
    judgeServers u.eps (configServers (createUpstream false u)) = [] := by
  rw [oss_servers]
  cases h : u.eps with
  | nil => simp [judgeServers]
  | cons e t =>
    have h1 : sameSet ((e :: t).map serverAddress) ((e :: t).map serverAddress) = true := by
      simp only [sameSet, Bool.and_self, List.all_eq_true, decide_eq_true_eq]
      exact fun x hx => hx
    have h2 : nodupB ((e :: t).map serverAddress) = true := nodupB_iff.mpr (h ▸ hnd)
    simp only [judgeServers, List.isEmpty_cons, Bool.false_eq_true, if_false, reduceCtorEq]
    rw [h1, h2]; rfl

/-- NGINX Plus: the generated upstream has a state file and NO `server` line — not even the placeholder. -/
theorem plus_config_has_no_servers (u : Up) : configServers (createUpstream true u) = [] := by
  simp [createUpstream, configServers]

/-- stream upstreams exist only for upstreams with endpoints (both OSS and Plus) -/
theorem stream_upstreams_nonempty (plus : Bool) (ups : List Up) (n : NgxUpstream)
    (h : n ∈ createStreamUpstreams plus ups) : ∃ u ∈ ups, u.eps ≠ [] ∧ n.name = u.name := by
  simp only [createStreamUpstreams, List.mem_map, List.mem_filter] at h
  obtain ⟨u, ⟨hu, he⟩, rfl⟩ := h
  refine ⟨u, hu, ?_, rfl⟩
  intro h0; simp [h0] at he

/-- **End to end, NGINX OSS**: for every set of slices, ServicePort and IP-family setting, the `server` lines of
the upstream are exactly the addresses of the declarative set — or exactly the 503 placeholder when it is empty. -/
theorem oss_upstream_eq_spec (all : List Slice) (ns name : String) (sp : SvcPort) (fam : IPFamily) (uname : String)
    (hp : sp.port ≠ 0) (hname : name ≠ "") (hns : ns ≠ "") :
    let servers := configServers (createUpstream false ⟨uname, upstreamEndpoints all ns name sp fam⟩)
    ((∀ e, ¬ InSpec all ns name sp (getAllowedAddressType fam) e) → servers = [nginx503Server]) ∧
    ((∃ e, InSpec all ns name sp (getAllowedAddressType fam) e) →
      ∀ x, x ∈ servers ↔ ∃ e, InSpec all ns name sp (getAllowedAddressType fam) e ∧ x = serverAddress e) := by
  intro servers
  have hs : servers = if upstreamEndpoints all ns name sp fam = [] then [nginx503Server]
      else (upstreamEndpoints all ns name sp fam).map serverAddress := oss_servers _
  have hmem := (upstreamEndpoints_eq_spec all ns name sp fam hp hname hns).1
  constructor
  · intro hno
    have : upstreamEndpoints all ns name sp fam = [] :=
      (resolve_empty_iff all ns name sp _ hp hname hns).mpr hno
    rw [hs, this]; rfl
  · rintro ⟨e0, he0⟩ x
    have hne : upstreamEndpoints all ns name sp fam ≠ [] := by
      intro h; have := (hmem e0).mpr he0; simp [h] at this
    rw [hs, if_neg hne, List.mem_map]
    constructor
    · rintro ⟨e, he, rfl⟩; exact ⟨e, (hmem e).mp he, rfl⟩
    · rintro ⟨e, he, rfl⟩; exact ⟨e, (hmem e).mpr he, rfl⟩

/-- `ConvertEndpoints` (API) and `createUpstream` (file) write the same server string for every endpoint the
resolver can return (its ports are never 0, `resolve_excludes`). -/
theorem convertEndpoint_eq_serverAddress (e : Ep) (h : e.port ≠ 0) : convertEndpoint e = serverAddress e := by
  unfold convertEndpoint serverAddress
  simp only [h, ne_eq, not_false_eq_true, if_true]
  cases e.ipv6
  · simp [String.append_assoc]
  · simp only [if_true, String.append_assoc]
    congr 2

/-! ## 3. NGINX Plus: `serversEqual` -/

/-- **serversEqual_iff_seteq**: on duplicate-free lists `serversEqual` decides equality of the server sets. -/
theorem serversEqual_iff_seteq (new old : List String) (hnew : new.Nodup) (hold : old.Nodup) :
    serversEqual new old = true ↔ SetEq new old :=
  ⟨setEq_of_serversEqual hold, serversEqual_of_setEq hnew hold⟩

/-- what the handler needs (NGINX's own list is duplicate-free): "equal" ⇒ nothing to update -/
theorem serversEqual_sound (new old : List String) (hold : old.Nodup) (h : serversEqual new old = true) :
    SetEq new old :=
  setEq_of_serversEqual hold h

/-- the unconditional statement is false in both directions -/
theorem serversEqual_not_iff_seteq_unconditionally :
    (serversEqual ["a", "b", "c"] ["a", "a", "b"] = true ∧ ¬ SetEq ["a", "b", "c"] ["a", "a", "b"]) ∧
    (serversEqual ["a", "a"] ["a"] = false ∧ SetEq ["a", "a"] ["a"]) := by
  refine ⟨⟨by decide, ?_⟩, by decide, ?_⟩
  · intro h; have := (h "c").mp (by simp); simp at this
  · intro x; simp

example : serversEqual ["10.0.0.1:80", "10.0.0.2:80"] ["10.0.0.2:80", "10.0.0.1:80"] = true := by decide
example : serversEqual ["10.0.0.1:80", "10.0.0.3:80"] ["10.0.0.2:80", "10.0.0.1:80"] = false := by decide

/-! ## 4. NGINX Plus: sequences of configurations -/

/-- **plus_update_converges.** For ALL sequences of earlier steps and every configuration applied through the
API (`updateUpstreamServers`): each upstream of that configuration that exists in NGINX holds exactly the
endpoints of that (the last) configuration — http and stream. -/
theorem plus_update_converges (a0 : Api) (h0 : a0.Inv) (ops : List Op) (hops : ∀ o ∈ ops, o.conf.WF)
    (c : Conf) (hc : c.WF) :
    (∀ u ∈ c.http, u.name ∈ (run a0 ops).http.keys →
      SetEq ((run a0 (ops ++ [.endpoints c])).http.servers u.name) (convertEndpoints u.eps)) ∧
    (∀ u ∈ c.stream, u.name ∈ (run a0 ops).stream.keys →
      SetEq ((run a0 (ops ++ [.endpoints c])).stream.servers u.name) (convertEndpoints u.eps)) := by
  have hinv := inv_run ops a0 h0 hops
  rw [run_append]
  exact ⟨fun u hu hk => endpoints_step_http hc hinv hu hk, fun u hu hk => endpoints_step_stream hc hinv hu hk⟩

/-- what a reload-path application (`updateNginxConf`: files, reload, API update) leaves, whatever NGINX held -/
theorem reload_path_result (a : Api) (ha : a.Inv) (c : Conf) (hc : c.WF) :
    (∀ u ∈ c.http, SetEq ((step a (.reload c)).http.servers u.name) (convertEndpoints u.eps)) ∧
    (∀ u ∈ c.stream, SetEq ((step a (.reload c)).stream.servers u.name) (convertEndpoints u.eps)) :=
  ⟨fun _ hu => reload_step_http hc ha hu, fun _ hu => reload_step_stream hc ha hu⟩

/-- **End to end, NGINX Plus** (both paths): after the configuration built from ANY set of slices has been
applied — by a reload from any state, or through the API on top of any history in which the upstream exists —
the servers NGINX holds for the upstream are exactly the addresses of the declarative set. -/
theorem plus_upstream_eq_spec (all : List Slice) (ns name : String) (sp : SvcPort) (fam : IPFamily) (uname : String)
    (hp : sp.port ≠ 0) (hname : name ≠ "") (hns : ns ≠ "")
    (a : Api) (ha : a.Inv) (c : Conf) (hc : c.WF)
    (hu : (⟨uname, upstreamEndpoints all ns name sp fam⟩ : Up) ∈ c.http) :
    (∀ x, x ∈ (step a (.reload c)).http.servers uname ↔
      ∃ e, InSpec all ns name sp (getAllowedAddressType fam) e ∧ x = convertEndpoint e) ∧
    (uname ∈ a.http.keys → ∀ x, x ∈ (step a (.endpoints c)).http.servers uname ↔
      ∃ e, InSpec all ns name sp (getAllowedAddressType fam) e ∧ x = convertEndpoint e) := by
  have hmem := (upstreamEndpoints_eq_spec all ns name sp fam hp hname hns).1
  have key : ∀ x, x ∈ convertEndpoints (upstreamEndpoints all ns name sp fam) ↔
      ∃ e, InSpec all ns name sp (getAllowedAddressType fam) e ∧ x = convertEndpoint e := by
    intro x
    simp only [convertEndpoints, List.mem_map]
    constructor
    · rintro ⟨e, he, rfl⟩; exact ⟨e, (hmem e).mp he, rfl⟩
    · rintro ⟨e, he, rfl⟩; exact ⟨e, (hmem e).mpr he, rfl⟩
  constructor
  · intro x; exact ((reload_step_http hc ha hu) x).trans (key x)
  · intro hk x; exact ((endpoints_step_http hc ha hu hk) x).trans (key x)

/-- An endpoints-only change keeps the upstream names NGINX was last reloaded with. -/
def SameNames (c c' : Conf) : Prop :=
  c'.http.map (·.name) = c.http.map (·.name) ∧ c'.stream.map (·.name) = c.stream.map (·.name)

/-- **plus_equals_reload (http, full strength).** After a reload with `cR` and ANY sequence of endpoints-only
changes `es`, applying the endpoints-only change `c` through the API leaves every http upstream with the same
server set as reloading with `c` would. -/
theorem plus_equals_reload_http (a0 : Api) (h0 : a0.Inv) (cR : Conf) (hR : cR.WF)
    (es : List Conf) (hes : ∀ e ∈ es, e.WF) (c : Conf) (hc : c.WF) (hsame : SameNames cR c) :
    let before := run a0 (.reload cR :: es.map .endpoints)
    ∀ u ∈ c.http,
      SetEq ((step before (.endpoints c)).http.servers u.name) ((step before (.reload c)).http.servers u.name) := by
  intro before u hu
  have hinv1 : (step a0 (.reload cR)).Inv := inv_step h0 (.reload cR) hR
  have hinv : before.Inv := by
    show (run (step a0 (.reload cR)) (es.map .endpoints)).Inv
    exact inv_run _ _ hinv1 (by
      intro o ho
      obtain ⟨e, he, rfl⟩ := List.mem_map.mp ho
      exact hes e he)
  have hk : u.name ∈ before.http.keys := by
    show u.name ∈ (run (step a0 (.reload cR)) (es.map .endpoints)).http.keys
    rw [(keys_run_endpoints es _).1, (keys_reload_step cR a0).1, mem_dedup, ← hsame.1]
    exact List.mem_map.mpr ⟨u, hu, rfl⟩
  exact (endpoints_step_http hc hinv hu hk).trans (reload_step_http hc hinv hu).symm

/-- **plus_equals_reload (stream) — partial**: holds for the stream upstreams that exist in NGINX, i.e. those
that had endpoints at the last reload (`hpresent`). -/
theorem plus_equals_reload_stream_partial (a0 : Api) (h0 : a0.Inv) (cR : Conf) (hR : cR.WF)
    (es : List Conf) (hes : ∀ e ∈ es, e.WF) (c : Conf) (hc : c.WF) :
    let before := run a0 (.reload cR :: es.map .endpoints)
    ∀ u ∈ c.stream, (∃ uR ∈ cR.stream, uR.name = u.name ∧ uR.eps ≠ []) →
      SetEq ((step before (.endpoints c)).stream.servers u.name)
            ((step before (.reload c)).stream.servers u.name) := by
  intro before u hu hpresent
  have hinv1 : (step a0 (.reload cR)).Inv := inv_step h0 (.reload cR) hR
  have hinv : before.Inv := by
    show (run (step a0 (.reload cR)) (es.map .endpoints)).Inv
    exact inv_run _ _ hinv1 (by
      intro o ho
      obtain ⟨e, he, rfl⟩ := List.mem_map.mp ho
      exact hes e he)
  have hk : u.name ∈ before.stream.keys := by
    show u.name ∈ (run (step a0 (.reload cR)) (es.map .endpoints)).stream.keys
    rw [(keys_run_endpoints es _).2, (keys_reload_step cR a0).2, mem_dedup]
    obtain ⟨uR, huR, hn, hne⟩ := hpresent
    refine List.mem_map.mpr ⟨uR, List.mem_filter.mpr ⟨huR, ?_⟩, hn⟩
    cases h : uR.eps with
    | nil => exact absurd h hne
    | cons _ _ => simp
  exact (endpoints_step_stream hc hinv hu hk).trans (reload_step_stream hc hinv hu).symm

/-- **The full-strength stream statement is FALSE for the current code** (known finding
`C13:plus_stream_upstream_absent`): a TLS backend without endpoints at the reload, then endpoints appear. -/
theorem plus_equals_reload_stream_false :
    let cR : Conf := ⟨[], [⟨"ns_svc_443", []⟩]⟩
    let c : Conf := ⟨[], [⟨"ns_svc_443", [⟨"10.0.1.1", 80, false⟩]⟩]⟩
    let before := run ⟨[], []⟩ [.reload cR]
    cR.WF ∧ c.WF ∧ SameNames cR c ∧
    (step before (.endpoints c)).stream.servers "ns_svc_443" = [] ∧
    (step before (.reload c)).stream.servers "ns_svc_443" = ["10.0.1.1:80"] := by
  refine ⟨⟨by decide, by decide⟩, ⟨by decide, by decide⟩, ⟨rfl, rfl⟩, by decide, by decide⟩

/-- **Repaired variant** (candidate repair of `C13:plus_stream_upstream_absent`, see notes/C13.md): if the
endpoints-only path reloads whenever a stream upstream with endpoints is unknown to NGINX, the stream clause holds
at full strength — for every state and every configuration, no side condition. -/
theorem plus_equals_reload_stream_repaired (a : Api) (ha : a.Inv) (c : Conf) (hc : c.WF) :
    ∀ u ∈ c.stream,
      SetEq ((stepB a (.endpoints c)).stream.servers u.name) ((step a (.reload c)).stream.servers u.name) :=
  fun _ hu => stepB_stream_eq_reload hc ha hu

/-- **"answers 503" is FALSE under NGINX Plus for the current code** (known finding `C13:plus_empty_no_503`):
for every http upstream without endpoints the reload path leaves NGINX with an EMPTY server set — the
placeholder is neither in the file (state file) nor pushed through the API. -/
theorem plus_empty_upstream_has_no_servers (a : Api) (ha : a.Inv) (c : Conf) (hc : c.WF)
    (u : Up) (hu : u ∈ c.http) (he : u.eps = []) :
    (step a (.reload c)).http.servers u.name = [] ∧
    configServers (createUpstream true u) = [] ∧
    judgeServers u.eps ((step a (.reload c)).http.servers u.name) = ["empty_no_503"] := by
  have h := reload_step_http hc ha hu
  rw [he] at h
  have h0 : (step a (.reload c)).http.servers u.name = [] := setEq_nil h
  refine ⟨h0, plus_config_has_no_servers u, ?_⟩
  rw [h0, he]; decide

/-- **Repaired variant** (candidate repair of `C13:plus_empty_no_503`, see notes/C13.md): sending the placeholder
through the API gives "503 rather than old servers" under Plus on both paths, and changes nothing else. -/
theorem plus_empty_gives_503_repaired (a : Api) (c : Conf) (hc : c.WF) (u : Up) (hu : u ∈ c.http) :
    (u.eps = [] → (stepFixed a (.reload c)).http.servers u.name = [nginx503Server] ∧
      (u.name ∈ a.http.keys → (stepFixed a (.endpoints c)).http.servers u.name = [nginx503Server]) ∧
      judgeServers u.eps [nginx503Server] = []) ∧
    (u.eps ≠ [] → (stepFixed a (.endpoints c)).http.get u.name = (step a (.endpoints c)).http.get u.name ∧
      (stepFixed a (.reload c)).http.get u.name = (step a (.reload c)).http.get u.name) := by
  constructor
  · intro he
    refine ⟨?_, fun hk => fixed_empty_gives_503 hc hu he hk, by rw [he]; decide⟩
    apply fixed_empty_gives_503 hc hu he
    show u.name ∈ (reloadTable _ _).keys
    rw [keys_reloadTable, mem_dedup]; exact List.mem_map.mpr ⟨u, hu, rfl⟩
  · intro he
    exact ⟨(fixed_nonempty_unchanged hc hu he).1, (fixed_nonempty_unchanged hc hu he).1⟩

/-- … while the server sets of upstreams WITH endpoints are right on both paths (the part of the Plus
clause that does hold): the judge accepts them. -/
theorem plus_nonempty_judge_accepts (a : Api) (ha : a.Inv) (c : Conf) (hc : c.WF) (u : Up) (hu : u ∈ c.http) :
    sameSet (convertEndpoints u.eps) ((step a (.reload c)).http.servers u.name) = true := by
  have h := reload_step_http hc ha hu
  simp only [sameSet, Bool.and_eq_true, List.all_eq_true, decide_eq_true_eq]
  exact ⟨fun x hx => (h x).mpr hx, fun x hx => (h x).mp hx⟩

/-! non-vacuity of the Plus theorems: a non-trivial history -/
example :
    let c1 : Conf := ⟨[⟨"u", [⟨"10.0.0.1", 80, false⟩, ⟨"10.0.0.2", 80, false⟩]⟩], [⟨"s", [⟨"fd00::1", 443, true⟩]⟩]⟩
    let c2 : Conf := ⟨[⟨"u", [⟨"10.0.0.1", 80, false⟩, ⟨"10.0.0.3", 80, false⟩]⟩], [⟨"s", []⟩]⟩
    let a := run ⟨[], []⟩ [.reload c1, .endpoints c2]
    c1.WF ∧ c2.WF ∧ a.http = [("u", ["10.0.0.1:80", "10.0.0.3:80"])] ∧ a.stream = [("s", [])] := by
  refine ⟨⟨by decide, by decide⟩, ⟨by decide, by decide⟩, by decide, by decide⟩

example : Api.Inv ⟨[], []⟩ := ⟨fun _ _ h => by simp [Table.get] at h, fun _ _ h => by simp [Table.get] at h⟩

/-! ## 5. Tie to the source: facts regenerated by the translator on every run -/

/-- constants the model hard-codes are the constants of the source -/
theorem constants_as_modelled :
    Generated.Resolver.nginx503Server = nginx503Server ∧
    Generated.Resolver.stateDir = stateDir ∧
    Generated.Resolver.ossZoneSize = ossZoneSize ∧ Generated.Resolver.plusZoneSize = plusZoneSize ∧
    Generated.Resolver.ossZoneSizeStream = ossZoneSizeStream ∧
    Generated.Resolver.plusZoneSizeStream = plusZoneSizeStream ∧
    Generated.Resolver.serviceNameLabel = "kubernetes.io/service-name" ∧
    Generated.Resolver.serviceNameIndexField = "k8sServiceName" ∧
    Generated.Resolver.invalidBackendRef = "invalid-backend-ref" := by decide

/-- the statements of the resolver functions are the ones the model transcribes -/
theorem resolver_source_as_modelled :
    Generated.Resolver.endpointReadyBody =
      ["ready := endpoint.Conditions.Ready", "return ready != nil && *ready"] ∧
    Generated.Resolver.findPortBody =
      ["portName := svcPort.Name",
       "for _, p := range ports { if p.Port == nil { return getDefaultPort(svcPort) } if p.Name != nil && *p.Name == portName { return *p.Port } }",
       "return 0"] ∧
    Generated.Resolver.getDefaultPortBody =
      ["if svcPort.TargetPort.Type == intstr.Int && svcPort.TargetPort.IntVal != 0 { return svcPort.TargetPort.IntVal }",
       "return svcPort.Port"] ∧
    Generated.Resolver.ignoreEndpointSliceBody =
      ["if endpointSlice.AddressType == discoveryV1.AddressTypeFQDN { return true }",
       "if !slices.Contains(allowedAddressType, endpointSlice.AddressType) { return true }",
       "return findPort(endpointSlice.Ports, port) == 0"] ∧
    Generated.Resolver.filterEndpointSliceListBody =
      ["filtered := make([]discoveryV1.EndpointSlice, 0, len(endpointSliceList.Items))",
       "for _, endpointSlice := range endpointSliceList.Items { if !ignoreEndpointSlice(endpointSlice, port, allowedAddressType) { filtered = append(filtered, endpointSlice) } }",
       "return filtered"] ∧
    Generated.Resolver.resolveIfConds =
      ["svcPort.Port == 0 || svcNsName.Name == \"\" || svcNsName.Namespace == \"\"",
       "err != nil || len(endpointSliceList.Items) == 0"] ∧
    Generated.Resolver.resolveListArgs =
      ["ctx", "&endpointSliceList",
       "client.MatchingFields{index.KubernetesServiceNameIndexField: svcNsName.Name}",
       "client.InNamespace(svcNsName.Namespace)"] ∧
    Generated.Resolver.serviceNameIndexFuncBody =
      ["slice, ok := obj.(*discoveryV1.EndpointSlice)",
       "if !ok { panic(fmt.Sprintf(\"expected an EndpointSlice; got %T\", obj)) }",
       "name := GetServiceNameFromEndpointSlice(slice)",
       "if name == \"\" { return nil }",
       "return []string{name}"] ∧
    Generated.Resolver.getServiceNameBody =
      ["if slice.Labels == nil { return \"\" }", "return slice.Labels[KubernetesServiceNameLabel]"] ∧
    Generated.Resolver.resolveCalls =
      ["buildUpstreams: svcResolver.Resolve(ctx, br.SvcNsName, br.ServicePort, allowedAddressType)",
       "buildStreamUpstreams: serviceResolver.Resolve(ctx, br.SvcNsName, br.ServicePort, allowedAddressType)"] ∧
    Generated.Resolver.getAllowedAddressTypeBody =
      ["switch ipFamily { case IPv4: return []discoveryV1.AddressType{discoveryV1.AddressTypeIPv4} case IPv6: return []discoveryV1.AddressType{discoveryV1.AddressTypeIPv6} case Dual: return []discoveryV1.AddressType{discoveryV1.AddressTypeIPv4, discoveryV1.AddressTypeIPv6} default: return []discoveryV1.AddressType{} }"] := by
  exact ⟨rfl, rfl, rfl, rfl, rfl, rfl, rfl, rfl, rfl, rfl, rfl⟩

/-- `resolveEndpoints`: filter, then for every kept slice / ready endpoint / address insert into a set -/
theorem resolveEndpoints_source_as_modelled :
    Generated.Resolver.resolveEndpointsBody =
      ["filteredSlices := filterEndpointSliceList(endpointSliceList, svcPort, allowedAddressType)",
       "if len(filteredSlices) == 0 { return nil, fmt.Errorf(\"no valid endpoints found for Service %s and port %d\", svcNsName, svcPort.Port) }",
       "endpointSet := initEndpointsSet(filteredSlices)",
       "for _, eps := range filteredSlices { ipv6 := eps.AddressType == discoveryV1.AddressTypeIPv6 for _, endpoint := range eps.Endpoints { if !endpointReady(endpoint) { continue } endpointPort := findPort(eps.Ports, svcPort) for _, address := range endpoint.Addresses { ep := Endpoint{Address: address, Port: endpointPort, IPv6: ipv6} endpointSet[ep] = struct{}{} } } }",
       "endpoints := make([]Endpoint, 0, len(endpointSet))",
       "for ep := range endpointSet { endpoints = append(endpoints, ep) }",
       "return endpoints, nil"] := by
  exact rfl

/-- upstream generation and the template alternative `state` / `server` -/
theorem upstreams_source_as_modelled :
    Generated.Resolver.createStreamUpstreamsBody =
      ["ups := make([]stream.Upstream, 0, len(upstreams))",
       "for _, u := range upstreams { if len(u.Endpoints) != 0 { ups = append(ups, g.createStreamUpstream(u)) } }",
       "return ups"] ∧
    Generated.Resolver.createUpstreamBody.drop 2 =
      ["zoneSize := ossZoneSize",
       "if g.plus { zoneSize = plusZoneSize stateFile = fmt.Sprintf(\"%s/%s.conf\", stateDir, up.Name) }",
       "if upstreamPolicySettings.ZoneSize != \"\" { zoneSize = upstreamPolicySettings.ZoneSize }",
       "if len(up.Endpoints) == 0 { return http.Upstream{ Name: up.Name, ZoneSize: zoneSize, StateFile: stateFile, Servers: []http.UpstreamServer{ { Address: nginx503Server, }, }, } }",
       "upstreamServers := make([]http.UpstreamServer, len(up.Endpoints))",
       "for idx, ep := range up.Endpoints { format := \"%s:%d\" if ep.IPv6 { format = \"[%s]:%d\" } upstreamServers[idx] = http.UpstreamServer{ Address: fmt.Sprintf(format, ep.Address, ep.Port), } }",
       "return http.Upstream{ Name: up.Name, ZoneSize: zoneSize, StateFile: stateFile, Servers: upstreamServers, KeepAlive: upstreamPolicySettings.KeepAlive, }"] ∧
    Generated.Resolver.createStreamUpstreamBody =
      ["var stateFile string",
       "zoneSize := ossZoneSizeStream",
       "if g.plus { zoneSize = plusZoneSizeStream stateFile = fmt.Sprintf(\"%s/%s.conf\", stateDir, up.Name) }",
       "upstreamServers := make([]stream.UpstreamServer, len(up.Endpoints))",
       "for idx, ep := range up.Endpoints { format := \"%s:%d\" if ep.IPv6 { format = \"[%s]:%d\" } upstreamServers[idx] = stream.UpstreamServer{ Address: fmt.Sprintf(format, ep.Address, ep.Port), } }",
       "return stream.Upstream{ Name: up.Name, ZoneSize: zoneSize, StateFile: stateFile, Servers: upstreamServers, }"] ∧
    Generated.Resolver.upstreamsTemplateText =
      "\n{{ range $u := . }}\nupstream {{ $u.Name }} {\n    random two least_conn;\n    {{ if $u.ZoneSize -}}\n    zone {{ $u.Name }} {{ $u.ZoneSize }};\n    {{ end -}}\n\n    {{- if $u.StateFile }}\n    state {{ $u.StateFile }};\n    {{- else }}\n        {{ range $server := $u.Servers }}\n    server {{ $server.Address }};\n        {{- end }}\n    {{- end }}\n    {{ if $u.KeepAlive.Connections -}}\n    keepalive {{ $u.KeepAlive.Connections }};\n    {{- end }}\n    {{ if $u.KeepAlive.Requests -}}\n    keepalive_requests {{ $u.KeepAlive.Requests }};\n    {{- end }}\n    {{ if $u.KeepAlive.Time -}}\n    keepalive_time {{ $u.KeepAlive.Time }};\n    {{- end }}\n    {{ if $u.KeepAlive.Timeout -}}\n    keepalive_timeout {{ $u.KeepAlive.Timeout }};\n    {{- end }}\n}\n{{ end -}}\n" ∧
    Generated.Resolver.streamUpstreamsTemplateText =
      "\n{{ range $u := . }}\nupstream {{ $u.Name }} {\n    random two least_conn;\n    {{ if $u.ZoneSize -}}\n    zone {{ $u.Name }} {{ $u.ZoneSize }};\n    {{- end }}\n    {{- if $u.StateFile }}\n    state {{ $u.StateFile }};\n    {{- else }}\n        {{ range $server := $u.Servers }}\n    server {{ $server.Address }};\n        {{- end }}\n    {{- end }}\n}\n{{ end -}}\n" := by
  exact ⟨rfl, rfl, rfl, rfl, rfl⟩

/-- the handler: conversion, comparison, the two update loops, the reload path and the endpoints-only arm -/
theorem handler_source_as_modelled :
    Generated.Resolver.getPortAndIPFormatBody =
      ["var port string", "if ep.Port != 0 { port = fmt.Sprintf(\":%d\", ep.Port) }", "format := \"%s%s\"",
       "if ep.IPv6 { format = \"[%s]%s\" }", "return port, format"] ∧
    Generated.Resolver.serversEqualBody.head? = some "if len(newServers) != len(oldServers) { return false }" ∧
    Generated.Resolver.serversEqualBody.drop 2 =
      ["diff := make(map[string]struct{}, len(newServers))",
       "for _, s := range newServers { diff[getServerVal(s)] = struct{}{} }",
       "for _, s := range oldServers { if _, ok := diff[getServerVal(s)]; !ok { return false } }",
       "return true"] ∧
    Generated.Resolver.updateUpstreamServersBody =
      ["if !h.cfg.plus { return nil }",
       "prevUpstreams, prevStreamUpstreams, err := h.cfg.nginxRuntimeMgr.GetUpstreams()",
       "if err != nil { return fmt.Errorf(\"failed to get upstreams from API: %w\", err) }",
       "type upstream struct { name string servers []ngxclient.UpstreamServer }",
       "var upstreams []upstream",
       "for _, u := range conf.Upstreams { confUpstream := upstream{ name: u.Name, servers: ngxConfig.ConvertEndpoints(u.Endpoints), } if u, ok := prevUpstreams[confUpstream.name]; ok { if !serversEqual(confUpstream.servers, u.Peers) { upstreams = append(upstreams, confUpstream) } } }",
       "type streamUpstream struct { name string servers []ngxclient.StreamUpstreamServer }",
       "var streamUpstreams []streamUpstream",
       "for _, u := range conf.StreamUpstreams { confUpstream := streamUpstream{ name: u.Name, servers: ngxConfig.ConvertStreamEndpoints(u.Endpoints), } if u, ok := prevStreamUpstreams[confUpstream.name]; ok { if !serversEqual(confUpstream.servers, u.Peers) { streamUpstreams = append(streamUpstreams, confUpstream) } } }",
       "var updateErr error",
       "for _, upstream := range upstreams { if err := h.cfg.nginxRuntimeMgr.UpdateHTTPServers(upstream.name, upstream.servers); err != nil { updateErr = errors.Join(updateErr, fmt.Errorf( \"couldn't update upstream %q via the API: %w\", upstream.name, err)) } }",
       "for _, upstream := range streamUpstreams { if err := h.cfg.nginxRuntimeMgr.UpdateStreamServers(upstream.name, upstream.servers); err != nil { updateErr = errors.Join(updateErr, fmt.Errorf( \"couldn't update stream upstream %q via the API: %w\", upstream.name, err)) } }",
       "return updateErr"] ∧
    Generated.Resolver.updateNginxConfBody =
      ["files := h.cfg.generator.Generate(conf)",
       "if err := h.cfg.nginxFileMgr.ReplaceFiles(files); err != nil { return fmt.Errorf(\"failed to replace NGINX configuration files: %w\", err) }",
       "if err := h.cfg.nginxRuntimeMgr.Reload(ctx, conf.Version); err != nil { return fmt.Errorf(\"failed to reload NGINX: %w\", err) }",
       "if err := h.updateUpstreamServers(conf); err != nil { return fmt.Errorf(\"failed to update upstream servers: %w\", err) }",
       "return nil"] ∧
    Generated.Resolver.endpointsOnlyArm.getLast? =
      some "if h.cfg.plus && h.latestReloadResult.Error == nil { err = h.updateUpstreamServers(cfg) } else { err = h.updateNginxConf(ctx, cfg) }" ∧
    Generated.Resolver.endpointsOnlyArm.take 2 =
      ["h.version++", "cfg := dataplane.BuildConfiguration(ctx, gr, h.cfg.serviceResolver, h.version)"] := by
  exact ⟨rfl, rfl, rfl, rfl, rfl, rfl, rfl⟩

/-! ## 6. Under faults (model and theorems: `Props/C13Handler.lean`): the judge accepts what a quiet batch leaves -/

/-- OSS: after ANY history, on a batch the handler records no error for, the judge of the property (`judgeServers`,
run by the driver on the REAL views of the `faults` stream) accepts what NGINX holds for every http upstream of the
batch's configuration — so a `fail` of that judge on a real quiet batch is a divergence from the proved behaviour. -/
theorem quiet_batch_judge_accepts_oss (s0 : HState) (pre : List HOp) (o : HOp) (hc : o.conf.WF)
    (hq : quiet (stepH false (runH false s0 pre) o) = true) (u : Up) (hu : u ∈ o.conf.http)
    (hnd : (u.eps.map serverAddress).Nodup) :
    judgeServers u.eps ((stepH false (runH false s0 pre) o).1.ngx.api.http.servers u.name) = [] := by
  have hspec := oss_batch_spec (runH false s0 pre) o
  by_cases hn : o.faults.noReload = true
  · rw [hspec] at hq; simp [hn, quiet] at hq
  · rw [hspec]
    simp only [hn, Bool.false_eq_true, if_false]
    rw [loadOss_http hc hu]
    have : heldHttpExpected false u = configServers (createUpstream false u) := by
      simp [configServers, createUpstream, heldHttpExpected]
    rw [this]
    exact oss_judge_accepts u hnd

example :
    let c : Conf := ⟨[⟨"ns_svc_80", [⟨"10.0.0.2", 8080, false⟩]⟩], []⟩
    let r := stepH false (runH false HState.init [⟨.cluster, c, ⟨false, true, false, [], []⟩⟩]) ⟨.endpoints, c, Faults.none⟩
    quiet r = true ∧ c.WF ∧ r.1.ngx.api.http.servers "ns_svc_80" = ["10.0.0.2:8080"] := by
  refine ⟨by decide, ⟨by decide, by decide⟩, by decide⟩

end NGF.Resolver

/-! ## 7. EndpointSlices INSIDE the pipeline model (`Model/PipelineEndpoints.lean`)

`ScenarioE` = the cluster of `PipelineRefs.ScenarioR` (C06: Gateways, HTTPRoutes with backendRefs as written, Services,
ReferenceGrants) + the Services' port entries + the EndpointSlices. `genR c.base = Pipeline.gen (resolve c.base)` is the
abstract server/location part of http.conf (C02/C06), `upstreamsOf c` the `Configuration.Upstreams` that `buildUpstreams`
builds from the SAME cluster with the resolver of §1, `httpUpstreams c` its `upstream` blocks. All statements are for ALL
clusters `c`. Helper lemmas: `NGF.Proofs.PipelineEndpoints`. -/

namespace NGF.PipelineEndpoints
open NGF.Pipeline NGF.PipelineRefs
open NGF.RefGrant (BackendRef GBackendRef Grant)
open NGF.Resolver (Slice SvcPort Up NgxUpstream InSpec)

/-- **proxied_upstream_is_defined.** Every upstream name that a location of `gen (resolve c)` proxies to — directly or
with any split_clients share — other than `invalid-backend-ref` is the name of EXACTLY ONE element of `upstreamsOf c`
(so NGINX never sees a `proxy_pass` to an undefined upstream, nor a duplicate `upstream` block). -/
theorem proxied_upstream_is_defined (c : ScenarioE) (t : Str) (share : Nat)
    (ht : (t, share) ∈ confTargets (genR c.base)) (hne : t ≠ invalidBackendRef) :
    ∃ u ∈ upstreamsOf c, u.name.toList = t ∧ ∀ u' ∈ upstreamsOf c, u'.name.toList = t → u' = u := by
  obtain ⟨b, hb, hbt⟩ := target_has_backend ht hne
  obtain ⟨u, hu, hn⟩ := List.mem_map.mp (name_mem_upstreamsOf hb)
  refine ⟨u, hu, by rw [hn]; exact hbt, ?_⟩
  intro u' hu' hn'
  apply unique_by_name (nodup_upstreamsOf c) hu' hu
  apply String.toList_inj.1
  rw [hn', hn]; exact hbt.symm

/-- the names of `upstreamsOf c` are pairwise different, and none is `invalid-backend-ref`: together with the appended
`invalid-backend-ref` block, `httpUpstreams c` defines every name once -/
theorem upstream_blocks_distinct (c : ScenarioE) :
    ((httpUpstreams c).map (·.name)).Nodup := by
  have hmap : (httpUpstreams c).map (·.name) = (upstreamsOf c).map (·.name) ++ ["invalid-backend-ref"] := by
    simp [httpUpstreams, invalidBackendRefUpstream, Resolver.createUpstream, List.map_map, Function.comp_def]
  rw [hmap]
  refine List.nodup_append.mpr ⟨nodup_upstreamsOf c, by simp, ?_⟩
  intro a ha b hb' hab
  simp only [List.mem_singleton] at hb'
  subst hb'
  obtain ⟨u, hu, hn⟩ := List.mem_map.mp ha
  obtain ⟨b, hb, rfl⟩ := mem_upstreamsOf hu
  have hv := (backends_provenance hb).1
  have h1 : (RefGrant.servicePortReference b).toList = upstreamOf b.svcNs b.svcName b.port :=
    servicePortReference_valid hv
  have : upstreamOf b.svcNs b.svcName b.port = invalidBackendRef := by
    rw [← h1]; show (toUp c b).name.toList = _; rw [hn, hab]; rfl
  exact upstreamOf_ne_invalid _ _ _ this

theorem servicePort_port (c : ScenarioE) (ns name : String) (port : Nat) : (servicePort c ns name port).port = port := by
  unfold servicePort
  cases h : c.ports.find? (fun i => i.ns == ns && i.name == name && i.sp.port == port) with
  | none => rfl
  | some i =>
    have := List.find?_some h
    simp only [Bool.and_eq_true, beq_iff_eq] at this
    exact this.2

/-- **upstream_servers_eq_spec_gen.** For every upstream of `upstreamsOf c` there is a Service port `ns/name:port`,
referenced by a backendRef of a valid route attached to the served Gateway, whose `ServicePortReference` is the
upstream's name, and the `server` lines of its block are exactly the declarative set of `resolve_eq_spec` for that
Service and ServicePort (ready addresses of the Service's non-FQDN IPv4/IPv6 slices that publish the port, each with
the port the slice publishes) — or exactly the 503 placeholder when that set is empty. -/
theorem upstream_servers_eq_spec_gen (c : ScenarioE) (hwf : wfE c = true) (u : Up) (hu : u ∈ upstreamsOf c) :
    ∃ ns name port, Referenced c ns name ∧ u.name.toList = upstreamOf ns name port ∧
      (∃ svc ∈ c.base.services, svc.ns = ns ∧ svc.name = name ∧ port ∈ svc.ports) ∧
      let sp := servicePort c ns name port
      let servers := Resolver.configServers (Resolver.createUpstream false u)
      ((∀ e, ¬ InSpec c.slices ns name sp [.ipv4, .ipv6] e) → servers = [Resolver.nginx503Server]) ∧
      ((∃ e, InSpec c.slices ns name sp [.ipv4, .ipv6] e) →
        ∀ x, x ∈ servers ↔ ∃ e, InSpec c.slices ns name sp [.ipv4, .ipv6] e ∧ x = Resolver.serverAddress e) := by
  obtain ⟨b, hb, rfl⟩ := mem_upstreamsOf hu
  obtain ⟨hv, g, hw, r, hr, hatt, ru, hru, refs, hact, ref, href, hns, hname, _, hf⟩ := backends_provenance hb
  obtain ⟨_, svc, hsvc, hp⟩ := findPort_some hf
  obtain ⟨hmem, hsns, hsname⟩ := lookupSvc_some hsvc
  simp only [wfE, Bool.and_eq_true, List.all_eq_true, bne_iff_ne, ne_eq] at hwf
  have hport : b.port ≠ 0 := hwf.1 svc hmem b.port hp
  obtain ⟨hrns, hrules⟩ := hwf.2 r hr
  have hrefs := hrules ru hru
  rw [hact] at hrefs
  simp only [List.all_eq_true, Bool.and_eq_true, bne_iff_ne, ne_eq] at hrefs
  obtain ⟨hrname, hrefns⟩ := hrefs ref href
  have hnsne : b.svcNs ≠ "" := by
    rw [hns]; unfold RefGrant.refNs
    cases hn : ref.ns with
    | none => simpa using hrns
    | some n => simp only [Option.getD_some]; intro e; exact hrefns (by rw [hn, e])
  have hnamene : b.svcName ≠ "" := by rw [hname]; exact hrname
  refine ⟨b.svcNs, b.svcName, b.port, ⟨g, hw, r, hr, hatt, ru, hru, refs, hact, ref, href, hns.symm, hname.symm⟩,
    servicePortReference_valid hv, ⟨svc, hmem, by rw [hsns, hns], by rw [hsname, hname], hp⟩, ?_⟩
  have hsp : (servicePort c b.svcNs b.svcName b.port).port ≠ 0 := by rw [servicePort_port]; exact hport
  exact Resolver.oss_upstream_eq_spec c.slices b.svcNs b.svcName (servicePort c b.svcNs b.svcName b.port) .dual
    (RefGrant.servicePortReference b) hsp hnamene hnsne

/-- **unreferenced_service_no_upstream.** A Service that no backendRef of a valid route attached to the served Gateway
names gets no upstream: no element of `upstreamsOf c` is built for it, and (names without `_`, DNS-1123) none carries
the name of one of its ports. -/
theorem unreferenced_service_no_upstream (c : ScenarioE) (ns name : String) (h : ¬ Referenced c ns name) :
    (∀ b ∈ backends c, ¬ (b.svcNs = ns ∧ b.svcName = name)) ∧
    (namesOK c.base = true → noUnderscore ns = true → noUnderscore name = true →
      ∀ u ∈ upstreamsOf c, ∀ port, u.name.toList ≠ upstreamOf ns name port) := by
  have key : ∀ b ∈ backends c, ¬ (b.svcNs = ns ∧ b.svcName = name) := by
    rintro b hb ⟨e1, e2⟩
    obtain ⟨_, g, hw, r, hr, hatt, ru, hru, refs, hact, ref, href, hns, hname, _, _⟩ := backends_provenance hb
    exact h ⟨g, hw, r, hr, hatt, ru, hru, refs, hact, ref, href, by rw [← hns, e1], by rw [← hname, e2]⟩
  refine ⟨key, ?_⟩
  intro hok h1 h2 u hu port heq
  obtain ⟨b, hb, rfl⟩ := mem_upstreamsOf hu
  obtain ⟨hv, g, hw, r, hr, hatt, ru, hru, refs, hact, ref, href, hns, hname, _, _⟩ := backends_provenance hb
  obtain ⟨hrns, hrules⟩ := namesOK_spec hok r hr
  obtain ⟨hnm, hrefns⟩ := hrules ru hru refs hact ref href
  have hnsok : noUnderscore b.svcNs = true := by
    rw [hns]
    cases hn : ref.ns with
    | none => simpa [RefGrant.refNs, hn] using hrns
    | some n => simpa [RefGrant.refNs, hn] using hrefns n hn
  have hnmok : noUnderscore b.svcName = true := by rw [hname]; exact hnm
  have : upstreamOf b.svcNs b.svcName b.port = upstreamOf ns name port := by
    rw [← servicePortReference_valid hv]; exact heq
  obtain ⟨e1, e2⟩ := upstreamOf_inj hnsok hnmok h1 h2 this
  exact key b hb ⟨e1, e2⟩

/-- **endpointslice_irrelevant_inert.** An EndpointSlice — wherever it is inserted into (read from right to left:
deleted from) the cluster — that does not carry, in the Service's namespace, the service-name label of a Service
referenced by an attached valid route does not change `upstreamsOf`: no upstream, no endpoint, no name. -/
theorem endpointslice_irrelevant_inert (c : ScenarioE) (l1 l2 : List Slice) (s : Slice) (hs : c.slices = l1 ++ l2)
    (h : ∀ ns name, Referenced c ns name → ¬ (s.ns = ns ∧ s.svcLabel = some name)) :
    upstreamsOf { c with slices := l1 ++ s :: l2 } = upstreamsOf c := by
  have hb : backends { c with slices := l1 ++ s :: l2 } = backends c := rfl
  unfold upstreamsOf
  rw [hb]
  apply dedupByName_congr
  intro b hbm
  obtain ⟨_, g, hw, r, hr, hatt, ru, hru, refs, hact, ref, href, hns, hname, _, _⟩ := backends_provenance hbm
  have href' : Referenced c b.svcNs b.svcName :=
    ⟨g, hw, r, hr, hatt, ru, hru, refs, hact, ref, href, hns.symm, hname.symm⟩
  show (⟨_, _⟩ : Up) = ⟨_, _⟩
  congr 1
  show Resolver.upstreamEndpoints (l1 ++ s :: l2) _ _ _ _ = Resolver.upstreamEndpoints c.slices _ _ _ _
  rw [hs]
  exact upstreamEndpoints_insert _ _ (h _ _ href')

/-! non-vacuity and the converse witness: one Gateway, one attached route with two backendRefs (one to a Service in
another namespace WITHOUT a grant: its share goes to invalid-backend-ref and it gets no upstream), a third Service that
nothing references -/
def exRef (ns : Option String) (name : String) (port : Nat) : BackendRef := ⟨none, none, ns, name, some port, none, 0⟩

def exBase : ScenarioR :=
  { cls := "nginx".toList, ctlr := "ctl".toList, classes := [⟨"nginx".toList, "ctl".toList⟩],
    gateways := [⟨"default".toList, "gw".toList, "nginx".toList, 1, [⟨"http".toList, 80, [], true⟩]⟩],
    routes := [{ ns := "app", name := "hr", age := 2,
                 parents := [{ ns := "default".toList, name := "gw".toList, sectionName := none }],
                 hostnames := ["cafe.example.com".toList],
                 rules := [{ ms := [{ exact := false, path := "/".toList, method := [], headers := [], query := [] }],
                             action := .forward [exRef none "web" 80, exRef (some "backend") "svc" 80] }],
                 valid := true }],
    services := [⟨"app", "web", [80]⟩, ⟨"backend", "svc", [80]⟩, ⟨"app", "idle", [80]⟩], grants := [] }

def exSlice (ns svc : String) (addrs : List String) (ready : Option Bool) : Slice :=
  ⟨ns, some svc, .ipv4, [⟨some "http", some 8080⟩], [⟨addrs, ready⟩]⟩

def exE : ScenarioE :=
  { base := exBase, ports := [⟨"app", "web", ⟨"http", 80, .int 8080⟩⟩],
    slices := [exSlice "app" "web" ["10.0.0.1", "10.0.0.2"] (some true), exSlice "app" "web" ["10.0.0.3"] (some false),
               exSlice "app" "idle" ["10.0.9.9"] (some true)] }

#guard wfE exE && namesOK exE.base
#guard confTargets (genR exE.base) == [("app_web_80".toList, 5000), (invalidBackendRef, 5000)]
#guard upstreamsOf exE == [⟨"app_web_80", [⟨"10.0.0.1", 8080, false⟩, ⟨"10.0.0.2", 8080, false⟩]⟩]
#guard (httpUpstreams exE).map (fun n => (n.name, Resolver.configServers n)) ==
  [("app_web_80", ["10.0.0.1:8080", "10.0.0.2:8080"]),
   ("invalid-backend-ref", ["unix:/var/run/nginx/nginx-500-server.sock"])]
-- an irrelevant slice (Service `idle` is not referenced; `backend/svc` is referenced but the slice is in another namespace)
#guard upstreamsOf { exE with slices := exSlice "app" "idle" ["10.0.9.8"] (some true) :: exE.slices } == upstreamsOf exE
#guard upstreamsOf { exE with slices := exSlice "app" "svc" ["10.0.9.8"] (some true) :: exE.slices } == upstreamsOf exE
-- no ready endpoint left: the 503 placeholder
#guard (httpUpstreams { exE with slices := [exSlice "app" "web" ["10.0.0.3"] (some false)] }).map
    (fun n => (n.name, Resolver.configServers n)) ==
  [("app_web_80", [Resolver.nginx503Server]), ("invalid-backend-ref", ["unix:/var/run/nginx/nginx-500-server.sock"])]

/-- **Converse witness**: a slice of a Service that an attached route references DOES change `upstreamsOf`
(so the hypothesis of `endpointslice_irrelevant_inert` cannot be dropped). -/
theorem endpointslice_relevant_changes :
    upstreamsOf { exE with slices := exSlice "app" "web" ["10.0.0.4"] (some true) :: exE.slices } ≠ upstreamsOf exE ∧
    (upstreamsOf { exE with slices := exSlice "app" "web" ["10.0.0.4"] (some true) :: exE.slices }).map (·.eps.length) = [3] := by
  decide

end NGF.PipelineEndpoints
