/-
C08 — status writes against a CHANGING object (live drift, concurrent writers).

`runLive` (`NGF.Model.StatusDrift`) is the retry loop the driver executes: before every attempt another
writer may have replaced the stored status by ANY status (`Step.edit`), conflicts store a `poke`.
`runRetry` is the special case without edits (`runLive_is_runRetry_without_edits`), so the theorems of
`NGF.Props.C08` section C are about the same function.
-/
import NGF.Proofs.StatusDrift

namespace NGF.StatusWrite

/-- the loop of `NGF.Props.C08` §C is `runLive` on a script without edits -/
theorem runLive_is_runRetry_without_edits (inv : Invoke) (n : Nat) (r : Run) (sched : List Op) :
    runLive inv n r (sched.map fun op => ⟨none, op⟩) = runRetry inv n r sched :=
  runLive_no_edits inv n r sched

/-- RETRY AGAINST CONCURRENT WRITERS — for ALL step counts, ALL initial objects and ALL scripts of
(foreign edit before the attempt, attempt outcome incl. conflicts that store something else):
 (1) every status ever submitted is `merged s live` for the object `live` fetched IN THE SAME ATTEMPT:
     the foreign entries of that live object unchanged (content, order, multiplicity) and the own entries
     exactly the computed ones — a function of (live object, computed own entries) only, independent of
     everything fetched or submitted before; it is submitted only if the own entries of `live` differ
     modulo time;
 (2) at most one write succeeds, it is the last call, and the finally stored status is that function of
     the LAST fetched object. -/
theorem retry_against_concurrent_writers (s : Setter) (hm : Merging s) (hf : Fresh s) (n : Nat)
    (store : Status) (script : List Step) :
    let r := runLive Setter.invoke n (Run.init s store) script
    (∀ live sub ok, Call.update live sub ok ∈ r.calls →
      sub = merged s live ∧ foreign s.ctlr sub = foreign s.ctlr live ∧ own s.ctlr sub = s.cap ∧
        ¬ SameOwn s.kind s.ctlr live s.cap) ∧
    (r.writes = 0 ∨ (r.writes = 1 ∧ ∃ live, r.calls.getLast? = some (.update live r.store true) ∧
      r.store = merged s live ∧ foreign s.ctlr r.store = foreign s.ctlr live ∧ own s.ctlr r.store = s.cap)) := by
  intro r
  have hsub : ∀ live sub ok, Call.update live sub ok ∈ r.calls →
      sub = merged s live ∧ foreign s.ctlr sub = foreign s.ctlr live ∧ own s.ctlr sub = s.cap ∧
        ¬ SameOwn s.kind s.ctlr live s.cap := by
    intro live sub ok hc
    have h := liveStateless_submissions Setter.invoke s (invoke_fst s) n store script live sub ok hc
    rw [invoke_snd] at h
    split at h
    · simp at h
    · rename_i hne
      have hs : sub = merged s live := by simpa using (congrArg Prod.fst h).symm
      subst hs
      exact ⟨rfl, merged_foreign hm hf live, merged_own hm hf live,
        fun hso => hne ((equalCheck_iff_sameOwn hm hf live).2 hso)⟩
  refine ⟨hsub, ?_⟩
  rcases live_writes Setter.invoke n (Run.init s store) script rfl with h0 | ⟨h1, live, hl⟩
  · exact Or.inl h0
  · refine Or.inr ⟨h1, live, hl, ?_⟩
    have hmem : Call.update live r.store true ∈ r.calls := List.mem_of_getLast? hl
    obtain ⟨a, b, c, _⟩ := hsub live r.store true hmem
    exact ⟨a, b, c⟩

/-- CLOSED FORM of "the last fetched object": when a write succeeds, the stored status is
`merged s live` where `live` is element `gets - 1` of `liveSeq n store script` — the sequence of live
objects determined by the initial store and the other writers' script alone (edits before attempts,
pokes at conflicts), not by anything the setter saw or submitted earlier. -/
theorem retry_final_status_from_last_fetched (s : Setter) (hm : Merging s) (hf : Fresh s) (n : Nat)
    (store : Status) (script : List Step) :
    let r := runLive Setter.invoke n (Run.init s store) script
    r.writes = 1 → ∃ live, (liveSeq n store script)[r.gets - 1]? = some live ∧ 0 < r.gets ∧
      r.store = merged s live ∧ foreign s.ctlr r.store = foreign s.ctlr live ∧ own s.ctlr r.store = s.cap := by
  intro r hw
  obtain ⟨i, live, hi, hg, hlast⟩ := live_last_fetched Setter.invoke n (Run.init s store) script rfl hw
  have hg0 : r.gets = (Run.init s store).gets + i + 1 := hg
  have h0 : (Run.init s store).gets = 0 := rfl
  have hg' : r.gets = i + 1 := by omega
  obtain ⟨a, b, c, _⟩ := (retry_against_concurrent_writers s hm hf n store script).1 live r.store true
    (List.mem_of_getLast? hlast)
  refine ⟨live, ?_, by omega, a, b, c⟩
  rw [hg']; exact hi

/-- whole-status kinds (Gateway, GatewayClass, NginxGateway) against concurrent writers: every
submission is exactly the computed status, made only when the fetched object differs modulo time -/
theorem retry_whole_against_concurrent_writers (s : Setter) (h : s.kind.mode = .whole) (n : Nat)
    (store : Status) (script : List Step) :
    ∀ live sub ok, Call.update live sub ok ∈ (runLive Setter.invoke n (Run.init s store) script).calls →
      sub = s.cap ∧ live.map wkey ≠ s.cap.map wkey := by
  intro live sub ok hc
  have hr := liveStateless_submissions Setter.invoke s (invoke_fst s) n store script live sub ok hc
  rw [invoke_snd] at hr
  simp only [equalCheck, merged, h] at hr
  split at hr
  · simp at hr
  · rename_i hne
    exact ⟨by simpa using (congrArg Prod.fst hr).symm, fun heq => hne ((wholeEq_iff _ _).2 heq)⟩

private def dOwn : Entry := ⟨"ngf", ["~", "~", "ns", "gw", "~", "~"], [⟨"Accepted", "True", "Accepted", "ok", 2, 9⟩]⟩
private def dFor (i : Nat) : Entry :=
  ⟨"other", ["~", "~", "ns", toString i, "~", "~"], [⟨"Accepted", "True", "Accepted", "theirs", 1, 5⟩]⟩

/-- non-vacuity: graph built from [f0,f1]; before the first Get another controller adds f2 and reorders;
the Update fails; before the second Get f0 is removed and f3 added; then the write succeeds: two
invocations, the stored status = foreign entries of the LAST fetched object ++ own -/
example :
    let s : Setter := ⟨policyKind, "ngf", [dOwn]⟩
    let r := runLive Setter.invoke 4 (Run.init s [dFor 0, dFor 1])
      [⟨some [dFor 2, dFor 1, dFor 0], .updFail none⟩, ⟨some [dFor 3, dFor 2, dFor 1], .ok⟩]
    Merging s ∧ Fresh s ∧ r.invocations = 2 ∧ r.writes = 1 ∧ r.store = [dFor 3, dFor 2, dFor 1, dOwn] ∧
      liveSeq 2 [dFor 0, dFor 1] [⟨some [dFor 2, dFor 1, dFor 0], .updFail none⟩, ⟨some [dFor 3, dFor 2, dFor 1], .ok⟩]
        = [[dFor 2, dFor 1, dFor 0], [dFor 3, dFor 2, dFor 1]] := by
  refine ⟨by decide, by decide, ?_⟩
  decide

end NGF.StatusWrite
