/-
C03 — every generated configuration is loadable by NGINX.

Scope of the proofs (see notes/C03.md): the name manglings of the generator (`NGF.Mangle`, tied to the
source by the regenerated format strings `NGF.Generated.ConfNames` and to the behaviour by the
correspondence run) and the path scheme of createLocations. The property itself ("NGINX can load
the file set") is evaluated by `NGF.WF.judge` on the real files; the theorems below say for which
inputs the mangled names are unique and lexically legal, give the witnesses where they are not, and
tie the judge's directive table to the directives the templates emit.
-/
import NGF.Proofs.Mangle
import NGF.Proofs.ConfRegex
import NGF.Spec.WellFormedConf
import NGF.Generated.ConfNameFacts
import NGF.Props.C03Render

namespace NGF.Props.C03
open NGF.Mangle
open NGF.Generated

/-! ## 1. Facts regenerated from the source: the model uses the formats the code uses -/

theorem groupName_uses_source_format (ns name : List Char) (idx : Nat) :
    groupName ns name idx = sprintf ConfNames.groupFmt [ns, name, digits idx] ∧
    ConfNames.groupArgs = ["bg.Source.Namespace", "bg.Source.Name", "bg.RuleIdx"] := by
  refine ⟨?_, by decide⟩
  simp [groupName, sprintf, ConfNames.groupFmt, lit]

theorem upstreamName_uses_source_format (ns svc : List Char) (port : Nat) :
    upstreamName ns svc port = sprintf ConfNames.upstreamFmt [ns, svc, digits port] ∧
    ConfNames.upstreamArgs = ["b.SvcNsName.Namespace", "b.SvcNsName.Name", "b.ServicePort.Port"] := by
  refine ⟨?_, by decide⟩
  simp [upstreamName, sprintf, ConfNames.upstreamFmt, lit]

theorem keyPair_bundle_use_source_format (ns name : List Char) :
    keyPairId ns name = sprintf ConfNames.keyPairFmt [ns, name] ∧
    bundleId ns name = sprintf ConfNames.bundleFmt [ns, name] ∧
    pemFile ns name = ConfNames.secretsFolder ++ '/' :: keyPairId ns name ++ lit ".pem" ∧
    bundleFile ns name = ConfNames.secretsFolder ++ '/' :: bundleId ns name ++ lit ".crt" ∧
    ConfNames.keyPairArgs = ["secret.Namespace", "secret.Name"] ∧
    ConfNames.bundleArgs = ["configMap.Namespace", "configMap.Name"] ∧
    ConfNames.pemFileBody = ["return filepath.Join(secretsFolder, string(id)+\".pem\")"] ∧
    ConfNames.bundleFileBody = ["return filepath.Join(secretsFolder, string(id)+\".crt\")"] := by
  refine ⟨?_, ?_, ?_, ?_, by decide, by decide, by decide, by decide⟩ <;>
    simp [keyPairId, bundleId, pemFile, bundleFile, sprintf, ConfNames.keyPairFmt, ConfNames.bundleFmt,
      ConfNames.secretsFolder, lit]

theorem cspFile_uses_source_format (ns name : List Char) :
    cspFile ns name = ConfNames.includesFolder ++ '/' :: sprintf ConfNames.cspFileFmt [ns, name] ∧
    ConfNames.cspFileArgs = ["csp.Namespace", "csp.Name"] ∧
    ConfNames.policyIncludeNameExprs = ["includesFolder + \"/\" + file.Name"] := by
  refine ⟨?_, by decide, by decide⟩
  simp [cspFile, sprintf, ConfNames.cspFileFmt, ConfNames.includesFolder, lit]

theorem sockets_use_source_format (port : Nat) (host : List Char) :
    sockTLS port host = sprintf ConfNames.sockTLSFmt [host, digits port] ∧
    sockHTTPS port = sprintf ConfNames.sockHTTPSFmt [digits port] ∧
    passVar port = sprintf ConfNames.passVarFmt [digits port] ∧
    ConfNames.sockTLSArgs = ["hostname", "port"] := by
  refine ⟨?_, ?_, ?_, by decide⟩ <;>
    simp [sockTLS, sockHTTPS, passVar, sprintf, ConfNames.sockTLSFmt, ConfNames.sockHTTPSFmt, ConfNames.passVarFmt, lit]

theorem safeVar_uses_source_chars (s : List Char) :
    safeVar s = s.map (fun c => if [c] = ConfNames.safeVarOld then '_' else c) ∧
    ConfNames.safeVarNew = ['_'] ∧
    ConfNames.safeVarBody = ["return strings.ReplaceAll(s, \"-\", \"_\")"] ∧
    ConfNames.addHdrVarBody =
      ["return strings.ToLower(convertStringToSafeVariableName(name)) + \"_header_var\""] := by
  refine ⟨?_, by decide, by decide, by decide⟩
  simp [safeVar, ConfNames.safeVarOld]

/-- the location / rewrite scheme the model mirrors is the one in servers.go -/
theorem location_scheme_facts :
    ConfNames.internalLocFmt = "%s-rule%d-route%d" ∧
    ConfNames.internalRoutePathPrefix = "/_ngf-internal" ∧
    ConfNames.rootPath = "/" ∧
    ConfNames.exactPathBody = ["return fmt.Sprintf(\"= %s\", path)"] ∧
    ConfNames.isNonSlashedPrefixPathBody =
      ["return pathType == dataplane.PathTypePrefix && !strings.HasSuffix(path, \"/\")"] ∧
    ConfNames.rewriteFmts = ["^ %s", "^%s([^?]*)?", "%s$1?$args?", "^%s(?:/([^?]*))?", "%s/$1?$args?", "%s %s"] ∧
    ConfNames.pathFmt = "/[^\\s{};]*" := by
  decide

/-- Every word that a template or a static file puts in directive position has an entry in the
judge's directive table (or is one of the keywords handled structurally). A directive added to a
template without a table entry breaks this obligation. -/
theorem template_directives_in_table :
    ∀ d ∈ ConfNames.templateDirectives ++ ConfNames.staticDirectives,
      NGF.WF.known d = true ∨ d ∈ ["include", "hostnames", "default"] := by
  decide +kernel

/-! ## 2. Injectivity of the manglings -/

/-- `(*BackendGroup).Name` itself is injective on Kubernetes names (no `_` in namespace / name). -/
theorem mangle_injective_groupName {ns ns' name name' : List Char} {i j : Nat}
    (hns : '_' ∉ ns) (hns' : '_' ∉ ns') (hn : '_' ∉ name) (hn' : '_' ∉ name')
    (h : groupName ns name i = groupName ns' name' j) : ns = ns' ∧ name = name' ∧ i = j := by
  simp only [groupName, lit, List.append_assoc] at h
  have h1 := List.append_cancel_left (as := "group_".toList) h
  have e1 : "__".toList = ['_', '_'] := by decide
  have e2 : "_rule".toList = '_' :: "rule".toList := by decide
  rw [e1, e2] at h1
  simp only [List.cons_append, List.nil_append] at h1
  obtain ⟨a1, a2⟩ := append_sep_inj hns hns' h1
  simp only [List.cons.injEq, true_and] at a2
  obtain ⟨b1, b2⟩ := append_sep_inj hn hn' a2
  have b3 := List.append_cancel_left b2
  exact ⟨a1, b1, digits_injective b3⟩

/-- FULL STRENGTH IS FALSE for the variable actually used in the configuration: after `-`→`_`
two different (namespace, route) pairs get the same `split_clients` variable. -/
theorem mangle_injective_groupVar_false :
    groupVar "a--b".toList "c".toList 0 = groupVar "a".toList "b--c".toList 0 ∧
    ("a--b".toList, "c".toList) ≠ ("a".toList, "b--c".toList) := by
  decide

/-- …and route names may contain dots (DNS subdomains), which NGINX does not accept in a variable name. -/
theorem groupVar_image_not_lexable_witness :
    (groupVar "ns".toList "my.route".toList 0).all isVarChar = false := by
  decide

/-- Partial theorem: the variable name is injective when the mangled namespace has no `__` and does
not end in `_` (implied by: no `--`, no trailing `-`, see `goodFor_safeVar`). -/
theorem mangle_injective_groupVar_partial {ns ns' name name' : List Char} {i j : Nat}
    (hns : '_' ∉ ns) (hns' : '_' ∉ ns') (hn : '_' ∉ name) (hn' : '_' ∉ name')
    (hg : GoodFor '_' (safeVar ns) = true) (hg' : GoodFor '_' (safeVar ns') = true)
    (h : groupVar ns name i = groupVar ns' name' j) : ns = ns' ∧ name = name' ∧ i = j :=
  groupVar_inj hns hns' hn hn' hg hg' h

/-- a DNS label without `--` satisfies the hypothesis of the partial theorem -/
theorem partial_hypothesis_from_dns {ns : List Char} (hu : '_' ∉ ns) (hh : GoodFor '-' ns = true) :
    GoodFor '_' (safeVar ns) = true := goodFor_safeVar hu hh

example : GoodFor '_' (safeVar "team-a".toList) = true ∧ GoodFor '_' (safeVar "a--b".toList) = false := by decide

/-- lexical class: for names made of `[A-Za-z0-9-]` the variable is a legal NGINX variable name -/
theorem groupVar_lexable {ns name : List Char} (idx : Nat)
    (hns : ns.all isNameChar = true) (hn : name.all isNameChar = true) :
    (groupVar ns name idx).all isVarChar = true :=
  groupVar_all_isVarChar idx hns hn

example : (groupVar "team-a".toList "coffee-route".toList 12).all isVarChar = true := by decide

/-- Hence NGINX's scan of the reference `$<groupVar>$request_uri` (maximal `[A-Za-z0-9_]` run, as in
`ngx_http_script_compile` and `NGF.WF.scriptVars`) reads exactly the defined variable … -/
theorem groupVar_reference_read_whole {ns name : List Char} (idx : Nat) (rest : List Char)
    (hns : ns.all isNameChar = true) (hn : name.all isNameChar = true) :
    (groupVar ns name idx ++ '$' :: rest).takeWhile isVarChar = groupVar ns name idx :=
  takeWhile_all_stop (groupVar_lexable idx hns hn) (by decide)

/-- … whereas for a route name with a dot it stops early at an undefined name (reload fails). -/
theorem groupVar_reference_truncated_witness :
    (groupVar "ns".toList "my.route".toList 0 ++ "$request_uri".toList).takeWhile isVarChar = "group_ns__my".toList ∧
    NGF.WF.scriptVars ("http://$group_ns__my.route_rule0$request_uri".toList) =
      [.name "group_ns__my", .name "request_uri"] := by
  decide

/-- upstream names `<ns>_<svc>_<port>` -/
theorem mangle_injective_upstreamName {ns ns' svc svc' : List Char} {p q : Nat}
    (hns : '_' ∉ ns) (hns' : '_' ∉ ns') (hs : '_' ∉ svc) (hs' : '_' ∉ svc')
    (h : upstreamName ns svc p = upstreamName ns' svc' q) : ns = ns' ∧ svc = svc' ∧ p = q := by
  simp only [upstreamName, lit, List.append_assoc] at h
  have e : "_".toList = ['_'] := by decide
  rw [e] at h
  simp only [List.cons_append, List.nil_append] at h
  obtain ⟨a1, a2⟩ := append_sep_inj hns hns' h
  obtain ⟨b1, b2⟩ := append_sep_inj hs hs' a2
  exact ⟨a1, b1, digits_injective b2⟩

example : upstreamName "team-a".toList "coffee".toList 80 = "team-a_coffee_80".toList := by decide

/-- key pair / bundle / policy include names: `<prefix><ns>_<name><suffix>`; the name may be any
string (Secret, ConfigMap and policy names are DNS subdomains and may contain `.` and `--`). -/
theorem mangle_injective_keyPair {ns ns' name name' : List Char} (hns : '_' ∉ ns) (hns' : '_' ∉ ns')
    (h : pemFile ns name = pemFile ns' name') : ns = ns' ∧ name = name' := by
  simp only [pemFile, keyPairId, lit, List.append_assoc] at h
  have h1 := List.append_cancel_left (List.append_cancel_left h)
  have e : "_".toList = ['_'] := by decide
  rw [e] at h1
  simp only [List.cons_append, List.nil_append] at h1
  obtain ⟨a1, a2⟩ := append_sep_inj hns hns' h1
  exact ⟨a1, List.append_cancel_right a2⟩

theorem mangle_injective_bundle {ns ns' name name' : List Char} (hns : '_' ∉ ns) (hns' : '_' ∉ ns')
    (h : bundleFile ns name = bundleFile ns' name') : ns = ns' ∧ name = name' := by
  simp only [bundleFile, bundleId, lit, List.append_assoc] at h
  have h1 := List.append_cancel_left (List.append_cancel_left h)
  have e : "_".toList = ['_'] := by decide
  rw [e] at h1
  simp only [List.cons_append, List.nil_append] at h1
  obtain ⟨a1, a2⟩ := append_sep_inj hns hns' h1
  exact ⟨a1, List.append_cancel_right a2⟩

theorem mangle_injective_cspFile {ns ns' name name' : List Char} (hns : '_' ∉ ns) (hns' : '_' ∉ ns')
    (h : cspFile ns name = cspFile ns' name') : ns = ns' ∧ name = name' := by
  simp only [cspFile, lit, List.append_assoc] at h
  have h1 := List.append_cancel_left (List.append_cancel_left h)
  have e : "_".toList = ['_'] := by decide
  rw [e] at h1
  simp only [List.cons_append, List.nil_append] at h1
  obtain ⟨a1, a2⟩ := append_sep_inj hns hns' h1
  exact ⟨a1, List.append_cancel_right a2⟩

example : pemFile "default".toList "tls.b".toList = "/etc/nginx/secrets/ssl_keypair_default_tls.b.pem".toList := by decide

/-- TLS passthrough socket names `unix:/var/run/nginx/<hostname>-<port>.sock` are injective … -/
theorem mangle_injective_sockTLS {h h' : List Char} {p q : Nat}
    (e : sockTLS p h = sockTLS q h') : h = h' ∧ p = q := by
  simp only [sockTLS, lit, List.append_assoc] at e
  have e1 := List.append_cancel_left e
  have r := congrArg List.reverse e1
  simp only [List.reverse_append, List.append_assoc] at r
  have r1 := List.append_cancel_left r
  have e2 : "-".toList.reverse = ['-'] := by decide
  rw [e2] at r1
  simp only [List.cons_append, List.nil_append] at r1
  have nd : ∀ n, '-' ∉ (digits n).reverse := fun n m =>
    not_mem_digits_of_not_isDigit (c := '-') (by decide) (List.mem_reverse.mp m)
  obtain ⟨c1, c2⟩ := append_sep_inj (nd p) (nd q) r1
  exact ⟨by simpa using congrArg List.reverse c2, digits_injective (by simpa using congrArg List.reverse c1)⟩

/-- … but NOT always within the 107 bytes of `sun_path`: hostnames are up to 253 characters. -/
theorem sockTLS_path_too_long_witness :
    (sockPath (sockTLS 8443 (List.replicate 63 'a' ++ '.' :: List.replicate 63 'b' ++ ".example.com".toList))).length > 107 := by
  decide +kernel

/-- `_partial`: hostnames of at most 80 characters and ports below 100000 always fit. -/
theorem sockTLS_path_fits_partial {h : List Char} {p : Nat} (hh : h.length ≤ 80) (hp : (digits p).length ≤ 5) :
    (sockPath (sockTLS p h)).length ≤ 107 := by
  simp only [sockPath, sockTLS, lit, List.append_assoc]
  have e : ("unix:/var/run/nginx/".toList ++ (h ++ ("-".toList ++ (digits p ++ ".sock".toList)))).drop 5 =
      "/var/run/nginx/".toList ++ (h ++ ("-".toList ++ (digits p ++ ".sock".toList))) := by
    have : "unix:/var/run/nginx/".toList = "unix:".toList ++ "/var/run/nginx/".toList := by decide
    rw [this, List.append_assoc, List.drop_left' (by decide)]
  rw [e]
  simp only [List.length_append]
  have l1 : "/var/run/nginx/".toList.length = 15 := by decide
  have l2 : "-".toList.length = 1 := by decide
  have l3 : ".sock".toList.length = 5 := by decide
  omega

example : (sockPath (sockTLS 443 "cafe.example.com".toList)).length ≤ 107 := by decide

/-! ## 3. Locations of a server are pairwise distinct (createLocations / initializeExternalLocations) -/

/-- For path rules with pairwise distinct `(path, type)` the external locations generated for a
server are pairwise distinct `(modifier, path)` keys: NGINX never sees a duplicate location. -/
theorem locations_distinct (rules : List (List Char × PathType)) (hnd : rules.Nodup) :
    (serverExternalLocs rules).Nodup :=
  serverExternalLocs_nodup rules hnd

example : (serverExternalLocs [("/coffee".toList, .prefix), ("/coffee".toList, .exact), ("/coffee/".toList, .prefix),
    ("/tea".toList, .prefix)]).Nodup := by decide

/-- external prefix locations always end in `/`, internal locations never do: they cannot clash -/
theorem internal_vs_external (rules : List (List Char × PathType)) (i j : Nat) :
    (false, internalLocPath i j) ∉ serverExternalLocs rules :=
  internalLoc_not_external rules i j

/-! ## 4. The rewrite regex: accepted for plain paths, rejected for admissible paths with `(` -/

/-- the generated `rewrite` regex for the admissible match path `/a(b` does not compile -/
theorem rewrite_regex_compiles_false :
    NGF.WF.regexVerdict (rewriteRegex "/v2".toList "/a(b".toList) = .bad "missing )" := by
  decide

/-- `_partial`: for match paths without PCRE metacharacters both shapes of the generated regex compile -/
theorem rewrite_regex_compiles_partial (fp path : List Char) (hp : path.all NGF.WF.plainRe = true) (hne : path ≠ []) :
    NGF.WF.regexVerdict (rewriteRegex fp path) = .ok := by
  unfold rewriteRegex NGF.WF.regexVerdict
  split
  · have hl : ('^' :: path ++ lit "(?:/([^?]*))?").length + 1 = (14 + path.length) + 1 := by
      simp [lit]; omega
    rw [hl]
    have h0 : NGF.WF.reScan (14 + path.length + 1) ('^' :: path ++ lit "(?:/([^?]*))?") 0 false false =
        NGF.WF.reScan (14 + path.length) (path ++ lit "(?:/([^?]*))?") 0 false true := by
      simp [NGF.WF.reScan]
    rw [h0, NGF.WF.reScan_plain path 14 _ 0 false true hp hne]
    decide
  · have hl : ('^' :: path ++ lit "([^?]*)?").length + 1 = (9 + path.length) + 1 := by
      simp [lit]; omega
    rw [hl]
    have h0 : NGF.WF.reScan (9 + path.length + 1) ('^' :: path ++ lit "([^?]*)?") 0 false false =
        NGF.WF.reScan (9 + path.length) (path ++ lit "([^?]*)?") 0 false true := by
      simp [NGF.WF.reScan]
    rw [h0, NGF.WF.reScan_plain path 9 _ 0 false true hp hne]
    decide

example : ("/coffee-1/latte_x".toList).all NGF.WF.plainRe = true := by decide
example : NGF.WF.regexVerdict (rewriteRegex "/v2".toList "/coffee".toList) = .ok := by decide
example : NGF.WF.regexVerdict (rewriteRegex "/v2/".toList "/coffee".toList) = .ok := by decide

end NGF.Props.C03
