import NGF.Model.OwnershipLeader
import NGF.Model.OwnershipJudge
import NGF.Proofs.OwnershipLeader
import NGF.Props.C09
/-
C17 over leadership changes — the ownership model's status requests (`targets ∘ buildGraph`, the functions of
Props/C17) submitted batch after batch through the leader-aware updater (`NGF.Leader.run`, the functions of
Props/C09) exactly as `eventHandlerImpl.updateStatuses` does. Composes C09's `flush_is_latest_per_group` with
C17's `no_request_for_foreign`.
-/
namespace NGF.Ownership
open NGF.Leader

/-- **No foreign write across a leadership change.** For ALL sequences of event batches (each with the store its
graph was built from and the requests `Prepare*Requests` derive from THAT graph), ALL enable points and ALL map
iteration orders of the flush:
 1. nothing is written before `Enable`;
 2. what `Enable` writes is, up to order, the requests of the LAST batch processed before it — every one of them
    addresses an object that is not foreign in the store of that last batch (an object that was ours in an
    earlier batch and is foreign now is NOT written);
 3. after `Enable` every batch writes exactly its own requests, each addressing an object that is not foreign in
    the store of that batch. -/
theorem no_foreign_write_across_leadership (cfg : Cfg) (tgt : Req → Target) (pre post : List Batch)
    (o : List Group) (hok : ∀ b ∈ pre ++ post, b.Ok cfg tgt) :
    let n := (opsOf pre).length
    let outs := run init (opsOf pre ++ .enable o :: opsOf post)
    outs.take n = (opsOf pre).map (fun _ => Out.writes []) ∧
    (∃ ws, outs[n]? = some (Out.writes ws) ∧ ws.Perm (lastWrites pre) ∧
      ∀ w ∈ ws, ∀ q ∈ w.2, ∃ bl, pre.getLast? = some bl ∧
        tgt q ∈ targets (buildGraph cfg bl.st) ∧ (tgt q).OwnIn cfg bl.st) ∧
    outs.drop (n + 1) = post.flatMap batchOuts ∧
    (∀ b ∈ post, ∀ q ∈ b.r0 ++ b.r1, tgt q ∈ targets (buildGraph cfg b.st) ∧ (tgt q).OwnIn cfg b.st) := by
  intro n outs
  have hne := noEnable_opsOf pre
  refine ⟨no_write_before_enable (opsOf pre) _ hne, ?_, ?_, ?_⟩
  · obtain ⟨ws, h1, h2⟩ := flush_is_latest_per_group (opsOf pre) o (opsOf post) hne
    rw [latest_opsOf] at h2
    refine ⟨ws, h1, h2, ?_⟩
    intro w hw q hq
    have hw' : w ∈ lastWrites pre := h2.mem_iff.mp hw
    unfold lastWrites at hw'
    cases hl : pre.getLast? with
    | none => simp [hl] at hw'
    | some bl =>
      simp only [hl] at hw'
      have hbl : bl ∈ pre ++ post := List.mem_append_left _ (List.mem_of_getLast? hl)
      exact ⟨bl, rfl, batch_requests_own cfg tgt bl (hok bl hbl) q (mem_batchWrites bl w hw' q hq)⟩
  · show (run init (opsOf pre ++ .enable o :: opsOf post)).drop ((opsOf pre).length + 1) = _
    rw [immediate_after_enable (opsOf pre) o (opsOf post) hne, map_after_opsOf]
  · intro b hb
    exact batch_requests_own cfg tgt b (hok b (List.mem_append_right _ hb))

/-- … hence, with unique object keys (Kubernetes), NO request written at `Enable` addresses an object that is
foreign in the cluster as of the last batch — whatever it was in earlier batches. -/
theorem no_then_foreign_object_written_at_enable (cfg : Cfg) (tgt : Req → Target) (pre post : List Batch)
    (o : List Group) (hok : ∀ b ∈ pre ++ post, b.Ok cfg tgt) (bl : Batch) (hl : pre.getLast? = some bl)
    (hu : KeysUnique bl.st) (ws : List Write)
    (hws : (run init (opsOf pre ++ .enable o :: opsOf post))[(opsOf pre).length]? = some (Out.writes ws)) :
    ∀ w ∈ ws, ∀ q ∈ w.2, tgt q ∉ foreignTargets cfg bl.st := by
  obtain ⟨_, ⟨ws', h1, _, h3⟩, _, _⟩ := no_foreign_write_across_leadership cfg tgt pre post o hok
  have : ws' = ws := by
    have := h1.symm.trans hws
    simpa using this
  subst this
  intro w hw q hq
  obtain ⟨bl', hl', _, hown⟩ := h3 w hw q hq
  have : bl' = bl := by simpa using hl'.symm.trans hl
  subst this
  exact ownIn_not_foreign cfg _ hu _ hown

/-- the list the judge (`judgeLead`, `judge`) intersects the real requests with is the image of `foreignTargets` -/
theorem foreignKeys_eq_foreignTargets (cfg : Cfg) (s : State) :
    foreignKeys cfg s = (foreignTargets cfg s).map Target.key := by
  simp [foreignKeys, foreignTargets, List.map_append, List.map_map, Function.comp_def]

/-- a replica that never becomes leader writes nothing, whatever the batches -/
theorem never_leader_no_write (bs : List Batch) : ∀ out ∈ run init (opsOf bs), out = Out.writes [] :=
  never_leader_never_writes (opsOf bs) (noEnable_opsOf bs)

/-! ### Non-vacuity and the refuted variant: a Gateway that is ours in batch 1 and foreign in batch 2 -/

/-- batch 1: gw0 and gw1 of class nginx, hr0 → gw0; batch 2: gw1 re-classed to `other` -/
def exLead1 : State :=
  { classes := [⟨"nginx", exCfg.ctlr⟩, ⟨"other", "example.com/other"⟩]
    gws := [⟨⟨"default", "gw0"⟩, "nginx", 5⟩, ⟨⟨"default", "gw1"⟩, "nginx", 7⟩]
    routes := [⟨.http, ⟨"default", "hr0"⟩, [⟨none, none, none, "gw0", none⟩], true, [], true, []⟩]
    policies := [], btps := [], snippets := [] }

def exLead2 : State :=
  { exLead1 with gws := [⟨⟨"default", "gw0"⟩, "nginx", 5⟩, ⟨⟨"default", "gw1"⟩, "other", 7⟩] }

def exBatches : List Batch := mkBatches exCfg 0 [exLead1, exLead2]
def exTgt : Req → Target := tgtOf (reqTable exCfg [exLead1, exLead2])

example : exBatches.map (fun b => (b.r0, b.r1)) = [([0, 3], [1, 2]), ([4, 6], [5])] := by decide
example : ∀ b ∈ exBatches, b.Ok exCfg exTgt := by decide
example : exTgt 2 = .gw ⟨"default", "gw1"⟩ ∧ Target.gw ⟨"default", "gw1"⟩ ∈ foreignTargets exCfg exLead2 ∧
    KeysUnique exLead2 := by
  refine ⟨by decide, by decide, ?_⟩
  unfold KeysUnique; decide
/-- the model writes the requests of batch 2 only: gw0 (tag 5), class and route (tags 4, 6) -/
example : run init (opsOf exBatches ++ [.enable []]) =
    [.writes [], .writes [], .writes [], .writes [], .writes [(1, [5]), (0, [4, 6])]] := by decide

/-- **Witness against the appended-not-replaced variant** (seeded change C17-r3m2): with `stepAppend` the request
for `gw1` prepared in batch 1 (tag 2) is written at `Enable` although `gw1` belongs to another class in the cluster
as of the last batch; `run` (the code) does not write it. -/
theorem appended_requests_write_foreign :
    (∃ ws, (runAppend init (opsOf exBatches ++ [.enable []]))[(opsOf exBatches).length]? = some (Out.writes ws) ∧
      ∃ w ∈ ws, ∃ q ∈ w.2, exTgt q ∈ foreignTargets exCfg exLead2) ∧
    (∀ ws, (run init (opsOf exBatches ++ [.enable []]))[(opsOf exBatches).length]? = some (Out.writes ws) →
      ∀ w ∈ ws, ∀ q ∈ w.2, exTgt q ∉ foreignTargets exCfg exLead2) := by
  refine ⟨⟨[(1, [1, 2, 5]), (0, [0, 3, 4, 6])], by decide, (1, [1, 2, 5]), by decide, 2, by decide, by decide⟩, ?_⟩
  intro ws h
  have : ws = [(1, [5]), (0, [4, 6])] := by
    have e : (run init (opsOf exBatches ++ [.enable []]))[(opsOf exBatches).length]? =
        some (Out.writes [(1, [5]), (0, [4, 6])]) := by decide
    rw [e] at h
    simpa using h.symm
  subst this
  decide

end NGF.Ownership
