/-
C07 — reported status tells the truth about what is programmed.
Property theorems over `NGF.Model.StatusPrep` (the functions the driver runs and the correspondence
compares with the real `status.Prepare*Requests` + setters), for ALL graph summaries, plus the
expectation lemmas over the facts regenerated from /repo (`NGF.Generated.ConditionFacts`).

The end-to-end clauses that involve `dataplane.Configuration` ("Accepted ⇔ served", attachedRoutes against
an independent reading of binding) are evaluated by `NGF.Model.StatusJudge` on the real outputs; here the
decision core is proved, including witnesses for the two places where the core itself departs from
"Accepted=True ⇔ the parentRef's attachment succeeded and the reload succeeded".
-/
import NGF.Model.StatusPrep
import NGF.Model.StatusJudge
import NGF.Model.HandlerStatus
import NGF.Model.PolicyAttach
import NGF.Proofs.StatusPrep
import NGF.Proofs.StatusPrepExpected
import NGF.Generated.ConditionFacts

namespace NGF.StatusPrep

/-! ## DeduplicateConditions -/

/-- "last": nothing of the same type follows -/
theorem lastOfType_spec (t : String) (cs : List Cond) (c : Cond) :
    lastOfType t cs = some c ↔
      c.type = t ∧ ∃ pre post, cs = pre ++ c :: post ∧ ∀ d ∈ post, d.type ≠ t := by
  unfold lastOfType
  rw [List.find?_eq_some_iff_append]
  constructor
  · rintro ⟨hc, as, bs, hrev, hno⟩
    refine ⟨by simpa using hc, bs.reverse, as.reverse, ?_, ?_⟩
    · have := congrArg List.reverse hrev
      simpa using this
    · intro d hd
      have := hno d (List.mem_reverse.mp hd)
      simpa using this
  · rintro ⟨hc, pre, post, rfl, hno⟩
    refine ⟨by simpa using hc, post.reverse, pre.reverse, by simp, ?_⟩
    intro d hd
    have := hno d (List.mem_reverse.mp hd)
    simpa using this

/-- `DeduplicateConditions`: types become unique, the kept conditions are exactly the last occurrence of each
type, the input order is preserved, and no type is lost. -/
theorem dedup_last_wins (cs : List Cond) :
    ((dedup cs).map (·.type)).Nodup ∧
    (dedup cs).Sublist cs ∧
    (∀ c, c ∈ dedup cs ↔ lastOfType c.type cs = some c) ∧
    (∀ c ∈ cs, ∃ d ∈ dedup cs, d.type = c.type) := by
  refine ⟨dedup_nodup cs, dedup_sublist cs, fun c => mem_dedup, ?_⟩
  intro c hc
  cases h : lastOfType c.type cs with
  | none => exact absurd rfl (lastOfType_none_iff.mp h c hc)
  | some d =>
    have ht := lastOfType_type h
    exact ⟨d, mem_dedup.mpr (ht ▸ h), ht⟩

example : dedup [⟨"A", "True", "x"⟩, ⟨"B", "True", "y"⟩, ⟨"A", "False", "z"⟩] =
    [⟨"B", "True", "y"⟩, ⟨"A", "False", "z"⟩] := by decide

/-- keeping the FIRST occurrence instead would give a different answer on this input -/
example : dedup [⟨"A", "True", "x"⟩, ⟨"A", "False", "z"⟩] ≠ [⟨"A", "True", "x"⟩] := by decide

/-! ## routes: one entry per parentRef, current generation, our controller name -/

theorem one_entry_per_parent (ctlr : String) (refs : List ParentRef) (conds : List Cond) (e : Bool) (gen : Int) :
    (prepareRouteStatus ctlr refs conds e gen).length = refs.length ∧
    (prepareRouteStatus ctlr refs conds e gen).map (fun p => (p.ns, p.name, p.sectionName)) =
      refs.map (fun r => (r.gwNs, r.gwName, r.sectionName)) ∧
    (∀ p ∈ prepareRouteStatus ctlr refs conds e gen, p.controller = ctlr ∧ ∀ a ∈ p.conds, a.gen = gen) := by
  refine ⟨by simp [prepareRouteStatus], ?_, ?_⟩
  · simp [prepareRouteStatus, prepareParent, Function.comp_def]
  · intro p hp
    simp only [prepareRouteStatus, List.mem_map] at hp
    obtain ⟨r, _, rfl⟩ := hp
    exact ⟨rfl, fun a ha => convert_gen ha⟩

/-- every entry carries exactly one Accepted and exactly one ResolvedRefs condition -/
theorem entry_types (ctlr : String) (conds : List Cond) (e : Bool) (gen : Int) (ref : ParentRef) :
    ((prepareParent ctlr conds e gen ref).conds.map (·.type)).Nodup ∧
    "Accepted" ∈ (prepareParent ctlr conds e gen ref).conds.map (·.type) ∧
    "ResolvedRefs" ∈ (prepareParent ctlr conds e gen ref).conds.map (·.type) := by
  have hmap : (prepareParent ctlr conds e gen ref).conds.map (·.type) =
      (dedup (routeAllConds conds ref e)).map (·.type) := by
    simp [prepareParent, convert, Function.comp_def]
  rw [hmap]
  obtain ⟨hn, _, _, hall⟩ := dedup_last_wins (routeAllConds conds ref e)
  refine ⟨hn, ?_, ?_⟩
  · obtain ⟨d, hd, ht⟩ := hall routeAccepted (by simp [routeAllConds, defaultRouteConds])
    exact List.mem_map.mpr ⟨d, hd, ht⟩
  · obtain ⟨d, hd, ht⟩ := hall routeResolvedRefs (by simp [routeAllConds, defaultRouteConds])
    exact List.mem_map.mpr ⟨d, hd, ht⟩

example : (prepareRouteStatus "c" [⟨"ns", "gw", some "l0", none⟩, ⟨"ns", "gw", some "l1", none⟩] [] false 7).length = 2 := by
  decide

/-! ## routes: Accepted -/

/-- the parent entry reports `Accepted=True` -/
def acceptedTrue (conds : List Cond) (e : Bool) (ref : ParentRef) : Bool :=
  hasCond (prepareParent "c" conds e 0 ref).conds "Accepted" "True"

theorem acceptedTrue_any (ctlr : String) (gen : Int) (conds : List Cond) (e : Bool) (ref : ParentRef) :
    hasCond (prepareParent ctlr conds e gen ref).conds "Accepted" "True" = acceptedTrue conds e ref := by
  have h := hasCond_convert_dedup (routeAllConds conds ref e)
  rw [Bool.eq_iff_iff]
  simp only [acceptedTrue, prepareParent]
  rw [h gen, h 0]

private theorem condsFalse_spec {t : String} {cs : List Cond} (h : condsFalse t cs = true) :
    ∀ c ∈ cs, c.type = t → c.status = "False" := by
  intro c hc ht
  have := List.all_eq_true.mp h c hc
  simp [ht] at this
  exact this

/-- a failed reload puts `NewRouteGatewayNotProgrammed` (type Accepted, status False, reason
GatewayNotProgrammed) last, so it is the Accepted condition of every parent entry -/
theorem reload_failed_route_not_accepted (ctlr : String) (conds : List Cond) (gen : Int) (ref : ParentRef) :
    (⟨"Accepted", "False", "GatewayNotProgrammed", gen⟩ : ApiCond) ∈ (prepareParent ctlr conds true gen ref).conds ∧
    acceptedTrue conds true ref = false := by
  have hlast : lastOfType "Accepted" (routeAllConds conds ref true) = some routeGatewayNotProgrammed := by
    simp [routeAllConds, lastOfType_append, lastOfType_singleton, routeGatewayNotProgrammed]
  constructor
  · have : routeGatewayNotProgrammed ∈ dedup (routeAllConds conds ref true) := mem_dedup.mpr hlast
    simp only [prepareParent, convert, List.mem_map]
    exact ⟨_, this, rfl⟩
  · rw [Bool.eq_false_iff]
    intro h
    obtain ⟨c, hc, hs⟩ := (hasCond_convert_dedup _ _ _ _).mp h
    rw [hlast] at hc
    cases hc
    simp [routeGatewayNotProgrammed] at hs

private theorem failedConds_nil_iff (ref : ParentRef) :
    failedConds ref = [] ↔ ∀ a, ref.attachment = some a → a.attached = true := by
  unfold failedConds
  cases h : ref.attachment with
  | none => simp
  | some a => cases ha : a.attached <;> simp [ha]

/-- the Accepted condition a parentRef's own attachment contributes: none when the attachment succeeded or was
not attempted, otherwise a negative one -/
private theorem failed_last (ref : ParentRef) (hr : ref.wf = true) (t : String) :
    (failedConds ref = [] ∧ lastOfType t (failedConds ref) = none) ∨
    (failedConds ref ≠ [] ∧ lastOfType "Accepted" (failedConds ref) ≠ none ∧
      (t ≠ "Accepted" → lastOfType t (failedConds ref) = none) ∧
      ∀ c, lastOfType "Accepted" (failedConds ref) = some c → c.status = "False") := by
  unfold failedConds
  cases hf : ref.attachment with
  | none => left; exact ⟨rfl, rfl⟩
  | some a =>
    cases ha : a.attached with
    | true => left; simp [ha, lastOfType_nil]
    | false =>
      right
      have hw : a.failed.type = "Accepted" ∧ a.failed.status = "False" := by
        simpa [ParentRef.wf, hf, ha] using hr
      have h1 : lastOfType "Accepted" [a.failed] = some a.failed := by
        rw [lastOfType_singleton, if_pos hw.1]
      simp only [ha, Bool.false_eq_true, if_false]
      refine ⟨by simp, by rw [h1]; simp, ?_, ?_⟩
      · intro ht
        rw [lastOfType_singleton, if_neg]
        rw [hw.1]; exact Ne.symm ht
      · intro c hc
        rw [h1] at hc
        cases hc
        exact hw.2

/-- what the code does (under the well-formedness the graph guarantees): a parent is reported Accepted=True
exactly when the reload succeeded, the parentRef has no failed attachment, and the route carries no
route-wide Accepted condition. -/
theorem accepted_iff_attached (conds : List Cond) (e : Bool) (ref : ParentRef)
    (hc : condsFalse "Accepted" conds = true) (hr : ref.wf = true) :
    acceptedTrue conds e ref = true ↔
      e = false ∧ (∀ a, ref.attachment = some a → a.attached = true) ∧ (∀ c ∈ conds, c.type ≠ "Accepted") := by
  have hcf := condsFalse_spec hc
  simp only [acceptedTrue, prepareParent]
  rw [hasCond_convert_dedup]
  simp only [routeAllConds, lastOfType_append]
  cases e with
  | true =>
    simp [lastOfType_singleton, routeGatewayNotProgrammed]
  | false =>
    simp only [if_false, lastOfType_nil, Option.none_or, Bool.false_eq_true, true_and]
    rw [← failedConds_nil_iff]
    rcases failed_last ref hr "Accepted" with ⟨hnil, hlast⟩ | ⟨hne, hsome, _, hfalse⟩
    · rw [hlast, Option.none_or]
      simp only [hnil, true_and]
      constructor
      · rintro ⟨c, hc', hs⟩
        cases hl : lastOfType "Accepted" conds with
        | none => exact lastOfType_none_iff.mp hl
        | some d =>
          rw [hl] at hc'
          simp only [Option.some_or, Option.some.injEq] at hc'
          subst hc'
          have := hcf d (lastOfType_mem hl) (lastOfType_type hl)
          rw [this] at hs; simp at hs
      · intro hno
        rw [lastOfType_none_iff.mpr hno, Option.none_or]
        exact ⟨routeAccepted, by decide, rfl⟩
    · constructor
      · rintro ⟨c, hc', hs⟩
        cases hl : lastOfType "Accepted" (failedConds ref) with
        | none => exact absurd hl hsome
        | some d =>
          rw [hl] at hc'
          simp only [Option.some_or, Option.some.injEq] at hc'
          subst hc'
          have := hfalse d hl
          rw [this] at hs; simp at hs
      · rintro ⟨hnil, _⟩
        exact absurd hnil hne

/-- the property's reading of the decision core: Accepted=True ⇔ reload ok ∧ the attachment of this parentRef
succeeded -/
def AcceptedSpec (e : Bool) (ref : ParentRef) : Prop :=
  e = false ∧ ∃ a, ref.attachment = some a ∧ a.attached = true

/-- `AcceptedSpec` holds of the code where (i) the attachment of the parentRef was attempted and (ii) the route
carries no route-wide Accepted condition; the two excluded regions are inhabited, see the witnesses below. -/
theorem accepted_iff_attached_partial (conds : List Cond) (e : Bool) (ref : ParentRef)
    (hc : condsFalse "Accepted" conds = true) (hr : ref.wf = true)
    (hattempted : ref.attachment ≠ none) (hnowide : ∀ c ∈ conds, c.type ≠ "Accepted") :
    acceptedTrue conds e ref = true ↔ AcceptedSpec e ref := by
  rw [accepted_iff_attached conds e ref hc hr]
  unfold AcceptedSpec
  constructor
  · rintro ⟨he, ha, _⟩
    cases h : ref.attachment with
    | none => exact absurd h hattempted
    | some a => exact ⟨he, a, rfl, ha a h⟩
  · rintro ⟨he, a, ha, hat⟩
    refine ⟨he, ?_, hnowide⟩
    intro b hb
    rw [ha] at hb
    cases hb
    exact hat

/-- WITNESS (finding C07:…tlsroute-backend-count): a parentRef whose attachment was never attempted (route not
attachable) is reported Accepted=True unless the route carries its own Accepted condition — here the route only
carries ResolvedRefs=False/UnsupportedValue, as `buildTLSRoute` produces for a TLSRoute with two backendRefs. -/
theorem accepted_spec_fails_when_attachment_not_attempted :
    ∃ conds ref, condsFalse "Accepted" conds = true ∧ ref.wf = true ∧
      acceptedTrue conds false ref = true ∧ ¬ AcceptedSpec false ref :=
  ⟨[⟨"ResolvedRefs", "False", "UnsupportedValue"⟩], ⟨"ns", "gw", none, none⟩, by decide, by decide, by decide,
    by simp [AcceptedSpec]⟩

/-- WITNESS (finding C07:…InvalidListener-from-other-parent): the attachment of this parentRef succeeded and the
reload succeeded, but a route-wide `Accepted=False/InvalidListener` (appended by another parentRef that attached
only to invalid listeners) makes this parent Accepted=False. -/
theorem accepted_spec_fails_with_route_wide_condition :
    ∃ conds ref, condsFalse "Accepted" conds = true ∧ ref.wf = true ∧
      AcceptedSpec false ref ∧ acceptedTrue conds false ref = false :=
  ⟨[⟨"Accepted", "False", "InvalidListener"⟩], ⟨"ns", "gw", some "l0", some ⟨true, default⟩⟩, by decide, by decide,
    ⟨rfl, _, rfl, rfl⟩, by decide⟩

example : acceptedTrue [] false ⟨"ns", "gw", none, some ⟨true, default⟩⟩ = true := by decide
example : acceptedTrue [] false ⟨"ns", "gw", none, some ⟨false, ⟨"Accepted", "False", "NotAllowedByListeners"⟩⟩⟩ = false := by
  decide

/-! ## routes: ResolvedRefs -/

def resolvedRefsFalse (conds : List Cond) (e : Bool) (ref : ParentRef) : Bool :=
  hasCond (prepareParent "c" conds e 0 ref).conds "ResolvedRefs" "False"

/-- ResolvedRefs=False on a parent ⇔ the route carries a ResolvedRefs condition (one is appended for every
invalid backendRef and for unresolved extension filters); independent of attachment and reload. -/
theorem resolvedrefs_iff (conds : List Cond) (e : Bool) (ref : ParentRef)
    (hc : condsFalse "ResolvedRefs" conds = true) (hr : ref.wf = true) :
    resolvedRefsFalse conds e ref = true ↔ ∃ c ∈ conds, c.type = "ResolvedRefs" := by
  have hcf := condsFalse_spec hc
  simp only [resolvedRefsFalse, prepareParent]
  rw [hasCond_convert_dedup]
  have hreload : lastOfType "ResolvedRefs" (if e = true then [routeGatewayNotProgrammed] else []) = none := by
    cases e <;> simp [lastOfType_nil, lastOfType_singleton, routeGatewayNotProgrammed]
  have hfailed : lastOfType "ResolvedRefs" (failedConds ref) = none := by
    rcases failed_last ref hr "ResolvedRefs" with ⟨_, h⟩ | ⟨_, _, h, _⟩
    · exact h
    · exact h (by decide)
  simp only [routeAllConds, lastOfType_append, hreload, hfailed, Option.none_or]
  constructor
  · rintro ⟨c, hc', hs⟩
    cases hl : lastOfType "ResolvedRefs" conds with
    | none =>
      rw [hl] at hc'
      simp [defaultRouteConds, lastOfType, routeAccepted, routeResolvedRefs] at hc'
      subst hc'
      simp at hs
    | some d => exact ⟨d, lastOfType_mem hl, lastOfType_type hl⟩
  · rintro ⟨c, hcm, hct⟩
    cases hl : lastOfType "ResolvedRefs" conds with
    | none => exact absurd hct (lastOfType_none_iff.mp hl c hcm)
    | some d =>
      refine ⟨d, by simp, hcf d (lastOfType_mem hl) (lastOfType_type hl)⟩

example : resolvedRefsFalse [⟨"ResolvedRefs", "False", "BackendNotFound"⟩] true ⟨"n", "g", none, none⟩ = true := by decide
example : resolvedRefsFalse [⟨"Accepted", "False", "UnsupportedValue"⟩] false ⟨"n", "g", none, none⟩ = false := by decide

/-! ## gateways: attachedRoutes, Programmed, reload failure -/

/-- attachedRoutes of every listener = size of its Routes map + size of its L4Routes map -/
theorem attached_count (gw : Gateway) (e : Bool) (h : gw.valid = true) :
    (prepareGateway gw e).listeners.map (fun l => (l.name, l.attachedRoutes)) =
      gw.listeners.map (fun l => (l.name, l.routes.length + l.l4routes.length)) := by
  simp [prepareGateway, h, prepareListener, Function.comp_def]

/-- counting only the L7 routes would differ on a TLS listener with one attached TLSRoute -/
example : (prepareGateway ⟨"n", "g", 1, true, [], [⟨"l", true, [], [], ["TLSRoute/n/t"]⟩]⟩ false).listeners.map
    (·.attachedRoutes) = [1] := by decide

private theorem listener_not_programmed (gen : Int) (l : Listener) :
    hasCond (prepareListener gen true l).conds "Programmed" "True" = false := by
  rw [Bool.eq_false_iff]
  intro h
  obtain ⟨c, hc, hs⟩ := (hasCond_convert_dedup _ _ _ _).mp h
  simp [listenerConds, lastOfType_append, lastOfType_singleton, listenerNotProgrammedInvalid] at hc
  subst hc
  simp at hs

private theorem gateway_not_programmed (gw : Gateway) :
    hasCond (convert (dedup (gatewayConds gw true)) gw.gen) "Programmed" "True" = false := by
  rw [Bool.eq_false_iff]
  intro h
  obtain ⟨c, hc, hs⟩ := (hasCond_convert_dedup _ _ _ _).mp h
  simp [gatewayConds, lastOfType_append, lastOfType_singleton, gatewayNotProgrammedInvalid] at hc
  subst hc
  simp at hs

/-- When NGINX failed to load the configuration, nothing is reported Programmed: neither the winning Gateway,
nor any of its listeners, nor an ignored Gateway. (For a Gateway the graph found invalid the conditions come
from the graph; `Gateway.wf` — no Programmed=True among them — is checked on every real graph and follows from
the constructor table, see `facts_invalid_gateway_constructors`.) -/
theorem reload_failed_nothing_programmed (s : Summary) (h : s.reloadErr = true) (hwf : s.wf = true) :
    (prepare s).noProgrammedTrue = true := by
  simp only [Prepared.noProgrammedTrue, prepare, List.all_append, Bool.and_eq_true, h]
  constructor
  · cases hg : s.gateway with
    | none => simp
    | some gw =>
      simp only [List.all_cons, List.all_nil, Bool.and_true]
      by_cases hv : gw.valid = true
      · simp only [GatewayStatus.noProgrammedTrue, prepareGateway, hv, if_true, Bool.and_eq_true,
          Bool.not_eq_true', List.all_map, List.all_eq_true, Function.comp]
        exact ⟨gateway_not_programmed gw, fun l _ => listener_not_programmed gw.gen l⟩
      · have hv' : gw.valid = false := by simpa using hv
        have hcf : condsFalse "Programmed" gw.conds = true := by
          have : gw.wf = true := by
            simp only [Summary.wf, hg, Bool.and_eq_true] at hwf
            exact hwf.2
          simpa [Gateway.wf, hv'] using this
        simp only [GatewayStatus.noProgrammedTrue, prepareGateway, hv', Bool.false_eq_true, if_false,
          List.all_nil, Bool.and_true, Bool.not_eq_true']
        rw [Bool.eq_false_iff]
        intro hp
        obtain ⟨c, hc, hs⟩ := (hasCond_convert_dedup _ _ _ _).mp hp
        have := condsFalse_spec hcf c (lastOfType_mem hc) (lastOfType_type hc)
        rw [this] at hs; simp at hs
  · simp only [List.all_map, List.all_eq_true, Function.comp]
    intro g _
    simp [prepareIgnored, GatewayStatus.noProgrammedTrue, hasCond, convert, gatewayConflictConds]

/-- non-vacuity: with a successful reload the same summary does report Programmed=True -/
example : (prepare ⟨"c", false, some ⟨"n", "g", 1, true, [], [⟨"l", true, [], [], []⟩]⟩, [], [], [], []⟩).noProgrammedTrue = false := by
  decide
example : (prepare ⟨"c", true, some ⟨"n", "g", 1, true, [], [⟨"l", true, [], [], []⟩]⟩, [⟨"n", "h", 2⟩], [], [], []⟩).noProgrammedTrue = true := by
  decide

/-- with a successful reload a listener is reported Programmed=True exactly when the graph found it valid -/
theorem listener_programmed_iff (gen : Int) (l : Listener) (hwf : l.wf = true) :
    hasCond (prepareListener gen false l).conds "Programmed" "True" = true ↔ l.valid = true := by
  simp only [prepareListener]
  rw [hasCond_convert_dedup]
  simp only [listenerConds, lastOfType_append, Bool.false_eq_true, if_false, lastOfType_nil,
    Option.none_or]
  cases hv : l.valid with
  | true =>
    simp only [if_true, iff_true]
    exact ⟨listenerProgrammed, by decide, rfl⟩
  | false =>
    simp only [Bool.false_eq_true, if_false, iff_false]
    rintro ⟨c, hc, hs⟩
    have hcf : condsFalse "Programmed" l.conds = true := by
      simp only [Listener.wf, hv, Bool.false_or, Bool.and_eq_true] at hwf
      exact hwf.2
    have := condsFalse_spec hcf c (lastOfType_mem hc) (lastOfType_type hc)
    rw [this] at hs; simp at hs

/-- every condition of the Gateway status carries the Gateway's generation -/
theorem gateway_generation_current (gw : Gateway) (e : Bool) :
    (∀ a ∈ (prepareGateway gw e).conds, a.gen = gw.gen) ∧
    (∀ l ∈ (prepareGateway gw e).listeners, ∀ a ∈ l.conds, a.gen = gw.gen) := by
  unfold prepareGateway
  split
  · refine ⟨fun a ha => convert_gen ha, ?_⟩
    intro l hl a ha
    simp only [List.mem_map] at hl
    obtain ⟨x, _, rfl⟩ := hl
    exact convert_gen ha
  · exact ⟨fun a ha => convert_gen ha, by simp⟩

/-! ## policies -/

/-- exactly one ancestor entry per ancestor of the graph policy, in order, with our controller name and the
policy's current generation -/
theorem policy_one_entry_per_ancestor (ctlr : String) (p : Policy) :
    (preparePolicy ctlr p).ancestors.map (·.ref) = p.ancestors.map (·.ref) ∧
    (∀ a ∈ (preparePolicy ctlr p).ancestors, a.controller = ctlr ∧ ∀ c ∈ a.conds, c.gen = p.gen) := by
  constructor
  · simp [preparePolicy, prepareAncestor, Function.comp_def]
  · intro a ha
    simp only [preparePolicy, List.mem_map] at ha
    obtain ⟨x, _, rfl⟩ := ha
    exact ⟨rfl, fun c hc => convert_gen hc⟩

/-- a BackendTLSPolicy gets at most one ancestor entry — the winning Gateway — and only when it is referenced
and not ignored -/
theorem btp_one_ancestor (ctlr : String) (b : BTP) :
    ((prepareBTP ctlr b).ancestors.length = if b.referenced && !b.ignored then 1 else 0) ∧
    (∀ a ∈ (prepareBTP ctlr b).ancestors,
      a.ref = ⟨gatewayGroup, "Gateway", b.gwNs, b.gwName⟩ ∧ a.controller = ctlr ∧ ∀ c ∈ a.conds, c.gen = b.gen) := by
  unfold prepareBTP
  cases b.referenced <;> cases b.ignored <;> simp
  intro c hc
  exact convert_gen hc

/-- policy conditions override ancestor conditions, which override the default Accepted=True -/
theorem policy_accepted_iff (ctlr : String) (p : Policy) (a : Ancestor) :
    hasCond (prepareAncestor ctlr p a).conds "Accepted" "True" = true ↔
      match lastOfType "Accepted" p.conds, lastOfType "Accepted" a.conds with
      | some c, _ => c.status = "True"
      | none, some c => c.status = "True"
      | none, none => True := by
  simp only [prepareAncestor]
  rw [hasCond_convert_dedup]
  simp only [lastOfType_append]
  cases lastOfType "Accepted" p.conds <;> cases lastOfType "Accepted" a.conds <;>
    simp [lastOfType_singleton, policyAccepted]

example : (preparePolicy "c" ⟨"ClientSettingsPolicy", "n", "p", 3, [],
    [⟨⟨gatewayGroup, "Gateway", "n", "g"⟩, []⟩, ⟨⟨gatewayGroup, "HTTPRoute", "n", "r"⟩, []⟩]⟩).ancestors.length = 2 := by
  decide

end NGF.StatusPrep

/-! ## the handler: the reload result that reaches status preparation (`NGF.Model.HandlerStatus`) -/
namespace NGF.HandlerStatus
open NGF.StatusPrep

/-- For every change type that applies something, a failing apply (files, reload, or Plus upstream update) is what
`updateStatuses` receives and what `latestReloadResult` keeps. -/
theorem failure_surfaces_for_every_change_type (plus : Bool) (s : HState) (ct : ChangeType) (o : Outcome)
    (hct : ct ≠ .noChange) (hfail : applyErr plus s.latestErr ct o = true) :
    (step plus s ct o).2 = some true ∧ (step plus s ct o).1.latestErr = true ∧ (step plus s ct o).1.lastFail = true := by
  cases ct with
  | noChange => exact absurd rfl hct
  | endpointsOnly => simp [step, stepWith, hfail]
  | clusterState => simp [step, stepWith, hfail]

/-- … and what the statuses written after such a batch say, for every graph summary: nothing is Programmed=True
and no route parent is Accepted=True. -/
theorem failed_batch_statuses (plus : Bool) (s : HState) (ct : ChangeType) (o : Outcome) (su : Summary)
    (hct : ct ≠ .noChange) (hfail : applyErr plus s.latestErr ct o = true) (hwf : su.wf = true) :
    ∃ e, (step plus s ct o).2 = some e ∧
      (prepare { su with reloadErr := e }).noProgrammedTrue = true ∧
      ∀ r ∈ su.routes, ∀ ref ∈ r.parentRefs, acceptedTrue r.conds e ref = false := by
  refine ⟨true, (failure_surfaces_for_every_change_type plus s ct o hct hfail).1, ?_, ?_⟩
  · exact reload_failed_nothing_programmed { su with reloadErr := true } rfl (by simpa [Summary.wf] using hwf)
  · intro r _ ref _
    exact (reload_failed_route_not_accepted "c" r.conds 0 ref).2

theorem success_clears (plus : Bool) (s : HState) (ct : ChangeType) (o : Outcome)
    (hct : ct ≠ .noChange) (hok : applyErr plus s.latestErr ct o = false) :
    (step plus s ct o).2 = some false ∧ (step plus s ct o).1.latestErr = false := by
  cases ct with
  | noChange => exact absurd rfl hct
  | endpointsOnly => simp [step, stepWith, hok]
  | clusterState => simp [step, stepWith, hok]

/-- a batch without changes neither touches the recorded result nor issues statuses -/
theorem nochange_is_silent (plus : Bool) (s : HState) (o : Outcome) : step plus s .noChange o = (s, none) := rfl

/-- each failure kind is a failure for each applying change type where it is exercised -/
theorem applyErr_cases (plus prevErr : Bool) (o : Outcome) :
    (applyErr plus prevErr .clusterState o = (!o.writeOk || !o.reloadOk || (plus && !o.apiOk))) ∧
    (applyErr false prevErr .endpointsOnly o = (!o.writeOk || !o.reloadOk)) ∧
    (applyErr true false .endpointsOnly o = !o.apiOk) ∧
    -- since c94173a: with Plus, after a remembered failure, an endpoints-only change is a full apply
    (applyErr true true .endpointsOnly o = (!o.writeOk || !o.reloadOk || !o.apiOk)) := by
  obtain ⟨w, r, a⟩ := o
  cases plus <;> cases prevErr <;> cases w <;> cases r <;> cases a <;> simp [applyErr, apiOnly, nginxConfErr, upstreamsErr]

/-- the recorded result is always the failure of the last apply … -/
theorem latestErr_is_lastFail (plus : Bool) (bs : List (ChangeType × Outcome)) (s : HState)
    (h : s.latestErr = s.lastFail) : (run plus s bs).latestErr = (run plus s bs).lastFail := by
  induction bs generalizing s with
  | nil => exact h
  | cons b rest ih =>
    obtain ⟨ct, o⟩ := b
    apply ih
    cases ct <;> simp [step, stepWith, h]

/-- invariant step: a stale configuration implies a remembered failure -/
theorem step_stale_implies_lastFail (plus : Bool) (s : HState) (ct : ChangeType) (o : Outcome)
    (h1 : s.latestErr = s.lastFail) (h2 : s.stale = true → s.lastFail = true) :
    (step plus s ct o).1.stale = true → (step plus s ct o).1.lastFail = true := by
  obtain ⟨w, r, a⟩ := o
  cases ct with
  | noChange => exact h2
  | clusterState =>
    simp only [step, stepWith, fullApply, applyErr, nginxConfErr, if_true]
    cases w <;> cases r <;> simp
  | endpointsOnly =>
    cases hap : apiOnly plus s.latestErr with
    | true =>
      simp only [step, stepWith, fullApply, applyErr, hap, Bool.not_true, Bool.false_eq_true, if_false, if_true]
      intro hst
      have hl := h2 hst
      rw [← h1] at hl
      simp [apiOnly, hl] at hap
    | false =>
      simp only [step, stepWith, fullApply, applyErr, hap, Bool.not_false, if_true, Bool.false_eq_true, if_false, nginxConfErr]
      cases w <;> cases r <;> simp

/-- … and that is the TRUTH for every batch history, with or without NGINX Plus (full strength since /repo c94173a; before the
fix the Plus case had an exception, see `prefix_plus_reports_success_while_stale`): the handler remembers a failure exactly when
NGINX does not run the last applied configuration. Invariant: a stale configuration implies a remembered failure, and an
endpoints-only change goes through the Plus API alone only when nothing is remembered. -/
theorem reload_result_is_truth (plus : Bool) (bs : List (ChangeType × Outcome)) :
    (run plus init bs).latestErr = (run plus init bs).failed := by
  have key : ∀ (bs : List (ChangeType × Outcome)) (s : HState),
      s.latestErr = s.lastFail → (s.stale = true → s.lastFail = true) →
      (run plus s bs).latestErr = (run plus s bs).lastFail ∧ ((run plus s bs).stale = true → (run plus s bs).lastFail = true) := by
    intro bs
    induction bs with
    | nil => intro s h1 h2; exact ⟨h1, h2⟩
    | cons b rest ih =>
      intro s h1 h2
      obtain ⟨ct, o⟩ := b
      apply ih
      · cases ct <;> simp [step, stepWith, h1]
      · exact step_stale_implies_lastFail plus s ct o h1 h2
  obtain ⟨h1, h2⟩ := key bs init rfl (by simp [init])
  cases hs : (run plus init bs).stale with
  | false => simp [HState.failed, hs, h1]
  | true => simp [HState.failed, hs, h1, h2 hs]

/-- the OSS instance (kept under its old name) -/
theorem oss_reload_result_is_truth (bs : List (ChangeType × Outcome)) :
    (run false init bs).latestErr = (run false init bs).failed := reload_result_is_truth false bs

/-- PRE-FIX WITNESS (regression detector; fixed by /repo c94173a, formerly finding C07:…stale-after-plus-endpoints-only-update):
with the old EndpointsOnlyChange arm (`if h.cfg.plus`), a cluster-state batch whose reload fails followed by an endpoints-only
batch whose API update succeeds leaves `latestReloadResult` empty although NGINX never loaded the configuration — statuses
turned Programmed=True / Accepted=True. With the repaired arm the same history keeps the failure. -/
theorem prefix_plus_reports_success_while_stale :
    (let s := runPreFix true init [(.clusterState, ⟨true, false, true⟩), (.endpointsOnly, ⟨true, true, true⟩)]
     s.latestErr = false ∧ s.failed = true) ∧
    (let s := run true init [(.clusterState, ⟨true, false, true⟩), (.endpointsOnly, ⟨true, true, false⟩)]
     s.latestErr = true ∧ s.failed = true) ∧
    (let s := run true init [(.clusterState, ⟨true, false, true⟩), (.endpointsOnly, ⟨true, true, true⟩)]
     s.latestErr = false ∧ s.failed = false) := by decide

/-! ### Gateway status writes outside batch processing (NGF front Service upsert / delete callbacks) -/

/-- `failure_surfaces_for_out_of_batch_writes`: after a batch whose apply failed (any applying change type, any failure kind),
every Gateway status write done outside batch processing — in any later batch that carries an NGF-Service event, whatever
else it carries, until the next applying batch — uses the failure: NoChange batches in between do not clear it, and the
write of a batch that itself applies something happens before that apply, so it still uses the failure. -/
theorem failure_surfaces_for_out_of_batch_writes (plus : Bool) (s : HState) (ct : ChangeType) (o : Outcome)
    (hct : ct ≠ .noChange) (hfail : applyErr plus s.latestErr ct o = true)
    (idle : List Outcome) (ct' : ChangeType) (o' : Outcome) :
    (stepSvc plus (run plus (step plus s ct o).1 (idle.map fun x => (ChangeType.noChange, x))) true ct' o').2.1 = some true := by
  have hidle : ∀ (l : List Outcome) (t : HState), run plus t (l.map fun x => (ChangeType.noChange, x)) = t := by
    intro l
    induction l with
    | nil => intro t; rfl
    | cons x xs ih => intro t; simp [run, step, stepWith, ih]
  rw [hidle]
  simp [stepSvc, outOfBatchWrite, (failure_surfaces_for_every_change_type plus s ct o hct hfail).2.1]

/-- … and what such a write says, for every graph summary: nothing is Programmed=True (the Gateway, its listeners, ignored
Gateways), composed with `reload_failed_nothing_programmed` -/
theorem out_of_batch_write_after_failure_not_programmed (plus : Bool) (s : HState) (ct : ChangeType) (o : Outcome)
    (su : Summary) (hct : ct ≠ .noChange) (hfail : applyErr plus s.latestErr ct o = true) (hwf : su.wf = true) :
    (prepare { su with reloadErr := outOfBatchWrite (step plus s ct o).1 }).noProgrammedTrue = true := by
  have h : outOfBatchWrite (step plus s ct o).1 = true :=
    (failure_surfaces_for_every_change_type plus s ct o hct hfail).2.1
  rw [h]
  exact reload_failed_nothing_programmed { su with reloadErr := true } rfl (by simpa [Summary.wf] using hwf)

/-- an out-of-batch write always uses the truth, for every batch history, with or without NGINX Plus (unconditional since c94173a) -/
theorem out_of_batch_write_is_truth (plus : Bool) (bs : List (ChangeType × Outcome)) :
    outOfBatchWrite (run plus init bs) = (run plus init bs).failed := reload_result_is_truth plus bs

/-- a batch that only carries the NGF-Service event (NoChange) leaves the Gateway status the callback wrote; a batch that
applies something overwrites it with its own result -/
theorem lastGatewayWrite_cases (plus : Bool) (s : HState) (o : Outcome) (ct : ChangeType) (hct : ct ≠ .noChange) :
    lastGatewayWrite plus s true .noChange o = some s.latestErr ∧ lastGatewayWrite plus s false .noChange o = none ∧
    lastGatewayWrite plus s true ct o = some (applyErr plus s.latestErr ct o) := by
  refine ⟨rfl, rfl, ?_⟩
  cases ct with
  | noChange => exact absurd rfl hct
  | endpointsOnly => rfl
  | clusterState => rfl

/-- REFUTED VARIANT (seeded change C07-r3m1): remembering the by-value result BEFORE the error is recorded in it makes every
out-of-batch write after a failed apply claim success, for every change type and failure kind — the batch's own statuses (they
get the result as a parameter) stay right, which is why only the callbacks show it -/
theorem by_value_before_error_refuted (plus : Bool) (s : HState) (ct : ChangeType) (o : Outcome)
    (hct : ct ≠ .noChange) (hfail : applyErr plus s.latestErr ct o = true) :
    (stepStoreBeforeError plus s ct o).2 = some true ∧
    outOfBatchWrite (stepStoreBeforeError plus s ct o).1 = false ∧
    (stepStoreBeforeError plus s ct o).1.failed = true ∧
    outOfBatchWrite (step plus s ct o).1 = true := by
  have h := failure_surfaces_for_every_change_type plus s ct o hct hfail
  cases ct with
  | noChange => exact absurd rfl hct
  | endpointsOnly =>
    refine ⟨?_, rfl, ?_, h.2.1⟩
    · simpa [stepStoreBeforeError] using h.1
    · simp [stepStoreBeforeError, HState.failed, h.2.2]
  | clusterState =>
    refine ⟨?_, rfl, ?_, h.2.1⟩
    · simpa [stepStoreBeforeError] using h.1
    · simp [stepStoreBeforeError, HState.failed, h.2.2]

/-! ### recovery: a successful apply clears the remembered failure -/

/-- `success_clears_failure`: for EVERY batch history (with or without NGINX Plus), whenever NGINX runs the last applied
configuration (`failed = false`) the remembered result is "no error" — so the statuses of the last applying batch and every
out-of-batch Gateway status write after it are those of a fresh handler with a nil reload result. -/
theorem success_clears_failure (plus : Bool) (bs : List (ChangeType × Outcome))
    (hok : (run plus init bs).failed = false) :
    (run plus init bs).latestErr = false ∧ outOfBatchWrite (run plus init bs) = false := by
  have h := latestErr_is_lastFail plus bs init rfl
  have : (run plus init bs).lastFail = false := by
    simp only [HState.failed, Bool.or_eq_false_iff] at hok
    exact hok.2
  exact ⟨h.trans this, h.trans this⟩

/-- fail → succeed → (NoChange)* → a batch with the NGF-Service event: the out-of-batch write and, if the batch itself applies
nothing, the Gateway status that stands afterwards use "no error" -/
theorem success_clears_failure_for_out_of_batch_writes (plus : Bool) (s : HState) (ct ct' : ChangeType) (o o' : Outcome)
    (hct' : ct' ≠ .noChange) (hok : applyErr plus (step plus s ct o).1.latestErr ct' o' = false) (idle : List Outcome) (o'' : Outcome) :
    let t := run plus (step plus (step plus s ct o).1 ct' o').1 (idle.map fun x => (ChangeType.noChange, x))
    (stepSvc plus t true .noChange o'').2.1 = some false ∧ lastGatewayWrite plus t true .noChange o'' = some false := by
  have hidle : ∀ (l : List Outcome) (t : HState), run plus t (l.map fun x => (ChangeType.noChange, x)) = t := by
    intro l
    induction l with
    | nil => intro t; rfl
    | cons x xs ih => intro t; simp [run, step, stepWith, ih]
  have h := (success_clears plus (step plus s ct o).1 ct' o' hct' hok).2
  simp only [hidle]
  exact ⟨by simp [stepSvc, outOfBatchWrite, h], by rw [(lastGatewayWrite_cases plus _ o'' .clusterState (by decide)).1, h]⟩

/-- REFUTED VARIANT (seeded change C01-r4m3): writing the failure into the remembered field and never overwriting it after a
success: after fail → succeed (any applying change types, any failure kind) the batch's own statuses and every later
out-of-batch write still say "failed" although NGINX runs the last applied configuration -/
theorem sticky_error_refuted (s : HState) (ct ct' : ChangeType) (o o' : Outcome)
    (hct : ct ≠ .noChange) (hct' : ct' ≠ .noChange) (hfail : applyErr false false ct o = true) (hok : applyErr false false ct' o' = false) :
    let t := (stepStickyError false (stepStickyError false s ct o).1 ct' o')
    t.2 = some true ∧ outOfBatchWrite t.1 = true ∧
    (step false (step false s ct o).1 ct' o').2 = some false := by
  cases ct with
  | noChange => exact absurd rfl hct
  | endpointsOnly =>
    cases ct' with
    | noChange => exact absurd rfl hct'
    | endpointsOnly => (simp [applyErr, apiOnly] at hfail hok; simp [stepStickyError, step, stepWith, outOfBatchWrite, applyErr, apiOnly, hfail, hok])
    | clusterState => (simp [applyErr, apiOnly] at hfail hok; simp [stepStickyError, step, stepWith, outOfBatchWrite, applyErr, apiOnly, hfail, hok])
  | clusterState =>
    cases ct' with
    | noChange => exact absurd rfl hct'
    | endpointsOnly => (simp [applyErr, apiOnly] at hfail hok; simp [stepStickyError, step, stepWith, outOfBatchWrite, applyErr, apiOnly, hfail, hok])
    | clusterState => (simp [applyErr, apiOnly] at hfail hok; simp [stepStickyError, step, stepWith, outOfBatchWrite, applyErr, apiOnly, hfail, hok])

/-- concrete: reload fails, the next cluster-state batch reloads fine: truth "runs the last configuration", the sticky variant
still remembers the failure, the real step does not -/
example :
    (run false init [(.clusterState, ⟨true, false, true⟩), (.clusterState, ⟨true, true, true⟩)]).failed = false ∧
    (run false init [(.clusterState, ⟨true, false, true⟩), (.clusterState, ⟨true, true, true⟩)]).latestErr = false ∧
    (stepStickyError false (stepStickyError false init .clusterState ⟨true, false, true⟩).1 .clusterState ⟨true, true, true⟩).1.latestErr = true := by
  decide

/-- concrete witness: reload fails in a cluster-state batch, then the LoadBalancer address of the NGF Service arrives alone -/
example : (stepSvc false (step false init .clusterState ⟨true, false, true⟩).1 true .noChange ⟨true, true, true⟩).2.1 = some true ∧
    outOfBatchWrite (stepStoreBeforeError false init .clusterState ⟨true, false, true⟩).1 = false := by decide

example : (step false init .endpointsOnly ⟨true, false, true⟩).2 = some true := by decide
example : (step true init .endpointsOnly ⟨true, true, false⟩).2 = some true := by decide
example : (step false init .clusterState ⟨false, true, true⟩).2 = some true := by decide

end NGF.HandlerStatus

/-! ## policy ancestors of Service-targeting policies (`NGF.Model.PolicyAttach`, mirror of `attachPolicyToService`) -/
namespace NGF.PolicyAttach
open NGF.StatusPrep

theorem attachToService_of_contains (gw : AncRef) (v : Bool) (as : List Ancestor) (h : containsRef as gw = true) :
    attachToService gw v as = as := by
  cases v <;> simp [attachToService, h]

theorem attachServices_of_contains (gw : AncRef) (v : Bool) (n : Nat) (as : List Ancestor) (h : containsRef as gw = true) :
    attachServices gw v n as = as := by
  induction n with
  | zero => rfl
  | succ k ih => simp [attachServices, attachToService_of_contains gw v as h, ih]

/-- `policy_service_targets_one_gateway_ancestor`: a Service-targeting policy whose targetRefs name ANY number n ≥ 1 of referenced
Services gets EXACTLY ONE ancestor entry, for the winning Gateway — Accepted by default when the Gateway is valid,
TargetNotFound when it is invalid; and none when no targetRef names a referenced Service -/
theorem policy_service_targets_one_gateway_ancestor (gw : AncRef) (v : Bool) (n : Nat) :
    attachServices gw v (n + 1) [] = [⟨gw, if v then [] else [targetNotFound]⟩] ∧ attachServices gw v 0 [] = [] := by
  refine ⟨?_, rfl⟩
  have h1 : attachToService gw v [] = [⟨gw, if v then [] else [targetNotFound]⟩] := by
    cases v <;> simp [attachToService, containsRef]
  have hc : containsRef [⟨gw, if v then [] else [targetNotFound]⟩] gw = true := by simp [containsRef]
  simp only [attachServices, h1]
  exact attachServices_of_contains gw v n _ hc

/-- … hence `preparePolicy` writes exactly one ancestor status for it (composition with `policy_one_entry_per_ancestor`'s map) -/
theorem policy_service_targets_one_status_entry (ctlr : String) (p : Policy) (gw : AncRef) (v : Bool) (n : Nat)
    (hp : p.ancestors = attachServices gw v (n + 1) []) :
    (preparePolicy ctlr p).ancestors.map (·.ref) = [gw] := by
  rw [preparePolicy, hp, (policy_service_targets_one_gateway_ancestor gw v n).1]
  simp [prepareAncestor]

/-- REFUTED VARIANT (seeded change C07-r4m1): without the `ancestorsContainsAncestorRef` test in the invalid-Gateway branch a
policy on n referenced Services gets n identical entries -/
theorem no_dedup_invalid_gateway_refuted (gw : AncRef) (n : Nat) :
    (attachServicesNoDedup gw false n []).length = n ∧ ∀ a ∈ attachServicesNoDedup gw false n [], a.ref = gw := by
  have key : ∀ (n : Nat) (as : List Ancestor), (∀ a ∈ as, a.ref = gw) →
      (attachServicesNoDedup gw false n as).length = as.length + n ∧ ∀ a ∈ attachServicesNoDedup gw false n as, a.ref = gw := by
    intro n
    induction n with
    | zero => intro as h; exact ⟨rfl, h⟩
    | succ k ih =>
      intro as h
      have h' : ∀ a ∈ attachToServiceNoDedup gw false as, a.ref = gw := by
        intro a ha
        simp only [attachToServiceNoDedup, Bool.not_false, if_true, List.mem_append, List.mem_singleton] at ha
        rcases ha with ha | rfl
        · exact h a ha
        · rfl
      obtain ⟨h1, h2⟩ := ih _ h'
      refine ⟨?_, h2⟩
      simp only [attachServicesNoDedup, h1]
      simp [attachToServiceNoDedup]; omega
  have := key n [] (by simp)
  simpa using this

example : (attachServices ⟨"g", "Gateway", "d", "gw"⟩ false 3 []).length = 1 ∧
    (attachServicesNoDedup ⟨"g", "Gateway", "d", "gw"⟩ false 3 []).length = 3 := by decide

end NGF.PolicyAttach

/-! ## the independent binding oracle of the judge: sanity theorems -/
namespace NGF.StatusJudge

/-- a listener without hostname intersects every route hostname; an exact listener does not intersect another name -/
theorem hostMatch_any (r : String) : hostMatch "" r = true := by simp [hostMatch]

example : hostMatch "*.example.com" "foo.example.com" = true := by decide +kernel
example : hostMatch "*.example.com" "example.com" = false := by decide +kernel
example : hostMatch "foo.example.com" "*.example.com" = true := by decide +kernel
example : hostMatch "foo.example.com" "bar.org" = false := by decide +kernel
example : acceptedHosts "*.example.com" ["foo.example.com", "bar.org"] = ["foo.example.com"] := by decide +kernel
example : acceptedHosts "" [] = ["~^"] := by decide +kernel

/-- a route without hostnames is always accepted on exactly one name -/
theorem acceptedHosts_no_route_hostnames (l : String) : (acceptedHosts l []).length = 1 := by
  simp [acceptedHosts]

/-- a parentRef with a `port` selects no listener (not supported by this implementation) -/
theorem selectsListener_port (p : OParentRef) (l : OListener) (h : p.port ≠ none) : selectsListener p l = false := by
  unfold selectsListener
  cases hp : p.port with
  | none => exact absurd hp h
  | some n => simp

end NGF.StatusJudge

/-! ## expectation lemmas over the facts regenerated from /repo -/
namespace NGF.StatusPrep
open NGF.Generated.Conditions

def lookup (name : String) : Option (List Cond) :=
  (table.find? (·.1 = name)).map fun e => e.2.map fun t => ⟨t.1, t.2.1, t.2.2⟩

/-- the conditions added on reload failure are the ones the model appends -/
theorem facts_reload_conditions :
    lookup "NewRouteGatewayNotProgrammed" = some [routeGatewayNotProgrammed] ∧
    lookup "NewListenerNotProgrammedInvalid" = some [listenerNotProgrammedInvalid] ∧
    lookup "NewGatewayNotProgrammedInvalid" = some [gatewayNotProgrammedInvalid] := by decide

theorem facts_default_conditions :
    lookup "NewDefaultRouteConditions" = some defaultRouteConds ∧
    lookup "NewDefaultListenerConditions" = some defaultListenerConds ∧
    lookup "NewDefaultGatewayConditions" = some defaultGatewayConds ∧
    lookup "NewPolicyAccepted" = some [policyAccepted] := by decide

theorem facts_gateway_conditions :
    lookup "NewGatewayNotAcceptedListenersNotValid" = some gatewayNotAcceptedListenersNotValid ∧
    lookup "NewGatewayAcceptedListenersNotValid" = some [gatewayAcceptedListenersNotValid] ∧
    lookup "NewGatewayConflict" = some gatewayConflictConds := by decide

/-- constructors that may report something positive -/
def positiveConstructors : List String :=
  ["NewDefaultGatewayClassConditions", "NewDefaultGatewayConditions", "NewDefaultListenerConditions",
   "NewDefaultRouteConditions", "NewGatewayAccepted", "NewGatewayAcceptedListenersNotValid",
   "NewGatewayClassInvalidParameters", "NewGatewayClassResolvedRefs", "NewGatewayProgrammed", "NewListenerAccepted",
   "NewListenerProgrammed", "NewListenerResolvedRefs", "NewPolicyAccepted", "NewRouteAccepted", "NewRouteResolvedRefs",
   "NewSnippetsFilterAccepted", "NewNginxGatewayValid"]

/-- `Route.wf` / `Listener.wf` / `Gateway.wf` from the source: outside the explicit list of positive constructors
(none of which the graph appends to `route.Conditions`, `FailedCondition`, an invalid listener's or an invalid
gateway's conditions) every condition of type Accepted, ResolvedRefs or Programmed is negative -/
theorem facts_only_listed_constructors_positive :
    table.all (fun e =>
      positiveConstructors.contains e.1 ||
        e.2.all fun t => (t.1 ≠ "Accepted" && t.1 ≠ "ResolvedRefs" && t.1 ≠ "Programmed") || t.2.1 = "False") = true := by
  decide

/-- every constructor that invalidates a listener carries Programmed=False -/
theorem facts_invalid_listener_constructors :
    (["NewListenerUnsupportedValue", "NewListenerInvalidCertificateRef", "NewListenerInvalidRouteKinds",
      "NewListenerProtocolConflict", "NewListenerHostnameConflict", "NewListenerUnsupportedProtocol",
      "NewListenerRefNotPermitted"].all fun n =>
      match lookup n with
      | some cs => cs.any (fun c => c.type = "Programmed" && c.status = "False") && condsFalse "Programmed" cs
      | none => false) = true := by decide

/-- every attachment failure is an Accepted=False condition -/
theorem facts_failed_attachment_constructors :
    (["NewRouteNoMatchingParent", "NewRouteUnsupportedValue", "NewRouteNotAcceptedGatewayIgnored",
      "NewRouteInvalidGateway", "NewRouteInvalidListener", "NewRouteNotAllowedByListeners",
      "NewRouteNoMatchingListenerHostname", "NewRouteHostnameConflict"].all fun n =>
      match lookup n with
      | some [c] => c.type = "Accepted" && c.status = "False"
      | _ => false) = true := by decide

/-- `Gateway.wf` from the source: the constructors `validateGateway` uses carry Programmed=False only -/
theorem facts_invalid_gateway_constructors :
    (["NewGatewayInvalid", "NewGatewayUnsupportedValue", "NewGatewayConflict"].all fun n =>
      match lookup n with
      | some cs => cs.any (fun c => c.type = "Programmed" && c.status = "False") && condsFalse "Programmed" cs
      | none => false) = true := by decide

/-- the functions the model mirrors are the ones it was written against -/
theorem facts_prepareRouteStatus_body :
    prepareRouteStatusBody = Expected.prepareRouteStatusBody ∧
    prepareRouteStatusCalls = Expected.prepareRouteStatusCalls := ⟨rfl, rfl⟩

theorem facts_prepareGatewayRequest_body :
    prepareGatewayRequestBody = Expected.prepareGatewayRequestBody ∧
    prepareGatewayRequestsBody = Expected.prepareGatewayRequestsBody := ⟨rfl, rfl⟩

theorem facts_policy_requests_body :
    prepareNGFPolicyRequestsBody = Expected.prepareNGFPolicyRequestsBody ∧
    prepareBackendTLSPolicyRequestsBody = Expected.prepareBackendTLSPolicyRequestsBody := ⟨rfl, rfl⟩

theorem facts_conditions_body :
    deduplicateConditionsBody = Expected.deduplicateConditionsBody ∧
    convertConditionsBody = Expected.convertConditionsBody := ⟨rfl, rfl⟩

theorem facts_reload_error_branches : reloadErrorBranches = Expected.reloadErrorBranches := rfl

/-- HandleEventBatch assigns the error of every applying case to the one `err` that becomes
`latestReloadResult` (a shadowed `err` in a case would be a different text) -/
theorem facts_handler_body :
    handleEventBatchBody = Expected.handleEventBatchBody ∧
    updateNginxConfBody = Expected.updateNginxConfBody := ⟨rfl, rfl⟩

end NGF.StatusPrep
