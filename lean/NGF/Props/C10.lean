/-
C10 — property theorems for the event loop model (`NGF.Model.Loop`).
Every theorem quantifies over *all* schedules (lists of actions), i.e. all interleavings of
producers, handler completion and cancellation.
-/
import NGF.Model.Loop
import NGF.Generated.LoopFacts

namespace NGF.Loop

/-- The invariant. `first` is the start-up batch. -/
structure Inv (first : List Ev) (s : Loop) : Prop where
  /-- exactly once, in order, nothing lost: handled batches ++ pending = first ++ received -/
  conserve   : s.log.flatten ++ s.next = first ++ s.seen
  /-- no event waits while the handler is idle -/
  idle_empty : s.handling = false → s.next = [] ∧ s.h = .idle
  /-- the slice the handler reads is the batch that was logged when it started -/
  view       : s.h ≠ .idle → s.log.getLast? = some s.current
  busy       : s.h ≠ .idle → s.handling = true
  /-- never two handlers at once -/
  no_overlap : s.overlap = false
  /-- Start returns only after the in-flight batch finished -/
  stop_idle  : s.phase = .stopped → s.h = .idle
  drain_busy : s.phase = .draining → s.handling = true
  /-- start-up batch first -/
  first_head : s.log.head? = some first
  /-- no empty batch is ever handed to the handler (except possibly the start-up batch) -/
  nonempty   : ∀ b ∈ s.log.tail, b ≠ []

theorem inv_init (first : List Ev) : Inv first (init first) := by
  constructor <;> simp [init, Loop.next, Loop.current, Loop.cell]

private theorem flatten_snoc (l : List (List Ev)) (b : List Ev) :
    (l ++ [b]).flatten = l.flatten ++ b := by simp

private theorem tail_snoc_mem {l : List (List Ev)} {b x : List Ev} (hl : l ≠ [])
    (hx : x ∈ (l ++ [b]).tail) : x ∈ l.tail ∨ x = b := by
  cases l with
  | nil => exact absurd rfl hl
  | cons a t => simpa using hx

private theorem head_snoc {l : List (List Ev)} {b f : List Ev} (h : l.head? = some f) :
    (l ++ [b]).head? = some f := by
  cases l with
  | nil => simp at h
  | cons a t => simpa using h

theorem inv_step {first : List Ev} {s : Loop} (hi : Inv first s) (a : Act)
    (he : enabled s a = true) : Inv first (step s a) := by
  obtain ⟨c, ie, v, b, no, si, db, fh, ne⟩ := hi
  have hlog : s.log ≠ [] := by
    intro h; rw [h] at fh; simp at fh
  cases a with
  | recv e =>
    simp only [enabled, beq_iff_eq] at he
    cases hh : s.handling with
    | true =>
      have : step s (.recv e) =
          { (s.setCell (!s.cur) (s.next ++ [e])) with seen := s.seen ++ [e] } := by
        simp only [step]
        cases hc : s.cur <;> simp [Loop.setCell, hh]
      rw [this]
      cases hc : s.cur <;>
      (constructor <;>
        simp_all [Loop.setCell, Loop.next, Loop.current, Loop.cell, ← List.append_assoc])
    | false =>
      obtain ⟨hn, hidle⟩ := ie hh
      cases hc : s.cur <;>
      (constructor <;>
        simp_all [step, swapAndHandle, start, swap, Loop.setCell, Loop.next, Loop.current,
          Loop.cell, List.getLast?_append] <;>
        first
          | done
          | (intro x hx; rcases hx with h | h
             · exact ne x h
             · subst h; simp_all))
  | hreturn =>
    simp only [enabled, beq_iff_eq] at he
    constructor <;> simp_all [step, Loop.next, Loop.current, Loop.cell]
  | ack =>
    simp only [enabled, Bool.and_eq_true, beq_iff_eq] at he
    obtain ⟨hp, hr⟩ := he
    by_cases hlen : s.next.length > 0
    · have hne : s.next ≠ [] := by intro h; simp [h] at hlen
      cases hc : s.cur <;>
      (constructor <;>
        simp_all [step, swapAndHandle, start, swap, Loop.setCell, Loop.next, Loop.current,
          Loop.cell, List.getLast?_append] <;>
        first
          | done
          | (intro x hx; rcases hx with h | h
             · exact ne x h
             · subst h; simp_all))
    · have hnil : s.next = [] := by
        cases hx : s.next with
        | nil => rfl
        | cons a t => simp [hx] at hlen
      cases hc : s.cur <;>
      (constructor <;>
        simp_all [step, Loop.next, Loop.current, Loop.cell])
  | cancel =>
    simp only [enabled, beq_iff_eq] at he
    cases hh : s.handling <;>
    (constructor <;> simp_all [step, Loop.next, Loop.current, Loop.cell])
  | drainack =>
    simp only [enabled, Bool.and_eq_true, beq_iff_eq] at he
    constructor <;> simp_all [step, Loop.next, Loop.current, Loop.cell]

/-- Every state reachable by any legal schedule satisfies the invariant. -/
theorem inv_reach {first : List Ev} :
    ∀ (as : List Act) (s : Loop), Inv first s → Inv first (run s as)
  | [], _, hi => hi
  | a :: as, s, hi => by
    simp only [run]
    split
    · next he => exact inv_reach as _ (inv_step hi a he)
    · exact inv_reach as _ hi

/-! ### The property clauses, each for every schedule -/

/-- Exactly once, in delivery order: the handled batches followed by the pending buffer are the
start-up batch followed by every received event, in order. -/
theorem exactly_once_in_order (first : List Ev) (as : List Act) :
    let s := run (init first) as
    s.log.flatten ++ s.next = first ++ s.seen :=
  (inv_reach as _ (inv_init first)).conserve

/-- At most one batch is processed at any instant. -/
theorem at_most_one_in_flight (first : List Ev) (as : List Act) :
    (run (init first) as).overlap = false :=
  (inv_reach as _ (inv_init first)).no_overlap

/-- The start-up batch is processed before any watch event. -/
theorem first_batch_first (first : List Ev) (as : List Act) :
    (run (init first) as).log.head? = some first :=
  (inv_reach as _ (inv_init first)).first_head

/-- No event waits once the handler is idle. -/
theorem idle_implies_empty_next (first : List Ev) (as : List Act) :
    let s := run (init first) as
    s.handling = false → s.next = [] ∧ s.h = .idle :=
  (inv_reach as _ (inv_init first)).idle_empty

/-- Shutdown returns only after the in-flight batch has finished. -/
theorem cancel_waits (first : List Ev) (as : List Act) :
    let s := run (init first) as
    s.phase = .stopped → s.h = .idle :=
  (inv_reach as _ (inv_init first)).stop_idle

/-- The batch seen by a running handler is the batch that was handed to it. -/
theorem handler_view_stable (first : List Ev) (as : List Act) :
    let s := run (init first) as
    s.h ≠ .idle → s.log.getLast? = some s.current :=
  (inv_reach as _ (inv_init first)).view

/-- Events arriving while a batch is processed are coalesced: no empty batch is started. -/
theorem no_empty_batch (first : List Ev) (as : List Act) :
    ∀ b ∈ (run (init first) as).log.tail, b ≠ [] :=
  (inv_reach as _ (inv_init first)).nonempty

/-- The two orders of "event arrives" and "loop receives handlingDone" lead to the same handled
batches when nothing was pending (this is why the harness need not observe the ack instant). -/
theorem recv_ack_commute (s : Loop) (e : Ev) (hs : s.phase = .select) (hr : s.h = .returned)
    (hh : s.handling = true) (hn : s.next = []) :
    (step (step s .ack) (.recv e)).log = (step (step s (.recv e)) .ack).log := by
  cases hc : s.cur <;>
    simp_all [step, swapAndHandle, start, swap, Loop.setCell, Loop.next, Loop.current, Loop.cell]

/-! ### Non-vacuity: a concrete non-trivial schedule reaches interesting states -/

example :
    let s := run (init [1, 2]) [.recv 3, .recv 4, .hreturn, .ack, .recv 5, .hreturn, .ack]
    s.log = [[1, 2], [3, 4], [5]] ∧ s.h = .running ∧ s.next = [] := by decide

example :
    let s := run (init [1]) [.recv 2, .cancel, .hreturn, .drainack]
    s.phase = .stopped ∧ s.log = [[1]] ∧ s.next = [2] := by decide

/-! ### Tie to the source: structural facts regenerated by the translator -/

/-- `Start` is one `for { select { … } }` whose arms are ctx.Done / eventCh receive / handlingDone
receive; `handlingDone` is unbuffered; `swapBatches` exchanges then truncates. -/
theorem loop_structure_as_modelled :
    Generated.Loop.selectCount = 1 ∧ Generated.Loop.forCount = 1 ∧
    Generated.Loop.selectArms = ["<-ctx.Done()", "e := <-el.eventCh", "<-handlingDone"] ∧
    Generated.Loop.armBody0 = ["if handling { <-handlingDone }", "return nil"] ∧
    Generated.Loop.armBody1 =
      ["el.nextBatch = append(el.nextBatch, e)", "if !handling { swapAndHandleBatch() }"] ∧
    Generated.Loop.armBody2 =
      ["handling = false", "if len(el.nextBatch) > 0 { swapAndHandleBatch() }"] ∧
    Generated.Loop.handlingDoneBuffered = false ∧
    Generated.Loop.handleBatchGoArgs = ["el.currentBatch"] ∧
    Generated.Loop.handlerGoroutineBody =
      ["el.currentBatchID++", "el.handler.HandleEventBatch(ctx, batchLogger, batch)",
       "handlingDone <- struct{}{}"] ∧
    Generated.Loop.swapAndHandleBody = ["el.swapBatches()", "handleBatch()", "handling = true"] ∧
    Generated.Loop.swapBatchesBody =
      ["el.currentBatch, el.nextBatch = el.nextBatch, el.currentBatch",
       "el.nextBatch = el.nextBatch[:0]"] := by
  decide

end NGF.Loop
