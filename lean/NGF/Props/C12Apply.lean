/-
C12 — the apply step (write files → reload → verify → Plus API) as ONE transaction, and the
handler composed with it over whole batch sequences.

Everything is about `NGF.HandlerVer.applyTx` / `updateNginxConf` / `hstep` / `hrun` / `fold` and
`NGF.Reload.reload` — the functions `ngfdriver_C12 model` runs and the correspondence compares with the
real `eventHandlerImpl` + real `file.ManagerImpl` (over a fault-injecting file layer) + real
`ManagerImpl.Reload` (against the simulated master that serves the version file actually on disk).

`Running o v` (Proofs/Reload.lean) is the right-hand side of `reload_ok_iff`; `ApplyOk plus b v`
(Proofs/HandlerBatch.lean) says, in terms of the environment only, that batch `b` applied version `v`.
-/
import NGF.Model.Reload
import NGF.Model.HandlerVer
import NGF.Proofs.Reload
import NGF.Proofs.HandlerVer
import NGF.Proofs.HandlerBatch

namespace NGF.C12
open NGF.Reload NGF.HandlerVer

/-! ## A. The apply transaction -/

/-- `updateNginxConf … = nil` ⇒ EVERY file of the generated set was written (whatever the length of
the set and wherever the version file sits in it) AND `Reload` was invoked with that version AND the
oracle answered exactly that version after new workers (`Running`).  No hypothesis on the error
class: the statement quantifies over every `FilesOutcome`, so over all four classes. -/
theorem apply_ok_implies_all_files_written_and_version_runs
    (plus : Bool) (f : FilesOutcome) (o : Oracle) (apiOk : Bool) (v n : Nat)
    (h : (applyTx plus f o apiOk v).res = none) :
    f = .ok ∧ filesOnDisk n f = n ∧ (∀ i, i < n → fileOnDisk n f i = true) ∧
      (applyTx plus f o apiOk v).reload = some (reload o v) ∧ Running o v ∧
      (plus = true → apiOk = true) := by
  obtain ⟨hf, hr, hp⟩ := (applyTx_ok_iff plus f o apiOk v).1 h
  subst hf
  refine ⟨rfl, rfl, ?_, ?_, (reload_res_none_iff o v).1 hr, hp⟩
  · intro i hi; simp [fileOnDisk, hi]
  · rw [applyTx_reload]; simp

/-- exact form: the transaction returns nil iff all files were written, the master runs the version,
and (Plus) the API call succeeded -/
theorem apply_ok_iff (plus : Bool) (f : FilesOutcome) (o : Oracle) (apiOk : Bool) (v : Nat) :
    (applyTx plus f o apiOk v).res = none ↔ f = .ok ∧ Running o v ∧ (plus = true → apiOk = true) := by
  rw [applyTx_ok_iff, reload_res_none_iff]

/-- A `ReplaceFiles` error of ANY class — `fs.ErrNotExist`-wrapping, permission, EIO, plain — and
after ANY number of files (version file written or not) is returned as the transaction's error with
its class preserved; `Reload` is not invoked and the Plus API is not consulted. -/
theorem files_error_returns_before_reload (plus : Bool) (c : ErrClass) (k : Nat) (o : Oracle)
    (apiOk : Bool) (v : Nat) :
    (applyTx plus (.failed c k) o apiOk v).res = some (.files c) ∧
    (applyTx plus (.failed c k) o apiOk v).reload = none ∧
    (applyTx plus (.failed c k) o apiOk v).apiCalled = false := by
  simp [applyTx_files_failed]

/-- `Reload` is invoked exactly when `ReplaceFiles` returned nil; the Plus API exactly after a
successful reload on Plus. -/
theorem apply_step_order (plus : Bool) (f : FilesOutcome) (o : Oracle) (apiOk : Bool) (v : Nat) :
    ((applyTx plus f o apiOk v).reload.isSome = true ↔ f = .ok) ∧
    ((applyTx plus f o apiOk v).apiCalled = true ↔ plus = true ∧ f = .ok ∧ Running o v) := by
  refine ⟨?_, ?_⟩
  · rw [applyTx_reload]; by_cases h : f = .ok <;> simp [h]
  · rw [applyTx_apiCalled, reload_res_none_iff]

/-- hypotheses satisfiable: 5 files, version file third, a master that behaves; and a permission
error after 3 files (version file on disk!) is an error although that master would answer 7 -/
example :
    let o : Oracle := ⟨[.present], 5, .pid 7, .content 1, true, [.content 1, .content 2], [.ver 6, .ver 7], 9⟩
    (applyTx false .ok o true 7).res = none ∧
    (applyTx false (.failed .permission 3) o true 7).res = some (.files .permission) ∧
    (applyTx false (.failed .notExist 3) o true 7).res = some (.files .notExist) ∧
    fileOnDisk 5 (.failed .notExist 3) 2 = true ∧ filesOnDisk 5 (.failed .notExist 3) = 3 := by decide

/-- REFUTED VARIANT "ENOENT is benign" (`applyTxEnoentBenign`, the seeded change C12-r3m1): creating
the fourth of five files fails with ENOENT after the version file (third) was written; the master
loads the partial set, which carries the right version number, and the variant reports success —
with two files of the generated set missing. -/
theorem enoent_benign_refuted :
    ∃ (f : FilesOutcome) (o : Oracle) (n vi v : Nat),
      (applyTxEnoentBenign false f o true v).res = none ∧   -- reported successful
      (reload o v).res = none ∧                             -- the master does answer version v
      fileOnDisk n f vi = true ∧                            -- the version file is on disk
      filesOnDisk n f < n ∧                                 -- but the set is incomplete
      (applyTx false f o true v).res = some (.files .notExist) := -- the code: an error
  ⟨.failed .notExist 3,
   ⟨[.present], 5, .pid 7, .content 1, true, [.content 2], [.ver 7], 9⟩, 5, 2, 7, by decide⟩

/-- the variant differs from the code on the `notExist` class only -/
theorem enoent_benign_differs_only_on_notExist (plus : Bool) (f : FilesOutcome) (o : Oracle)
    (apiOk : Bool) (v : Nat) (h : ∀ k, f ≠ .failed .notExist k) :
    applyTxEnoentBenign plus f o apiOk v = applyTx plus f o apiOk v := by
  cases f with
  | ok => rfl
  | failed c k => cases c <;> first | rfl | exact absurd rfl (h k)

/-- Handler level: a batch that goes through `updateNginxConf` and ends without error wrote every
generated file (so also the version file), reloaded with the version of the configuration it
built, and the master runs that version. -/
theorem batch_ok_implies_files_written_and_version_runs (plus : Bool) (s : H) (b : Batch)
    (hre : needsReload plus s.lastErr b = true) (hok : (hstep plus s b).2.err = false) :
    b.files = .ok ∧ (hstep plus s b).2.written = some b.nfiles ∧
    (∀ i, i < b.nfiles → fileOnDisk b.nfiles b.files i = true) ∧
    (b.verIdx < b.nfiles → b.versionFileOnDisk = true) ∧
    (hstep plus s b).2.reloadVersion = some (s.version + 1) ∧
    (hstep plus s b).2.fileErr = none ∧
    Running b.oracle (s.version + 1 : Nat) := by
  obtain ⟨hct, ha⟩ := (needsReload_iff plus s.lastErr b).1 hre
  have hA := (hstep_err_false_iff plus s b hct).1 hok
  simp only [ApplyOk, ha, Bool.false_eq_true, if_false] at hA
  obtain ⟨hf, hrun, _⟩ := hA
  have hall : ∀ i, i < b.nfiles → fileOnDisk b.nfiles b.files i = true := by
    intro i hi; simp [fileOnDisk, hi, hf]
  have hunc := hstep_conf plus s b hre
  refine ⟨hf, ?_, hall, fun hv => hall _ hv, ?_, ?_, hrun⟩
  · rw [hunc]; simp [updateNginxConf, hf, filesOnDisk]
  · rw [hunc]; simp [updateNginxConf, applyTx_reload, hf]
  · rw [hunc]; simp only [updateNginxConf]; rw [applyTx_fileClass, hf]

/-- …and a `ReplaceFiles` failure of any class makes the batch fail without a reload, the class being
visible in the returned error. -/
theorem batch_files_error_surfaces (plus : Bool) (s : H) (b : Batch) (c : ErrClass) (k : Nat)
    (hre : needsReload plus s.lastErr b = true) (hf : b.files = .failed c k) :
    (hstep plus s b).2.err = true ∧ (hstep plus s b).2.reloadVersion = none ∧
    (hstep plus s b).2.reload = none ∧ (hstep plus s b).2.apiCalled = false ∧
    (hstep plus s b).2.fileErr = some c ∧ (hstep plus s b).2.written = some (min k b.nfiles) ∧
    (hstep plus s b).1.lastErr = true ∧ (hstep plus s b).1.version = s.version + 1 := by
  obtain ⟨hct, _⟩ := (needsReload_iff plus s.lastErr b).1 hre
  have hunc := hstep_conf plus s b hre
  have he : (hstep plus s b).2.err = true := by
    rw [hunc]; simp [updateNginxConf, hf, applyTx_files_failed]
  refine ⟨he, ?_, ?_, ?_, ?_, ?_, ?_, ?_⟩
  · rw [hunc]; simp [updateNginxConf, hf, applyTx_files_failed]
  · rw [hunc]; simp [updateNginxConf, hf, applyTx_files_failed]
  · rw [hunc]; simp [updateNginxConf, hf, applyTx_files_failed]
  · rw [hunc]; simp [updateNginxConf, hf, applyTx_files_failed, ApplyErr.fileClass]
  · rw [hunc]; simp [updateNginxConf, hf, filesOnDisk]
  · rw [hstep_lastErr]; simp [hct, he]
  · rw [hstep_version]; simp [hct]

/-- satisfiable: ENOENT after the version file, as third batch of a sequence -/
example :
    let good (n : Int) : Oracle := ⟨[.present], 5, .pid 7, .content 1, true, [.content 2], [.ver n], 5⟩
    let s := (hrun false H.init [⟨.clusterState, 4, 0, .ok, good 1, true⟩, ⟨.noChange, 0, 0, .ok, good 0, true⟩]).1
    let r := hstep false s ⟨.endpointsOnly, 6, 1, .failed .notExist 4, good 2, true⟩
    s.ready = true ∧ r.2.err = true ∧ r.2.reloadVersion = none ∧ r.2.fileErr = some .notExist ∧
      r.2.written = some 4 ∧ r.1.lastErr = true ∧ r.1.version = 2 := by decide

/-! ## B. Handler ∘ transaction ∘ oracle over batch sequences -/

/-- `batch_ok_iff`, one step from ANY state: the remembered result (`h.latestReloadResult.Error == nil`)
is "ok" after a batch iff the batch needed no apply and the previous result was ok, or its apply
transaction satisfied `ApplyOk` (all files written ∧ `reload_ok_iff`'s right-hand side for the version
`s.version + 1` ∧ Plus API; Plus endpoints-only WITH the previous result ok: API alone — since
/repo c94173a a remembered failure sends that arm through files + reload as well). -/
theorem batch_ok_iff (plus : Bool) (s : H) (b : Batch) :
    (hstep plus s b).1.lastErr = false ↔
      (b.ct = .noChange ∧ s.lastErr = false) ∨
      (b.ct ≠ .noChange ∧ ApplyOk plus s.lastErr b (s.version + 1)) :=
  hstep_lastErr_false_iff plus s b

/-- `batch_ok_iff` for batch `i` of ANY sequence from start-up (arbitrary change types, files
outcomes, oracle scripts, Plus outcomes): the version it applies is one more than the number of
applies before it — failed ones included. -/
theorem batch_ok_iff_seq (plus : Bool) (pre : List Batch) (b : Batch) :
    (hrun plus H.init (pre ++ [b])).1.lastErr = false ↔
      (b.ct = .noChange ∧ (hrun plus H.init pre).1.lastErr = false) ∨
      (b.ct ≠ .noChange ∧ ApplyOk plus (hrun plus H.init pre).1.lastErr b (applies pre + 1)) := by
  rw [hrun_snoc_state, batch_ok_iff, run_version]
  simp [H.init]

/-- Closed form: after ANY sequence the remembered result is ok iff no configuration was built yet,
or the LAST batch that built one satisfied `ApplyOk` for its version.  In particular batches that
change nothing never reset (or set) it. -/
theorem result_ok_iff_last_apply (plus : Bool) (bs : List Batch) :
    (hrun plus H.init bs).1.lastErr = false ↔
      match lastApply bs with
      | none => True
      | some (pre, b) => ApplyOk plus (hrun plus H.init pre).1.lastErr b (applies pre + 1) := by
  have h := run_lastErr_false_iff plus bs H.init
  cases hl : lastApply bs with
  | none => rw [hl] at h; simpa [H.init] using h
  | some px => obtain ⟨pre, b⟩ := px; rw [hl] at h; simpa [H.init] using h

/-- `lastApply` really is the last batch that built a configuration -/
theorem lastApply_is_last (bs : List Batch) :
    match lastApply bs with
    | none => ∀ b ∈ bs, b.ct = .noChange
    | some (pre, x) => x.ct ≠ .noChange ∧ ∃ post, bs = pre ++ x :: post ∧ ∀ b ∈ post, b.ct = .noChange :=
  lastApply_spec bs

/-- `latestReloadResult` is never touched by batches that apply nothing: from any state, through any
number of `NoChange` batches, result, version and emitted actions stay put. -/
theorem result_not_reset_by_noChange (plus : Bool) (s : H) (bs : List Batch)
    (h : ∀ b ∈ bs, b.ct = .noChange) :
    (hrun plus s bs).1.lastErr = s.lastErr ∧ (hrun plus s bs).1.version = s.version ∧
      ∀ e ∈ (hrun plus s bs).2, e = Emit.none :=
  run_noChange_keeps plus bs s h

/-- a failed apply followed by three idle batches: still failed; then a good apply: ok -/
example :
    let good (n : Int) : Oracle := ⟨[.present], 5, .pid 7, .content 1, true, [.content 2], [.ver n], 5⟩
    let idle : Batch := ⟨.noChange, 0, 0, .ok, good 0, true⟩
    let bs : List Batch := [⟨.clusterState, 4, 0, .failed .io 2, good 1, true⟩, idle, idle, idle]
    (hrun false H.init bs).1.lastErr = true ∧
    (hrun false H.init (bs ++ [⟨.clusterState, 4, 0, .ok, good 2, true⟩])).1.lastErr = false := by decide

/-! ### The newest configuration runs (full strength since /repo c94173a)

Former known finding `C12:stale_after_plus_endpoints_only_update` (= C07's
`C07:programmed:true-after-failed-reload:stale-after-plus-endpoints-only-update`), FIXED by /repo
c94173a: the Plus endpoints-only arm took the API path alone whatever was remembered, so a
successful API call overwrote a failed `latestReloadResult`.  Now it asks
`h.cfg.plus && h.latestReloadResult.Error == nil`. -/

/-- Whenever the remembered result is ok, the newest configuration that went through `updateNginxConf`
(batch `b`, no later batch did) was written completely and the master runs its version — the version
that counts ALL earlier applies.  Full strength: OSS and Plus, every sequence. -/
theorem newest_config_runs (plus : Bool) (pre post : List Batch) (b : Batch)
    (hb : (hstep plus (hrun plus H.init pre).1 b).2.generated = true)
    (hpost : ∀ e ∈ (hrun plus (hrun plus H.init (pre ++ [b])).1 post).2, e.generated = false)
    (hok : (hrun plus H.init (pre ++ b :: post)).1.lastErr = false) :
    b.files = .ok ∧ Running b.oracle (applies pre + 1 : Nat) := by
  rw [show pre ++ b :: post = (pre ++ [b]) ++ post by simp, hrun_append] at hok
  simp only at hok
  have h1 : (hrun plus H.init (pre ++ [b])).1.lastErr = false := by
    cases h : (hrun plus H.init (pre ++ [b])).1.lastErr with
    | false => rfl
    | true => rw [run_lastErr_stays plus post _ h hpost] at hok; cases hok
  rw [hrun_snoc_state] at h1
  have := hstep_generated_ok plus _ b hb h1
  rwa [run_version, show H.init.version = 0 from rfl, Nat.zero_add] at this

/-- the hypothesis in the older shape: `b` needed a reload and only idle batches followed -/
theorem newest_config_runs_idle (plus : Bool) (pre post : List Batch) (b : Batch)
    (hb : needsReload plus (hrun plus H.init pre).1.lastErr b = true)
    (hpost : ∀ b' ∈ post, b'.ct = .noChange)
    (hok : (hrun plus H.init (pre ++ b :: post)).1.lastErr = false) :
    b.files = .ok ∧ Running b.oracle (applies pre + 1 : Nat) := by
  apply newest_config_runs plus pre post b ?_ ?_ hok
  · rw [hstep_conf plus _ b hb]; rfl
  · intro e he
    rw [(run_noChange_keeps plus post _ hpost).2.2 e he]; rfl

/-- hypotheses satisfiable on Plus: failed ClusterStateChange, then an EndpointsOnlyChange — which now
goes through files + reload (version 2) —, then an idle batch -/
example :
    let o (n : Int) : Oracle := ⟨[.present], 5, .pid 7, .content 1, true, [.content 2], [.ver n], 5⟩
    let pre : List Batch := [⟨.clusterState, 4, 1, .failed .permission 2, o 1, true⟩]
    let b : Batch := ⟨.endpointsOnly, 4, 0, .ok, o 2, true⟩
    let post : List Batch := [⟨.noChange, 0, 0, .ok, o 0, true⟩]
    (hstep true (hrun true H.init pre).1 b).2.generated = true ∧
    (hstep true (hrun true H.init pre).1 b).2.reloadVersion = some 2 ∧
    ((hrun true (hrun true H.init (pre ++ [b])).1 post).2.map (·.generated)) = [false] ∧
    (hrun true H.init (pre ++ b :: post)).1.lastErr = false := by decide

/-- PRE-FIX witness (regression detector; `hrunPreFix` is NOT the code): ClusterStateChange whose
`ReplaceFiles` fails (version 1 never loaded), then EndpointsOnlyChange whose Plus API call succeeds:
under the old arm the remembered result is ok, the issued Gateway conditions keep `Programmed=True`,
the pod is ready and nothing was ever reloaded.  The repaired model on the same input: the second
batch goes through `updateNginxConf` and reloads with version 2. -/
theorem plus_endpoints_only_resets_failed_reload :
    let o : Oracle := ⟨[.present], 5, .pid 7, .content 1, true, [.content 2], [.ver 1], 5⟩
    let bs : List Batch := [⟨.clusterState, 4, 1, .failed .permission 2, o, true⟩,
                            ⟨.endpointsOnly, 0, 0, .ok, o, true⟩]
    (hrunPreFix true H.init bs).1.lastErr = false ∧ (hrunPreFix true H.init bs).1.ready = true ∧
    ((hrunPreFix true H.init bs).2.map (·.reloadVersion)) = [none, none] ∧
    issued (hrunPreFix true H.init bs).1 .gateway [⟨"Programmed", "True", "Programmed"⟩] =
      [⟨"Programmed", "True", "Programmed"⟩] ∧
    ((hrun true H.init bs).2.map (·.reloadVersion)) = [none, some 2] ∧
    (hrun true H.init bs).1.lastErr = true := by
  decide

/-- the pre-fix variant differs from the code only on Plus endpoints-only batches that follow a
remembered failure -/
theorem prefix_variant_differs_only_after_failure (plus : Bool) (s : H) (b : Batch)
    (h : ¬(plus = true ∧ s.lastErr = true ∧ b.ct = .endpointsOnly)) :
    hstepPreFix plus s b = hstep plus s b := by
  cases hp : plus <;> cases hl : s.lastErr <;> cases hc : b.ct <;>
    simp_all [hstepPreFix, hstep, applyPreFix, apply]

/-- OSS: full strength — every batch that builds a configuration goes through `updateNginxConf`. -/
theorem newest_config_runs_oss (bs : List Batch) (hok : (hrun false H.init bs).1.lastErr = false) :
    match lastApply bs with
    | none => True
    | some (pre, b) => b.files = .ok ∧ Running b.oracle (applies pre + 1 : Nat) := by
  have h := (result_ok_iff_last_apply false bs).1 hok
  cases hl : lastApply bs with
  | none => trivial
  | some px =>
    obtain ⟨pre, b⟩ := px
    rw [hl] at h
    simp only [ApplyOk, apiOnly, Bool.false_and, Bool.false_eq_true, if_false] at h
    exact ⟨h.1, h.2.1⟩

/-! ### Versions -/

/-- Versions count ALL applies, failed ones included: after any sequence `h.version` is the number of
batches that built a configuration, and the `i`-th such batch is handed exactly `i`. -/
theorem version_counts_all_applies (plus : Bool) (pre post : List Batch) (b : Batch)
    (hct : b.ct ≠ .noChange) :
    (hrun plus H.init (pre ++ b :: post)).1.version = applies pre + 1 + applies post ∧
    (hstep plus (hrun plus H.init pre).1 b).2.cfgVersion = some (applies pre + 1) ∧
    (needsReload plus (hrun plus H.init pre).1.lastErr b = true → b.files = .ok →
      (hstep plus (hrun plus H.init pre).1 b).2.reloadVersion = some (applies pre + 1)) := by
  refine ⟨?_, ?_, ?_⟩
  · rw [run_version, applies_append]; simp [applies, hct, H.init]; omega
  · rw [hstep_cfgVersion, run_version]; simp [hct, H.init]
  · intro hre hf
    rw [hstep_conf plus _ b hre, run_version]
    simp [updateNginxConf, applyTx_reload, hf, H.init]

/-- strictly increasing across a failed apply: the next apply gets a NEW number -/
theorem version_after_failed_apply (plus : Bool) (pre mid : List Batch) (b1 b2 : Batch)
    (h1 : b1.ct ≠ .noChange) (h2 : b2.ct ≠ .noChange) :
    ∃ v1 v2, (hstep plus (hrun plus H.init pre).1 b1).2.cfgVersion = some v1 ∧
      (hstep plus (hrun plus H.init (pre ++ b1 :: mid)).1 b2).2.cfgVersion = some v2 ∧ v1 < v2 := by
  refine ⟨applies pre + 1, applies (pre ++ b1 :: mid) + 1, ?_, ?_, ?_⟩
  · exact (version_counts_all_applies plus pre [] b1 h1).2.1
  · exact (version_counts_all_applies plus (pre ++ b1 :: mid) [] b2 h2).2.1
  · rw [applies_append]; simp [applies, h1]; omega

example :
    let o : Oracle := ⟨[], 0, .readErr, .err, false, [], [], 0⟩
    ((hrun true H.init [⟨.clusterState, 3, 0, .failed .notExist 1, o, true⟩, ⟨.noChange, 0, 0, .ok, o, true⟩,
        ⟨.endpointsOnly, 0, 0, .ok, o, false⟩, ⟨.clusterState, 3, 2, .ok, o, true⟩]).2.map (·.cfgVersion)) =
      [some 1, none, some 2, some 3] := by decide

/-! ### Readiness -/

/-- Exact characterisation of readiness over ANY sequence from start-up, in terms of the environment:
the pod is ready iff the very first batch needed no change, or SOME batch's apply satisfied
`ApplyOk` for its version.  (So ready is latched, and a failed first apply blocks `NoChange`.) -/
theorem ready_iff (plus : Bool) (bs : List Batch) :
    (hrun plus H.init bs).1.ready = true ↔
      (∃ b rest, bs = b :: rest ∧ b.ct = .noChange) ∨
      (∃ pre b post, bs = pre ++ b :: post ∧ b.ct ≠ .noChange ∧ ApplyOk plus (hrun plus H.init pre).1.lastErr b (applies pre + 1)) := by
  cases bs with
  | nil => simp [hrun_nil, H.init]
  | cons b rest =>
    rw [hrun_cons]
    have hset := hstep_init_settled plus b
    rw [run_ready_iff_settled plus rest _ hset, hstep_ready_iff, hstep_version]
    by_cases hct : b.ct = .noChange
    · simp only [hct, if_true, H.init, Bool.false_eq_true, true_and, false_or, ne_eq,
        not_true_eq_false, false_and, or_false, true_or]
      exact ⟨fun _ => Or.inl ⟨b, rest, rfl, hct⟩, fun _ => trivial⟩
    · have hone : ∀ pre, H.init.version + 1 + applies pre + 1 = applies (b :: pre) + 1 := by
        intro pre; simp [applies, hct, H.init]
      simp only [hct, if_false, false_and, false_or, H.init, Bool.false_eq_true, ne_eq,
        not_false_eq_true, true_and]
      constructor
      · rintro (he | ⟨pre, x, post, hbs, hx, hok⟩)
        · refine Or.inr ⟨[], b, rest, rfl, hct, ?_⟩
          simpa [applies, H.init, hrun_nil] using (hstep_err_false_iff plus H.init b hct).1 he
        · refine Or.inr ⟨b :: pre, x, post, by simp [hbs], hx, ?_⟩
          have := hone pre
          simp only [H.init] at this
          rwa [this] at hok
      · rintro (⟨b', rest', hbs, hn⟩ | ⟨pre, x, post, hbs, hx, hok⟩)
        · simp only [List.cons.injEq] at hbs
          obtain ⟨rfl, _⟩ := hbs
          exact absurd hn hct
        · cases pre with
          | nil =>
            simp only [List.nil_append, List.cons.injEq] at hbs
            obtain ⟨rfl, rfl⟩ := hbs
            left
            exact (hstep_err_false_iff plus H.init b hct).2 (by simpa [applies, H.init, hrun_nil] using hok)
          | cons p pre =>
            simp only [List.cons_append, List.cons.injEq] at hbs
            obtain ⟨rfl, rfl⟩ := hbs
            right
            refine ⟨pre, x, post, rfl, hx, ?_⟩
            have := hone pre
            simp only [H.init] at this
            rwa [this]

/-- latch, stated on the characterisation: extending a sequence never makes a ready pod unready -/
theorem ready_latched_seq (plus : Bool) (bs more : List Batch)
    (h : (hrun plus H.init bs).1.ready = true) : (hrun plus H.init (bs ++ more)).1.ready = true := by
  rw [hrun_append]
  exact run_ready_latch plus more _ h

/-- OSS: ready after a first batch that built a configuration means: some batch wrote ALL its files
and the master ran its version. -/
theorem ready_means_files_written_and_running (b : Batch) (rest : List Batch) (hct : b.ct ≠ .noChange)
    (h : (hrun false H.init (b :: rest)).1.ready = true) :
    ∃ pre x post, b :: rest = pre ++ x :: post ∧ x.files = .ok ∧
      Running x.oracle (applies pre + 1 : Nat) := by
  rcases (ready_iff false (b :: rest)).1 h with ⟨b', rest', hbs, hn⟩ | ⟨pre, x, post, hbs, _, hok⟩
  · simp only [List.cons.injEq] at hbs
    obtain ⟨rfl, _⟩ := hbs
    exact absurd hn hct
  · simp only [ApplyOk, apiOnly, Bool.false_and, Bool.false_eq_true, if_false] at hok
    exact ⟨pre, x, post, hbs, hok.1, hok.2.1⟩

/-- first apply fails (EIO after two files): idle batches do not make the pod ready, a good apply does -/
example :
    let good (n : Int) : Oracle := ⟨[.present], 5, .pid 7, .content 1, true, [.content 2], [.ver n], 5⟩
    let idle : Batch := ⟨.noChange, 0, 0, .ok, good 0, true⟩
    (hstates false H.init [⟨.clusterState, 4, 3, .failed .io 2, good 1, true⟩, idle, idle,
        ⟨.endpointsOnly, 4, 0, .ok, good 2, true⟩, idle]).map (·.ready) = [false, false, false, true, true] := by
  decide

/-! ### `failure_surfaces` over the composed model -/

/-- For batch `b` after ANY history `pre`: if it had to apply a configuration and its transaction did
not satisfy `ApplyOk` (some file not written — any error class —, the master does not run the
version, or the Plus API failed), then statuses ARE issued in this batch, computed from the NEW
remembered result, and for EVERY target and EVERY list of conditions collected before, the issued
conditions report exactly the failure condition for its type (`Programmed=False/Invalid`,
`Accepted=False/GatewayNotProgrammed`) and leave the other types as they would have been. -/
theorem failure_surfaces_composed (plus : Bool) (pre : List Batch) (b : Batch) (t : Target)
    (cs : List Cond) (hct : b.ct ≠ .noChange) (hfail : ¬ ApplyOk plus (hrun plus H.init pre).1.lastErr b (applies pre + 1)) :
    (hstep plus (hrun plus H.init pre).1 b).2.statusUpdated = true ∧
    (hrun plus H.init (pre ++ [b])).1.lastErr = true ∧
    lookup (failureCond t).type (issued (hrun plus H.init (pre ++ [b])).1 t cs) = some (failureCond t) ∧
    (∀ x ∈ issued (hrun plus H.init (pre ++ [b])).1 t cs,
        x.type = (failureCond t).type → x = failureCond t ∧ x.status = "False") ∧
    (∀ ty, ty ≠ (failureCond t).type →
        lookup ty (issued (hrun plus H.init (pre ++ [b])).1 t cs) = lookup ty (dedup cs)) := by
  have hl : (hrun plus H.init (pre ++ [b])).1.lastErr = true := by
    cases h : (hrun plus H.init (pre ++ [b])).1.lastErr with
    | true => rfl
    | false =>
      rcases (batch_ok_iff_seq plus pre b).1 h with ⟨hn, _⟩ | ⟨_, hok⟩
      · exact absurd hn hct
      · exact absurd hok hfail
  refine ⟨(hstep_status_iff plus _ b).2 hct, hl, ?_, ?_, ?_⟩
  · simpa [issued, fold, hl] using lookup_dedup_snoc_self (failureCond t) cs
  · intro x hx ht
    have : x = failureCond t :=
      dedup_snoc_unique (failureCond t) cs x (by simpa [issued, fold, hl] using hx) ht
    subst this
    exact ⟨rfl, by cases t <;> rfl⟩
  · intro ty hty
    simpa [issued, fold, hl] using
      lookup_dedup_snoc_other (failureCond t) ty (fun h => hty h.symm) cs

/-- conversely a batch whose transaction satisfied `ApplyOk` adds no failure condition -/
theorem success_issues_plain_conditions (plus : Bool) (pre : List Batch) (b : Batch) (t : Target)
    (cs : List Cond) (hct : b.ct ≠ .noChange) (hok : ApplyOk plus (hrun plus H.init pre).1.lastErr b (applies pre + 1)) :
    issued (hrun plus H.init (pre ++ [b])).1 t cs = dedup cs := by
  have hl := (batch_ok_iff_seq plus pre b).2 (Or.inr ⟨hct, hok⟩)
  simp [issued, fold, hl]

/-- the stored failure outlives any number of idle batches (other status writers, e.g. the Gateway
Service upsert, keep reporting it) -/
theorem failure_persists_through_idle (plus : Bool) (pre idle : List Batch) (b : Batch) (t : Target)
    (cs : List Cond) (hct : b.ct ≠ .noChange) (hfail : ¬ ApplyOk plus (hrun plus H.init pre).1.lastErr b (applies pre + 1))
    (hidle : ∀ x ∈ idle, x.ct = .noChange) :
    lookup (failureCond t).type (issued (hrun plus H.init (pre ++ [b] ++ idle)).1 t cs) =
      some (failureCond t) := by
  have h := (failure_surfaces_composed plus pre b t cs hct hfail).2.2.1
  rw [hrun_append]
  simp only [issued] at h ⊢
  rw [(run_noChange_keeps plus idle _ hidle).1]
  exact h

/-- hypotheses satisfiable, all four classes: ENOENT after the version file, on a listener that said
Programmed=True -/
example :
    let good (n : Int) : Oracle := ⟨[.present], 5, .pid 7, .content 1, true, [.content 2], [.ver n], 5⟩
    let pre : List Batch := [⟨.clusterState, 4, 0, .ok, good 1, true⟩]
    (∀ c : ErrClass,
      issued (hrun false H.init (pre ++ [⟨.clusterState, 5, 1, .failed c 3, good 2, true⟩])).1 .listener
        [⟨"Accepted", "True", "Accepted"⟩, ⟨"Programmed", "True", "Programmed"⟩] =
        [⟨"Accepted", "True", "Accepted"⟩, ⟨"Programmed", "False", "Invalid"⟩]) ∧
    issued (hrun false H.init (pre ++ [⟨.clusterState, 5, 1, .ok, good 2, true⟩])).1 .listener
        [⟨"Accepted", "True", "Accepted"⟩, ⟨"Programmed", "True", "Programmed"⟩] =
        [⟨"Accepted", "True", "Accepted"⟩, ⟨"Programmed", "True", "Programmed"⟩] := by
  refine ⟨?_, by decide⟩
  intro c; cases c <;> decide

end NGF.C12
