/-
C10 (delivery) — the producer side of the event loop and the start-up batch.

`Sys` (`NGF.Model.Delivery`) runs any number of reconcilers (`Reconciler.Reconcile`, one worker per
controller) against the loop model of `NGF.Model.Loop`; every theorem quantifies over ALL schedules
(lists of `SAct`, disabled actions skipped), i.e. all interleavings of workers starting requests,
rendezvous on the channel, handler completion, acknowledgement and cancellation of the manager's
context.  `deadline = false` is the code as it is; `deadline = true` is the refuted variant in which
the final select of `Reconcile` may time out on its own.

The second half is `FirstEventBatchPreparerImpl.Prepare` as a function, its completeness
(`first_batch_complete`), and the refuted variant that stops at the first missing object.
-/
import NGF.Props.C10
import NGF.Model.Delivery
import NGF.Proofs.Delivery
import NGF.Proofs.DeliveryDrain
import NGF.Generated.DeliveryFacts

namespace NGF.Delivery
open NGF.Loop

/-! ### Reconcilers never drop -/

/-- **reconciler_never_drops.** For every schedule, as long as the manager's context is live: no
reconcile request has been given up (`dropped = []`), and for every reconciler what the loop received
from it, followed by the event it is parked with, followed by the events of the requests it has not
started yet, is exactly — each once, in queue order — the events its requests demand. -/
theorem reconciler_never_drops (first : List Ev) (qs : List (List Req)) (as : List SAct) :
    let s := run false (Sys.init first qs) as
    s.ctxDone = false →
    ∀ (i : Nat) (r : Rec) (q : List Req), s.recs[i]? = some r → qs[i]? = some q →
      r.dropped = [] ∧
      s.seenFrom i ++ r.offering.toList ++ r.pending = q.filterMap Req.ev := by
  intro s hc i r q hr hq
  have hi := sinv_reach false first qs as
  have hd := hi.nodrop rfl hc i r hr
  refine ⟨hd, ?_⟩
  have := hi.cons i r q hr hq
  unfold Cons at this
  rw [hi.order i r hr, Rec.delivered_of_no_drop hd]
  exact this

/-- A parked reconciler can always hand its event over while the context is live: the loop is at its
`select` (every arm body is non-blocking), so the rendezvous is enabled. -/
theorem offer_enabled_while_live (first : List Ev) (qs : List (List Req)) (as : List SAct) (i : Nat) :
    let s := run false (Sys.init first qs) as
    s.ctxDone = false → (s.offering i).isSome = true → enabled false s (.deliver i) = true := by
  intro s hc ho
  have hp : s.loop.phase = .select := (sinv_reach false first qs as).live hc
  simp [enabled, ho, hp]

/-- … and the ONLY way out of the select while the context is live is that rendezvous: a parked
reconciler stays parked with the same event under every other action (it blocks, it never gives up). -/
theorem parked_until_taken (s : Sys) (i : Nat) (e : Ev) (a : SAct) (ho : s.offering i = some e)
    (hc : s.ctxDone = false) (ha : a ≠ .deliver i) (he : enabled false s a = true) :
    (step s a).offering i = some e := by
  unfold Sys.offering at ho ⊢
  cases h0 : s.recs[i]? with
  | none => simp [h0] at ho
  | some r =>
    have hro : r.offering = some e := by simpa [h0] using ho
    cases a with
    | «begin» j =>
      by_cases hji : i = j
      · subst hji
        simp [enabled, h0, hro] at he
      · show (match (updAt s.recs j Rec.begin)[i]? with | some r => r.offering | none => none) = some e
        rw [getElem?_updAt_ne _ _ hji, h0]; exact hro
    | deliver j =>
      have hji : i ≠ j := fun h => ha (by rw [h])
      cases hoj : s.offering j with
      | none =>
        show (match (step s (.deliver j)).recs[i]? with | some r => r.offering | none => none) = some e
        simp only [step, hoj]; rw [h0]; exact hro
      | some e' =>
        show (match (step s (.deliver j)).recs[i]? with | some r => r.offering | none => none) = some e
        simp only [step, hoj]
        rw [getElem?_updAt_ne _ _ hji, h0]; exact hro
    | giveup j =>
      simp [enabled, hc] at he
    | cancelCtx => simp [step, h0, hro]
    | loop a => simp [step, h0, hro]

/-- Taking the event: it is appended to what the loop has received and to the reconciler's deliveries. -/
theorem deliver_takes (s : Sys) (i : Nat) (e : Ev) (ho : s.offering i = some e) :
    (step s (.deliver i)).loop.seen = s.loop.seen ++ [e] ∧
    (step s (.deliver i)).seenBy = s.seenBy ++ [(i, e)] ∧
    (step s (.deliver i)).offering i = none := by
  have hr : ∃ r, s.recs[i]? = some r ∧ r.offering = some e := by
    unfold Sys.offering at ho
    cases h0 : s.recs[i]? with
    | none => simp [h0] at ho
    | some r => exact ⟨r, rfl, by simpa [h0] using ho⟩
  obtain ⟨r, hr, hro⟩ := hr
  simp [step, seen_recv, Sys.offering, getElem?_updAt_eq, hr, Rec.finish, hro]

/-- Once every worker is done (nothing queued, nobody parked) with the context still live, the loop has
received from every reconciler exactly the events its requests demand, each once, in queue order. -/
theorem quiet_all_delivered (first : List Ev) (qs : List (List Req)) (as : List SAct) :
    let s := run false (Sys.init first qs) as
    s.ctxDone = false → s.quiet = true →
    ∀ (i : Nat) (q : List Req), qs[i]? = some q → s.seenFrom i = q.filterMap Req.ev := by
  intro s hc hq i q hqi
  have hi := sinv_reach false first qs as
  have hlt : i < s.recs.length := by
    rw [hi.len]
    exact (List.getElem?_eq_some_iff.mp hqi).1
  have hr : s.recs[i]? = some s.recs[i] := List.getElem?_eq_getElem hlt
  have hqt : s.recs[i].quiet = true := List.all_eq_true.mp hq s.recs[i] (List.getElem_mem hlt)
  have h := (reconciler_never_drops first qs as hc i _ q hr hqi).2
  simp only [Rec.quiet, Bool.and_eq_true, List.isEmpty_iff, Option.isNone_iff_eq_none] at hqt
  simpa [Rec.pending, hqt.1, hqt.2] using h

/-- **request_handled_exactly_once** (composition with `exactly_once_in_order`). For every schedule:
the handled batches followed by the pending buffer are the start-up batch followed by everything the
reconcilers delivered; and once every worker is done and the handler idle, with the context still live,
the handled batches are exactly the start-up batch followed by an interleaving `seenBy` whose projection
on each reconciler is the full list of events its requests demand — each exactly once, in order. -/
theorem request_handled_exactly_once (first : List Ev) (qs : List (List Req)) (as : List SAct) :
    let s := run false (Sys.init first qs) as
    s.loop.log.flatten ++ s.loop.next = first ++ s.seenBy.map (·.2) ∧
    (s.ctxDone = false → s.quiet = true → s.loop.handling = false →
      s.loop.log.flatten = first ++ s.seenBy.map (·.2) ∧
      ∀ (i : Nat) (q : List Req), qs[i]? = some q → s.seenFrom i = q.filterMap Req.ev) := by
  intro s
  have hi := sinv_reach false first qs as
  have hcons := hi.loopInv.conserve
  rw [← hi.seen] at hcons
  refine ⟨hcons, ?_⟩
  intro hc hq hh
  have hn := (hi.loopInv.idle_empty hh).1
  rw [hn, List.append_nil] at hcons
  exact ⟨hcons, quiet_all_delivered first qs as hc hq⟩

/-- **can_always_drain** (the reconciler "never gives up", as a possibility-of-progress statement). From
EVERY reachable state in which the manager's context is live — however long the loop has not been
receiving, whatever was scheduled before — there is a continuation consisting only of workers starting
requests and the loop receiving (`drainSchedule`) after which every worker is done, the context is
still live, and the loop has received from every reconciler exactly what its requests demand. (The
deadline variant has reachable states from which no continuation achieves this: `deadline_variant_drops`.) -/
theorem can_always_drain (first : List Ev) (qs : List (List Req)) (as : List SAct) :
    (run false (Sys.init first qs) as).ctxDone = false →
    ∃ more : List SAct,
      (run false (Sys.init first qs) (as ++ more)).ctxDone = false ∧
      (run false (Sys.init first qs) (as ++ more)).quiet = true ∧
      ∀ (i : Nat) (q : List Req), qs[i]? = some q →
        (run false (Sys.init first qs) (as ++ more)).seenFrom i = q.filterMap Req.ev := by
  intro hc
  have hi := sinv_reach false first qs as
  have hl : Live (run false (Sys.init first qs) as) := ⟨hc, hi.live hc⟩
  obtain ⟨hl', hq'⟩ := drain_quiet _ _ hl (fun j r h => mu_le_work _ j r h)
  refine ⟨drainSchedule (run false (Sys.init first qs) as).recs.length (run false (Sys.init first qs) as).work, ?_⟩
  have happ := run_append false as
    (drainSchedule (run false (Sys.init first qs) as).recs.length (run false (Sys.init first qs) as).work)
    (Sys.init first qs)
  have hc' := hl'.1
  rw [← happ] at hc' hq'
  exact ⟨hc', hq', quiet_all_delivered first qs _ hc' hq'⟩

/-- The harness replays observed executions with `runOps` (a delivery op also names the event that was
received): whatever it accepts is a run of the model, so every theorem above applies to its result. -/
theorem driver_run_is_model_run (ops : List DOp) (s : Sys) (n : Nat) :
    ∃ as, (runOps s n ops).1 = run false s as :=
  runOps_is_run ops s n

/-- The loop inside `Sys` is the loop of `NGF.Model.Loop`: all its clauses hold under every schedule of
the composed system (with either variant of the reconciler). -/
theorem loop_clauses_in_system (deadline : Bool) (first : List Ev) (qs : List (List Req)) (as : List SAct) :
    let s := run deadline (Sys.init first qs) as
    Inv first s.loop ∧ s.seenBy.map (·.2) = s.loop.seen :=
  ⟨(sinv_reach deadline first qs as).loopInv, (sinv_reach deadline first qs as).seen⟩

/-- While nobody cancels the manager's context it stays live (so the theorems above apply). -/
theorem ctx_live_without_cancel (deadline : Bool) (first : List Ev) (qs : List (List Req)) (as : List SAct)
    (h : SAct.cancelCtx ∉ as) : (run deadline (Sys.init first qs) as).ctxDone = false :=
  ctx_live_runCount as _ 0 h rfl

/-! Non-vacuity: two reconcilers (upserts, a delete, a filtered name, a failed Get), a schedule that
interleaves them with handler completion; everything demanded is handled, in per-reconciler order. -/

private def q0 : List Req := [⟨1, true, .found⟩, ⟨2, true, .notFound⟩, ⟨3, false, .found⟩]
private def q1 : List Req := [⟨7, true, .error⟩, ⟨8, true, .found⟩]

example :
    let s := run false (Sys.init [upsert 100] [q0, q1])
      [.begin 0, .begin 1, .begin 1, .deliver 1, .deliver 0, .loop .hreturn, .begin 0, .loop .ack,
       .deliver 0, .begin 0, .loop .hreturn, .loop .ack, .loop .hreturn, .loop .ack]
    s.ctxDone = false ∧ s.quiet = true ∧ s.loop.handling = false ∧
    s.loop.log = [[200], [16, 2], [5]] ∧ s.seenFrom 0 = [upsert 1, delete 2] ∧ s.seenFrom 1 = [upsert 8] ∧
    q0.filterMap Req.ev = [2, 5] ∧ q1.filterMap Req.ev = [16] := by decide

/-- Requeue on error (controller-runtime re-invokes `Reconcile` for a request whose Get failed — whatever the
error wraps, `context.DeadlineExceeded` included — until it returns nil) is a run of entries with the same id:
the failed attempts are recorded as `failed`, and the request still ends in exactly one event. -/
example :
    let q : List Req := [⟨4, true, .error⟩, ⟨4, true, .error⟩, ⟨4, true, .found⟩, ⟨5, true, .error⟩, ⟨5, true, .notFound⟩]
    let s := run false (Sys.init [] [q]) [.begin 0, .begin 0, .begin 0, .deliver 0, .begin 0, .begin 0, .deliver 0]
    q.filterMap Req.ev = [upsert 4, delete 5] ∧ s.seenFrom 0 = [upsert 4, delete 5] ∧
    s.recs.map (·.failed) = [[4, 4, 5]] ∧ s.quiet = true := by decide

/-- a parked reconciler, context live: `parked_until_taken`'s hypotheses are satisfiable -/
example :
    let s := run false (Sys.init [] [q0, q1]) [.begin 0, .begin 1, .begin 1]
    s.offering 0 = some 2 ∧ s.offering 1 = some 16 ∧ s.ctxDone = false ∧
    enabled false s (.deliver 0) = true ∧ enabled false s (.giveup 0) = false := by decide

/-- `can_always_drain` on a concrete mid-way state: two workers parked, work left; the drain schedule finishes it -/
example :
    let s := run false (Sys.init [] [q0, q1]) [.begin 0, .begin 1, .begin 1, .loop .hreturn]
    s.ctxDone = false ∧ s.quiet = false ∧ s.work = 5 ∧
    (run false s (drainSchedule s.recs.length s.work)).quiet = true ∧
    (run false s (drainSchedule s.recs.length s.work)).seenFrom 0 = [2, 5] := by decide

/-- after cancellation the `<-ctx.Done()` arm may be taken: the request is dropped, as the code intends -/
example :
    let s := run false (Sys.init [] [q0]) [.begin 0, .cancelCtx, .giveup 0]
    s.ctxDone = true ∧ (s.recs.map Rec.dropped) = [[2]] ∧ s.seenFrom 0 = [] := by decide

/-! ### Refuted variant: the select gives up after a deadline -/

/-- **deadline_variant_drops.** If the select of `Reconcile` may time out by itself (`deadline = true`,
what a derived `context.WithTimeout` shadowing `ctx` does), there is a schedule WITHOUT any cancellation
in which the loop is merely late: the request's event is dropped, the worker is done, and the event is
never handled — `reconciler_never_drops` fails for this variant. -/
theorem deadline_variant_drops :
    ∃ (qs : List (List Req)) (as : List SAct),
      SAct.cancelCtx ∉ as ∧
      let s := run true (Sys.init [] qs) as
      s.ctxDone = false ∧ s.quiet = true ∧ s.loop.handling = false ∧
      s.seenFrom 0 ≠ (qs[0]!).filterMap Req.ev ∧
      (s.recs.map Rec.dropped) = [[upsert 1]] :=
  ⟨[[⟨1, true, .found⟩, ⟨2, true, .found⟩]],
   [.begin 0, .giveup 0, .begin 0, .deliver 0, .loop .hreturn, .loop .ack, .loop .hreturn, .loop .ack],
   by decide, by decide⟩

/-- The same schedule in the model of the code as it is: `giveup` is not enabled (skipped), the
reconciler stays parked and both events are handled. -/
theorem same_schedule_as_is_delivers :
    let s := run false (Sys.init [] [[⟨1, true, .found⟩, ⟨2, true, .found⟩]])
      [.begin 0, .giveup 0, .begin 0, .deliver 0, .loop .hreturn, .loop .ack, .begin 0, .deliver 0]
    s.seenFrom 0 = [upsert 1, upsert 2] ∧ (s.recs.map Rec.dropped) = [[]] := by decide

/-! ### The loop never stops reading, and an idle loop handles an offered event at once -/

/-- Until the loop takes its `<-ctx.Done()` arm it is at its `select` with the `eventCh` arm enabled:
no buffer state, batch size or history disables receiving (there is no back-pressure in the loop). -/
theorem loop_always_receives (first : List Ev) (as : List Act) (h : Act.cancel ∉ as) (e : Ev) :
    Loop.enabled (Loop.run (Loop.init first) as) (.recv e) = true := by
  have hp : ∀ (as : List Act) (s : Loop), Act.cancel ∉ as → s.phase = .select →
      (Loop.run s as).phase = .select := by
    intro as
    induction as with
    | nil => intro s _ hs; exact hs
    | cons a t ih =>
      intro s hn hs
      have ha : a ≠ .cancel := fun h' => hn (by simp [h'])
      have ht : Act.cancel ∉ t := fun h' => hn (by simp [h'])
      simp only [Loop.run]
      split
      · next he =>
        apply ih _ ht
        by_cases hd : a = .drainack
        · subst hd; simp [Loop.enabled, hs] at he
        · rw [phase_other s a ha hd]; exact hs
      · exact ih _ ht hs
  simp [Loop.enabled, hp as (Loop.init first) h rfl]

/-- **idle_event_handled_at_once** ("no event waits once the handler is idle", the step form of
`idle_implies_empty_next`). In every reachable state in which the handler is idle and the loop has not
stopped, an offered event is received and IMMEDIATELY handed to the handler as a batch of its own —
whatever the sizes of the batches handled before (also after a start-up batch or a burst of any size). -/
theorem idle_event_handled_at_once (first : List Ev) (as : List Act) (e : Ev) :
    let s := Loop.run (Loop.init first) as
    s.phase = .select → s.handling = false →
    Loop.enabled s (.recv e) = true ∧ (Loop.step s (.recv e)).log = s.log ++ [[e]] ∧
    (Loop.step s (.recv e)).h = .running ∧ (Loop.step s (.recv e)).next = [] := by
  intro s hp hh
  have hn : s.next = [] := (idle_implies_empty_next first as hh).1
  clear_value s
  refine ⟨by simp [Loop.enabled, hp], ?_⟩
  cases hc : s.cur <;>
    simp_all [Loop.step, swapAndHandle, Loop.start, swap, Loop.setCell, Loop.next, Loop.current, Loop.cell]

/-- non-vacuity: start-up batch of 1030 events handled, loop idle, then an event; and an EMPTY start-up
batch is still the handler's first batch -/
example :
    let s := Loop.run (Loop.init (List.range 1030)) [.hreturn, .ack]
    s.phase = .select ∧ s.handling = false ∧ (Loop.step s (.recv 5000)).log = [List.range 1030, [5000]] := by
  decide +kernel

example : (Loop.run (Loop.init []) [.hreturn, .ack, .recv 7]).log = [[], [7]] := by decide

/-! ### The start-up batch -/

/-- `prepare` returns exactly: the present individually-fetched objects in configuration order, then the
items of every list in order, one `UpsertEvent` each. -/
theorem first_batch_exact {objs : List (Nat × GetRes)} {lists : List ListRes} {b : List Ev}
    (h : prepare objs lists = some b) : b = (present objs ++ items lists).map upsert := by
  unfold prepare at h
  cases hl : listAll lists with
  | none => simp [hl] at h
  | some it =>
    cases hg : getAll objs with
    | none => simp [hl, hg] at h
    | some os =>
      simp only [hl, hg, Option.some.injEq] at h
      rw [← h, getAll_eq_present hg, listAll_eq_items hl]

theorem upsert_injective {a b : Nat} (h : upsert a = upsert b) : a = b := by
  have h' : 2 * a = 2 * b := h
  omega

theorem count_map_upsert (l : List Nat) (id : Nat) : (l.map upsert).count (upsert id) = l.count id := by
  induction l with
  | nil => rfl
  | cons x t ih =>
    by_cases hx : x = id
    · subst hx; simp [ih]
    · have : upsert x ≠ upsert id := fun h => hx (upsert_injective h)
      simp [ih, hx, this]

/-- **first_batch_complete.** Whenever `Prepare` succeeds, the batch it returns contains exactly one
`UpsertEvent` for every object that is present (individually fetched or listed) and nothing else —
the start-up batch is a complete view of the cluster (what C01's `start build w₀` assumes). -/
theorem first_batch_complete {objs : List (Nat × GetRes)} {lists : List ListRes} {b : List Ev}
    (h : prepare objs lists = some b) : firstBatchComplete objs lists b = true := by
  rw [first_batch_exact h]
  simp only [firstBatchComplete, Bool.and_eq_true, List.all_eq_true, beq_iff_eq, List.any_eq_true]
  refine ⟨fun id _ => count_map_upsert _ id, ?_⟩
  intro e he
  obtain ⟨id, hid, rfl⟩ := List.mem_map.mp he
  exact ⟨id, hid, rfl⟩

/-- In particular every present object is in the batch (membership form). -/
theorem first_batch_has_every_present {objs : List (Nat × GetRes)} {lists : List ListRes} {b : List Ev}
    (h : prepare objs lists = some b) (id : Nat)
    (hp : (id, GetRes.found) ∈ objs ∨ id ∈ items lists) : upsert id ∈ b := by
  rw [first_batch_exact h]
  apply List.mem_map.mpr
  refine ⟨id, ?_, rfl⟩
  rcases hp with hp | hp
  · apply List.mem_append_left
    simp only [present, List.mem_filterMap]
    exact ⟨(id, .found), hp, by simp⟩
  · exact List.mem_append_right _ hp

/-- `Prepare` fails exactly when some List fails or some Get fails with an error other than NotFound;
a missing object never aborts it. -/
theorem prepare_aborts_iff (objs : List (Nat × GetRes)) (lists : List ListRes) :
    prepare objs lists = none ↔ (ListRes.error ∈ lists ∨ ∃ id, (id, GetRes.error) ∈ objs) := by
  unfold prepare
  cases hl : listAll lists with
  | none => simp [(listAll_none_iff lists).mp hl]
  | some it =>
    have hnl : ListRes.error ∉ lists := by
      intro hm; rw [(listAll_none_iff lists).mpr hm] at hl; cases hl
    cases hg : getAll objs with
    | none =>
      simp only [true_iff]
      exact .inr ((getAll_none_iff objs).mp hg)
    | some os =>
      simp only [reduceCtorEq, false_iff, not_or]
      refine ⟨hnl, ?_⟩
      intro hm; rw [(getAll_none_iff objs).mpr hm] at hg; cases hg

/-- `EventLoop.Start`: the prepared batch is what the handler sees first, whatever happens afterwards. -/
theorem startup_batch_handled_first {objs : List (Nat × GetRes)} {lists : List ListRes} {l : Loop}
    (h : startup objs lists = some l) (as : List Act) :
    ∃ b, prepare objs lists = some b ∧ firstBatchComplete objs lists b = true ∧
      (Loop.run l as).log.head? = some b := by
  unfold startup at h
  cases hp : prepare objs lists with
  | none => simp [hp] at h
  | some b =>
    simp only [hp, Option.map_some, Option.some.injEq] at h
    subst h
    exact ⟨b, rfl, first_batch_complete hp, first_batch_first b as⟩

/-- non-vacuity: four objects (two missing), three lists -/
example :
    prepare [(1, .found), (2, .notFound), (3, .notFound), (4, .found)] [.ok [10, 11], .ok [], .ok [12]]
      = some [2, 8, 20, 22, 24] ∧
    prepareCalls [(1, .found), (2, .notFound), (3, .notFound), (4, .found)] [.ok [10, 11], .ok [], .ok [12]]
      = [1, 3, 5, 2, 4, 6, 8] ∧
    prepare [(1, .found), (2, .error), (3, .found)] [.ok [10]] = none ∧
    prepareCalls [(1, .found), (2, .error), (3, .found)] [.ok [10]] = [1, 2, 4] := by decide

/-- **break_variant_incomplete.** The variant whose per-object loop leaves at the first missing object
returns a batch that is NOT complete: a present object after a missing one is left out. -/
theorem break_variant_incomplete :
    ∃ (objs : List (Nat × GetRes)) (lists : List ListRes) (b : List Ev),
      prepareBreak objs lists = some b ∧ firstBatchComplete objs lists b = false ∧
      (2, GetRes.found) ∈ objs ∧ upsert 2 ∉ b :=
  ⟨[(1, .notFound), (2, .found)], [.ok [10]], [20], by decide, by decide, by decide, by decide⟩

/-- … and on inputs without a missing object before a present one the two agree (why the repo's tests,
which configure a single object, cannot tell them apart). -/
theorem break_variant_agrees_on_single (o : Nat × GetRes) (lists : List ListRes) :
    prepareBreak [o] lists = prepare [o] lists := by
  obtain ⟨id, g⟩ := o
  cases g <;> simp [prepareBreak, prepare, getAllBreak, getAll]

/-! ### Tie to the source: statement texts regenerated by the translator -/

/-- `Reconcile` as modelled: filter → Get (NotFound ⇒ delete, other error ⇒ return err) → build the event →
ONE top-level select whose arms are `<-ctx.Done()` (return nil) and the send; `ctx` is the function's own
parameter, never re-bound, and nothing from package `context` or `time` is used (no derived timeout,
deadline or timer); no goroutine, no loop. -/
theorem reconcile_as_modelled :
    Generated.Delivery.reconcileStmts =
      ["if r.cfg.NamespacedNameFilter != nil { if shouldProcess, msg := r.cfg.NamespacedNameFilter(req.NamespacedName); !shouldProcess { return reconcile.Result{}, nil } }",
       "obj := r.mustCreateNewObject(r.cfg.ObjectType)",
       "if err := r.cfg.Getter.Get(ctx, req.NamespacedName, obj); err != nil { if !apierrors.IsNotFound(err) { return reconcile.Result{}, err } obj = nil }",
       "var e interface{}",
       "var op string",
       "if obj == nil { e = &events.DeleteEvent{ Type: r.cfg.ObjectType, NamespacedName: req.NamespacedName, } op = \"Deleted\" } else { e = &events.UpsertEvent{ Resource: obj, } op = \"Upserted\" }",
       "select { case <-ctx.Done(): return reconcile.Result{}, nil case r.cfg.EventCh <- e: }",
       "return reconcile.Result{}, nil"] ∧
    Generated.Delivery.reconcileCtxParam = "ctx" ∧
    Generated.Delivery.reconcileCtxRebinds = [] ∧
    Generated.Delivery.reconcileContextUses = [] ∧
    Generated.Delivery.reconcileSelectCount = 1 ∧
    Generated.Delivery.reconcileSelectTopLevel = true ∧
    Generated.Delivery.reconcileSelectArms = ["<-ctx.Done()", "r.cfg.EventCh <- e"] ∧
    Generated.Delivery.reconcileArmBody0 = ["return reconcile.Result{}, nil"] ∧
    Generated.Delivery.reconcileArmBody1 = [] ∧
    Generated.Delivery.reconcileGoCount = 0 ∧
    Generated.Delivery.reconcileLoopCount = 0 :=
  ⟨rfl, rfl, rfl, rfl, rfl, rfl, rfl, rfl, rfl, rfl, rfl⟩

/-- `Prepare` as modelled: List every list (error aborts), Get every object (NotFound skipped through the
if/else, other errors abort), append the list items; no break/continue/goto anywhere. `Start` calls it
before the loop and hands its result to the first handler goroutine. -/
theorem prepare_as_modelled :
    Generated.Delivery.prepareStmts =
      ["total := 0",
       "for _, list := range p.objectLists { if err := p.reader.List(ctx, list); err != nil { return nil, err } total += meta.LenList(list) }",
       "batch := make([]interface{}, 0, total+len(p.objects))",
       "for _, obj := range p.objects { key := types.NamespacedName{Namespace: obj.GetNamespace(), Name: obj.GetName()} if err := p.reader.Get(ctx, key, obj); err != nil { if !apierrors.IsNotFound(err) { return nil, err } } else { batch = append(batch, &UpsertEvent{Resource: obj}) } }",
       "for _, list := range p.objectLists { err := p.eachListItem(list, func(object runtime.Object) error { clientObj, ok := object.(client.Object) if !ok { return fmt.Errorf(\"cannot cast %T to client.Object\", object) } batch = append(batch, &UpsertEvent{Resource: clientObj}) return nil }) if err != nil { return nil, err } }",
       "return batch, nil"] ∧
    Generated.Delivery.prepareBranchStmts = [] ∧
    Generated.Delivery.startPrologue =
      ["var handling bool",
       "handlingDone := make(chan struct{})",
       "var err error",
       "el.currentBatch, err = el.preparer.Prepare(ctx)",
       "if err != nil { return fmt.Errorf(\"failed to prepare the first batch: %w\", err) }",
       "handleBatch()",
       "handling = true"] :=
  ⟨rfl, rfl, rfl⟩

end NGF.Delivery
