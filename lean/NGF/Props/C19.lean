/-
C19 — product telemetry discloses only counts, flag classes and directive names.

Property theorems over `NGF.Model.Telemetry` (what the collector and `parseFlags` DO; the functions the
driver runs and the correspondence compares with the real code) and `NGF.Model.SnippetLex` (what an NGINX
directive name IS).  Helper lemmas live in `NGF.Proofs.Telemetry` / `NGF.Proofs.SnippetLex`.

Since fix c8088bb `parseSnippetValueIntoDirectives` is a one-pass tokenizer; the model `parseSnippet` follows
it state for state.  MAIN THEOREM (full strength, all graphs, all snippet texts): `repaired_full_strength` —
every reported string is `(name of a depth-0 directive of lex(snippet)) ++ "-" ++ context name` with its exact
multiplicity; it rests on `tokenizer_eq_lexer` (simulation proof, `tokRun_sim`).

§7 keeps the PRE-FIX split-based variant: kernel-checked witnesses of its leaks (one per known leak shape),
its `_partial` theorem, so that a regression to that behaviour is recognised for what it is.
-/
import NGF.Model.Telemetry
import NGF.Model.SnippetLex
import NGF.Proofs.Telemetry
import NGF.Generated.TelemetryFacts
import NGF.Props.C19Truth

namespace NGF.Telemetry
open NGF.SnippetLex

/-! ## 1. Facts regenerated from the source pin the model to the code -/

/-- text of `parseSnippetValueIntoDirectives` (the tokenizer that `tokStep`/`tokRun`/`endWord`/`punct` mirror) -/
def currentParseBody : List String :=
  ["const ( gap = iota comment bare dquoted squoted )",
   "directives := make([]string, 0)",
   "var word []rune",
   "state, depth := gap, 0",
   "escaped, variable, atStart := false, false, true",
   "endWord := func() { if depth == 0 && atStart { directives = append(directives, unescapeNginxWord(word)) } atStart = false word = word[:0] }",
   "punct := func(ch rune) { switch ch { case '{': depth++ case '}': if depth > 0 { depth-- } } atStart = true }",
   "isSpace := func(ch rune) bool { return ch == ' ' || ch == '\\t' || ch == '\\r' || ch == '\\n' }",
   "for _, ch := range snippetValue { switch state { case gap: switch { case isSpace(ch): case ch == ';' || ch == '{' || ch == '}': punct(ch) case ch == '#': state = comment case ch == '\"': state, escaped = dquoted, false case ch == '\\'': state, escaped = squoted, false default: state, escaped, variable = bare, ch == '\\\\', ch == '$' word = append(word, ch) } case comment: if ch == '\\n' { state = gap } case bare: switch { case escaped: escaped = false word = append(word, ch) case ch == '{' && variable: word = append(word, ch) case ch == '\\\\': escaped, variable = true, false word = append(word, ch) case ch == '$': variable = true word = append(word, ch) case isSpace(ch): endWord() state = gap case ch == ';' || ch == '{': endWord() punct(ch) state = gap default: variable = false word = append(word, ch) } case dquoted, squoted: switch { case escaped: escaped = false word = append(word, ch) case ch == '\\\\': escaped = true word = append(word, ch) case (state == dquoted && ch == '\"') || (state == squoted && ch == '\\''): endWord() state = gap default: word = append(word, ch) } } }",
   "if state == bare || state == dquoted || state == squoted { endWord() }",
   "return directives"]

/-- text of `unescapeNginxWord` (`unescapeWord`) -/
def currentUnescapeBody : List String :=
  ["out := make([]rune, 0, len(word))",
   "for i := 0; i < len(word); i++ { if word[i] == '\\\\' && i+1 < len(word) { switch word[i+1] { case '\"', '\\'', '\\\\': out = append(out, word[i+1]) i++ continue case 't': out = append(out, '\\t') i++ continue case 'r': out = append(out, '\\r') i++ continue case 'n': out = append(out, '\\n') i++ continue } } out = append(out, word[i]) }",
   "return string(out)"]

/-- `parseSnippetValueIntoDirectives` and `unescapeNginxWord` are exactly the code the model was written from, and the
function no longer calls any `strings.*` function (in particular no `strings.Split`).  Any other text — including
the pre-fix split-based body — breaks this obligation. -/
theorem facts_parse_body :
    Generated.Telemetry.parseSnippetBody = currentParseBody ∧
    Generated.Telemetry.unescapeNginxWordBody = currentUnescapeBody ∧
    Generated.Telemetry.splitSeparators = [] ∧
    Generated.Telemetry.stringsCalls = [] := ⟨rfl, rfl, rfl, rfl⟩

/-- the context switch of `collectSnippetsFilterDirectives` is the model's `ctxName` -/
theorem facts_ctx_table :
    (∀ p ∈ Generated.Telemetry.ctxTable, ctxName p.1.toList = p.2.toList) ∧
    ctxName "anything else".toList = Generated.Telemetry.ctxDefault.toList ∧
    Generated.Telemetry.ctxTable.length = 4 := by decide

/-- the less function of `sort.Slice` and the join with "-" are the model's `entryLe` / `renderKey` -/
theorem facts_sort_and_join :
    Generated.Telemetry.sortLessBody =
      ["if kvPairs[i].count == kvPairs[j].count { if kvPairs[i].context == kvPairs[j].context { return kvPairs[i].directive < kvPairs[j].directive } return kvPairs[i].context < kvPairs[j].context }",
       "return kvPairs[i].count > kvPairs[j].count"] ∧
    Generated.Telemetry.reportedStringExpr = ["pair.directive + \"-\" + pair.context"] := ⟨rfl, rfl⟩

/-- `collectGraphResourceCount` / `computeRouteCount` are still the loops that `countResources` mirrors -/
theorem facts_count_body :
    Generated.Telemetry.countBody =
      ["ngfResourceCounts := NGFResourceCounts{}",
       "cfg := configurationGetter.GetLatestConfiguration()",
       "if cfg == nil { return ngfResourceCounts, errors.New(\"latest configuration cannot be nil\") }",
       "ngfResourceCounts.GatewayClassCount = int64(len(g.IgnoredGatewayClasses))",
       "if g.GatewayClass != nil { ngfResourceCounts.GatewayClassCount++ }",
       "ngfResourceCounts.GatewayCount = int64(len(g.IgnoredGateways))",
       "if g.Gateway != nil { ngfResourceCounts.GatewayCount++ }",
       "routeCounts := computeRouteCount(g.Routes, g.L4Routes)",
       "ngfResourceCounts.HTTPRouteCount = routeCounts.HTTPRouteCount",
       "ngfResourceCounts.GRPCRouteCount = routeCounts.GRPCRouteCount",
       "ngfResourceCounts.TLSRouteCount = routeCounts.TLSRouteCount",
       "ngfResourceCounts.SecretCount = int64(len(g.ReferencedSecrets))",
       "ngfResourceCounts.ServiceCount = int64(len(g.ReferencedServices))",
       "for _, upstream := range cfg.Upstreams { if upstream.ErrorMsg == \"\" { ngfResourceCounts.EndpointCount += int64(len(upstream.Endpoints)) } }",
       "ngfResourceCounts.BackendTLSPolicyCount = int64(len(g.BackendTLSPolicies))",
       "for policyKey, policy := range g.NGFPolicies { switch policyKey.GVK.Kind { case kinds.ClientSettingsPolicy: if len(policy.TargetRefs) == 0 { continue } if policy.TargetRefs[0].Kind == kinds.Gateway { ngfResourceCounts.GatewayAttachedClientSettingsPolicyCount++ } else { ngfResourceCounts.RouteAttachedClientSettingsPolicyCount++ } case kinds.ObservabilityPolicy: ngfResourceCounts.ObservabilityPolicyCount++ case kinds.UpstreamSettingsPolicy: ngfResourceCounts.UpstreamSettingsPolicyCount++ } }",
       "if g.NginxProxy != nil { ngfResourceCounts.NginxProxyCount = 1 }",
       "ngfResourceCounts.SnippetsFilterCount = int64(len(g.SnippetsFilters))",
       "return ngfResourceCounts, nil"] ∧
    Generated.Telemetry.routeCountBody =
      ["httpRouteCount := int64(0)",
       "grpcRouteCount := int64(0)",
       "for _, r := range routes { if r.RouteType == graph.RouteTypeHTTP { httpRouteCount++ } if r.RouteType == graph.RouteTypeGRPC { grpcRouteCount++ } }",
       "return RouteCounts{ HTTPRouteCount: httpRouteCount, GRPCRouteCount: grpcRouteCount, TLSRouteCount: int64(len(l4routes)), }"] :=
  ⟨rfl, rfl⟩

/-- `Collect` copies the flag lists, the directive lists and the counts unmodified into the report -/
theorem facts_collect_fields :
    Generated.Telemetry.collectDataFields =
      ["FlagNames: c.cfg.Flags.Names",
       "FlagValues: c.cfg.Flags.Values",
       "NGFResourceCounts: graphResourceCount",
       "SnippetsFiltersDirectives: snippetsFiltersDirectives",
       "SnippetsFiltersDirectivesCount: snippetsFiltersDirectivesCount"] := rfl

/-- `parseFlags` is the model's `reduceFlag`; its value words are the model's `flagWords`; no custom
`pflag.Value` of cmd/gateway claims the type "bool" (so every bool flag is pflag's own `boolValue`,
whose `String()` is `strconv.FormatBool`) -/
theorem facts_parse_flags :
    Generated.Telemetry.parseFlagsVisitBody =
      ["flagKeys = append(flagKeys, flag.Name)",
       "if flag.Value.Type() == \"bool\" { flagValues = append(flagValues, flag.Value.String()) } else { val := \"user-defined\" if flag.Value.String() == flag.DefValue { val = \"default\" } flagValues = append(flagValues, val) }"] ∧
    Generated.Telemetry.parseFlagsLiterals = ["bool", "user-defined", "default"] ∧
    (∀ w ∈ ["user-defined", "default"], w.toList ∈ flagWords) ∧
    (∀ t ∈ Generated.Telemetry.customFlagTypeNames, t.toList ≠ "bool".toList) := ⟨rfl, rfl, by decide, by decide⟩

/-! ## 2. Flags -/

/-- for ALL flag sets: every reported flag value is one of true / false / default / user-defined -/
theorem flag_values_closed (fs : List (Str × FlagVal)) : ∀ v ∈ (parseFlags fs).2, v ∈ flagWords := by
  intro v hv
  simp only [parseFlags, List.mem_map] at hv
  obtain ⟨f, _, rfl⟩ := hv
  cases h : f.2 with
  | bool b => cases b <;> simp [reduceFlag, flagWords]
  | other c d =>
    simp only [reduceFlag, flagWords]
    split <;> simp

/-- names are passed through, one value per flag, in the same order -/
theorem flag_names_and_length (fs : List (Str × FlagVal)) :
    (parseFlags fs).1 = fs.map (·.1) ∧ (parseFlags fs).2.length = fs.length := by
  simp [parseFlags]

/-- a user-provided value never reaches the report: the reduced value only depends on `cur == def` -/
theorem flag_value_hides_user_string (cur cur' d : Str) (h1 : cur ≠ d) (h2 : cur' ≠ d) :
    reduceFlag (.other cur d) = reduceFlag (.other cur' d) := by
  simp [reduceFlag, h1, h2]

example : (parseFlags [("gateway".toList, .other "ns/secret-gw".toList []), ("nginx-plus".toList, .bool true),
    ("metrics-port".toList, .other "9113".toList "9113".toList)]).2 =
    ["user-defined".toList, "true".toList, "default".toList] := by decide

/-! ## 3. SnippetsFilters — MAIN THEOREMS (current code, full strength) -/

/-- full-strength statement for one snippet: everything the collector extracts is a directive name -/
def DirectivesAreNames (s : Str) : Prop := ∀ d ∈ parseSnippet s, d ∈ directiveNames s

/-- for EVERY snippet text (quoted `;`, tabs/newlines, comments, nested blocks, escapes, garbage): the tokenizer of
the code returns exactly the depth-0 directive names of the NGINX lexer, in order.  Simulation proof: the Go
state (state, depth, escaped, variable, atStart, word, directives) is an abstraction of lexer mode + statement
bookkeeping, preserved by every character (`tokStep_sim`) and by the final `endWord` (`tokRun_sim`). -/
theorem tokenizer_eq_lexer (s : Str) : parseSnippet s = directiveNames s := parseSnippet_eq_directiveNames s

/-- a quote in the MIDDLE or at the END of a bare word is an ordinary character (ngx_conf_read_token recognises quotes only
when `last_space`, i.e. at the start of a token): for the code's tokenizer and for the reference lexer the quote is appended
to the word and no quoted section opens; a bare word made of any characters except white space, `;`, `{`, `\`, `$` — quotes
anywhere after its first character — that is ended by `;` is ONE word token, so a later genuine quoted argument keeps its
`;` and its text inside the quotes (seeded change C19-r5m1 flipped the quote state after `it's`). -/
theorem midword_quote_is_plain (q : Char) (hq : q = '"' ∨ q = '\'') :
    (∀ acc esc var, step (.bare acc esc var) q = (.bare (q :: acc) false (esc && var), [])) ∧
    (∀ (d : Nat) (a : Bool) (ds : List Str) (word : Str) (esc v : Bool),
      tokStep ⟨.bare word esc v, d, a, ds⟩ q = ⟨.bare (word ++ [q]) false (esc && v), d, a, ds⟩) ∧
    (∀ (c : Char) (w rest : Str), bareStay c = true → c ≠ '"' → c ≠ '\'' → c ≠ '}' → c ≠ '#' → (∀ x ∈ w, bareStay x = true) →
      lex (c :: w ++ ';' :: rest) = .word (c :: w) .none :: .semi :: lex rest) := by
  refine ⟨?_, ?_, ?_⟩
  · intro acc esc var
    rcases hq with rfl | rfl <;> cases esc <;> cases var <;> simp [step, isNgxSpace]
  · intro d a ds word esc v
    rcases hq with rfl | rfl <;> cases esc <;> cases v <;> simp [tokStep, tokSpace]
  · intro c w rest hc h1 h2 h3 h4 hw
    have hstep : step .gap c = (.bare [c] false false, []) := by
      simp only [bareStay, Bool.and_eq_true, Bool.not_eq_true', bne_iff_ne, ne_eq] at hc
      obtain ⟨⟨⟨⟨g1, g2⟩, g3⟩, g4⟩, g5⟩ := hc
      simp [step, g1, g2, g3, g4, g5, h1, h2, h3, h4]
    show run .gap (c :: (w ++ ';' :: rest)) = _
    simp only [run, hstep, List.nil_append]
    rw [run_bare_stay w rest [c] false hw]
    rfl

-- the snippet of C19-r5m1 and neighbours: quotes inside / at the end of bare words, then genuine quoted arguments with `;` `{`
example : parseSnippet "set $greeting it's; set $origin 'x; internal-billing.corp.example /private/ledger';".toList =
    ["set".toList, "set".toList] := by decide +kernel
example : directiveNames "add_header X a\"b; add_header Y \"p; SECRET { q\"; return 200 x';aio 'on; off';".toList =
    ["add_header".toList, "add_header".toList, "return".toList, "aio".toList] := by decide +kernel
example : lex "it's;".toList = [.word "it's".toList .none, .semi] := by decide +kernel

theorem directives_subset_of_parse (s : Str) : DirectivesAreNames s :=
  fun _ hd => tokenizer_eq_lexer s ▸ hd

/-- the sorted entries behind the two reported lists (same index = same entry) -/
def reportEntries (fs : List Filter) : List (Key × Nat) := sortEntries (countMap (allKeys fs))

theorem collect_eq_entries (fs : List Filter) :
    collectDirectives fs =
      ((reportEntries fs).map (fun e => e.1.directive ++ '-' :: e.1.context), (reportEntries fs).map (·.2)) := rfl

/-- every key counted by the collector is (depth-0 directive name of a snippet of a non-nil filter, its context name) -/
theorem key_origin (fs : List Filter) (k : Key) (hk : k ∈ allKeys fs) :
    ∃ ss, some ss ∈ fs ∧ ∃ sn ∈ ss, k.directive ∈ directiveNames sn.text ∧ k.context = ctxName sn.ctx := by
  simp only [allKeys, List.mem_flatMap] at hk
  obtain ⟨f, hf, hk⟩ := hk
  cases f with
  | none => simp [filterKeys] at hk
  | some ss =>
    simp only [filterKeys, List.mem_flatMap, snippetKeys, tokenizer_eq_lexer, List.mem_map] at hk
    obtain ⟨sn, hsn, d, hd, rfl⟩ := hk
    exact ⟨ss, hf, sn, hsn, hd, rfl⟩

/-- the keys counted are exactly the depth-0 directive names of all snippets, paired with their context names -/
theorem allKeys_eq_names (fs : List Filter) :
    allKeys fs = fs.flatMap fun f => (f.getD []).flatMap fun sn =>
      (directiveNames sn.text).map fun d => ({ directive := d, context := ctxName sn.ctx } : Key) := by
  simp only [allKeys]
  congr 1
  funext f
  cases f with
  | none => simp [filterKeys]
  | some ss =>
    simp only [filterKeys, Option.getD_some]
    congr 1
    funext sn
    simp [snippetKeys, tokenizer_eq_lexer]

/-- MAIN THEOREM — FULL STRENGTH, for ALL graphs and ALL snippet texts: every reported string is
`(name of a depth-0 directive of lex(snippet)) ++ "-" ++ context name` for a snippet of that context in a non-nil
filter, and the count at the same index is the exact, positive number of such directives.  No argument, value,
hostname, path, comment word or nested-block entry can be reported, whatever the snippet text looks like. -/
theorem repaired_full_strength (fs : List Filter) :
    (collectDirectives fs).1 = (reportEntries fs).map (fun e => e.1.directive ++ '-' :: e.1.context) ∧
    (collectDirectives fs).2 = (reportEntries fs).map (·.2) ∧
    ∀ e ∈ reportEntries fs,
      e.2 = (allKeys fs).count e.1 ∧ 1 ≤ e.2 ∧
      ∃ ss, some ss ∈ fs ∧ ∃ sn ∈ ss, e.1.directive ∈ directiveNames sn.text ∧ e.1.context = ctxName sn.ctx := by
  refine ⟨rfl, rfl, ?_⟩
  intro e he
  obtain ⟨hc, hp, hm⟩ := entries_spec (allKeys fs) e he
  exact ⟨hc, hp, key_origin fs e.1 hm⟩

/-- nothing is dropped: every depth-0 directive of every snippet is reported -/
theorem reported_complete (fs : List Filter) (ss : List Snippet) (hss : some ss ∈ fs) (sn : Snippet) (hsn : sn ∈ ss)
    (d : Str) (hd : d ∈ directiveNames sn.text) :
    ∃ e ∈ reportEntries fs, e.1 = { directive := d, context := ctxName sn.ctx } := by
  apply entries_complete
  rw [allKeys_eq_names]
  simp only [List.mem_flatMap, List.mem_map]
  exact ⟨some ss, hss, sn, by simpa using hsn, d, hd, rfl⟩

/-- the context part of every reported string is one of five fixed words (never user text) -/
theorem context_words_closed (k : Str) :
    ctxName k ∈ ["main".toList, "http".toList, "server".toList, "location".toList, "unknown".toList] := by
  simp only [ctxName]
  repeat' split
  all_goals simp

/-- documented order: count descending, then context, then directive (pairwise, i.e. sorted) -/
theorem reported_sorted (fs : List Filter) :
    (reportEntries fs).Pairwise (fun a b => entryLe a b = true) := sorted_sortEntries _

/-- no (directive, context) pair is reported twice -/
theorem reported_keys_nodup (fs : List Filter) : ((reportEntries fs).map (·.1)).Nodup := entries_keys_nodup _

/-- no reported STRING occurs twice (the join with "-" is injective because no context name contains '-') -/
theorem reported_strings_nodup (fs : List Filter) : (collectDirectives fs).1.Nodup := by
  have hk := reported_keys_nodup fs
  have hctx : ∀ e ∈ reportEntries fs, '-' ∉ e.1.context := by
    intro e he
    obtain ⟨_, _, _, _, sn, _, _, hc⟩ := (repaired_full_strength fs).2.2 e he
    rw [hc]; exact ctxName_no_dash sn.ctx
  simp only [collect_eq_entries]
  have : (reportEntries fs).map (fun e => e.1.directive ++ '-' :: e.1.context) =
      ((reportEntries fs).map (·.1)).map renderKey := by simp [renderKey]
  rw [this]
  simp only [List.Nodup, List.pairwise_map] at hk ⊢
  refine (List.Pairwise.and_mem.mp hk).imp ?_
  intro a b ⟨ha, hb, hne⟩ heq
  exact hne (renderKey_inj (hctx a ha) (hctx b hb) heq)

/-- the report does not depend on the iteration order of the Go maps (`g.SnippetsFilters`, `sf.Snippets`):
any two runs that count the same multiset of keys produce identical lists -/
theorem collect_order_independent (fs fs' : List Filter) (h : (allKeys fs).Perm (allKeys fs')) :
    collectDirectives fs = collectDirectives fs' := mapToLists_perm h

/-- … in particular under any permutation of the filters -/
theorem collect_filter_order_independent (fs fs' : List Filter) (h : fs.Perm fs') :
    collectDirectives fs = collectDirectives fs' :=
  collect_order_independent fs fs' (List.Perm.flatMap_right filterKeys h)

-- non-vacuity: the model functions the driver runs, on the snippets that used to leak
example : parseSnippet "map $host $x { a.example.com 1; secret.example.com 2; }\n# c; d\nadd_header X \"a; b\";".toList =
    ["map".toList, "add_header".toList] := by decide +kernel
example : parseSnippet "return\t200\tSECRETBODY;set $a PREFIX\\;SECRETSUFFIX end;types{a B; c D;}if ($x) { } aio on".toList =
    ["return".toList, "set".toList, "types".toList, "if".toList, "aio".toList] := by decide +kernel
example : parseSnippet "\"add_header\" X ${v}y; 'un\\'terminated ; }".toList =
    ["add_header".toList, "un'terminated ; }".toList] := by decide +kernel
example : collectDirectives [some [⟨"main".toList, "worker_priority 0;".toList⟩, ⟨"http".toList, "aio on;".toList⟩],
      none, some [⟨"main".toList, "worker_priority 1; worker_rlimit_nofile 50;\n".toList⟩]] =
    (["worker_priority-main".toList, "aio-http".toList, "worker_rlimit_nofile-main".toList], [2, 1, 1]) := by
  decide +kernel

/-! ## 5. Resource counts = sizes of the sets of the graph summary -/

theorem counts_eq (s : Summary) :
    countResources s =
      { gatewayClass := s.ignoredGatewayClasses + (if s.hasGatewayClass then 1 else 0)
        gateway := s.ignoredGateways + (if s.hasGateway then 1 else 0)
        httpRoute := (s.routes.filter (· == .http)).length
        grpcRoute := (s.routes.filter (· == .grpc)).length
        tlsRoute := s.l4Routes
        secret := s.secrets
        service := s.services
        endpoint := ((s.upstreams.filter (fun u => !u.hasError)).map (·.endpoints)).sum
        backendTLSPolicy := s.backendTLSPolicies
        gwClientSettings := (s.policies.filter isGwCSP).length
        routeClientSettings := (s.policies.filter isRouteCSP).length
        observability := (s.policies.filter (·.kind == .observability)).length
        upstreamSettings := (s.policies.filter (·.kind == .upstreamSettings)).length
        nginxProxy := if s.hasNginxProxy then 1 else 0
        snippetsFilter := s.snippetsFilters.length } := by
  simp [countResources, routeLoop_spec, endpointLoop_spec, policyLoop_spec, b2n]

/-- endpoints of upstreams that carry an error (unresolved backends) are not counted; nil filters and
filters without snippets still count as SnippetsFilters -/
example :
    countResources
      { hasGatewayClass := true, ignoredGatewayClasses := 2, hasGateway := false, ignoredGateways := 1,
        routes := [.http, .grpc, .http, .other], l4Routes := 1, secrets := 0, services := 2,
        upstreams := [⟨false, 3⟩, ⟨true, 5⟩, ⟨false, 0⟩], backendTLSPolicies := 0,
        policies := [⟨.clientSettings, [true]⟩, ⟨.clientSettings, []⟩, ⟨.clientSettings, [false, true]⟩,
                     ⟨.other, [true]⟩],
        hasNginxProxy := true, snippetsFilters := [none, some []] } =
      { gatewayClass := 3, gateway := 1, httpRoute := 2, grpcRoute := 1, tlsRoute := 1, secret := 0,
        service := 2, endpoint := 3, backendTLSPolicy := 0, gwClientSettings := 1, routeClientSettings := 1,
        observability := 0, upstreamSettings := 0, nginxProxy := 1, snippetsFilter := 2 } := by decide

/-! ## 6. The reference lexer -/

/-- the lexer is lossless: every character of the snippet belongs to exactly one token, in order -/
theorem lexer_lossless (s : Str) : (lex s).flatMap Tok.raw = s := lex_lossless s

/-! ## 7. PRE-FIX variant (before c8088bb: split on ";" and " ") — kept to recognise a regression

The full-strength statement was FALSE for `parseSnippetSplit`; these witnesses are the leak shapes that the judge
names (`leak:quoted-semicolon`, …).  The current code differs from the split variant on each of them. -/

def DirectivesAreNamesSplit (s : Str) : Prop := ∀ d ∈ parseSnippetSplit s, d ∈ directiveNames s

instance (s : Str) : Decidable (DirectivesAreNamesSplit s) := by
  unfold DirectivesAreNamesSplit; infer_instance

/-- nested block: the second entry of a `map` block (a hostname) is reported as a directive -/
theorem witness_nested_block_entry :
    parseSnippetSplit "map $host $x { a.example.com 1; secret.example.com 2; }".toList =
      ["map".toList, "secret.example.com".toList, "}".toList] ∧
    directiveNames "map $host $x { a.example.com 1; secret.example.com 2; }".toList = ["map".toList] := by
  decide +kernel

/-- quoted `;`: the text after it is reported -/
theorem witness_quoted_semicolon :
    parseSnippetSplit "add_header X-Note \"first; SECRETTOKEN second\";".toList =
      ["add_header".toList, "SECRETTOKEN".toList] ∧
    directiveNames "add_header X-Note \"first; SECRETTOKEN second\";".toList = ["add_header".toList] := by
  decide +kernel

/-- escaped `;` -/
theorem witness_escaped_semicolon :
    parseSnippetSplit "set $a PREFIX\\;SECRETSUFFIX end;".toList = ["set".toList, "SECRETSUFFIX".toList] ∧
    directiveNames "set $a PREFIX\\;SECRETSUFFIX end;".toList = ["set".toList] := by
  decide +kernel

/-- tab after the name (and between the arguments): the whole statement, secret included, is reported -/
theorem witness_tab_separator :
    parseSnippetSplit "return\t200\tSECRETBODY;".toList = ["return\t200\tSECRETBODY".toList] ∧
    directiveNames "return\t200\tSECRETBODY;".toList = ["return".toList] := by
  decide +kernel

/-- comment: `#` and the first word after a `;` inside the comment are reported -/
theorem witness_comment_text :
    parseSnippetSplit "# password is HUNTER2222; really\nauth_delay 10s;".toList =
      ["#".toList, "really\nauth_delay".toList] ∧
    directiveNames "# password is HUNTER2222; really\nauth_delay 10s;".toList = ["auth_delay".toList] := by
  decide +kernel

/-- `{` glued to the name -/
theorem witness_brace_glued :
    parseSnippetSplit "types{text/html HTMLSECRET; text/css CSSSECRET;}".toList =
      ["types{text/html".toList, "text/css".toList, "}".toList] ∧
    directiveNames "types{text/html HTMLSECRET; text/css CSSSECRET;}".toList = ["types".toList] := by
  decide +kernel

/-- under-reporting: a directive after a block with no `;` in between is lost -/
theorem witness_directive_after_block :
    parseSnippetSplit "if ($http_x) { } return 200 OKAYTOKEN;".toList = ["if".toList] ∧
    directiveNames "if ($http_x) { } return 200 OKAYTOKEN;".toList = ["if".toList, "return".toList] := by
  decide +kernel

/-- the full-strength statement was false for the pre-fix collector -/
theorem directives_subset_of_parse_false : ¬ ∀ s : Str, DirectivesAreNamesSplit s := by
  intro h
  exact absurd (h "map $host $x { a.example.com 1; secret.example.com 2; }".toList) (by decide +kernel)

/-- … for every leak shape separately -/
theorem directives_subset_of_parse_false_shapes :
    ¬ DirectivesAreNamesSplit "add_header X-Note \"first; SECRETTOKEN second\";".toList ∧
    ¬ DirectivesAreNamesSplit "set $a PREFIX\\;SECRETSUFFIX end;".toList ∧
    ¬ DirectivesAreNamesSplit "return\t200\tSECRETBODY;".toList ∧
    ¬ DirectivesAreNamesSplit "# password is HUNTER2222; really\nauth_delay 10s;".toList ∧
    ¬ DirectivesAreNamesSplit "types{text/html HTMLSECRET; text/css CSSSECRET;}".toList ∧
    ¬ DirectivesAreNamesSplit "location /a { return 200; }".toList := by
  decide +kernel

/-- … and the leak reached the report -/
theorem witness_report :
    collectDirectivesSplit [some [⟨"http".toList, "map $host $x { a.example.com 1; secret.example.com 2; }".toList⟩]] =
      (["map-http".toList, "secret.example.com-http".toList, "}-http".toList], [1, 1, 1]) ∧
    collectDirectives [some [⟨"http".toList, "map $host $x { a.example.com 1; secret.example.com 2; }".toList⟩]] =
      (["map-http".toList], [1]) := by
  decide +kernel

/-- PARTIAL theorem of the pre-fix variant (excluded region explicit and decidable): on every tidy snippet the
split-based extraction returned exactly the depth-0 directive names.  Proof: induction over the `;`-chunks. -/
theorem directives_subset_of_parse_partial (s : Str) (h : isTidy s = true) :
    parseSnippetSplit s = directiveNames s ∧ DirectivesAreNamesSplit s := by
  have := parse_eq_names_of_tidy s h
  exact ⟨this, fun d hd => this ▸ hd⟩

/-- hence the fix changed nothing on tidy snippets (those of collector_test.go) -/
theorem fix_preserves_tidy (s : Str) (h : isTidy s = true) : parseSnippet s = parseSnippetSplit s :=
  (tokenizer_eq_lexer s).trans (parse_eq_names_of_tidy s h).symm

-- the hypothesis is satisfiable by non-trivial snippets (those of collector_test.go, indentation by tabs,
-- arguments separated by tabs/newlines, variables, a missing final `;`) …
example : isTidy "worker_priority 1; worker_rlimit_nofile 50;\n".toList = true := by decide +kernel
example : isTidy "keepalive_time 100s;\nallow 10.0.0.0/8;\n".toList = true := by decide +kernel
example : isTidy "\tproxy_set_header Host\t$host;\r\n\tadd_header X-A b\n    c;\n  aio on".toList = true := by
  decide +kernel
example : parseSnippetSplit "\tproxy_set_header Host\t$host;\r\n\tadd_header X-A b\n    c;\n  aio on".toList =
    ["proxy_set_header".toList, "add_header".toList, "aio".toList] := by decide +kernel
-- … and excludes exactly the witnesses above
example : isTidy "return\t200\tSECRETBODY;".toList = false := by decide +kernel
example : isTidy "add_header X-Note \"first; SECRETTOKEN second\";".toList = false := by decide +kernel
example : isTidy "map $host $x { a.example.com 1; secret.example.com 2; }".toList = false := by decide +kernel
example : isTidy "# c\nauth_delay 10s;".toList = false := by decide +kernel

end NGF.Telemetry
