/-
C04, text step for the fragment of Model/Pipeline + Model/Render: the TEXT NGF writes for `render (genR s order)`
(Model/Print `printDirs`: the way the Go templates write words, `;`, ` {`, double quotes) is read back by NGINX's tokeniser
(`NGF.Nginx.lex`, the trusted model of ngx_conf_read_token) as EXACTLY the intended directives — for ALL scenarios and port
orders whose guarded string fields satisfy the predicates the REAL validators enforce (`PrintGuards.fieldsOK`, over the
regexes regenerated from /repo), in the backslash-free region (`PrintGuards.noBackslash`).

  * `print_then_lex`, `print_then_parse`         no field value can end a directive, open/close a block, start a comment or
                                                  split into several arguments
  * `print_then_parse_dirs`                       the same for ANY directive tree with lexically safe words (nested to any depth)
  * `fields_safe_dirs`                            dataflow: validators ⇒ every word of the rendered tree is safe
  * `skeleton_of_shape`, `skeleton_independent_of_values`   the token skeleton of the text depends only on the shape
  * `render_ignores_conditions`                   method/header/query strings do not reach http.conf
  * `no_variable_in_server_name`, `dollar_only_from_template_or_path`   `$` reaches an argument only from the template or
                                                  from a match path (→ `location`, which NGINX does not interpolate)
  * witnesses: each guard is needed (`;` in a path, `{` in a hostname, a space in a name, `"` in a redirect hostname), and
    why `noBackslash` is needed for the exact read-back (`backslash_path_read_back_differs`: not an injection — same skeleton)
  * `print_skeleton`, `skeleton_independent_of_values_full`   WITHOUT `noBackslash` (the validators accept backslashes in match
                                                  paths and `\x` pairs in redirect hostnames): the text is tokenised, ends legally,
                                                  and its token skeleton is exactly the intended one — from `fieldsOK` alone

The tie to the code: driver mode `print` (Model/PrintTie) compares `lex (printDirs (render (genR s order)))` with the tokens
of the REAL http.conf, token for token, on fragment scenarios with hostile values in every guarded field, and relates
`fieldsOK`/`matchCondsOK` to what the real validators accept (props/c04.py `_print_stream`).
-/
import NGF.Props.C04
import NGF.Model.Print
import NGF.Model.PrintGuards
import NGF.Proofs.PrintLex
import NGF.Proofs.PrintFields
import NGF.Proofs.PrintDollar
import NGF.Proofs.PrintShape
import NGF.Proofs.PrintFieldsEsc

namespace NGF.Props.C04Print
open NGF.Rx NGF.Nginx NGF.Inj NGF.Print NGF.PrintGuards NGF.PrintShape NGF.Pipeline NGF.Render NGF.Props.C04

/-! ## 1. from the validators to the lexical predicates -/

theorem headChar_of_plain {c : Char} (h : Plain c) : headChar c = true := plain_startOK h

/-- a non-empty string of plain characters is a safe bare word -/
theorem bareOK_of_plain {v : List Char} (hne : v ≠ []) (hp : ∀ c ∈ v, Plain c) : bareOK v = true :=
  bareOK_of_all_head hne fun c hc => headChar_of_plain (hp c hc)

/-- graph.validateHostname ⇒ safe `server_name` word -/
theorem hostname_bareOK {v : List Char} (h : validateHostname v = true) : bareOK v = true :=
  bareOK_of_plain (hostname_plain h).1 (hostname_plain h).2

/-- ValidatePathInMatch, no backslash ⇒ safe `location` word -/
theorem path_bareOK {v : List Char} (h : validatePathInMatch v = true) (hb : v.contains '\\' = false) : bareOK v = true := by
  simp only [validatePathInMatch, Bool.and_eq_true] at h
  obtain ⟨⟨t, rfl⟩, hc⟩ := pathRe_chars h.2
  have hb' : '\\' ∉ '/' :: t := by simpa using hb
  refine bareOK_cons (by decide) (List.all_eq_true.mpr fun c hct => ?_)
  have hcs : c ∈ '/' :: t := List.mem_cons_of_mem _ hct
  obtain ⟨h1, h2, h3, _⟩ := hc c hcs
  have h4 : c ≠ '\\' := fun e => hb' (e ▸ hcs)
  simp [tailChar, h1, h2, h3, h4]

/-- DNS-1123 names (metadata.name / namespace) consist of tail characters -/
theorem k8sName_tail {v : List Char} (h : k8sNameOK v = true) : v.all tailChar = true := by
  have := (charset_regex_plain G.dnsSubdomainRe (by simp) h).2
  exact List.all_eq_true.mpr fun c hc => tailChar_of_headChar (headChar_of_plain (this c hc))

theorem upstream_bareOK {v : List Char} (h : upstreamOK v = true) : bareOK v = true := by
  simp only [upstreamOK, Bool.and_eq_true, Bool.not_eq_true', List.all_eq_true] at h
  refine bareOK_of_all_head (by intro e; subst e; simp at h) fun c hc => ?_
  have hcc := h.2 c hc
  apply headChar_of
  intro d hd e
  subst e
  simp only [List.mem_cons, List.not_mem_nil, or_false] at hd
  rcases hd with rfl | rfl | rfl | rfl | rfl | rfl | rfl | rfl | rfl | rfl | rfl <;> revert hcc <;> decide

theorem scheme_dqOK {v : List Char} (h : validateRedirectScheme v = true) : dqOK v = true := by
  simp only [validateRedirectScheme] at h
  have hmem : String.ofList v ∈ NGF.Generated.Regexes.supportedRedirectSchemes := by simpa using h
  have : String.ofList v = "http" ∨ String.ofList v = "https" := by
    simpa [NGF.Generated.Regexes.supportedRedirectSchemes] using hmem
  rcases this with e | e
  · have : v = "http".toList := by rw [← e]; simp
    rw [this]; decide
  · have : v = "https".toList := by rw [← e]; simp
    rw [this]; decide

theorem plain_of_inert_no_backslash {m : Mode} {v : List Char} (h : Inert m v) (hb : '\\' ∉ v) :
    ∀ c ∈ v, isTerm m c = false := by
  induction h with
  | nil => intro c hc; simp at hc
  | plain ht _ _ ih =>
    intro c hc
    rcases List.mem_cons.mp hc with rfl | hc
    · exact ht
    · exact ih (fun hm => hb (List.mem_cons_of_mem _ hm)) c hc
  | esc _ _ => exact absurd (List.mem_cons_self ..) hb

/-- HTTPRedirectValidator.ValidateHostname, no backslash ⇒ safe content of the quoted `return` body -/
theorem redirectHost_dqOK {v : List Char} (h : validateEscapedStringNoVarExpansion v = true)
    (hb : v.contains '\\' = false) : dqOK v = true := by
  have hb' : '\\' ∉ v := by simpa using hb
  have := plain_of_inert_no_backslash (escapedStringsNoVarRe_novar h).1 hb'
  simp only [dqOK, List.all_eq_true, Bool.not_eq_true', Bool.or_eq_false_iff, beq_eq_false_iff_ne, ne_eq]
  intro c hc
  refine ⟨?_, fun e => hb' (e ▸ hc)⟩
  have := this c hc
  simpa [isTerm] using this

theorem actionOK_safe {a : Action} (h : actionOK a = true) (hb : actionNoBackslash a = true) : actionSafe a = true := by
  cases a with
  | redirect code sch host port =>
    simp only [actionOK, Bool.and_eq_true] at h
    simp only [actionSafe, Bool.and_eq_true]
    refine ⟨?_, ?_⟩
    · cases sch with
      | none => rfl
      | some x => exact scheme_dqOK (by simpa using h.1)
    · cases host with
      | none => rfl
      | some x =>
        have hx : x.contains '\\' = false := by simpa [actionNoBackslash] using hb
        exact redirectHost_dqOK (by simpa using h.2) hx
  | forward bs =>
    simp only [actionOK, List.all_eq_true, Bool.or_eq_true] at h
    simp only [actionSafe, List.all_eq_true, Bool.or_eq_true]
    exact fun b hb' => (h b hb').imp id upstream_bareOK

theorem ruleOK_safe {r : Rule} (h : ruleOK r = true)
    (hb : ((r.ms.all fun m => !m.path.contains '\\') && actionNoBackslash r.action) = true) : ruleSafe r = true := by
  simp only [ruleOK, Bool.and_eq_true, List.all_eq_true] at h
  simp only [Bool.and_eq_true, List.all_eq_true, Bool.not_eq_true'] at hb
  simp only [ruleSafe, Bool.and_eq_true, List.all_eq_true]
  exact ⟨fun m hm => path_bareOK (h.1 m hm) (hb.1 m hm), actionOK_safe h.2 hb.2⟩

theorem routeOK_safe {r : Route} (h : PrintGuards.routeOK r = true)
    (hb : (!r.valid || r.rules.all fun rule => (rule.ms.all fun m => !m.path.contains '\\') && actionNoBackslash rule.action) = true) :
    routeSafe r = true := by
  cases hv : r.valid with
  | false => simp [routeSafe, hv]
  | true =>
    simp only [PrintGuards.routeOK, hv, Bool.not_true, Bool.false_or, Bool.and_eq_true] at h
    simp only [hv, Bool.not_true, Bool.false_or, List.all_eq_true] at hb
    simp only [routeSafe, hv, Bool.not_true, Bool.false_or, Bool.and_eq_true]
    refine ⟨⟨⟨k8sName_tail h.1.1.1, k8sName_tail h.1.1.2⟩, ?_⟩, ?_⟩
    · exact List.all_eq_true.mpr fun x hx => hostname_bareOK (List.all_eq_true.mp h.1.2 x hx)
    · exact List.all_eq_true.mpr fun rule hr => ruleOK_safe (List.all_eq_true.mp h.2 rule hr) (hb rule hr)

/-- **Validators ⇒ lexical safety of every guarded field** (in the backslash-free region). -/
theorem fieldsOK_safe {s : Scenario} (h : fieldsOK s = true) (hb : noBackslash s = true) : fieldsSafe s = true := by
  simp only [fieldsOK, Bool.and_eq_true, List.all_eq_true] at h
  simp only [noBackslash, List.all_eq_true] at hb
  simp only [fieldsSafe, Bool.and_eq_true, List.all_eq_true]
  refine ⟨?_, fun r hr => routeOK_safe (h.2 r hr) (hb r hr)⟩
  intro g hg l hl
  have := h.1 g hg l hl
  simp only [listenerOK, Bool.or_eq_true] at this
  simp only [listenerSafe, Bool.or_eq_true]
  exact this.imp id hostname_bareOK

/-! ## 2. the text is read back as the intended directives -/

/-- **Any directive tree** (simple directives and blocks nested to any depth) whose words are lexically safe, written the
way the templates write it, is tokenised as exactly its intended tokens … -/
theorem print_then_lex_dirs {ds : List Dir} (h : dirsOK ds = true) : lex (printDirs ds) = .ok (dirsToks ds) :=
  lex_printDirs h

/-- … and parsed back as exactly the tree. -/
theorem print_then_parse_dirs {ds : List Dir} (h : dirsOK ds = true) : parse (printDirs ds) = .ok ds :=
  parse_printDirs h

/-- one directive with safe words, in front of any continuation: its own tokens, then the lexer is between statements
(the single-directive form; `lexFrom_printDir` covers blocks as well) -/
theorem print_one_directive (n : List Char) (args : List Print.Arg) (hn : bareOK n = true) (ha : args.all argOK = true)
    (post : List Char) :
    lexFrom LexSt.init (printDir (.mk n args none) ++ post) =
      prepend (Tok.word n false :: args.map argTok ++ [.semi]) (lexFrom LexSt.init post) := by
  have := lexFrom_printDir (.mk n args none) (by simp [dirOK, hn, ha]) post
  simpa [Print.dirToks, init_eq] using this

/-- **Dataflow**: if every guarded field passes its validator (and, for the exact read-back, contains no backslash), every
word of the rendered tree is lexically safe — for all scenarios and all port orders. -/
theorem fields_safe_dirs {s : Scenario} (h : fieldsOK s = true) (hb : noBackslash s = true) (order : List Nat) :
    dirsOK (render (genR s order)) = true :=
  dirsOK_render_genR (fieldsOK_safe h hb) order

/-- **The generated text is tokenised as exactly the intended token stream.** -/
theorem print_then_lex {s : Scenario} (h : fieldsOK s = true) (hb : noBackslash s = true) (order : List Nat) :
    lex (printDirs (render (genR s order))) = .ok (dirsToks (render (genR s order))) :=
  lex_printDirs (fields_safe_dirs h hb order)

/-- **The generated text is read back as exactly the intended directives**: no field value can end a directive, open or
close a block, start a comment, or split into several arguments. -/
theorem print_then_parse {s : Scenario} (h : fieldsOK s = true) (hb : noBackslash s = true) (order : List Nat) :
    parse (printDirs (render (genR s order))) = .ok (render (genR s order)) :=
  parse_printDirs (fields_safe_dirs h hb order)

/-! ## 3. skeletons -/

/-- the token skeleton of the text of a safe tree is the skeleton of its intended tokens, which depends only on the shape -/
theorem skeleton_of_shape {xs ys : List Dir} (hx : dirsOK xs = true) (hy : dirsOK ys = true)
    (hs : sameShapes xs ys = true) :
    (lex (printDirs xs)).map Print.skeleton = (lex (printDirs ys)).map Print.skeleton := by
  rw [lex_printDirs hx, lex_printDirs hy]
  simp only [Except.map]
  rw [sameShapes_skeleton xs ys hs]

/-- **The token skeleton does not depend on the values**, configuration level: two enriched configurations that differ
only in the VALUES of their strings (`sameConf`: same servers, serverIDs, path rules, kinds of locations and actions, match
rules, BackendGroup weights; any server names, paths, redirect parts, sources, upstream names) whose strings are lexically
safe are printed to texts with the same token skeleton (which positions are words — quoted or bare —, `;`, `{`, `}`). -/
theorem skeleton_independent_of_values_conf {c c' : ConfR} (hs : sameConf c c' = true) (h : ConfOK c) (h' : ConfOK c') :
    (lex (printDirs (render c))).map Print.skeleton = (lex (printDirs (render c'))).map Print.skeleton :=
  skeleton_of_shape (dirsOK_render h) (dirsOK_render h') (sameShapes_render hs)

/-- **The token skeleton does not depend on the values**: for two scenarios (and port orders) whose guarded fields pass their
validators and whose configurations have the same shape — they differ only in the values of the guarded string fields —
the generated texts have the same token skeleton: the property's statement, for the fragment. -/
theorem skeleton_independent_of_values {s s' : Scenario} (h : fieldsOK s = true) (hb : noBackslash s = true)
    (h' : fieldsOK s' = true) (hb' : noBackslash s' = true) (order order' : List Nat)
    (hs : sameConf (genR s order) (genR s' order') = true) :
    (lex (printDirs (render (genR s order)))).map Print.skeleton =
      (lex (printDirs (render (genR s' order')))).map Print.skeleton :=
  skeleton_independent_of_values_conf hs (confOK_genR (fieldsOK_safe h hb) order) (confOK_genR (fieldsOK_safe h' hb') order')

/-- … and that skeleton is the one of the intended token stream -/
theorem skeleton_is_intended {s : Scenario} (h : fieldsOK s = true) (hb : noBackslash s = true) (order : List Nat) :
    (lex (printDirs (render (genR s order)))).map Print.skeleton = .ok (Print.skeleton (dirsToks (render (genR s order)))) := by
  rw [print_then_lex h hb order]; rfl

/-! ## 4. match conditions and `$` -/

/-- **Method, header names/values and query parameters do not reach http.conf**: the rendered tree is the same when the
conditions of all match rules are forgotten; they are marshalled into matches.json only (`Render.matchesOf`). -/
theorem render_ignores_conditions (c : ConfR) : render (eraseConds c) = render c := render_eraseConds c

theorem upstream_noDollar {v : List Char} (h : upstreamOK v = true) : '$' ∉ v := by
  simp only [upstreamOK, Bool.and_eq_true, List.all_eq_true] at h
  intro hm
  have := h.2 _ hm
  revert this; decide

theorem scheme_noDollar {v : List Char} (h : validateRedirectScheme v = true) : '$' ∉ v := by
  have := scheme_dqOK h
  simp only [validateRedirectScheme] at h
  have hmem : String.ofList v ∈ NGF.Generated.Regexes.supportedRedirectSchemes := by simpa using h
  have : String.ofList v = "http" ∨ String.ofList v = "https" := by
    simpa [NGF.Generated.Regexes.supportedRedirectSchemes] using hmem
  rcases this with e | e
  · have : v = "http".toList := by rw [← e]; simp
    rw [this]; decide
  · have : v = "https".toList := by rw [← e]; simp
    rw [this]; decide

theorem actionOK_noDollar {a : Action} (h : actionOK a = true) : actionNoDollar a = true := by
  cases a with
  | redirect code sch host port =>
    simp only [actionOK, Bool.and_eq_true] at h
    simp only [actionNoDollar, Bool.and_eq_true]
    refine ⟨?_, ?_⟩
    · cases sch with
      | none => rfl
      | some x => simpa using scheme_noDollar (v := x) (by simpa using h.1)
    · cases host with
      | none => rfl
      | some x =>
        have hx : validateEscapedStringNoVarExpansion x = true := by simpa using h.2
        simpa using (escapedStringsNoVarRe_novar (s := x) hx).2
  | forward bs =>
    simp only [actionOK, List.all_eq_true, Bool.or_eq_true] at h
    simp only [actionNoDollar, List.all_eq_true, Bool.or_eq_true]
    exact fun b hb => (h b hb).imp id fun hu => by simpa using upstream_noDollar hu

/-- the validators exclude `$` from every guarded field except match paths (ValidatePathInMatch accepts `$`) -/
theorem fieldsOK_noDollar {s : Scenario} (h : fieldsOK s = true) : noDollarOutsidePaths s = true := by
  simp only [fieldsOK, Bool.and_eq_true, List.all_eq_true] at h
  simp only [noDollarOutsidePaths, Bool.and_eq_true, List.all_eq_true]
  refine ⟨?_, ?_⟩
  · intro g hg l hl
    have := h.1 g hg l hl
    simp only [listenerOK, Bool.or_eq_true, List.isEmpty_iff] at this
    rcases this with e | e
    · simp [e]
    · simpa using no_dollar_of_plain (hostname_plain e).2
  · intro r hr
    have hr' := h.2 r hr
    cases hv : r.valid with
    | false => simp
    | true =>
      simp only [PrintGuards.routeOK, hv, Bool.not_true, Bool.false_or, Bool.and_eq_true, List.all_eq_true] at hr'
      simp only [Bool.not_true, Bool.false_or, Bool.and_eq_true, List.all_eq_true]
      refine ⟨⟨⟨?_, ?_⟩, ?_⟩, ?_⟩
      · simpa using no_dollar_of_plain (charset_regex_plain G.dnsSubdomainRe (by simp) hr'.1.1.1).2
      · simpa using no_dollar_of_plain (charset_regex_plain G.dnsSubdomainRe (by simp) hr'.1.1.2).2
      · intro x hx; simpa using no_dollar_of_plain (hostname_plain (hr'.1.2 x hx)).2
      · intro rule hrule
        have := hr'.2 rule hrule
        simp only [ruleOK, Bool.and_eq_true] at this
        exact actionOK_noDollar this.2

/-- **`$` only where the template put it.** In the rendered tree of a scenario whose fields pass their validators, every
argument of every directive other than `location` contains `$` only as the start of a variable the TEMPLATE writes
(`$scheme`, `$host`, `$request_uri`, `$group_…`, the fixed proxy headers, `$match_key`, `$request_id`); `server_name`
arguments contain no `$` at all. (A match path may contain `$`: it reaches `location` arguments only, which NGINX does
not interpolate.) -/
theorem dollar_only_from_template_or_path {s : Scenario} (h : fieldsOK s = true) (order : List Nat) :
    dollarsOK (render (genR s order)) = true :=
  dollarsOK_render_genR (fieldsOK_noDollar h) order

/-- the same, directive by directive -/
theorem no_variable_in_location_or_server_name {s : Scenario} (h : fieldsOK s = true) (order : List Nat) :
    ∀ d ∈ flatDirs (render (genR s order)),
      (d.name = "server_name".toList → ∀ a ∈ d.args, '$' ∉ a.1) ∧
      (d.name ≠ "location".toList → ∀ a ∈ d.args, tmplDollar a.1 = true) := by
  intro d hd
  have hok := dollarsOK_flat _ (dollar_only_from_template_or_path h order) d hd
  refine ⟨?_, ?_⟩
  · intro hn a ha
    rw [hn] at hok
    have : (("server_name".toList == "location".toList) = false) := by decide
    simp only [argsDollarOK, this, Bool.false_eq_true, if_false, beq_self_eq_true, if_true, List.all_eq_true,
      Bool.not_eq_true', List.contains_eq_mem, decide_eq_false_iff_not] at hok
    exact hok a ha
  · intro hn a ha
    have h1 : (d.name == "location".toList) = false := by simpa using hn
    simp only [argsDollarOK, h1, Bool.false_eq_true, if_false] at hok
    split at hok
    · have := List.all_eq_true.mp hok a ha
      exact tmplDollar_of_noDollar (by simpa using this)
    · exact List.all_eq_true.mp hok a ha

/-! ## 5. witnesses: each guard is needed -/

/-- a `;` in a match path ends the `location` statement early (ValidatePathInMatch rejects it) -/
theorem witness_path_semicolon :
    validatePathInMatch "/x;y".toList = false ∧
    (lex (printDirs [blk "location" [wl "/x;y".toList] [dir "return" [w "200"]]])).toOption =
      some [.word "location".toList false, .word "/x".toList false, .semi, .word "y".toList false, .open,
            .word "return".toList false, .word "200".toList false, .semi, .close] := by decide

/-- a `{` in a hostname opens a block inside `server_name` (validateHostname rejects it) -/
theorem witness_hostname_brace :
    validateHostname "a{b.example.com".toList = false ∧
    (lex (printDirs [dir "server_name" [wl "a{b.example.com".toList]])).toOption =
      some [.word "server_name".toList false, .word "a".toList false, .open, .word "b.example.com".toList false, .semi] := by
  decide

/-- a space in a route name splits the `$group_…` variable of `split_clients` into two arguments (DNS-1123 excludes it) -/
theorem witness_name_space :
    k8sNameOK "my route".toList = false ∧
    (lex (printDirs [blk "split_clients" [w "$request_id", wl ('$' :: NGF.Mangle.groupVar "default".toList "my route".toList 0)] []])).toOption =
      some [.word "split_clients".toList false, .word "$request_id".toList false, .word "$group_default__my".toList false,
            .word "route_rule0".toList false, .open, .close] := by
  decide

/-- a `"` in a redirect hostname ends the quoted `return` body early (the escaped-string validator rejects it) -/
theorem witness_redirect_quote :
    validateEscapedStringNoVarExpansion "a\"b".toList = false ∧
    (lex (printDirs [dir "return" [w "302", q "https://a\"b$request_uri".toList]])).toOption = none := by decide

/-- why `noBackslash`: ValidatePathInMatch accepts `/a\\b`; the printed word is read back with ONE backslash (the copy loop of
ngx_conf_read_token) — a different word, but the same token skeleton: no injection (Props/C04 `path_hole_safe`) -/
theorem backslash_path_read_back_differs :
    validatePathInMatch "/a\\\\b".toList = true ∧
    (lex (printDirs [blk "location" [wl "/a\\\\b".toList] []])).toOption =
      some [.word "location".toList false, .word "/a\\b".toList false, .open, .close] ∧
    Print.skeleton [.word "location".toList false, .word "/a\\b".toList false, .open, .close] =
      Print.skeleton (dirsToks [blk "location" [wl "/a\\\\b".toList] []]) := by decide

/-! ## 6. non-vacuity -/

/-- a scenario inside the hypotheses with a hostile-looking but accepted path and redirect hostname -/
def exScenario : Scenario :=
  { cls := "nginx".toList, ctlr := "c".toList, classes := [⟨"nginx".toList, "c".toList⟩],
    gateways := [{ ns := "default".toList, name := "gw".toList, cls := "nginx".toList, age := 1,
                   listeners := [{ name := "l".toList, port := 80, host := "*.example.com".toList, fromAll := true }] }],
    routes := [{ ns := "default".toList, name := "hr-1".toList, age := 2,
                 parents := [{ ns := "default".toList, name := "gw".toList, sectionName := none }],
                 hostnames := ["cafe.example.com".toList],
                 rules := [{ ms := [{ exact := false, path := "/tea\"x#y'$v".toList, method := [], headers := [], query := [] }],
                             action := .forward [⟨"default_svc0_80".toList, 1, true⟩, ⟨"default_svc1_80".toList, 3, true⟩] },
                           { ms := [{ exact := true, path := "/r".toList, method := "GET".toList, headers := [], query := [] }],
                             action := .redirect 302 (some "https".toList) (some "a;b } c".toList) none }],
                 valid := true }] }

example : fieldsOK exScenario = true ∧ noBackslash exScenario = true := by decide
#guard dirsOK (render (genR exScenario []))
#guard (parse (printDirs (render (genR exScenario [])))).toOption.map (·.length) == some (render (genR exScenario [])).length
#guard ((lex (printDirs (render (genR exScenario [])))).toOption.map (·.length)).getD 0 > 150
#guard dollarsOK (render (genR exScenario []))
/-- the same scenario with other values in every guarded field: same shape, same skeleton -/
def exScenario' : Scenario :=
  { exScenario with
    gateways := [{ ns := "default".toList, name := "gw".toList, cls := "nginx".toList, age := 1,
                   listeners := [{ name := "l".toList, port := 80, host := "*.example.org".toList, fromAll := true }] }],
    routes := [{ ns := "default".toList, name := "other".toList, age := 2,
                 parents := [{ ns := "default".toList, name := "gw".toList, sectionName := none }],
                 hostnames := ["shop.example.org".toList],
                 rules := [{ ms := [{ exact := false, path := "/zzz".toList, method := [], headers := [], query := [] }],
                             action := .forward [⟨"default_a_80".toList, 1, true⟩, ⟨"default_b_80".toList, 3, true⟩] },
                           { ms := [{ exact := true, path := "/q".toList, method := "GET".toList, headers := [], query := [] }],
                             action := .redirect 302 (some "http".toList) (some "x.example.org".toList) none }],
                 valid := true }] }

example : fieldsOK exScenario' = true ∧ noBackslash exScenario' = true := by decide
#guard sameConf (genR exScenario []) (genR exScenario' [])
#guard (lex (printDirs (render (genR exScenario [])))).toOption.map Print.skeleton ==
  (lex (printDirs (render (genR exScenario' [])))).toOption.map Print.skeleton
#guard (lex (printDirs (render (genR exScenario [])))).toOption != (lex (printDirs (render (genR exScenario' [])))).toOption

/-! ## 7. the region with backslashes: the structure of the text without `noBackslash` -/

/-- ValidatePathInMatch ⇒ a `location` word that may contain backslashes -/
theorem path_looseOK {v : List Char} (h : validatePathInMatch v = true) : looseOK v = true := by
  simp only [validatePathInMatch, Bool.and_eq_true] at h
  obtain ⟨t, rfl, ht⟩ := pathRe_nonterm h.2
  simp only [looseOK, Bool.and_eq_true, List.all_eq_true]
  refine ⟨by decide, fun c hc => ?_⟩
  have := ht c hc
  simpa [looseChar, isTerm] using this

theorem actionOK_weak {a : Action} (h : actionOK a = true) : ActionP wP a := by
  cases a with
  | redirect code sch host port =>
    simp only [actionOK, Bool.and_eq_true] at h
    refine ⟨?_, ?_⟩
    · intro x hx; subst hx
      exact escOK_of_dqOK (scheme_dqOK (by simpa using h.1))
    · intro x hx; subst hx
      have hx : validateEscapedStringNoVarExpansion x = true := by simpa using h.2
      exact escOK_of_inert (escapedStringsNoVarRe_novar hx).1
  | forward bs =>
    simp only [actionOK, List.all_eq_true, Bool.or_eq_true, Bool.not_eq_true'] at h
    intro b hb hv
    rcases h b hb with e | e
    · rw [hv] at e; cases e
    · exact upstream_bareOK e

/-- the validators alone give the weak word predicates of every guarded field -/
theorem fieldsOK_weak {s : Scenario} (h : fieldsOK s = true) : FieldsP wP s := by
  simp only [fieldsOK, Bool.and_eq_true, List.all_eq_true] at h
  refine ⟨?_, ?_⟩
  · intro g hg l hl
    have := h.1 g hg l hl
    simp only [listenerOK, Bool.or_eq_true, List.isEmpty_iff] at this
    exact this.imp id hostname_bareOK
  · intro r hr hv
    have hr' := h.2 r hr
    simp only [PrintGuards.routeOK, hv, Bool.not_true, Bool.false_or, Bool.and_eq_true, List.all_eq_true] at hr'
    refine ⟨k8sName_tail hr'.1.1.1, k8sName_tail hr'.1.1.2, fun x hx => hostname_bareOK (hr'.1.2 x hx), ?_⟩
    intro rule hrule
    have := hr'.2 rule hrule
    simp only [ruleOK, Bool.and_eq_true, List.all_eq_true] at this
    exact ⟨fun m hm => path_looseOK (this.1 m hm), actionOK_weak this.2⟩

/-- dataflow for the weak predicates, from the validators alone -/
theorem fields_weak_dirs {s : Scenario} (h : fieldsOK s = true) (order : List Nat) :
    dirsOKw (render (genR s order)) = true :=
  dirsOKw_render (confW_genR (fieldsOK_weak h) order)

/-- **The structure of the generated text, from the validators alone** (backslashes in match paths and redirect hostnames
included): the text is tokenised, the end of file is legal, and the token skeleton — which positions are words (quoted or
bare), `;`, `{`, `}` — is exactly the one of the intended directives. The words themselves are the unescaped ones. -/
theorem print_skeleton {s : Scenario} (h : fieldsOK s = true) (order : List Nat) :
    ∃ ts, lex (printDirs (render (genR s order))) = .ok ts ∧
      Print.skeleton ts = Print.skeleton (dirsToks (render (genR s order))) :=
  lex_printDirs_w (fields_weak_dirs h order)

/-- the same for any tree with weakly safe words -/
theorem print_skeleton_dirs {ds : List Dir} (h : dirsOKw ds = true) :
    ∃ ts, lex (printDirs ds) = .ok ts ∧ Print.skeleton ts = Print.skeleton (dirsToks ds) := lex_printDirs_w h

/-- **The token skeleton does not depend on the values — from the validators alone.** -/
theorem skeleton_independent_of_values_full {s s' : Scenario} (h : fieldsOK s = true) (h' : fieldsOK s' = true)
    (order order' : List Nat) (hs : sameConf (genR s order) (genR s' order') = true) :
    (lex (printDirs (render (genR s order)))).map Print.skeleton =
      (lex (printDirs (render (genR s' order')))).map Print.skeleton := by
  obtain ⟨ts, e, hk⟩ := print_skeleton h order
  obtain ⟨ts', e', hk'⟩ := print_skeleton h' order'
  rw [e, e']
  simp only [Except.map]
  rw [hk, hk', sameShapes_skeleton _ _ (sameShapes_render hs)]

/-- a scenario with backslashes inside the hypotheses -/
def exBackslash : Scenario :=
  { exScenario with
    routes := [{ ns := "default".toList, name := "hr-1".toList, age := 2,
                 parents := [{ ns := "default".toList, name := "gw".toList, sectionName := none }],
                 hostnames := ["cafe.example.com".toList],
                 rules := [{ ms := [{ exact := false, path := "/tea\\".toList, method := [], headers := [], query := [] }],
                             action := .forward [⟨"default_svc0_80".toList, 1, true⟩, ⟨"default_svc1_80".toList, 3, true⟩] },
                           { ms := [{ exact := true, path := "/r\\\\x".toList, method := "GET".toList, headers := [], query := [] }],
                             action := .redirect 302 (some "https".toList) (some "a\\\"b".toList) none }],
                 valid := true }] }

example : fieldsOK exBackslash = true ∧ noBackslash exBackslash = false := by decide
#guard dirsOKw (render (genR exBackslash [])) && !dirsOK (render (genR exBackslash []))
#guard sameConf (genR exScenario []) (genR exBackslash [])
#guard (lex (printDirs (render (genR exBackslash [])))).toOption.map Print.skeleton ==
  some (Print.skeleton (dirsToks (render (genR exBackslash []))))
#guard (lex (printDirs (render (genR exBackslash [])))).toOption != some (dirsToks (render (genR exBackslash [])))

end NGF.Props.C04Print
