/-
C03, stage 2 — what the generator RENDERS for the pipeline fragment is well formed.

Subject: `NGF.Render.render (genR s order)` / `matchKeysOf (genR s order)` of Model/Render.lean — the definitions the driver
executes (mode `render`) and RenderTie compares, directive by directive, with the real http.conf / matches.json of every
in-fragment scenario on every run. `s` ranges over ALL scenarios of the fragment (`Pipeline.inFragment`), `order` over all
iteration orders of the Go map of ports. `namesSafe s` is the decidable hypothesis that excludes the two known findings of
C03 that live inside the fragment (route name with a dot; `a--b/c` vs `a/b--c`); the witnesses at the end show that the
conclusions fail without it. Helper lemmas: Proofs/Render*.lean.
-/
import NGF.Proofs.RenderWF
import NGF.Generated.RenderFacts
import NGF.Proofs.RenderTls
import NGF.Proofs.RenderTlsWF
import NGF.Proofs.RenderTlsCross
import NGF.Props.C16Pipeline

namespace NGF.Props.C03Render
open NGF.Pipeline NGF.Render NGF.Nginx

/-! ## 0. The enriched configuration is C02's configuration with more information -/

/-- projection: forgetting positions, sources and backends of `genR s order` gives exactly `Pipeline.gen s` -/
theorem genR_projects_to_gen (s : Scenario) (order : List Nat) : (genR s order).forget = gen s :=
  forget_genR s order

/-- no Gateway of our class: nothing but the fixed part of the template is rendered -/
theorem render_no_gateway (s : Scenario) (order : List Nat) (h : winner s = none) :
    render (genR s order) = preload :: tailServers := by
  simp [genR, h, render, serverDirs, splitDirs]

/-! ## 1. Server names -/

/-- per listen port no two servers share a server_name — for EVERY scenario (no hypothesis) -/
theorem gen_server_names_distinct (s : Scenario) : ((gen s).servers.map fun sv => (sv.port, sv.name)).Nodup := by
  unfold gen
  cases hw : winner s with
  | none => simp
  | some g =>
    simp only [List.map_map, Function.comp_def, serverOf]
    have : (hostsOf g s.routes).Nodup := by unfold hostsOf; exact nodup_eraseDups _
    simpa using this

/-- the same on the rendered directives: no (listen address, server_name) pair occurs twice among ALL server blocks
(default servers and the two unix-socket servers included), and no address has two `default_server`s -/
theorem render_server_names_distinct (s : Scenario) (order : List Nat) (hf : inFragment s = true) (hs : namesSafe s = true)
    (hp : portsOK s = true) :
    ((blocksNamed "server" (render (genR s order))).flatMap srvPairs).Nodup ∧
    ((blocksNamed "server" (render (genR s order))).flatMap defaultListens).Nodup := by
  have h := goodConf_genR order hf hs hp
  rw [servers_of_render]
  exact ⟨pairs_nodup h, defaults_nodup h⟩

/-! ## 2. Locations -/

/-- per server no two locations share (modifier, path) — external locations of all path rules, the internal locations
`/_ngf-internal-rule<i>-route<j>` of all match rules and the default root location -/
theorem gen_locations_distinct (s : Scenario) (order : List Nat) (hf : inFragment s = true) :
    ∀ sv ∈ (genR s order).servers, ((blocksNamed "location" (body (renderServer sv))).map locKeyL).Nodup := by
  intro sv hsv
  rw [locs_of_renderServer]
  exact serverKeys_nodup (goodServers_genR order hf sv hsv)

/-- … and hence in C02's abstract configuration: the (exact?, path) keys of a server's locations are distinct -/
theorem gen_external_locations_distinct (s : Scenario) (hf : inFragment s = true) :
    ∀ sv ∈ (gen s).servers, (sv.locs.map fun l => (l.exact, l.path)).Nodup := by
  rw [← forget_genR s []]
  intro sv hsv
  obtain ⟨rs, hrs, rfl⟩ := List.mem_map.mp hsv
  have hg := goodServers_genR [] hf rs hrs
  simp only [RServer.forget, List.map_append, List.map_flatMap, List.map_map, Function.comp_def]
  rw [List.nodup_append]
  refine ⟨?_, ?_, ?_⟩
  · have := hg.ext_nodup
    simpa using this
  · by_cases hr : rs.root404 = true <;> simp [hr]
  · intro x hx y hy e
    by_cases hr : rs.root404 = true
    · simp only [hr, ↓reduceIte, List.map_cons, List.map_nil, List.mem_singleton] at hy
      subst hy; subst e
      obtain ⟨r, hr', hx⟩ := List.mem_flatMap.mp hx
      simp only [List.map_id'] at hx
      exact hg.root_free hr r hr' (by simpa using hx)
    · simp [hr] at hy

/-! ## 3. References -/

/-- every reference made by the rendered configuration is defined, exactly once:
(1) a variable in a `proxy_pass` argument, as NGINX scans it, is built in or defined by exactly one `split_clients` block
    (and there is no malformed reference);
(2) the value of every `set $match_key` is the key of exactly one entry of the emitted matches map, and
(3) every redirect path of that entry is an `internal` location of the same server. -/
theorem render_refs_defined (s : Scenario) (order : List Nat) (hf : inFragment s = true) (hs : namesSafe s = true)
    (hp : portsOK s = true) :
    let c := genR s order
    let splitVars := (blocksNamed "split_clients" (render c)).map splitVar
    ∀ sv ∈ c.servers, ∀ l ∈ blocksNamed "location" (body (renderServer sv)),
      (∀ pp ∈ named "proxy_pass" (body l), ∀ ref ∈ NGF.WF.scriptVars (arg0 pp),
        ∃ n, ref = .name n ∧ (n.toList ∈ builtinL ∨ splitVars.count n.toList = 1)) ∧
      (∀ k ∈ (body l).filterMap keyOfDir,
        ((matchKeysOf c).map (·.1)).count k = 1 ∧
        ∃ paths, (k, paths) ∈ matchKeysOf c ∧
          ∀ p ∈ paths, ("P".toList, p) ∈ ((blocksNamed "location" (body (renderServer sv))).filter isInternal).map locKeyL) := by
  intro c splitVars sv hsv l hl
  have h : GoodConf c := goodConf_genR order hf hs hp
  have hsv' : splitVars = (splitDirs c).map splitVar := by simp only [splitVars, splits_of_render]
  rw [locs_of_renderServer] at hl ⊢
  refine ⟨?_, ?_⟩
  · intro pp hpp ref href
    have hnil := passIssues_server h hsv hl
    rw [List.flatMap_eq_nil_iff] at hnil
    have hpi := hnil pp hpp
    unfold passIssues at hpi
    rw [List.flatMap_eq_nil_iff] at hpi
    have hr := hpi ref href
    cases ref with
    | err why => simp [refIssue] at hr
    | name n =>
      refine ⟨n, rfl, ?_⟩
      by_cases hc : (((splitDirs c).map splitVar).contains n.toList || builtinL.contains n.toList) = true
      · rw [Bool.or_eq_true] at hc
        rcases hc with hc | hc
        · right
          rw [hsv', (splitVars_nodup h).count]
          simp [List.contains_iff_mem.mp hc]
        · exact Or.inl (List.contains_iff_mem.mp hc)
      · exfalso
        have : refIssue ((splitDirs c).map splitVar) (arg0 pp) (.name n) ≠ [] := by
          simp only [refIssue, hc, Bool.false_eq_true, ↓reduceIte]
          simp
        exact this hr
  · intro k hk
    have hku : k ∈ keysUsed (serverLocs sv) := List.mem_flatMap.mpr ⟨l, hl, hk⟩
    obtain ⟨r, hr, ms, hact, hext, rfl⟩ := mem_keysUsed hku
    have hmem := mem_matchKeysOf hsv hr hact hext
    refine ⟨?_, _, hmem, ?_⟩
    · rw [(matchKeys_nodup h).count]
      have : matchKey sv.sid r.idx ∈ (matchKeysOf c).map (·.1) := List.mem_map.mpr ⟨_, hmem, rfl⟩
      simp [this]
    · intro p hp
      obtain ⟨jm, hjm, rfl⟩ := List.mem_map.mp hp
      exact internal_mem hr hact hjm

/-! ## 4. Percentages -/

/-- every `split_clients` block of the rendered configuration: each entry is `<percentage> <one value>;`, the percentage
is printed as `d+.dd%` of a positive number of hundredths (or is the literal `100%` of the all-weights-zero case), NGINX
(`ngx_atofp(…, 2)`) reads it as that positive number, and the shares of a block sum to exactly 100.00 — for EVERY scenario.
(On top of C15's `intCents_main` and `atofp2_chars`.) -/
theorem render_percentages_valid (s : Scenario) (order : List Nat) :
    ∀ sc ∈ blocksNamed "split_clients" (render (genR s order)),
      (∀ e ∈ body sc,
        (e.name = "100%".toList ∨ ∃ c, 0 < c ∧ e.name = pctName c) ∧
        (∃ c, pctOf e.name = some c ∧ 0 < c) ∧ e.args.length = 1 ∧ e.block = none) ∧
      ((body sc).map fun e => (pctOf e.name).getD 0).sum = 10000 := by
  intro sc hsc
  rw [splits_of_render] at hsc
  obtain ⟨g, _, rfl⟩ := List.mem_map.mp hsc
  obtain ⟨hok, hsum⟩ := splitEntries_valid g.2
  simp only [splitBlock, body_blk]
  exact ⟨fun e he => ⟨splitEntries_shape g.2 e he, hok e he⟩, hsum⟩

/-! ## 5. Well-formedness -/

/-- MAIN THEOREM: on what the generator renders for a scenario of the fragment with safe names and TCP listener ports,
the structural judge `wfDirs` (the clauses of Spec/WellFormedConf about duplicate (listen, server_name) pairs,
default_server, duplicate locations, `$match_key` keys and internal redirect targets, split_clients variable names,
duplicate definitions and percentages, the variables of `proxy_pass`, and the address and parameters of every `listen`)
finds NO issue. The same `wfDirs` is run on every real http.conf next to the big judge (evidence: `wfDirs_vs_big_judge_*`). -/
theorem render_wellformed_fragment (s : Scenario) (order : List Nat) (hf : inFragment s = true) (hs : namesSafe s = true)
    (hp : portsOK s = true) : wfDirs (render (genR s order)) (matchKeysOf (genR s order)) = [] :=
  wf_of_good (goodConf_genR order hf hs hp)

/-- every `listen` of every rendered server block has an address NGINX accepts (`port` / `[::]:port` with a port in
1..65535, or `unix:path`) and known parameters -/
theorem render_listen_valid (s : Scenario) (order : List Nat) (hf : inFragment s = true) (hs : namesSafe s = true)
    (hp : portsOK s = true) :
    ∀ sv ∈ blocksNamed "server" (render (genR s order)), ∀ l ∈ named "listen" (body sv),
      NGF.WF.listenWhy (l.args.map (·.1)) = none := by
  intro sv hsv l hl
  have h := listenIssues_servers (goodConf_genR order hf hs hp)
  rw [← servers_of_render, List.flatMap_eq_nil_iff] at h
  have := List.flatMap_eq_nil_iff.mp (h sv hsv) l hl
  unfold listenIssue at this
  cases hw : NGF.WF.listenWhy (l.args.map (·.1)) with
  | none => rfl
  | some why => rw [hw] at this; simp at this

/-! ## 6. Non-vacuity, and the hypotheses are needed -/

section examples

def S (x : String) : Str := x.toList

/-- two listeners on two ports, a route with a weighted rule carrying a conditional match, and a redirect rule -/
def sOK : Scenario :=
  ⟨S "nginx", S "ctl", [⟨S "nginx", S "ctl"⟩],
    [⟨S "default", S "gw", S "nginx", 1, [⟨S "l0", 80, [], true⟩, ⟨S "l1", 8080, S "cafe.example.com", true⟩]⟩],
    [⟨S "team-a", S "hr0", 2, [⟨S "default", S "gw", none⟩], [S "cafe.example.com"],
      [⟨[⟨false, S "/coffee", [], [], []⟩, ⟨false, S "/coffee", S "GET", [], []⟩],
          .forward [⟨S "team-a_svc0_80", 1, true⟩, ⟨S "team-a_svc1_80", 2, true⟩]⟩,
       ⟨[⟨true, S "/tea", [], [], []⟩], .redirect 301 (some (S "https")) none none⟩], true⟩]⟩

/-- the same with a route name that contains a dot (C03:variable-name-with-dot) -/
def sDot : Scenario :=
  { sOK with routes := sOK.routes.map fun r => { r with name := S "my.route" } }

/-- two routes `a--b/c` and `a/b--c` with weighted backends (C03:mangle-collision-double-hyphen) -/
def sCollide : Scenario :=
  { sOK with routes := [
      ⟨S "a--b", S "c", 2, [⟨S "default", S "gw", none⟩], [S "cafe.example.com"],
        [⟨[⟨false, S "/one", [], [], []⟩], .forward [⟨S "x_svc0_80", 1, true⟩, ⟨S "x_svc1_80", 1, true⟩]⟩], true⟩,
      ⟨S "a", S "b--c", 3, [⟨S "default", S "gw", none⟩], [S "cafe.example.com"],
        [⟨[⟨false, S "/two", [], [], []⟩], .forward [⟨S "y_svc0_80", 1, true⟩, ⟨S "y_svc1_80", 3, true⟩]⟩], true⟩] }

-- the hypotheses of the theorems are satisfiable by a non-trivial scenario …
#guard inFragment sOK && namesSafe sOK && portsOK sOK
#guard (render (genR sOK [8080, 80])).length == 8 && (matchKeysOf (genR sOK [8080, 80])).length == 2
#guard (wfDirs (render (genR sOK [8080, 80])) (matchKeysOf (genR sOK [8080, 80]))).isEmpty
-- … and each known finding is inside the fragment, violates `namesSafe`, and makes the judge fail
#guard inFragment sDot && !namesSafe sDot
#guard (wfDirs (render (genR sDot [])) (matchKeysOf (genR sDot []))).map (·.clause) ==
  ["variable-name-not-lexable", "unknown-variable", "unknown-variable", "unknown-variable", "unknown-variable"]
#guard inFragment sCollide && !namesSafe sCollide
#guard (wfDirs (render (genR sCollide [])) (matchKeysOf (genR sCollide []))).map (·.clause) == ["duplicate-variable-definition"]

/-- a listener port outside 1..65535 (not admitted by the CRD) -/
def sPort : Scenario :=
  { sOK with gateways := sOK.gateways.map fun g => { g with listeners := g.listeners.map fun l => { l with port := l.port + 70000 } } }
#guard inFragment sPort && namesSafe sPort && !portsOK sPort
#guard ((wfDirs (render (genR sPort [])) (matchKeysOf (genR sPort []))).map (·.clause)).eraseDups == ["bad-listen"]

end examples

def twoBackends : List Backend := [⟨"ns_svc0_80".toList, 1, true⟩, ⟨"ns_svc1_80".toList, 1, true⟩]

/-- WITNESS (C03:variable-name-with-dot): for a route named `my.route` the rendered `split_clients` block and the
`proxy_pass` that refers to it are NOT well formed — the variable name is not lexable and NGINX reads the reference as the
undefined `$group_ns__my`. `namesSafe` (no dot in route names) cannot be dropped from `render_wellformed_fragment`. -/
theorem render_wellformed_false_dot :
    let src : Src := ⟨"ns".toList, "my.route".toList, 0⟩
    wfDirs [blk "server" [] [blk "location" [wl "/".toList] (actDirs (.proxy src twoBackends))], splitBlock (src, twoBackends)] [] =
      [⟨"variable-name-not-lexable", "split_clients $group_ns__my.route_rule0"⟩,
       ⟨"unknown-variable", "proxy_pass http://$group_ns__my.route_rule0$request_uri: unknown \"group_ns__my\" variable"⟩] ∧
    ("my.route".toList.all nameChar) = false := by
  decide +kernel

/-- WITNESS (C03:mangle-collision-double-hyphen): the BackendGroups of `a--b/c` and `a/b--c` render two `split_clients`
blocks that define the SAME variable. `namesSafe` (no `--` in the namespace) cannot be dropped. -/
theorem render_wellformed_false_collision :
    wfDirs [splitBlock (⟨"a--b".toList, "c".toList, 0⟩, twoBackends), splitBlock (⟨"a".toList, "b--c".toList, 0⟩, twoBackends)] [] =
      [⟨"duplicate-variable-definition", "http $group_a__b__c_rule0"⟩] ∧
    noDoubleHyphen "a--b".toList = false := by
  decide +kernel

/-! ## 7. Facts regenerated from the source (translator/gen_render.go): the literals the model uses, and the statements of the
Go functions and the template lines that `render` / `genR` mirror. A change of any of them breaks these obligations even if no
generated scenario exercises it; the behavioural tie is RenderTie on every run. -/

open NGF.Generated in
/-- the model's literals are the ones in the source -/
theorem render_uses_source_literals :
    (baseHeaders.map fun h => h.1 ++ ": " ++ h.2) =
      RenderFacts.baseProxySetHeaders ++ RenderFacts.upgradeHeader ++ RenderFacts.connectionHeader ∧
    Pipeline.invalidBackendRef = RenderFacts.invalidBackendRef.toList ∧
    (tailServers.map fun d => ((body d).map arg0).headD []) =
      [RenderFacts.nginx503Server.toList, RenderFacts.nginx500Server.toList] ∧
    -- `sort.Slice` of the path rules compares PathType as a string: "exact" sorts before "prefix" (`ruleLt`)
    decide (RenderFacts.pathTypeExact < RenderFacts.pathTypePrefix) = true := by
  decide

open NGF.Generated in
/-- the functions mirrored by `genR` / `render` read as they did when the model was written -/
theorem render_source_pins :
    RenderFacts.matchKeyExpr =
      ["serverID + \"_\" + strconv.Itoa(pathRuleIdx)"] ∧
    RenderFacts.serverIDExprs =
      ["fmt.Sprintf(\"%d\", idx)",
       "fmt.Sprintf(\"SSL_%d\", idx)"] ∧
    RenderFacts.createProxyPassBody =
      ["var requestURI string",
       "if !grpc { if filter == nil || filter.Path == nil { requestURI = \"$request_uri\" } }",
       "backendName := backendGroupName(backendGroup)",
       "if backendGroupNeedsSplit(backendGroup) { return protocol + \"://$\" + convertStringToSafeVariableName(backendName) + requestURI }",
       "return protocol + \"://\" + backendName + requestURI"] ∧
    RenderFacts.backendGroupNameBody =
      ["switch len(group.Backends) { case 0: return invalidBackendRef case 1: b := group.Backends[0] if b.Weight == 0 || !b.Valid { return invalidBackendRef } return b.UpstreamName default: return group.Name() }"] ∧
    RenderFacts.backendGroupNeedsSplitBody =
      ["return len(group.Backends) > 1"] ∧
    RenderFacts.needsInternalLocationsBody =
      ["if len(rule.MatchRules) > 1 { return true }",
       "return len(rule.MatchRules) == 1 && !isPathOnlyMatch(rule.MatchRules[0].Match)"] ∧
    RenderFacts.createDefaultRootLocationBody =
      ["return http.Location{ Path: \"/\", Return: &http.Return{Code: http.StatusNotFound}, }"] ∧
    RenderFacts.createMatchLocationBody =
      ["var rewrites []string",
       "if grpc { rewrites = []string{\"^ $request_uri break\"} }",
       "loc := http.Location{ Path: path, Rewrites: rewrites, Type: http.InternalLocationType, }",
       "return loc"] ∧
    RenderFacts.getIPFamilyBody =
      ["switch baseHTTPConfig.IPFamily { case dataplane.IPv4: return shared.IPFamily{IPv4: true} case dataplane.IPv6: return shared.IPFamily{IPv6: true} }",
       "return shared.IPFamily{IPv4: true, IPv6: true}"] ∧
    RenderFacts.buildServersSorts =
      ["if s.PathRules[i].Path != s.PathRules[j].Path { return s.PathRules[i].Path < s.PathRules[j].Path } ; return s.PathRules[i].PathType < s.PathRules[j].PathType",
       "return servers[i].Hostname < servers[j].Hostname"] ∧
    RenderFacts.newBackendGroupArgs =
      ["rule.BackendRefs",
       "routeNsName",
       "i"] ∧
    RenderFacts.redirectFilterBody =
      ["if filter == nil { return nil, nil }",
       "hostname := \"$host\"",
       "if filter.Hostname != nil { hostname = *filter.Hostname }",
       "code := http.StatusFound",
       "if filter.StatusCode != nil { code = http.StatusCode(*filter.StatusCode) }",
       "port := listenerPort",
       "if filter.Port != nil { port = *filter.Port }",
       "hostnamePort := fmt.Sprintf(\"%s:%d\", hostname, port)",
       "scheme := \"$scheme\"",
       "if filter.Scheme != nil { scheme = *filter.Scheme if (port == 80 && scheme == \"http\") || (port == 443 && scheme == \"https\") { hostnamePort = hostname } if filter.Port == nil { if scheme == \"http\" || scheme == \"https\" { hostnamePort = hostname } } }",
       "body := fmt.Sprintf(\"%s://%s$request_uri\", scheme, hostnamePort)",
       "rewrites := &rewriteConfig{}",
       "if filter.Path != nil { rewrites.MainRewrite = createMainRewriteForFilters(filter.Path, path) body = fmt.Sprintf(\"%s://%s$uri$is_args$args\", scheme, hostnamePort) }",
       "return &http.Return{ Code: code, Body: body, }, rewrites"] ∧
    RenderFacts.buildBackendGroupsBody =
      ["type key struct { nsname types.NamespacedName ruleIdx int }",
       "uniqueGroups := make(map[key]BackendGroup)",
       "for _, s := range servers { for _, pr := range s.PathRules { for _, mr := range pr.MatchRules { group := mr.BackendGroup k := key{ nsname: group.Source, ruleIdx: group.RuleIdx, } uniqueGroups[k] = group } } }",
       "numGroups := len(uniqueGroups)",
       "if len(uniqueGroups) == 0 { return nil }",
       "groups := make([]BackendGroup, 0, numGroups)",
       "for _, group := range uniqueGroups { groups = append(groups, group) }",
       "return groups"] ∧
    RenderFacts.createSplitClientsBody =
      ["numSplits := 0",
       "for _, group := range backendGroups { if backendGroupNeedsSplit(group) { numSplits++ } }",
       "if numSplits == 0 { return nil }",
       "splitClients := make([]http.SplitClient, 0, numSplits)",
       "for _, group := range backendGroups { distributions := createSplitClientDistributions(group) if distributions == nil { continue } splitClients = append(splitClients, http.SplitClient{ VariableName: convertStringToSafeVariableName(group.Name()), Distributions: distributions, }) }",
       "return splitClients"] :=
  ⟨rfl, rfl, rfl, rfl, rfl, rfl, rfl, rfl, rfl, rfl, rfl, rfl, rfl, rfl⟩

open NGF.Generated in
/-- the two templates, line by line (whitespace-normalised) -/
theorem render_templates_pinned :
    RenderFacts.splitClientsTemplate =
      ["{{ range $sc := . }}",
       "split_clients $request_id ${{ $sc.VariableName }} {",
       "{{- range $d := $sc.Distributions }}",
       "{{- if eq $d.Percent \"0.00\" }}",
       "# {{ $d.Percent }}% {{ $d.Value }};",
       "{{- else }}",
       "{{ $d.Percent }}% {{ $d.Value }};",
       "{{- end }}",
       "{{- end }}",
       "}",
       "{{ end }}"] ∧
    RenderFacts.serversTemplate =
      ["js_preload_object matches from /etc/nginx/conf.d/matches.json;",
       "{{- range $s := .Servers -}}",
       "{{ if $s.IsDefaultSSL -}}",
       "server {",
       "{{- if or ($.IPFamily.IPv4) ($s.IsSocket) }}",
       "listen {{ $s.Listen }} ssl default_server{{ $.RewriteClientIP.ProxyProtocol }};",
       "{{- end }}",
       "{{- if and ($.IPFamily.IPv6) (not $s.IsSocket) }}",
       "listen [::]:{{ $s.Listen }} ssl default_server{{ $.RewriteClientIP.ProxyProtocol }};",
       "{{- end }}",
       "ssl_reject_handshake on;",
       "{{- range $address := $.RewriteClientIP.RealIPFrom }}",
       "set_real_ip_from {{ $address }};",
       "{{- end}}",
       "{{- if $.RewriteClientIP.RealIPHeader}}",
       "real_ip_header {{ $.RewriteClientIP.RealIPHeader }};",
       "{{- end}}",
       "{{- if $.RewriteClientIP.Recursive}}",
       "real_ip_recursive on;",
       "{{- end }}",
       "}",
       "{{- else if $s.IsDefaultHTTP }}",
       "server {",
       "{{- if $.IPFamily.IPv4 }}",
       "listen {{ $s.Listen }} default_server{{ $.RewriteClientIP.ProxyProtocol }};",
       "{{- end }}",
       "{{- if $.IPFamily.IPv6 }}",
       "listen [::]:{{ $s.Listen }} default_server{{ $.RewriteClientIP.ProxyProtocol }};",
       "{{- end }}",
       "{{- range $address := $.RewriteClientIP.RealIPFrom }}",
       "set_real_ip_from {{ $address }};",
       "{{- end}}",
       "{{- if $.RewriteClientIP.RealIPHeader}}",
       "real_ip_header {{ $.RewriteClientIP.RealIPHeader }};",
       "{{- end}}",
       "{{- if $.RewriteClientIP.Recursive}}",
       "real_ip_recursive on;",
       "{{- end }}",
       "default_type text/html;",
       "return 404;",
       "}",
       "{{- else }}",
       "server {",
       "{{- if $s.SSL }}",
       "{{- if or ($.IPFamily.IPv4) ($s.IsSocket) }}",
       "listen {{ $s.Listen }} ssl{{ $.RewriteClientIP.ProxyProtocol }};",
       "{{- end }}",
       "{{- if and ($.IPFamily.IPv6) (not $s.IsSocket) }}",
       "listen [::]:{{ $s.Listen }} ssl{{ $.RewriteClientIP.ProxyProtocol }};",
       "{{- end }}",
       "ssl_certificate {{ $s.SSL.Certificate }};",
       "ssl_certificate_key {{ $s.SSL.CertificateKey }};",
       "if ($ssl_server_name != $host) {",
       "return 421;",
       "}",
       "{{- else }}",
       "{{- if $.IPFamily.IPv4 }}",
       "listen {{ $s.Listen }}{{ $.RewriteClientIP.ProxyProtocol }};",
       "{{- end }}",
       "{{- if $.IPFamily.IPv6 }}",
       "listen [::]:{{ $s.Listen }}{{ $.RewriteClientIP.ProxyProtocol }};",
       "{{- end }}",
       "{{- end }}",
       "server_name {{ $s.ServerName }};",
       "{{- if $.Plus }}",
       "status_zone {{ $s.ServerName }};",
       "{{- end }}",
       "{{- range $i := $s.Includes }}",
       "include {{ $i.Name }};",
       "{{- end }}",
       "{{- range $address := $.RewriteClientIP.RealIPFrom }}",
       "set_real_ip_from {{ $address }};",
       "{{- end}}",
       "{{- if $.RewriteClientIP.RealIPHeader}}",
       "real_ip_header {{ $.RewriteClientIP.RealIPHeader }};",
       "{{- end}}",
       "{{- if $.RewriteClientIP.Recursive}}",
       "real_ip_recursive on;",
       "{{- end }}",
       "{{ range $l := $s.Locations }}",
       "location {{ $l.Path }} {",
       "{{ if eq $l.Type \"internal\" -}}",
       "internal;",
       "{{ end }}",
       "{{- range $i := $l.Includes }}",
       "include {{ $i.Name }};",
       "{{- end -}}",
       "{{ range $r := $l.Rewrites }}",
       "rewrite {{ $r }};",
       "{{- end }}",
       "{{- if $l.Return }}",
       "return {{ $l.Return.Code }} \"{{ $l.Return.Body }}\";",
       "{{- end }}",
       "{{- if eq $l.Type \"redirect\" }}",
       "set $match_key {{ $l.HTTPMatchKey }};",
       "js_content httpmatches.redirect;",
       "{{- end }}",
       "{{ $proxyOrGRPC := \"proxy\" }}{{ if $l.GRPC }}{{ $proxyOrGRPC = \"grpc\" }}{{ end }}",
       "{{- if $l.GRPC }}",
       "include /etc/nginx/grpc-error-pages.conf;",
       "{{- end }}",
       "proxy_http_version 1.1;",
       "{{- if $l.ProxyPass -}}",
       "{{ range $h := $l.ProxySetHeaders }}",
       "{{ $proxyOrGRPC }}_set_header {{ $h.Name }} \"{{ $h.Value }}\";",
       "{{- end }}",
       "{{ $proxyOrGRPC }}_pass {{ $l.ProxyPass }};",
       "{{ range $h := $l.ResponseHeaders.Add }}",
       "add_header {{ $h.Name }} \"{{ $h.Value }}\" always;",
       "{{- end }}",
       "{{ range $h := $l.ResponseHeaders.Set }}",
       "proxy_hide_header {{ $h.Name }};",
       "add_header {{ $h.Name }} \"{{ $h.Value }}\" always;",
       "{{- end }}",
       "{{ range $h := $l.ResponseHeaders.Remove }}",
       "proxy_hide_header {{ $h }};",
       "{{- end }}",
       "{{- if $l.ProxySSLVerify }}",
       "{{ $proxyOrGRPC }}_ssl_server_name on;",
       "{{ $proxyOrGRPC }}_ssl_verify on;",
       "{{ $proxyOrGRPC }}_ssl_name {{ $l.ProxySSLVerify.Name }};",
       "{{ $proxyOrGRPC }}_ssl_trusted_certificate {{ $l.ProxySSLVerify.TrustedCertificate }};",
       "{{- end }}",
       "{{- end }}",
       "}",
       "{{- end }}",
       "{{- if $s.GRPC }}",
       "include /etc/nginx/grpc-error-locations.conf;",
       "{{- end }}",
       "}",
       "{{- end }}",
       "{{ end }}",
       "server {",
       "listen unix:/var/run/nginx/nginx-503-server.sock;",
       "access_log off;",
       "return 503;",
       "}",
       "server {",
       "listen unix:/var/run/nginx/nginx-500-server.sock;",
       "access_log off;",
       "return 500;",
       "}"] :=
  ⟨rfl, rfl⟩

/-- WITNESS: `portsOK` cannot be dropped (port 70080), and the listen clause rejects the address of the seeded change
C03-r3m3 (`[::]:` in front of a unix socket) while it accepts what the templates print for sockets and ports -/
theorem render_listen_witnesses :
    wfDirs [renderDefault 70080] [] =
      [⟨"bad-listen", "listen 70080 default_server: invalid address or port in \"70080\""⟩,
       ⟨"bad-listen", "listen [::]:70080 default_server: invalid address or port in \"[::]:70080\""⟩] ∧
    NGF.WF.listenWhy ["[::]:unix:/var/run/nginx/https443.sock".toList, "ssl".toList, "default_server".toList] =
      some "invalid address or port in \"[::]:unix:/var/run/nginx/https443.sock\"" ∧
    NGF.WF.listenWhy ["unix:/var/run/nginx/https443.sock".toList, "ssl".toList, "default_server".toList, "proxy_protocol".toList] = none ∧
    NGF.WF.listenWhy ["[::]:443".toList, "ssl".toList] = none := by
  decide +kernel

/-! ## 8. SSL servers (Model/RenderTls: `renderT (genTR s order orderS)`, on top of C16's `PipelineTls.genT`) -/

section ssl
open NGF.PipelineTls NGF.RenderTls

/-- projection: the enriched SSL configuration is C16's `genT s` with more information (for all port orders) -/
theorem genTR_projects_to_genT (s : ScenarioT) (order orderS : List Nat) : (genTR s order orderS).forget = genT s :=
  forget_genTR s order orderS

/-- every certificate file that the rendered configuration references is defined by the same file set: each argument of
an `ssl_certificate` / `ssl_certificate_key` directive of `renderT (genTR s …)` is `secrets/<id>.pem` of a key pair that
`genT s` emits (C16's `ssl_server_cert_any_ns` gives the key pair) — for EVERY TLS scenario, no hypothesis -/
theorem ssl_cert_files_defined (s : ScenarioT) (order orderS : List Nat) :
    ∀ r ∈ certRefs (renderT (genTR s order orderS)), r ∈ certFiles (genTR s order orderS) := by
  intro r hr
  obtain ⟨sv, hsv, id, hk, rfl⟩ := certRefs_renderT _ hr
  have hf := forget_genTR s order orderS
  have hmem : (sv.forget.1, some id) ∈ (genT s).ssl := by
    rw [← hf]
    exact List.mem_map.mpr ⟨sv, hsv, by simp [SslR.forget, hk]⟩
  obtain ⟨_, _, _, _, _, _, _, _, c, _, _, hid, _, k, hkm, hkid, _⟩ := NGF.PipelineTls.ssl_server_cert_any_ns s _ _ hmem
  have hkp : (genTR s order orderS).keyPairs = (genT s).keyPairs := by rw [← hf]; rfl
  unfold certFiles
  rw [hkp]
  refine List.mem_map.mpr ⟨k, hkm, ?_⟩
  rw [hkid]
  simp only [Option.some.injEq] at hid
  rw [hid]

/-- no (listen address, server_name) pair occurs twice among the SSL server blocks, the SSL default servers included —
under `noDupSsl`, the explicit hypothesis that excludes the registered finding C03:duplicate-ssl-server-from-listener-404
(on no port two SSL servers — route servers and the 404 servers of listeners — have the same name; witness `sDupSsl` below) -/
theorem ssl_listen_server_name_distinct (s : ScenarioT) (order orderS : List Nat) (hf : inFragment (httpsPart s) = true)
    (hd : noDupSsl (genTR s order orderS) = true) :
    ((sslDirs (genTR s order orderS)).flatMap srvPairs).Nodup :=
  sslPairs_nodup (goodSslNames_genTR order orderS hf hd)

/-- clause `duplicate-listen-server-name` for the WHOLE of `renderT`: among all server blocks — HTTP servers, SSL servers,
default servers of both kinds, the two unix-socket servers — no (listen address, server_name) pair occurs twice. Uses that
an HTTP and an HTTPS listener never serve one port (`PipelineTls.conflicted`: `ports_disjoint`). -/
theorem renderT_listen_server_name_distinct (s : ScenarioT) (order orderS : List Nat)
    (hfH : inFragment (httpPart s) = true) (hsH : namesSafe (httpPart s) = true) (hpH : portsOK (httpPart s) = true)
    (hfS : inFragment (httpsPart s) = true) (hd : noDupSsl (genTR s order orderS) = true) :
    ((blocksNamed "server" (renderT (genTR s order orderS))).flatMap srvPairs).Nodup :=
  renderT_pairs_nodup order orderS (goodConf_genR order hfH hsH hpH) (goodSslNames_genTR order orderS hfS hd)

/-- `_partial` of `renderT_wellformed`, SSL half: every SSL server block of `renderT (genTR s …)` has pairwise distinct
location keys (external, internal, default root — clause `duplicate-location`) and only `listen` directives that NGINX
accepts (`<p> ssl`, `[::]:<p> ssl`, clause `bad-listen`); so have the SSL default servers (`… ssl default_server`) -/
theorem renderT_ssl_servers_wellformed_partial (s : ScenarioT) (order orderS : List Nat) (hf : inFragment (httpsPart s) = true)
    (hp : ∀ sv ∈ (genTR s order orderS).ssl, 1 ≤ sv.port ∧ sv.port ≤ 65535)
    (hp' : ∀ d ∈ (genTR s order orderS).sslDefaults, 1 ≤ d.1 ∧ d.1 ≤ 65535) :
    (∀ sv ∈ (genTR s order orderS).ssl,
      ((blocksNamed "location" (body (renderSsl sv))).map locKeyL).Nodup ∧
      (named "listen" (body (renderSsl sv))).flatMap listenIssue = []) ∧
    (∀ d ∈ (genTR s order orderS).sslDefaults, (named "listen" (body (renderSslDefault d.1))).flatMap listenIssue = []) := by
  refine ⟨fun sv hsv => ⟨?_, ?_⟩, fun d hd => ?_⟩
  · rw [locs_of_renderSsl]
    exact sslKeys_nodup (goodSslServers_genTR order orderS hf sv hsv)
  · exact listenIssues_renderSsl sv (hp sv hsv).1 (hp sv hsv).2
  · exact listenIssues_sslDefault d.1 (hp' d hd).1 (hp' d hd).2

/-
NOT PROVED (statement kept; executed on every scenario of the TLS render tie, evidence `render_tls_tie`):

  theorem renderT_wellformed (s : ScenarioT) (order orderS : List Nat) (hf : inFragmentT s = true)
      (hs : namesSafe (allPart s) = true) (hp : portsOKT s = true) (hd : noDupSsl (genTR s order orderS) = true) :
      wfDirs (renderT (genTR s order orderS)) (matchKeysOfT (genTR s order orderS)) = []

  Proved pieces: the HTTP half alone (`renderT_wellformed_partial`), and of the SSL half the clauses
  duplicate-listen-server-name (`ssl_listen_server_name_distinct`; for ALL servers of renderT:
  `renderT_listen_server_name_distinct`), duplicate-location and bad-listen
  (`renderT_ssl_servers_wellformed_partial`), certificate files (`ssl_cert_files_defined`).
  Missing: (a) the clauses with cross references for the SSL half — `keyIssues` with the keys `SSL_<i>_<j>` (needs
  `sidT` injective = `sidOf_inj` on the SSL names under `noDupSsl`, disjointness from the HTTP keys by the prefix, and the
  generalisation of `keyIssues_server` to a key map that CONTAINS the server's entries) and `passIssues` (generalisation
  of `passIssues_good` to the split variables of `dedupKey (cH.groups ++ cS.groups)`, which needs `src_determines_action`
  across the two projections); (b) of the cross-half facts (an HTTP and an HTTPS listener never share a port: `ports_disjoint`, proved) the
  consequence for the `default_server` addresses (the one for (listen, server_name) pairs is proved);
  (c) the assembly as in `wf_of_good`.
-/

/-- `_partial` of `renderT_wellformed`: the plain-HTTP half of `renderT` is `render (genR (httpPart s) order)` — the servers C16
proves unaffected by TLS objects — and the structural judge finds nothing in it -/
theorem renderT_wellformed_partial (s : ScenarioT) (order orderS : List Nat) (hf : inFragment (httpPart s) = true)
    (hs : namesSafe (httpPart s) = true) (hp : portsOK (httpPart s) = true) :
    (genTR s order orderS).http = genR (httpPart s) order ∧
    wfDirs (render (genTR s order orderS).http) (matchKeysOf (genTR s order orderS).http) = [] := by
  have e : (genTR s order orderS).http = genR (httpPart s) order := by
    unfold genTR; cases winnerT s <;> rfl
  exact ⟨e, e ▸ render_wellformed_fragment (httpPart s) order hf hs hp⟩

def secretOK : Tls.SecretObj := ⟨S "default", S "tls", true, true, S "CERT", S "KEY"⟩

/-- one HTTPS listener `cafe.example.com` with a resolvable Secret, one route -/
def sSsl : ScenarioT :=
  ⟨S "nginx", S "ctl", [⟨S "nginx", S "ctl"⟩],
    [⟨S "default", S "gw", S "nginx", 1, [⟨⟨S "https", 443, S "cafe.example.com", true⟩, true, some (S "default", S "tls")⟩,
                                          ⟨⟨S "http", 80, [], true⟩, false, none⟩]⟩],
    sOK.routes, [secretOK], []⟩

/-- the registered finding C03:duplicate-ssl-server-from-listener-404: an HTTPS listener WITHOUT hostname and a route
without hostnames: the route's server and the listener's 404 server are both `listen 443 ssl; server_name ~^;` -/
def sDupSsl : ScenarioT :=
  { sSsl with
    gateways := [⟨S "default", S "gw", S "nginx", 1, [⟨⟨S "https", 443, [], true⟩, true, some (S "default", S "tls")⟩]⟩],
    routes := sOK.routes.map fun r => { r with hostnames := [] } }

#guard inFragmentT sSsl && namesSafe (allPart sSsl) && portsOKT sSsl && noDupSsl (genTR sSsl [] [])
#guard (certRefs (renderT (genTR sSsl [80] [443]))).length == 2 && (certFiles (genTR sSsl [80] [443])).length == 1
#guard (wfDirs (renderT (genTR sSsl [80] [443])) (matchKeysOfT (genTR sSsl [80] [443]))).isEmpty
#guard inFragmentT sDupSsl && !noDupSsl (genTR sDupSsl [] [])
#guard ((wfDirs (renderT (genTR sDupSsl [] [])) (matchKeysOfT (genTR sDupSsl [] []))).map (·.clause)).eraseDups ==
  ["duplicate-listen-server-name"]

end ssl

end NGF.Props.C03Render
