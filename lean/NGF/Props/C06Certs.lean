/-
C06 (task C06-certs) — ReferenceGrant gating of certificate Secrets over the TLS layer of the pipeline model.

`genTG s = PipelineTls.genT (toT s)` (Model/PipelineTlsRefs.lean): the C16 pipeline model with the ReferenceGrants as C06
models them. All statements are for ALL `ScenarioTG`; "justified" is the declarative spec `RefGrant.Permitted` (proved
equivalent to the resolver model in `refAllowed_iff_spec`). Uses C16's theorems `ssl_server_cert_is_attaching_listeners_secret`,
`keypairs_exact`, `invalid_secret_no_ssl_server`, `unresolved_listeners_contribute_nothing` (Props/C16Pipeline.lean).
-/
import NGF.Props.C06
import NGF.Props.C16Pipeline
import NGF.Proofs.PipelineTlsRefs

namespace NGF.PipelineTlsRefs
open NGF.Pipeline NGF.PipelineTls
open NGF.RefGrant (Permitted fromGateway toSecret)

/-! ### projection: `PipelineTls` on the projected grants asks exactly the C06 resolver -/

/-- PROJECTION LEMMA: the permission bit `PipelineTls` computes from the projected grants is the answer of the C06 resolver
model (`newReferenceGrantResolver` + `refAllowed(toSecret(ns/name), fromGateway(gwNs))`) on the grants themselves -/
theorem secretRefAllowed_conv (gs : List RefGrant.Grant) (gwNs sNs sName : Str) :
    Tls.secretRefAllowed (gs.map convGrant) gwNs sNs sName =
      RefGrant.refAllowed (RefGrant.newResolver gs) (toSecret (String.ofList sNs) (String.ofList sName))
        (fromGateway (String.ofList gwNs)) :=
  RefGrant.bool_eq_of_iff ((secretRefAllowed_conv_iff gs gwNs sNs sName).trans
    (RefGrant.secret_ref_allowed_iff gs (String.ofList gwNs) (String.ofList sNs) (String.ofList sName)).symm)

/-- … and agrees with `RefGrant.certRefVerdict` (the model the resolver correspondence runs against the real code) -/
theorem certRefVerdict_conv (gs : List RefGrant.Grant) (gwNs : String) (c : RefGrant.CertRef) :
    (RefGrant.certRefVerdict gs gwNs c = .refNotPermitted) ↔
      (c.ns.getD gwNs ≠ gwNs ∧
        Tls.secretRefAllowed (gs.map convGrant) gwNs.toList (c.ns.getD gwNs).toList c.name.toList = false) := by
  rw [secretRefAllowed_conv]
  simp only [String.ofList_toList]
  unfold RefGrant.certRefVerdict
  by_cases h : c.ns.getD gwNs = gwNs
  · simp [h]
  · cases ha : RefGrant.refAllowed (RefGrant.newResolver gs) (toSecret (c.ns.getD gwNs) c.name) (fromGateway gwNs) <;> simp [h, ha]

theorem not_justified_iff {gs : List RefGrant.Grant} {gwNs : Str} {c : Str × Str} :
    ¬ CertJustified gs gwNs c ↔ c.1 ≠ gwNs ∧ Tls.secretRefAllowed (gs.map convGrant) gwNs c.1 c.2 = false := by
  unfold CertJustified
  rw [← secretRefAllowed_conv_iff]
  cases Tls.secretRefAllowed (gs.map convGrant) gwNs c.1 c.2 <;> simp

/-- a valid HTTPS listener has a justified certificate reference (and its Secret exists, is of type TLS, loads) -/
theorem valid_listener_justified (s : ScenarioTG) (g : GatewayT) (l : ListenerT) (hv : validHttps (toT s) g l = true) :
    ∃ c, l.cert = some c ∧ CertJustified s.grants g.ns c ∧
      ∃ sec, Tls.findSecret s.secrets c.1 c.2 = some sec ∧ sec.isTLS = true ∧ sec.pairOK = true := by
  obtain ⟨c, hc, hp, rest⟩ := valid_cert hv
  refine ⟨c, hc, ?_, rest⟩
  rcases hp with h | h
  · exact .inl h
  · exact .inr ((secretRefAllowed_conv_iff s.grants g.ns c.1 c.2).1 h)

/-- an unjustified certificate reference makes the listener invalid, whatever else is in the cluster -/
theorem unjustified_listener_invalid (s : ScenarioTG) (g : GatewayT) (l : ListenerT) (c : Str × Str) (hc : l.cert = some c)
    (hj : ¬ CertJustified s.grants g.ns c) :
    validHttps (toT s) g l = false ∧ resolution (toT s) g l ≠ .ok := by
  obtain ⟨hne, ha⟩ := not_justified_iff.1 hj
  refine ⟨(resolution_failures_T (toT s) g l).2.1 c hc hne ha, ?_⟩
  intro hok
  obtain ⟨c', hc', hp, _⟩ : ∃ c', l.cert = some c' ∧ (c'.1 = g.ns ∨ Tls.secretRefAllowed (toT s).grants g.ns c'.1 c'.2 = true) ∧ True := by
    unfold resolution at hok
    obtain ⟨h0, _, _, hp, _⟩ := resolveRef_ok hok
    simp only [certRefOf, hc] at hp
    exact ⟨c, hc, hp, trivial⟩
  rw [hc] at hc'; cases hc'
  rcases hp with h | h
  · exact hne h
  · rw [show (toT s).grants = s.grants.map convGrant from rfl, ha] at h; cases h

/-! ### `crossns_cert_needs_grant_genT` -/

/-- Every SSL server of the generated configuration presents the key pair of a VALID HTTPS listener of the served Gateway
(on that port, covering the server name), the emitted key-pair file of that id holds the bytes of THAT listener's
Secret, and the listener's certificate reference is JUSTIFIED: the Secret lives in the Gateway's namespace, or a
ReferenceGrant in the Secret's namespace names (gateway.networking.k8s.io, Gateway, Gateway namespace) in `from` and
(core, Secret, no name or that name) in `to`. -/
theorem crossns_cert_needs_grant_genT (s : ScenarioTG) (hns : CertNsPlain (toT s)) (sv : CServer) (kp : Option (List Char))
    (h : (sv, kp) ∈ (genTG s).ssl) :
    ∃ gT, winnerT (toT s) = some gT ∧ ∃ l ∈ gT.listeners, validHttps (toT s) gT l = true ∧ l.base.port = sv.port ∧
      Tls.covers l.base.host sv.name = true ∧
      ∃ c sec, l.cert = some c ∧ kp = some (Tls.keyPairId c) ∧ Tls.findSecret s.secrets c.1 c.2 = some sec ∧
        (∃ k ∈ (genTG s).keyPairs, k.id = Tls.keyPairId c ∧ k.cert = sec.cert ∧ k.key = sec.key) ∧
        CertJustified s.grants gT.ns c := by
  obtain ⟨gT, hw, l, hl, hv, hp, hcov, _, c, sec, hc, hkp, hs, _, _, hk⟩ :=
    ssl_server_cert_is_attaching_listeners_secret (toT s) hns sv kp h
  obtain ⟨c', hc', hj, _⟩ := valid_listener_justified s gT l hv
  rw [hc] at hc'; cases hc'
  exact ⟨gT, hw, l, hl, hv, hp, hcov, c, sec, hc, hkp, hs, hk, hj⟩

/-- the same for the key-pair FILES: every emitted file holds the bytes of the Secret of a valid listener with a justified
reference — no key material crosses a namespace without a grant -/
theorem keypair_files_need_grant (s : ScenarioTG) (hns : CertNsPlain (toT s)) (gT : GatewayT) (hw : winnerT (toT s) = some gT)
    (k : Tls.KeyPair) (hk : k ∈ (genTG s).keyPairs) :
    ∃ l ∈ gT.listeners, validHttps (toT s) gT l = true ∧ ∃ c sec, l.cert = some c ∧
      Tls.findSecret s.secrets c.1 c.2 = some sec ∧ k = ⟨Tls.keyPairId c, sec.cert, sec.key⟩ ∧ CertJustified s.grants gT.ns c := by
  obtain ⟨l, hl, hv, c, sec, hc, hs, e⟩ := (keypairs_exact (toT s) hns gT hw k).1 hk
  obtain ⟨c', hc', hj, _⟩ := valid_listener_justified s gT l hv
  rw [hc] at hc'; cases hc'
  exact ⟨l, hl, hv, c, sec, hc, hs, e, hj⟩

/-! ### `no_grant_listener_contributes_nothing` -/

/-- A listener of the served Gateway whose certificate reference is not justified is "not programmed" on the data plane:
it is invalid; the SSL part of the configuration (servers, SSL ports, key-pair files) is that of the cluster WITHOUT it
(and without the other unresolved listeners); no SSL server presents its key pair and no key-pair file of its Secret
is written (names without `_`); and if every HTTPS listener of its port is in the same situation — in particular if it
is the only one — the port is not open for TLS at all: no SSL server, no default server, no certificate for any SNI. -/
theorem no_grant_listener_contributes_nothing (s : ScenarioTG) (gT : GatewayT) (hw : winnerT (toT s) = some gT)
    (l : ListenerT) (hl : l ∈ gT.listeners) (c : Str × Str) (hc : l.cert = some c) (hj : ¬ CertJustified s.grants gT.ns c) :
    validHttps (toT s) gT l = false ∧
    (l.https = true → keepResolved (toT s) gT l = false) ∧
    ((genT (dropUnresolved (toT s))).ssl = (genTG s).ssl ∧ (genT (dropUnresolved (toT s))).sslPorts = (genTG s).sslPorts ∧
      (genT (dropUnresolved (toT s))).keyPairs = (genTG s).keyPairs) ∧
    (CertNsPlain (toT s) → (∀ sv kp, (sv, kp) ∈ (genTG s).ssl → kp ≠ some (Tls.keyPairId c)) ∧
      ∀ k ∈ (genTG s).keyPairs, k.id ≠ Tls.keyPairId c) ∧
    ((∀ o ∈ gT.listeners, o.https = true → o.base.port = l.base.port → o = l) →
      l.base.port ∉ (genTG s).sslPorts ∧ (∀ sv kp, (sv, kp) ∈ (genTG s).ssl → sv.port ≠ l.base.port) ∧
      ∀ sni, presented (genTG s) l.base.port sni = none) := by
  obtain ⟨hinv, hres⟩ := unjustified_listener_invalid s gT l c hc hj
  refine ⟨hinv, ?_, unresolved_listeners_contribute_nothing (toT s), ?_, ?_⟩
  · intro hh
    simp [keepResolved, hh, hres]
  · intro hns
    have hg := winnerT_mem hw
    have hplain := hns gT hg l hl c hc
    constructor
    · intro sv kp hm hkp
      obtain ⟨gT', hw', l', hl', _, _, _, c', sec, hc', hkp', _, _, hj'⟩ := crossns_cert_needs_grant_genT s hns sv kp hm
      rw [hw] at hw'; cases hw'
      rw [hkp] at hkp'
      have : c = c' := Tls.keyPairId_inj hplain (hns gT hg l' hl' c' hc') (Option.some.inj hkp')
      exact hj (this ▸ hj')
    · intro k hk hid
      obtain ⟨l', hl', _, c', sec, hc', _, e, hj'⟩ := keypair_files_need_grant s hns gT hw k hk
      have hid' : Tls.keyPairId c' = Tls.keyPairId c := by rw [← hid, e]
      have : c' = c := Tls.keyPairId_inj (hns gT hg l' hl' c' hc') hplain hid'
      exact hj (this ▸ hj')
  · intro honly
    apply invalid_secret_no_ssl_server (toT s) gT hw l.base.port
    intro o ho hh hp
    rw [honly o ho hh hp]
    exact hres

/-! ### revocation, monotonicity, kind separation -/

theorem winnerT_grants (s : ScenarioTG) (gs' : List RefGrant.Grant) :
    winnerT (toT { s with grants := gs' }) = winnerT (toT s) := by
  unfold winnerT allPart proj toT; rfl

theorem not_permitted_after_revokeCert (gs : List RefGrant.Grant) (gwNs : Str) (c : Str × Str) (hne : c.1 ≠ gwNs) :
    ¬ CertJustified (revokeCert gs gwNs c) gwNs c := by
  rintro (h | h)
  · exact hne h
  · obtain ⟨g, hg, rest⟩ := h
    have hf := (List.mem_filter.1 hg).2
    have : RefGrant.permittedB [g] "Secret" (String.ofList c.1) (String.ofList c.2) (fromGateway (String.ofList gwNs)) = true :=
      (RefGrant.permittedB_iff _ _ _ _ _).2 ⟨g, by simp, rest⟩
    rw [this] at hf; exact absurd hf (by decide)

/-- `cert_grant_revocation_effective`: delete every ReferenceGrant that permits (Gateway, Gateway namespace) → (Secret c) —
whatever other grants remain. In the configuration generated from the remaining cluster every listener of the served
Gateway that names that Secret is invalid, no SSL server presents its key pair and its key-pair file is not written. -/
theorem cert_grant_revocation_effective (s : ScenarioTG) (gT : GatewayT) (hw : winnerT (toT s) = some gT) (c : Str × Str)
    (hne : c.1 ≠ gT.ns) :
    let s' : ScenarioTG := { s with grants := revokeCert s.grants gT.ns c }
    winnerT (toT s') = some gT ∧
    (∀ l ∈ gT.listeners, l.cert = some c → validHttps (toT s') gT l = false) ∧
    (CertNsPlain (toT s) → (∃ l ∈ gT.listeners, l.cert = some c) →
      (∀ sv kp, (sv, kp) ∈ (genTG s').ssl → kp ≠ some (Tls.keyPairId c)) ∧ ∀ k ∈ (genTG s').keyPairs, k.id ≠ Tls.keyPairId c) := by
  intro s'
  have hw' : winnerT (toT s') = some gT := (winnerT_grants s _).trans hw
  have hj : ¬ CertJustified s'.grants gT.ns c := not_permitted_after_revokeCert s.grants gT.ns c hne
  refine ⟨hw', fun l hl hc => (no_grant_listener_contributes_nothing s' gT hw' l hl c hc hj).1, ?_⟩
  rintro hns ⟨l, hl, hc⟩
  exact (no_grant_listener_contributes_nothing s' gT hw' l hl c hc hj).2.2.2.1 hns

theorem secretRefAllowed_mono {gs gs' : List RefGrant.Grant} (hsub : ∀ g ∈ gs, g ∈ gs') (gwNs sNs sName : Str)
    (h : Tls.secretRefAllowed (gs.map convGrant) gwNs sNs sName = true) :
    Tls.secretRefAllowed (gs'.map convGrant) gwNs sNs sName = true := by
  rw [secretRefAllowed_conv_iff] at h ⊢
  obtain ⟨g, hg, rest⟩ := h
  exact ⟨g, hsub g hg, rest⟩

theorem validHttps_mono {s : ScenarioTG} {gs' : List RefGrant.Grant} (hsub : ∀ g ∈ s.grants, g ∈ gs') (g : GatewayT)
    (l : ListenerT) (hv : validHttps (toT s) g l = true) : validHttps (toT { s with grants := gs' }) g l = true := by
  obtain ⟨h1, h2, h3⟩ := validHttps_iff.1 hv
  refine validHttps_iff.2 ⟨h1, h2, ?_⟩
  unfold resolution at h3 ⊢
  obtain ⟨h0, hk, hgp, hp, sec, hf, ht, hpo⟩ := resolveRef_ok h3
  unfold Tls.resolveRef
  have hf' : Tls.findSecret (toT { s with grants := gs' }).secrets (certRefOf l).ns (certRefOf l).name = some sec := hf
  simp [h0, hk, hgp, hf', ht, hpo]
  intro hne
  rcases hp with h | h
  · exact absurd h hne
  · exact secretRefAllowed_mono hsub _ _ _ h

/-- `cert_grants_monotone`: adding ReferenceGrants never removes a served certificate — every valid HTTPS listener stays
valid, every open SSL port stays open and every emitted key-pair file (id and bytes) is still emitted. (WHICH listener's
certificate a given server name presents can change: a listener that becomes valid may be the more specific one.) -/
theorem cert_grants_monotone (s : ScenarioTG) (gs' : List RefGrant.Grant) (hsub : ∀ g ∈ s.grants, g ∈ gs')
    (gT : GatewayT) (hw : winnerT (toT s) = some gT) :
    let s' : ScenarioTG := { s with grants := gs' }
    (∀ l ∈ gT.listeners, validHttps (toT s) gT l = true → validHttps (toT s') gT l = true) ∧
    (∀ p ∈ (genTG s).sslPorts, p ∈ (genTG s').sslPorts) ∧
    (CertNsPlain (toT s) → ∀ k ∈ (genTG s).keyPairs, k ∈ (genTG s').keyPairs) := by
  intro s'
  have hw' : winnerT (toT s') = some gT := (winnerT_grants s _).trans hw
  refine ⟨fun l _ hv => validHttps_mono hsub gT l hv, ?_, ?_⟩
  · intro p hp
    obtain ⟨l, hl, hv, hpl⟩ := (ssl_port_iff hw p).1 hp
    exact (ssl_port_iff hw' p).2 ⟨l, hl, validHttps_mono hsub gT l hv, hpl⟩
  · intro hns k hk
    obtain ⟨l, hl, hv, c, sec, hc, hs, e⟩ := (keypairs_exact (toT s) hns gT hw k).1 hk
    exact (keypairs_exact (toT s') hns gT hw' k).2 ⟨l, hl, validHttps_mono hsub gT l hv, c, sec, hc, hs, e⟩

/-- a grant set none of whose `to` entries has kind Secret justifies no certificate reference … -/
theorem service_grants_permit_no_secret (gs : List RefGrant.Grant) (hk : ∀ g ∈ gs, ∀ t ∈ g.tos, t.kind ≠ "Secret")
    (ns name : String) (frm : RefGrant.FromRes) : ¬ Permitted gs "Secret" ns name frm := by
  rintro ⟨g, hg, _, _, t, ht, _, hkind, _⟩
  exact hk g hg t ht hkind

/-- … and one none of whose `to` entries has kind Service justifies no backend reference -/
theorem secret_grants_permit_no_service (gs : List RefGrant.Grant) (hk : ∀ g ∈ gs, ∀ t ∈ g.tos, t.kind ≠ "Service")
    (ns name : String) (frm : RefGrant.FromRes) : ¬ Permitted gs "Service" ns name frm := by
  rintro ⟨g, hg, _, _, t, ht, _, hkind, _⟩
  exact hk g hg t ht hkind

/-- `backend_grants_do_not_leak_to_secrets`, over the composed TLS model: ReferenceGrants whose `to` entries are all for
Services (any names, any `from`, any namespace) generate exactly the configuration of the cluster without grants — they
open no certificate Secret (the kind is part of both lookups of the resolver; cf. seeded change C06-r4m1). -/
theorem backend_grants_do_not_leak_to_secrets (s : ScenarioTG) (hk : ∀ g ∈ s.grants, ∀ t ∈ g.tos, t.kind ≠ "Secret") :
    genTG s = genTG { s with grants := [] } := by
  have key : ∀ gwNs sNs sName, Tls.secretRefAllowed (s.grants.map convGrant) gwNs sNs sName = false := by
    intro gwNs sNs sName
    cases h : Tls.secretRefAllowed (s.grants.map convGrant) gwNs sNs sName
    · rfl
    · exact absurd ((secretRefAllowed_conv_iff _ _ _ _).1 h) (service_grants_permit_no_secret s.grants hk _ _ _)
  unfold genTG
  have := genT_congr_grants (toT { s with grants := [] }) (s.grants.map convGrant) (by
    intro g l
    unfold validHttps resolution Tls.resolveRef
    simp only [key]
    simp [toT, Tls.secretRefAllowed])
  exact this.symm ▸ rfl

/-- … and conversely over the backend model of §8: grants whose `to` entries are all for Secrets (certificate grants)
generate exactly the configuration of the cluster without grants — they open no Service -/
theorem secret_grants_do_not_leak_to_backends (c : PipelineRefs.ScenarioR) (hk : ∀ g ∈ c.grants, ∀ t ∈ g.tos, t.kind ≠ "Service") :
    PipelineRefs.genR { c with grants := [] } = PipelineRefs.genR c := by
  apply PipelineRefs.grants_matter_through_verdicts
  intro g _ r _ _ ru _ refs _ ref _
  have hfalse : ∀ (gs : List RefGrant.Grant), (∀ g ∈ gs, ∀ t ∈ g.tos, t.kind ≠ "Service") → ∀ n,
      RefGrant.refAllowedFrom (RefGrant.newResolver gs) (RefGrant.fromRoute .http r.ns) (RefGrant.toService n ref.name) = false := by
    intro gs hgs n
    cases h : RefGrant.refAllowedFrom (RefGrant.newResolver gs) (RefGrant.fromRoute .http r.ns) (RefGrant.toService n ref.name)
    · rfl
    · exact absurd ((RefGrant.service_ref_allowed_iff gs .http r.ns n ref.name).1 h) (secret_grants_permit_no_service gs hgs _ _ _)
  unfold RefGrant.routeRefVerdict RefGrant.validateRouteBackendRef
  simp only
  split
  · rfl
  · unfold RefGrant.validateBackendRef
    cases hns : ref.ns with
    | none => rfl
    | some n => simp only [hfalse c.grants hk n, hfalse [] (by simp) n]

/-! ### non-vacuity (by evaluation, as for `gen`) -/

def exSecret : Tls.SecretObj := ⟨"certs".toList, "tls-x".toList, true, true, "CERT".toList, "KEY".toList⟩

def exGwT : GatewayT :=
  { ns := "default".toList, name := "gw".toList, cls := "nginx".toList, age := 1,
    listeners := [{ base := { name := "https".toList, port := 443, host := "foo.example.com".toList, fromAll := true },
                    https := true, cert := some ("certs".toList, "tls-x".toList) }] }

def exTG (grants : List RefGrant.Grant) : ScenarioTG :=
  { cls := "nginx".toList, ctlr := "ctl".toList, classes := [⟨"nginx".toList, "ctl".toList⟩], gateways := [exGwT], routes := [],
    secrets := [exSecret], grants := grants }

def certGrant : RefGrant.Grant := ⟨"certs", "g", [⟨RefGrant.gatewayGroup, "Gateway", "default"⟩], [⟨"", "Secret", some "tls-x"⟩]⟩

-- granted: the listener's own SSL server presents the cross-namespace Secret, the port is open, the file is written
#guard ((genTG (exTG [certGrant])).ssl.map (·.2)) == [some "ssl_keypair_certs_tls-x".toList]
#guard (genTG (exTG [certGrant])).sslPorts == [443] && ((genTG (exTG [certGrant])).keyPairs.map (·.id)) == ["ssl_keypair_certs_tls-x".toList]
-- no grant / revoked / a Service grant of the same shape / a grant for another Gateway namespace / for another name:
-- no SSL server, no SSL port, no key-pair file
#guard [[], revokeCert [certGrant] "default".toList ("certs".toList, "tls-x".toList),
        [{ certGrant with tos := [⟨"", "Service", some "tls-x"⟩] }], [{ certGrant with froms := [⟨RefGrant.gatewayGroup, "Gateway", "other"⟩] }],
        [{ certGrant with tos := [⟨"", "Secret", some "tls"⟩] }], [{ certGrant with ns := "default" }]].all fun gs =>
    (genTG (exTG gs)).ssl.isEmpty && (genTG (exTG gs)).sslPorts.isEmpty && (genTG (exTG gs)).keyPairs.isEmpty
example : CertJustified [certGrant] "default".toList ("certs".toList, "tls-x".toList) :=
  .inr ((RefGrant.permittedB_iff _ _ _ _ _).1 (by decide))
example : ¬ CertJustified [] "default".toList ("certs".toList, "tls-x".toList) := by
  rintro (h | ⟨g, hg, _⟩)
  · exact absurd h (by decide)
  · simp at hg

end NGF.PipelineTlsRefs
