import NGF.Proofs.Hostname
import NGF.Proofs.Precedence
import NGF.Proofs.NginxEval
import NGF.Proofs.Locations
import NGF.Proofs.Pipeline
import NGF.Proofs.PipelineRefine
import NGF.Proofs.PipelineWinner
import NGF.Proofs.PipelineTlsCompose
import NGF.Generated.RoutingFacts
/-
C02 — requests are routed exactly as the attached Routes prescribe: property theorems about the cores the
driver runs (Model/Hostname, Model/Precedence, Model/NginxEval), and — for the pipeline fragment of Model/Pipeline —
the end-to-end refinement `nginxEvalConf (gen s) q = routeF s q` for ALL scenarios and requests
(`route_refines_spec_fragment`). Outside the fragment the refinement is decided by the judge (Model/C02Judge) on the
real files.
-/
namespace NGF.Props.C02

/-! ### hostnames: `match`, `GetMoreSpecificHostname`, `findAcceptedHostnames` -/
section hostnames
open NGF.Hostname

/-- `match` is symmetric in listener and route hostname once both are present (an absent listener hostname
matches everything; that asymmetry is the only one). -/
theorem hostname_match_symmetric {l r : Host} (hl : l ≠ []) (hr : r ≠ []) : hmatch l r = hmatch r l :=
  hmatch_symm hl hr

/-- every accepted hostname is the more specific of the listener hostname and a route hostname it matches -/
theorem accepted_from_matching_pair {l : Host} {rs : List Host} {h : Host} (hne : rs ≠ [])
    (hh : h ∈ accepted l rs) : ∃ r ∈ rs, hmatch l r = true ∧ h = moreSpecific l r := by
  unfold accepted at hh
  have : rs.isEmpty = false := by cases rs <;> simp_all
  simp only [this, Bool.false_eq_true, ↓reduceIte, List.mem_filterMap] at hh
  obtain ⟨r, hr, hx⟩ := hh
  by_cases hm : hmatch l r = true
  · simp only [hm, ↓reduceIte, Option.some.injEq] at hx; exact ⟨r, hr, hm, hx.symm⟩
  · simp [hm] at hx

/-- intersection: a request host an accepted hostname stands for is a host of the listener AND of a route hostname -/
theorem accepted_within_both {l : Host} {rs : List Host} {h : Host} (hne : rs ≠ [])
    (hh : h ∈ accepted l rs) (q : Host) (hq : covers h q = true) :
    covers l q = true ∧ ∃ r ∈ rs, covers r q = true := by
  obtain ⟨r, hr, hm, rfl⟩ := accepted_from_matching_pair hne hh
  exact ⟨(moreSpecific_covers hm q hq).1, r, hr, (moreSpecific_covers hm q hq).2⟩

/-- without route hostnames the listener hostname is accepted as it is (`~^` = all hosts for an absent one) -/
theorem accepted_no_route_hostnames (l : Host) :
    accepted l [] = [if l.isEmpty then wildcardHostname else l] := by
  unfold accepted; cases h : l.isEmpty <;> simp [h]

/-- `GetMoreSpecificHostname` returns one of its arguments when they match … -/
theorem moreSpecific_is_one_of {a b : Host} (hm : hmatch a b = true) (ha : a ≠ []) :
    moreSpecific a b = a ∨ moreSpecific a b = b := by
  unfold moreSpecific
  by_cases e : a = b
  · subst e; simp
  · have b1 : (a == b) = false := by simpa using e
    have ea : a.isEmpty = false := by cases a <;> simp_all
    simp only [b1, ea, Bool.false_eq_true, ↓reduceIte]
    by_cases eb : b.isEmpty = true
    · simp [eb]
    · simp only [eb, ↓reduceIte]
      cases hwa : isWild a with
      | false =>
        cases hwb : isWild b with
        | false =>
          -- both exact and different: they do not match
          unfold hmatch at hm
          have b2 : (b == a) = false := by simpa using (fun x : b = a => e x.symm)
          simp [ea, b2, wildcardMatch, hwa, hwb] at hm
        | true => left; simp
      | true =>
        cases hwb : isWild b with
        | false => right; simp
        | true =>
          by_cases hl : labels a > labels b
          · left; simp [hl]
          · right; simp [hl]

/-- … and prefers an exact hostname to a wildcard, and the wildcard with more labels -/
theorem moreSpecific_exact_over_wildcard {a b : Host} (ha : isWild a = false) (hb : isWild b = true) (hne : a ≠ []) :
    moreSpecific a b = a ∧ moreSpecific b a = a := by
  have e : a ≠ b := fun x => by rw [x, hb] at ha; cases ha
  have b1 : (a == b) = false := by simpa using e
  have b2 : (b == a) = false := by simpa using (fun x : b = a => e x.symm)
  have ea : a.isEmpty = false := by cases a <;> simp_all
  have eb : b.isEmpty = false := by
    obtain ⟨t, rfl⟩ := isWild_eq hb; rfl
  constructor <;> simp [moreSpecific, b1, b2, ea, eb, ha, hb]

example : hmatch "*.example.com".toList "example.com".toList = false := by decide
example : hmatch "*.example.com".toList "cafe.example.com".toList = true := by decide
example : moreSpecific "*.example.com".toList "*.cafe.example.com".toList = "*.cafe.example.com".toList := by decide
example : accepted "*.example.com".toList ["cafe.example.com".toList, "bar.org".toList, "*.cafe.example.com".toList]
    = ["cafe.example.com".toList, "*.cafe.example.com".toList] := by decide

end hostnames

/-! ### NGINX `server_name` selection over the generated names -/
section servers
open NGF.NginxEval

/-- a concrete request host is not itself a pattern -/
def concrete (host : Str) : Prop := isWildName host = false ∧ host ≠ catchAll

/-- exact name first -/
theorem server_select_exact {names : List Str} {host : Str} (hc : concrete host) (hin : host ∈ names) :
    selectName names host = some host := by
  unfold selectName
  have h2 : (host != catchAll) = true := by simpa using hc.2
  simp [hin, hc.1, h2]

/-- else the longest wildcard covering the host -/
theorem server_select_wildcard {names : List Str} {host n : Str} (hnot : host ∉ names)
    (h : selectName names host = some n) (hn : n ≠ catchAll) :
    n ∈ names ∧ wildCovers n host = true ∧ ∀ m ∈ names, wildCovers m host = true → m.length ≤ n.length := by
  unfold selectName at h
  have : names.contains host = false := by simpa using hnot
  simp only [this, Bool.false_and, Bool.false_eq_true, ↓reduceIte] at h
  cases hb : bestWild host names with
  | some w => rw [hb] at h; simp only [Option.some.injEq] at h; subst h; exact bestWild_some hb
  | none =>
    rw [hb] at h
    by_cases hca : catchAll ∈ names
    · simp [hca] at h; exact absurd h.symm hn
    · simp [hca] at h

/-- else the catch-all `~^` if it is there, else the default server -/
theorem server_select_default {names : List Str} {host : Str} (hnot : host ∉ names)
    (hw : ∀ m ∈ names, wildCovers m host = false) :
    selectName names host = if names.contains catchAll then some catchAll else none := by
  unfold selectName
  have : names.contains host = false := by simpa using hnot
  simp only [this, Bool.false_and, Bool.false_eq_true, ↓reduceIte]
  cases hb : bestWild host names with
  | none => rfl
  | some w =>
    have := bestWild_some hb
    rw [hw w this.1] at this; exact absurd this.2.1 (by simp)

/-- the bridge between NGINX (longest wildcard) and `GetMoreSpecificHostname` (most labels): for two wildcard
hostnames that cover the same request host, longer means more labels. -/
theorem wildcard_longer_iff_more_labels {ta tb q : Str}
    (ha : ('.' :: ta) <:+ q) (hb : ('.' :: tb) <:+ q) (hlen : tb.length < ta.length) :
    NGF.Hostname.labels ('*' :: '.' :: tb) < NGF.Hostname.labels ('*' :: '.' :: ta) := by
  have hsuf : ('.' :: tb) <:+ ('.' :: ta) := by
    refine List.suffix_of_suffix_length_le hb ha ?_
    simp; omega
  have hne : tb ≠ ta := fun e => by rw [e] at hlen; omega
  rcases NGF.Hostname.suffix_dots hsuf with e | lt
  · exact absurd e hne
  · rw [NGF.Hostname.labels_eq, NGF.Hostname.labels_eq, NGF.Hostname.dots_star_dot, NGF.Hostname.dots_star_dot]; omega

example : selectName ["*.example.com".toList, "cafe.example.com".toList, "*.cafe.example.com".toList, catchAll]
    "a.cafe.example.com".toList = some "*.cafe.example.com".toList := by decide
example : selectName ["*.example.com".toList, catchAll] "example.com".toList = some catchAll := by decide

end servers

/-! ### precedence of match rules: `higherPriority`, `sortMatchRules`, the njs matcher -/
section precedence
open NGF.Precedence NGF.Sort

/-- `higherPriority` is a strict weak order (what Go's `sort` requires of `less`): asymmetric, and
incomparability is transitive. -/
theorem higherPriority_strict_weak_order : SWO higherPriority := higherPriority_swo

/-- it orders by method presence, then header count, then query count, then age, namespace, name -/
theorem higherPriority_chain (a b : MatchKey) : higherPriority a b = chain a b := higherPriority_eq_chain a b

/-- The stable sort by `higherPriority` is a permutation, puts no rule after one it has priority over, and keeps
the source order (route, rule, match order) of rules that tie. -/
theorem sort_is_precedence (l : List MatchKey) :
    (sortRules l).Perm l ∧
    (sortRules l).Pairwise (fun a b => higherPriority b a = false) ∧
    (∀ a b, higherPriority b a = false → [a, b].Sublist l → [a, b].Sublist (sortRules l)) ∧
    (∀ a, (sortRules l).filter (equivB le a) = l.filter (equivB le a)) := by
  refine ⟨List.mergeSort_perm l le, ?_, ?_, ?_⟩
  · have := List.pairwise_mergeSort le_trans' le_total' l
    exact this.imp (fun {a b} h => by simpa [le] using h)
  · intro a b hab hs
    exact List.pair_sublist_mergeSort le_trans' le_total' (by simpa [le] using hab) hs
  · intro a
    exact filter_mergeSort_class le_trans' le_total' l a

/-- The first element of the sorted list that satisfies a predicate is a satisfying element no other satisfying
element has priority over. -/
theorem first_satisfied_is_highest (l : List MatchKey) (sat : MatchKey → Bool) (m : MatchKey)
    (h : (sortRules l).find? sat = some m) :
    m ∈ l ∧ sat m = true ∧ ∀ m' ∈ l, sat m' = true → higherPriority m' m = false := by
  obtain ⟨hperm, hsorted, _, _⟩ := sort_is_precedence l
  obtain ⟨hsat, as, bs, heq, hbefore⟩ := List.find?_eq_some_iff_append.mp h
  refine ⟨hperm.mem_iff.mp (by rw [heq]; simp), hsat, ?_⟩
  intro m' hm' hs'
  have hm'' : m' ∈ as ++ m :: bs := by rw [← heq]; exact hperm.mem_iff.mpr hm'
  rcases List.mem_append.mp hm'' with h1 | h1
  · have := hbefore m' h1; simp [hs'] at this
  · rcases List.mem_cons.mp h1 with e | e
    · subst e; exact higherPriority_swo.irrefl _
    · rw [heq] at hsorted
      have := (List.pairwise_append.mp hsorted).2.1
      exact (List.pairwise_cons.mp this).1 m' e

/-- njs: with the match list in sorted order, `findWinningMatch` returns the highest-precedence match the request
satisfies (the matches carry their precedence key; malformed entries aside). -/
theorem njs_first_match_correct (r : NGF.NginxEval.Njs.Req) (l : List (MatchKey × NGF.NginxEval.Njs.Match))
    (hwf : ∀ p ∈ l, NGF.NginxEval.Njs.testMatch r p.2 ≠ .throw) (m : NGF.NginxEval.Njs.Match)
    (h : NGF.NginxEval.Njs.findWinning r ((l.mergeSort fun x y => le x.1 y.1).map (·.2)) = .found m) :
    ∃ k, (k, m) ∈ l ∧ NGF.NginxEval.Njs.testMatch r m = .ok true ∧
      ∀ p ∈ l, NGF.NginxEval.Njs.testMatch r p.2 = .ok true → higherPriority p.1 k = false := by
  let le2 : (MatchKey × NGF.NginxEval.Njs.Match) → (MatchKey × NGF.NginxEval.Njs.Match) → Bool := fun x y => le x.1 y.1
  have tr : ∀ a b c, le2 a b = true → le2 b c = true → le2 a c = true := fun a b c => le_trans' a.1 b.1 c.1
  have tot : ∀ a b, (le2 a b || le2 b a) = true := fun a b => le_total' a.1 b.1
  have hperm := List.mergeSort_perm l le2
  have hsorted := List.pairwise_mergeSort tr tot l
  let sat : (MatchKey × NGF.NginxEval.Njs.Match) → Bool :=
    fun p => match NGF.NginxEval.Njs.testMatch r p.2 with | .ok true => true | _ => false
  have hwf' : ∀ x ∈ (l.mergeSort le2).map (·.2), NGF.NginxEval.Njs.testMatch r x ≠ .throw := by
    intro x hx
    obtain ⟨p, hp, rfl⟩ := List.mem_map.mp hx
    exact hwf p (hperm.mem_iff.mp hp)
  rw [NGF.NginxEval.Njs.findWinning_eq_find r _ hwf', List.find?_map] at h
  generalize hf : List.find? _ (l.mergeSort le2) = o at h
  cases o with
  | none => simp at h
  | some p =>
    simp only [Option.map_some, NGF.NginxEval.Njs.Win.found.injEq] at h
    obtain ⟨hsat, as, bs, heq, hbefore⟩ := List.find?_eq_some_iff_append.mp hf
    refine ⟨p.1, ?_, ?_, ?_⟩
    · have : p ∈ l := hperm.mem_iff.mp (by rw [heq]; simp)
      rw [← h]; exact this
    · simp only [Function.comp] at hsat
      rw [← h]
      cases ht : NGF.NginxEval.Njs.testMatch r p.2 with
      | throw => simp [ht] at hsat
      | ok b => cases b <;> simp_all
    · intro q hq hqs
      have hq' : q ∈ as ++ p :: bs := by rw [← heq]; exact hperm.mem_iff.mpr hq
      rcases List.mem_append.mp hq' with h1 | h1
      · have := hbefore q h1; simp [Function.comp, hqs] at this
      · rcases List.mem_cons.mp h1 with e | e
        · subst e; exact higherPriority_swo.irrefl _
        · rw [heq] at hsorted
          have := (List.pairwise_append.mp hsorted).2.1
          have := (List.pairwise_cons.mp this).1 q e
          simpa [le2, le] using this

-- a method match beats two header matches; among equal matches the older route wins; same route: tie
example : higherPriority ⟨true, 0, 0, 2, [1], [1], 1⟩ ⟨false, 2, 0, 0, [1], [1], 2⟩ = true := by decide
example : higherPriority ⟨false, 2, 0, 0, [1], [1], 2⟩ ⟨false, 2, 0, 1, [1], [1], 0⟩ = true := by decide
example : higherPriority ⟨false, 1, 1, 0, [1], [1, 2], 0⟩ ⟨false, 1, 1, 0, [1], [1, 2], 1⟩ = false := by decide

end precedence

/-! ### `ConvertGRPCMatches` -/
section grpc
open NGF.Precedence

/-- `ConvertGRPCMatches` as it is now is faithful: every converted match carries the path of its own match. -/
theorem grpc_convert_faithful (ms : List GRPCMatch) : convFaithful ms (convertGRPC ms) = true := by
  cases ms with
  | nil => rfl
  | cons m rest =>
    show convFaithfulAux (m :: rest) ((m :: rest).map convertOne) = true
    generalize (m :: rest) = l
    induction l with
    | nil => rfl
    | cons a as ih =>
      simp only [List.map, convFaithfulAux, convertOne]
      cases h : fullMethod a with
      | none => simp [ih]
      | some p => obtain ⟨s, me⟩ := p; simp [ih]

/-- the variant before the repair (shared path type, carried-over path value) is not: the witness of DESIGN §7 row 3 -/
theorem grpc_convert_shared_not_faithful :
    convFaithful [⟨false, none, none, 1⟩, ⟨true, some ['s'], some ['m'], 0⟩, ⟨false, none, none, 1⟩]
      (convertGRPCShared [⟨false, none, none, 1⟩, ⟨true, some ['s'], some ['m'], 0⟩, ⟨false, none, none, 1⟩]) = false := by
  decide

end grpc

/-! ### the location scheme against NGINX's location selection (`location_select_correct`) -/
section locations
open NGF.Precedence NGF.NginxEval NGF.Locations

/-- the exact location `= p`, once generated, is what NGINX selects for the request path `p` -/
theorem location_exact_selected {rules : List PathRule} {p : List Char} {i : Nat}
    (hg : (⟨true, p, i⟩ : GenLoc) ∈ genLocs rules) :
    ∃ l, selectLoc (locsOf rules) p = .loc l ∧ l.exact = true ∧ l.path = p := by
  have hmem : toLoc ⟨true, p, i⟩ ∈ locsOf rules := List.mem_map.mpr ⟨_, hg, rfl⟩
  cases hf : (locsOf rules).find? (fun l => l.exact && l.path == p) with
  | none =>
    have := List.find?_eq_none.mp hf _ hmem
    simp [toLoc] at this
  | some l =>
    obtain ⟨l', h1, h2⟩ := select_exact_first hf
    subst h2
    have := List.find?_some hf
    simp only [Bool.and_eq_true, beq_iff_eq] at this
    exact ⟨l', h1, this.1, this.2⟩

/-- Exact over prefix: the request path of an Exact rule is served by an exact location. -/
theorem location_select_exact_rule {rules : List PathRule} {i : Nat} {p : List Char}
    (h : rules[i]? = some ⟨p, false⟩) : ∃ l, selectLoc (locsOf rules) p = .loc l ∧ l.exact = true ∧ l.path = p :=
  location_exact_selected (exact_rule_has_location h)

/-- A PathPrefix rule `/p` (no trailing slash) serves the request `/p` itself: NGINX selects `location = /p`, which
belongs to this rule unless an Exact rule for `/p` exists (then to that one: exact over prefix). -/
theorem location_select_prefix_rule_bare {rules : List PathRule} {i : Nat} {p : List Char}
    (h : rules[i]? = some ⟨p, true⟩) (hs : endsSlash p = false) :
    (∃ l, selectLoc (locsOf rules) p = .loc l ∧ l.exact = true ∧ l.path = p) ∧
    ((hasExact rules p = false ∧ (⟨true, p, i⟩ : GenLoc) ∈ genLocs rules) ∨
     (hasExact rules p = true ∧ ∃ j, rules[j]? = some ⟨p, false⟩ ∧ (⟨true, p, j⟩ : GenLoc) ∈ genLocs rules)) := by
  have hb := prefix_rule_bare_path h hs
  refine ⟨?_, hb⟩
  rcases hb with ⟨_, hg⟩ | ⟨_, j, _, hg⟩ <;> exact location_exact_selected hg

/-- … and its subtree `/p/…`: `location /p/` exists (owned by the rule, or by the `/p/` prefix rule if there is one),
and when NGINX falls through to prefix selection it takes the LONGEST generated prefix location that is a prefix of
the request — longer prefix first. -/
theorem location_select_prefix_rule_subtree {rules : List PathRule} {i : Nat} {p : List Char}
    (h : rules[i]? = some ⟨p, true⟩) (hs : endsSlash p = false) (q : List Char) (w : Loc)
    (hsel : selectLoc (locsOf rules) q = .loc w) (hne : w.exact = false) (hsub : (p ++ ['/']) <+: q) :
    (∃ j, (⟨false, p ++ ['/'], j⟩ : GenLoc) ∈ genLocs rules) ∧ w.path <+: q ∧
    (w.path = q ∨ (p ++ ['/']).length ≤ w.path.length) := by
  obtain ⟨j, hj, _⟩ := prefix_rule_subtree h hs
  have hsound := select_sound hsel
  rcases hsound.2 with ⟨he, _⟩ | ⟨_, hpre⟩
  · rw [he] at hne; cases hne
  refine ⟨⟨j, hj⟩, hpre, ?_⟩
  -- which branch of selectLoc produced w?
  unfold selectLoc at hsel
  cases h1 : (locsOf rules).find? (fun l => l.exact && l.path == q) with
  | some a =>
    rw [h1] at hsel; simp only [LocChoice.loc.injEq] at hsel; subst hsel
    have := List.find?_some h1; simp [hne] at this
  | none =>
    rw [h1] at hsel
    cases h2 : (locsOf rules).find? (fun l => !l.exact && l.path == q) with
    | some a =>
      rw [h2] at hsel; simp only [LocChoice.loc.injEq] at hsel; subst hsel
      have := List.find?_some h2
      simp only [Bool.and_eq_true, beq_iff_eq] at this
      exact Or.inl this.2
    | none =>
      rw [h2] at hsel
      cases h3 : (locsOf rules).find? (fun l => !l.exact && l.passes && l.path == q ++ ['/']) with
      | some a => rw [h3] at hsel; cases hsel
      | none =>
        rw [h3] at hsel
        cases h4 : bestPrefix q (locsOf rules) with
        | none => rw [h4] at hsel; cases hsel
        | some b =>
          rw [h4] at hsel; simp only [LocChoice.loc.injEq] at hsel; subst hsel
          right
          have hmem : toLoc ⟨false, p ++ ['/'], j⟩ ∈ locsOf rules := List.mem_map.mpr ⟨_, hj, rfl⟩
          exact (bestPrefix_some h4).2.2.2 _ hmem rfl hsub

/-- a prefix rule `/p` is not reached by `/px`: no location generated for a prefix rule is selected for a sibling
path, because every generated prefix location ends in `/` -/
theorem location_select_not_sibling {rules : List PathRule} {p rest : List Char} {c : Char} (hc : c ≠ '/')
    {l : Loc} (hsel : selectLoc (locsOf rules) (p ++ c :: rest) = .loc l) :
    ¬ (l.exact = true ∧ l.path = p) ∧ l.path ≠ p ++ ['/'] ∧ (l.exact = false → endsSlash l.path = true) := by
  have hs := select_sound hsel
  refine ⟨?_, ?_, ?_⟩
  · rintro ⟨he, hp⟩
    rcases hs.2 with ⟨_, h⟩ | ⟨h, _⟩
    · rw [hp] at h
      have := congrArg List.length h; simp at this
    · rw [he] at h; cases h
  · intro hp
    rcases hs.2 with ⟨_, h⟩ | ⟨_, h⟩
    · rw [hp] at h
      have := List.append_cancel_left h; simp at this; exact hc this.1.symm
    · rw [hp] at h; exact not_subtree_of_other_char p rest c hc h
  · intro hne
    obtain ⟨g, hg, rfl⟩ := List.mem_map.mp hs.1
    exact nonexact_ends_slash hg hne

/-- The excluded region of the full statement (known finding `C02:prefix-with-trailing-slash-misses-bare-path`): a
PathPrefix rule whose value ends in `/` is not reached by the bare path. Gateway API: `/coffee/` matches `/coffee`. -/
theorem location_trailing_slash_witness :
    (match selectLoc (locsOf [⟨"/coffee/".toList, true⟩]) "/coffee".toList with
     | .loc l => l.path != "/coffee/".toList
     | .autoRedirect _ => true       -- 301 to /coffee/ when the location proxies
     | .none => true) = true := by decide

example : (genLocs [⟨"/coffee".toList, true⟩, ⟨"/coffee".toList, false⟩, ⟨"/".toList, true⟩]).map (fun g => (g.exact, String.ofList g.path, g.rule))
    = [(false, "/coffee/", 0), (true, "/coffee", 1), (false, "/", 2)] := by decide

end locations

/-! ### the pipeline model `Pipeline.gen` for the fragment (Model/Pipeline.lean)

`gen : Scenario → Conf` follows processGateways / bindRoutesToListeners / buildServers / createLocations for HTTP
listeners and HTTPRoutes; `nginxEvalConf` is the NGINX evaluator on the abstract `Conf`; `routeF` the Gateway API
specification restated for the fragment. The equality `abstract(real http.conf) = gen s` is validated on every run
(driver mode `pipeline`), as is `nginxEvalConf (gen s) q = routeF s q` on the probes of every in-fragment scenario
with `noShadow`. Proved here: the per-stage refinements, non-interference of `gen`, and the flagship statement
`route_refines_spec_fragment` for ALL scenarios of the fragment and ALL well-formed requests, composed from the server
stage (`server_is_most_specific_owner`), the location stage (`location_picks_best_path_rule`) and the rule stage
(`server_internal_pick`). Its hypotheses beyond `inFragment`/`noShadow` are the executable predicates of
Model/PipelineHyp.lean; each is necessary (witnesses below), and the driver evaluates the equation on exactly the
(scenario, request) pairs they allow. -/
section pipeline
open NGF.Pipeline

/-- Stage 1 (attachment): the accepted hostnames of `findAcceptedHostnames` stand, for a concrete request host,
exactly for the hosts both the listener hostname and some route hostname stand for: they are the intersection. -/
theorem attachment_is_intersection {l : Str} {rs : List Str} (hrs : rs ≠ []) (hne : ∀ r ∈ rs, r ≠ [])
    {q : Str} (hq : NGF.Hostname.isWild q = false) :
    (∃ h ∈ NGF.Hostname.accepted l rs, NGF.Hostname.covers h q = true) ↔
    (NGF.Hostname.covers l q = true ∧ ∃ r ∈ rs, NGF.Hostname.covers r q = true) :=
  accepted_iff_intersection hrs hne hq

/-- Stage 2 (servers): among the generated server names NGINX picks one that stands for the host and is the most
specific such name (exact, then longest wildcard, then the catch-all); the default server only when none does. -/
theorem server_select_most_specific {names : List Str} {q n : Str}
    (hq : NGF.NginxEval.isWildName q = false ∧ q ≠ NGF.NginxEval.catchAll) (hlen : q.length < 100000)
    (h : NGF.NginxEval.selectName names q = some n) :
    n ∈ names ∧ nameCovers n q = true ∧ ∀ m ∈ names, nameCovers m q = true → nameSpec m ≤ nameSpec n :=
  selectName_most_specific hq hlen h

theorem server_default_only_if_uncovered {names : List Str} {q : Str}
    (hq : NGF.NginxEval.isWildName q = false ∧ q ≠ NGF.NginxEval.catchAll)
    (h : NGF.NginxEval.selectName names q = none) : ∀ m ∈ names, nameCovers m q = false :=
  selectName_none hq h

/-- Non-interference on the model: a route that is invalid or attaches to no listener of the served Gateway (its
parentRefs name another, an ignored or an unknown Gateway or an unknown section; its namespace is not allowed; its
hostnames are disjoint), inserted anywhere; a Gateway of another class inserted anywhere; a younger Gateway of our
class; another GatewayClass — none of them changes `gen s`. -/
theorem noninterference_foreign_fragment (s : Scenario) :
    (∀ a b x, s.routes = a ++ b → (∀ g, winner s = some g → inert g x) → gen { s with routes := a ++ x :: b } = gen s) ∧
    (∀ a b y, s.gateways = a ++ b → (y.cls == s.cls) = false → gen { s with gateways := a ++ y :: b } = gen s) ∧
    (∀ y g, winner s = some g → olderGw g y = true → gen { s with gateways := y :: s.gateways } = gen s) ∧
    (∀ c : GwClass, (c.name == s.cls) = false → gen { s with classes := c :: s.classes } = gen s) := by
  refine ⟨fun a b x hs hx => gen_insert_route_inert s a b x hs hx, ?_, ?_, ?_⟩
  · intro a b y hs hy
    exact gen_of_winner_eq rfl (winner_insert_foreign_gateway s a b y hs hy)
  · intro y g hw hy
    exact gen_of_winner_eq rfl ((winner_cons_younger_gateway s y g hw hy).trans hw.symm)
  · intro c hc
    exact gen_of_winner_eq rfl (winner_insert_class s c hc)

/-- Non-interference of Gateways, any position: `olderGw` (creationTimestamp, namespace, name) is a strict weak order, the
served Gateway is one no other Gateway of the class is older than, and a Gateway of our class that the served one is
older than — inserted at ANY position of the list, not only at the head — changes neither the served Gateway nor `gen s`. -/
theorem winner_insert_gateway_anywhere (s : Scenario) (a b : List Gateway) (y g : Gateway)
    (hs : s.gateways = a ++ b) (hw : winner s = some g) (hy : olderGw g y = true) :
    NGF.Sort.SWO olderGw ∧ winner { s with gateways := a ++ y :: b } = some g ∧
    gen { s with gateways := a ++ y :: b } = gen s := by
  have h := winner_insert_younger_anywhere s a b y g hs hw hy
  exact ⟨olderGw_swo, h, gen_of_winner_eq rfl (h.trans hw.symm)⟩

/-- the served Gateway is a Gateway of the list that no other one of the list is older than -/
theorem winner_is_oldest {l : List Gateway} {m : Gateway} (h : oldest l = some m) :
    m ∈ l ∧ ∀ x ∈ l, olderGw x m = false := oldest_spec h

/-- which routes are inert, syntactically -/
theorem inert_when_parent_elsewhere {g : Gateway} {x : Route}
    (h : ∀ p ∈ x.parents, (p.ns == g.ns && p.name == g.name) = false ∨
      ∃ sn, p.sectionName = some sn ∧ ∀ l ∈ g.listeners, (sn == l.name) = false) : inert g x :=
  inert_of_not_referring h

theorem inert_when_namespace_not_allowed {g : Gateway} {x : Route} (hns : (x.ns == g.ns) = false)
    (hsame : ∀ l ∈ g.listeners, l.fromAll = false) : inert g x :=
  inert_of_namespace hns hsame

/-- The flagship statement `nginxEvalConf (gen s) q = routeF s q`, proved on three regions: nothing is served; the
port is used by no listener (both refused); and nobody owns the request host on the port — no valid route attached to a
listener of the port has hostnames that meet the listener's at that host (`owned`) — where both sides answer 404. This
last region composes attachment (`attachment_is_intersection`), the generated server list (`hostsOf`) and NGINX's
server selection (`server_select_most_specific`). Kept as the statement for requests `reqOK` does not cover on these
regions; the region "a server is selected" is `route_refines_spec_fragment` below. -/
theorem route_refines_spec_fragment_partial (s : Scenario) (q : Req) :
    (winner s = none → nginxEvalConf (gen s) q = routeF s q) ∧
    (∀ g, winner s = some g → g.listeners.any (·.port == q.port) = false → nginxEvalConf (gen s) q = routeF s q) ∧
    (∀ g, winner s = some g → g.listeners.any (·.port == q.port) = true →
      (NGF.Hostname.isWild q.host = false ∧ q.host ≠ NGF.NginxEval.catchAll) → q.host.length < 100000 →
      (∀ r ∈ s.routes, ∀ rh ∈ r.hostnames, rh ≠ []) →
      ((∀ l ∈ g.listeners, l.host ≠ NGF.NginxEval.catchAll) ∧ ∀ r ∈ s.routes, ∀ rh ∈ r.hostnames, rh ≠ NGF.NginxEval.catchAll) →
      ¬ owned g s.routes q.port q.host →
      nginxEvalConf (gen s) q = routeF s q) :=
  ⟨refines_no_gateway s q, fun g h hp => refines_unused_port s q g h hp,
   fun g hw hport hq hlen hne hcat hun => refines_unowned_host s q g hw hport hq hlen hne hcat hun⟩

/-- Server stage, all inputs (glue (i)+(ii) of the notes): when `n` is the most specific generated server name of port `p`
that stands for the concrete request host — which is what NGINX selects, `server_select_most_specific` — the
specification's pool (covering candidates of maximal `candSpec`) is exactly the set of candidates behind the entries
of server `(p, n)`: an owned host selects the server of its most specific owner, and `specificity` of the
listener/route intersection equals `nameSpec` of the generated name. -/
theorem server_is_most_specific_owner {g : Gateway} {routes : List Route} (ok : ScenOK g routes) {p : Nat} {q n : Str}
    (hq : NGF.NginxEval.isWildName q = false ∧ q ≠ NGF.NginxEval.catchAll) (hn : (p, n) ∈ hostsOf g routes)
    (hcov : nameCovers n q = true)
    (hmax : ∀ m, (p, m) ∈ hostsOf g routes → nameCovers m q = true → nameSpec m ≤ nameSpec n) (c : Cand) :
    c ∈ ((specCands g routes p).filter (candCovers · q)).filter
        (fun c => candSpec c == ((specCands g routes p).filter (candCovers · q)).foldl (fun acc c => max acc (candSpec c)) 0) ↔
    (⟨p, n, c⟩ : XE) ∈ xentries g routes :=
  pool_iff_server_entries ok hq hn hcov hmax c

/-- … and the default server answers only when no candidate stands for the host. -/
theorem default_server_iff_no_candidate {g : Gateway} {routes : List Route} (ok : ScenOK g routes) {p : Nat} {q : Str}
    (hq : NGF.Hostname.isWild q = false) (hnone : ∀ m, (p, m) ∈ hostsOf g routes → nameCovers m q = false) :
    (specCands g routes p).filter (candCovers · q) = [] :=
  no_covering_of_unselected ok hq hnone

/-- Location stage, all inputs (first half of glue (iii)): over the external locations `createLocations` generates for
distinct path rules (`keys`: (exact, path); every path starts with `/`, no PathPrefix value but `/` ends in `/`), NGINX
ends — for every request path starting with `/` — in a location of a path rule that hits the path and that no other
hitting rule outranks (Exact before PathPrefix, then the longer value), or, when NO rule hits, in the default root
location / nowhere (404). Never the 301 auto-redirect. -/
theorem location_picks_best_path_rule {keys : List Key} (ok : KeysOK keys) {q : Str} (hq : q.head? = some '/')
    (tl : NGF.Precedence.GenLoc → NGF.NginxEval.Loc) (hte : ∀ gl, (tl gl).exact = gl.exact)
    (htp : ∀ gl, (tl gl).path = gl.path) :
    (∃ gl ∈ NGF.Precedence.genLocs (rulesOf keys),
      NGF.NginxEval.selectLoc ((NGF.Precedence.genLocs (rulesOf keys)).map tl) q = .loc (tl gl) ∧
      ((∃ k, keys[gl.rule]? = some k ∧ khit k q = true ∧
          ∀ k' ∈ keys, khit k' q = true → (k'.1 = true → k.1 = true) ∧ (k'.1 = k.1 → k'.2.length ≤ k.2.length)) ∨
       (gl.rule = keys.length ∧ ∀ k ∈ keys, khit k q = false))) ∨
    (NGF.NginxEval.selectLoc ((NGF.Precedence.genLocs (rulesOf keys)).map tl) q = .none ∧ ∀ k ∈ keys, khit k q = false) :=
  select_fragment ok hq tl hte htp

/-- a generated location (modifier, path) belongs to exactly one path rule -/
theorem location_determines_path_rule {keys : List Key} (ok : KeysOK keys) {a b : NGF.Precedence.GenLoc}
    (ha : a ∈ NGF.Precedence.genLocs (rulesOf keys)) (hb : b ∈ NGF.Precedence.genLocs (rulesOf keys))
    (he : a.exact = b.exact) (hp : a.path = b.path) : a.rule = b.rule :=
  genLocs_rule_unique ok ha hb he hp

/-- Rule stage, all inputs (second half of glue (iii)): the njs matcher on a generated match decides exactly the
specification's conditions … -/
theorem njs_decides_conditions {m : Pipeline.Match} (hm : matchOK m = true) {q : Req}
    (hq : ∀ h ∈ q.headers, h.2.contains ',' = false) :
    NGF.NginxEval.Njs.testMatch (njsReq q) (njsMatchOf m) = .ok (condsHit m q) :=
  testMatch_eq_condsHit hm hq

/-- … the specification's precedence is a strict weak order that is: path rank, then `higherPriority` of the dataplane
key (what `sortMatchRules` sorts by), then source position … -/
theorem beats_is_path_then_priority_then_position (a b : Cand) :
    NGF.Sort.SWO beats ∧
    beats a b = (if a.m.exact != b.m.exact then a.m.exact
       else if a.m.path.length != b.m.path.length then decide (a.m.path.length > b.m.path.length)
       else (HP a b || (!HP b a && idxLt a b))) :=
  ⟨beats_swo, beats_split a b⟩

/-- … and inside the server NGINX selected — through the `eraseDups` grouping of `serverOf`, the stable sort and the njs
list — NGINX answers 404 exactly when no entry's path hits, and otherwise performs the action of an entry whose path
and conditions hit and that NO other hitting entry of the server `beats`: location selection + njs = `best` of the hit
set within one server. -/
theorem server_internal_pick {g : Gateway} {routes : List Route} (ok : ScenOK g routes) (p : Nat) (n : Str) {q : Req}
    (hq : q.path.head? = some '/') (hqh : ∀ h ∈ q.headers, h.2.contains ',' = false)
    (hsh : (serverOf (entries g routes) p n).locs.all locShadowOK = true) :
    ((∀ y ∈ xmine g routes p n, pathHit y.c.m q.path = false) ∧
      locEval (serverOf (entries g routes) p n) q = .status 404) ∨
    (∃ x ∈ xmine g routes p n, pathHit x.c.m q.path = true ∧ condsHit x.c.m q = true ∧
      locEval (serverOf (entries g routes) p n) q = evalAct q (actOf p x.c.action) ∧
      ∀ y ∈ xmine g routes p n, pathHit y.c.m q.path = true → condsHit y.c.m q = true → beats y.c x.c = false) :=
  server_pick ok p n hq hqh hsh

/-- the stability of `sortMatchRules` is what implements "the first rule / match in the list wins": the first entry, in
the order `upsertRoute` appends them, that satisfies a provenance-blind predicate has the least (rule, match) index
among the entries of its route that satisfy it -/
theorem source_order_breaks_ties {g : Gateway} {routes : List Route}
    (ids : nodup (routes.map fun r => (r.ns, r.name)) = true) {P : XE → Bool} (hP : Blind P) {x y : XE}
    (hx : (xentries g routes).find? P = some x) (hy : y ∈ xentries g routes) (hPy : P y = true)
    (hport : y.port = x.port) (hhost : y.host = x.host) (hns : y.c.ns = x.c.ns) (hname : y.c.name = x.c.name) :
    idxLt y.c x.c = false :=
  first_has_least_index ids hP hx hy hPy hport hhost hns hname

/-- **The end-to-end refinement theorem of the pipeline fragment.** For EVERY scenario of the fragment and EVERY
well-formed request, what NGINX does under the generated configuration is what Gateway API prescribes:
`nginxEvalConf (gen s) q = routeF s q`. Hypotheses (all executable, Model/Pipeline.lean and Model/PipelineHyp.lean):
`inFragment s`; `noShadow (gen s)` (excludes known finding 1, no fallback to a less specific path); `namesPlain s` (no
hostname is literally `~^`; model-only: the real validation rejects it); `routesHaveRules s` (excludes the finding
`C02:route-without-configured-rule-captures-its-hostnames`); `reqOK q` (concrete Host shorter than 100000, path
starting with `/`, no header value with a comma — the last excludes the list-valued-header reading and the finding
`C02:header-match-value-with-comma-never-matches`). -/
theorem route_refines_spec_fragment (s : Scenario) (q : Req)
    (hf : inFragment s = true) (hn : noShadow (gen s) = true)
    (hp : namesPlain s = true) (hr : routesHaveRules s = true) (hq : reqOK q = true) :
    nginxEvalConf (gen s) q = routeF s q :=
  refines_fragment s q hf hn hp hr hq

/-! non-vacuity, by evaluation (`gen` sorts and de-duplicates by well-founded recursion, which `decide` cannot unfold) -/

def exGw : Gateway :=
  { ns := "default".toList, name := "gw".toList, cls := "nginx".toList, age := 1,
    listeners := [⟨"l0".toList, 80, "*.example.com".toList, true⟩, ⟨"l1".toList, 80, [], false⟩] }
def exMatch (p : String) (exact : Bool) (hdr : List (Str × Str)) : Pipeline.Match :=
  { exact := exact, path := p.toList, method := [], headers := hdr, query := [] }
def exRoute : Route :=
  { ns := "default".toList, name := "r".toList, age := 2, parents := [⟨"default".toList, "gw".toList, none⟩],
    hostnames := ["cafe.example.com".toList], valid := true,
    rules := [⟨[exMatch "/coffee" false [("version".toList, "v1".toList)], exMatch "/coffee" false []],
                .forward [⟨"default_svc0_80".toList, 1, true⟩]⟩,
              ⟨[exMatch "/" false []], .redirect 302 (some "https".toList) none none⟩] }
def exForeign : Route := { exRoute with name := "x".toList, parents := [⟨"default".toList, "other-gw".toList, none⟩] }
def exScenario : Scenario :=
  { cls := "nginx".toList, ctlr := "ctl".toList, classes := [⟨"nginx".toList, "ctl".toList⟩],
    gateways := [exGw], routes := [exRoute] }
def exReq (host path : String) (hdr : List (Str × Str)) : Req :=
  { port := 80, host := host.toList, path := path.toList, method := "GET".toList, headers := hdr, query := [] }

#guard inFragment exScenario && noShadow (gen exScenario)
#guard (gen exScenario).servers.length == 1
#guard nginxEvalConf (gen exScenario) (exReq "cafe.example.com" "/coffee/x" [("Version".toList, "v1".toList)])
        == .proxy [("default_svc0_80".toList, 10000)]
#guard nginxEvalConf (gen exScenario) (exReq "cafe.example.com" "/tea" []) == .redirect 302 "https".toList "cafe.example.com".toList 443
#guard [exReq "cafe.example.com" "/coffee" [], exReq "cafe.example.com" "/coffeex" [], exReq "x.example.com" "/" [],
        exReq "cafe.example.com" "/" [], exReq "bar.org" "/coffee" []].all
        fun q => nginxEvalConf (gen exScenario) q == routeF exScenario q
#guard (gen { exScenario with routes := [exForeign, exRoute] }).servers.length == 1

-- the unowned region is inhabited: nobody owns bar.org on port 80 of the example (both sides 404)
#guard nginxEvalConf (gen exScenario) (exReq "bar.org" "/coffee" []) == .status 404

-- the hypotheses of `route_refines_spec_fragment` are satisfiable by a non-trivial state, on every region
#guard refineOK exScenario &&
  [exReq "cafe.example.com" "/coffee/x" [("Version".toList, "v1".toList)], exReq "cafe.example.com" "/coffee" [],
   exReq "cafe.example.com" "/tea" [], exReq "x.example.com" "/" [], exReq "bar.org" "/coffee" []].all reqOK
example : reqOK (exReq "cafe.example.com" "/coffee" [("Version".toList, "v1".toList)]) = true := by decide

/-! Each extra hypothesis is NECESSARY: at the excluded point the two sides differ, with every other hypothesis true. -/

/-- `routesHaveRules`: a valid route WITHOUT rules still gets a server for `cafe.example.com`, which answers 404 where
the specification routes to the `*.example.com` route (reproduced on the real pipeline: corpus/C02/11-…; known finding
`C02:route-without-configured-rule-captures-its-hostnames`) -/
def exNoRules : Scenario :=
  { exScenario with routes :=
      [{ exRoute with name := "norules".toList, rules := [] },
       { exRoute with name := "wild".toList, hostnames := ["*.example.com".toList],
                      rules := [⟨[exMatch "/" false []], .forward [⟨"default_svc0_80".toList, 1, true⟩]⟩] }] }
#guard inFragment exNoRules && noShadow (gen exNoRules) && namesPlain exNoRules && !routesHaveRules exNoRules &&
  reqOK (exReq "cafe.example.com" "/" [])
#guard nginxEvalConf (gen exNoRules) (exReq "cafe.example.com" "/" []) == .status 404
#guard routeF exNoRules (exReq "cafe.example.com" "/" []) == .proxy [("default_svc0_80".toList, 10000)]

/-- `namesPlain`: NGINX reads the server name `~^` as the catch-all regex (model only: `hostOK` lets the name pass, the
real hostname validation does not — `toFragment` puts such a scenario outside the fragment) -/
def exTilde : Scenario :=
  { exScenario with
      gateways := [{ exGw with listeners := [⟨"l1".toList, 80, [], false⟩] }],
      routes := [{ exRoute with hostnames := ["~^".toList],
                                rules := [⟨[exMatch "/" false []], .forward [⟨"default_svc0_80".toList, 1, true⟩]⟩] }] }
#guard inFragment exTilde && noShadow (gen exTilde) && !namesPlain exTilde && routesHaveRules exTilde
#guard nginxEvalConf (gen exTilde) (exReq "foo.com" "/" []) == .proxy [("default_svc0_80".toList, 10000)]
#guard routeF exTilde (exReq "foo.com" "/" []) == .status 404

-- `reqOK` (comma): njs splits the request header value at `,` and matches a piece; `headerHit` compares the line
#guard refineOK exScenario && !reqOK (exReq "cafe.example.com" "/coffee" [("version".toList, "v1,v2".toList)])
#guard nginxEvalConf (gen exScenario) (exReq "cafe.example.com" "/coffee" [("version".toList, "v1,v2".toList)])
        == .proxy [("default_svc0_80".toList, 10000)]
#guard nginxEvalConf (gen exScenario) (exReq "cafe.example.com" "/coffee" [("version".toList, "v1,v2".toList)])
        == routeF exScenario (exReq "cafe.example.com" "/coffee" [("version".toList, "v1,v2".toList)])
-- (in `exScenario` both matches of rule 0 forward to the same backend; with different backends the sides differ:)
def exComma : Scenario :=
  { exScenario with routes :=
      [{ exRoute with rules :=
          [⟨[exMatch "/coffee" false [("version".toList, "v1".toList)]], .forward [⟨"default_a_80".toList, 1, true⟩]⟩,
           ⟨[exMatch "/coffee" false []], .forward [⟨"default_b_80".toList, 1, true⟩]⟩] }] }
#guard refineOK exComma
#guard nginxEvalConf (gen exComma) (exReq "cafe.example.com" "/coffee" [("version".toList, "v1,v2".toList)])
        == .proxy [("default_a_80".toList, 10000)]
#guard routeF exComma (exReq "cafe.example.com" "/coffee" [("version".toList, "v1,v2".toList)])
        == .proxy [("default_b_80".toList, 10000)]

-- `winner_insert_gateway_anywhere` is not vacuous: a younger Gateway of our class, inserted after the served one
def exYoung : Gateway := { exGw with name := "gw-young".toList, age := 7, listeners := [⟨"http".toList, 8080, [], true⟩] }
example : olderGw exGw exYoung = true := by decide
#guard winner exScenario == some exGw && winner { exScenario with gateways := [exGw] ++ exYoung :: [] } == some exGw
#guard (gen { exScenario with gateways := [exGw] ++ exYoung :: [] }).ports == (gen exScenario).ports

example : inert exGw exForeign := inert_when_parent_elsewhere (by decide)

end pipeline

/-! ### HTTPS listeners: the refinement theorem by projection (Model/PipelineTls.genT of the C16 builder, read-only;
Model/PipelineTlsEval.lean: `nginxEvalConfT`, `routeT`, `hostDNS`)

`genT s` projects the cluster state to its valid HTTP / valid HTTPS listeners and reuses `Pipeline.gen` for both; so the
HTTP theorem, applied to `httpsPart s`, does the routing, and what is proved here on top is the TLS front of
servers_template.go: the default SSL server rejects the handshake exactly when no valid HTTPS listener of the port
covers the SNI name, servers are chosen by SNI and by Host, and `if ($ssl_server_name != $host) return 421`. -/
section https
open NGF.Pipeline NGF.PipelineTls

/-- what `validateHostname` (graph/validation.go) accepts is never the regex server name `~^`; hence the fragment with
real hostnames (`inFragmentDNS`) needs no `namesPlain` -/
theorem hostDNS_never_catchAll {h : Str} (hd : hostDNS h = true) : h ≠ NGF.NginxEval.catchAll :=
  hostDNS_ne_catchAll hd

theorem namesPlain_from_hostDNS {s : Scenario} (h : hostsDNS s = true) : namesPlain s = true :=
  namesPlain_of_hostsDNS h

/-- **`route_refines_spec_fragment` without `namesPlain`**: hostnames as the real validator accepts them. -/
theorem route_refines_spec_fragment_dns (s : Scenario) (q : Req)
    (hf : inFragmentDNS s = true) (hn : noShadow (gen s) = true) (hr : routesHaveRules s = true)
    (hq : reqOK q = true) : nginxEvalConf (gen s) q = routeF s q := by
  simp only [inFragmentDNS, Bool.and_eq_true] at hf
  exact refines_fragment s q hf.1 hn (namesPlain_of_hostsDNS hf.2) hr hq

/-- the specification's valid listeners are the generator's: `routeT` is written without `validHttp`/`validHttps`/`genT` -/
theorem spec_valid_listeners_are_the_generators (s : ScenarioT) :
    specScenario true s = httpsPart s ∧ specScenario false s = httpPart s :=
  ⟨specScenario_true s, specScenario_false s⟩

/-- **The end-to-end refinement theorem on HTTP and HTTPS listeners.** For EVERY `ScenarioT` of the fragment and EVERY
well-formed request — plain HTTP, or over TLS with SNI = Host — `nginxEvalConfT (genT s) q = routeT s q`: refused /
400 on a port without valid listener of the protocol, handshake rejected when no valid HTTPS listener of the port covers
the SNI name, else exactly the routing Gateway API prescribes over the valid listeners of the protocol.
`refineOKT s` = `inFragmentT s`, hostnames pass `validateHostname`, `routesHaveRules`, `noShadow` of both projections;
`reqOKT s q` = `reqOK q.req` and, over TLS, `sniServed` (excludes the known finding
`C02:https-sni-covered-by-listener-but-no-server-closed`) and `noRoutelessShadow` (the Listener-Isolation SHOULD: the
404 server of a route-less HTTPS listener; the full oracle accepts both outcomes). -/
theorem route_refines_spec_https (s : ScenarioT) (q : ReqT) (hs : refineOKT s = true) (hq : reqOKT s q = true)
    (hsh : q.tls = true → q.sni = q.req.host) : nginxEvalConfT (genT s) q = routeT s q :=
  refines_https s q hs hq hsh

/-- plain-HTTP requests on `genT`: corollary (`http_part_unchanged` of C16 + the HTTP theorem) -/
theorem route_refines_spec_plain_on_genT (s : ScenarioT) (q : Req) (hs : refineOKT s = true) (hq : reqOK q = true) :
    nginxEvalConfT (genT s) ⟨false, [], q⟩ = routeT s ⟨false, [], q⟩ :=
  refines_https s ⟨false, [], q⟩ hs (by simp [reqOKT, hq]) (by intro h; cases h)

/-- **SNI ≠ Host.** When the SNI name and the Host header name different hosts that both have a generated server on the
port, NGINX answers 421 Misdirected Request — the request is never handed to the backend of the Host's routes (another
tenant's) over a connection authenticated for the SNI name — and the specification says 421 too. -/
theorem sni_host_mismatch_421 (s : ScenarioT) (q : ReqT) (hs : refineOKT s = true) (htls : q.tls = true)
    (hne : q.sni ≠ q.req.host)
    (hsni : NGF.NginxEval.isWildName q.sni = false ∧ q.sni ≠ NGF.NginxEval.catchAll) (hslen : q.sni.length < 100000)
    (hsne : q.sni ≠ [])
    (hhost : NGF.NginxEval.isWildName q.req.host = false ∧ q.req.host ≠ NGF.NginxEval.catchAll)
    (hc1 : ∃ n ∈ sslNames (genT s) q.req.port, nameCovers n q.sni = true)
    (hc2 : ∃ n ∈ sslNames (genT s) q.req.port, nameCovers n q.req.host = true) :
    nginxEvalConfT (genT s) q = .plain (.status 421) ∧ routeT s q = .plain (.status 421) :=
  mismatch_421 s q hs htls hne hsni hslen hsne hhost hc1 hc2

/-- every SSL server of `genT s` presents a certificate, and its name belongs to a valid HTTPS listener covering every
concrete host the name stands for -/
theorem ssl_server_name_has_covering_listener {s : ScenarioT} {gT : GatewayT} (hw : winnerT s = some gT)
    (hs : refineOKT s = true) {p : Nat} {n q : Str} (hq : NGF.Hostname.isWild q = false)
    (hn : n ∈ sslNames (genT s) p) (hc : nameCovers n q = true) :
    ∃ l ∈ gT.listeners, validHttps s gT l = true ∧ l.base.port = p ∧ Pipeline.covers l.base.host q = true :=
  ssl_name_listener hw (scenOK_https hw (refineOKT_unpack hs)) (listeners_not_catchAll hw (refineOKT_unpack hs)) hq hn hc

/-! non-vacuity and necessity, by evaluation -/

def tS (x : String) : Str := x.toList
def tSecrets : List Tls.SecretObj := [⟨tS "default", tS "tls-a", true, true, tS "cert-a", tS "key-a"⟩, ⟨tS "default", tS "tls-b", true, true, tS "cert-b", tS "key-b"⟩]
def tL (name : String) (port : Nat) (host : String) (https : Bool) (cert : Option String) : ListenerT :=
  { base := ⟨tS name, port, tS host, true⟩, https := https, cert := cert.map fun c => (tS "default", tS c) }
def tRoute (name : String) (sect : Option String) (hosts : List String) (path backend : String) : Route :=
  { ns := tS "default", name := tS name, age := 3, parents := [⟨tS "default", tS "gw", sect.map tS⟩],
    hostnames := hosts.map tS, valid := true,
    rules := [⟨[exMatch path false []], .forward [⟨tS backend, 1, true⟩]⟩] }
def tScen (ls : List ListenerT) (rs : List Route) : ScenarioT :=
  { cls := tS "nginx", ctlr := tS "ctl", classes := [⟨tS "nginx", tS "ctl"⟩],
    gateways := [{ ns := tS "default", name := tS "gw", cls := tS "nginx", age := 2, listeners := ls }],
    routes := rs, secrets := tSecrets, grants := [] }
def tReq (tls : Bool) (port : Nat) (sni host path : String) : ReqT :=
  { tls := tls, sni := tS sni, req := { port := port, host := tS host, path := tS path, method := tS "GET", headers := [], query := [] } }

/-- an HTTPS wildcard listener and an HTTP listener, one route on both -/
def tEx : ScenarioT :=
  tScen [tL "https" 443 "*.example.com" true (some "tls-a"), tL "http" 80 "" false none]
    [tRoute "r" none ["cafe.example.com"] "/" "default_svc0_80"]

#guard refineOKT tEx
#guard [tReq true 443 "cafe.example.com" "cafe.example.com" "/x", tReq false 80 "" "cafe.example.com" "/x",
        tReq true 443 "" "cafe.example.com" "/", tReq true 80 "cafe.example.com" "cafe.example.com" "/",
        tReq false 443 "" "cafe.example.com" "/", tReq true 8443 "a.b" "a.b" "/"].all fun q =>
      reqOKT tEx q && nginxEvalConfT (genT tEx) q == routeT tEx q
#guard nginxEvalConfT (genT tEx) (tReq true 443 "cafe.example.com" "cafe.example.com" "/x")
        == .plain (.proxy [(tS "default_svc0_80", 10000)])
#guard nginxEvalConfT (genT tEx) (tReq true 443 "" "cafe.example.com" "/") == .closed
#guard nginxEvalConfT (genT tEx) (tReq true 80 "cafe.example.com" "cafe.example.com" "/") == .plain (.status 400)

-- `sniServed` is NECESSARY (known finding 7): the listener covers foo.example.com, no server does — handshake rejected
-- where the specification answers 404
#guard refineOKT tEx && !sniServed tEx (tReq true 443 "foo.example.com" "foo.example.com" "/")
#guard nginxEvalConfT (genT tEx) (tReq true 443 "foo.example.com" "foo.example.com" "/") == .closed
#guard routeT tEx (tReq true 443 "foo.example.com" "foo.example.com" "/") == .plain (.status 404)

/-- a route-less HTTPS listener `cafe.example.com` beside a routed wildcard listener -/
def tIso : ScenarioT :=
  tScen [tL "cafe" 443 "cafe.example.com" true (some "tls-b"), tL "wild" 443 "*.example.com" true (some "tls-a")]
    [tRoute "r" (some "wild") [] "/" "default_svc0_80"]

-- `noRoutelessShadow` is NECESSARY: NGF's 404 server of the route-less listener isolates its hostname (Listener
-- Isolation, a SHOULD), the non-isolated reading `routeT` routes through the wildcard listener
#guard refineOKT tIso && sniServed tIso (tReq true 443 "cafe.example.com" "cafe.example.com" "/") &&
  !noRoutelessShadow tIso (tReq true 443 "cafe.example.com" "cafe.example.com" "/")
#guard nginxEvalConfT (genT tIso) (tReq true 443 "cafe.example.com" "cafe.example.com" "/") == .plain (.status 404)
#guard routeT tIso (tReq true 443 "cafe.example.com" "cafe.example.com" "/") == .plain (.proxy [(tS "default_svc0_80", 10000)])
#guard reqOKT tIso (tReq true 443 "x.example.com" "x.example.com" "/") &&
  nginxEvalConfT (genT tIso) (tReq true 443 "x.example.com" "x.example.com" "/") == routeT tIso (tReq true 443 "x.example.com" "x.example.com" "/")

-- `sni_host_mismatch_421` is not vacuous: two tenants on one port
def tTwo : ScenarioT :=
  tScen [tL "a" 443 "a.example.com" true (some "tls-a"), tL "b" 443 "b.example.com" true (some "tls-b")]
    [tRoute "ra" (some "a") [] "/" "default_a_80", tRoute "rb" (some "b") [] "/" "default_b_80"]
#guard refineOKT tTwo
#guard nginxEvalConfT (genT tTwo) (tReq true 443 "a.example.com" "b.example.com" "/") == .plain (.status 421)
#guard routeT tTwo (tReq true 443 "a.example.com" "b.example.com" "/") == .plain (.status 421)
#guard nginxEvalConfT (genT tTwo) (tReq true 443 "b.example.com" "b.example.com" "/") == .plain (.proxy [(tS "default_b_80", 10000)])

example : hostDNS "*.example.com".toList = true ∧ hostDNS "cafe.example.com".toList = true ∧ hostDNS "~^".toList = false ∧
    hostDNS "-x.example.com".toList = false ∧ hostDNS "UPPER.example.com".toList = false := by decide

end https

/-! ### regenerated facts: the source text the models mirror (NGF/Generated/RoutingFacts.lean, rewritten from the
current /repo on every run). A changed statement breaks the expectation lemma next to the model it pins. -/
section facts
open NGF.Generated.Routing

/-- `higherPriority` is the chain Model/Precedence.higherPriority mirrors -/
theorem facts_higherPriority : higherPriorityStmts =
  ["if rule1.Match.Method != nil && rule2.Match.Method == nil { return true }",
   "if rule2.Match.Method != nil && rule1.Match.Method == nil { return false }",
   "l1 := len(rule1.Match.Headers)",
   "l2 := len(rule2.Match.Headers)",
   "if l1 != l2 { return l1 > l2 }",
   "l1 = len(rule1.Match.QueryParams)",
   "l2 = len(rule2.Match.QueryParams)",
   "if l1 != l2 { return l1 > l2 }",
   "return ngfsort.LessObjectMeta(rule1.Source, rule2.Source)"] := rfl

/-- `sortMatchRules` uses the STABLE sort (`sort_is_precedence` models a stable sort) -/
theorem facts_sort_is_stable : sortMatchRulesSortFn = "sort.SliceStable" := rfl

theorem facts_lessObjectMeta : lessObjectMetaStmts =
  ["if meta1.CreationTimestamp.Equal(&meta2.CreationTimestamp) { if meta1.Namespace == meta2.Namespace { return meta1.Name < meta2.Name } return meta1.Namespace < meta2.Namespace }",
   "return meta1.CreationTimestamp.Before(&meta2.CreationTimestamp)"] := rfl

/-- `match` (Model/Hostname.hmatch, wildcardMatch) -/
theorem facts_match : matchStmts =
  ["if listenerHost == \"\" { return true }",
   "if routeHost == listenerHost { return true }",
   "wildcardMatch := func(host1, host2 string) bool { return strings.HasPrefix(host1, \"*.\") && strings.HasSuffix(host2, strings.TrimPrefix(host1, \"*\")) }",
   "if wildcardMatch(listenerHost, routeHost) { return true }",
   "return wildcardMatch(routeHost, listenerHost)"] := rfl

/-- `GetMoreSpecificHostname` (Model/Hostname.moreSpecific) -/
theorem facts_getMoreSpecificHostname : getMoreSpecificHostnameStmts =
  ["if hostname1 == hostname2 { return hostname1 }",
   "if hostname1 == \"\" { return hostname2 }",
   "if hostname2 == \"\" { return hostname1 }",
   "if strings.HasPrefix(hostname1, \"*.\") { if strings.HasPrefix(hostname2, \"*.\") { subdomains1 := strings.Split(hostname1, \".\") subdomains2 := strings.Split(hostname2, \".\") if len(subdomains1) > len(subdomains2) { return hostname1 } return hostname2 } return hostname2 }",
   "if strings.HasPrefix(hostname2, \"*.\") { return hostname1 }",
   "return \"\""] := rfl

/-- `findAcceptedHostnames` (Model/Hostname.accepted) -/
theorem facts_findAcceptedHostnames : findAcceptedHostnamesStmts =
  ["hostname := getHostname(listenerHostname)",
   "if len(routeHostnames) == 0 { if hostname == \"\" { return []string{wildcardHostname} } return []string{hostname} }",
   "var result []string",
   "for _, h := range routeHostnames { routeHost := string(h) if match(hostname, routeHost) { result = append(result, GetMoreSpecificHostname(hostname, routeHost)) } }",
   "return result"] := rfl

/-- `validateHostname` (graph/validation.go), what `PipelineTls.hostDNS` mirrors: non-empty; `*.`-prefixed names through
IsWildcardDNS1123Subdomain, all others through IsDNS1123Subdomain; and it is what both the listener hostname and every
route hostname go through -/
theorem facts_validateHostname :
    validateHostnameStmts =
      ["if hostname == \"\" { return errors.New(\"cannot be empty string\") }",
       "if strings.HasPrefix(hostname, \"*.\") { msgs := validation.IsWildcardDNS1123Subdomain(hostname) if len(msgs) > 0 { combined := strings.Join(msgs, \",\") return errors.New(combined) } return nil }",
       "msgs := validation.IsDNS1123Subdomain(hostname)",
       "if len(msgs) > 0 { combined := strings.Join(msgs, \",\") return errors.New(combined) }",
       "return nil"] ∧
    validateHostnamesStmts[1]? = some "for i := range hostnames { if err := validateHostname(string(hostnames[i])); err != nil { allErrs = append(allErrs, field.Invalid(path.Index(i), hostnames[i], err.Error())) continue } }" ∧
    validateListenerHostnameStmts.take 4 =
      ["if listener.Hostname == nil { return nil, true }", "h := string(*listener.Hostname)",
       "if h == \"\" { return nil, true }",
       "if err := validateHostname(h); err != nil { path := field.NewPath(\"hostname\") valErr := field.Invalid(path, listener.Hostname, err.Error()) return staticConds.NewListenerUnsupportedValue(valErr.Error()), false }"] := by
  refine ⟨rfl, rfl, rfl⟩

/-- the catch-all server name is the one the models use -/
theorem facts_wildcardHostname :
    graphWildcardHostname = String.ofList NGF.Hostname.wildcardHostname ∧
    dataplaneWildcardHostname = String.ofList NGF.NginxEval.catchAll := by decide

/-- attachment reads the parentRef's sectionName and the listener's allowedRoutes.namespaces; a route whose Namespace
object is unknown is not allowed by a Selector listener (commit d734bd5; the oracle's `nsAllowed` says the same) -/
theorem facts_attachment :
    validateParentRefSectionArg = "getSectionName(ref.SectionName)" ∧
    isRouteNamespaceAllowedStmts =
      ["if listener.Source.AllowedRoutes != nil && listener.Source.AllowedRoutes.Namespaces != nil { switch *listener.Source.AllowedRoutes.Namespaces.From { case v1.NamespacesFromAll: return true case v1.NamespacesFromSame: return routeNS == gwNS case v1.NamespacesFromSelector: if listener.AllowedRouteLabelSelector == nil { return false } ns, exists := namespaces[types.NamespacedName{Name: routeNS}] if !exists { return false } return listener.AllowedRouteLabelSelector.Matches(labels.Set(ns.Labels)) } }",
       "return true"] ∧
    findAttachableListenersStmts =
      ["if sectionName != \"\" { for _, l := range listeners { if l.Name == sectionName { if l.Attachable { return []*Listener{l}, true } return nil, true } } return nil, false }",
       "attachableListeners := make([]*Listener, 0, len(listeners))",
       "for _, l := range listeners { if !l.Attachable { continue } attachableListeners = append(attachableListeners, l) }",
       "return attachableListeners, true"] :=
  ⟨rfl, rfl, rfl⟩

/-- `ConvertGRPCMatches` keeps the path value and type per match (the repair of DESIGN §7 row 3) -/
theorem facts_grpc_convert_per_iteration : grpcPathVarsPerIteration = true := rfl

/-- the location scheme Model/Precedence.genLocs mirrors -/
theorem facts_location_scheme :
    exactPathFmt = "= %s" ∧ internalLocationFmt = "%s-rule%d-route%d" ∧ internalRoutePathPrefix = "/_ngf-internal" ∧
    isNonSlashedPrefixPathStmts = ["return pathType == dataplane.PathTypePrefix && !strings.HasSuffix(path, \"/\")"] ∧
    createPathStmts = ["switch rule.PathType { case dataplane.PathTypeExact: return exactPath(rule.Path) default: return rule.Path }"] :=
  ⟨rfl, rfl, rfl, rfl, rfl⟩

theorem facts_initializeExternalLocations : initializeExternalLocationsStmts =
  ["extLocations := make([]http.Location, 0, 2)",
   "locType := getLocationTypeForPathRule(rule)",
   "externalLocPath := createPath(rule)",
   "if isNonSlashedPrefixPath(rule.PathType, externalLocPath) { _, exactPathExists := pathsAndTypes[rule.Path][dataplane.PathTypeExact] var trailingSlashPrefixPathExists bool if pathTypes, exists := pathsAndTypes[rule.Path+\"/\"]; exists { _, trailingSlashPrefixPathExists = pathTypes[dataplane.PathTypePrefix] } if exactPathExists && trailingSlashPrefixPathExists { return []http.Location{} } if !trailingSlashPrefixPathExists { externalLocTrailing := http.Location{ Path: externalLocPath + \"/\", Type: locType, } extLocations = append(extLocations, externalLocTrailing) } if !exactPathExists { externalLocExact := http.Location{ Path: exactPath(externalLocPath), Type: locType, } extLocations = append(extLocations, externalLocExact) } } else { externalLoc := http.Location{ Path: externalLocPath, Type: locType, } extLocations = []http.Location{externalLoc} }",
   "return extLocations"] := rfl

/-- when a path rule goes through the njs matcher, and which upstream a backend group names -/
theorem facts_internal_locations_and_groups :
    needsInternalLocationsStmts = ["if len(rule.MatchRules) > 1 { return true }",
      "return len(rule.MatchRules) == 1 && !isPathOnlyMatch(rule.MatchRules[0].Match)"] ∧
    isPathOnlyMatchStmts = ["return match.Method == nil && len(match.Headers) == 0 && len(match.QueryParams) == 0"] ∧
    backendGroupNameStmts = ["switch len(group.Backends) { case 0: return invalidBackendRef case 1: b := group.Backends[0] if b.Weight == 0 || !b.Valid { return invalidBackendRef } return b.UpstreamName default: return group.Name() }"] ∧
    invalidBackendRef = "invalid-backend-ref" ∧ backendGroupNameFmt = "group_%s__%s_rule%d" ∧
    servicePortReferenceFmt = "%s_%s_%d" ∧ headerMatchSeparator = ":" :=
  ⟨rfl, rfl, rfl, rfl, rfl, rfl, rfl⟩

/-- the gRPC flag handed to internal locations: the server-accumulated `grpc` (known finding, DESIGN §7 row 22) or,
once repaired, the rule's own flag -/
theorem facts_internal_location_grpc_arg :
    initializeInternalLocationArgs.length = 4 ∧
    (initializeInternalLocationArgs.getLast? = some "grpc" ∨ initializeInternalLocationArgs.getLast? = some "rule.GRPC") := by
  decide

/-- httpmatches.js: the first satisfied match of the list wins; any, then method, headers, params; header values are
compared against the comma-separated request values; the first value of a repeated query parameter counts -/
theorem facts_njs :
    njsTestMatchOrder = ["match.any", "match.method", "match.headers", "match.params"] ∧
    njsFindWinningIsFirstMatch = true ∧ njsHeaderSplitColon = true ∧ njsHeaderValuesSplitComma = true ∧
    njsParamsFirstValue = true ∧ njsParamsFirstEquals = true := by
  decide

end facts

end NGF.Props.C02
