/-
C01 — relevance and watch predicates of the dependent kinds: soundness THEOREMS for the footprint model
(`NGF.Model.Footprint`: what `BuildGraph` reads of Services, EndpointSlices, Namespaces, Secrets, ConfigMaps,
NginxProxies and NGF policies, and which objects `Graph.IsReferenced` / `IsNGFPolicyRelevant` declare referenced), instantiated into `converges_of_sound`.
The build is the most informative one that respects the reading discipline of the Go code (it exposes, per key,
exactly what is read); relevance is `isRef(new) || isRef(stored)` against the LATEST graph — no oracle bit.
-/
import NGF.Props.C01
import NGF.Proofs.Footprint
import NGF.Generated.StoreFacts

namespace NGF.Footprint
open NGF.Store

variable {Core ObjK View : Type}

abbrev Hist (Core ObjK : Type) := List (Step FK NN (Sum Core ObjK))

/-- Frame theorem: a kind that is read only where it is referenced, with a watch predicate that filters only
invisible updates, converges for every history. -/
theorem converges_of_frame (F : Frame Core ObjK View) (ok : FrameOK F (fun _ => true) (fun _ _ => true))
    (w₀ : Cl Core ObjK) (hist : Hist Core ObjK) :
    (run ops (build F) (rel F) (watch F) (start (build F) w₀) (hist ++ [.cut])).applied
      = fresh (build F) (finalWorld ops w₀ hist) := by
  have hs := frame_sound F _ _ ok
  have ha : ∀ (ss : Hist Core ObjK) (w : Cl Core ObjK),
      Admissible ops (adm (fun _ => true) (fun _ _ => true)) w ss := by
    intro ss
    induction ss with
    | nil => intro _; trivial
    | cons s ss ih =>
      intro w
      cases s with
      | mutate e => exact ⟨adm_true w e, ih _⟩
      | cut => exact ih w
      | restart => exact ih w
  exact converges_of_sound_partial ops (build F) (rel F) (watch F) (R F) _ hs w₀ hist (ha hist w₀)

/-- `rel_sound_<Kind>` in its general form: if `IsReferenced` is false for the stored and for the new object, the
build of the store after the event equals the build before. -/
theorem rel_sound_of_frame (F : Frame Core ObjK View) (admCore admU) (ok : FrameOK F admCore admU)
    (s : Cl Core ObjK) (e : FEvent Core ObjK) (ha : adm admCore admU s e = true) (hw : watch F s e = true)
    (hv : verdict ops (rel F) (some (build F s)) s e = false) :
    build F (storeAfter ops s e) = build F s :=
  (frame_sound F admCore admU ok).rel_sound s s e (R_refl F s) ha hw hv

/-! ### Services -/

/-- Current code, `_partial`: convergence for every history that stays outside the two excluded regions
(`svcAdmCore`: every Service looked up by a route of the graph is in ReferencedServices, i.e. no valid route that
belongs only to an ignored Gateway names a Service of its own; `svcAdmU`: no update that the watch predicate
filters although it changes port names, port order or ipFamilies). -/
theorem converges_Service_partial (w₀ : Cl SvcCore Svc) (hist : Hist SvcCore Svc)
    (ha : Admissible ops (adm svcAdmCore svcAdmU) w₀ hist) :
    (run ops (build svcFrame) (rel svcFrame) (watch svcFrame) (start (build svcFrame) w₀) (hist ++ [.cut])).applied
      = fresh (build svcFrame) (finalWorld ops w₀ hist) :=
  converges_of_sound_partial ops _ _ _ (R svcFrame) _ (frame_sound svcFrame _ _ svc_ok) w₀ hist ha

/-- `rel_sound_Service` (current code): an event of a Service outside ReferencedServices of the latest graph does
not change the build, provided every Service the graph looks up is in ReferencedServices. -/
theorem rel_sound_Service (s : Cl SvcCore Svc) (e : FEvent SvcCore Svc)
    (ha : adm svcAdmCore svcAdmU s e = true) (hw : watch svcFrame s e = true)
    (hv : verdict ops (rel svcFrame) (some (build svcFrame s)) s e = false) :
    build svcFrame (storeAfter ops s e) = build svcFrame s :=
  rel_sound_of_frame svcFrame _ _ svc_ok s e ha hw hv

/-- Repaired variant (candidate diffs 2 and 3 of notes/C01.md): convergence for EVERY history. -/
theorem converges_Service_repaired (w₀ : Cl SvcCore Svc) (hist : Hist SvcCore Svc) :
    (run ops (build svcFrameR) (rel svcFrameR) (watch svcFrameR) (start (build svcFrameR) w₀) (hist ++ [.cut])).applied
      = fresh (build svcFrameR) (finalWorld ops w₀ hist) :=
  converges_of_frame svcFrameR svc_ok_repaired w₀ hist

def gwOld : NN := "default/gw-old"
def svc1 : NN := "default/svc1"
def aSvc : Svc := { ports := [⟨80, "p80", "8080"⟩], ipFamilies := ["IPv4"] }

/-- the graph of known finding `C01:service-dropped:route-of-ignored-gateway`: the winning Gateway has no route, a
valid route of the ignored Gateway gw0 names svc1 -/
def ignoredGwCore : SvcCore :=
  { winner := some gwOld, routes := [{ valid := true, parents := ["default/gw0"], backends := [svc1] }] }

/-- Witness 1 (current code): `createBackendRef` looks svc1 up, `buildReferencedServices` does not list it: its
creation is dropped, the long-lived controller keeps "not found", a fresh one sees the Service. -/
theorem service_of_ignored_gateway_route_diverges :
    let w₀ : Cl SvcCore Svc := { core := ignoredGwCore, objs := fun _ => none }
    let σ := run ops (build svcFrame) (rel svcFrame) (watch svcFrame) (start (build svcFrame) w₀)
      [.mutate ⟨.obj, svc1, some (.inr aSvc), false⟩, .cut]
    svcAdmCore ignoredGwCore = false ∧
    (σ.applied.map fun g => g.seen svc1) = some none ∧
    ((fresh (build svcFrame) σ.world).map fun g => g.seen svc1) = some (some aSvc) := by
  decide

def refCore : SvcCore :=
  { winner := some gwOld, routes := [{ valid := true, parents := [gwOld], backends := [svc1] }] }

/-- Witness 2 (current code): renaming a port keeps the (port,targetPort) set: filtered; the name is read. -/
theorem service_port_rename_diverges :
    let renamed : Svc := { aSvc with ports := [⟨80, "web", "8080"⟩] }
    let w₀ : Cl SvcCore Svc := { core := refCore, objs := upd (fun _ => none) svc1 (some aSvc) }
    let σ := run ops (build svcFrame) (rel svcFrame) (watch svcFrame) (start (build svcFrame) w₀)
      [.mutate ⟨.obj, svc1, some (.inr renamed), false⟩, .cut]
    watchSvc aSvc renamed = false ∧
    (σ.applied.map fun g => g.seen svc1) = some (some aSvc) ∧
    ((fresh (build svcFrame) σ.world).map fun g => g.seen svc1) = some (some renamed) := by
  decide

/-- Witness 3 (current code): ipFamilies. -/
theorem service_ipfamilies_diverges :
    let v6 : Svc := { aSvc with ipFamilies := ["IPv6"] }
    let w₀ : Cl SvcCore Svc := { core := refCore, objs := upd (fun _ => none) svc1 (some aSvc) }
    let σ := run ops (build svcFrame) (rel svcFrame) (watch svcFrame) (start (build svcFrame) w₀)
      [.mutate ⟨.obj, svc1, some (.inr v6), false⟩, .cut]
    watchSvc aSvc v6 = false ∧
    (σ.applied.map fun g => g.seen svc1) ≠ ((fresh (build svcFrame) σ.world).map fun g => g.seen svc1) := by
  decide

/-- Witness 4 (current code, and the set-based repair): two entries with the same port number (53/TCP, 53/UDP)
swap places — same pair set, but `getServicePort` now returns the other entry. -/
theorem service_port_order_diverges :
    let a : Svc := { ports := [⟨53, "dns-tcp", "8053"⟩, ⟨53, "dns-udp", "9053"⟩], ipFamilies := [] }
    let b : Svc := { ports := [⟨53, "dns-udp", "9053"⟩, ⟨53, "dns-tcp", "8053"⟩], ipFamilies := [] }
    watchSvc a b = false ∧ a.ports.head? ≠ b.ports.head? ∧ watchSvcR a b = true := by
  decide

/-- Non-vacuity of `converges_Service_partial`: an admissible history with a relevant, a dropped and a filtered
(invisible) mutation and a change of the core. -/
example :
    let w₀ : Cl SvcCore Svc := { core := refCore, objs := fun _ => none }
    let hist : Hist SvcCore Svc :=
      [.mutate ⟨.obj, svc1, some (.inr aSvc), false⟩,                      -- referenced: relevant
       .mutate ⟨.obj, "default/other", some (.inr aSvc), false⟩, .cut,      -- unreferenced: dropped
       .mutate ⟨.obj, svc1, some (.inr aSvc), false⟩,                      -- no-op update: filtered
       .mutate ⟨.core, "", some (.inl { refCore with routes := [] }), false⟩, .cut]
    Admissible ops (adm svcAdmCore svcAdmU) w₀ hist := by
  intro w₀ hist
  simp only [hist, Admissible]
  decide

/-! ### EndpointSlices, Namespaces, Secrets, ConfigMaps: full strength for the code in the tree -/

/-- EndpointSlices (after ecaa5d2: judged by the stored and the new owner). -/
theorem converges_EndpointSlice (w₀ : Cl SvcCore SliceM) (hist : Hist SvcCore SliceM) :
    (run ops (build sliceFrame) (rel sliceFrame) (watch sliceFrame) (start (build sliceFrame) w₀) (hist ++ [.cut])).applied
      = fresh (build sliceFrame) (finalWorld ops w₀ hist) :=
  converges_of_frame sliceFrame slice_ok w₀ hist

theorem rel_sound_EndpointSlice (s : Cl SvcCore SliceM) (e : FEvent SvcCore SliceM)
    (hv : verdict ops (rel sliceFrame) (some (build sliceFrame s)) s e = false) :
    build sliceFrame (storeAfter ops s e) = build sliceFrame s := by
  exact rel_sound_of_frame sliceFrame _ _ slice_ok s e (adm_true s e) (watch_true sliceFrame (fun _ _ => rfl) s e) hv

/-- Namespaces: `isNamespaceReferenced` of the stored or the new labels (this subsumes the `existed` check). -/
theorem converges_Namespace (w₀ : Cl NsCore Labels) (hist : Hist NsCore Labels) :
    (run ops (build nsFrame) (rel nsFrame) (watch nsFrame) (start (build nsFrame) w₀) (hist ++ [.cut])).applied
      = fresh (build nsFrame) (finalWorld ops w₀ hist) :=
  converges_of_frame nsFrame ns_ok w₀ hist

/-- Secrets: referenced by the names the listeners' certificateRefs resolve. -/
theorem converges_Secret (w₀ : Cl SecCore Nat) (hist : Hist SecCore Nat) :
    (run ops (build secretFrame) (rel secretFrame) (watch secretFrame) (start (build secretFrame) w₀) (hist ++ [.cut])).applied
      = fresh (build secretFrame) (finalWorld ops w₀ hist) :=
  converges_of_frame secretFrame (byName_ok _) w₀ hist

/-- ConfigMaps: referenced by the CA certificate refs of the BackendTLSPolicies. -/
theorem converges_ConfigMap (w₀ : Cl CmCore Nat) (hist : Hist CmCore Nat) :
    (run ops (build configMapFrame) (rel configMapFrame) (watch configMapFrame) (start (build configMapFrame) w₀)
      (hist ++ [.cut])).applied
      = fresh (build configMapFrame) (finalWorld ops w₀ hist) :=
  converges_of_frame configMapFrame (byName_ok _) w₀ hist

/-- Non-vacuity for the slice instance: a slice moves from a referenced to an unreferenced Service (the pre-fix
witness): with the stored object judged too, the applied output follows. -/
example :
    let w₀ : Cl SvcCore SliceM := { core := refCore, objs := upd (fun _ => none) "default/s0" (some ⟨svc1, 55⟩) }
    let σ := run ops (build sliceFrame) (rel sliceFrame) (watch sliceFrame) (start (build sliceFrame) w₀)
      [.mutate ⟨.obj, "default/s0", some (.inr ⟨"default/svc9", 55⟩), false⟩, .cut,
       .mutate ⟨.obj, "default/s1", some (.inr ⟨svc1, 56⟩), false⟩, .cut,
       .mutate ⟨.obj, "default/s1", none, false⟩, .cut]
    (σ.applied.map fun g => (g.seen "default/s0", g.seen "default/s1")) = some (none, none) := by
  decide

/-! ### `rel_sound_<Kind>` for the remaining kinds with a relevance predicate, each with the witness that refutes the
natural weakened variant -/

/-- **Namespace** (`isNamespaceReferenced` over ALL listeners that have a selector — valid or not — `|| existed`): a
Namespace event judged irrelevant leaves the build unchanged. -/
theorem rel_sound_Namespace (s : Cl NsCore Labels) (e : FEvent NsCore Labels) (hw : watch nsFrame s e = true)
    (hv : verdict ops (rel nsFrame) (some (build nsFrame s)) s e = false) :
    build nsFrame (storeAfter ops s e) = build nsFrame s :=
  rel_sound_of_frame nsFrame _ _ ns_ok s e (adm_true s e) hw hv

/-- Weakened variant REFUTED (pre-image of seeded change C01-r3m1: `isNamespaceReferenced` skips invalid listeners):
the only selector listener is invalid but attachable; the Namespace loses the label: judged irrelevant, the applied
output keeps "selector matches", a fresh controller says it does not. The tree's predicate rebuilds. -/
theorem namespace_invalid_listener_diverges :
    let core : NsCore := { listeners := [{ valid := false, sel := [("team", "dev")] }] }
    let w₀ : Cl NsCore Labels := { core := core, objs := upd (fun _ => none) "team-a" (some [("team", "dev")]) }
    let hist : Hist NsCore Labels := [.mutate ⟨.obj, "team-a", some (.inr []), false⟩, .cut]
    let bad := run ops (build nsFrameValidOnly) (rel nsFrameValidOnly) (watch nsFrameValidOnly)
      (start (build nsFrameValidOnly) w₀) hist
    let good := run ops (build nsFrame) (rel nsFrame) (watch nsFrame) (start (build nsFrame) w₀) hist
    nsReferencedValidOnly core [("team", "dev")] = false ∧ nsReferenced core [("team", "dev")] = true ∧
    (bad.applied.map fun g => g.seen "team-a") = some (some [true]) ∧
    ((fresh (build nsFrameValidOnly) bad.world).map fun g => g.seen "team-a") = some none ∧
    (good.applied.map fun g => g.seen "team-a") = some none := by
  decide

/-- **Secret** (`ReferencedSecrets` = every name handed to `secretResolver.resolve`, found or not). -/
theorem rel_sound_Secret (s : Cl SecCore Nat) (e : FEvent SecCore Nat)
    (hv : verdict ops (rel secretFrame) (some (build secretFrame s)) s e = false) :
    build secretFrame (storeAfter ops s e) = build secretFrame s :=
  rel_sound_of_frame secretFrame _ _ (byName_ok _) s e (adm_true s e) (watch_true secretFrame (fun _ _ => rfl) s e) hv

/-- Weakened variant REFUTED (a resolver that records only the Secrets it found): the listener's Secret is missing when
the graph is built, then it is created: dropped, the listener stays without certificate. -/
theorem secret_missing_then_created_diverges :
    let core : SecCore := { listeners := [{ protocol := "HTTPS", certRef := "default/tls-a", allowed := true }] }
    let F := byNameForgetMissing secretCandidates
    let w₀ : Cl SecCore Nat := { core := core, objs := fun _ => none }
    let hist : Hist SecCore Nat := [.mutate ⟨.obj, "default/tls-a", some (.inr 1), false⟩, .cut]
    let bad := run ops (build F) (rel F) (watch F) (start (build F) w₀) hist
    let good := run ops (build secretFrame) (rel secretFrame) (watch secretFrame) (start (build secretFrame) w₀) hist
    (bad.applied.map fun g => g.seen "default/tls-a") = some none ∧
    ((fresh (build F) bad.world).map fun g => g.seen "default/tls-a") = some (some 1) ∧
    (good.applied.map fun g => g.seen "default/tls-a") = some (some 1) := by
  decide

/-- **ConfigMap** (`ReferencedCaCertConfigMaps` = every name handed to `configMapResolver.resolve`, found or not). -/
theorem rel_sound_ConfigMap (s : Cl CmCore Nat) (e : FEvent CmCore Nat)
    (hv : verdict ops (rel configMapFrame) (some (build configMapFrame s)) s e = false) :
    build configMapFrame (storeAfter ops s e) = build configMapFrame s :=
  rel_sound_of_frame configMapFrame _ _ (byName_ok _) s e (adm_true s e)
    (watch_true configMapFrame (fun _ _ => rfl) s e) hv

/-- Weakened variant REFUTED (pre-image of seeded change C01-r3m2: `resolve` returns before recording a missing
ConfigMap): the BackendTLSPolicy's CA ConfigMap is created after the graph was built without it: dropped. -/
theorem configmap_missing_then_created_diverges :
    let core : CmCore := { hasGateway := true, btps := [{ ns := "default", nrefs := 1, wellKnown := false,
                                                          kind := "ConfigMap", group := "", name := "ca" }] }
    let F := byNameForgetMissing referencedConfigMaps
    let w₀ : Cl CmCore Nat := { core := core, objs := fun _ => none }
    let hist : Hist CmCore Nat := [.mutate ⟨.obj, "default/ca", some (.inr 7), false⟩, .cut]
    let bad := run ops (build F) (rel F) (watch F) (start (build F) w₀) hist
    let good := run ops (build configMapFrame) (rel configMapFrame) (watch configMapFrame)
      (start (build configMapFrame) w₀) hist
    (bad.applied.map fun g => g.seen "default/ca") = some none ∧
    ((fresh (build F) bad.world).map fun g => g.seen "default/ca") = some (some 7) ∧
    (good.applied.map fun g => g.seen "default/ca") = some (some 7) := by
  decide

/-- **NginxProxy** (`isNginxProxyReferenced`: named by the parametersRef of the GatewayClass, group and kind checked). -/
theorem converges_NginxProxy (w₀ : Cl NpCore Nat) (hist : Hist NpCore Nat) :
    (run ops (build nginxProxyFrame) (rel nginxProxyFrame) (watch nginxProxyFrame) (start (build nginxProxyFrame) w₀)
      (hist ++ [.cut])).applied
      = fresh (build nginxProxyFrame) (finalWorld ops w₀ hist) :=
  converges_of_frame nginxProxyFrame np_ok w₀ hist

theorem rel_sound_NginxProxy (s : Cl NpCore Nat) (e : FEvent NpCore Nat) (hw : watch nginxProxyFrame s e = true)
    (hv : verdict ops (rel nginxProxyFrame) (some (build nginxProxyFrame s)) s e = false) :
    build nginxProxyFrame (storeAfter ops s e) = build nginxProxyFrame s :=
  rel_sound_of_frame nginxProxyFrame _ _ np_ok s e (adm_true s e) hw hv

/-- Weakened variant REFUTED (referenced only when `buildNginxProxy` found it, i.e. `g.NginxProxy != nil`): the
NginxProxy named by the class is created later: dropped, the class stays `InvalidParameters`/`RefNotFound`. -/
theorem nginxproxy_missing_then_created_diverges :
    let core : NpCore := { gatewayClass := some (some { group := ngfGroup, kind := "NginxProxy", name := "np" }) }
    let F := nginxProxyFrameForgetMissing
    let w₀ : Cl NpCore Nat := { core := core, objs := fun _ => none }
    let hist : Hist NpCore Nat := [.mutate ⟨.obj, "np", some (.inr 3), false⟩, .cut]
    let bad := run ops (build F) (rel F) (watch F) (start (build F) w₀) hist
    let good := run ops (build nginxProxyFrame) (rel nginxProxyFrame) (watch nginxProxyFrame)
      (start (build nginxProxyFrame) w₀) hist
    (bad.applied.map fun g => g.seen "np") = some none ∧
    ((fresh (build F) bad.world).map fun g => g.seen "np") = some (some 3) ∧
    (good.applied.map fun g => g.seen "np") = some (some 3) ∧
    -- a parametersRef of another group or kind references nothing
    npReferenced { gatewayClass := some (some { group := "example.com", kind := "NginxProxy", name := "np" }) } "np" = false := by
  decide

/-- **NGF policies** (`IsNGFPolicyRelevant`: in the graph OR any targetRef resolves; ALL targetRefs are considered;
`processPolicies` admits the policy under the same test, given a winning Gateway). -/
theorem converges_NGFPolicy (w₀ : Cl PolCore PolicyM) (hist : Hist PolCore PolicyM) :
    (run ops (build policyFrame) (rel policyFrame) (watch policyFrame) (start (build policyFrame) w₀)
      (hist ++ [.cut])).applied
      = fresh (build policyFrame) (finalWorld ops w₀ hist) :=
  converges_of_frame policyFrame policy_ok w₀ hist

theorem rel_sound_NGFPolicy (s : Cl PolCore PolicyM) (e : FEvent PolCore PolicyM) (hw : watch policyFrame s e = true)
    (hv : verdict ops (rel policyFrame) (some (build policyFrame s)) s e = false) :
    build policyFrame (storeAfter ops s e) = build policyFrame s :=
  rel_sound_of_frame policyFrame _ _ policy_ok s e (adm_true s e) hw hv

def polCore : PolCore :=
  { hasWinner := true, gateways := ["default/gw0"], routes := [("HTTPRoute", "default/hr0")], refSvcs := ["default/svc0"] }

def obsPolicy : PolicyM :=
  { ns := "default", payload := 1,
    refs := [{ group := gatewayGroup, kind := "HTTPRoute", name := "hr-absent" },
             { group := gatewayGroup, kind := "HTTPRoute", name := "hr0" }] }

/-- Weakened variant REFUTED (seeded change C01-m3: only the FIRST targetRef decides): a policy whose first target is
absent and whose second is a route of the graph is created: dropped, no status is ever written, a fresh controller
processes it. -/
theorem policy_first_targetref_only_diverges :
    let F := policyFrameFirstRef
    let w₀ : Cl PolCore PolicyM := { core := polCore, objs := fun _ => none }
    let hist : Hist PolCore PolicyM := [.mutate ⟨.obj, "ObservabilityPolicy/default/obs", some (.inr obsPolicy), false⟩, .cut]
    let bad := run ops (build F) (rel F) (watch F) (start (build F) w₀) hist
    let good := run ops (build policyFrame) (rel policyFrame) (watch policyFrame) (start (build policyFrame) w₀) hist
    policyRelevantFirst polCore obsPolicy = false ∧ policyRelevant polCore obsPolicy = true ∧
    (bad.applied.map fun g => g.seen "ObservabilityPolicy/default/obs") = some none ∧
    ((fresh (build F) bad.world).map fun g => g.seen "ObservabilityPolicy/default/obs") = some (some obsPolicy) ∧
    (good.applied.map fun g => g.seen "ObservabilityPolicy/default/obs") = some (some obsPolicy) := by
  decide

/-- Non-vacuity for the policy frame: relevant by a Service target (UpstreamSettingsPolicy shape), retargeted away
(judged by the STORED object / the in-graph clause: still relevant), deleted; a Gateway target without a winner
resolves to nothing. -/
example :
    let usp : PolicyM := { ns := "default", payload := 2, refs := [{ group := "", kind := "Service", name := "svc-absent" },
                                                                    { group := "core", kind := "Service", name := "svc0" }] }
    let away : PolicyM := { usp with refs := [{ group := "", kind := "Service", name := "svc-absent" }] }
    let w₀ : Cl PolCore PolicyM := { core := polCore, objs := fun _ => none }
    let σ := run ops (build policyFrame) (rel policyFrame) (watch policyFrame) (start (build policyFrame) w₀)
      [.mutate ⟨.obj, "usp", some (.inr usp), false⟩, .cut,
       .mutate ⟨.obj, "usp", some (.inr away), false⟩, .cut]
    (σ.applied.map fun g => g.seen "usp") = some none ∧ σ.proc.ct = .none ∧
    refResolves { polCore with hasWinner := false } "default" { group := gatewayGroup, kind := "Gateway", name := "gw0" } = false ∧
    refResolves polCore "default" { group := gatewayGroup, kind := "Gateway", name := "gw0" } = true := by
  decide

/-! ### Tie to the source: the functions the footprint model mirrors -/

/-- The resolvers record a name whether or not the object exists; `isNginxProxyReferenced`, `IsNGFPolicyRelevant`,
`gatewayAPIResourceExist`, `gatewayExists` and the targetRef loop of `processPolicies` are the statements the frames follow. -/
theorem relevance_functions_as_modelled :
    Generated.Store.secretResolveBody =
      ["if s, resolved := r.resolvedSecrets[nsname]; resolved { return s.err }",
      "secret, exist := r.clusterSecrets[nsname]",
      "var validationErr error",
      "switch { case !exist: validationErr = errors.New(\"secret does not exist\") case secret.Type != apiv1.SecretTypeTLS: validationErr = fmt.Errorf(\"secret type must be %q not %q\", apiv1.SecretTypeTLS, secret.Type) default: _, err := tls.X509KeyPair(secret.Data[apiv1.TLSCertKey], secret.Data[apiv1.TLSPrivateKeyKey]) if err != nil { validationErr = fmt.Errorf(\"TLS secret is invalid: %w\", err) } }",
      "r.resolvedSecrets[nsname] = &secretEntry{ Secret: Secret{ Source: secret, }, err: validationErr, }",
      "return validationErr"] ∧
    Generated.Store.getResolvedSecretsBody =
      ["if len(r.resolvedSecrets) == 0 { return nil }",
      "resolved := make(map[types.NamespacedName]*Secret)",
      "for nsname, entry := range r.resolvedSecrets { secret := entry.Secret resolved[nsname] = &secret }",
      "return resolved"] ∧
    Generated.Store.configMapResolveBody =
      ["if s, resolved := r.resolvedCaCertConfigMaps[nsname]; resolved { return s.err }",
      "cm, exist := r.clusterConfigMaps[nsname]",
      "var validationErr error",
      "var caCert []byte",
      "if !exist { validationErr = errors.New(\"ConfigMap does not exist\") } else { if cm.Data != nil { if _, exists := cm.Data[CAKey]; exists { validationErr = validateCA([]byte(cm.Data[CAKey])) caCert = []byte(cm.Data[CAKey]) } } if cm.BinaryData != nil { if _, exists := cm.BinaryData[CAKey]; exists { validationErr = validateCA(cm.BinaryData[CAKey]) caCert = cm.BinaryData[CAKey] } } if len(caCert) == 0 { validationErr = fmt.Errorf(\"ConfigMap does not have the data or binaryData field %v\", CAKey) } }",
      "r.resolvedCaCertConfigMaps[nsname] = &caCertConfigMapEntry{ caCertConfigMap: CaCertConfigMap{ Source: cm, CACert: caCert, }, err: validationErr, }",
      "return validationErr"] ∧
    Generated.Store.getResolvedConfigMapsBody =
      ["if len(r.resolvedCaCertConfigMaps) == 0 { return nil }",
      "resolved := make(map[types.NamespacedName]*CaCertConfigMap)",
      "for nsname, entry := range r.resolvedCaCertConfigMaps { caCertConfigMap := entry.caCertConfigMap resolved[nsname] = &caCertConfigMap }",
      "return resolved"] ∧
    Generated.Store.isNginxProxyReferencedBody =
      ["return gc != nil && gcReferencesAnyNginxProxy(gc.Source) && gc.Source.Spec.ParametersRef.Name == npNSName.Name"] ∧
    Generated.Store.gcReferencesAnyNginxProxyBody =
      ["if gc != nil { ref := gc.Spec.ParametersRef return ref != nil && ref.Group == ngfAPI.GroupName && ref.Kind == v1.Kind(kinds.NginxProxy) }",
      "return false"] ∧
    Generated.Store.buildNginxProxyBody =
      ["if gcReferencesAnyNginxProxy(gc) { npCfg := nps[types.NamespacedName{Name: gc.Spec.ParametersRef.Name}] if npCfg != nil { errs := validateNginxProxy(validator, npCfg) return &NginxProxy{ Source: npCfg, Valid: len(errs) == 0, ErrMsgs: errs, } } }",
      "return nil"] ∧
    Generated.Store.isNGFPolicyRelevantGraphBody =
      ["key := PolicyKey{ NsName: nsname, GVK: gvk, }",
      "if _, exists := g.NGFPolicies[key]; exists { return true }",
      "if policy == nil { panic(\"policy cannot be nil\") }",
      "for _, ref := range policy.GetTargetRefs() { switch ref.Group { case gatewayv1.GroupName: if g.gatewayAPIResourceExist(ref, policy.GetNamespace()) { return true } case \"\", \"core\": if ref.Kind == kinds.Service { svcNsName := types.NamespacedName{Namespace: policy.GetNamespace(), Name: string(ref.Name)} if _, exists := g.ReferencedServices[svcNsName]; exists { return true } } } }",
      "return false"] ∧
    Generated.Store.gatewayAPIResourceExistBody =
      ["refNsName := types.NamespacedName{Name: string(ref.Name), Namespace: policyNs}",
      "switch kind := ref.Kind; kind { case kinds.Gateway: if g.Gateway == nil { return false } return gatewayExists(refNsName, g.Gateway.Source, g.IgnoredGateways) case kinds.HTTPRoute, kinds.GRPCRoute: _, exists := g.Routes[routeKeyForKind(kind, refNsName)] return exists default: return false }"] ∧
    Generated.Store.gatewayExistsBody =
      ["if winner == nil { return false }",
      "if client.ObjectKeyFromObject(winner) == gwNsName { return true }",
      "_, exists := ignored[gwNsName]",
      "return exists"] ∧
    Generated.Store.processPoliciesGuards =
      ["if len(pols) == 0 || gateways.Winner == nil { return nil }",
      "if len(targetRefs) == 0 { continue }"] ∧
    Generated.Store.processPoliciesRefLoop =
      ["refNsName := types.NamespacedName{Name: string(ref.Name), Namespace: policy.GetNamespace()}",
      "switch refGroupKind(ref.Group, ref.Kind) { case gatewayGroupKind: if !gatewayExists(refNsName, gateways.Winner, gateways.Ignored) { continue } case hrGroupKind, grpcGroupKind: if route, exists := routes[routeKeyForKind(ref.Kind, refNsName)]; !exists { continue } else { targetedRoutes[client.ObjectKeyFromObject(route.Source)] = route } case serviceGroupKind: if _, exists := services[refNsName]; !exists { continue } default: continue }",
      "targetRefs = append(targetRefs, PolicyTargetRef{ Kind: ref.Kind, Group: ref.Group, Nsname: refNsName, })"] ∧
    Generated.Store.refGroupKindBody =
      ["if group == \"\" { return fmt.Sprintf(\"core/%s\", kind) }",
      "return fmt.Sprintf(\"%s/%s\", group, kind)"] :=
  -- literal equalities: checked by unfolding the generated definitions (`decide +kernel` compares long strings
  -- character by character and needs ~50 s here)
  ⟨rfl, rfl, rfl, rfl, rfl, rfl, rfl, rfl, rfl, rfl, rfl, rfl, rfl⟩


/-- `Graph.IsReferenced`, `buildReferencedServices` (valid routes that belong to the winning Gateway),
`isNamespaceReferenced`/`buildReferencedNamespaces` are the statements the model follows. -/
theorem footprint_functions_as_modelled :
    Generated.Store.isReferencedCases =
      ["*v1.Secret", "*v1.ConfigMap", "*v1.Namespace", "*v1.Service", "*discoveryV1.EndpointSlice", "*ngfAPI.NginxProxy", "default"] ∧
    Generated.Store.isReferencedBodies =
      ["_, exists := g.ReferencedSecrets[nsname] ; _, plusSecretExists := g.PlusSecrets[nsname] ; return exists || plusSecretExists",
       "_, exists := g.ReferencedCaCertConfigMaps[nsname] ; return exists",
       "_, existed := g.ReferencedNamespaces[nsname] ; exists := isNamespaceReferenced(obj, g.Gateway) ; return existed || exists",
       "_, exists := g.ReferencedServices[nsname] ; return exists",
       "svcName := index.GetServiceNameFromEndpointSlice(obj) ; _, exists := g.ReferencedServices[types.NamespacedName{Namespace: nsname.Namespace, Name: svcName}] ; return exists",
       "return isNginxProxyReferenced(nsname, g.GatewayClass)",
       "return false"] ∧
    Generated.Store.belongsToWinningGwBody =
      ["for _, ref := range refs { if ref.Gateway == client.ObjectKeyFromObject(gw.Source) { return true } }", "return false"] ∧
    Generated.Store.referencedServicesLoops =
      ["l7routes: if !route.Valid { continue } ; if !belongsToWinningGw(route.ParentRefs) { continue } ; addServicesForL7Routes(route.Spec.Rules)",
       "l4Routes: if !route.Valid { continue } ; if !belongsToWinningGw(route.ParentRefs) { continue } ; addServicesForL4Routes(route)"] ∧
    Generated.Store.buildReferencedNamespacesBody =
      ["referencedNamespaces := make(map[types.NamespacedName]*v1.Namespace)",
       "for name, ns := range clusterNamespaces { if isNamespaceReferenced(ns, gw) { referencedNamespaces[name] = ns } }",
       "if len(referencedNamespaces) == 0 { return nil }", "return referencedNamespaces"] ∧
    Generated.Store.isNamespaceReferencedBody =
      ["if gw == nil || ns == nil { return false }", "nsLabels := labels.Set(ns.GetLabels())",
       "for _, listener := range gw.Listeners { if listener.AllowedRouteLabelSelector == nil { continue } if listener.AllowedRouteLabelSelector.Matches(nsLabels) { return true } }",
       "return false"] := by
  decide +kernel

end NGF.Footprint
