/-
C01 — relevance and watch predicates of the dependent kinds: soundness THEOREMS for the footprint model
(`NGF.Model.Footprint`: what `BuildGraph` reads of Services, EndpointSlices, Namespaces, Secrets, ConfigMaps and
which objects `Graph.IsReferenced` declares referenced), instantiated into `converges_of_sound`.
The build is the most informative one that respects the reading discipline of the Go code (it exposes, per key,
exactly what is read); relevance is `isRef(new) || isRef(stored)` against the LATEST graph — no oracle bit.
-/
import NGF.Props.C01
import NGF.Proofs.Footprint
import NGF.Generated.StoreFacts

namespace NGF.Footprint
open NGF.Store

variable {Core ObjK View : Type}

abbrev Hist (Core ObjK : Type) := List (Step FK NN (Sum Core ObjK))

/-- Frame theorem: a kind that is read only where it is referenced, with a watch predicate that filters only
invisible updates, converges for every history. -/
theorem converges_of_frame (F : Frame Core ObjK View) (ok : FrameOK F (fun _ => true) (fun _ _ => true))
    (w₀ : Cl Core ObjK) (hist : Hist Core ObjK) :
    (run ops (build F) (rel F) (watch F) (start (build F) w₀) (hist ++ [.cut])).applied
      = fresh (build F) (finalWorld ops w₀ hist) := by
  have hs := frame_sound F _ _ ok
  have ha : ∀ (ss : Hist Core ObjK) (w : Cl Core ObjK),
      Admissible ops (adm (fun _ => true) (fun _ _ => true)) w ss := by
    intro ss
    induction ss with
    | nil => intro _; trivial
    | cons s ss ih =>
      intro w
      cases s with
      | mutate e => exact ⟨adm_true w e, ih _⟩
      | cut => exact ih w
      | restart => exact ih w
  exact converges_of_sound_partial ops (build F) (rel F) (watch F) (R F) _ hs w₀ hist (ha hist w₀)

/-- `rel_sound_<Kind>` in its general form: if `IsReferenced` is false for the stored and for the new object, the
build of the store after the event equals the build before. -/
theorem rel_sound_of_frame (F : Frame Core ObjK View) (admCore admU) (ok : FrameOK F admCore admU)
    (s : Cl Core ObjK) (e : FEvent Core ObjK) (ha : adm admCore admU s e = true) (hw : watch F s e = true)
    (hv : verdict ops (rel F) (some (build F s)) s e = false) :
    build F (storeAfter ops s e) = build F s :=
  (frame_sound F admCore admU ok).rel_sound s s e (R_refl F s) ha hw hv

/-! ### Services -/

/-- Current code, `_partial`: convergence for every history that stays outside the two excluded regions
(`svcAdmCore`: every Service looked up by a route of the graph is in ReferencedServices, i.e. no valid route that
belongs only to an ignored Gateway names a Service of its own; `svcAdmU`: no update that the watch predicate
filters although it changes port names, port order or ipFamilies). -/
theorem converges_Service_partial (w₀ : Cl SvcCore Svc) (hist : Hist SvcCore Svc)
    (ha : Admissible ops (adm svcAdmCore svcAdmU) w₀ hist) :
    (run ops (build svcFrame) (rel svcFrame) (watch svcFrame) (start (build svcFrame) w₀) (hist ++ [.cut])).applied
      = fresh (build svcFrame) (finalWorld ops w₀ hist) :=
  converges_of_sound_partial ops _ _ _ (R svcFrame) _ (frame_sound svcFrame _ _ svc_ok) w₀ hist ha

/-- `rel_sound_Service` (current code): an event of a Service outside ReferencedServices of the latest graph does
not change the build, provided every Service the graph looks up is in ReferencedServices. -/
theorem rel_sound_Service (s : Cl SvcCore Svc) (e : FEvent SvcCore Svc)
    (ha : adm svcAdmCore svcAdmU s e = true) (hw : watch svcFrame s e = true)
    (hv : verdict ops (rel svcFrame) (some (build svcFrame s)) s e = false) :
    build svcFrame (storeAfter ops s e) = build svcFrame s :=
  rel_sound_of_frame svcFrame _ _ svc_ok s e ha hw hv

/-- Repaired variant (candidate diffs 2 and 3 of notes/C01.md): convergence for EVERY history. -/
theorem converges_Service_repaired (w₀ : Cl SvcCore Svc) (hist : Hist SvcCore Svc) :
    (run ops (build svcFrameR) (rel svcFrameR) (watch svcFrameR) (start (build svcFrameR) w₀) (hist ++ [.cut])).applied
      = fresh (build svcFrameR) (finalWorld ops w₀ hist) :=
  converges_of_frame svcFrameR svc_ok_repaired w₀ hist

def gwOld : NN := "default/gw-old"
def svc1 : NN := "default/svc1"
def aSvc : Svc := { ports := [⟨80, "p80", "8080"⟩], ipFamilies := ["IPv4"] }

/-- the graph of known finding `C01:service-dropped:route-of-ignored-gateway`: the winning Gateway has no route, a
valid route of the ignored Gateway gw0 names svc1 -/
def ignoredGwCore : SvcCore :=
  { winner := some gwOld, routes := [{ valid := true, parents := ["default/gw0"], backends := [svc1] }] }

/-- Witness 1 (current code): `createBackendRef` looks svc1 up, `buildReferencedServices` does not list it: its
creation is dropped, the long-lived controller keeps "not found", a fresh one sees the Service. -/
theorem service_of_ignored_gateway_route_diverges :
    let w₀ : Cl SvcCore Svc := { core := ignoredGwCore, objs := fun _ => none }
    let σ := run ops (build svcFrame) (rel svcFrame) (watch svcFrame) (start (build svcFrame) w₀)
      [.mutate ⟨.obj, svc1, some (.inr aSvc), false⟩, .cut]
    svcAdmCore ignoredGwCore = false ∧
    (σ.applied.map fun g => g.seen svc1) = some none ∧
    ((fresh (build svcFrame) σ.world).map fun g => g.seen svc1) = some (some aSvc) := by
  decide

def refCore : SvcCore :=
  { winner := some gwOld, routes := [{ valid := true, parents := [gwOld], backends := [svc1] }] }

/-- Witness 2 (current code): renaming a port keeps the (port,targetPort) set: filtered; the name is read. -/
theorem service_port_rename_diverges :
    let renamed : Svc := { aSvc with ports := [⟨80, "web", "8080"⟩] }
    let w₀ : Cl SvcCore Svc := { core := refCore, objs := upd (fun _ => none) svc1 (some aSvc) }
    let σ := run ops (build svcFrame) (rel svcFrame) (watch svcFrame) (start (build svcFrame) w₀)
      [.mutate ⟨.obj, svc1, some (.inr renamed), false⟩, .cut]
    watchSvc aSvc renamed = false ∧
    (σ.applied.map fun g => g.seen svc1) = some (some aSvc) ∧
    ((fresh (build svcFrame) σ.world).map fun g => g.seen svc1) = some (some renamed) := by
  decide

/-- Witness 3 (current code): ipFamilies. -/
theorem service_ipfamilies_diverges :
    let v6 : Svc := { aSvc with ipFamilies := ["IPv6"] }
    let w₀ : Cl SvcCore Svc := { core := refCore, objs := upd (fun _ => none) svc1 (some aSvc) }
    let σ := run ops (build svcFrame) (rel svcFrame) (watch svcFrame) (start (build svcFrame) w₀)
      [.mutate ⟨.obj, svc1, some (.inr v6), false⟩, .cut]
    watchSvc aSvc v6 = false ∧
    (σ.applied.map fun g => g.seen svc1) ≠ ((fresh (build svcFrame) σ.world).map fun g => g.seen svc1) := by
  decide

/-- Witness 4 (current code, and the set-based repair): two entries with the same port number (53/TCP, 53/UDP)
swap places — same pair set, but `getServicePort` now returns the other entry. -/
theorem service_port_order_diverges :
    let a : Svc := { ports := [⟨53, "dns-tcp", "8053"⟩, ⟨53, "dns-udp", "9053"⟩], ipFamilies := [] }
    let b : Svc := { ports := [⟨53, "dns-udp", "9053"⟩, ⟨53, "dns-tcp", "8053"⟩], ipFamilies := [] }
    watchSvc a b = false ∧ a.ports.head? ≠ b.ports.head? ∧ watchSvcR a b = true := by
  decide

/-- Non-vacuity of `converges_Service_partial`: an admissible history with a relevant, a dropped and a filtered
(invisible) mutation and a change of the core. -/
example :
    let w₀ : Cl SvcCore Svc := { core := refCore, objs := fun _ => none }
    let hist : Hist SvcCore Svc :=
      [.mutate ⟨.obj, svc1, some (.inr aSvc), false⟩,                      -- referenced: relevant
       .mutate ⟨.obj, "default/other", some (.inr aSvc), false⟩, .cut,      -- unreferenced: dropped
       .mutate ⟨.obj, svc1, some (.inr aSvc), false⟩,                      -- no-op update: filtered
       .mutate ⟨.core, "", some (.inl { refCore with routes := [] }), false⟩, .cut]
    Admissible ops (adm svcAdmCore svcAdmU) w₀ hist := by
  intro w₀ hist
  simp only [hist, Admissible]
  decide

/-! ### EndpointSlices, Namespaces, Secrets, ConfigMaps: full strength for the code in the tree -/

/-- EndpointSlices (after ecaa5d2: judged by the stored and the new owner). -/
theorem converges_EndpointSlice (w₀ : Cl SvcCore SliceM) (hist : Hist SvcCore SliceM) :
    (run ops (build sliceFrame) (rel sliceFrame) (watch sliceFrame) (start (build sliceFrame) w₀) (hist ++ [.cut])).applied
      = fresh (build sliceFrame) (finalWorld ops w₀ hist) :=
  converges_of_frame sliceFrame slice_ok w₀ hist

theorem rel_sound_EndpointSlice (s : Cl SvcCore SliceM) (e : FEvent SvcCore SliceM)
    (hv : verdict ops (rel sliceFrame) (some (build sliceFrame s)) s e = false) :
    build sliceFrame (storeAfter ops s e) = build sliceFrame s := by
  exact rel_sound_of_frame sliceFrame _ _ slice_ok s e (adm_true s e) (watch_true sliceFrame (fun _ _ => rfl) s e) hv

/-- Namespaces: `isNamespaceReferenced` of the stored or the new labels (this subsumes the `existed` check). -/
theorem converges_Namespace (w₀ : Cl NsCore Labels) (hist : Hist NsCore Labels) :
    (run ops (build nsFrame) (rel nsFrame) (watch nsFrame) (start (build nsFrame) w₀) (hist ++ [.cut])).applied
      = fresh (build nsFrame) (finalWorld ops w₀ hist) :=
  converges_of_frame nsFrame ns_ok w₀ hist

/-- Secrets: referenced by the names the listeners' certificateRefs resolve. -/
theorem converges_Secret (w₀ : Cl SecCore Nat) (hist : Hist SecCore Nat) :
    (run ops (build secretFrame) (rel secretFrame) (watch secretFrame) (start (build secretFrame) w₀) (hist ++ [.cut])).applied
      = fresh (build secretFrame) (finalWorld ops w₀ hist) :=
  converges_of_frame secretFrame (byName_ok _) w₀ hist

/-- ConfigMaps: referenced by the CA certificate refs of the BackendTLSPolicies. -/
theorem converges_ConfigMap (w₀ : Cl CmCore Nat) (hist : Hist CmCore Nat) :
    (run ops (build configMapFrame) (rel configMapFrame) (watch configMapFrame) (start (build configMapFrame) w₀)
      (hist ++ [.cut])).applied
      = fresh (build configMapFrame) (finalWorld ops w₀ hist) :=
  converges_of_frame configMapFrame (byName_ok _) w₀ hist

/-- Non-vacuity for the slice instance: a slice moves from a referenced to an unreferenced Service (the pre-fix
witness): with the stored object judged too, the applied output follows. -/
example :
    let w₀ : Cl SvcCore SliceM := { core := refCore, objs := upd (fun _ => none) "default/s0" (some ⟨svc1, 55⟩) }
    let σ := run ops (build sliceFrame) (rel sliceFrame) (watch sliceFrame) (start (build sliceFrame) w₀)
      [.mutate ⟨.obj, "default/s0", some (.inr ⟨"default/svc9", 55⟩), false⟩, .cut,
       .mutate ⟨.obj, "default/s1", some (.inr ⟨svc1, 56⟩), false⟩, .cut,
       .mutate ⟨.obj, "default/s1", none, false⟩, .cut]
    (σ.applied.map fun g => (g.seen "default/s0", g.seen "default/s1")) = some (none, none) := by
  decide

/-! ### Tie to the source: the functions the footprint model mirrors -/

/-- `Graph.IsReferenced`, `buildReferencedServices` (valid routes that belong to the winning Gateway),
`isNamespaceReferenced`/`buildReferencedNamespaces` are the statements the model follows. -/
theorem footprint_functions_as_modelled :
    Generated.Store.isReferencedCases =
      ["*v1.Secret", "*v1.ConfigMap", "*v1.Namespace", "*v1.Service", "*discoveryV1.EndpointSlice", "*ngfAPI.NginxProxy", "default"] ∧
    Generated.Store.isReferencedBodies =
      ["_, exists := g.ReferencedSecrets[nsname] ; _, plusSecretExists := g.PlusSecrets[nsname] ; return exists || plusSecretExists",
       "_, exists := g.ReferencedCaCertConfigMaps[nsname] ; return exists",
       "_, existed := g.ReferencedNamespaces[nsname] ; exists := isNamespaceReferenced(obj, g.Gateway) ; return existed || exists",
       "_, exists := g.ReferencedServices[nsname] ; return exists",
       "svcName := index.GetServiceNameFromEndpointSlice(obj) ; _, exists := g.ReferencedServices[types.NamespacedName{Namespace: nsname.Namespace, Name: svcName}] ; return exists",
       "return isNginxProxyReferenced(nsname, g.GatewayClass)",
       "return false"] ∧
    Generated.Store.belongsToWinningGwBody =
      ["for _, ref := range refs { if ref.Gateway == client.ObjectKeyFromObject(gw.Source) { return true } }", "return false"] ∧
    Generated.Store.referencedServicesLoops =
      ["l7routes: if !route.Valid { continue } ; if !belongsToWinningGw(route.ParentRefs) { continue } ; addServicesForL7Routes(route.Spec.Rules)",
       "l4Routes: if !route.Valid { continue } ; if !belongsToWinningGw(route.ParentRefs) { continue } ; addServicesForL4Routes(route)"] ∧
    Generated.Store.buildReferencedNamespacesBody =
      ["referencedNamespaces := make(map[types.NamespacedName]*v1.Namespace)",
       "for name, ns := range clusterNamespaces { if isNamespaceReferenced(ns, gw) { referencedNamespaces[name] = ns } }",
       "if len(referencedNamespaces) == 0 { return nil }", "return referencedNamespaces"] ∧
    Generated.Store.isNamespaceReferencedBody =
      ["if gw == nil || ns == nil { return false }", "nsLabels := labels.Set(ns.GetLabels())",
       "for _, listener := range gw.Listeners { if listener.AllowedRouteLabelSelector == nil { continue } if listener.AllowedRouteLabelSelector.Matches(nsLabels) { return true } }",
       "return false"] := by
  decide +kernel

end NGF.Footprint
