/-
C05 (task C05-nil) — totality of the mirrored implicit panic sites under the CRD's admissibility predicates, and
`unsupported_surfaces_as_condition`: every admissible-but-unsupported value yields an error / condition, never silence.

All theorems are about the functions of `NGF.Model.NilGuards` that `ngfdriver_C05 unit` runs on the shapes the
harness feeds to the REAL functions (harness/c05/unit.go), on admissible AND CEL-bypassing shapes.

  §1 filters        `Filter.validate_total`, `Filter.convert_after_validate` (ALL shapes), `Filter.pipeline_total`,
                    `Filter.unsupported_reported`, witnesses for the CEL-bypassing shapes
  §2 listeners      `Tls.validate_total`, `Tls.resolve_after_validate` (ALL shapes), `Listener.valid_protocol`,
                    `Listener.pipeline_total`, `Listener.unsupported_reported`, witness (nil mode)
  §3 backendRefs    `BackendRef.pipeline_total` (ALL shapes), `BackendRef.unsupported_reported`
  §4 BackendTLSPolicy  `Btp.process_total` (ALL shapes; the code was repaired by commit cc3f1c7 after this check found
                    the crash), `Btp.unsupported_reported`; pre-fix mirror `processBtpPre` kept as a regression detector:
                    `Btp.pre_empty_caRefs_witness`, `Btp.pre_process_error_iff`, `Btp.pre_process_partial`
  §5 path matches   `PathMatch.pipeline_total`, `PathMatch.unsupported_reported`
  §6 `unsupported_surfaces_as_condition`
-/
import NGF.Model.NilGuards
import NGF.Proofs.PanicSites

namespace NGF.NilGuards
open NGF.PanicSites (validateFilterType)

/-! ## §1 filters -/

theorem validatePathMod_total (p : Option PathMod) (h : ∀ pm, p = some pm → pm.adm = true) :
    ∃ b, validatePathMod p = .ok b := by
  cases p with
  | none => exact ⟨false, rfl⟩
  | some pm =>
    have ha := h pm rfl
    unfold PathMod.adm at ha
    unfold validatePathMod
    by_cases h1 : (pm.type == fullT) = true
    · have : pm.hasFull = true := by simp_all
      exact ⟨false, by simp [h1, this]⟩
    · by_cases h2 : (pm.type == prefixT) = true
      · have : pm.hasPrefix = true := by simp_all
        exact ⟨false, by simp [h1, h2, this]⟩
      · exact ⟨true, by simp [h1, h2]⟩

theorem validatePathFilter_total (f : Option PathFilter) (h : ∀ b, f = some b → b.adm = true) :
    ∃ b, validatePathFilter f = .ok b := by
  cases f with
  | none => exact ⟨true, rfl⟩
  | some b =>
    have ha := h b rfl
    obtain ⟨e, he⟩ := validatePathMod_total b.path (by
      intro pm hpm; unfold PathFilter.adm at ha; rw [hpm] at ha; exact ha)
    exact ⟨e || b.bad, by simp [validatePathFilter, he]⟩

/-- `validateFilter` never dereferences a nil union member on a filter that passes the CRD's CEL rules: for every
admissible filter shape (any type of the enum, any value-validator outcome). -/
theorem Filter.validate_total (f : Filter) (ha : f.adm = true) : ∃ b, validateFilter f = .ok b := by
  unfold Filter.adm at ha
  simp only [Bool.and_eq_true] at ha
  obtain ⟨⟨_, hrd⟩, hrw⟩ := ha
  unfold validateFilter
  split
  · exact ⟨true, rfl⟩
  · split
    · exact validatePathFilter_total f.redirect (by intro b hb; rw [hb] at hrd; exact hrd)
    · split
      · exact validatePathFilter_total f.urlRewrite (by intro b hb; rw [hb] at hrw; exact hrw)
      · split
        · exact ⟨_, rfl⟩
        · split
          · exact ⟨_, rfl⟩
          · split <;> exact ⟨_, rfl⟩

theorem convertPathMod_of_validate (p : Option PathMod) (h : validatePathMod p = .ok false) :
    convertPathMod p = .ok () := by
  cases p with
  | none => rfl
  | some pm =>
    unfold validatePathMod at h
    unfold convertPathMod
    by_cases h1 : (pm.type == fullT) = true
    · by_cases hf : pm.hasFull = true <;> simp_all
    · by_cases h2 : (pm.type == prefixT) = true
      · by_cases hf : pm.hasPrefix = true <;> simp_all
      · simp_all

theorem convertPathFilter_of_validate (f : Option PathFilter) (h : validatePathFilter f = .ok false) :
    convertPathFilter f = .ok () := by
  cases f with
  | none => simp [validatePathFilter] at h
  | some b =>
    unfold validatePathFilter at h
    unfold convertPathFilter
    cases hv : validatePathMod b.path with
    | error s => simp [hv] at h
    | ok e =>
      simp only [hv] at h
      have he : e = false := by
        cases e <;> simp_all
      subst he
      exact convertPathMod_of_validate b.path hv

/-- For EVERY filter shape — admissible or not — a filter that `validateFilter` accepts without error is converted
by `createHTTPFilters` without a nil dereference: validation guards conversion. -/
theorem Filter.convert_after_validate (f : Filter) (h : validateFilter f = .ok false) : convertFilter f = .ok () := by
  unfold validateFilter at h
  unfold convertFilter
  split at h
  · simp at h
  · split at h
    · rename_i h1; simp only [h1, if_true]; exact convertPathFilter_of_validate _ h
    · rename_i h1
      split at h
      · rename_i h2; simp only [h1, h2, if_true]; exact convertPathFilter_of_validate _ h
      · rename_i h2
        split at h
        · rename_i h3
          simp only [h1, h2, h3, if_true]
          cases hb : f.reqHdr with
          | none => simp [validateBody, hb] at h
          | some b => simp
        · rename_i h3
          split at h
          · rename_i h4
            simp only [h1, h2, h3, h4, if_true]
            cases hb : f.respHdr with
            | none => simp [validateBody, hb] at h
            | some b => simp
          · rename_i h4
            simp [h1, h2, h3, h4]

/-- the whole filter path (validate, then convert what was accepted) is total on admissible filters -/
theorem Filter.pipeline_total (f : Filter) (ha : f.adm = true) : ∃ b, filterPipeline f = .ok b := by
  obtain ⟨b, hb⟩ := Filter.validate_total f ha
  unfold filterPipeline
  cases b with
  | true => exact ⟨true, by simp [hb]⟩
  | false => exact ⟨false, by simp [hb, Filter.convert_after_validate f hb]⟩

/-- an admissible RequestMirror filter (HTTP or GRPC) is reported as an error — it is never silently dropped -/
theorem Filter.unsupported_reported (f : Filter) (hu : f.unsupported = true) : filterPipeline f = .ok true := by
  have ht : f.type = "RequestMirror" := by simpa [Filter.unsupported] using hu
  have : validateFilter f = .ok true := by
    unfold validateFilter
    have : validateFilterType f.grpc f.type = false := by
      rw [ht]; cases f.grpc <;> decide
    simp [this]
  simp [filterPipeline, this]

/-- admissible filters of every type exist (non-vacuity), and the CEL-bypassing shapes do crash the mirror: a
RequestRedirect whose path says ReplaceFullPath without the value, and — behind a validation that is skipped —
nothing else (conversion is guarded for all shapes). -/
example : (⟨false, "RequestRedirect", some ⟨some ⟨"ReplaceFullPath", true, false⟩, false⟩, none, none, none, none, false⟩ :
    Filter).adm = true := by decide
example : (⟨true, "RequestMirror", none, none, none, none, none, true⟩ : Filter).adm = true := by decide

theorem Filter.cel_bypass_witness :
    let f : Filter := ⟨false, "RequestRedirect", some ⟨some ⟨"ReplaceFullPath", false, false⟩, false⟩, none, none, none, none, false⟩
    f.adm = false ∧ filterPipeline f = .error .pathModBody := by decide

/-! ## §2 listeners -/

/-- `tls.mode` is set whenever `tls` is (the CRD defaults it to Terminate) -/
def ModeSet (t : Option Tls) : Prop := ∀ x, t = some x → x.mode.isSome = true

theorem Tls.validate_total (t : Option Tls) (hm : ModeSet t) : ∃ n, httpsValidate t = .ok n := by
  cases t with
  | none => exact ⟨1, rfl⟩
  | some x =>
    have := hm x rfl
    unfold httpsValidate
    cases hmode : x.mode with
    | none => simp [hmode] at this
    | some m =>
      by_cases hc : (x.nCerts == 0) = true
      · exact ⟨_, by simp only [hmode, hc, if_true]; rfl⟩
      · exact ⟨_, by simp only [hmode, hc, Bool.false_eq_true, if_false]; rfl⟩

/-- For EVERY tls shape: when the HTTPS validator reports nothing, the secret resolver finds `tls` and
`certificateRefs[0]` — the validator guards the resolver. -/
theorem Tls.resolve_after_validate (t : Option Tls) (h : httpsValidate t = .ok 0) : tlsResolve t = .ok () := by
  cases t with
  | none => simp [httpsValidate] at h
  | some x =>
    unfold httpsValidate at h
    unfold tlsResolve
    cases hmode : x.mode with
    | none => simp [hmode] at h
    | some m =>
      simp only [hmode] at h
      by_cases hc : (x.nCerts == 0) = true
      · simp [hc] at h
      · simp [hc]

theorem Listener.configure_total (l : ListenerIn) (hm : ModeSet l.tls) : ∃ o, configure l = .ok o := by
  unfold configure
  simp only
  by_cases h1 : (l.proto == "HTTP") = true
  · simp only [h1, if_true]; exact ⟨_, rfl⟩
  · by_cases h2 : (l.proto == "HTTPS") = true
    · obtain ⟨n, hn⟩ := Tls.validate_total l.tls hm
      simp only [h1, h2, hn, if_true, Bool.false_eq_true, if_false]
      by_cases h0 : (otherConds l + n != 0) = true
      · simp only [h0, if_true]; exact ⟨_, rfl⟩
      · have hz : n = 0 := by
          have : otherConds l + n = 0 := by simpa using h0
          omega
        subst hz
        simp only [h0, Bool.false_eq_true, if_false, Tls.resolve_after_validate l.tls hn]
        exact ⟨_, rfl⟩
    · by_cases h3 : (l.proto == "TLS") = true
      · simp only [h1, h2, h3, if_true, Bool.false_eq_true, if_false]; exact ⟨_, rfl⟩
      · simp only [h1, h2, h3, Bool.false_eq_true, if_false]; exact ⟨_, rfl⟩

/-- a listener that `configure` leaves valid has one of the three protocols `buildServers` knows -/
theorem Listener.valid_protocol (l : ListenerIn) (o : ListenerOut) (h : configure l = .ok o) (hv : o.valid = true) :
    l.proto = "HTTP" ∨ l.proto = "HTTPS" ∨ l.proto = "TLS" := by
  by_cases h1 : (l.proto == "HTTP") = true
  · exact Or.inl (by simpa using h1)
  · by_cases h2 : (l.proto == "HTTPS") = true
    · exact Or.inr (Or.inl (by simpa using h2))
    · by_cases h3 : (l.proto == "TLS") = true
      · exact Or.inr (Or.inr (by simpa using h3))
      · exfalso
        unfold configure at h
        simp only [h1, h2, h3, Bool.false_eq_true, if_false, Except.ok.injEq] at h
        subst h
        simp at hv

theorem protocolMapWrite_total (l : ListenerIn) (o : ListenerOut) (h : configure l = .ok o) :
    protocolMapWrite l.proto o.valid = .ok () := by
  unfold protocolMapWrite
  by_cases hv : o.valid = true
  · rcases Listener.valid_protocol l o h hv with hp | hp | hp <;> simp [hp, hv]
  · by_cases ht : (l.proto == "TLS") = true <;> simp [ht, hv]

/-- the whole listener path (configurator choice, validators, secret resolver, the protocol map of `buildServers`)
is total for every listener whose `tls.mode` is defaulted — any protocol string, any tls shape -/
theorem Listener.pipeline_total (l : ListenerIn) (hm : ModeSet l.tls) : ∃ o, listenerPipeline l = .ok o := by
  obtain ⟨o, ho⟩ := Listener.configure_total l hm
  exact ⟨o, by simp [listenerPipeline, ho, protocolMapWrite_total l o ho]⟩

theorem Listener.adm_modeSet (l : ListenerIn) (ha : l.adm = true) : ModeSet l.tls := by
  intro x hx
  unfold ListenerIn.adm at ha
  rw [hx] at ha
  simp only [Bool.and_eq_true] at ha
  exact ha.1.1.1

/-- every admissible-but-unsupported listener (protocol outside HTTP / HTTPS / TLS, HTTPS without tls, tls options,
no / several / non-Secret certificateRefs, a TLS listener that does not pass through) carries a condition -/
theorem Listener.unsupported_reported (l : ListenerIn) (hm : ModeSet l.tls) (hu : l.unsupported = true) :
    ∃ o, listenerPipeline l = .ok o ∧ o.hasConds = true := by
  obtain ⟨o, ho⟩ := Listener.pipeline_total l hm
  refine ⟨o, ho, ?_⟩
  have hc : configure l = .ok o := by
    unfold listenerPipeline at ho
    cases hcfg : configure l with
    | error s => simp [hcfg] at ho
    | ok o' =>
      simp only [hcfg] at ho
      cases hw : protocolMapWrite l.proto o'.valid with
      | error s => simp [hw] at ho
      | ok _ => simp only [hw, Except.ok.injEq] at ho; rw [ho]
  unfold ListenerIn.unsupported at hu
  unfold configure at hc
  simp only at hc
  by_cases h1 : (l.proto == "HTTP") = true
  · have hp : l.proto = "HTTP" := by simpa using h1
    simp [hp] at hu
  · by_cases h2 : (l.proto == "HTTPS") = true
    · have hp : l.proto = "HTTPS" := by simpa using h2
      simp only [h1, h2, if_true, Bool.false_eq_true, if_false] at hc
      cases hv : httpsValidate l.tls with
      | error s => simp [hv] at hc
      | ok n =>
        simp only [hv] at hc
        by_cases h0 : (otherConds l + n != 0) = true
        · simp only [h0, if_true, Except.ok.injEq] at hc; subst hc; rfl
        · have hz : n = 0 := by
            have : otherConds l + n = 0 := by simpa using h0
            omega
          subst hz
          -- the validator reported nothing: then the shape is not one of the unsupported ones
          exfalso
          simp only [hp] at hu
          cases ht : l.tls with
          | none => simp [ht, httpsValidate] at hv
          | some t =>
            have hms := hm t ht
            simp only [ht, httpsValidate] at hv
            cases hmode : t.mode with
            | none => simp [hmode] at hms
            | some m =>
              simp only [hmode] at hv
              by_cases hc0 : (t.nCerts == 0) = true
              · simp [hc0] at hv
              · simp only [hc0, Bool.false_eq_true, if_false, Except.ok.injEq] at hv
                have hk : t.kindOk = true := by
                  cases hk : t.kindOk with
                  | true => rfl
                  | false => simp [hk] at hv
                have hg : t.groupOk = true := by
                  cases hg : t.groupOk with
                  | true => rfl
                  | false => simp [hg] at hv
                have ho : t.nOpts = 0 := by
                  by_cases hh : t.nOpts > 0
                  · simp [hh] at hv
                  · omega
                have hn1 : t.nCerts = 1 := by
                  have h0 : t.nCerts ≠ 0 := by simpa using hc0
                  by_cases hh : t.nCerts > 1
                  · simp [hh] at hv
                  · omega
                simp [ht, hk, hg, ho, hn1] at hu
    · by_cases h3 : (l.proto == "TLS") = true
      · have hp : l.proto = "TLS" := by simpa using h3
        simp only [h1, h2, h3, if_true, Bool.false_eq_true, if_false, Except.ok.injEq] at hc
        subst hc
        simp only [hp] at hu
        cases ht : l.tls with
        | none => simp [tlsListenerValidate]
        | some t =>
          simp only [ht] at hu
          cases hmode : t.mode with
          | none => simp [tlsListenerValidate, hmode]
          | some m =>
            have : m ≠ "Passthrough" := by
              intro hmm; simp [hmode, hmm] at hu
            simp [tlsListenerValidate, hmode, this]
      · simp only [h1, h2, h3, Bool.false_eq_true, if_false, Except.ok.injEq] at hc
        subst hc; rfl

example : (⟨"HTTPS", some ⟨some "Terminate", 0, true, true, 1⟩, false, true⟩ : ListenerIn).adm = true := by decide
example : ModeSet (some ⟨some "Terminate", 1, true, true, 0⟩) := by intro x hx; cases hx; rfl

/-- why the CRD default of `tls.mode` is needed: with it unset the HTTPS validator dereferences nil -/
theorem Tls.nil_mode_witness :
    let l : ListenerIn := ⟨"HTTPS", some ⟨none, 1, true, true, 0⟩, false, true⟩
    l.adm = false ∧ listenerPipeline l = .error .tlsMode := by decide

/-! ## §3 backendRefs -/

/-- For EVERY backendRef shape — admissible or not — `*ref.Port` is only reached behind `validateBackendRef`'s
"port cannot be nil": no hypothesis needed. -/
theorem BackendRef.pipeline_total (r : BackendRefShape) : ∃ v, backendRefPipeline r = .ok v := by
  unfold backendRefPipeline
  by_cases hv : validateBackendRef r = true
  · by_cases hs : r.svcExists = true
    · cases hp : r.port with
      | none =>
        exfalso
        unfold validateBackendRef at hv
        simp [hp] at hv
      | some p => exact ⟨true, by simp [hv, hs]⟩
    · exact ⟨false, by simp [hv, hs]⟩
  · exact ⟨false, by simp [hv]⟩

/-- an unsupported backendRef (non-core group, kind other than Service, backendRef-level filters) is invalid — and
the Go function returns a condition with every `false` — for all shapes -/
theorem BackendRef.unsupported_reported (r : BackendRefShape) (hu : r.unsupported = true) :
    backendRefPipeline r = .ok false := by
  have : validateBackendRef r = false := by
    unfold BackendRefShape.unsupported at hu
    unfold validateBackendRef
    by_cases h1 : r.nFilters > 0
    · simp [h1]
    · by_cases h2 : r.groupOk = true
      · by_cases h3 : r.kindOk = true
        · simp [h1, h2, h3] at hu
        · simp [h1, h2, h3]
      · simp [h1, h2]
  simp [backendRefPipeline, this]

example : (⟨"empty", false, false, false, none, true, 0, true⟩ : BackendRefShape).adm = true := by decide

/-- a backendRef with group "core", kind Service and NO port passes the CEL rule (it only looks at the empty group);
the mirror reports it invalid ("port cannot be nil") instead of dereferencing the port -/
example : (⟨"core", true, false, false, none, true, 0, true⟩ : BackendRefShape).adm = true
    ∧ backendRefPipeline ⟨"core", true, false, false, none, true, 0, true⟩ = .ok false := by decide

/-! ## §4 BackendTLSPolicy (repaired by commit cc3f1c7) -/

/-- `validateBackendTLSPolicy` has no implicit panic site of its own in the mirror -/
theorem validateBtp_total (b : BtpShape) : ∃ r, validateBtp b = .ok r := by
  unfold validateBtp
  simp only
  split
  · exact ⟨_, rfl⟩
  · split
    · exact ⟨_, rfl⟩
    · split <;> exact ⟨_, rfl⟩

/-- MAIN THEOREM for the `CACertificateRefs[0]` access of `processBackendTLSPolicies` (commit cc3f1c7: the index is
behind `len(…) > 0`): total for EVERY policy shape — nil, empty or non-empty list, any wellKnown value, ancestors full or
not — no admissibility hypothesis. -/
theorem Btp.process_total (b : BtpShape) : ∃ o, processBtp b = .ok o := by
  obtain ⟨⟨valid, ignored, n⟩, hv⟩ := validateBtp_total b
  unfold processBtp
  simp only [hv]
  by_cases hc : (valid && !ignored && decide (caLen b > 0)) = true
  · have hpos : caLen b > 0 := by
      simp only [Bool.and_eq_true, decide_eq_true_eq] at hc; exact hc.2
    have h0 : (caLen b == 0) = false := by
      cases hz : caLen b with
      | zero => omega
      | succ k => rfl
    simp only [hc, if_true, h0, Bool.false_eq_true, if_false]
    exact ⟨_, rfl⟩
  · simp only [hc, Bool.false_eq_true, if_false]
    exact ⟨_, rfl⟩

/-- the regression input (corpus/C05/04-…) is harmless on the current code -/
theorem Btp.empty_caRefs_now_ok :
    processBtp ⟨false, true, some 0, true, true, some "System"⟩ = .ok (true, 0) := by decide

example : (⟨false, true, some 1, true, true, none⟩ : BtpShape).adm = true := by decide

/-! regression detector: the PRE-FIX mirror (code before cc3f1c7).  These theorems document the old defect and keep its
signature (`C05:panic:backend_tls_policy.go:graph.processBackendTLSPolicies:index`, now `fixed`) meaningful: a revert makes
the real function behave like `processBtpPre` again, which the unit stream recognises (`pre=` of the driver). -/

/-- the old defect: `caCertificateRefs: []` next to `wellKnownCACertificates: System` passes both CEL rules (they test
`size(...) > 0`), decodes to an empty non-nil slice, validates through the wellKnown arm, and the pre-fix
`processBackendTLSPolicies` indexed element 0. -/
theorem Btp.pre_empty_caRefs_witness :
    let b : BtpShape := ⟨false, true, some 0, true, true, some "System"⟩
    b.adm = true ∧ processBtpPre b = .error .btpCaIndex := by decide

/-- exact characterisation of the old panic over the mirror of `validateBackendTLSPolicy` -/
theorem Btp.pre_process_error_iff (b : BtpShape) :
    (∃ s, processBtpPre b = .error s) ↔
      (b.caRefs = some 0 ∧ b.ancestorsFull = false ∧ b.hostOk = true ∧ b.wellKnown = some "System") := by
  unfold processBtpPre validateBtp caLen
  cases hc : b.caRefs with
  | none =>
    cases hw : b.wellKnown <;> simp
  | some n =>
    cases n with
    | zero =>
      cases hw : b.wellKnown with
      | none => simp
      | some w =>
        by_cases hws : w = "System" <;> cases hf : b.ancestorsFull <;> cases hh : b.hostOk <;> simp [hws]
    | succ k =>
      cases hw : b.wellKnown with
      | none =>
        by_cases h1 : k + 1 ≠ 1 <;> cases hk : b.caKindOk <;> cases hr : b.caResolves <;> simp <;>
          (split <;> simp)
      | some w => simp

/-- what could be proved before the repair: without the empty non-nil list the processing is total -/
theorem Btp.pre_process_partial (b : BtpShape) (h : b.caRefs ≠ some 0) : ∃ o, processBtpPre b = .ok o := by
  cases hp : processBtpPre b with
  | ok o => exact ⟨o, rfl⟩
  | error s =>
    exfalso
    exact h ((Btp.pre_process_error_iff b).mp ⟨s, hp⟩).1

/-- several caCertificateRefs, or one that is not a core ConfigMap, are admissible, unsupported, and reported -/
theorem Btp.unsupported_reported (b : BtpShape) (ha : b.adm = true) (hu : b.unsupported = true) :
    ∃ v n, processBtp b = .ok (v, n) ∧ n > 0 := by
  unfold BtpShape.unsupported caLen at hu
  unfold BtpShape.adm caLen at ha
  cases hc : b.caRefs with
  | none => simp [hc] at hu
  | some k =>
    have hk : k > 0 := by
      cases k with
      | zero => simp [hc] at hu
      | succ j => omega
    have hw : b.wellKnown = none := by
      cases hw : b.wellKnown with
      | none => rfl
      | some w => simp [hc, hw, hk] at ha
    unfold processBtp validateBtp caLen
    simp only [hc, hw, Option.getD_some, hk, decide_true, Option.isSome_none, Bool.and_false, Bool.false_eq_true,
      if_false, if_true]
    by_cases h1 : k ≠ 1
    · simp [h1]
    · have h1' : k = 1 := by omega
      have hkind : b.caKindOk = false := by
        cases hkk : b.caKindOk with
        | false => rfl
        | true => simp [hc, h1', hkk] at hu
      simp [h1', hkind]

/-! ## §5 path matches -/

/-- `upsertRoute`'s `*m.Path.Type` and `convertPathType` are total on admissible path matches (path, type, value
defaulted by the CRD; type of the enum): any validator of the value -/
theorem PathMatch.pipeline_total (valueOk : String → Bool) (p : Option PanicSites.PathMatch)
    (ha : pathMatchAdm p = true) : ∃ n, pathMatchPipeline valueOk p = .ok n := by
  cases p with
  | none => simp [pathMatchAdm] at ha
  | some pm =>
    unfold pathMatchPipeline
    simp only
    by_cases hn : PanicSites.validatePathMatch valueOk (some pm) = 0
    · obtain ⟨t, ht, htv⟩ := PanicSites.validatePathMatch_zero hn
      obtain ⟨pt, hpt⟩ := PanicSites.convertPathType_ok htv
      exact ⟨0, by simp [hn, PanicSites.matchPathType, ht, hpt]⟩
    · refine ⟨PanicSites.validatePathMatch valueOk (some pm), ?_⟩
      simp [hn]

/-- a RegularExpression path match is admissible, not implemented, and reported: at least one error, for every
value validator -/
theorem PathMatch.unsupported_reported (valueOk : String → Bool) (p : Option PanicSites.PathMatch)
    (ha : pathMatchAdm p = true) (hu : pathMatchUnsupported p = true) :
    ∃ n, pathMatchPipeline valueOk p = .ok n ∧ n > 0 := by
  cases p with
  | none => simp [pathMatchAdm] at ha
  | some pm =>
    have ht : pm.type = some "RegularExpression" := by simpa [pathMatchUnsupported] using hu
    have hv : pm.value.isSome = true := by
      unfold pathMatchAdm at ha; simp only [Bool.and_eq_true] at ha; exact ha.1
    obtain ⟨v, hv'⟩ := Option.isSome_iff_exists.mp hv
    have hpos : PanicSites.validatePathMatch valueOk (some pm) > 0 := by
      unfold PanicSites.validatePathMatch
      simp only [ht, hv']
      split
      · omega
      · have : ("RegularExpression" != "PathPrefix" && "RegularExpression" != "Exact") = true := by decide
        simp only [this, if_true]
        omega
    refine ⟨_, ?_, hpos⟩
    unfold pathMatchPipeline
    have : PanicSites.validatePathMatch valueOk (some pm) ≠ 0 := by omega
    simp [this]

example : pathMatchAdm (some ⟨some "RegularExpression", some "/a.*"⟩) = true := by decide

/-! ## §6 unsupported features surface as conditions -/

/-- Every admissible-but-unsupported value of the mirrored surfaces — a RequestMirror filter, a RegularExpression path
match, a backendRef of another group / kind or with backendRef filters, a listener protocol other than HTTP / HTTPS /
TLS, tls options, an HTTPS listener without exactly one core-Secret certificateRef, a TLS listener that does not pass
through, several / non-ConfigMap caCertificateRefs — makes the mirrored function report an error or condition
(which the graph turns into a status condition), never silence.  Judged on the REAL functions' outputs by
`ngfdriver_C05 ujudge` on every generated shape. -/
theorem unsupported_surfaces_as_condition :
    (∀ f : Filter, f.unsupported = true → filterPipeline f = .ok true)
    ∧ (∀ (valueOk : String → Bool) (p : Option PanicSites.PathMatch), pathMatchAdm p = true → pathMatchUnsupported p = true →
        ∃ n, pathMatchPipeline valueOk p = .ok n ∧ n > 0)
    ∧ (∀ r : BackendRefShape, r.unsupported = true → backendRefPipeline r = .ok false)
    ∧ (∀ l : ListenerIn, l.adm = true → l.unsupported = true → ∃ o, listenerPipeline l = .ok o ∧ o.hasConds = true)
    ∧ (∀ b : BtpShape, b.adm = true → b.unsupported = true → ∃ v n, processBtp b = .ok (v, n) ∧ n > 0) :=
  ⟨Filter.unsupported_reported, PathMatch.unsupported_reported, BackendRef.unsupported_reported,
   fun l ha hu => Listener.unsupported_reported l (Listener.adm_modeSet l ha) hu, Btp.unsupported_reported⟩

end NGF.NilGuards
