/-
`#audit_module M` prints, for every theorem declared in module `M` (private helpers included),
one line `AXIOMS <name> [<axioms>]`, and for every definition/opaque/axiom that is unsafe,
partial-implemented or an axiom one line `SUSPECT <name> <why>`.  The check script parses this
output; nothing here is trusted for the proofs themselves.
-/
import Lean
open Lean Elab Command

elab "#audit_module " id:ident : command => do
  let env ← getEnv
  let modName := id.getId
  let some idx := env.getModuleIdx? modName
    | throwError "module {modName} is not imported"
  let mut n := 0
  for (c, ci) in env.constants.map₁.toList do
    if env.getModuleIdxFor? c != some idx then continue
    match ci with
    | .thmInfo _ =>
      let axs ← liftCoreM (collectAxioms c)
      let axs := axs.qsort Name.lt
      IO.println s!"AXIOMS {c} {axs.toList}"
      n := n + 1
    | .axiomInfo _ => IO.println s!"SUSPECT {c} axiom"
    | .opaqueInfo v => if v.isUnsafe then IO.println s!"SUSPECT {c} unsafe-opaque"
    | .defnInfo v => if v.safety != .safe then IO.println s!"SUSPECT {c} unsafe-or-partial-def"
    | _ => pure ()
  IO.println s!"AUDITED {modName} theorems={n}"
