/-
C08 — helper lemmas about the equality helpers and one setter invocation.
-/
import NGF.Model.StatusWrite

namespace NGF.StatusWrite

def Cond.untimed (c : Cond) : Cond := { c with time := 0 }

/-- what `entryEq` compares -/
def ekey (k : Kind) (e : Entry) : String × List String × List Cond :=
  (e.ctlr, pick k.idx e.ref, e.conds.map Cond.untimed)

/-- what `wholeEntryEq` compares -/
def wkey (e : Entry) : List String × List Cond := (e.ref.map norm, e.conds.map Cond.untimed)

theorem condEq_iff (a b : Cond) : condEq a b = true ↔ a.untimed = b.untimed := by
  cases a; cases b
  simp only [condEq, Cond.untimed, bne_iff_ne, ne_eq, Cond.mk.injEq]
  constructor
  · intro h; split at h <;> simp_all
  · intro h; simp_all

theorem eqFunc_iff {α β : Type} (f : α → α → Bool) (key : α → β)
    (h : ∀ a b, f a b = true ↔ key a = key b) :
    ∀ l1 l2 : List α, eqFunc f l1 l2 = true ↔ l1.map key = l2.map key
  | [], [] => by simp [eqFunc]
  | [], _ :: _ => by simp [eqFunc]
  | _ :: _, [] => by simp [eqFunc]
  | a :: as, b :: bs => by simp [eqFunc, h, eqFunc_iff f key h as bs]

theorem condsEq_iff (a b : List Cond) : condsEq a b = true ↔ a.map Cond.untimed = b.map Cond.untimed :=
  eqFunc_iff condEq Cond.untimed condEq_iff a b

theorem entryEq_iff (k : Kind) (a b : Entry) : entryEq k a b = true ↔ ekey k a = ekey k b := by
  simp only [entryEq, ekey, bne_iff_ne, ne_eq, Prod.mk.injEq]
  constructor
  · intro h
    split at h; · simp at h
    split at h; · simp at h
    rename_i h1 h2
    exact ⟨by simpa using h1, by simpa using h2, (condsEq_iff _ _).1 h⟩
  · rintro ⟨h1, h2, h3⟩
    simp [h1, h2, (condsEq_iff _ _).2 h3]

theorem wholeEntryEq_iff (a b : Entry) : wholeEntryEq a b = true ↔ wkey a = wkey b := by
  simp [wholeEntryEq, wkey, condsEq_iff]

theorem wholeEq_iff (p c : Status) : wholeEq p c = true ↔ p.map wkey = c.map wkey :=
  eqFunc_iff wholeEntryEq wkey wholeEntryEq_iff p c

theorem ekey_ctlr {k : Kind} {a b : Entry} (h : ekey k a = ekey k b) : a.ctlr = b.ctlr := by
  simp only [ekey, Prod.mk.injEq] at h; exact h.1

theorem statusEq_iff (k : Kind) (c : String) (prev cur : Status) :
    statusEq k c prev cur = true ↔
      (∀ p ∈ prev, p.ctlr = c → ∃ x ∈ cur, ekey k p = ekey k x) ∧
      (∀ x ∈ cur, ∃ p ∈ prev, ekey k x = ekey k p) := by
  simp only [statusEq, Bool.and_eq_true, List.all_eq_true, Bool.or_eq_true, bne_iff_ne, ne_eq,
    List.any_eq_true, entryEq_iff]
  constructor
  · rintro ⟨h1, h2⟩
    refine ⟨fun p hp hc => ?_, h2⟩
    rcases h1 p hp with h | h
    · exact absurd hc h
    · exact h
  · rintro ⟨h1, h2⟩
    refine ⟨fun p hp => ?_, h2⟩
    by_cases hc : p.ctlr = c
    · exact Or.inr (h1 p hp hc)
    · exact Or.inl hc

/-! ### own / foreign parts -/

theorem mem_foreign {c : String} {l : Status} {e : Entry} : e ∈ foreign c l ↔ e ∈ l ∧ e.ctlr ≠ c := by
  simp [foreign]

theorem mem_own {c : String} {l : Status} {e : Entry} : e ∈ own c l ↔ e ∈ l ∧ e.ctlr = c := by
  simp [own]

theorem foreign_append (c : String) (a b : Status) : foreign c (a ++ b) = foreign c a ++ foreign c b := by
  simp [foreign]

theorem own_append (c : String) (a b : Status) : own c (a ++ b) = own c a ++ own c b := by
  simp [own]

theorem foreign_foreign (c : String) (l : Status) : foreign c (foreign c l) = foreign c l := by
  simp [foreign]

theorem own_foreign (c : String) (l : Status) : own c (foreign c l) = [] := by
  simp [own, foreign, List.filter_filter]

theorem foreign_of_allOwn {c : String} {l : Status} (h : ∀ e ∈ l, e.ctlr = c) : foreign c l = [] := by
  simp only [foreign, List.filter_eq_nil_iff, bne_iff_ne, ne_eq, Decidable.not_not]
  exact h

theorem own_of_allOwn {c : String} {l : Status} (h : ∀ e ∈ l, e.ctlr = c) : own c l = l := by
  simp only [own, List.filter_eq_self, beq_iff_eq]
  exact h

theorem foreign_of_allForeign {c : String} {l : Status} (h : ∀ e ∈ l, e.ctlr ≠ c) : foreign c l = l := by
  simp only [foreign, List.filter_eq_self, bne_iff_ne, ne_eq]
  exact h

theorem own_of_allForeign {c : String} {l : Status} (h : ∀ e ∈ l, e.ctlr ≠ c) : own c l = [] := by
  simp only [own, List.filter_eq_nil_iff, beq_iff_eq]
  exact h

/-! ### one invocation -/

/-- own entries of `prev` and the computed entries are the same set modulo lastTransitionTime -/
def SameOwn (k : Kind) (c : String) (prev cap : Status) : Prop :=
  (∀ p ∈ own c prev, ∃ x ∈ cap, ekey k p = ekey k x) ∧ (∀ x ∈ cap, ∃ p ∈ own c prev, ekey k x = ekey k p)

/-- a setter as the `Prepare*Requests` functions build it: the captured status holds own entries only -/
def Fresh (s : Setter) : Prop := ∀ e ∈ s.cap, e.ctlr = s.ctlr

def Merging (s : Setter) : Prop := s.kind.mode ≠ .whole

instance (s : Setter) : Decidable (Fresh s) := by unfold Fresh; exact inferInstance
instance (s : Setter) : Decidable (Merging s) := by unfold Merging; exact inferInstance

theorem merged_foreign {s : Setter} (hm : Merging s) (hf : Fresh s) (prev : Status) :
    foreign s.ctlr (merged s prev) = foreign s.ctlr prev := by
  unfold merged
  cases h : s.kind.mode with
  | whole => exact absurd h hm
  | ownFirst => simp [foreign_append, foreign_of_allOwn hf, foreign_foreign]
  | foreignFirst => simp [foreign_append, foreign_of_allOwn hf, foreign_foreign]

theorem merged_own {s : Setter} (hm : Merging s) (hf : Fresh s) (prev : Status) :
    own s.ctlr (merged s prev) = s.cap := by
  unfold merged
  cases h : s.kind.mode with
  | whole => exact absurd h hm
  | ownFirst => simp [own_append, own_of_allOwn hf, own_foreign]
  | foreignFirst => simp [own_append, own_of_allOwn hf, own_foreign]

/-- also for a setter whose captured status already holds foreign entries (re-invocation) -/
theorem merged_own_general {s : Setter} (hm : Merging s) (prev : Status) :
    own s.ctlr (merged s prev) = own s.ctlr s.cap := by
  unfold merged
  cases h : s.kind.mode with
  | whole => exact absurd h hm
  | ownFirst => simp [own_append, own_foreign]
  | foreignFirst => simp [own_append, own_foreign]

/-- nothing foreign is lost or reordered, whatever the closure had captured before -/
theorem merged_foreign_sublist {s : Setter} (hm : Merging s) (prev : Status) :
    (foreign s.ctlr prev).Sublist (foreign s.ctlr (merged s prev)) := by
  unfold merged
  cases h : s.kind.mode with
  | whole => exact absurd h hm
  | ownFirst =>
    simp only [foreign_append, foreign_foreign]
    exact List.sublist_append_right _ _
  | foreignFirst =>
    simp only [foreign_append, foreign_foreign]
    exact List.sublist_append_left _ _

theorem mem_merged {s : Setter} (hm : Merging s) (prev : Status) (e : Entry) :
    e ∈ merged s prev ↔ e ∈ s.cap ∨ e ∈ foreign s.ctlr prev := by
  unfold merged
  cases h : s.kind.mode with
  | whole => exact absurd h hm
  | ownFirst => simp
  | foreignFirst => simp [or_comm]

theorem equalCheck_merging {s : Setter} (hm : Merging s) (p c : Status) :
    equalCheck s p c = statusEq s.kind s.ctlr p c := by
  unfold equalCheck
  cases h : s.kind.mode with
  | whole => exact absurd h hm
  | ownFirst => rfl
  | foreignFirst => rfl

theorem equalCheck_iff_sameOwn {s : Setter} (hm : Merging s) (hf : Fresh s) (prev : Status) :
    equalCheck s prev (merged s prev) = true ↔ SameOwn s.kind s.ctlr prev s.cap := by
  rw [equalCheck_merging hm, statusEq_iff]
  unfold SameOwn
  constructor
  · rintro ⟨h1, h2⟩
    constructor
    · intro p hp
      obtain ⟨hp1, hp2⟩ := mem_own.1 hp
      obtain ⟨x, hx, hk⟩ := h1 p hp1 hp2
      rcases (mem_merged hm prev x).1 hx with hx | hx
      · exact ⟨x, hx, hk⟩
      · exact absurd ((ekey_ctlr hk).symm.trans hp2) (mem_foreign.1 hx).2
    · intro x hx
      obtain ⟨p, hp, hk⟩ := h2 x ((mem_merged hm prev x).2 (Or.inl hx))
      exact ⟨p, mem_own.2 ⟨hp, (ekey_ctlr hk).symm.trans (hf x hx)⟩, hk⟩
  · rintro ⟨h1, h2⟩
    constructor
    · intro p hp hc
      obtain ⟨x, hx, hk⟩ := h1 p (mem_own.2 ⟨hp, hc⟩)
      exact ⟨x, (mem_merged hm prev x).2 (Or.inl hx), hk⟩
    · intro x hx
      rcases (mem_merged hm prev x).1 hx with hx | hx
      · obtain ⟨p, hp, hk⟩ := h2 x hx
        exact ⟨p, (mem_own.1 hp).1, hk⟩
      · exact ⟨x, (mem_foreign.1 hx).1, rfl⟩

end NGF.StatusWrite
