/-
Dataflow of the guarded strings of a `Pipeline.Scenario` through `Render.genR` and `Render.render` (C04, text step):
if every guarded field is lexically safe (`PrintGuards.fieldsSafe`), every word of the rendered directive tree is
(`Print.dirsOK (render (genR s order))`), for all scenarios and port orders. Two steps:

  `confOK_genR`   fieldsSafe s → ConfOK (genR s order)     the lexical instance of the generic dataflow theorem
                                                           Proofs/PrintFlow `confP_genR`: every string of the enriched
                                                           configuration comes from a guarded field: server names from
                                                           listener/route hostnames (through findAcceptedHostnames), location
                                                           paths from match paths (`/` may be appended), BackendGroup sources
                                                           from route namespace/name, upstream names from backend targets,
                                                           redirect parts from the filter
  `dirsOK_render` ConfOK c → dirsOK (render c)             the templates add only safe literal text, numbers and mangled names
Core Lean only.
-/
import NGF.Model.PrintGuards
import NGF.Proofs.PrintLex
import NGF.Proofs.PrintFlow
import NGF.Proofs.SplitClientsPrint
import NGF.Proofs.Mangle

namespace NGF.Print
open NGF.Nginx NGF.Pipeline NGF.Render NGF.Mangle NGF.PrintGuards

/-! ### lexical helpers -/

theorem not_headChar {c : Char} (h : headChar c = false) :
    c = ' ' ∨ c = '\t' ∨ c = '\r' ∨ c = '\n' ∨ c = ';' ∨ c = '{' ∨ c = '}' ∨ c = '#' ∨ c = '\\' ∨ c = '"' ∨ c = '\'' := by
  simp only [headChar, isWs, Bool.not_eq_false', Bool.or_eq_true, beq_iff_eq] at h
  rcases h with (((((((((h | h) | h) | h) | h) | h) | h) | h) | h) | h) | h <;> simp [h]

theorem headChar_of {c : Char} (h : ∀ d ∈ [' ', '\t', '\r', '\n', ';', '{', '}', '#', '\\', '"', '\''], c ≠ d) :
    headChar c = true := by
  cases hc : headChar c with
  | true => rfl
  | false =>
    rcases not_headChar hc with e | e | e | e | e | e | e | e | e | e | e <;> exact absurd e (h _ (by simp))

theorem tailChar_of_headChar {c : Char} (h : headChar c = true) : tailChar c = true := by
  simp only [headChar, Bool.not_eq_true', Bool.or_eq_false_iff] at h
  simp only [tailChar, Bool.not_eq_true', Bool.or_eq_false_iff]
  exact ⟨⟨⟨h.1.1.1.1.1.1.1, h.1.1.1.1.1.1.2⟩, h.1.1.1.1.1.2⟩, h.1.1.2⟩

theorem headChar_of_isDigit {c : Char} (h : c.isDigit = true) : headChar c = true := by
  apply headChar_of
  intro d hd e
  subst e
  simp only [List.mem_cons, List.not_mem_nil, or_false] at hd
  rcases hd with rfl | rfl | rfl | rfl | rfl | rfl | rfl | rfl | rfl | rfl | rfl <;> simp [Char.isDigit] at h

/-- a non-empty word of token-start characters -/
theorem bareOK_of_all_head {l : List Char} (hne : l ≠ []) (h : ∀ c ∈ l, headChar c = true) : bareOK l = true := by
  cases l with
  | nil => exact absurd rfl hne
  | cons c t =>
    simp only [bareOK, Bool.and_eq_true, List.all_eq_true]
    exact ⟨h c (List.mem_cons_self ..), fun x hx => tailChar_of_headChar (h x (List.mem_cons_of_mem _ hx))⟩

theorem bareOK_tail {l : List Char} (h : bareOK l = true) : l.all tailChar = true := by
  cases l with
  | nil => simp [bareOK] at h
  | cons c t =>
    simp only [bareOK, Bool.and_eq_true] at h
    simp only [List.all_cons, Bool.and_eq_true]
    exact ⟨tailChar_of_headChar h.1, h.2⟩

theorem bareOK_append {a t : List Char} (ha : bareOK a = true) (ht : t.all tailChar = true) : bareOK (a ++ t) = true := by
  cases a with
  | nil => simp [bareOK] at ha
  | cons c r =>
    simp only [bareOK, Bool.and_eq_true] at ha
    simp only [List.cons_append, bareOK, Bool.and_eq_true, List.all_append]
    exact ⟨ha.1, ha.2, ht⟩

theorem bareOK_cons {c : Char} {t : List Char} (hc : headChar c = true) (ht : t.all tailChar = true) :
    bareOK (c :: t) = true := by simp [bareOK, hc, ht]

theorem bareOK_ne_nil {l : List Char} (h : bareOK l = true) : l ≠ [] := by
  intro e; subst e; simp [bareOK] at h

theorem digits_head (n : Nat) : ∀ c ∈ digits n, headChar c = true :=
  fun _ hc => headChar_of_isDigit (digits_isDigit hc)

theorem digits_tail (n : Nat) : (digits n).all tailChar = true :=
  List.all_eq_true.mpr fun c hc => tailChar_of_headChar (digits_head n c hc)

theorem bareOK_digits (n : Nat) : bareOK (digits n) = true := bareOK_of_all_head (digits_ne_nil n) (digits_head n)

theorem dqOK_append {a b : List Char} (ha : dqOK a = true) (hb : dqOK b = true) : dqOK (a ++ b) = true := by
  simp only [dqOK, List.all_append, Bool.and_eq_true] at *
  exact ⟨ha, hb⟩

theorem dqOK_digits (n : Nat) : dqOK (digits n) = true := by
  simp only [dqOK, List.all_eq_true, Bool.not_eq_true', Bool.or_eq_false_iff, beq_eq_false_iff_ne, ne_eq]
  intro c hc
  have := digits_isDigit hc
  constructor <;> (intro e; subst e; simp [Char.isDigit] at this)

/-- `convertStringToSafeVariableName` keeps tail characters -/
theorem safeVar_tail {l : List Char} (h : l.all tailChar = true) : (safeVar l).all tailChar = true := by
  simp only [safeVar, List.all_map, List.all_eq_true, Function.comp] at *
  intro c hc
  by_cases e : c = '-'
  · simp [e]; decide
  · simp [e, h c hc]

theorem groupVar_tail {ns name : List Char} (h1 : ns.all tailChar = true) (h2 : name.all tailChar = true) (i : Nat) :
    (groupVar ns name i).all tailChar = true := by
  apply safeVar_tail
  simp only [groupName, lit, List.all_append, Bool.and_eq_true]
  exact ⟨⟨⟨⟨by decide, h1⟩, by decide⟩, h2⟩, by decide⟩ |> fun h => ⟨h, digits_tail i⟩

/-! ### what `render` needs of a configuration -/

/-- the lexical instance of the field predicates -/
def lexP : Preds :=
  { host := fun h => bareOK h = true, path := fun p => bareOK p = true, name := fun n => n.all tailChar = true,
    target := fun t => bareOK t = true, dq := fun x => dqOK x = true }

abbrev SrcOK := SrcP lexP
abbrev BsOK := BsP lexP
abbrev ActOK := ActP lexP
abbrev LocActOK := LocActP lexP
abbrev RuleOK := RuleP lexP
abbrev ServerOK := ServerP lexP
abbrev ConfOK := ConfP lexP

/-! ### `render`: the templates add only safe text -/

theorem dirOK_dir {n : String} {args : List Render.Arg} (hn : bareOK n.toList = true) (ha : ∀ a ∈ args, argOK a = true) :
    dirOK (dir n args) = true := by
  simp only [dir, dirOK, Bool.and_eq_true, List.all_eq_true]
  exact ⟨hn, ha⟩

theorem dirOK_blk {n : String} {args : List Render.Arg} {ch : List Dir} (hn : bareOK n.toList = true)
    (ha : ∀ a ∈ args, argOK a = true) (hc : ∀ d ∈ ch, dirOK d = true) : dirOK (blk n args ch) = true := by
  simp only [blk, dirOK, Bool.and_eq_true, List.all_eq_true]
  exact ⟨⟨hn, ha⟩, (dirsOK_iff ch).mpr hc⟩

theorem argOK_w_lit {s : String} (h : bareOK s.toList = true) : argOK (w s) = true := by simpa [w, argOK] using h
theorem argOK_wl {s : List Char} (h : bareOK s = true) : argOK (wl s) = true := by simpa [wl, argOK] using h
theorem argOK_q {s : List Char} (h : dqOK s = true) : argOK (q s) = true := by simpa [q, argOK] using h

theorem listenDirs_ok (port : Nat) (extra : List String) (he : ∀ e ∈ extra, bareOK e.toList = true) :
    ∀ d ∈ listenDirs port extra, dirOK d = true := by
  intro d hd
  simp only [listenDirs, List.mem_cons, List.not_mem_nil, or_false] at hd
  have hex : ∀ a ∈ extra.map w, argOK a = true := by
    intro a ha
    obtain ⟨e, hee, rfl⟩ := List.mem_map.mp ha
    exact argOK_w_lit (he e hee)
  rcases hd with rfl | rfl
  · refine dirOK_dir (by decide) ?_
    intro a ha
    rcases List.mem_cons.mp ha with rfl | ha
    · exact argOK_wl (bareOK_digits port)
    · exact hex a ha
  · refine dirOK_dir (by decide) ?_
    intro a ha
    rcases List.mem_cons.mp ha with rfl | ha
    · exact argOK_wl (bareOK_append (by decide) (digits_tail port))
    · exact hex a ha

theorem renderDefault_ok (port : Nat) : dirOK (renderDefault port) = true := by
  refine dirOK_blk (by decide) (by simp) ?_
  intro d hd
  rcases List.mem_append.mp hd with hd | hd
  · exact listenDirs_ok port _ (by intro e he; simp at he; subst he; decide) d hd
  · simp only [List.mem_cons, List.not_mem_nil, or_false] at hd
    rcases hd with rfl | rfl <;> decide

theorem httpVersion_ok : dirOK httpVersion = true := by decide

theorem passHost_tail {src : Src} {bs : List Backend} (hs : SrcOK src) (hb : BsOK bs) :
    (passHost src bs).all tailChar = true := by
  unfold passHost
  split
  · decide
  · rename_i b
    split
    · decide
    · rename_i hv
      simp only [Bool.or_eq_true, beq_iff_eq, Bool.not_eq_true', not_or, Bool.not_eq_false] at hv
      exact bareOK_tail (hb b (by simp) hv.2)
  · simp only [List.all_cons, Bool.and_eq_true]
    exact ⟨by decide, groupVar_tail hs.1 hs.2 _⟩

theorem passTarget_ok {src : Src} {bs : List Backend} (hs : SrcOK src) (hb : BsOK bs) :
    bareOK (passTarget src bs) = true := by
  unfold passTarget
  rw [List.append_assoc]
  refine bareOK_append (by decide) ?_
  simp only [List.all_append, Bool.and_eq_true]
  exact ⟨passHost_tail hs hb, by decide⟩

theorem redirectBody_ok {sch host : Option Str} {port : Option Nat} (h1 : ∀ x, sch = some x → dqOK x = true)
    (h2 : ∀ x, host = some x → dqOK x = true) : dqOK (redirectBody sch host port) = true := by
  unfold redirectBody
  refine dqOK_append (dqOK_append (dqOK_append (dqOK_append ?_ (by decide)) ?_) ?_) (by decide)
  · cases sch with
    | none => decide
    | some x => exact h1 x rfl
  · cases host with
    | none => decide
    | some x => exact h2 x rfl
  · cases port with
    | none => decide
    | some p =>
      show dqOK (':' :: digits p) = true
      exact dqOK_append (a := [':']) (by decide) (dqOK_digits p)

theorem actDirs_ok {a : RAct} (h : ActOK a) : ∀ d ∈ actDirs a, dirOK d = true := by
  intro d hd
  cases a with
  | proxy src bs =>
    simp only [actDirs, List.mem_cons, List.mem_append, List.mem_map, List.not_mem_nil, or_false] at hd
    rcases hd with (rfl | ⟨hh, hmem, rfl⟩) | rfl
    · exact httpVersion_ok
    · -- the fixed header list
      have : ∀ hh ∈ baseHeaders, dirOK (dir "proxy_set_header" [w hh.1, q hh.2.toList]) = true := by decide
      exact this hh hmem
    · refine dirOK_dir (by decide) ?_
      intro x hx
      simp only [List.mem_cons, List.not_mem_nil, or_false] at hx
      subst hx
      exact argOK_wl (passTarget_ok h.1 h.2)
  | redirect code sch host port =>
    simp only [actDirs, List.mem_cons, List.not_mem_nil, or_false] at hd
    rcases hd with rfl | rfl
    · refine dirOK_dir (by decide) ?_
      intro x hx
      simp only [List.mem_cons, List.not_mem_nil, or_false] at hx
      rcases hx with rfl | rfl
      · exact argOK_wl (bareOK_digits code)
      · exact argOK_q (redirectBody_ok h.1 h.2)
    · exact httpVersion_ok
  | status code =>
    simp only [actDirs, List.mem_cons, List.not_mem_nil, or_false] at hd
    rcases hd with rfl | rfl
    · refine dirOK_dir (by decide) ?_
      intro x hx
      simp only [List.mem_cons, List.not_mem_nil, or_false] at hx
      rcases hx with rfl | rfl
      · exact argOK_wl (bareOK_digits code)
      · exact argOK_q (by decide)
    · exact httpVersion_ok

theorem locArgs_ok {k : Bool × Str} (h : bareOK k.2 = true) : ∀ a ∈ locArgs k, argOK a = true := by
  intro a ha
  unfold locArgs at ha
  split at ha
  · simp only [List.mem_cons, List.not_mem_nil, or_false] at ha
    rcases ha with rfl | rfl
    · decide
    · exact argOK_wl h
  · simp only [List.mem_cons, List.not_mem_nil, or_false] at ha
    subst ha
    exact argOK_wl h

theorem internalLocPath_ok (i j : Nat) : bareOK (internalLocPath i j) = true := by
  simp only [internalLocPath, lit, List.append_assoc]
  refine bareOK_append (by decide) ?_
  simp only [List.all_append, Bool.and_eq_true]
  exact ⟨by decide, digits_tail i, by decide, digits_tail j⟩

theorem njsDirs_ok (sid idx : Nat) : ∀ d ∈ njsDirs sid idx, dirOK d = true := by
  intro d hd
  simp only [njsDirs, List.mem_cons, List.not_mem_nil, or_false] at hd
  rcases hd with rfl | rfl | rfl
  · refine dirOK_dir (by decide) ?_
    intro x hx
    simp only [List.mem_cons, List.not_mem_nil, or_false] at hx
    rcases hx with rfl | rfl
    · decide
    · refine argOK_wl (bareOK_append (bareOK_digits sid) ?_)
      simp only [List.all_cons, Bool.and_eq_true]
      exact ⟨by decide, digits_tail idx⟩
  · decide
  · exact httpVersion_ok

theorem renderRule_ok (sid : Nat) {r : RRule} (h : RuleOK r) : ∀ d ∈ renderRule sid r, dirOK d = true := by
  intro d hd
  unfold renderRule at hd
  obtain ⟨hext, hact⟩ := h
  split at hd
  · rename_i a ha
    rw [ha] at hact
    obtain ⟨k, hk, rfl⟩ := List.mem_map.mp hd
    exact dirOK_blk (by decide) (locArgs_ok (hext k hk)) (actDirs_ok hact)
  · rename_i ms hms
    rw [hms] at hact
    rcases List.mem_append.mp hd with hd | hd
    · obtain ⟨k, hk, rfl⟩ := List.mem_map.mp hd
      exact dirOK_blk (by decide) (locArgs_ok (hext k hk)) (njsDirs_ok sid r.idx)
    · obtain ⟨jm, hjm, rfl⟩ := List.mem_map.mp hd
      refine dirOK_blk (by decide) ?_ ?_
      · intro a ha
        simp only [List.mem_cons, List.not_mem_nil, or_false] at ha
        subst ha
        exact argOK_wl (internalLocPath_ok _ _)
      · intro x hx
        rcases List.mem_cons.mp hx with rfl | hx
        · decide
        · exact actDirs_ok (hact jm.2 (enumFrom_mem_snd hjm)) x hx

theorem rootLoc_ok : dirOK rootLoc = true := by
  refine dirOK_blk (by decide) (by decide) ?_
  exact actDirs_ok (a := .status 404) trivial

theorem renderServer_ok {sv : RServer} (h : ServerOK sv) : dirOK (renderServer sv) = true := by
  refine dirOK_blk (by decide) (by simp) ?_
  intro d hd
  simp only [List.mem_append, List.mem_flatMap] at hd
  rcases hd with ((hd | hd) | ⟨r, hr, hd⟩) | hd
  · exact listenDirs_ok sv.port [] (by simp) d hd
  · simp only [List.mem_cons, List.not_mem_nil, or_false] at hd
    subst hd
    refine dirOK_dir (by decide) ?_
    intro a ha
    simp only [List.mem_cons, List.not_mem_nil, or_false] at ha
    subst ha
    exact argOK_wl h.1
  · have : r ∈ sv.rules := by
      unfold sortRules at hr
      exact List.mem_mergeSort.mp hr
    exact renderRule_ok sv.sid (h.2 r this) d hd
  · split at hd
    · simp only [List.mem_cons, List.not_mem_nil, or_false] at hd
      subst hd; exact rootLoc_ok
    · simp at hd

theorem serverDirs_ok {c : ConfR} (h : ∀ sv ∈ c.servers, ServerOK sv) : ∀ d ∈ serverDirs c, dirOK d = true := by
  intro d hd
  unfold serverDirs at hd
  obtain ⟨p, hp, rfl⟩ := List.mem_map.mp hd
  have hp := List.mem_mergeSort.mp hp
  rcases List.mem_append.mp hp with hp | hp
  · obtain ⟨x, _, rfl⟩ := List.mem_map.mp hp
    exact renderDefault_ok _
  · obtain ⟨sv, hsv, rfl⟩ := List.mem_map.mp hp
    exact renderServer_ok (h sv hsv)

theorem tailServers_ok : ∀ d ∈ tailServers, dirOK d = true := by decide

/-- `%.2f` of a share followed by `%` -/
theorem pctName_ok (c : Nat) : bareOK (pctName c) = true := by
  obtain ⟨i1, _⟩ := NGF.SplitClientsJudge.natDigitsAux_spec (c / 100 + 1) (c / 100) [] (by omega) (by intro c hc; simp at hc)
  have a := NGF.SplitClientsJudge.digitChar_props (c % 100 / 10)
  have b := NGF.SplitClientsJudge.digitChar_props (c % 10)
  apply bareOK_of_all_head
  · simp [pctName, NGF.SplitClients.centsDec, NGF.F64.Dec2.chars]
  · intro x hx
    simp only [pctName, NGF.SplitClients.centsDec, NGF.F64.Dec2.chars, Bool.false_eq_true, if_false, List.nil_append,
      List.mem_append, List.mem_cons, List.not_mem_nil, or_false, NGF.F64.natDigits] at hx
    rcases hx with (hx | rfl | rfl | rfl) | rfl
    · exact headChar_of_isDigit (i1 x hx).1
    · decide
    · exact headChar_of_isDigit a.1
    · exact headChar_of_isDigit b.1
    · decide

theorem invalidBackendRef_ok : bareOK invalidBackendRef = true := by decide

theorem valueOf_ok {bs : List Backend} (h : BsOK bs) {b : Backend} (hb : b ∈ bs) : bareOK (valueOf b) = true := by
  unfold valueOf
  split
  · rename_i hv; exact h b hb hv
  · exact invalidBackendRef_ok

theorem zipDist_mem : ∀ {bs : List Backend} {cs : List Nat} {vc : Str × Nat}, vc ∈ zipDist bs cs → ∃ b ∈ bs, vc.1 = valueOf b
  | [], _, _, h => by simp [zipDist] at h
  | _ :: _, [], _, h => by simp [zipDist] at h
  | b :: bs, c :: cs, vc, h => by
    simp only [zipDist, List.mem_cons] at h
    rcases h with rfl | h
    · exact ⟨b, by simp, rfl⟩
    · obtain ⟨b', hb', e⟩ := zipDist_mem h
      exact ⟨b', List.mem_cons_of_mem _ hb', e⟩

theorem splitEntries_ok {bs : List Backend} (h : BsOK bs) : ∀ d ∈ splitEntries bs, dirOK d = true := by
  intro d hd
  unfold splitEntries at hd
  simp only at hd
  split at hd
  · simp only [List.mem_cons, List.not_mem_nil, or_false] at hd
    subst hd; decide
  · obtain ⟨vc, hvc, hsome⟩ := List.mem_filterMap.mp hd
    split at hsome
    · cases hsome
    · simp only [Option.some.injEq] at hsome
      subst hsome
      obtain ⟨b, hb, e⟩ := zipDist_mem hvc
      simp only [dirOK, Bool.and_eq_true, List.all_cons, List.all_nil, Bool.and_true]
      exact ⟨pctName_ok _, by rw [show argOK (wl vc.1) = bareOK vc.1 from rfl, e]; exact valueOf_ok h hb⟩

theorem splitBlock_ok {g : Src × List Backend} (hs : SrcOK g.1) (hb : BsOK g.2) : dirOK (splitBlock g) = true := by
  refine dirOK_blk (by decide) ?_ (splitEntries_ok hb)
  intro a ha
  simp only [List.mem_cons, List.not_mem_nil, or_false] at ha
  rcases ha with rfl | rfl
  · decide
  · exact argOK_wl (bareOK_cons (by decide) (groupVar_tail hs.1 hs.2 _))

/-- **The templates add only safe text**: if the strings of the configuration are safe, so is every word of the tree. -/
theorem dirsOK_render {c : ConfR} (h : ConfOK c) : dirsOK (render c) = true := by
  rw [dirsOK_iff]
  intro d hd
  simp only [render, List.mem_cons, List.mem_append] at hd
  rcases hd with ((rfl | hd) | hd) | hd
  · decide
  · exact serverDirs_ok h.1 d hd
  · exact tailServers_ok d hd
  · unfold splitDirs at hd
    obtain ⟨g, hg, rfl⟩ := List.mem_map.mp hd
    have := h.2 g (List.mem_filter.mp hg).1
    exact splitBlock_ok this.1 this.2

/-! ### `genR`: the lexical instance of the generic dataflow theorem -/

theorem fieldsP_of_safe {s : Scenario} (hs : fieldsSafe s = true) : FieldsP lexP s := by
  simp only [fieldsSafe, Bool.and_eq_true, List.all_eq_true] at hs
  refine ⟨?_, ?_⟩
  · intro g hg l hl
    have := hs.1 g hg l hl
    simp only [listenerSafe, Bool.or_eq_true, List.isEmpty_iff] at this
    exact this
  · intro r hr hv
    have := hs.2 r hr
    simp only [routeSafe, hv, Bool.not_true, Bool.false_or, Bool.and_eq_true, List.all_eq_true, ruleSafe] at this
    refine ⟨List.all_eq_true.mpr this.1.1.1, List.all_eq_true.mpr this.1.1.2, this.1.2, ?_⟩
    intro rule hrule
    refine ⟨(this.2 rule hrule).1, ?_⟩
    have ha := (this.2 rule hrule).2
    cases hact : rule.action with
    | redirect code sch host port =>
      rw [hact] at ha
      simp only [actionSafe, Bool.and_eq_true] at ha
      refine ⟨?_, ?_⟩
      · intro x hx; subst hx; show dqOK x = true; simpa using ha.1
      · intro x hx; subst hx; show dqOK x = true; simpa using ha.2
    | forward bs =>
      rw [hact] at ha
      simp only [actionSafe, List.all_eq_true, Bool.or_eq_true, Bool.not_eq_true'] at ha
      intro b hb hv'
      rcases ha b hb with e | e
      · rw [hv'] at e; cases e
      · exact e

/-- every string of `genR s order` is a guarded field (or one with `/` appended, or the fixed `~^`) -/
theorem confOK_genR {s : Scenario} (hs : fieldsSafe s = true) (order : List Nat) : ConfOK (genR s order) :=
  confP_genR (P := lexP) (by show bareOK Hostname.wildcardHostname = true; decide) (fun _ hp => bareOK_append hp (by decide)) (fieldsP_of_safe hs) order

/-- **Safe fields give safe words**, for every scenario and port order. -/
theorem dirsOK_render_genR {s : Scenario} (hs : fieldsSafe s = true) (order : List Nat) :
    dirsOK (render (genR s order)) = true := dirsOK_render (confOK_genR hs order)

end NGF.Print
