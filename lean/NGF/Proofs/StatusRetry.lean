/-
C08 — invariants of the retry loop `runRetry` (for every number of steps, store and schedule).
-/
import NGF.Proofs.StatusWrite

namespace NGF.StatusWrite

theorem runRetry_succ (inv : Invoke) (n : Nat) (r : Run) (sched : List Op) :
    runRetry inv (n + 1) r sched =
      if (attempt inv r (sched.headD .ok)).2 then (attempt inv r (sched.headD .ok)).1
      else runRetry inv n (attempt inv r (sched.headD .ok)).1 sched.tail := rfl

/-- Loop rule: `I` holds while the loop continues, `Q` holds for whatever it returns. -/
theorem runRetry_inv (inv : Invoke) (I Q : Run → Prop) (hIQ : ∀ r, I r → Q r)
    (hstep : ∀ r op, I r →
      Q (attempt inv r op).1 ∧ ((attempt inv r op).2 = false → I (attempt inv r op).1)) :
    ∀ n r sched, I r → Q (runRetry inv n r sched)
  | 0, r, _, h => by simpa [runRetry] using hIQ r h
  | n + 1, r, sched, h => by
    obtain ⟨hq, hi⟩ := hstep r (sched.headD .ok) h
    rw [runRetry_succ]
    cases hd : (attempt inv r (sched.headD .ok)).2 with
    | true => simpa using hq
    | false => simpa using runRetry_inv inv I Q hIQ hstep n _ sched.tail (hi hd)

theorem invoke_fst (s : Setter) (p : Status) : (s.invoke p).1 = s := by
  unfold Setter.invoke; simp only []; split <;> rfl

theorem invokeMutating_snd (s : Setter) (p : Status) : (s.invokeMutating p).2 = (s.invoke p).2 := by
  unfold Setter.invokeMutating Setter.invoke; simp only []; split <;> rfl

theorem invokeMutating_fst (s : Setter) (p : Status) : (s.invokeMutating p).1 = { s with cap := merged s p } := by
  unfold Setter.invokeMutating; simp only []; split <;> rfl

/-- result of one invocation in terms of `merged` / `equalCheck` -/
theorem invoke_snd (s : Setter) (p : Status) :
    (s.invoke p).2 =
      if equalCheck s p (merged s p) then (p, false) else (merged s p, true) := by
  unfold Setter.invoke; simp only []; split <;> rfl

/-! ### the four shapes of one attempt -/

theorem attempt_getErr (inv : Invoke) (r : Run) :
    attempt inv r .getErr = ({ r with calls := r.calls ++ [.get false] }, false) := rfl

theorem attempt_notFound (inv : Invoke) (r : Run) :
    attempt inv r .notFound = ({ r with calls := r.calls ++ [.get false] }, true) := rfl

/-- the setter says "nothing to do": no Update, the loop is done -/
theorem attempt_noop (inv : Invoke) (r : Run) (op : Op) (hop : op = .ok ∨ ∃ p, op = .updFail p)
    (h : (inv r.setter r.store).2.2 = false) :
    attempt inv r op =
      ({ r with setter := (inv r.setter r.store).1, calls := r.calls ++ [.get true],
                invocations := r.invocations + 1 }, true) := by
  rcases hres : inv r.setter r.store with ⟨s', out, w⟩
  rw [hres] at h
  simp only at h
  subst h
  rcases hop with rfl | ⟨p, rfl⟩ <;> simp [attempt, hres]

theorem attempt_ok_set (inv : Invoke) (r : Run) (h : (inv r.setter r.store).2.2 = true) :
    attempt inv r .ok =
      ({ r with setter := (inv r.setter r.store).1,
                calls := r.calls ++ [.get true] ++ [.update r.store (inv r.setter r.store).2.1 true],
                store := (inv r.setter r.store).2.1, writes := r.writes + 1,
                invocations := r.invocations + 1 }, true) := by
  rcases hres : inv r.setter r.store with ⟨s', out, w⟩
  rw [hres] at h
  simp only at h
  subst h
  simp [attempt, hres]

theorem attempt_updFail_set (inv : Invoke) (r : Run) (poke : Option Status)
    (h : (inv r.setter r.store).2.2 = true) :
    attempt inv r (.updFail poke) =
      ({ r with setter := (inv r.setter r.store).1,
                calls := r.calls ++ [.get true] ++ [.update r.store (inv r.setter r.store).2.1 false],
                store := poke.getD r.store,
                invocations := r.invocations + 1 }, false) := by
  rcases hres : inv r.setter r.store with ⟨s', out, w⟩
  rw [hres] at h
  simp only at h
  subst h
  simp [attempt, hres]

/-- Case analysis used by every invariant proof below. -/
theorem attempt_cases (inv : Invoke) (r : Run) (op : Op) (P : Run × Bool → Prop)
    (h1 : P ({ r with calls := r.calls ++ [.get false] }, false))
    (h2 : P ({ r with calls := r.calls ++ [.get false] }, true))
    (h3 : (inv r.setter r.store).2.2 = false →
      P ({ r with setter := (inv r.setter r.store).1, calls := r.calls ++ [.get true],
                  invocations := r.invocations + 1 }, true))
    (h4 : (inv r.setter r.store).2.2 = true →
      P ({ r with setter := (inv r.setter r.store).1,
                  calls := r.calls ++ [.get true] ++ [.update r.store (inv r.setter r.store).2.1 true],
                  store := (inv r.setter r.store).2.1, writes := r.writes + 1,
                  invocations := r.invocations + 1 }, true))
    (h5 : ∀ poke : Option Status, (inv r.setter r.store).2.2 = true →
      P ({ r with setter := (inv r.setter r.store).1,
                  calls := r.calls ++ [.get true] ++ [.update r.store (inv r.setter r.store).2.1 false],
                  store := poke.getD r.store, invocations := r.invocations + 1 }, false)) :
    P (attempt inv r op) := by
  cases op with
  | getErr => exact h1
  | notFound => exact h2
  | ok =>
    cases hw : (inv r.setter r.store).2.2 with
    | false => rw [attempt_noop inv r .ok (Or.inl rfl) hw]; exact h3 hw
    | true => rw [attempt_ok_set inv r hw]; exact h4 hw
  | updFail poke =>
    cases hw : (inv r.setter r.store).2.2 with
    | false => rw [attempt_noop inv r _ (Or.inr ⟨poke, rfl⟩) hw]; exact h3 hw
    | true => rw [attempt_updFail_set inv r poke hw]; exact h5 poke hw

/-! ### stateless invocation (the code in the tree): every submission is the first-invocation result of the ORIGINAL setter -/

theorem retryStateless_submissions (inv : Invoke) (s : Setter) (hst : ∀ p, (inv s p).1 = s)
    (n : Nat) (store : Status) (sched : List Op) :
    ∀ prev sub ok, Call.update prev sub ok ∈ (runRetry inv n (Run.init s store) sched).calls →
      (inv s prev).2 = (sub, true) := by
  let I : Run → Prop := fun r =>
    r.setter = s ∧ ∀ prev sub ok, Call.update prev sub ok ∈ r.calls → (inv s prev).2 = (sub, true)
  have key : I (runRetry inv n (Run.init s store) sched) := by
    refine runRetry_inv _ I I (fun _ h => h) ?_ n _ sched ⟨rfl, by simp [Run.init]⟩
    intro r op ⟨hs, hc⟩
    have hfst : (inv r.setter r.store).1 = s := by rw [hs]; exact hst _
    apply attempt_cases inv r op (fun x => I x.1 ∧ (x.2 = false → I x.1))
    · refine ⟨⟨hs, ?_⟩, fun _ => ⟨hs, ?_⟩⟩ <;> intro p sub ok hm <;> simp at hm <;> exact hc _ _ _ hm
    · refine ⟨⟨hs, ?_⟩, fun _ => ⟨hs, ?_⟩⟩ <;> intro p sub ok hm <;> simp at hm <;> exact hc _ _ _ hm
    · intro _
      refine ⟨⟨hfst, ?_⟩, fun _ => ⟨hfst, ?_⟩⟩ <;> intro p sub ok hm <;> simp at hm <;> exact hc _ _ _ hm
    · intro hw
      have : ∀ p sub ok, Call.update p sub ok ∈
          r.calls ++ [Call.get true] ++ [Call.update r.store (inv r.setter r.store).2.1 true] →
          (inv s p).2 = (sub, true) := by
        intro p sub ok hm
        simp at hm
        rcases hm with hm | ⟨rfl, rfl, rfl⟩
        · exact hc _ _ _ hm
        · rw [← hs]; exact Prod.ext rfl hw
      exact ⟨⟨hfst, this⟩, fun _ => ⟨hfst, this⟩⟩
    · intro poke hw
      have : ∀ p sub ok, Call.update p sub ok ∈
          r.calls ++ [Call.get true] ++ [Call.update r.store (inv r.setter r.store).2.1 false] →
          (inv s p).2 = (sub, true) := by
        intro p sub ok hm
        simp at hm
        rcases hm with hm | ⟨rfl, rfl, rfl⟩
        · exact hc _ _ _ hm
        · rw [← hs]; exact Prod.ext rfl hw
      exact ⟨⟨hfst, this⟩, fun _ => ⟨hfst, this⟩⟩
  exact key.2

theorem retry_submissions (s : Setter) (n : Nat) (store : Status) (sched : List Op) :
    ∀ prev sub ok, Call.update prev sub ok ∈
        (runRetry Setter.invoke n (Run.init s store) sched).calls →
      (s.invoke prev).2 = (sub, true) :=
  retryStateless_submissions Setter.invoke s (invoke_fst s) n store sched

theorem invokeMutating_fst_whole (s : Setter) (h : s.kind.mode = .whole) (p : Status) : (s.invokeMutating p).1 = s := by
  rw [invokeMutating_fst]; unfold merged; rw [h]

theorem retryWhole_submissions (s : Setter) (h : s.kind.mode = .whole) (n : Nat) (store : Status)
    (sched : List Op) :
    ∀ prev sub ok, Call.update prev sub ok ∈ (runRetry Setter.invokeMutating n (Run.init s store) sched).calls →
      (s.invokeMutating prev).2 = (sub, true) :=
  retryStateless_submissions Setter.invokeMutating s (invokeMutating_fst_whole s h) n store sched

/-! ### pre-fix mutating variant: what survives re-invocation, and what holds for a single invocation -/

structure RetryInv (s : Setter) (r : Run) : Prop where
  kind : r.setter.kind = s.kind
  ctlr : r.setter.ctlr = s.ctlr
  ownCap : own s.ctlr r.setter.cap = s.cap
  fresh : r.invocations = 0 → r.setter.cap = s.cap
  subs : ∀ prev sub ok, Call.update prev sub ok ∈ r.calls →
    own s.ctlr sub = s.cap ∧ (foreign s.ctlr prev).Sublist (foreign s.ctlr sub)
  single : r.invocations ≤ 1 → ∀ prev sub ok, Call.update prev sub ok ∈ r.calls →
    (s.invoke prev).2 = (sub, true)

theorem invoke_out_of_set (t : Setter) (p : Status) (h : (t.invoke p).2.2 = true) :
    (t.invoke p).2.1 = merged t p := by
  rw [invoke_snd] at *
  split at h <;> simp_all

theorem invokeMutating_out_of_set (t : Setter) (p : Status) (h : (t.invokeMutating p).2.2 = true) :
    (t.invokeMutating p).2.1 = merged t p := by
  rw [invokeMutating_snd] at *
  exact invoke_out_of_set t p h

theorem retry_invariant (s : Setter) (hm : Merging s) (hf : Fresh s) (n : Nat) (store : Status)
    (sched : List Op) : RetryInv s (runRetry Setter.invokeMutating n (Run.init s store) sched) := by
  refine runRetry_inv _ (RetryInv s) (RetryInv s) (fun _ h => h) ?_ n _ sched ?_
  · intro r op hI
    have hmt : Merging r.setter := by unfold Merging; rw [hI.kind]; exact hm
    -- facts about the closure state after an invocation
    have hk' : (Setter.invokeMutating r.setter r.store).1.kind = s.kind := by rw [invokeMutating_fst]; exact hI.kind
    have hc' : (Setter.invokeMutating r.setter r.store).1.ctlr = s.ctlr := by rw [invokeMutating_fst]; exact hI.ctlr
    have ho' : own s.ctlr (Setter.invokeMutating r.setter r.store).1.cap = s.cap := by
      rw [invokeMutating_fst]; simp only []
      rw [← hI.ctlr, merged_own_general hmt, hI.ctlr]; exact hI.ownCap
    have hsub : (Setter.invokeMutating r.setter r.store).2.2 = true →
        own s.ctlr (Setter.invokeMutating r.setter r.store).2.1 = s.cap ∧
        (foreign s.ctlr r.store).Sublist (foreign s.ctlr (Setter.invokeMutating r.setter r.store).2.1) := by
      intro hw
      rw [invokeMutating_out_of_set _ _ hw, ← hI.ctlr]
      exact ⟨by rw [merged_own_general hmt, hI.ctlr]; exact hI.ownCap, merged_foreign_sublist hmt _⟩
    have hsingle : r.invocations + 1 ≤ 1 → (Setter.invokeMutating r.setter r.store).2.2 = true →
        (s.invoke r.store).2 = ((Setter.invokeMutating r.setter r.store).2.1, true) := by
      intro hle hw
      have h0 : r.invocations = 0 := by omega
      have hts : r.setter = s := by
        have h1 := hI.fresh h0
        have h2 := hI.kind
        have h3 := hI.ctlr
        cases hr : r.setter; cases s
        simp_all
      rw [← hts, ← invokeMutating_snd]
      exact Prod.ext rfl hw
    apply attempt_cases Setter.invokeMutating r op (fun x => RetryInv s x.1 ∧ (x.2 = false → RetryInv s x.1))
    · have : RetryInv s { r with calls := r.calls ++ [Call.get false] } :=
        ⟨hI.kind, hI.ctlr, hI.ownCap, hI.fresh,
          fun p sub ok hm => hI.subs p sub ok (by simpa using hm),
          fun hle p sub ok hm => hI.single hle p sub ok (by simpa using hm)⟩
      exact ⟨this, fun _ => this⟩
    · have : RetryInv s { r with calls := r.calls ++ [Call.get false] } :=
        ⟨hI.kind, hI.ctlr, hI.ownCap, hI.fresh,
          fun p sub ok hm => hI.subs p sub ok (by simpa using hm),
          fun hle p sub ok hm => hI.single hle p sub ok (by simpa using hm)⟩
      exact ⟨this, fun _ => this⟩
    · intro _
      have : RetryInv s ({ r with setter := (Setter.invokeMutating r.setter r.store).1
                                  calls := r.calls ++ [Call.get true]
                                  invocations := r.invocations + 1 } : Run) :=
        ⟨hk', hc', ho', fun h => by simp at h,
          fun p sub ok hm => hI.subs p sub ok (by simpa using hm),
          fun hle p sub ok hm => hI.single (by simp at hle; omega) p sub ok (by simpa using hm)⟩
      exact ⟨this, fun _ => this⟩
    · intro hw
      have : RetryInv s ({ r with
          setter := (Setter.invokeMutating r.setter r.store).1
          calls := r.calls ++ [Call.get true] ++ [Call.update r.store (Setter.invokeMutating r.setter r.store).2.1 true]
          store := (Setter.invokeMutating r.setter r.store).2.1
          writes := r.writes + 1
          invocations := r.invocations + 1 } : Run) := by
        refine ⟨hk', hc', ho', fun h => by simp at h, ?_, ?_⟩
        · intro p sub ok hmem
          simp at hmem
          rcases hmem with hmem | ⟨rfl, rfl, rfl⟩
          · exact hI.subs _ _ _ hmem
          · exact hsub hw
        · intro hle p sub ok hmem
          simp at hmem hle
          rcases hmem with hmem | ⟨rfl, rfl, rfl⟩
          · exact hI.single (by omega) _ _ _ hmem
          · exact hsingle (by omega) hw
      exact ⟨this, fun _ => this⟩
    · intro poke hw
      have : RetryInv s ({ r with
          setter := (Setter.invokeMutating r.setter r.store).1
          calls := r.calls ++ [Call.get true] ++ [Call.update r.store (Setter.invokeMutating r.setter r.store).2.1 false]
          store := poke.getD r.store
          invocations := r.invocations + 1 } : Run) := by
        refine ⟨hk', hc', ho', fun h => by simp at h, ?_, ?_⟩
        · intro p sub ok hmem
          simp at hmem
          rcases hmem with hmem | ⟨rfl, rfl, rfl⟩
          · exact hI.subs _ _ _ hmem
          · exact hsub hw
        · intro hle p sub ok hmem
          simp at hmem hle
          rcases hmem with hmem | ⟨rfl, rfl, rfl⟩
          · exact hI.single (by omega) _ _ _ hmem
          · exact hsingle (by omega) hw
      exact ⟨this, fun _ => this⟩
  · exact ⟨rfl, rfl, own_of_allOwn hf, fun _ => rfl, by simp [Run.init], by simp [Run.init]⟩

/-! ### protocol facts that hold for any invocation function -/

def isGet : Call → Bool
  | .get _ => true
  | _ => false

def Run.gets (r : Run) : Nat := (r.calls.filter isGet).length

theorem attempt_gets (inv : Invoke) (r : Run) (op : Op) : (attempt inv r op).1.gets = r.gets + 1 := by
  apply attempt_cases inv r op (fun x => x.1.gets = r.gets + 1) <;>
    simp [Run.gets, List.filter_append, List.filter_cons, isGet]

/-- at most `n` attempts: one Get per attempt -/
theorem retry_gets_le (inv : Invoke) : ∀ (n : Nat) (r : Run) (sched : List Op),
    (runRetry inv n r sched).gets ≤ r.gets + n
  | 0, r, _ => by simp [runRetry]
  | n + 1, r, sched => by
    rw [runRetry_succ]
    split
    · rw [attempt_gets]; omega
    · have := retry_gets_le inv n (attempt inv r (sched.headD .ok)).1 sched.tail
      rw [attempt_gets] at this; omega

/-- at most one successful write, and it ends the loop: the stored status is the last submission -/
theorem retry_writes (inv : Invoke) (n : Nat) (r : Run) (sched : List Op) (h0 : r.writes = 0) :
    let r' := runRetry inv n r sched
    r'.writes = 0 ∨ (r'.writes = 1 ∧ ∃ prev, r'.calls.getLast? = some (.update prev r'.store true)) := by
  refine runRetry_inv inv (fun r => r.writes = 0)
    (fun r' => r'.writes = 0 ∨ (r'.writes = 1 ∧ ∃ prev, r'.calls.getLast? = some (.update prev r'.store true)))
    (fun _ h => Or.inl h) ?_ n r sched h0
  intro r op h
  apply attempt_cases inv r op (fun x =>
    (x.1.writes = 0 ∨ (x.1.writes = 1 ∧ ∃ prev, x.1.calls.getLast? = some (.update prev x.1.store true))) ∧
    (x.2 = false → x.1.writes = 0))
  · exact ⟨Or.inl h, fun _ => h⟩
  · exact ⟨Or.inl h, fun _ => h⟩
  · exact fun _ => ⟨Or.inl h, fun _ => h⟩
  · intro _
    refine ⟨Or.inr ⟨by simp [h], r.store, by simp⟩, fun hf => by simp at hf⟩
  · exact fun _ _ => ⟨Or.inl h, fun _ => h⟩

/-! ### no-op: nothing is written when the own entries are unchanged modulo time -/

theorem invoke_wasSet_false_iff {s : Setter} (hm : Merging s) (hf : Fresh s) (prev : Status) :
    (s.invoke prev).2.2 = false ↔ SameOwn s.kind s.ctlr prev s.cap := by
  rw [invoke_snd, ← equalCheck_iff_sameOwn hm hf]
  split <;> simp_all

theorem invokeMutating_wasSet_false_iff {s : Setter} (hm : Merging s) (hf : Fresh s) (prev : Status) :
    (s.invokeMutating prev).2.2 = false ↔ SameOwn s.kind s.ctlr prev s.cap := by
  rw [invokeMutating_snd]; exact invoke_wasSet_false_iff hm hf prev

/-- for any invocation function: if the ORIGINAL setter says "nothing to do" on the stored status,
the loop never submits anything and leaves the store alone, whatever the schedule -/
theorem retry_noop_gen (inv : Invoke) (s : Setter) (n : Nat) (store : Status) (sched : List Op)
    (h : (inv s store).2.2 = false) :
    let r := runRetry inv n (Run.init s store) sched
    r.store = store ∧ r.writes = 0 ∧ ∀ p sub ok, Call.update p sub ok ∉ r.calls := by
  let Q : Run → Prop := fun r => r.store = store ∧ r.writes = 0 ∧ ∀ p sub ok, Call.update p sub ok ∉ r.calls
  refine runRetry_inv _ (fun r => r.setter = s ∧ Q r) Q (fun _ h => h.2) ?_ n _ sched
    ⟨rfl, rfl, rfl, by simp [Run.init]⟩
  intro r op ⟨hs, hst, hw, hc⟩
  have hno : (inv r.setter r.store).2.2 = false := by rw [hs, hst]; exact h
  apply attempt_cases inv r op (fun x => Q x.1 ∧ (x.2 = false → x.1.setter = s ∧ Q x.1))
  · have : Q { r with calls := r.calls ++ [Call.get false] } :=
      ⟨hst, hw, fun p sub ok hm => hc p sub ok (by simpa using hm)⟩
    exact ⟨this, fun _ => ⟨hs, this⟩⟩
  · have : Q { r with calls := r.calls ++ [Call.get false] } :=
      ⟨hst, hw, fun p sub ok hm => hc p sub ok (by simpa using hm)⟩
    exact ⟨this, fun _ => ⟨hs, this⟩⟩
  · intro _
    refine ⟨⟨hst, hw, fun p sub ok hm => hc p sub ok (by simpa using hm)⟩, fun hf => by simp at hf⟩
  · intro hw'; rw [hno] at hw'; exact absurd hw' (by simp)
  · intro _ hw'; rw [hno] at hw'; exact absurd hw' (by simp)

theorem retry_noop (s : Setter) (hm : Merging s) (hf : Fresh s) (n : Nat) (store : Status)
    (sched : List Op) (h : SameOwn s.kind s.ctlr store s.cap) :
    let r := runRetry Setter.invoke n (Run.init s store) sched
    r.store = store ∧ r.writes = 0 ∧ ∀ p sub ok, Call.update p sub ok ∉ r.calls :=
  retry_noop_gen Setter.invoke s n store sched ((invoke_wasSet_false_iff hm hf store).2 h)

end NGF.StatusWrite
