/-
Helper lemmas about the PCRE-subset scanner of the C03 judge (NGF.WF.reScan). Core Lean only.
-/
import NGF.Spec.WellFormedConf

namespace NGF.WF

/-- characters without a meaning in PCRE -/
def plainRe (c : Char) : Bool :=
  c != '\\' && c != '[' && c != '(' && c != ')' && c != '*' && c != '+' && c != '?' && c != '{' && c != '|' && c != '^' && c != '$'

theorem reScan_plain_step (fuel : Nat) (c : Char) (cs : List Char) (d : Nat) (a s : Bool) (h : plainRe c = true) :
    reScan (fuel + 1) (c :: cs) d a s = reScan fuel cs d true false := by
  simp only [plainRe, Bool.and_eq_true, bne_iff_ne, ne_eq] at h
  obtain ⟨⟨⟨⟨⟨⟨⟨⟨⟨⟨h1, h2⟩, h3⟩, h4⟩, h5⟩, h6⟩, h7⟩, h8⟩, h9⟩, h10⟩, h11⟩ := h
  simp [reScan, h1, h2, h3, h4, h5, h6, h7, h8, h9, h10, h11]

theorem reScan_plain : ∀ (p : List Char) (fuel : Nat) (rest : List Char) (d : Nat) (a s : Bool),
    p.all plainRe = true → p ≠ [] → reScan (fuel + p.length) (p ++ rest) d a s = reScan fuel rest d true false
  | [], _, _, _, _, _, _, hne => absurd rfl hne
  | [c], fuel, rest, d, a, s, h, _ => by
    simp only [List.all_cons, List.all_nil, Bool.and_true] at h
    exact reScan_plain_step fuel c rest d a s h
  | c :: c' :: cs, fuel, rest, d, a, s, h, _ => by
    simp only [List.all_cons, Bool.and_eq_true] at h
    have ih := reScan_plain (c' :: cs) fuel rest d true false (by simp [h.2]) (by simp)
    have : fuel + (c :: c' :: cs).length = (fuel + (c' :: cs).length) + 1 := by simp; omega
    rw [this]
    show reScan (fuel + (c' :: cs).length + 1) (c :: ((c' :: cs) ++ rest)) d a s = _
    rw [reScan_plain_step _ c _ d a s h.1, ih]

end NGF.WF
