/-
Helper lemmas for C20: the RFC 4291 text forms of IPv6 addresses are accepted by the model of
`net.ParseIP` (`isV6`).  Core Lean only.
-/
import NGF.Proofs.Cli

namespace NGF.Cli
open NGF.CliSpec

/-! ### RFC 4291 text forms of IPv6 addresses -/

theorem splitOnC_joinC_append {c : Char} {l : List Str} {x : Str} (hne : l ≠ []) (h : ∀ f ∈ l, c ∉ f) :
    splitOnC c (joinC c l ++ c :: x) = l ++ splitOnC c x := by
  induction l with
  | nil => exact absurd rfl hne
  | cons f rest ih =>
    cases rest with
    | nil => simp [joinC, splitOnC_append_sep (h f (by simp))]
    | cons g gs =>
      simp only [joinC, List.append_assoc, List.cons_append]
      rw [splitOnC_append_sep (h f (by simp))]
      have := ih (by simp) (fun y hy => h y (by simp [hy]))
      simp only [List.cons_append] at this ⊢
      rw [this]

theorem hexGroup_facts {g : Str} (h : hexGroupOK g = true) : g ≠ [] ∧ ':' ∉ g := by
  refine ⟨?_, ?_⟩
  · intro e; subst e; simp [hexGroupOK] at h
  · intro m; have := hexGroupOK_chars h _ m; revert this; decide

/-- field lists as they occur after "::" or in a full address: every field non-empty and colon-free -/
def FieldsOK (r : List Str) : Prop := ∀ f ∈ r, f ≠ [] ∧ ':' ∉ f

theorem v6Units_cons_empty {rest : List Str} (hne : rest ≠ []) : v6Units ([] :: rest) = v6Units rest := by
  cases rest with
  | nil => exact absurd rfl hne
  | cons g gs => simp [v6Units]

theorem v6Units_hex_append {l rest : List Str} (hl : ∀ g ∈ l, hexGroupOK g = true) (hne : rest ≠ []) :
    v6Units (l ++ rest) = (v6Units rest).map (· + l.length) := by
  induction l with
  | nil => simp
  | cons g gs ih =>
    have hg := hl g (by simp)
    have hge : g.isEmpty = false := by have := (hexGroup_facts hg).1; cases g <;> simp_all
    have ih' := ih (fun x hx => hl x (by simp [hx]))
    cases hr : gs ++ rest with
    | nil => simp at hr; exact absurd hr.2 hne
    | cons a as =>
      simp only [List.cons_append, hr, v6Units, hge, Bool.false_eq_true, if_false, hg, if_true]
      rw [← hr, ih']
      cases v6Units rest <;> simp [Nat.add_assoc, Nat.add_comm]

theorem v6Units_hex {l : List Str} (hl : ∀ g ∈ l, hexGroupOK g = true) : v6Units (l ++ [[]]) = some l.length := by
  rw [v6Units_hex_append hl (by simp)]; simp [v6Units]

theorem normLead_id {f : Str} {rest : List Str} (h : f ≠ []) : normLead (f :: rest) = some (f :: rest) := by
  cases f with
  | nil => exact absurd rfl h
  | cons c cs => simp [normLead]

theorem normTrail_id {xs : List Str} {last : Str} (h : last ≠ []) :
    normTrail (xs ++ [last]) = some (xs ++ [last]) := by
  cases last with
  | nil => exact absurd rfl h
  | cons c cs => simp [normTrail]

theorem normTrail_ellipsis (xs : List Str) : normTrail (xs ++ [[], []]) = some (xs ++ [[]]) := by
  simp [normTrail]

theorem filter_empty_fields {r : List Str} (h : FieldsOK r) : (r.filter (·.isEmpty)) = [] := by
  apply List.filter_eq_nil_iff.mpr
  intro f hf
  have := (h f hf).1
  cases f <;> simp_all

theorem list_snoc {α} {r : List α} (h : r ≠ []) : ∃ xs last, r = xs ++ [last] :=
  ⟨r.dropLast, r.getLast h, (List.dropLast_concat_getLast h).symm⟩

/-- full form: the fields carry exactly eight 16-bit units -/
theorem isV6_full {fs : List Str} (hf : FieldsOK fs) (hu : v6Units fs = some 8) : isV6 (joinC ':' fs) = true := by
  have hne : fs ≠ [] := by intro e; subst e; simp [v6Units] at hu
  obtain ⟨xs, last, e⟩ := list_snoc hne
  have hlast : last ≠ [] := (hf last (by simp [e])).1
  unfold isV6
  rw [splitOnC_joinC hne (fun f m => (hf f m).2)]
  cases fs with
  | nil => exact absurd rfl hne
  | cons f rest =>
    rw [normLead_id (hf f (by simp)).1]
    simp only [Option.bind_some]
    rw [e, normTrail_id hlast, ← e]
    simp [hu, filter_empty_fields hf]

/-- compressed form `l::r`: `l` hex groups, `r` fields with `u` units, together at most 7 units -/
theorem isV6_compressed {l r : List Str} {u : Nat} (hl : ∀ g ∈ l, hexGroupOK g = true) (hr : FieldsOK r)
    (hu : v6Units r = some u) (hsum : l.length + u ≤ 7) :
    isV6 (joinC ':' l ++ ':' :: ':' :: joinC ':' r) = true := by
  have hlf : FieldsOK l := fun g m => hexGroup_facts (hl g m)
  unfold isV6
  by_cases hl0 : l = []
  · subst hl0
    by_cases hr0 : r = []
    · subst hr0; decide
    · obtain ⟨xs, last, e⟩ := list_snoc hr0
      have hlast : last ≠ [] := (hr last (by simp [e])).1
      have hs : splitOnC ':' (joinC ':' [] ++ ':' :: ':' :: joinC ':' r) = [] :: [] :: r := by
        simp [joinC, splitOnC, splitOnC_joinC hr0 (fun f m => (hr f m).2)]
      rw [hs]
      simp only [normLead, Option.bind_some]
      have : ([] : Str) :: r = ([] :: xs) ++ [last] := by simp [e]
      rw [this, normTrail_id hlast, ← this]
      dsimp only
      rw [v6Units_cons_empty hr0, hu]
      simp [filter_empty_fields hr]; omega
  · have hs : splitOnC ':' (joinC ':' l ++ ':' :: ':' :: joinC ':' r) = l ++ [] :: splitOnC ':' (joinC ':' r) := by
      rw [splitOnC_joinC_append hl0 (fun f m => (hlf f m).2)]
      simp [splitOnC]
    rw [hs]
    cases l with
    | nil => exact absurd rfl hl0
    | cons g gs =>
      rw [List.cons_append, normLead_id (hlf g (by simp)).1]
      simp only [Option.bind_some]
      by_cases hr0 : r = []
      · subst hr0
        have : g :: (gs ++ [] :: splitOnC ':' (joinC ':' [])) = (g :: gs) ++ [[], []] := by simp [joinC, splitOnC]
        rw [this, normTrail_ellipsis]
        dsimp only
        rw [v6Units_hex hl]
        have hcnt : (((g :: gs) ++ [[]]).filter (fun (x : Str) => x.isEmpty)).length = 1 := by
          rw [List.filter_append, filter_empty_fields hlf]; simp
        simp only [hcnt, Option.map_some]
        simp at hsum ⊢; omega
      · obtain ⟨xs, last, e⟩ := list_snoc hr0
        have hlast : last ≠ [] := (hr last (by simp [e])).1
        rw [splitOnC_joinC hr0 (fun f m => (hr f m).2)]
        have : g :: (gs ++ [] :: r) = (g :: gs ++ [] :: xs) ++ [last] := by simp [e]
        rw [this, normTrail_id hlast, ← this]
        have : g :: (gs ++ [] :: r) = (g :: gs) ++ ([] :: r) := by simp
        dsimp only
        rw [this, v6Units_hex_append hl (by simp), v6Units_cons_empty hr0, hu]
        have hcnt : (((g :: gs) ++ ([] :: r)).filter (fun (x : Str) => x.isEmpty)).length = 1 := by
          rw [List.filter_append, filter_empty_fields hlf]
          simp [List.filter_cons, filter_empty_fields hr]
        simp only [hcnt, Option.map_some]
        simp at hsum ⊢; omega

/-- units of a list of hex groups, optionally followed by a dotted quad -/
theorem v6Units_groups {gs : List Str} (hg : ∀ g ∈ gs, hexGroupOK g = true) (hne : gs ≠ []) :
    v6Units gs = some gs.length := by
  obtain ⟨xs, last, e⟩ := list_snoc hne
  subst e
  have hx : ∀ g ∈ xs, hexGroupOK g = true := fun g m => hg g (by simp [m])
  have hlast := hg last (by simp)
  have hle : last.isEmpty = false := by have := (hexGroup_facts hlast).1; cases last <;> simp_all
  rw [v6Units_hex_append hx (by simp)]
  simp [v6Units, hle, hlast, Nat.add_comm]

theorem v6Units_groups_v4 {gs : List Str} {q : Str} (hg : ∀ g ∈ gs, hexGroupOK g = true) (hq : isV4 q = true) :
    v6Units (gs ++ [q]) = some (gs.length + 2) := by
  have hqe : q.isEmpty = false := by
    cases q with
    | nil => simp [isV4, splitOnC] at hq
    | cons _ _ => rfl
  have hqh : hexGroupOK q = false := by
    cases hh : hexGroupOK q
    · rfl
    · exfalso
      -- a dotted quad contains '.', which is not a hex digit
      have hdot : '.' ∈ q := by
        by_cases m : '.' ∈ q
        · exact m
        · simp [isV4, splitOnC_no_sep m] at hq
      have := hexGroupOK_chars hh _ hdot
      revert this; decide
  rw [v6Units_hex_append hg (by simp)]
  simp [v6Units, hqe, hqh, hq, Nat.add_comm]

theorem fieldsOK_groups {gs : List Str} (hg : ∀ g ∈ gs, hexGroupOK g = true) : FieldsOK gs :=
  fun g m => hexGroup_facts (hg g m)

theorem fieldsOK_groups_v4 {gs : List Str} {q : Str} (hg : ∀ g ∈ gs, hexGroupOK g = true) (hq : isV4 q = true) :
    FieldsOK (gs ++ [q]) := by
  intro f m
  rcases List.mem_append.mp m with m | m
  · exact hexGroup_facts (hg f m)
  · simp only [List.mem_singleton] at m; subst m
    refine ⟨?_, isV4_no_colon hq⟩
    intro e; subst e; simp [isV4, splitOnC] at hq


theorem colon_mem_joinC {a b : Str} {rest : List Str} : ':' ∈ joinC ':' (a :: b :: rest) := by
  simp [joinC]

/-- the four RFC 4291 §2.2 spellings, as hosts of the endpoint validators -/
theorem hostOK_v6_full {gs : List Str} (hg : ∀ g ∈ gs, hexGroupOK g = true) (hlen : gs.length = 8) :
    hostOK (joinC ':' gs) = true := by
  have hne : gs ≠ [] := by intro e; subst e; simp at hlen
  have h6 := isV6_full (fieldsOK_groups hg) (by rw [v6Units_groups hg hne, hlen])
  match gs, hlen with
  | a :: b :: rest, _ => exact hostOK_of_v6 h6 colon_mem_joinC

theorem hostOK_v6_full_v4 {gs : List Str} {q : Str} (hg : ∀ g ∈ gs, hexGroupOK g = true) (hlen : gs.length = 6)
    (hq : isV4 q = true) : hostOK (joinC ':' (gs ++ [q])) = true := by
  have h6 := isV6_full (fieldsOK_groups_v4 hg hq) (by rw [v6Units_groups_v4 hg hq, hlen])
  match gs, hlen with
  | a :: b :: rest, _ => exact hostOK_of_v6 h6 (by simp [joinC])

theorem hostOK_v6_compressed {l r : List Str} (hl : ∀ g ∈ l, hexGroupOK g = true)
    (hr : ∀ g ∈ r, hexGroupOK g = true) (hlen : l.length + r.length ≤ 7) :
    hostOK (joinC ':' l ++ ':' :: ':' :: joinC ':' r) = true := by
  have h6 : isV6 (joinC ':' l ++ ':' :: ':' :: joinC ':' r) = true := by
    by_cases hr0 : r = []
    · subst hr0
      exact isV6_compressed hl (fun _ m => by simp at m) (u := 0) (by simp [v6Units]) (by simpa using hlen)
    · exact isV6_compressed hl (fieldsOK_groups hr) (v6Units_groups hr hr0) hlen
  exact hostOK_of_v6 h6 (by simp)

theorem hostOK_v6_compressed_v4 {l r : List Str} {q : Str} (hl : ∀ g ∈ l, hexGroupOK g = true)
    (hr : ∀ g ∈ r, hexGroupOK g = true) (hq : isV4 q = true) (hlen : l.length + r.length ≤ 5) :
    hostOK (joinC ':' l ++ ':' :: ':' :: joinC ':' (r ++ [q])) = true := by
  have h6 := isV6_compressed hl (fieldsOK_groups_v4 hr hq) (v6Units_groups_v4 hr hq) (by omega)
  exact hostOK_of_v6 h6 (by simp)
open NGF.CliSpec

/-- an IPv6 literal has at least two colons: a string with exactly one is refused by `isV6` -/
theorem isV6_one_colon_false {a b : Str} (ha : ':' ∉ a) (hb : ':' ∉ b) : isV6 (a ++ ':' :: b) = false := by
  unfold isV6
  rw [splitOnC_append_sep ha, splitOnC_no_sep hb]
  cases a with
  | nil =>
    cases b with
    | nil => simp [normLead, normTrail]
    | cons c cs => simp [normLead]
  | cons x xs =>
    cases b with
    | nil => simp [normLead, normTrail]
    | cons c cs =>
      simp only [normLead, Option.bind_some]
      have : normTrail [x :: xs, c :: cs] = some [x :: xs, c :: cs] := by simp [normTrail]
      rw [this]
      simp only [v6Units, List.isEmpty_cons, Bool.false_eq_true, if_false]
      by_cases h1 : hexGroupOK (x :: xs) = true
      · simp only [h1, if_true]
        by_cases h2 : hexGroupOK (c :: cs) = true
        · simp [h2]
        · by_cases h3 : isV4 (c :: cs) = true
          · simp [h2, h3]
          · simp [h2, h3]
      · simp [h1]

theorem bare_v6_accepted {cfg : Cfg} {h : Str} (hp : parseIP h = true) (hc : ':' ∈ h) :
    validateEndpointOptionalPort cfg h = .ok := by
  have hne : h.isEmpty = false := by cases h <;> simp_all
  have hk : hostOK h = true := by
    unfold hostOK validateIP; rw [hne, hp]; rfl
  have h6 : isV6 h = true := by
    unfold parseIP at hp; rw [contains_true_iff.mpr hc] at hp; simpa using hp
  obtain ⟨b1, b2⟩ := hostOK_no_bracket hk
  unfold validateEndpointOptionalPort
  simp only [hne, Bool.false_eq_true, if_false]
  cases hs : splitHostPort h with
  | error k =>
    have ht : tolerated k h = true := by
      -- without brackets SplitHostPort can only fail with "missing port" or "too many colons"
      unfold splitHostPort at hs
      rw [contains_true_iff.mpr hc] at hs
      cases h with
      | nil => simp at hc
      | cons c rest =>
        have hcb : (c == '[') = false := by
          simp only [beq_eq_false_iff_ne, ne_eq]; intro e; exact b1 (by simp [e])
        simp only [Bool.not_true, Bool.false_eq_true, if_false, hcb] at hs
        cases hl : splitLast ':' (c :: rest) with
        | none => simp only [hl] at hs; cases hs; simp [tolerated]
        | some q =>
          obtain ⟨a, b⟩ := q
          simp only [hl, contains_false_iff.mpr b1, contains_false_iff.mpr b2, Bool.false_eq_true, if_false] at hs
          split at hs
          · cases hs; simp [tolerated]
          · cases hs
    simp [ht, hk]
  | ok q =>
    obtain ⟨a, b⟩ := q
    exfalso
    rcases splitHostPort_ok hs with ⟨e, n1, _, _, n2, _⟩ | ⟨e, _⟩
    · subst e
      rw [isV6_one_colon_false n1 n2] at h6
      exact absurd h6 (by simp)
    · subst e; exact b1 (by simp)

theorem bare_v6_not_nginx_addr {h : Str} (hp : parseIP h = true) (hc : ':' ∈ h) : nginxAddrOk h = false := by
  have h6 : isV6 h = true := by
    unfold parseIP at hp; rw [contains_true_iff.mpr hc] at hp; simpa using hp
  unfold nginxAddrOk
  by_cases hu : hasUnixPrefix h = true
  · simp [hu]
  · simp only [hu, Bool.false_eq_true, if_false]
    cases h with
    | nil => rfl
    | cons c rest =>
      have hcb : (c == '[') = false := by
        simp only [beq_eq_false_iff_ne, ne_eq]; intro e
        have := parseIP_chars hp c (by simp)
        subst e; revert this; decide
      simp only [hcb, Bool.false_eq_true, if_false, ngxInetUrl]
      split
      · rfl
      · cases hf : splitFirst ':' (c :: rest) with
        | none => exact absurd hc (not_mem_of_splitFirst_none hf)
        | some q =>
          obtain ⟨a, b⟩ := q
          obtain ⟨e, na⟩ := splitFirst_some hf
          have hb : ':' ∈ b := by
            by_cases m : ':' ∈ b
            · exact m
            · rw [e, isV6_one_colon_false na m] at h6; exact absurd h6 (by simp)
          have : ngxPortOK b = false := by
            unfold ngxPortOK
            have : b.all isDigit = false := by
              apply Bool.eq_false_iff.mpr
              intro hall
              have := List.all_eq_true.mp hall _ hb
              revert this; decide
            simp [this]
          simp [this]
open NGF.CliSpec

/-- the repaired rendering of a bare IPv6 address is an NGINX address -/
theorem bracketV6_nginx_addr {h : Str} (hp : parseIP h = true) (hc : ':' ∈ h) :
    nginxAddrOk (bracketV6 h) = true := by
  have h6 : isV6 h = true := by
    unfold parseIP at hp; rw [contains_true_iff.mpr hc] at hp; simpa using hp
  have hb : ']' ∉ h := by
    intro m; have := parseIP_chars hp _ m; revert this; decide
  have hf := splitFirst_append_sep (c := ']') (f := h) (r := []) hb
  have hu : hasUnixPrefix ('[' :: (h ++ [']'])) = false := by
    unfold hasUnixPrefix
    cases hl : (h ++ [']']) <;> simp [List.take, lowerByte, isUpper] <;> intro e <;> simp at e
  unfold bracketV6 nginxAddr
  rw [contains_true_iff.mpr hc, hp]
  simp only [Bool.and_self, if_true]
  unfold nginxAddrOk
  rw [hu]
  simp [ngxInet6Url, hf, h6]

theorem bracketV6_id {v : Str} (h : (v.contains ':' && parseIP v) = false) : bracketV6 v = v := by
  unfold bracketV6 nginxAddr; rw [h]; rfl

theorem unix_letter_table : ∀ n < 128, isHostChar (Char.ofNat n) = true →
    (lowerByte (Char.ofNat n) = 'u' ∨ lowerByte (Char.ofNat n) = 'n' ∨ lowerByte (Char.ofNat n) = 'i' ∨
      lowerByte (Char.ofNat n) = 'x') → lowerByte (Char.ofNat n) = Char.ofNat n := by decide

theorem unix_letter {c : Char} (h : isHostChar c = true)
    (hl : lowerByte c = 'u' ∨ lowerByte c = 'n' ∨ lowerByte c = 'i' ∨ lowerByte c = 'x') : lowerByte c = c := by
  have := unix_letter_table c.toNat (epChar_lt (hostChar_ep h))
  rw [Char.ofNat_toNat] at this
  exact this h hl

/-- with a host made of host bytes and free of ':', NGINX's case-insensitive `unix:` test fires only for `unix` -/
theorem unixPrefix_host {h p : Str} (hch : ∀ c ∈ h, isHostChar c = true) (hc : ':' ∉ h)
    (hu : hasUnixPrefix (h ++ ':' :: p) = true) : h = "unix".toList := by
  unfold hasUnixPrefix at hu
  rcases h with _ | ⟨a, _ | ⟨b, _ | ⟨c, _ | ⟨d, _ | ⟨e, rest⟩⟩⟩⟩⟩
  · simp [List.take, lowerByte, isUpper] at hu
  · simp only [List.cons_append, List.nil_append, List.take, List.map, beq_iff_eq] at hu
    have : lowerByte ':' = 'n' := by
      cases p <;> simpa using congrArg (fun l => l.getD 1 ' ') hu
    exact absurd this (by decide)
  · simp only [List.cons_append, List.nil_append, List.take, List.map, beq_iff_eq] at hu
    have : lowerByte ':' = 'i' := by
      cases p <;> simpa using congrArg (fun l => l.getD 2 ' ') hu
    exact absurd this (by decide)
  · simp only [List.cons_append, List.nil_append, List.take, List.map, beq_iff_eq] at hu
    have : lowerByte ':' = 'x' := by
      cases p <;> simpa using congrArg (fun l => l.getD 3 ' ') hu
    exact absurd this (by decide)
  · simp only [List.cons_append, List.nil_append, List.take, List.map, beq_iff_eq] at hu
    have e' : [lowerByte a, lowerByte b, lowerByte c, lowerByte d, lowerByte ':'] = ['u', 'n', 'i', 'x', ':'] := by
      cases p <;> simpa using hu
    simp only [List.cons.injEq, and_true] at e'
    obtain ⟨ea, eb, ec, ed, _⟩ := e'
    have ha := unix_letter (hch a (by simp)) (.inl ea)
    have hb := unix_letter (hch b (by simp)) (.inr (.inl eb))
    have hc' := unix_letter (hch c (by simp)) (.inr (.inr (.inl ec)))
    have hd := unix_letter (hch d (by simp)) (.inr (.inr (.inr ed)))
    rw [ha] at ea; rw [hb] at eb; rw [hc'] at ec; rw [hd] at ed
    subst ea eb ec ed; rfl
  · simp only [List.cons_append, List.take, List.map, beq_iff_eq] at hu
    have : lowerByte e = ':' := by simpa using congrArg (fun l => l.getD 4 ' ') hu
    exact absurd (by simp [lowerByte_colon this]) hc

/-- FULL STRENGTH (after 746dbb2 + 15df172): every accepted optional-port value, after the generator's
bracketing of a bare IPv6 address, is an NGINX `address[:port]` -/
theorem validateOpt_nginx_addr {cfg : Cfg} {s : Str} (hlo : 1 ≤ cfg.optLo) (hhi : cfg.optHi ≤ 65535)
    (h : validateEndpointOptionalPort cfg s = .ok) : nginxAddrOk (nginxAddr s) = true := by
  obtain ⟨hne, hcases⟩ := validateOpt_ok_cases h
  -- a value that is a host as a whole: a bare IPv6 address gets its brackets, anything else has no colon
  have whole : hostOK s = true → nginxAddrOk (nginxAddr s) = true := by
    intro hk
    by_cases hc : ':' ∈ s
    · have hp : parseIP s = true := by
        simp only [hostOK, Bool.or_eq_true] at hk
        rcases hk with hk | hk
        · unfold validateIP at hk
          by_cases hp : parseIP s = true
          · exact hp
          · have : s.isEmpty = false := by cases s <;> simp_all
            simp [this, hp, Res.isOk] at hk
        · exact absurd hc (dns_no_colon hk)
      exact (bracketV6_nginx_addr hp hc : nginxAddrOk (bracketV6 s) = true)
    · have : nginxAddr s = s := by
        unfold nginxAddr; rw [contains_false_iff.mpr hc]; rfl
      rw [this]; exact nginxAddrOk_bare_host hk hc
  rcases hcases with ⟨k, _, hk⟩ | ⟨hst, p, hs, hpne, hplus, hbr, hux, hp, hk⟩
  · exact whole hk
  · by_cases hhe : hst.isEmpty = true
    · simp only [hhe, if_true] at hk; exact whole hk
    · simp only [hhe, Bool.false_eq_true, if_false] at hk
      obtain ⟨npo, pdig⟩ := ngxPortOK_of_portCheck hlo hhi hp hplus
      rcases splitHostPort_ok hs with ⟨e, hc, _, _, pc, _⟩ | ⟨e, _, hb, _⟩
      · subst e
        have hid : nginxAddr (hst ++ ':' :: p) = hst ++ ':' :: p := by
          unfold nginxAddr parseIP
          have : (hst ++ ':' :: p).contains ':' = true := by simp
          rw [this, isV6_one_colon_false hc pc]; rfl
        rw [hid]
        have hu : hasUnixPrefix (hst ++ ':' :: p) = false := by
          cases hx : hasUnixPrefix (hst ++ ':' :: p)
          · rfl
          · exact absurd (unixPrefix_host (hostOK_chars hk).2 hc hx) hux
        exact nginxAddrOk_plain hk hc npo pdig hu
      · subst e
        have hc : ':' ∈ hst := by
          by_cases m : ':' ∈ hst
          · exact m
          · exact absurd ⟨by simp, m⟩ hbr
        have h6 : isV6 hst = true := by
          simp only [hostOK, Bool.or_eq_true] at hk
          rcases hk with hk | hk
          · unfold validateIP at hk
            by_cases hp' : parseIP hst = true
            · unfold parseIP at hp'; rw [contains_true_iff.mpr hc] at hp'; simpa using hp'
            · simp [hhe, hp', Res.isOk] at hk
          · exact absurd hc (dns_no_colon hk)
        have hid : nginxAddr ('[' :: (hst ++ ']' :: ':' :: p)) = '[' :: (hst ++ ']' :: ':' :: p) := by
          have : parseIP ('[' :: (hst ++ ']' :: ':' :: p)) = false := by
            cases hx : parseIP ('[' :: (hst ++ ']' :: ':' :: p))
            · rfl
            · have := parseIP_chars hx '[' (by simp); revert this; decide
          unfold nginxAddr; rw [this]; simp
        rw [hid]
        exact nginxAddrOk_bracket h6 hb npo

end NGF.Cli
