/-
C02 on HTTPS: `$scheme`. Rewriting the ACTIONS of the routes (`tlsRoutes`: empty redirect scheme ↦ `https`, empty port ↦
listener port) commutes with the generator up to evaluation: the server generated from the rewritten routes answers a
request exactly like the server generated from the original routes with `$scheme` read as `https` (`scheme_server_eval`);
nothing else of the generated configuration depends on the actions (`hostsOf_mapRoutes`, `locs_shadow_mapRoutes`).
-/
import NGF.Model.PipelineTlsEval
import NGF.Proofs.PipelineRefine

namespace NGF.PipelineTls
open NGF.Pipeline

/-! ### rewriting actions -/

def mapRoute (f : Action → Action) (r : Route) : Route :=
  { r with rules := r.rules.map fun rule => { rule with action := f rule.action } }

def mapRoutes (f : Action → Action) (routes : List Route) : List Route := routes.map (mapRoute f)

def mapEntry (f : Action → Action) (e : Entry) : Entry := { e with action := f e.action }

theorem tlsRoutes_eq (lp : Nat) (routes : List Route) : tlsRoutes lp routes = mapRoutes (tlsAction lp) routes := rfl

theorem routeEntries_mapRoute (f : Action → Action) (port : Nat) (hosts : List Str) (r : Route) :
    routeEntries port hosts (mapRoute f r) = (routeEntries port hosts r).map (mapEntry f) := by
  unfold routeEntries mapRoute
  simp only [List.flatMap_map, List.map_flatMap, List.map_map]
  rfl

theorem entries_mapRoutes (f : Action → Action) (g : Gateway) (routes : List Route) :
    entries g (mapRoutes f routes) = (entries g routes).map (mapEntry f) := by
  unfold entries mapRoutes
  rw [List.map_flatMap]
  apply flatMap_congr_mem
  intro l _
  rw [List.flatMap_map, List.map_flatMap]
  apply flatMap_congr_mem
  intro r _
  have hacc : acceptedAt g l (mapRoute f r) = acceptedAt g l r := rfl
  have hv : (mapRoute f r).valid = r.valid := rfl
  rw [hacc, hv]
  by_cases h : r.valid = true
  · simp only [h, ↓reduceIte, routeEntries_mapRoute]
  · simp [h]

theorem hostsOf_mapRoutes (f : Action → Action) (g : Gateway) (routes : List Route) :
    hostsOf g (mapRoutes f routes) = hostsOf g routes := by
  unfold hostsOf mapRoutes
  congr 1
  apply flatMap_congr_mem
  intro l _
  rw [List.flatMap_map]
  rfl

/-! ### the scenario-level conditions do not look at actions -/

theorem inFragment_mapRoutes (f : Action → Action) (s : Scenario) :
    inFragment { s with routes := mapRoutes f s.routes } = inFragment s := by
  unfold inFragment
  have h1 : (mapRoutes f s.routes).map (fun r => (r.ns, r.name)) = s.routes.map fun r => (r.ns, r.name) := by
    simp only [mapRoutes, List.map_map]; rfl
  have h2 : (mapRoutes f s.routes).all routeOK = s.routes.all routeOK := by
    simp only [mapRoutes, List.all_map]
    congr 1
    funext r
    simp only [Function.comp, routeOK, mapRoute, List.all_map]
    rfl
  have h3 : winner { s with routes := mapRoutes f s.routes } = winner s := rfl
  simp only [h1, h2, h3]

theorem namesPlain_mapRoutes (f : Action → Action) (s : Scenario) :
    namesPlain { s with routes := mapRoutes f s.routes } = namesPlain s := by
  unfold namesPlain
  have h3 : winner { s with routes := mapRoutes f s.routes } = winner s := rfl
  simp only [mapRoutes, List.all_map]
  rfl

theorem routesHaveRules_mapRoutes (f : Action → Action) (s : Scenario) :
    routesHaveRules { s with routes := mapRoutes f s.routes } = routesHaveRules s := by
  unfold routesHaveRules
  simp only [mapRoutes, List.all_map]
  congr 1
  funext r
  simp only [Function.comp, mapRoute, List.any_map]
  rfl

/-! ### `serverOf` with the action of an entry abstracted -/

/-- `ruleAct` with the action of an entry given by `h` -/
def ruleActG (h : Entry → Act) (mrs : List Entry) : LocAct :=
  match mrs with
  | [e] => if isPathOnly e.m then .direct (h e) else .njs [(njsMatchOf e.m, h e)]
  | _ => .njs (mrs.map fun e => (njsMatchOf e.m, h e))

theorem ruleAct_eq (port : Nat) (mrs : List Entry) : ruleAct port mrs = ruleActG (fun e => actOf port e.action) mrs := by
  match mrs with
  | [] => rfl
  | [e] => rfl
  | e1 :: e2 :: es => rfl

theorem ruleAct_mapEntry (f : Action → Action) (port : Nat) (mrs : List Entry) :
    ruleAct port (mrs.map (mapEntry f)) = ruleActG (fun e => actOf port (f e.action)) mrs := by
  match mrs with
  | [] => rfl
  | [e] => simp only [List.map_cons, List.map_nil, ruleAct, ruleActG, mapEntry]
  | e1 :: e2 :: es => simp only [List.map_cons, ruleAct, ruleActG, List.map_map]; rfl

def locG (h : Entry → Act) (es : List Entry) (port : Nat) (n : Str) (gl : Precedence.GenLoc) : CLoc :=
  let mine := es.filter fun e => e.port == port && e.host == n
  match ((mine.map pathKey).eraseDups)[gl.rule]? with
  | some k => { exact := gl.exact, path := gl.path, act := ruleActG h (sortEntries (mine.filter fun e => pathKey e == k)) }
  | none => { exact := gl.exact, path := gl.path, act := .direct (.status 404) }

def rulesG (es : List Entry) (port : Nat) (n : Str) : List Precedence.PathRule :=
  (((es.filter fun e => e.port == port && e.host == n).map pathKey).eraseDups).map fun k => ⟨k.2, !k.1⟩

theorem serverOf_locsG (es : List Entry) (port : Nat) (n : Str) :
    (serverOf es port n).locs = (Precedence.genLocs (rulesG es port n)).map (locG (fun e => actOf port e.action) es port n) := by
  unfold serverOf locG rulesG
  simp only [ruleAct_eq]
  rfl

theorem sortEntries_map (f : Action → Action) (l : List Entry) :
    sortEntries (l.map (mapEntry f)) = (sortEntries l).map (mapEntry f) := by
  unfold sortEntries
  exact (List.map_mergeSort (f := mapEntry f) (r := fun a b => Precedence.le a.key b.key)
    (s := fun a b => Precedence.le a.key b.key) (l := l) (fun a _ b _ => rfl)).symm

theorem serverOf_mapEntry_locs (f : Action → Action) (es : List Entry) (port : Nat) (n : Str) :
    (serverOf (es.map (mapEntry f)) port n).locs =
      (Precedence.genLocs (rulesG es port n)).map (locG (fun e => actOf port (f e.action)) es port n) := by
  have hmine : (es.map (mapEntry f)).filter (fun e => e.port == port && e.host == n) =
      (es.filter fun e => e.port == port && e.host == n).map (mapEntry f) := by
    rw [List.filter_map]; rfl
  have hkeys : ∀ l : List Entry, (l.map (mapEntry f)).map pathKey = l.map pathKey := by
    intro l; rw [List.map_map]; rfl
  have hfil : ∀ (l : List Entry) (k : Bool × Str), (l.map (mapEntry f)).filter (fun e => pathKey e == k) =
      (l.filter fun e => pathKey e == k).map (mapEntry f) := by
    intro l k; rw [List.filter_map]; rfl
  unfold serverOf locG rulesG
  simp only [hmine, hkeys, hfil, sortEntries_map, ruleAct_mapEntry]
  rfl

/-! ### evaluation -/

theorem findWinningP_congr (q : Req) (_r : NGF.NginxEval.Njs.Req) (A B : Entry → Act)
    (h : ∀ e, evalAct q (A e) = evalAct q (B e)) : ∀ (L : List Entry),
    evalLocAct q (.njs (L.map fun e => (njsMatchOf e.m, A e))) = evalLocAct q (.njs (L.map fun e => (njsMatchOf e.m, B e))) := by
  intro L
  have key : ∀ (L : List Entry) (r : NGF.NginxEval.Njs.Req),
      (findWinningP r (L.map fun e => (njsMatchOf e.m, A e))).map (Option.map (evalAct q)) =
      (findWinningP r (L.map fun e => (njsMatchOf e.m, B e))).map (Option.map (evalAct q)) := by
    intro L r
    induction L with
    | nil => rfl
    | cons e es ih =>
      simp only [List.map_cons, findWinningP]
      cases NGF.NginxEval.Njs.testMatch r (njsMatchOf e.m) with
      | throw => rfl
      | ok b => cases b <;> simp [ih, h e]
  have := key L (njsReq q)
  simp only [evalLocAct]
  cases h1 : findWinningP (njsReq q) (L.map fun e => (njsMatchOf e.m, A e)) with
  | none =>
    cases h2 : findWinningP (njsReq q) (L.map fun e => (njsMatchOf e.m, B e)) with
    | none => rfl
    | some y => rw [h1, h2] at this; cases this
  | some x =>
    cases h2 : findWinningP (njsReq q) (L.map fun e => (njsMatchOf e.m, B e)) with
    | none => rw [h1, h2] at this; cases this
    | some y =>
      rw [h1, h2] at this
      simp only [Option.map_some, Option.some.injEq] at this
      cases x <;> cases y <;> simp_all

theorem schemeLocAct_ruleActG (h : Entry → Act) (L : List Entry) :
    schemeLocAct (ruleActG h L) = ruleActG (fun e => schemeAct (h e)) L := by
  match L with
  | [] => rfl
  | [e] =>
    simp only [ruleActG]
    by_cases hp : isPathOnly e.m = true <;> simp [hp, schemeLocAct]
  | e1 :: e2 :: es => simp only [ruleActG, schemeLocAct, List.map_map]; rfl

theorem evalLocAct_ruleActG_congr (q : Req) (A B : Entry → Act) (h : ∀ e, evalAct q (A e) = evalAct q (B e))
    (L : List Entry) : evalLocAct q (ruleActG A L) = evalLocAct q (ruleActG B L) := by
  match L with
  | [] => rfl
  | [e] =>
    simp only [ruleActG]
    by_cases hp : isPathOnly e.m = true
    · simp only [hp, ↓reduceIte, evalLocAct]; exact h e
    · simp only [hp, Bool.false_eq_true, ↓reduceIte]
      exact findWinningP_congr q (njsReq q) A B h [e]
  | e1 :: e2 :: es =>
    simp only [ruleActG]
    exact findWinningP_congr q (njsReq q) A B h (e1 :: e2 :: es)

/-- what the rewritten action does on the listener's port = what the original does with `$scheme` = `https` -/
theorem evalAct_tlsAction (q : Req) (a : Action) :
    evalAct q (schemeAct (actOf q.port a)) = evalAct q (actOf q.port (tlsAction q.port a)) := by
  cases a with
  | forward bs => rfl
  | redirect code scheme host port =>
    cases scheme with
    | some sch => rfl
    | none =>
      simp only [actOf, shownPort, schemeAct, tlsAction, evalAct, Option.getD_some]
      generalize port.getD q.port = pp
      by_cases h : pp = 443
      · subst h; rfl
      · have hne : ("https".toList == "http".toList) = false := by decide
        have hwk : wellKnown "https".toList pp = false := by
          simp only [wellKnown, hne, Bool.and_false, Bool.false_or, Bool.and_eq_false_iff, beq_eq_false_iff_ne, ne_eq]
          exact Or.inl h
        simp only [hwk, Bool.false_eq_true, ↓reduceIte, Option.getD_some]

theorem passes_tlsAction (port lp : Nat) (a : Action) :
    (match schemeAct (actOf port a) with | .proxy _ => true | _ => false) =
    (match actOf port (tlsAction lp a) with | .proxy _ => true | _ => false) := by
  cases a with
  | forward bs => rfl
  | redirect code scheme host p => cases scheme <;> rfl

theorem toLoc_ruleActG (A B : Entry → Act)
    (h : ∀ e, (match A e with | .proxy _ => true | _ => false) = (match B e with | .proxy _ => true | _ => false))
    (exact : Bool) (path : Str) (L : List Entry) :
    toLoc { exact := exact, path := path, act := ruleActG A L } = toLoc { exact := exact, path := path, act := ruleActG B L } := by
  match L with
  | [] => rfl
  | [e] =>
    simp only [ruleActG]
    by_cases hp : isPathOnly e.m = true
    · have := h e
      simp only [hp, ↓reduceIte, toLoc]
      cases hA : A e <;> cases hB : B e <;> simp_all
    · simp [hp, toLoc]
  | e1 :: e2 :: es => rfl

/-- two servers over the same location skeleton whose locations look the same to the selection and evaluate alike
answer alike -/
theorem serverEval_congr {α} (L : List α) (fA fB : α → CLoc) (port : Nat) (n : Str) (q : Req)
    (h1 : ∀ x, toLoc (fA x) = toLoc (fB x)) (h2 : ∀ x, (fA x).exact = (fB x).exact ∧ (fA x).path = (fB x).path)
    (h3 : ∀ x, evalLocAct q (fA x).act = evalLocAct q (fB x).act) :
    serverEval { port := port, name := n, locs := L.map fA } q = serverEval { port := port, name := n, locs := L.map fB } q := by
  unfold serverEval
  have hl : (L.map fA).map toLoc = (L.map fB).map toLoc := by
    simp only [List.map_map]
    apply List.map_congr_left
    intro x _; exact h1 x
  simp only [hl]
  cases NGF.NginxEval.selectLoc ((L.map fB).map toLoc) q.path with
  | none => rfl
  | autoRedirect _ => rfl
  | loc l =>
    simp only [List.find?_map]
    have hp : ((fun cl : CLoc => cl.exact == l.exact && cl.path == l.path) ∘ fA) =
        ((fun cl : CLoc => cl.exact == l.exact && cl.path == l.path) ∘ fB) := by
      funext x
      simp only [Function.comp, (h2 x).1, (h2 x).2]
    rw [hp]
    cases L.find? ((fun cl : CLoc => cl.exact == l.exact && cl.path == l.path) ∘ fB) with
    | none => rfl
    | some x => simp only [Option.map_some]; exact h3 x

/-- **`$scheme` commutes with generation.** The server generated from the routes with rewritten actions answers like
the server generated from the original routes with `$scheme` read as `https`. -/
theorem scheme_server_eval (g : Gateway) (routes : List Route) (n : Str) (q : Req) :
    serverEval (schemeServer (serverOf (entries g routes) q.port n)) q =
      serverEval (serverOf (entries g (tlsRoutes q.port routes)) q.port n) q := by
  rw [tlsRoutes_eq, entries_mapRoutes]
  have hA : schemeServer (serverOf (entries g routes) q.port n) =
      { port := q.port, name := n,
        locs := (Precedence.genLocs (rulesG (entries g routes) q.port n)).map fun gl =>
          let l := locG (fun e => actOf q.port e.action) (entries g routes) q.port n gl
          { l with act := schemeLocAct l.act } } := by
    unfold schemeServer
    rw [serverOf_locsG, List.map_map]
    rfl
  have hB : serverOf ((entries g routes).map (mapEntry (tlsAction q.port))) q.port n =
      { port := q.port, name := n,
        locs := (Precedence.genLocs (rulesG (entries g routes) q.port n)).map
          (locG (fun e => actOf q.port (tlsAction q.port e.action)) (entries g routes) q.port n) } := by
    have := serverOf_mapEntry_locs (tlsAction q.port) (entries g routes) q.port n
    cases hs : serverOf ((entries g routes).map (mapEntry (tlsAction q.port))) q.port n with
    | mk p' n' locs' =>
      have hp : p' = q.port := by have := congrArg CServer.port hs; simpa [serverOf] using this.symm
      have hn : n' = n := by have := congrArg CServer.name hs; simpa [serverOf] using this.symm
      rw [hs] at this
      simp only at this
      rw [hp, hn, this]
  rw [hA, hB]
  apply serverEval_congr
  · intro gl
    simp only [locG]
    split
    · rw [schemeLocAct_ruleActG]
      exact toLoc_ruleActG _ _ (fun e => passes_tlsAction q.port q.port e.action) _ _ _
    · rfl
  · intro gl
    simp only [locG]
    split <;> exact ⟨rfl, rfl⟩
  · intro gl
    simp only [locG]
    split
    · simp only
      rw [schemeLocAct_ruleActG]
      exact evalLocAct_ruleActG_congr q _ _ (fun e => evalAct_tlsAction q e.action) _
    · rfl

/-- the 404 server of a route-less listener has no `$scheme` -/
theorem schemeServer_empty (p : Nat) (n : Str) : schemeServer (serverOf [] p n) = serverOf [] p n := by
  simp [schemeServer, serverOf, Precedence.genLocs, Precedence.extLocsFrom, schemeLocAct, schemeAct]

/-! ### `noShadow` does not look at actions -/

theorem shadow_ruleActG (A B : Entry → Act) (exact : Bool) (path : Str) (L : List Entry) :
    locShadowOK { exact := exact, path := path, act := ruleActG A L } =
      locShadowOK { exact := exact, path := path, act := ruleActG B L } := by
  match L with
  | [] => rfl
  | [e] =>
    simp only [ruleActG]
    by_cases hp : isPathOnly e.m = true <;> simp [hp, locShadowOK]
  | e1 :: e2 :: es => simp only [ruleActG, locShadowOK, List.any_map]; rfl

theorem locs_shadow_mapRoutes (f : Action → Action) (g : Gateway) (routes : List Route) (p : Nat) (n : Str) :
    (serverOf (entries g (mapRoutes f routes)) p n).locs.all locShadowOK =
      (serverOf (entries g routes) p n).locs.all locShadowOK := by
  rw [entries_mapRoutes, serverOf_mapEntry_locs, serverOf_locsG]
  simp only [List.all_map]
  congr 1
  funext gl
  simp only [Function.comp, locG]
  split
  · exact shadow_ruleActG _ _ _ _ _
  · rfl

theorem noShadow_mapRoutes (f : Action → Action) (s : Scenario) :
    noShadow (gen { s with routes := mapRoutes f s.routes }) = noShadow (gen s) := by
  unfold gen
  have h3 : winner { s with routes := mapRoutes f s.routes } = winner s := rfl
  rw [h3]
  cases winner s with
  | none => rfl
  | some g =>
    simp only [noShadow_eq, hostsOf_mapRoutes, List.all_map]
    congr 1
    funext ph
    simp only [Function.comp]
    exact locs_shadow_mapRoutes f g s.routes ph.1 ph.2

end NGF.PipelineTls
