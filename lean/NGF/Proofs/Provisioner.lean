/-
Helper lemmas for C18 (`NGF.Model.Provisioner`): association lists, `arrange`, id names.
Core only.
-/
import NGF.Model.Provisioner

namespace NGF.Prov

section Assoc
variable {α β : Type} [DecidableEq α]

@[simp] theorem hasKey_nil (k : α) : hasKey ([] : List (α × β)) k = false := rfl
@[simp] theorem get?_nil (k : α) : get? ([] : List (α × β)) k = none := rfl
@[simp] theorem erase_nil (k : α) : erase ([] : List (α × β)) k = [] := rfl

theorem hasKey_cons (a : α) (b : β) (l : List (α × β)) (k : α) :
    hasKey ((a, b) :: l) k = (decide (a = k) || hasKey l k) := by
  by_cases h : a = k <;> simp [hasKey, h]

theorem get?_cons (a : α) (b : β) (l : List (α × β)) (k : α) :
    get? ((a, b) :: l) k = if a = k then some b else get? l k := by
  by_cases h : a = k <;> simp [get?, h]

theorem erase_cons (a : α) (b : β) (l : List (α × β)) (k : α) :
    erase ((a, b) :: l) k = if a = k then erase l k else (a, b) :: erase l k := by
  by_cases h : a = k <;> simp [erase, h]

theorem hasKey_append (l₁ l₂ : List (α × β)) (k : α) :
    hasKey (l₁ ++ l₂) k = (hasKey l₁ k || hasKey l₂ k) := by
  simp [hasKey]

theorem get?_append (l₁ l₂ : List (α × β)) (k : α) :
    get? (l₁ ++ l₂) k = (get? l₁ k).or (get? l₂ k) := by
  induction l₁ with
  | nil => simp
  | cons p t ih =>
    obtain ⟨a, b⟩ := p
    by_cases h : a = k <;> simp [get?_cons, h, ih]

theorem hasKey_iff_mem {l : List (α × β)} {k : α} : hasKey l k = true ↔ ∃ v, (k, v) ∈ l := by
  induction l with
  | nil => simp
  | cons p t ih =>
    obtain ⟨a, b⟩ := p
    simp only [hasKey_cons, Bool.or_eq_true, decide_eq_true_eq, ih, List.mem_cons, Prod.mk.injEq]
    constructor
    · rintro (h | ⟨v, h⟩)
      · exact ⟨b, Or.inl ⟨h.symm, rfl⟩⟩
      · exact ⟨v, Or.inr h⟩
    · rintro ⟨v, (⟨h, _⟩ | h)⟩
      · exact Or.inl h.symm
      · exact Or.inr ⟨v, h⟩

theorem hasKey_iff_mem_keys {l : List (α × β)} {k : α} : hasKey l k = true ↔ k ∈ l.map (·.1) := by
  rw [hasKey_iff_mem]; simp

theorem hasKey_iff_get?_isSome (l : List (α × β)) (k : α) : hasKey l k = (get? l k).isSome := by
  induction l with
  | nil => simp
  | cons p t ih =>
    obtain ⟨a, b⟩ := p
    by_cases h : a = k <;> simp [hasKey_cons, get?_cons, h, ih]

theorem get?_some_of_hasKey {l : List (α × β)} {k : α} (h : hasKey l k = true) : ∃ v, get? l k = some v := by
  rw [hasKey_iff_get?_isSome] at h
  exact Option.isSome_iff_exists.mp h

theorem hasKey_of_get?_some {l : List (α × β)} {k : α} {v : β} (h : get? l k = some v) : hasKey l k = true := by
  rw [hasKey_iff_get?_isSome, h]; rfl

theorem mem_of_get?_some {l : List (α × β)} {k : α} {v : β} (h : get? l k = some v) : (k, v) ∈ l := by
  induction l with
  | nil => simp at h
  | cons p t ih =>
    obtain ⟨a, b⟩ := p
    rw [get?_cons] at h
    by_cases hk : a = k
    · simp [hk] at h; simp [hk, h]
    · simp [hk] at h; exact List.mem_cons_of_mem _ (ih h)

theorem get?_of_mem {l : List (α × β)} (hn : (l.map (·.1)).Nodup) {k : α} {v : β} (h : (k, v) ∈ l) :
    get? l k = some v := by
  induction l with
  | nil => simp at h
  | cons p t ih =>
    obtain ⟨a, b⟩ := p
    simp only [List.map_cons, List.nodup_cons] at hn
    rw [get?_cons]
    rcases List.mem_cons.mp h with h | h
    · simp only [Prod.mk.injEq] at h; simp [h.1, h.2]
    · have : a ≠ k := by
        intro e; subst e
        exact hn.1 (List.mem_map.mpr ⟨(a, v), h, rfl⟩)
      simp [this, ih hn.2 h]

theorem hasKey_erase (l : List (α × β)) (k k' : α) :
    hasKey (erase l k) k' = (hasKey l k' && decide (k' ≠ k)) := by
  induction l with
  | nil => simp
  | cons p t ih =>
    obtain ⟨a, b⟩ := p
    rw [erase_cons]
    by_cases h : a = k
    · subst h
      by_cases h' : a = k'
      · subst h'; simp [hasKey_cons, ih]
      · have : k' ≠ a := fun e => h' e.symm
        simp [hasKey_cons, ih, h', this]
    · by_cases h' : a = k'
      · subst h'; simp [hasKey_cons, h]
      · simp [hasKey_cons, ih, h, h']

theorem get?_erase (l : List (α × β)) (k k' : α) :
    get? (erase l k) k' = if k' = k then none else get? l k' := by
  induction l with
  | nil => simp
  | cons p t ih =>
    obtain ⟨a, b⟩ := p
    rw [erase_cons]
    by_cases h' : k' = k
    · subst h'
      by_cases h : a = k'
      · simpa [h] using ih
      · simpa [h, get?_cons] using ih
    · by_cases h : a = k
      · subst h
        have : a ≠ k' := fun e => h' e.symm
        simpa [h', get?_cons, this] using ih
      · by_cases h'' : a = k' <;> simp [h, h', h'', ih, get?_cons]

theorem erase_eq_self {l : List (α × β)} {k : α} (h : hasKey l k = false) : erase l k = l := by
  induction l with
  | nil => rfl
  | cons p t ih =>
    obtain ⟨a, b⟩ := p
    simp only [hasKey_cons, Bool.or_eq_false_iff, decide_eq_false_iff_not] at h
    rw [erase_cons]; simp [h.1, ih h.2]

theorem keys_erase_sublist (l : List (α × β)) (k : α) :
    ((erase l k).map (·.1)).Sublist (l.map (·.1)) :=
  (List.filter_sublist (l := l)).map _

theorem nodup_keys_erase {l : List (α × β)} (h : (l.map (·.1)).Nodup) (k : α) :
    ((erase l k).map (·.1)).Nodup := h.sublist (keys_erase_sublist l k)

theorem hasKey_upsert (l : List (α × β)) (k : α) (v : β) (k' : α) :
    hasKey (upsert l k v) k' = (hasKey l k' || decide (k' = k)) := by
  simp only [upsert, hasKey_append, hasKey_erase, hasKey_cons, hasKey_nil, Bool.or_false]
  by_cases h : k' = k
  · simp [h]
  · have : k ≠ k' := fun e => h e.symm
    simp [h, this]

theorem get?_upsert (l : List (α × β)) (k : α) (v : β) (k' : α) :
    get? (upsert l k v) k' = if k' = k then some v else get? l k' := by
  simp only [upsert, get?_append, get?_erase, get?_cons, get?_nil]
  by_cases h : k' = k
  · simp [h]
  · have : k ≠ k' := fun e => h e.symm
    simp [h, this]

theorem nodup_keys_upsert {l : List (α × β)} (h : (l.map (·.1)).Nodup) (k : α) (v : β) :
    ((upsert l k v).map (·.1)).Nodup := by
  simp only [upsert, List.map_append, List.map_cons, List.map_nil]
  refine List.nodup_append.mpr ⟨nodup_keys_erase h k, by simp, ?_⟩
  intro a ha b hb
  simp only [List.mem_singleton] at hb
  subst hb
  intro e; subst e
  have := hasKey_iff_mem_keys.mpr ha
  simp [hasKey_erase] at this

end Assoc

end NGF.Prov
