/-
Helper lemmas for C13 §7: EndpointSlices inside the pipeline model (`NGF.Model.PipelineEndpoints`). Core Lean only
(plus the helper lemmas of `NGF.Proofs.PipelineRefs` (C06) and `NGF.Proofs.Resolver` (C13)).
-/
import NGF.Model.PipelineEndpoints
import NGF.Proofs.PipelineRefs
import NGF.Proofs.Resolver

namespace NGF.PipelineEndpoints
open NGF.Pipeline NGF.PipelineRefs
open NGF.RefGrant (BackendRef GBackendRef Grant)
open NGF.Resolver (Slice SvcPort Up NgxUpstream)

/-! ### `dedupByName` -/

theorem mem_dedupByName : ∀ {l : List Up} {seen : List String} {u : Up},
    u ∈ dedupByName l seen → u ∈ l ∧ u.name ∉ seen
  | [], _, _, h => by simp [dedupByName] at h
  | x :: r, seen, u, h => by
    unfold dedupByName at h
    by_cases hx : x.name ∈ seen
    · simp only [hx, if_true] at h
      obtain ⟨h1, h2⟩ := mem_dedupByName h
      exact ⟨List.mem_cons_of_mem _ h1, h2⟩
    · simp only [hx, if_false, List.mem_cons] at h
      rcases h with rfl | h
      · exact ⟨List.mem_cons_self .., hx⟩
      · obtain ⟨h1, h2⟩ := mem_dedupByName h
        exact ⟨List.mem_cons_of_mem _ h1, fun hin => h2 (List.mem_cons_of_mem _ hin)⟩

theorem name_mem_dedupByName : ∀ {l : List Up} {seen : List String} {n : String},
    n ∈ l.map (·.name) → n ∉ seen → n ∈ (dedupByName l seen).map (·.name)
  | [], _, _, h, _ => by simp at h
  | x :: r, seen, n, h, hs => by
    unfold dedupByName
    simp only [List.map_cons, List.mem_cons] at h
    by_cases hx : x.name ∈ seen
    · simp only [hx, if_true]
      rcases h with rfl | h
      · exact absurd hx hs
      · exact name_mem_dedupByName h hs
    · simp only [hx, if_false, List.map_cons, List.mem_cons]
      by_cases hn : n = x.name
      · exact .inl hn
      · right
        rcases h with h | h
        · exact absurd h hn
        · exact name_mem_dedupByName h (by simp [hn, hs])

theorem nodup_dedupByName : ∀ (l : List Up) (seen : List String), ((dedupByName l seen).map (·.name)).Nodup
  | [], _ => by simp [dedupByName]
  | x :: r, seen => by
    unfold dedupByName
    by_cases hx : x.name ∈ seen
    · simp only [hx, if_true]; exact nodup_dedupByName r seen
    · simp only [hx, if_false, List.map_cons, List.nodup_cons]
      refine ⟨?_, nodup_dedupByName r _⟩
      intro hin
      obtain ⟨u, hu, hn⟩ := List.mem_map.mp hin
      exact (mem_dedupByName hu).2 (by rw [hn]; exact List.mem_cons_self ..)

/-- the first upstream of every name is the one kept: equal names in the result ⇒ equal upstreams -/
theorem dedupByName_congr {f g : GBackendRef → Up} : ∀ (l : List GBackendRef) (seen : List String),
    (∀ b ∈ l, f b = g b) → dedupByName (l.map f) seen = dedupByName (l.map g) seen
  | [], _, _ => rfl
  | b :: r, seen, h => by
    have hb := h b (List.mem_cons_self ..)
    have hr := fun s => dedupByName_congr r s (fun x hx => h x (List.mem_cons_of_mem _ hx))
    simp only [List.map_cons, dedupByName, hb, hr]

/-! ### `backends` -/

theorem mem_routeBackends {c : ScenarioE} {r : RouteR} {b : GBackendRef} :
    b ∈ routeBackends c r ↔ ∃ ru ∈ r.rules, ∃ refs, ru.action = .forward refs ∧ ∃ ref ∈ refs,
      b = resolveRef c.base.grants c.base.services r.ns ref ∧ b.valid = true := by
  simp only [routeBackends, List.mem_flatMap]
  constructor
  · rintro ⟨ru, hru, hb⟩
    cases hact : ru.action with
    | redirect a b' c' d => simp [hact] at hb
    | forward refs =>
      simp only [hact, List.mem_filter, List.mem_map] at hb
      obtain ⟨⟨ref, href, rfl⟩, hv⟩ := hb
      exact ⟨ru, hru, refs, hact, ref, href, rfl, hv⟩
  · rintro ⟨ru, hru, refs, hact, ref, href, rfl, hv⟩
    refine ⟨ru, hru, ?_⟩
    simp only [hact, List.mem_filter, List.mem_map]
    exact ⟨⟨ref, href, rfl⟩, hv⟩

theorem mem_backends {c : ScenarioE} {b : GBackendRef} :
    b ∈ backends c ↔ ∃ g, winner (resolve c.base) = some g ∧ ∃ l ∈ g.listeners, ∃ r ∈ c.base.routes,
      attachedAt g l r = true ∧ b ∈ routeBackends c r := by
  unfold backends
  cases hw : winner (resolve c.base) with
  | none => simp
  | some g =>
    simp only [List.mem_flatMap, List.mem_filter, Option.some.injEq, exists_eq_left']
    constructor
    · rintro ⟨l, hl, r, ⟨hr, ha⟩, hb⟩; exact ⟨l, hl, r, hr, ha, hb⟩
    · rintro ⟨l, hl, r, hr, ha, hb⟩; exact ⟨l, hl, r, ⟨hr, ha⟩, hb⟩

theorem attached_iff {g : Gateway} {r : RouteR} :
    attached g r = true ↔ ∃ l ∈ g.listeners, attachedAt g l r = true := by
  simp only [attached, attachedAt, Bool.and_eq_true, List.any_eq_true]
  constructor
  · rintro ⟨hv, l, hl, ha⟩; exact ⟨l, hl, hv, ha⟩
  · rintro ⟨l, hl, hv, ha⟩; exact ⟨hv, l, hl, ha⟩

/-- the name `ServicePortReference` gives a valid graph backendRef, as characters -/
theorem servicePortReference_valid {b : GBackendRef} (hv : b.valid = true) :
    (RefGrant.servicePortReference b).toList = upstreamOf b.svcNs b.svcName b.port := by
  simp [upstreamOf, RefGrant.servicePortReference, hv]

/-- every valid backendRef that `buildUpstreams` visits comes from a backendRef of an attached valid route that passed
the reference check and found its Service and port -/
theorem backends_provenance {c : ScenarioE} {b : GBackendRef} (hb : b ∈ backends c) :
    b.valid = true ∧ ∃ g, winner (resolve c.base) = some g ∧ ∃ r ∈ c.base.routes, attached g r = true ∧
      ∃ ru ∈ r.rules, ∃ refs, ru.action = .forward refs ∧ ∃ ref ∈ refs,
        b.svcNs = RefGrant.refNs ref r.ns ∧ b.svcName = ref.name ∧
        RefGrant.routeRefVerdict c.base.grants .http r.ns ref = .ok ∧
        findPort c.base.services r.ns ref = some b.port := by
  obtain ⟨g, hw, l, hl, r, hr, ha, hrb⟩ := mem_backends.mp hb
  obtain ⟨ru, hru, refs, hact, ref, href, rfl, hv⟩ := mem_routeBackends.mp hrb
  obtain ⟨hok, p, hf, heq⟩ := resolveRef_valid hv
  refine ⟨hv, g, hw, r, hr, attached_iff.mpr ⟨l, hl, ha⟩, ru, hru, refs, hact, ref, href, ?_, ?_, hok, ?_⟩
  · rw [heq]
  · rw [heq]
  · rw [heq]; exact hf

/-- every upstream name a location of `gen (resolve c)` proxies to (other than `invalid-backend-ref`) is the
`ServicePortReference` of a backendRef `buildUpstreams` visits -/
theorem target_has_backend {c : ScenarioE} {t : Str} {share : Nat}
    (ht : (t, share) ∈ confTargets (genR c.base)) (hne : t ≠ invalidBackendRef) :
    ∃ b ∈ backends c, (RefGrant.servicePortReference b).toList = t := by
  simp only [confTargets, List.mem_flatMap] at ht
  obtain ⟨a, ha, hta⟩ := ht
  rcases genR_acts ha with rfl | ⟨g, hw, r, hr, hatt, ru, hru, port, rfl⟩
  · simp [actTargets] at hta
  · obtain ⟨refs, hact, ref, href, p, htp, hok, hf⟩ := resolveAction_targets hta hne
    obtain ⟨l, hl, hal⟩ := attached_iff.mp hatt
    have hres : resolveRef c.base.grants c.base.services r.ns ref =
        { valid := true, svcNs := RefGrant.refNs ref r.ns, svcName := ref.name, port := p, weight := refWeight ref } := by
      simp [resolveRef, RefGrant.createBackendRef, hok, hf]
    refine ⟨resolveRef c.base.grants c.base.services r.ns ref, ?_, ?_⟩
    · refine mem_backends.mpr ⟨g, hw, l, hl, r, hr, hal, mem_routeBackends.mpr ⟨ru, hru, refs, hact, ref, href, rfl, ?_⟩⟩
      rw [hres]
    · rw [servicePortReference_valid (by rw [hres]), hres]; exact htp.symm

/-! ### `upstreamsOf` -/

theorem mem_upstreamsOf {c : ScenarioE} {u : Up} (hu : u ∈ upstreamsOf c) : ∃ b ∈ backends c, u = toUp c b := by
  obtain ⟨h, _⟩ := mem_dedupByName hu
  obtain ⟨b, hb, rfl⟩ := List.mem_map.mp h
  exact ⟨b, hb, rfl⟩

theorem name_mem_upstreamsOf {c : ScenarioE} {b : GBackendRef} (hb : b ∈ backends c) :
    RefGrant.servicePortReference b ∈ (upstreamsOf c).map (·.name) := by
  apply name_mem_dedupByName _ (by simp)
  exact List.mem_map.mpr ⟨toUp c b, List.mem_map.mpr ⟨b, hb, rfl⟩, rfl⟩

theorem nodup_upstreamsOf (c : ScenarioE) : ((upstreamsOf c).map (·.name)).Nodup := nodup_dedupByName _ _

theorem unique_by_name {l : List Up} (hnd : (l.map (·.name)).Nodup) {u u' : Up} (hu : u ∈ l) (hu' : u' ∈ l)
    (hn : u.name = u'.name) : u = u' := by
  induction l with
  | nil => simp at hu
  | cons x r ih =>
    simp only [List.map_cons, List.nodup_cons, List.mem_map, not_exists, not_and] at hnd
    rcases List.mem_cons.mp hu with rfl | hur <;> rcases List.mem_cons.mp hu' with rfl | hur'
    · rfl
    · exact absurd hn.symm (hnd.1 u' hur')
    · exact absurd hn (hnd.1 u hur)
    · exact ih hnd.2 hur hur'

/-! ### which EndpointSlices matter -/

theorem listSlices_insert {l1 l2 : List Slice} {s : Slice} {ns name : String}
    (h : ¬ (s.ns = ns ∧ s.svcLabel = some name)) :
    Resolver.listSlices (l1 ++ s :: l2) ns name = Resolver.listSlices (l1 ++ l2) ns name := by
  unfold Resolver.listSlices
  rw [List.filter_append, List.filter_append, List.filter_cons]
  have : (decide (s.ns = ns) && decide (Resolver.indexKey s = some name)) = false := by
    by_cases h1 : s.ns = ns
    · have h2 : s.svcLabel ≠ some name := fun e => h ⟨h1, e⟩
      have : Resolver.indexKey s ≠ some name := by
        unfold Resolver.indexKey
        cases hl : s.svcLabel with
        | none => simp
        | some v =>
          by_cases hv : v = ""
          · simp [hv]
          · simp only [hv, if_false, ne_eq, Option.some.injEq]
            intro e; exact h2 (by rw [hl, e])
      simp [this]
    · simp [h1]
  simp [this]

theorem upstreamEndpoints_insert {l1 l2 : List Slice} {s : Slice} {ns name : String} (sp : SvcPort)
    (fam : Resolver.IPFamily) (h : ¬ (s.ns = ns ∧ s.svcLabel = some name)) :
    Resolver.upstreamEndpoints (l1 ++ s :: l2) ns name sp fam = Resolver.upstreamEndpoints (l1 ++ l2) ns name sp fam := by
  unfold Resolver.upstreamEndpoints Resolver.resolve
  rw [listSlices_insert h]

end NGF.PipelineEndpoints
