/-
C09 — the wiring judge's vocabulary (`groupOfKind`, `ofGroup`) applied to what the MODEL flushes: when every
request submitted under a group addresses a resource kind of that group, the per-group part of the flushed
writes is exactly the list passed by the last call for the group.  Core Lean only.
-/
import NGF.Model.LeaderWiringJudge
import NGF.Proofs.LeaderWiring

namespace NGF.Leader

/-- every request submitted under group `g` is in the table and addresses a kind that belongs to `g` -/
def KindsOk (tbl : List SReq) (ops : List Op) : Prop :=
  ∀ g r, Op.update g r ∈ ops → ∀ q ∈ resources tbl r, groupOfKind q.kind = g

theorem lastSub_mem {g : Group} {r : List Req} : ∀ {ops : List Op}, lastSub g ops = some r →
    Op.update g r ∈ ops
  | [], h => by simp [lastSub] at h
  | .enable _ :: ops, h => List.mem_cons_of_mem _ (lastSub_mem (ops := ops) (by simpa [lastSub] using h))
  | .update g' r' :: ops, h => by
    simp only [lastSub] at h
    cases hl : lastSub g ops with
    | some x =>
      rw [hl] at h
      simp only [Option.some.injEq] at h
      subst h
      exact List.mem_cons_of_mem _ (lastSub_mem hl)
    | none =>
      rw [hl] at h
      by_cases hg : g' = g
      · subst hg
        simp only [if_true, Option.some.injEq] at h
        subst h
        exact List.mem_cons_self
      · simp [hg] at h

theorem get_of_mem {g : Group} {r : List Req} : ∀ {s : Saved}, (keys s).Nodup → (g, r) ∈ s →
    get g s = some r
  | [], _, h => by simp at h
  | (k, v) :: t, hn, h => by
    simp only [keys, List.map_cons, List.nodup_cons] at hn
    rcases List.mem_cons.1 h with h | h
    · simp only [Prod.mk.injEq] at h
      simp [get, h.1, h.2]
    · have hk : ¬ k = g := by
        intro e
        subst e
        exact hn.1 (List.mem_map.2 ⟨(k, r), h, rfl⟩)
      simp only [get, hk, if_false]
      exact get_of_mem (by simpa [keys] using hn.2) h

theorem ofGroup_append (g : Group) (a b : List SReq) : ofGroup g (a ++ b) = ofGroup g a ++ ofGroup g b := by
  simp [ofGroup]

theorem ofGroup_all {g : Group} {l : List SReq} (h : ∀ q ∈ l, groupOfKind q.kind = g) : ofGroup g l = l := by
  simp only [ofGroup]
  exact List.filter_eq_self.2 (fun q hq => by simp [h q hq])

theorem ofGroup_none {g k : Group} {l : List SReq} (hk : ¬ k = g) (h : ∀ q ∈ l, groupOfKind q.kind = k) :
    ofGroup g l = [] := by
  simp only [ofGroup]
  apply List.filter_eq_nil_iff.2
  intro q hq
  rw [h q hq]
  simpa using hk

/-- the group-`g` part of a flush whose entries have distinct groups and kinds of their own group -/
theorem ofGroup_flush (tbl : List SReq) (g : Group) : ∀ (ws : List Write), (keys ws).Nodup →
    (∀ w ∈ ws, ∀ q ∈ resources tbl w.2, groupOfKind q.kind = w.1) →
    ofGroup g ((ws.map fun w => resources tbl w.2).flatten) = resources tbl ((get g ws).getD [])
  | [], _, _ => by simp [get, resources, ofGroup]
  | (k, v) :: t, hn, hk => by
    have hn' : (keys t).Nodup := by
      simp only [keys, List.map_cons, List.nodup_cons] at hn
      simpa [keys] using hn.2
    have ih := ofGroup_flush tbl g t hn' (fun w hw => hk w (List.mem_cons_of_mem _ hw))
    have hv : ∀ q ∈ resources tbl v, groupOfKind q.kind = k := hk (k, v) List.mem_cons_self
    simp only [List.map_cons, List.flatten_cons, ofGroup_append, ih]
    by_cases e : k = g
    · subst e
      have hnot : k ∉ keys t := by
        simp only [keys, List.map_cons, List.nodup_cons] at hn
        simpa [keys] using hn.1
      rw [ofGroup_all hv, get_none_of_not_mem hnot]
      simp [get, resources]
    · rw [ofGroup_none e hv]
      simp [get, e]

end NGF.Leader
