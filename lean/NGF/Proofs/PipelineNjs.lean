/-
C02 refinement proof, part 3 (inside one path rule): the njs matcher on the generated match list agrees with the
specification's `condsHit` (`testMatch_eq_condsHit`), so a generated location answers with the action of the FIRST entry
(in `sortMatchRules` order) whose conditions the request satisfies (`evalLocAct_ruleAct`); the first satisfied element of a
stably sorted list is minimal for the order and first of its tie class in source order (`mergeSort_find_first`); the
action NGINX performs is the one the specification prescribes (`evalAct_actOf`).
-/
import NGF.Model.Pipeline
import NGF.Model.PipelineHyp
import NGF.Proofs.Sort

namespace NGF.Pipeline
open NGF.NginxEval.Njs (splitOn headersMatch paramsMatch testMatch headerIn argOf indexOfEq Res)

/-! ### `splitOn` -/

theorem splitOn_ne_nil (c : Char) : ∀ s : Str, ∃ h t, splitOn c s = h :: t
  | [] => ⟨[], [], rfl⟩
  | x :: xs => by
    obtain ⟨h, t, e⟩ := splitOn_ne_nil c xs
    simp only [splitOn, e]
    by_cases hx : (x == c) = true
    · exact ⟨[], h :: t, by simp [hx]⟩
    · exact ⟨x :: h, t, by simp [hx]⟩

theorem splitOn_no {c : Char} : ∀ {s : Str}, c ∉ s → splitOn c s = [s]
  | [], _ => rfl
  | x :: xs, h => by
    have hx : (x == c) = false := by
      simp only [List.mem_cons, not_or] at h
      simpa using fun e : x = c => h.1 e.symm
    have ih := splitOn_no (c := c) (s := xs) (fun hm => h (List.mem_cons_of_mem _ hm))
    simp [splitOn, ih, hx]

theorem splitOn_append (c : Char) : ∀ (a b : Str), splitOn c (a ++ c :: b) = splitOn c a ++ splitOn c b
  | [], b => by
    obtain ⟨h, t, e⟩ := splitOn_ne_nil c b
    simp [splitOn, e]
  | x :: a, b => by
    obtain ⟨h, t, e⟩ := splitOn_ne_nil c a
    have ih := splitOn_append c a b
    simp only [List.cons_append, splitOn, ih, e]
    by_cases hx : (x == c) = true <;> simp [hx]

theorem splitOn_pair {c : Char} {k v : Str} (hk : c ∉ k) (hv : c ∉ v) : splitOn c (k ++ [c] ++ v) = [k, v] := by
  rw [List.append_assoc, List.singleton_append, splitOn_append, splitOn_no hk, splitOn_no hv]; rfl

/-- joining comma-free values with `,` and splitting again gives the values back -/
theorem splitOn_join {c : Char} : ∀ (vs : List Str) (acc : Str), (∀ x ∈ vs, c ∉ x) →
    splitOn c (vs.foldl (fun acc x => acc ++ [c] ++ x) acc) = splitOn c acc ++ vs
  | [], acc, _ => by simp
  | x :: xs, acc, h => by
    have hx : c ∉ x := h x List.mem_cons_self
    rw [List.foldl_cons, splitOn_join xs _ (fun y hy => h y (List.mem_cons_of_mem _ hy))]
    rw [List.append_assoc, List.singleton_append, splitOn_append, splitOn_no hx]
    simp

/-! ### headers -/

theorem dedup_mem : ∀ {hs : List (Str × Str)} {seen : List Str} {x : Str × Str},
    x ∈ dedupHeaders hs seen → x ∈ hs
  | [], _, _, h => by simp [dedupHeaders] at h
  | y :: ys, seen, x, h => by
    unfold dedupHeaders at h
    by_cases hc : seen.contains (lower y.1) = true
    · simp only [hc, ↓reduceIte] at h
      exact List.mem_cons_of_mem _ (dedup_mem h)
    · simp only [hc, Bool.false_eq_true, ↓reduceIte, List.mem_cons] at h
      rcases h with rfl | h
      · exact List.mem_cons_self
      · exact List.mem_cons_of_mem _ (dedup_mem h)

theorem not_mem_of_contains_false {x : Str} {c : Char} (h : x.contains c = false) : c ∉ x := by
  intro hm
  have : x.contains c = true := List.contains_iff_mem.mpr hm
  rw [h] at this; cases this

/-- one header condition: njs (`r.headersIn[name]`, comma-joined, split at `,`) = some header line has the value -/
theorem header_cond {hs : List (Str × Str)} (hcomma : ∀ h ∈ hs, h.2.contains ',' = false) {k v : Str}
    (hv : v ≠ []) :
    (match headerIn hs k with
     | none => false
     | some val => !val.isEmpty && (splitOn ',' val).contains v) =
    hs.any (fun r => lower r.1 == lower k && r.2 == v) := by
  unfold headerIn
  have hl : NGF.NginxEval.Njs.lower = lower := rfl
  rw [hl]
  generalize hvals : (hs.filter fun h => lower h.1 == lower k).map (·.2) = vals
  have hmem : ∀ x, x ∈ vals ↔ ∃ r ∈ hs, (lower r.1 == lower k) = true ∧ r.2 = x := by
    intro x
    rw [← hvals]
    simp only [List.mem_map, List.mem_filter]
    constructor
    · rintro ⟨r, ⟨h1, h2⟩, h3⟩; exact ⟨r, h1, h2, h3⟩
    · rintro ⟨r, h1, h2, h3⟩; exact ⟨r, ⟨h1, h2⟩, h3⟩
  have hany : hs.any (fun r => lower r.1 == lower k && r.2 == v) = vals.contains v := by
    cases hc : vals.contains v with
    | true =>
      obtain ⟨r, hr, h1, h2⟩ := (hmem v).mp (List.contains_iff_mem.mp hc)
      exact List.any_eq_true.mpr ⟨r, hr, by simp [h1, h2]⟩
    | false =>
      rw [List.any_eq_false]
      intro r hr hcond
      simp only [Bool.and_eq_true, beq_iff_eq] at hcond
      have : v ∈ vals := (hmem v).mpr ⟨r, hr, by simpa using hcond.1, hcond.2⟩
      rw [List.contains_iff_mem.mpr this] at hc; cases hc
  have hfree : ∀ x ∈ vals, ',' ∉ x := by
    intro x hx
    obtain ⟨r, hr, _, rfl⟩ := (hmem x).mp hx
    exact not_mem_of_contains_false (hcomma r hr)
  rw [hany]
  cases vals with
  | nil => rfl
  | cons v0 vs =>
    simp only
    rw [splitOn_join vs v0 (fun x hx => hfree x (List.mem_cons_of_mem _ hx)),
      splitOn_no (hfree v0 List.mem_cons_self), List.singleton_append]
    cases hc : (v0 :: vs).contains v with
    | false => simp
    | true =>
      simp only [Bool.and_true, Bool.not_eq_true', List.isEmpty_eq_false_iff]
      -- the joined value is empty only for the single empty value, which is not `v`
      intro he
      cases vs with
      | nil =>
        simp only [List.foldl_nil] at he
        subst he
        simp only [List.contains_cons, List.contains_nil, Bool.or_false, beq_iff_eq] at hc
        exact hv hc
      | cons w ws =>
        have : ∀ (l : List Str) (a : Str), a ≠ [] → l.foldl (fun acc x => acc ++ [','] ++ x) a ≠ [] := by
          intro l
          induction l with
          | nil => intro a ha; simpa using ha
          | cons y ys ih => intro a _; rw [List.foldl_cons]; exact ih _ (by simp)
        exact this ws (v0 ++ [','] ++ w) (by simp) he

theorem headersMatch_eq {hs : List (Str × Str)} (hcomma : ∀ h ∈ hs, h.2.contains ',' = false) :
    ∀ (L : List (Str × Str)), (∀ h ∈ L, njsPartOK h.1 = true ∧ njsPartOK h.2 = true) →
    headersMatch hs (L.map fun h => h.1 ++ [':'] ++ h.2) =
      .ok (L.all fun h => hs.any fun r => lower r.1 == lower h.1 && r.2 == h.2)
  | [], _ => rfl
  | h :: rest, hok => by
    have hh := hok h List.mem_cons_self
    simp only [njsPartOK, Bool.and_eq_true, Bool.not_eq_true', List.isEmpty_eq_false_iff] at hh
    have ih := headersMatch_eq hcomma rest (fun x hx => hok x (List.mem_cons_of_mem _ hx))
    have hc := header_cond hcomma (k := h.1) (v := h.2) hh.2.1
    simp only [List.map_cons, headersMatch,
      splitOn_pair (not_mem_of_contains_false hh.1.2) (not_mem_of_contains_false hh.2.2), List.all_cons]
    rw [← hc]
    cases hin : headerIn hs h.1 with
    | none => simp
    | some val =>
      simp only
      cases he : val.isEmpty with
      | true => simp
      | false =>
        simp only [Bool.false_eq_true, ↓reduceIte, Bool.not_false, Bool.true_and]
        cases hct : (splitOn ',' val).contains h.2 with
        | true => simp only [↓reduceIte, Bool.true_and]; exact ih
        | false => simp

/-! ### query parameters -/

theorem indexOfEq_append : ∀ (k v : Str) (i : Nat), '=' ∉ k → indexOfEq (k ++ '=' :: v) i = some (i + k.length)
  | [], v, i, _ => by simp [indexOfEq]
  | c :: cs, v, i, h => by
    have hc : (c == '=') = false := by
      simp only [List.mem_cons, not_or] at h
      simpa using fun e : c = '=' => h.1 e.symm
    have ih := indexOfEq_append cs v (i + 1) (fun hm => h (List.mem_cons_of_mem _ hm))
    simp only [List.cons_append, indexOfEq, hc, Bool.false_eq_true, ↓reduceIte, ih, List.length_cons]
    congr 1; omega

theorem paramsMatch_eq (args : List (Str × Str)) :
    ∀ (L : List (Str × Str)), (∀ p ∈ L, p.1 ≠ [] ∧ p.1.contains '=' = false ∧ p.2 ≠ []) →
    paramsMatch args (L.map fun p => p.1 ++ ['='] ++ p.2) =
      .ok (L.all fun p => match args.find? (·.1 == p.1) with | some kv => kv.2 == p.2 | none => false)
  | [], _ => rfl
  | p :: rest, hok => by
    obtain ⟨hk, hke, hv⟩ := hok p List.mem_cons_self
    have ih := paramsMatch_eq args rest (fun x hx => hok x (List.mem_cons_of_mem _ hx))
    have hidx : indexOfEq (p.1 ++ ['='] ++ p.2) 0 = some p.1.length := by
      rw [List.append_assoc, List.singleton_append, indexOfEq_append _ _ _ (not_mem_of_contains_false hke)]
      simp
    have hk0 : (p.1.length == 0) = false := by
      cases hx : p.1 with
      | nil => exact absurd hx hk
      | cons _ _ => simp
    have hlast : (p.1.length == (p.1 ++ ['='] ++ p.2).length - 1) = false := by
      cases hx : p.2 with
      | nil => exact absurd hx hv
      | cons _ _ => simp <;> omega
    simp only [List.map_cons, paramsMatch, hidx, hk0, hlast, Bool.or_self, Bool.false_eq_true, ↓reduceIte,
      List.all_cons, argOf]
    have htake : (p.1 ++ ['='] ++ p.2).take p.1.length = p.1 := by
      rw [List.append_assoc, List.take_left']; rfl
    have hdrop : (p.1 ++ ['='] ++ p.2).drop (p.1.length + 1) = p.2 := by
      rw [List.append_assoc, List.singleton_append]
      have : p.1.length + 1 = (p.1 ++ ['=']).length := by simp
      rw [show p.1 ++ '=' :: p.2 = (p.1 ++ ['=']) ++ p.2 by simp, this, List.drop_left']; rfl
    rw [htake, hdrop]
    cases hf : args.find? (fun x => x.1 == p.1) with
    | none => simp
    | some kv =>
      simp only [Option.map_some]
      cases he : kv.2.isEmpty with
      | true =>
        have : kv.2 = [] := by simpa using he
        have hne : (kv.2 == p.2) = false := by
          rw [this]; cases hx : p.2 with
          | nil => exact absurd hx hv
          | cons _ _ => rfl
        simp [hne]
      | false =>
        simp only [Bool.false_eq_true, ↓reduceIte]
        cases heq : (kv.2 == p.2) with
        | true => simp only [↓reduceIte, Bool.true_and]; exact ih
        | false => simp

/-! ### the njs matcher = the specification's conditions -/

theorem testMatch_ok (r : NGF.NginxEval.Njs.Req) (m' : NjsMatch) (bh bp : Bool) (ha : m'.any = false)
    (hh : (if m'.headers.isEmpty then Res.ok true else headersMatch r.headers m'.headers) = .ok bh)
    (hp : (if m'.params.isEmpty then Res.ok true else paramsMatch r.args m'.params) = .ok bp) :
    testMatch r m' = .ok ((m'.method.isEmpty || m'.method == r.method) && bh && bp) := by
  unfold testMatch
  rw [ha, hh]
  simp only [Bool.false_eq_true, ↓reduceIte]
  by_cases hme : m'.method.isEmpty = true
  · simp only [hme, Bool.not_true, Bool.false_and, Bool.false_eq_true, ↓reduceIte, Bool.true_or, Bool.true_and]
    cases bh with
    | false => rfl
    | true => exact hp
  · by_cases e : m'.method = r.method
    · have h1 : (r.method != m'.method) = false := by simp [e]
      have h2 : (m'.method == r.method) = true := by simp [e]
      simp only [h1, Bool.and_false, Bool.false_eq_true, ↓reduceIte, h2, Bool.or_true, Bool.true_and]
      cases bh with
      | false => rfl
      | true => exact hp
    · have h1 : (r.method != m'.method) = true := by simpa using fun x : r.method = m'.method => e x.symm
      have h2 : (m'.method == r.method) = false := by simpa using e
      simp [hme, h1, h2]

theorem testMatch_eq_condsHit {m : Match} (hm : matchOK m = true) {q : Req}
    (hq : ∀ h ∈ q.headers, h.2.contains ',' = false) :
    testMatch (njsReq q) (njsMatchOf m) = .ok (condsHit m q) := by
  unfold njsMatchOf
  by_cases hp : isPathOnly m = true
  · simp only [hp, ↓reduceIte, testMatch]
    simp only [isPathOnly, Bool.and_eq_true, List.isEmpty_iff] at hp
    simp [condsHit, hp.1.1, hp.1.2, hp.2, dedupHeaders]
  · simp only [hp, Bool.false_eq_true, ↓reduceIte]
    simp only [matchOK, Bool.and_eq_true, List.all_eq_true] at hm
    have hH := headersMatch_eq hq (dedupHeaders m.headers []) (fun h hh => by
      have := hm.1.2 h (dedup_mem hh)
      simpa using this)
    have hP := paramsMatch_eq q.query m.query (fun p hp' => by
      have := hm.2 p hp'
      simp only [Bool.not_eq_true', List.isEmpty_eq_false_iff] at this
      exact ⟨this.1.1, this.1.2, this.2⟩)
    have hH' : (if ((dedupHeaders m.headers []).map fun h => h.1 ++ [':'] ++ h.2).isEmpty then Res.ok true
        else headersMatch q.headers ((dedupHeaders m.headers []).map fun h => h.1 ++ [':'] ++ h.2)) =
        .ok ((dedupHeaders m.headers []).all (headerHit q)) := by
      by_cases he : ((dedupHeaders m.headers []).map fun h => h.1 ++ [':'] ++ h.2).isEmpty = true
      · have : dedupHeaders m.headers [] = [] := by simpa using he
        simp [this]
      · simp only [he, Bool.false_eq_true, ↓reduceIte]
        exact hH
    have hP' : (if (m.query.map fun p => p.1 ++ ['='] ++ p.2).isEmpty then Res.ok true
        else paramsMatch q.query (m.query.map fun p => p.1 ++ ['='] ++ p.2)) =
        .ok (m.query.all (queryHit q)) := by
      by_cases he : (m.query.map fun p => p.1 ++ ['='] ++ p.2).isEmpty = true
      · have : m.query = [] := by simpa using he
        simp [this]
      · simp only [he, Bool.false_eq_true, ↓reduceIte]
        exact hP
    exact testMatch_ok (njsReq q) _ _ _ rfl hH' hP'

/-! ### what a generated location answers -/

theorem findWinningP_eq {r : NGF.NginxEval.Njs.Req} {sat : Entry → Bool} (f : Entry → Act) :
    ∀ (es : List Entry), (∀ e ∈ es, testMatch r (njsMatchOf e.m) = .ok (sat e)) →
    findWinningP r (es.map fun e => (njsMatchOf e.m, f e)) = some ((es.find? sat).map f)
  | [], _ => rfl
  | e :: es, h => by
    have he := h e List.mem_cons_self
    have ih := findWinningP_eq f es (fun x hx => h x (List.mem_cons_of_mem _ hx))
    simp only [List.map_cons, findWinningP, he, List.find?_cons]
    cases sat e <;> simp [ih]

/-- a generated location of a path rule answers with the action of the first entry (in list order) whose conditions
the request satisfies, 404 if there is none -/
theorem evalLocAct_ruleAct (port : Nat) (q : Req) (es : List Entry)
    (h : ∀ e ∈ es, testMatch (njsReq q) (njsMatchOf e.m) = .ok (condsHit e.m q)) :
    evalLocAct q (ruleAct port es) =
      match es.find? (fun e => condsHit e.m q) with
      | some e => evalAct q (actOf port e.action)
      | none => .status 404 := by
  have general : evalLocAct q (.njs (es.map fun e => (njsMatchOf e.m, actOf port e.action))) =
      match es.find? (fun e => condsHit e.m q) with
      | some e => evalAct q (actOf port e.action)
      | none => .status 404 := by
    simp only [evalLocAct, findWinningP_eq (fun e => actOf port e.action) es h]
    cases es.find? (fun e => condsHit e.m q) <;> rfl
  match es, h, general with
  | [], _, g => simpa [ruleAct] using g
  | [e], h, g =>
    by_cases hp : isPathOnly e.m = true
    · have hsat : condsHit e.m q = true := by
        have := h e List.mem_cons_self
        simp only [njsMatchOf, hp, ↓reduceIte, testMatch, Res.ok.injEq] at this
        exact this.symm
      simp [ruleAct, hp, evalLocAct, hsat]
    · simpa [ruleAct, hp] using g
  | e1 :: e2 :: es, _, g => simpa [ruleAct] using g

/-- the part of `noShadow` that concerns one location -/
def locShadowOK (l : CLoc) : Bool :=
  match l.act with
  | .njs ms => ms.any fun p => p.1.any
  | .direct _ => true

theorem noShadow_eq (c : Conf) : noShadow c = c.servers.all fun sv => sv.locs.all locShadowOK := rfl

/-- a location that passes `noShadow` has a path-only match among its entries -/
theorem pathOnly_of_shadowOK (port : Nat) (es : List Entry) (exact : Bool) (path : Str)
    (h : locShadowOK { exact := exact, path := path, act := ruleAct port es } = true) :
    ∃ e ∈ es, isPathOnly e.m = true := by
  have key : ∀ l : List Entry, (l.map fun e => (njsMatchOf e.m, actOf port e.action)).any (fun p => p.1.any) = true →
      ∃ e ∈ l, isPathOnly e.m = true := by
    intro l hl
    simp only [List.any_map, List.any_eq_true, Function.comp] at hl
    obtain ⟨e, he, ha⟩ := hl
    refine ⟨e, he, ?_⟩
    by_cases hp : isPathOnly e.m = true
    · exact hp
    · simp [njsMatchOf, hp] at ha
  match es, h with
  | [], h => simp [locShadowOK, ruleAct] at h
  | [e], h =>
    by_cases hp : isPathOnly e.m = true
    · exact ⟨e, List.mem_cons_self, hp⟩
    · simp only [locShadowOK, ruleAct, hp, Bool.false_eq_true, ↓reduceIte] at h
      exact key [e] (by simpa using h)
  | e1 :: e2 :: es, h =>
    simp only [locShadowOK, ruleAct] at h
    exact key _ h

theorem condsHit_of_pathOnly {m : Match} (h : isPathOnly m = true) (q : Req) : condsHit m q = true := by
  simp only [isPathOnly, Bool.and_eq_true, List.isEmpty_iff] at h
  simp [condsHit, h.1.1, h.1.2, h.2, dedupHeaders]

/-! ### the action -/

/-- what NGINX does with the generated action on the listener's port is what the specification prescribes -/
theorem evalAct_actOf (q : Req) (a : Action) : evalAct q (actOf q.port a) = specAction q a := by
  cases a with
  | forward bs => rfl
  | redirect code scheme host port =>
    simp only [actOf, evalAct, specAction, shownPort]
    cases scheme with
    | none => cases port <;> simp
    | some sch =>
      cases port with
      | none => simp
      | some p =>
        by_cases hw : wellKnown sch p = true
        · simp only [hw, ↓reduceIte, Option.getD_none, Option.getD_some]
          simp only [wellKnown, Bool.or_eq_true, Bool.and_eq_true, beq_iff_eq] at hw
          rcases hw with ⟨h1, h2⟩ | ⟨h1, h2⟩
          · subst h1 h2; simp [defaultPort]
          · subst h1 h2; simp [defaultPort]
        · simp [hw]

/-! ### first satisfied element of a stably sorted list -/

section sort
open NGF.Sort
variable {α : Type _} {le : α → α → Bool}

/-- The first element of `l.mergeSort le` that satisfies `sat`: it satisfies `sat`, is in `l`, is `le`-below every
satisfying element of `l`, and is the first satisfying element, in the ORIGINAL order of `l`, of its tie class. -/
theorem mergeSort_find_first (tr : ∀ a b c, le a b = true → le b c = true → le a c = true)
    (tot : ∀ a b, (le a b || le b a) = true) (l : List α) (sat : α → Bool) {x : α}
    (h : (l.mergeSort le).find? sat = some x) :
    x ∈ l ∧ sat x = true ∧ (∀ y ∈ l, sat y = true → le x y = true) ∧
    (l.filter (equivB le x)).find? sat = some x := by
  have hperm := List.mergeSort_perm l le
  have hsorted := List.pairwise_mergeSort tr tot l
  obtain ⟨hsat, as, bs, heq, hbefore⟩ := List.find?_eq_some_iff_append.mp h
  have hrefl : le x x = true := le_refl' tr tot x
  refine ⟨hperm.mem_iff.mp (by rw [heq]; simp), hsat, ?_, ?_⟩
  · intro y hy hs
    have hy' : y ∈ as ++ x :: bs := by rw [← heq]; exact hperm.mem_iff.mpr hy
    rcases List.mem_append.mp hy' with h1 | h1
    · have := hbefore y h1; simp [hs] at this
    · rcases List.mem_cons.mp h1 with e | e
      · rw [e]; exact hrefl
      · rw [heq] at hsorted
        exact (List.pairwise_cons.mp (List.pairwise_append.mp hsorted).2.1).1 y e
  · rw [← filter_mergeSort_class tr tot l x, List.find?_filter, heq]
    rw [List.find?_eq_some_iff_append]
    refine ⟨by simp [equivB, hrefl, hsat], as, bs, rfl, ?_⟩
    intro a ha
    have := hbefore a ha
    simp only [Bool.not_eq_true'] at this
    simp [this]

end sort

end NGF.Pipeline
