/-
Positions in Model/Render: the index of a path rule in the sorted `server.PathRules` (`rank ruleLt`), the serverID
(`sidOf`, `base`), for every port order. They are injective, so `matchKey` and the internal location paths are too.
Core Lean only.
-/
import NGF.Proofs.RenderStruct
import NGF.Proofs.Precedence
import NGF.Proofs.Mangle

namespace NGF.Render
open NGF.Pipeline NGF.Mangle
open NGF.Precedence (lexLt lexLt_irrefl lexLt_trans lexLt_tri)

/-! ### the two sort orders are strict total orders -/

theorem bytes_inj : ∀ {a b : Str}, bytes a = bytes b → a = b
  | [], [], _ => rfl
  | [], _ :: _, h => by simp [bytes] at h
  | _ :: _, [], h => by simp [bytes] at h
  | x :: xs, y :: ys, h => by
    simp only [bytes, List.map_cons, List.cons.injEq] at h
    rw [Char.toNat_inj.mp h.1, bytes_inj (a := xs) (b := ys) h.2]

theorem nameLt_strictTotal : StrictTotal nameLt where
  irrefl a := lexLt_irrefl _
  trans a b c := lexLt_trans _ _ _
  total a b hne := by
    rcases lexLt_tri (bytes a) (bytes b) with h | h | h
    · exact Or.inl h
    · exact absurd (bytes_inj h) hne
    · exact Or.inr h

theorem ruleLt_strictTotal : StrictTotal ruleLt where
  irrefl a := by simp [ruleLt]
  trans a b c h1 h2 := by
    unfold ruleLt at *
    by_cases e1 : a.2 = b.2
    · by_cases e2 : b.2 = c.2
      · simp only [e1, e2, beq_self_eq_true, ↓reduceIte, Bool.and_eq_true, Bool.not_eq_true'] at h1 h2 ⊢
        exact ⟨h1.1, h2.2⟩
      · have e3 : ¬ a.2 = c.2 := by rw [e1]; exact e2
        simp only [e1, beq_self_eq_true, ↓reduceIte] at h1
        simp only [beq_iff_eq, e2, ↓reduceIte] at h2
        simp only [beq_iff_eq, e3, ↓reduceIte]
        rw [e1]; exact h2
    · simp only [beq_iff_eq, e1, ↓reduceIte] at h1
      by_cases e2 : b.2 = c.2
      · have e3 : ¬ a.2 = c.2 := by rw [← e2]; exact e1
        simp only [beq_iff_eq, e3, ↓reduceIte]
        rw [← e2]; exact h1
      · simp only [beq_iff_eq, e2, ↓reduceIte] at h2
        have h3 := lexLt_trans _ _ _ h1 h2
        have e3 : ¬ a.2 = c.2 := by
          intro e
          rw [e] at h3
          rw [lexLt_irrefl] at h3
          exact absurd h3 (by simp)
        simp only [beq_iff_eq, e3, ↓reduceIte]
        exact h3
  total a b hne := by
    unfold ruleLt
    by_cases e : a.2 = b.2
    · simp only [e, beq_self_eq_true, ↓reduceIte, Bool.and_eq_true, Bool.not_eq_true']
      have h1 : a.1 ≠ b.1 := fun h => hne (Prod.ext h e)
      cases ha : a.1 <;> cases hb : b.1 <;> simp_all
    · have e' : ¬ b.2 = a.2 := fun h => e h.symm
      simp only [beq_iff_eq, e, e', ↓reduceIte]
      rcases lexLt_tri (bytes a.2) (bytes b.2) with h | h | h
      · exact Or.inl h
      · exact absurd (bytes_inj h) e
      · exact Or.inr h

/-! ### path rule index -/

theorem nodup_getElem?_inj {α} : ∀ {l : List α}, l.Nodup → ∀ {i j : Nat} {x : α}, l[i]? = some x → l[j]? = some x → i = j
  | [], _, _, _, _, h, _ => by simp at h
  | a :: as, hn, i, j, x, hi, hj => by
    rw [List.nodup_cons] at hn
    cases i with
    | zero =>
      cases j with
      | zero => rfl
      | succ j =>
        simp only [List.getElem?_cons_zero, Option.some.injEq] at hi
        simp only [List.getElem?_cons_succ] at hj
        exact absurd (hi ▸ List.mem_of_getElem? hj) hn.1
    | succ i =>
      cases j with
      | zero =>
        simp only [List.getElem?_cons_zero, Option.some.injEq] at hj
        simp only [List.getElem?_cons_succ] at hi
        exact absurd (hj ▸ List.mem_of_getElem? hi) hn.1
      | succ j =>
        simp only [List.getElem?_cons_succ] at hi hj
        rw [nodup_getElem?_inj hn.2 hi hj]

/-- two different positions of a duplicate-free key list get different indices in the sorted order -/
theorem rank_ne_of_enum {keys : List (Bool × Str)} (hn : keys.Nodup) {a b : Nat × (Bool × Str)}
    (ha : a ∈ enumFrom 0 keys) (hb : b ∈ enumFrom 0 keys) (hne : a ≠ b) :
    rank ruleLt keys a.2 ≠ rank ruleLt keys b.2 := by
  intro e
  have hk := rank_inj ruleLt_strictTotal (enumFrom_mem_snd ha) (enumFrom_mem_snd hb) e
  obtain ⟨_, ha2⟩ := mem_enumFrom (j := a.1) (x := a.2) ha
  obtain ⟨_, hb2⟩ := mem_enumFrom (j := b.1) (x := b.2) hb
  rw [hk] at ha2
  have := nodup_getElem?_inj hn ha2 hb2
  exact hne (Prod.ext (by omega) hk)

/-! ### serverID -/

theorem base_sep (hosts : List (Nat × Str)) : ∀ (ord : List Nat) {p q : Nat}, p ≠ q → (p ∈ ord ∨ q ∈ ord) →
    base hosts ord p + 1 + (namesOn hosts p).length ≤ base hosts ord q ∨
    base hosts ord q + 1 + (namesOn hosts q).length ≤ base hosts ord p
  | [], _, _, _, h => by simp at h
  | x :: xs, p, q, hne, h => by
    simp only [base]
    by_cases hp : x = p
    · subst hp
      have : (x == q) = false := by simpa using hne
      simp only [beq_self_eq_true, ↓reduceIte, this, Bool.false_eq_true]
      left; omega
    · by_cases hq : x = q
      · subst hq
        have : (x == p) = false := by simpa using hp
        simp only [beq_self_eq_true, ↓reduceIte, this, Bool.false_eq_true]
        right; omega
      · have h1 : (x == p) = false := by simpa using hp
        have h2 : (x == q) = false := by simpa using hq
        simp only [h1, h2, Bool.false_eq_true, ↓reduceIte]
        have h' : p ∈ xs ∨ q ∈ xs := by
          rcases h with h | h
          · exact Or.inl ((List.mem_cons.mp h).resolve_left fun e => hp e.symm)
          · exact Or.inr ((List.mem_cons.mp h).resolve_left fun e => hq e.symm)
        rcases base_sep hosts xs hne h' with ih | ih
        · left; omega
        · right; omega

theorem mem_namesOn {hosts : List (Nat × Str)} {ph : Nat × Str} (h : ph ∈ hosts) : ph.2 ∈ namesOn hosts ph.1 := by
  unfold namesOn
  exact List.mem_map.mpr ⟨ph, List.mem_filter.mpr ⟨h, by simp⟩, rfl⟩

/-- the serverID of a named server lies in the block of its port, after the default server -/
theorem sidOf_range {hosts : List (Nat × Str)} (ord : List Nat) {ph : Nat × Str} (h : ph ∈ hosts) :
    base hosts ord ph.1 < sidOf hosts ord ph ∧ sidOf hosts ord ph < base hosts ord ph.1 + 1 + (namesOn hosts ph.1).length := by
  have := rank_lt_length nameLt_strictTotal (mem_namesOn h)
  unfold sidOf; omega

theorem sidOf_inj {hosts : List (Nat × Str)} {ord : List Nat} {a b : Nat × Str} (ha : a ∈ hosts) (hb : b ∈ hosts)
    (hord : a.1 ∈ ord) (e : sidOf hosts ord a = sidOf hosts ord b) : a = b := by
  have ra := sidOf_range ord ha
  have rb := sidOf_range ord hb
  by_cases hp : a.1 = b.1
  · have hr : rank nameLt (namesOn hosts a.1) a.2 = rank nameLt (namesOn hosts a.1) b.2 := by
      unfold sidOf at e; rw [← hp] at e; omega
    exact Prod.ext hp (rank_inj nameLt_strictTotal (mem_namesOn ha) (hp ▸ mem_namesOn hb) hr)
  · rcases base_sep hosts ord hp (Or.inl hord) with h | h <;> omega

theorem sidOf_ne_base {hosts : List (Nat × Str)} {ord : List Nat} {a : Nat × Str} (ha : a ∈ hosts) (hord : a.1 ∈ ord)
    (p : Nat) : sidOf hosts ord a ≠ base hosts ord p := by
  have ra := sidOf_range ord ha
  by_cases hp : a.1 = p
  · subst hp; omega
  · rcases base_sep hosts ord hp (Or.inl hord) with h | h <;> omega

theorem base_inj {hosts : List (Nat × Str)} {ord : List Nat} {p q : Nat} (hp : p ∈ ord)
    (e : base hosts ord p = base hosts ord q) : p = q := by
  by_cases h : p = q
  · exact h
  · rcases base_sep hosts ord h (Or.inl hp) with h' | h' <;> omega

/-! ### the ports of the served Gateway are all in the port order -/

theorem mem_portOrder {order ports : List Nat} {p : Nat} (h : p ∈ ports) : p ∈ portOrder order ports := by
  unfold portOrder
  rw [List.mem_eraseDups, List.mem_append]
  exact Or.inr h

theorem hostsOf_port {g : Gateway} {routes : List Route} {ph : Nat × Str} (h : ph ∈ hostsOf g routes) :
    ph.1 ∈ (g.listeners.map (·.port)).eraseDups := by
  unfold hostsOf at h
  rw [List.mem_eraseDups] at h ⊢
  simp only [List.mem_flatMap] at h
  obtain ⟨l, hl, r, _, hx⟩ := h
  by_cases hv : r.valid = true
  · simp only [hv, ↓reduceIte, List.mem_map] at hx
    obtain ⟨_, _, rfl⟩ := hx
    exact List.mem_map.mpr ⟨l, hl, rfl⟩
  · simp [hv] at hx

/-! ### names built from positions -/

theorem matchKey_inj {a b c d : Nat} (e : matchKey a b = matchKey c d) : a = c ∧ b = d := by
  unfold matchKey at e
  obtain ⟨h1, h2⟩ := append_sep_inj (not_mem_digits_of_not_isDigit (by decide)) (not_mem_digits_of_not_isDigit (by decide)) e
  exact ⟨digits_injective h1, digits_injective h2⟩

theorem internalLocPath_inj {a b c d : Nat} (e : internalLocPath a b = internalLocPath c d) : a = c ∧ b = d := by
  simp only [internalLocPath, lit, List.append_assoc] at e
  have e1 := List.append_cancel_left (List.append_cancel_left e)
  have hr : "-route".toList = '-' :: "route".toList := by decide
  rw [hr] at e1
  simp only [List.cons_append] at e1
  obtain ⟨h1, h2⟩ := append_sep_inj (not_mem_digits_of_not_isDigit (by decide)) (not_mem_digits_of_not_isDigit (by decide)) e1
  exact ⟨digits_injective h1, digits_injective (List.append_cancel_left h2)⟩

end NGF.Render
