/-
C02, non-interference of Gateways: `processGateways` serves the oldest Gateway of the configured class
(`Pipeline.oldest`, ties: the earlier one). `olderGw` (creationTimestamp, namespace, name) is a strict weak order
(`olderGw_swo`); the served Gateway is an element no other is older than (`oldest_spec`); inserting a Gateway at ANY
position changes the result to at most the inserted one (`oldest_insert_mem`), and not at all when the served Gateway is
older than it (`oldest_insert_younger`, `winner_insert_gateway_anywhere`).
-/
import NGF.Proofs.PipelineBeats

namespace NGF.Pipeline
open NGF.Precedence
open NGF.Sort (SWO)

def gAge (a b : Gateway) : Bool := decide (a.age < b.age)
def gNs (a b : Gateway) : Bool := lexLt (bytes a.ns) (bytes b.ns)
def gName (a b : Gateway) : Bool := lexLt (bytes a.name) (bytes b.name)

theorem olderGw_eq (a b : Gateway) : olderGw a b = NGF.Sort.lexLt gAge (NGF.Sort.lexLt gNs gName) a b := by
  unfold olderGw NGF.Sort.lexLt gAge gNs gName
  by_cases hage : a.age = b.age
  · have h1 : ¬ a.age < b.age := by omega
    have h2 : ¬ b.age < a.age := by omega
    by_cases hns : a.ns = b.ns
    · simp [hage, hns, lexLt_irrefl]
    · have hne : (a.ns == b.ns) = false := by simpa using hns
      have hb : bytes a.ns ≠ bytes b.ns := fun e => hns (bytes_inj e)
      rcases lexLt_tri (bytes a.ns) (bytes b.ns) with t | t | t
      · simp [hage, hne, t]
      · exact absurd t hb
      · have : lexLt (bytes a.ns) (bytes b.ns) = false := lexLt_swo.asymm _ _ t
        simp [hage, hne, t, this]
  · have hne : (a.age == b.age) = false := by simpa using hage
    by_cases hlt : a.age < b.age
    · simp [hne, hlt]
    · have : b.age < a.age := by omega
      simp [hne, hlt, this]

theorem olderGw_swo : SWO olderGw := by
  have : olderGw = NGF.Sort.lexLt gAge (NGF.Sort.lexLt gNs gName) :=
    funext fun a => funext fun b => olderGw_eq a b
  rw [this]
  exact SWO.lex (SWO.ofMeasure _) (SWO.lex (SWO.comap (fun g : Gateway => bytes g.ns) lexLt_swo)
    (SWO.comap (fun g : Gateway => bytes g.name) lexLt_swo))

theorem oldest_eq_none {l : List Gateway} : oldest l = none ↔ l = [] := by
  cases l with
  | nil => simp [oldest]
  | cons g gs =>
    simp only [oldest, reduceCtorEq, iff_false]
    cases oldest gs with
    | none => simp
    | some b => by_cases h : olderGw b g = true <;> simp [h]

/-- the served Gateway is a member no other member is older than -/
theorem oldest_spec : ∀ {l : List Gateway} {m : Gateway}, oldest l = some m → m ∈ l ∧ ∀ x ∈ l, olderGw x m = false
  | [], m, h => by simp [oldest] at h
  | g :: gs, m, h => by
    unfold oldest at h
    cases hb : oldest gs with
    | none =>
      rw [hb] at h
      simp only [Option.some.injEq] at h; subst h
      have : gs = [] := oldest_eq_none.mp hb
      subst this
      exact ⟨List.mem_cons_self, by intro x hx; simp at hx; subst hx; exact olderGw_swo.irrefl _⟩
    | some b =>
      rw [hb] at h
      obtain ⟨hbm, hbmin⟩ := oldest_spec hb
      by_cases hbg : olderGw b g = true
      · simp only [hbg, ↓reduceIte, Option.some.injEq] at h; subst h
        refine ⟨List.mem_cons_of_mem _ hbm, ?_⟩
        intro x hx
        rcases List.mem_cons.mp hx with rfl | hx'
        · exact olderGw_swo.asymm _ _ hbg
        · exact hbmin x hx'
      · have hbg' : olderGw b g = false := Bool.eq_false_iff.mpr hbg
        simp only [hbg', Bool.false_eq_true, ↓reduceIte, Option.some.injEq] at h; subst h
        refine ⟨List.mem_cons_self, ?_⟩
        intro x hx
        rcases List.mem_cons.mp hx with rfl | hx'
        · exact olderGw_swo.irrefl _
        · cases hxg : olderGw x g with
          | false => rfl
          | true =>
            rcases olderGw_swo.negtrans x b g hxg with t | t
            · rw [hbmin x hx'] at t; cases t
            · rw [hbg'] at t; cases t

/-- one step of `oldest`, as a function of the result for the tail -/
def pickOlder (t : Option Gateway) (g : Gateway) : Gateway :=
  match t with
  | none => g
  | some b => if olderGw b g then b else g

theorem oldest_cons (g : Gateway) (gs : List Gateway) : oldest (g :: gs) = some (pickOlder (oldest gs) g) := by
  unfold pickOlder
  simp only [oldest]
  cases oldest gs with
  | none => rfl
  | some b => by_cases h : olderGw b g = true <;> simp [h]

/-- inserting a Gateway anywhere: the served Gateway stays, or becomes the inserted one -/
theorem oldest_insert_mem (y : Gateway) : ∀ (a b : List Gateway),
    oldest (a ++ y :: b) = some y ∨ oldest (a ++ y :: b) = oldest (a ++ b)
  | [], b => by
    simp only [List.nil_append, oldest_cons, pickOlder]
    cases hb : oldest b with
    | none => left; rfl
    | some m =>
      by_cases h : olderGw m y = true
      · right; simp [h]
      · left; simp [h]
  | x :: a, b => by
    simp only [List.cons_append, oldest_cons]
    rcases oldest_insert_mem y a b with h | h
    · -- the tail now yields y
      rw [h]
      simp only [pickOlder]
      by_cases hyx : olderGw y x = true
      · left; simp [hyx]
      · right
        have hyx' : olderGw y x = false := Bool.eq_false_iff.mpr hyx
        simp only [hyx', Bool.false_eq_true, ↓reduceIte, Option.some.injEq]
        cases ht : oldest (a ++ b) with
        | none => rfl
        | some t =>
          simp only
          by_cases htx : olderGw t x = true
          · -- t is in the new tail, where y is minimal: t is not older than y; with t < x this forces y < x
            exfalso
            have hmin := (oldest_spec h).2
            have htm : t ∈ a ++ y :: b := by
              have := (oldest_spec ht).1
              rcases List.mem_append.mp this with m | m
              · exact List.mem_append.mpr (Or.inl m)
              · exact List.mem_append.mpr (Or.inr (List.mem_cons_of_mem _ m))
            rcases olderGw_swo.negtrans t y x htx with c | c
            · rw [hmin t htm] at c; cases c
            · rw [hyx'] at c; cases c
          · simp [htx]
    · right; rw [h]

/-- … and it stays when it is older than the inserted one -/
theorem oldest_insert_younger {y g : Gateway} (hy : olderGw g y = true) (a b : List Gateway)
    (h : oldest (a ++ b) = some g) : oldest (a ++ y :: b) = some g := by
  rcases oldest_insert_mem y a b with hi | hi
  · -- y cannot be the result: g is in the new list and older than y
    exfalso
    have hmin := (oldest_spec hi).2
    have hgm : g ∈ a ++ y :: b := by
      rcases List.mem_append.mp (oldest_spec h).1 with m | m
      · exact List.mem_append.mpr (Or.inl m)
      · exact List.mem_append.mpr (Or.inr (List.mem_cons_of_mem _ m))
    rw [hmin g hgm] at hy; cases hy
  · rw [hi, h]

/-- A Gateway of our class that the served Gateway is older than — inserted at ANY position of the Gateway list —
does not change which Gateway is served. -/
theorem winner_insert_younger_anywhere (s : Scenario) (a b : List Gateway) (y g : Gateway)
    (hs : s.gateways = a ++ b) (hw : winner s = some g) (hy : olderGw g y = true) :
    winner { s with gateways := a ++ y :: b } = some g := by
  unfold winner classOurs at *
  by_cases hc : (s.classes.any fun c => c.name == s.cls && c.ctlr == s.ctlr) = true
  · simp only [hc, ↓reduceIte, hs, List.filter_append] at hw ⊢
    by_cases hyc : (y.cls == s.cls) = true
    · simp only [List.filter_cons, hyc, ↓reduceIte]
      exact oldest_insert_younger hy _ _ hw
    · simp only [List.filter_cons, hyc, Bool.false_eq_true, ↓reduceIte]
      exact hw
  · simp [hc] at hw

end NGF.Pipeline
