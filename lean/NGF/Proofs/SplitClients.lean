/-
Helper lemmas for C15, PRE-FIX float variant: error analysis of `percentOf` (three roundings around `Floor`) and of the float
remainder accumulation in `createSplitClientDistributions`. Core Lean only.
-/
import NGF.Proofs.F64
import NGF.Model.SplitClients
namespace NGF.SplitClients
open NGF.F64

/-- two roundings: `rn (rn x * 100)` is within 10⁻¹¹ of `100·x` for `0 ≤ x ≤ 100` -/
theorem two_roundings (x : Rat) (hx0 : 0 ≤ x) (hx : x ≤ 100) :
    rn (rn x * 100) - 100 * x ≤ 1 / 100000000000 ∧ 100 * x - rn (rn x * 100) ≤ 1 / 100000000000 := by
  have e1 := rn_err x
  rw [abs_of_nonneg hx0] at e1
  have p0 := rn_nonneg hx0
  have y0 : 0 ≤ rn x * 100 := by grind
  have e2 := rn_err (rn x * 100)
  rw [abs_of_nonneg y0] at e2
  generalize rn (rn x * 100) = q at *
  generalize rn x = p at *
  constructor <;> grind

/-- The key lemma: a rational `N/T` with `T ≤ 1.6·10⁷` that is not an integer is at least `1/T ≥ 6.25·10⁻⁸`
away from every integer, so a value within 10⁻¹¹ of it has the same floor; if `N/T` is an integer the floor
may be one less. -/
theorem floor_of_near (q : Rat) (N T : Nat) (hT : 0 < T) (hT' : T ≤ 16000000)
    (h1 : q - (N : Rat) / (T : Rat) ≤ 1 / 100000000000)
    (h2 : (N : Rat) / (T : Rat) - q ≤ 1 / 100000000000) :
    q.floor = ((N / T : Nat) : Int) ∨ (N % T = 0 ∧ q.floor + 1 = ((N / T : Nat) : Int)) := by
  have hdm : T * (N / T) + N % T = N := Nat.div_add_mod N T
  have hr : N % T < T := Nat.mod_lt _ hT
  generalize N / T = k at *
  generalize N % T = r at *
  have Tpos : (0 : Rat) < (T : Rat) := Rat.natCast_pos.mpr hT
  have Tne : (T : Rat) ≠ 0 := by grind
  have TleR : (T : Rat) ≤ 16000000 := by
    have := Rat.natCast_le_natCast.mpr hT'; simpa using this
  have hN : (N : Rat) = (T : Rat) * (k : Rat) + (r : Rat) := by
    rw [← hdm]; simp
  have hH : (N : Rat) / (T : Rat) = (k : Rat) + (r : Rat) / (T : Rat) := by
    rw [hN]; grind
  rw [hH] at h1 h2
  by_cases hr0 : r = 0
  · subst hr0
    have z : ((0 : Nat) : Rat) / (T : Rat) = 0 := by
      rw [Rat.div_def]; simp [Rat.zero_mul]
    rw [z] at h1 h2
    have a : ((k : Int) - 1) ≤ q.floor := Rat.le_floor_iff.mpr (by
      simp only [Rat.intCast_sub, Rat.intCast_natCast, Rat.intCast_one]; grind)
    have b : q.floor < (k : Int) + 1 := Rat.floor_lt_iff.mpr (by
      simp only [Rat.intCast_add, Rat.intCast_natCast, Rat.intCast_one]; grind)
    by_cases hf : q.floor = (k : Int)
    · left; exact hf
    · right; exact ⟨rfl, by omega⟩
  · left
    have r1 : (1 : Rat) ≤ (r : Rat) := by
      have := Rat.natCast_le_natCast.mpr (show 1 ≤ r by omega); simpa using this
    have r2 : (r : Rat) + 1 ≤ (T : Rat) := by
      have := Rat.natCast_le_natCast.mpr (show r + 1 ≤ T by omega); simpa using this
    have g1 : (1 : Rat) / 16000000 ≤ (r : Rat) / (T : Rat) :=
      div_le_div_of_mul_le (by grind) Tpos (by grind)
    have g2 : (1 : Rat) / 16000000 ≤ ((T : Rat) - (r : Rat)) / (T : Rat) :=
      div_le_div_of_mul_le (by grind) Tpos (by grind)
    have g3 : ((T : Rat) - (r : Rat)) / (T : Rat) = 1 - (r : Rat) / (T : Rat) := by grind
    rw [g3] at g2
    generalize (r : Rat) / (T : Rat) = g at *
    have a : (k : Int) ≤ q.floor := Rat.le_floor_iff.mpr (by
      simp only [Rat.intCast_natCast]; grind)
    have b : q.floor < (k : Int) + 1 := Rat.floor_lt_iff.mpr (by
      simp only [Rat.intCast_add, Rat.intCast_natCast, Rat.intCast_one]; grind)
    omega

theorem percentOf_unfold (w T : Nat) (hw : w ≤ 16000000) (hT : T ≤ 16000000) :
    percentOf w T =
      rn (((rn (rn (((10000 * w : Nat) : Rat) / (T : Rat) / 100) * 100)).floor : Rat) / 100) := by
  have e1 : rn (w : Rat) = (w : Rat) := rn_natCast (by omega)
  have e2 : rn (T : Rat) = (T : Rat) := rn_natCast (by omega)
  have e3 : (w : Rat) * 100 = ((w * 100 : Nat) : Rat) := by simp
  have e4 : rn ((w * 100 : Nat) : Rat) = ((w * 100 : Nat) : Rat) := rn_natCast (by omega)
  have e5 : ((w * 100 : Nat) : Rat) / (T : Rat) = ((10000 * w : Nat) : Rat) / (T : Rat) / 100 := by
    simp only [Rat.natCast_mul]; 
    have : ((10000 : Nat) : Rat) = 10000 := rfl
    have : ((100 : Nat) : Rat) = 100 := rfl
    grind
  simp only [percentOf, fdiv, fmul, ffloor, ofNat, e1, e2, e3, e4, e5]


theorem percentOf_zero (T : Nat) (hT : T ≤ 16000000) : percentOf 0 T = 0 := by
  rw [percentOf_unfold 0 T (by omega) hT]
  have z : ((10000 * 0 : Nat) : Rat) / (T : Rat) / 100 = 0 := by
    simp [Rat.div_def, Rat.zero_mul]
  rw [z, rn_zero, Rat.zero_mul, rn_zero]
  have : ((0 : Rat).floor : Rat) / 100 = 0 := by
    have : (0 : Rat).floor = 0 := Rat.floor_intCast 0
    rw [this]; simp [Rat.div_def, Rat.zero_mul]
  rw [this, rn_zero]

/-- `fmt.Sprintf("%.2f", rn (F/100))` prints `F/100` exactly, for `F ≤ 10000` -/
theorem fmt2_cents (F : Nat) (hF : F ≤ 10000) :
    fmt2 (rn ((F : Rat) / 100)) = ⟨false, F⟩ ∧
    rn ((F : Rat) / 100) - (F : Rat) / 100 ≤ 1 / 70000000000000 ∧
    (F : Rat) / 100 - rn ((F : Rat) / 100) ≤ 1 / 70000000000000 := by
  have F0 : (0 : Rat) ≤ (F : Rat) := by
    have := Rat.natCast_le_natCast.mpr (Nat.zero_le F); simpa using this
  have F1 : (F : Rat) ≤ 10000 := by
    have := Rat.natCast_le_natCast.mpr hF; simpa using this
  have x0 : (0 : Rat) ≤ (F : Rat) / 100 := by grind
  have e := rn_err ((F : Rat) / 100)
  rw [abs_of_nonneg x0] at e
  have s0 := rn_nonneg x0
  generalize rn ((F : Rat) / 100) = s at *
  refine ⟨?_, by grind, by grind⟩
  have hneg : decide (s < 0) = false := by
    simp only [decide_eq_false_iff_not]; grind
  have hr : rhe (abs s * 100) = (F : Int) := by
    rw [abs_of_nonneg s0]
    apply rhe_eq_of_near
    · simp only [Rat.intCast_natCast]; grind
    · simp only [Rat.intCast_natCast]; grind
  simp [fmt2, hneg, hr]

/-- `floor_hundredths`: what `percentOf` returns. -/
theorem percentOf_floor (w T : Nat) (hT : 0 < T) (hT' : T ≤ 16000000) (hw : w ≤ T) :
    ∃ F : Nat, percentOf w T = rn ((F : Rat) / 100) ∧
      (F = 10000 * w / T ∨ ((10000 * w) % T = 0 ∧ F + 1 = 10000 * w / T)) := by
  by_cases hw0 : w = 0
  · subst hw0
    refine ⟨0, ?_, Or.inl (by simp)⟩
    rw [percentOf_zero T hT']
    have : ((0 : Nat) : Rat) / 100 = 0 := by simp [Rat.div_def, Rat.zero_mul]
    rw [this, rn_zero]
  · rw [percentOf_unfold w T (by omega) hT']
    have Tpos : (0 : Rat) < (T : Rat) := Rat.natCast_pos.mpr hT
    have N0 : (0 : Rat) ≤ ((10000 * w : Nat) : Rat) := by
      have := Rat.natCast_le_natCast.mpr (Nat.zero_le (10000 * w)); simpa using this
    have NT : ((10000 * w : Nat) : Rat) ≤ 10000 * (T : Rat) := by
      have := Rat.natCast_le_natCast.mpr (show 10000 * w ≤ 10000 * T by omega)
      simpa using this
    have H0 : (0 : Rat) ≤ ((10000 * w : Nat) : Rat) / (T : Rat) := by
      have := div_le_div_of_mul_le (a := 0) (b := 1) (c := ((10000 * w : Nat) : Rat)) (d := (T : Rat))
        (by grind) Tpos (by grind)
      grind
    have H1 : ((10000 * w : Nat) : Rat) / (T : Rat) ≤ 10000 := by
      have := div_le_div_of_mul_le (a := ((10000 * w : Nat) : Rat)) (b := (T : Rat)) (c := 10000) (d := 1)
        Tpos (by grind) (by grind)
      grind
    have tr := two_roundings (((10000 * w : Nat) : Rat) / (T : Rat) / 100) (by grind) (by grind)
    have hx : 100 * (((10000 * w : Nat) : Rat) / (T : Rat) / 100) = ((10000 * w : Nat) : Rat) / (T : Rat) := by
      grind
    rw [hx] at tr
    have fl := floor_of_near _ (10000 * w) T hT hT' tr.1 tr.2
    generalize (rn (rn (((10000 * w : Nat) : Rat) / (T : Rat) / 100) * 100)).floor = f at *
    have hdm : T * (10000 * w / T) + (10000 * w) % T = 10000 * w := Nat.div_add_mod _ _
    have kpos : (10000 * w) % T = 0 → 1 ≤ 10000 * w / T := by
      intro h0
      rw [h0] at hdm
      by_cases hk : 10000 * w / T = 0
      · rw [hk, Nat.mul_zero] at hdm; omega
      · exact Nat.pos_of_ne_zero hk
    rcases fl with h | ⟨h0, h⟩
    · refine ⟨10000 * w / T, ?_, Or.inl rfl⟩
      rw [h, Rat.intCast_natCast]
    · have := kpos h0
      refine ⟨10000 * w / T - 1, ?_, Or.inr ⟨h0, by omega⟩⟩
      have : f = ((10000 * w / T - 1 : Nat) : Int) := by omega
      rw [this, Rat.intCast_natCast]

/-- the hundredths `F` that `percentOf` yields bracket the exact share: `F/100 ≤ 100·w/T ≤ (F+1)/100` -/
theorem floor_bracket {w T F : Nat} (hT : 0 < T)
    (h : F = 10000 * w / T ∨ ((10000 * w) % T = 0 ∧ F + 1 = 10000 * w / T)) :
    F * T ≤ 10000 * w ∧ 10000 * w ≤ (F + 1) * T := by
  have hdm : T * (10000 * w / T) + (10000 * w) % T = 10000 * w := Nat.div_add_mod _ _
  have hr : (10000 * w) % T < T := Nat.mod_lt _ hT
  generalize 10000 * w / T = k at *
  generalize (10000 * w) % T = r at *
  generalize 10000 * w = N at *
  rcases h with h | ⟨h0, h⟩
  · subst h
    rw [Nat.add_mul, Nat.one_mul, Nat.mul_comm F T]
    omega
  · subst h0; subst h
    rw [Nat.mul_add, Nat.mul_one] at hdm
    rw [Nat.add_mul, Nat.one_mul, Nat.mul_comm F T]
    omega

theorem percentOf_spec (w T : Nat) (hT : 0 < T) (hT' : T ≤ 16000000) (hw : w ≤ T) :
    ∃ F : Nat, fmt2 (percentOf w T) = ⟨false, F⟩ ∧
      F * T ≤ 10000 * w ∧ 10000 * w ≤ (F + 1) * T ∧ (w = 0 → F = 0) ∧
      percentOf w T - (F : Rat) / 100 ≤ 1 / 70000000000000 ∧
      (F : Rat) / 100 - percentOf w T ≤ 1 / 70000000000000 := by
  obtain ⟨F, hp, hF⟩ := percentOf_floor w T hT hT' hw
  have hb := floor_bracket hT hF
  have hF' : F ≤ 10000 := by
    have : F * T ≤ 10000 * T := Nat.le_trans hb.1 (by omega)
    exact Nat.le_of_mul_le_mul_right this hT
  have hc := fmt2_cents F hF'
  refine ⟨F, by rw [hp]; exact hc.1, hb.1, hb.2, ?_, by rw [hp]; exact hc.2.1, by rw [hp]; exact hc.2.2⟩
  intro h0
  subst h0
  have : F * T ≤ 0 := by simpa using hb.1
  have : F * T = 0 := by omega
  rcases Nat.mul_eq_zero.mp this with h | h <;> omega

/-- relation between a weight and the hundredths printed for it (non-last backends) -/
def Floors (T w F : Nat) : Prop :=
  F * T ≤ 10000 * w ∧ 10000 * w ≤ (F + 1) * T ∧ (w = 0 → F = 0)

/-- pointwise `Floors` on two lists of equal length -/
def AllFloors (T : Nat) : List Nat → List Nat → Prop
  | [], [] => True
  | w :: ws, F :: Fs => Floors T w F ∧ AllFloors T ws Fs
  | _, _ => False

theorem abs_le_of {x b : Rat} (h1 : x ≤ b) (h2 : -b ≤ x) : abs x ≤ b := by
  unfold abs; split <;> grind

/-- one step of `availablePercentage -= percentage` -/
theorem fsub_step (avail p : Rat) (C : Int) (F j : Nat) (hj : j ≤ 15) (hF : F ≤ 10000)
    (hC1 : 10000 - 10000 * (j : Int) ≤ C) (hC2 : C ≤ 10000)
    (ha1 : avail - (C : Rat) / 100 ≤ (j : Rat) * (1 / 1000000000000))
    (ha2 : (C : Rat) / 100 - avail ≤ (j : Rat) * (1 / 1000000000000))
    (hp1 : p - (F : Rat) / 100 ≤ 1 / 70000000000000)
    (hp2 : (F : Rat) / 100 - p ≤ 1 / 70000000000000) :
    fsub avail p - ((C - (F : Int) : Int) : Rat) / 100 ≤ ((j + 1 : Nat) : Rat) * (1 / 1000000000000) ∧
    ((C - (F : Int) : Int) : Rat) / 100 - fsub avail p ≤ ((j + 1 : Nat) : Rat) * (1 / 1000000000000) := by
  have hjR : (j : Rat) ≤ 15 := by
    have := Rat.natCast_le_natCast.mpr hj; simpa using this
  have hj0 : (0 : Rat) ≤ (j : Rat) := by
    have := Rat.natCast_le_natCast.mpr (Nat.zero_le j); simpa using this
  have hFR : (F : Rat) ≤ 10000 := by
    have := Rat.natCast_le_natCast.mpr hF; simpa using this
  have hF0 : (0 : Rat) ≤ (F : Rat) := by
    have := Rat.natCast_le_natCast.mpr (Nat.zero_le F); simpa using this
  have c1 : (C : Rat) ≤ 10000 := by
    have := Rat.intCast_le_intCast.mpr hC2; simpa using this
  have c2 : -150000 ≤ (C : Rat) := by
    have : (-150000 : Int) ≤ C := by omega
    have := Rat.intCast_le_intCast.mpr this; simpa using this
  have e := rn_err (avail - p)
  have hab : abs (avail - p) ≤ 2048 := abs_le_of (by grind) (by grind)
  simp only [fsub, Rat.intCast_sub, Rat.intCast_natCast, Rat.natCast_add]
  have : ((1 : Nat) : Rat) = 1 := rfl
  rw [this]
  generalize rn (avail - p) = r at *
  generalize abs (avail - p) = A at *
  generalize (C : Rat) = c at *
  generalize (F : Rat) = f at *
  generalize (j : Rat) = jj at *
  constructor <;> grind


/-- the loop of `createSplitClientDistributions`: every non-last value prints as the floor hundredths `Fs`,
and the float remainder `a` is within 1.5·10⁻¹¹ of the exact remainder `(C − ΣFs)/100` -/
theorem shareVals_spec (T : Nat) (hT : 0 < T) (hT' : T ≤ 16000000) :
    ∀ (ws : List Nat) (avail : Rat) (C : Int) (j : Nat),
      (∀ w ∈ ws, w ≤ T) → j + ws.length ≤ 16 → ws ≠ [] →
      10000 - 10000 * (j : Int) ≤ C → C ≤ 10000 →
      avail - (C : Rat) / 100 ≤ (j : Rat) * (1 / 1000000000000) →
      (C : Rat) / 100 - avail ≤ (j : Rat) * (1 / 1000000000000) →
      ∃ (Fs : List Nat) (a : Rat),
        (shareVals T avail ws).map fmt2 = Fs.map (fun F => (⟨false, F⟩ : Dec2)) ++ [fmt2 a] ∧
        AllFloors T ws.dropLast Fs ∧
        a - ((C - (Fs.sum : Int) : Int) : Rat) / 100 ≤ 15 * (1 / 1000000000000) ∧
        ((C - (Fs.sum : Int) : Int) : Rat) / 100 - a ≤ 15 * (1 / 1000000000000) := by
  intro ws
  induction ws with
  | nil => intro _ _ _ _ _ h; exact absurd rfl h
  | cons w rest ih =>
    intro avail C j hws hlen _ hC1 hC2 ha1 ha2
    cases rest with
    | nil =>
      refine ⟨[], avail, by simp [shareVals], by simp [AllFloors], ?_, ?_⟩
      all_goals
        have hjR : (j : Rat) ≤ 15 := by
          have := Rat.natCast_le_natCast.mpr (show j ≤ 15 by simp at hlen; omega); simpa using this
        simp only [List.sum_nil, Int.natCast_zero, Int.sub_zero]
        generalize (j : Rat) = jj at *
        generalize (C : Rat) = c at *
        grind
    | cons w' rest' =>
      have hw : w ≤ T := hws w (by simp)
      obtain ⟨F, hfmt, hb1, hb2, hz, hp1, hp2⟩ := percentOf_spec w T hT hT' hw
      have hF : F ≤ 10000 := by
        have : F * T ≤ 10000 * T := Nat.le_trans hb1 (by omega)
        exact Nat.le_of_mul_le_mul_right this hT
      have hj : j ≤ 14 := by simp at hlen; omega
      have st := fsub_step avail (percentOf w T) C F j (by omega) hF hC1 hC2 ha1 ha2 hp1 hp2
      obtain ⟨Fs, a, h1, h2, h3, h4⟩ := ih (fsub avail (percentOf w T)) (C - (F : Int)) (j + 1)
        (fun x hx => hws x (by simp at hx ⊢; right; exact hx))
        (by simp at hlen ⊢; omega) (by simp)
        (by have : (F : Int) ≤ 10000 := by omega
            simp only [Int.natCast_add]; omega)
        (by omega) st.1 st.2
      refine ⟨F :: Fs, a, ?_, ?_, ?_, ?_⟩
      · simp only [shareVals, List.map_cons, hfmt, h1, List.cons_append]
      · simp only [List.dropLast_cons_cons]
        exact ⟨⟨hb1, hb2, hz⟩, h2⟩
      · have e : C - ((F :: Fs).sum : Nat) = C - (F : Int) - (Fs.sum : Int) := by
          simp only [List.sum_cons, Int.natCast_add]; omega
        rw [e]; exact h3
      · have e : C - ((F :: Fs).sum : Nat) = C - (F : Int) - (Fs.sum : Int) := by
          simp only [List.sum_cons, Int.natCast_add]; omega
        rw [e]; exact h4

theorem le_sum_of_mem {ws : List Nat} {w : Nat} (h : w ∈ ws) : w ≤ ws.sum := by
  induction ws with
  | nil => simp at h
  | cons a t ih =>
    simp only [List.mem_cons] at h
    simp only [List.sum_cons]
    rcases h with h | h
    · omega
    · have := ih h; omega

theorem sum_le_length_mul {ws : List Nat} {m : Nat} (h : ∀ w ∈ ws, w ≤ m) : ws.sum ≤ ws.length * m := by
  induction ws with
  | nil => simp
  | cons a t ih =>
    have h1 : a ≤ m := h a (by simp)
    have h2 := ih (fun w hw => h w (by simp [hw]))
    simp only [List.sum_cons, List.length_cons, Nat.add_mul, Nat.one_mul]
    omega

theorem sum_dropLast_add_getLast (ws : List Nat) (h : ws ≠ []) :
    ws.dropLast.sum + ws.getLast h = ws.sum := by
  induction ws with
  | nil => exact absurd rfl h
  | cons a t ih =>
    cases t with
    | nil => simp
    | cons b t' =>
      have := ih (by simp)
      simp only [List.dropLast_cons_cons, List.sum_cons, List.getLast_cons_cons] at this ⊢
      omega

/-- summing the floors: `ΣF·T ≤ 10⁴·Σw ≤ (ΣF + #F)·T` -/
theorem allFloors_sum {T : Nat} : ∀ {ws Fs : List Nat}, AllFloors T ws Fs →
    Fs.sum * T ≤ 10000 * ws.sum ∧ 10000 * ws.sum ≤ (Fs.sum + Fs.length) * T ∧ Fs.length = ws.length
  | [], [], _ => by simp
  | w :: ws, F :: Fs, h => by
    obtain ⟨⟨h1, h2, _⟩, hr⟩ := h
    obtain ⟨i1, i2, i3⟩ := allFloors_sum hr
    simp only [List.sum_cons, List.length_cons, Nat.add_mul, Nat.mul_add, Nat.one_mul] at *
    refine ⟨by omega, by omega, by omega⟩
  | [], _ :: _, h => by simp [AllFloors] at h
  | _ :: _, [], h => by simp [AllFloors] at h

/-- `%.2f` of a value within 1.5·10⁻¹¹ of `L/100` prints `L/100`; the sign is lost only if `L = 0` -/
theorem fmt2_near (L : Nat) (a : Rat)
    (h1 : a - ((L : Int) : Rat) / 100 ≤ 15 * (1 / 1000000000000))
    (h2 : ((L : Int) : Rat) / 100 - a ≤ 15 * (1 / 1000000000000)) :
    (fmt2 a).cents = L ∧ (1 ≤ L → (fmt2 a).neg = false) := by
  rw [Rat.intCast_natCast] at h1 h2
  have L0 : (0 : Rat) ≤ (L : Rat) := by
    have := Rat.natCast_le_natCast.mpr (Nat.zero_le L); simpa using this
  constructor
  · have hr : rhe (abs a * 100) = (L : Int) := by
      apply rhe_eq_of_near
      · simp only [Rat.intCast_natCast]; unfold abs; split <;> grind
      · simp only [Rat.intCast_natCast]; unfold abs; split <;> grind
    simp [fmt2, hr]
  · intro hL
    have L1 : (1 : Rat) ≤ (L : Rat) := by
      have := Rat.natCast_le_natCast.mpr hL; simpa using this
    simp only [fmt2, decide_eq_false_iff_not]
    grind

/-- hypotheses of the quantifier of C15: 2..16 backends, weights in 0..10⁶, not all zero -/
structure Admissible (ws : List Nat) : Prop where
  two : 2 ≤ ws.length
  sixteen : ws.length ≤ 16
  range : ∀ w ∈ ws, w ≤ 1000000
  pos : 0 < ws.sum

theorem Admissible.ne_nil {ws : List Nat} (h : Admissible ws) : ws ≠ [] := by
  intro e; have := h.two; simp [e] at this

/-- Everything the float computation prints, in one statement. -/
theorem floatShares_main (ws : List Nat) (h : Admissible ws) :
    ∃ (Fs : List Nat) (last : Dec2),
      floatShares ws = Fs.map (fun F => (⟨false, F⟩ : Dec2)) ++ [last] ∧
      AllFloors ws.sum ws.dropLast Fs ∧
      last.cents + Fs.sum = 10000 ∧
      (1 ≤ last.cents → last.neg = false) ∧
      10000 * ws.getLast h.ne_nil ≤ last.cents * ws.sum ∧
      last.cents * ws.sum ≤ 10000 * ws.getLast h.ne_nil + (ws.length - 1) * ws.sum := by
  have hT' : ws.sum ≤ 16000000 := by
    have := sum_le_length_mul h.range
    have := h.sixteen
    have : ws.length * 1000000 ≤ 16 * 1000000 := Nat.mul_le_mul_right _ h.sixteen
    omega
  have h100 : ofNat 100 = 100 := by
    have := rn_natCast (n := 100) (by decide); simpa [ofNat] using this
  obtain ⟨Fs, a, e1, e2, e3, e4⟩ := shareVals_spec ws.sum h.pos hT' ws (ofNat 100) 10000 0
    (fun w hw => le_sum_of_mem hw) (by have := h.sixteen; omega) h.ne_nil (by simp) (by simp)
    (by rw [h100]; simp; grind) (by rw [h100]; simp; grind)
  obtain ⟨s1, s2, s3⟩ := allFloors_sum e2
  have hd := sum_dropLast_add_getLast ws h.ne_nil
  have hle : Fs.sum ≤ 10000 := by
    have : Fs.sum * ws.sum ≤ 10000 * ws.sum := Nat.le_trans s1 (Nat.mul_le_mul_left _ (by omega))
    exact Nat.le_of_mul_le_mul_right this h.pos
  have hL : (10000 : Int) - (Fs.sum : Int) = ((10000 - Fs.sum : Nat) : Int) := by omega
  rw [hL] at e3 e4
  obtain ⟨f1, f2⟩ := fmt2_near (10000 - Fs.sum) a e3 e4
  have hlen : Fs.length = ws.length - 1 := by rw [s3]; simp
  have hmul : ((fmt2 a).cents + Fs.sum) * ws.sum = 10000 * ws.sum := by
    rw [f1]; congr 1; omega
  rw [Nat.add_mul] at hmul
  rw [Nat.add_mul, hlen] at s2
  have hd' : 10000 * ws.dropLast.sum + 10000 * ws.getLast h.ne_nil = 10000 * ws.sum := by
    rw [← Nat.mul_add, hd]
  refine ⟨Fs, fmt2 a, e1, e2, by omega, ?_, by omega, by omega⟩
  intro hc
  exact f2 (by omega)

theorem allFloors_get {T : Nat} : ∀ {ws Fs : List Nat}, AllFloors T ws Fs →
    ∀ (i : Nat) (hi : i < ws.length), ∃ F, Fs[i]? = some F ∧ Floors T ws[i] F
  | w :: ws, F :: Fs, h, 0, _ => ⟨F, by simp, h.1⟩
  | w :: ws, F :: Fs, h, i + 1, hi => by
    obtain ⟨F', h1, h2⟩ := allFloors_get h.2 i (by simpa using hi)
    exact ⟨F', by simpa using h1, by simpa using h2⟩
  | [], [], _, i, hi => by simp at hi
  | [], _ :: _, h, _, _ => by simp [AllFloors] at h
  | _ :: _, [], h, _, _ => by simp [AllFloors] at h

theorem cents_sum_map (Fs : List Nat) :
    ((Fs.map (fun F => (⟨false, F⟩ : Dec2))).map (·.cents)).sum = Fs.sum := by
  induction Fs with
  | nil => rfl
  | cons a t ih => simp only [List.map_cons, List.sum_cons, ih]

theorem zero_renders : (Pct.dec ⟨false, 0⟩).commentedOut = true := by decide +kernel

theorem digitChar_eq_zero (d : Nat) : digitChar d = '0' ↔ d % 10 = 0 := by
  have h : ∀ k : Fin 10, (Char.ofNat (48 + k.val) = '0' ↔ k.val = 0) := by decide
  have := h ⟨d % 10, Nat.mod_lt _ (by decide)⟩
  simpa [digitChar] using this

theorem natDigitsAux_length (fuel n : Nat) (acc : List Char) (h : 0 < fuel) :
    acc.length + 1 ≤ (natDigitsAux fuel n acc).length := by
  induction fuel generalizing n acc with
  | zero => omega
  | succ f ih =>
    simp only [natDigitsAux]
    split
    · simp
    · cases f with
      | zero => simp [natDigitsAux]
      | succ f' =>
        have := ih (n / 10) (digitChar n :: acc) (by omega)
        simp only [List.length_cons] at this
        omega

theorem natDigits_eq_zero {n : Nat} (h : natDigits n = ['0']) : n = 0 := by
  unfold natDigits at h
  simp only [natDigitsAux] at h
  split at h
  · rename_i hn
    have : digitChar n = '0' := by simpa using h
    have := (digitChar_eq_zero n).mp this
    omega
  · rename_i hn
    have := natDigitsAux_length n (n / 10) [digitChar n] (by omega)
    rw [h] at this
    simp at this

theorem chars_eq_zero {d : Dec2} (h : d.chars = ['0', '.', '0', '0']) : d = ⟨false, 0⟩ := by
  obtain ⟨neg, c⟩ := d
  cases neg with
  | true => simp [Dec2.chars] at h
  | false =>
    simp only [Dec2.chars, Bool.false_eq_true, if_false, List.nil_append] at h
    have hl := congrArg List.length h
    simp only [List.length_append, List.length_cons, List.length_nil] at hl
    have hlen : (natDigits (c / 100)).length = 1 := by omega
    match hd : natDigits (c / 100), hlen with
    | [x], _ =>
      rw [hd] at h
      simp only [List.cons_append, List.nil_append, List.cons.injEq, and_true, true_and] at h
      obtain ⟨hx, h1, h2⟩ := h
      subst hx
      have a := natDigits_eq_zero hd
      have b := (digitChar_eq_zero _).mp h1
      have c' := (digitChar_eq_zero _).mp h2
      have : c = 0 := by omega
      subst this; rfl

/-- the template's `eq $d.Percent "0.00"` test fires exactly for the value +0.00 -/
theorem commentedOut_iff (d : Dec2) : (Pct.dec d).commentedOut = true ↔ d = ⟨false, 0⟩ := by
  constructor
  · intro h
    simp only [Pct.commentedOut, Pct.render, Dec2.render, beq_iff_eq] at h
    have : "0.00" = String.ofList ['0', '.', '0', '0'] := by decide
    rw [this] at h
    exact chars_eq_zero (String.ofList_injective h)
  · intro h; subst h; decide +kernel

theorem getElem?_append_single {α} (l : List α) (x : α) (i : Nat) :
    (l ++ [x])[i]? = if i < l.length then l[i]? else if i = l.length then some x else none := by
  split
  · rename_i h; exact List.getElem?_append_left h
  · rename_i h
    rw [List.getElem?_append_right (by omega)]
    split
    · rename_i e; simp [e]
    · rename_i e
      have : i - l.length ≠ 0 := by omega
      cases hk : i - l.length with
      | zero => exact absurd hk this
      | succ k => simp

theorem total_eq_sum : ∀ (bs : List Backend), total bs = (bs.map (·.weight)).sum
  | [] => rfl
  | b :: bs => by simp [total, total_eq_sum bs]

theorem floatDistLoop_spec (T : Nat) : ∀ (bs : List Backend) (avail : Rat),
    (floatDistLoop T avail bs).map (·.value) = bs.map value ∧
    (floatDistLoop T avail bs).map (·.pct) = ((shareVals T avail (bs.map (·.weight))).map fmt2).map Pct.dec
  | [], _ => by simp [floatDistLoop, shareVals]
  | [b], _ => by simp [floatDistLoop, shareVals]
  | b :: b' :: bs, avail => by
    have ih := floatDistLoop_spec T (b' :: bs) (fsub avail (percentOf b.weight T))
    simp only [floatDistLoop, shareVals, List.map_cons] at ih ⊢
    exact ⟨by rw [ih.1], by rw [ih.2]⟩

end NGF.SplitClients
