/-
List lemmas for the render theorems of C03 (Props/C03Render.lean): `eraseDups`, `Nodup` under maps, `firstDup`,
positions by counting (`rank`), `dedupKey`, `enumFrom`. Core Lean only.
-/
import NGF.Proofs.RenderForget

namespace NGF.Render
open NGF.Pipeline

/-! ### Nodup -/

theorem nodup_eraseDups {α} [BEq α] [LawfulBEq α] : ∀ (l : List α), l.eraseDups.Nodup
  | [] => by simp
  | a :: as => by
    rw [List.eraseDups_cons, List.nodup_cons]
    have : (as.filter fun b => !b == a).length < (a :: as).length := by
      have := List.length_filter_le (fun b => !b == a) as
      simp only [List.length_cons]; omega
    refine ⟨?_, nodup_eraseDups _⟩
    intro hm
    rw [List.mem_eraseDups, List.mem_filter] at hm
    simp at hm
termination_by l => l.length

theorem nodup_map_of_inj {α β} {f : α → β} {l : List α} (hinj : ∀ a ∈ l, ∀ b ∈ l, f a = f b → a = b)
    (h : l.Nodup) : (l.map f).Nodup := by
  rw [List.nodup_iff_pairwise_ne] at h ⊢
  rw [List.pairwise_map]
  exact List.Pairwise.imp_of_mem (fun {a b} ha hb hne e => hne (hinj a ha b hb e)) h

theorem nodup_of_map {α β} (f : α → β) {l : List α} (h : (l.map f).Nodup) : l.Nodup := by
  rw [List.nodup_iff_pairwise_ne] at h ⊢
  rw [List.pairwise_map] at h
  exact h.imp fun hne e => hne (congrArg f e)

/-- `Nodup` of a `flatMap`: every piece, and pieces of different elements are disjoint -/
theorem nodup_flatMap {α β} {l : List α} {f : α → List β} (h1 : ∀ a ∈ l, (f a).Nodup)
    (h2 : l.Pairwise fun a b => ∀ x ∈ f a, ∀ y ∈ f b, x ≠ y) : (l.flatMap f).Nodup := by
  rw [List.nodup_iff_pairwise_ne, List.pairwise_flatMap]
  exact ⟨fun a ha => List.nodup_iff_pairwise_ne.mp (h1 a ha), h2⟩

theorem pairwise_of_nodup_inj {α} {R : α → α → Prop} {l : List α} (h : l.Nodup)
    (hR : ∀ a ∈ l, ∀ b ∈ l, a ≠ b → R a b) : l.Pairwise R := by
  rw [List.nodup_iff_pairwise_ne] at h
  exact List.Pairwise.imp_of_mem (fun {a b} ha hb hne => hR a ha b hb hne) h

/-! ### firstDup -/

theorem firstDup_eq_none {α} [DecidableEq α] : ∀ {l : List α}, firstDup l = none ↔ l.Nodup
  | [] => by simp [firstDup]
  | x :: xs => by
    simp only [firstDup, List.nodup_cons]
    by_cases h : x ∈ xs
    · simp [h]
    · simp [h, firstDup_eq_none (l := xs)]

theorem dupIssue_eq_nil {α} [DecidableEq α] (c : String) (f : α → String) {l : List α} (h : l.Nodup) :
    dupIssue c f l = [] := by
  unfold dupIssue
  rw [firstDup_eq_none.mpr h]

theorem dupIssue_ne_nil {α} [DecidableEq α] (c : String) (f : α → String) {l : List α} (h : ¬ l.Nodup) :
    dupIssue c f l ≠ [] := by
  unfold dupIssue
  cases hd : firstDup l with
  | none => exact absurd (firstDup_eq_none.mp hd) h
  | some k => simp

/-! ### positions by counting -/

theorem filter_length_le_of_imp {α} {p q : α → Bool} : ∀ {l : List α}, (∀ x ∈ l, p x = true → q x = true) →
    (l.filter p).length ≤ (l.filter q).length
  | [], _ => by simp
  | a :: as, h => by
    have ih := filter_length_le_of_imp (p := p) (q := q) (l := as) fun x hx => h x (List.mem_cons_of_mem _ hx)
    have ha := h a List.mem_cons_self
    simp only [List.filter_cons]
    by_cases hp : p a = true
    · simp [hp, ha hp]; omega
    · by_cases hq : q a = true
      · simp [hp, hq]; omega
      · simp [hp, hq]; omega

theorem filter_length_lt {α} {p q : α → Bool} : ∀ {l : List α}, (∀ x ∈ l, p x = true → q x = true) →
    (∃ x ∈ l, q x = true ∧ p x = false) → (l.filter p).length < (l.filter q).length
  | [], _, h => by simp at h
  | a :: as, himp, ⟨x, hx, hq, hp⟩ => by
    have himp' : ∀ x ∈ as, p x = true → q x = true := fun x hx => himp x (List.mem_cons_of_mem _ hx)
    simp only [List.filter_cons]
    rcases List.mem_cons.mp hx with rfl | hx'
    · have := filter_length_le_of_imp himp'
      simp [hp, hq]; omega
    · have ih := filter_length_lt himp' ⟨x, hx', hq, hp⟩
      have ha := himp a List.mem_cons_self
      by_cases hpa : p a = true
      · simp [hpa, ha hpa]; omega
      · by_cases hqa : q a = true
        · simp [hpa, hqa]; omega
        · simp [hpa, hqa]; omega

/-- a strict total order, Bool-valued -/
structure StrictTotal {α} (lt : α → α → Bool) : Prop where
  irrefl : ∀ a, lt a a = false
  trans : ∀ a b c, lt a b = true → lt b c = true → lt a c = true
  total : ∀ a b, a ≠ b → lt a b = true ∨ lt b a = true

theorem rank_lt_of_lt {α} {lt : α → α → Bool} (h : StrictTotal lt) {l : List α} {x y : α} (hx : x ∈ l)
    (hxy : lt x y = true) : rank lt l x < rank lt l y := by
  unfold rank
  apply filter_length_lt
  · intro z _ hz; exact h.trans z x y hz hxy
  · exact ⟨x, hx, hxy, h.irrefl x⟩

theorem rank_inj {α} {lt : α → α → Bool} (h : StrictTotal lt) {l : List α} {x y : α} (hx : x ∈ l) (hy : y ∈ l)
    (e : rank lt l x = rank lt l y) : x = y := by
  by_cases hne : x = y
  · exact hne
  · rcases h.total x y hne with h1 | h1
    · have := rank_lt_of_lt h hx h1; omega
    · have := rank_lt_of_lt h hy h1; omega

theorem rank_lt_length {α} {lt : α → α → Bool} (h : StrictTotal lt) {l : List α} {x : α} (hx : x ∈ l) :
    rank lt l x < l.length := by
  unfold rank
  have : (l.filter fun z => lt z x).length < (l.filter fun _ => true).length :=
    filter_length_lt (fun _ _ _ => rfl) ⟨x, hx, rfl, h.irrefl x⟩
  rw [List.filter_eq_self.mpr (fun _ _ => rfl)] at this
  exact this

/-! ### dedupKey -/

theorem dedupKey_sub {β} : ∀ {l : List (Src × β)} {seen : List Src} {x : Src × β}, x ∈ dedupKey l seen → x ∈ l ∧ x.1 ∉ seen
  | [], _, _, h => by simp [dedupKey] at h
  | y :: ys, seen, x, h => by
    simp only [dedupKey] at h
    by_cases hs : seen.contains y.1 = true
    · simp only [hs, ↓reduceIte] at h
      obtain ⟨h1, h2⟩ := dedupKey_sub h
      exact ⟨List.mem_cons_of_mem _ h1, h2⟩
    · simp only [hs, Bool.false_eq_true, ↓reduceIte, List.mem_cons] at h
      rcases h with rfl | h
      · exact ⟨List.mem_cons_self, by simpa using hs⟩
      · obtain ⟨h1, h2⟩ := dedupKey_sub h
        exact ⟨List.mem_cons_of_mem _ h1, fun hm => h2 (List.mem_cons_of_mem _ hm)⟩

theorem dedupKey_keys_nodup {β} : ∀ (l : List (Src × β)) (seen : List Src), ((dedupKey l seen).map (·.1)).Nodup
  | [], _ => by simp [dedupKey]
  | y :: ys, seen => by
    simp only [dedupKey]
    by_cases hs : seen.contains y.1 = true
    · simp only [hs, ↓reduceIte]; exact dedupKey_keys_nodup ys seen
    · simp only [hs, Bool.false_eq_true, ↓reduceIte, List.map_cons, List.nodup_cons]
      refine ⟨?_, dedupKey_keys_nodup ys _⟩
      intro hm
      obtain ⟨x, hx, e⟩ := List.mem_map.mp hm
      have := (dedupKey_sub hx).2
      exact this (e ▸ List.mem_cons_self)

theorem mem_dedupKey_key {β} : ∀ {l : List (Src × β)} {seen : List Src} {k : Src}, k ∈ l.map (·.1) → k ∉ seen →
    k ∈ (dedupKey l seen).map (·.1)
  | [], _, _, h, _ => by simp at h
  | y :: ys, seen, k, h, hk => by
    simp only [dedupKey]
    simp only [List.map_cons, List.mem_cons] at h
    by_cases hs : seen.contains y.1 = true
    · simp only [hs, ↓reduceIte]
      rcases h with rfl | h
      · exact absurd (by simpa using hs) hk
      · exact mem_dedupKey_key h hk
    · simp only [hs, Bool.false_eq_true, ↓reduceIte, List.map_cons, List.mem_cons]
      by_cases e : k = y.1
      · exact Or.inl e
      · rcases h with h | h
        · exact absurd h e
        · right
          exact mem_dedupKey_key h (by
            intro hm
            rcases List.mem_cons.mp hm with h' | h'
            · exact e h'
            · exact hk h')

/-! ### enumFrom -/

theorem enumFrom_fst_nodup {α} : ∀ (l : List α) (i : Nat), ((enumFrom i l).map (·.1)).Nodup ∧ ∀ j ∈ (enumFrom i l).map (·.1), i ≤ j
  | [], _ => by simp [enumFrom]
  | x :: xs, i => by
    obtain ⟨h1, h2⟩ := enumFrom_fst_nodup xs (i + 1)
    simp only [enumFrom, List.map_cons, List.nodup_cons, List.mem_cons]
    refine ⟨⟨fun hm => ?_, h1⟩, ?_⟩
    · have := h2 i hm; omega
    · rintro j (rfl | hj)
      · exact Nat.le_refl _
      · have := h2 j hj; omega

theorem enumFrom_inj {α} {l : List α} {i : Nat} {a b : Nat × α} (ha : a ∈ enumFrom i l) (hb : b ∈ enumFrom i l)
    (e : a.1 = b.1) : a = b := by
  obtain ⟨ha1, ha2⟩ := mem_enumFrom (j := a.1) (x := a.2) ha
  obtain ⟨hb1, hb2⟩ := mem_enumFrom (j := b.1) (x := b.2) hb
  rw [e] at ha2
  rw [ha2] at hb2
  exact Prod.ext e (Option.some.inj hb2)

theorem enumFrom_mem_snd {α} : ∀ {l : List α} {i : Nat} {a : Nat × α}, a ∈ enumFrom i l → a.2 ∈ l
  | [], _, _, h => by simp [enumFrom] at h
  | x :: xs, i, a, h => by
    simp only [enumFrom, List.mem_cons] at h
    rcases h with rfl | h
    · exact List.mem_cons_self
    · exact List.mem_cons_of_mem _ (enumFrom_mem_snd h)

theorem enumFrom_nodup {α} (l : List α) (i : Nat) : (enumFrom i l).Nodup :=
  nodup_of_map (·.1) (enumFrom_fst_nodup l i).1

end NGF.Render
