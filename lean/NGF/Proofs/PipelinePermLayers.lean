/-
C14 on the LAYERED pipeline models: arrival-order / map-order invariance for

  §1  backend references (`PipelineRefs.genR = gen ∘ resolve`, `referencedServices`; C06's layer) — corollaries of C17's
      set form with an empty foreign set (Proofs/PipelineForeign.lean) and of Props/C14Pipeline
  §2  statuses (`PipelineStatus.routeParentStatuses`, `gatewayStatus`, `listenerStatuses`, `ignoredGateways`; C07's layer)
  §3  HTTPS listeners and certificates (`PipelineTls.genT`, `pcRun`; C16's layer)
  §4  endpoints (`PipelineEndpoints.upstreamsOf`; C13's layer)
  §5  the Go-map port order parameter of the renderer (`Render.genR s order`, `render`; C03's layer)
All models are read-only here. Property theorems: NGF/Props/C14Layers.lean.
-/
import NGF.Proofs.PipelineForeign
import NGF.Proofs.PipelineStatus
import NGF.Props.C16Pipeline
import NGF.Proofs.PipelineEndpoints
import Std.Data.String.ToNat
import NGF.Props.C03Render

namespace NGF.PipelineLayers
open NGF.Pipeline NGF.PipelineRefs NGF.ListPerm NGF.PipelineForeign
open NGF.Props.C14Pipeline (Reordered)
open NGF.RefGrant (Grant BackendRef)

/-! ### §1 references -/

/-- `c'` holds the objects of `c` — GatewayClasses, Gateways, HTTPRoutes, Services, ReferenceGrants — in another order -/
structure ReorderedR (c c' : ScenarioR) : Prop where
  cls : c'.cls = c.cls
  ctlr : c'.ctlr = c.ctlr
  classes : c.classes.Perm c'.classes
  gateways : c.gateways.Perm c'.gateways
  routes : c.routes.Perm c'.routes
  services : c.services.Perm c'.services
  grants : c.grants.Perm c'.grants

theorem mixed_of_reorderedR {c c' : ScenarioR} (h : ReorderedR c c') : Mixed c {} c' where
  cls := h.cls
  ctlr := h.ctlr
  classes := by show (c.classes ++ []).Perm _; rw [List.append_nil]; exact h.classes
  gateways := by show (c.gateways ++ []).Perm _; rw [List.append_nil]; exact h.gateways
  routes := by show (c.routes ++ []).Perm _; rw [List.append_nil]; exact h.routes
  services := by show (c.services ++ []).Perm _; rw [List.append_nil]; exact h.services
  grants := by show (c.grants ++ []).Perm _; rw [List.append_nil]; exact h.grants

theorem foreign_empty (c : ScenarioR) : Foreign c {} where
  classes := fun _ hy => absurd hy List.not_mem_nil
  gateways := fun _ hy => absurd hy List.not_mem_nil
  routes := fun _ _ _ hr => absurd hr List.not_mem_nil
  services := fun _ _ _ _ _ _ _ _ hs => absurd hs List.not_mem_nil
  grants := fun _ _ _ _ _ _ _ _ hg => absurd hg List.not_mem_nil

/-- HTTPRoutes have distinct (namespace, name) -/
def RouteKeysNodupR (routes : List RouteR) : Prop := (routes.map fun r => (r.ns, r.name)).Nodup

theorem string_toList_inj {a b : String} (h : a.toList = b.toList) : a = b := String.ext h

theorem routeKeys_resolve {c : ScenarioR} (h : RouteKeysNodupR c.routes) : RouteKeysNodup (resolve c).routes := by
  unfold RouteKeysNodup
  show ((c.routes.map (resolveRoute c.grants c.services)).map fun r => (r.ns, r.name)).Nodup
  rw [List.map_map]
  apply nodup_map_of_inj (nodup_of_nodup_map h)
  intro a ha b hb e
  simp only [Function.comp, resolveRoute, Prod.mk.injEq] at e
  exact inj_of_nodup_map h a ha b hb (by rw [string_toList_inj e.1, string_toList_inj e.2])

theorem ReorderedR.keys {c c' : ScenarioR} (h : ReorderedR c c') (hk : KeyInj c.gateways)
    (hr : RouteKeysNodupR c.routes) (hs : SvcKeysNodup c.services) :
    KeyInj c'.gateways ∧ RouteKeysNodup (resolve c').routes ∧ SvcKeysNodup c'.services := by
  refine ⟨hk.perm h.gateways, routeKeys_resolve ?_, ?_⟩
  · unfold RouteKeysNodupR at hr ⊢; exact (h.routes.map _).nodup hr
  · unfold SvcKeysNodup at hs ⊢; exact (h.services.map _).nodup hs

/-- the configuration of a cluster with references does not depend on the order of its objects (up to order) -/
theorem genR_equiv_of_reordered {c c' : ScenarioR} (h : ReorderedR c c') (hk : KeyInj c.gateways)
    (hr : RouteKeysNodupR c.routes) (hs : SvcKeysNodup c.services) : Conf.equiv (genR c) (genR c') := by
  obtain ⟨k1, k2, k3⟩ := h.keys hk hr hs
  exact genR_mixed_equiv (mixed_of_reorderedR h) (foreign_empty c) k1 k2 k3

theorem genR_meaning_of_reordered {c c' : ScenarioR} (h : ReorderedR c c') (hk : KeyInj c.gateways)
    (hr : RouteKeysNodupR c.routes) (hs : SvcKeysNodup c.services) (hp : PathsOKR c) :
    ∀ q, nginxEvalConf (genR c') q = nginxEvalConf (genR c) q := by
  obtain ⟨k1, k2, k3⟩ := h.keys hk hr hs
  exact genR_mixed_meaning (mixed_of_reorderedR h) (foreign_empty c) k1 k2 k3 hp

theorem referencedServices_of_reordered {c c' : ScenarioR} (h : ReorderedR c c') (hk : KeyInj c.gateways) :
    (referencedServices c').Perm (referencedServices c) :=
  referencedServices_mixed (mixed_of_reorderedR h) (foreign_empty c) (hk.perm h.gateways)
    (fun _ _ _ hr => absurd hr List.not_mem_nil)

/-- the graph's view of a reordered cluster is a reordering of the graph's view, route by route the SAME resolved route -/
theorem resolve_reordered {c c' : ScenarioR} (h : ReorderedR c c') (hs : SvcKeysNodup c.services) :
    Reordered (resolve c) (resolve c') ∧
    ∀ r, resolveRoute c'.grants c'.services r = resolveRoute c.grants c.services r := by
  have hs' : SvcKeysNodup c'.services := by unfold SvcKeysNodup at hs ⊢; exact (h.services.map _).nodup hs
  have hres : ∀ r, resolveRoute c'.grants c'.services r = resolveRoute c.grants c.services r := by
    intro r
    unfold resolveRoute
    congr 1
    apply List.map_congr_left
    intro ru _
    unfold resolveRule
    congr 1
    apply resolveAction_mixed (xg := []) (xs := [])
    · rw [List.append_nil]; exact h.grants
    · rw [List.append_nil]; exact h.services
    · exact hs'
    · intro _ _ _ _ _ hx; exact absurd hx List.not_mem_nil
    · intro _ _ _ _ _ hx; exact absurd hx List.not_mem_nil
  refine ⟨⟨h.cls, h.ctlr, h.classes, h.gateways, ?_⟩, hres⟩
  show (c.routes.map (resolveRoute c.grants c.services)).Perm (c'.routes.map (resolveRoute c'.grants c'.services))
  have : c'.routes.map (resolveRoute c'.grants c'.services) = c'.routes.map (resolveRoute c.grants c.services) :=
    List.map_congr_left fun r _ => hres r
  rw [this]
  exact h.routes.map _

/-! ### §2 statuses -/

open NGF.PipelineStatus

theorem ours_perm {s s' : Scenario} (h : Reordered s s') : (ours s).Perm (ours s') := by
  unfold ours; rw [h.cls]; exact h.gateways.filter _

theorem classState_perm {s s' : Scenario} (h : Reordered s s') : classState s' = classState s := by
  unfold classState
  rw [classOurs_perm h.cls h.ctlr h.classes, h.cls, h.classes.symm.any_eq]

/-- the Gateway the graph is built for (and its validity) does not depend on the order of Gateways and classes -/
theorem graphGateway_perm {s s' : Scenario} (h : Reordered s s') (hk : KeyInj s.gateways) :
    graphGateway s' = graphGateway s := by
  unfold graphGateway
  rw [classState_perm h]
  have : oldest (ours s') = oldest (ours s) :=
    (oldest_perm (ours_perm h) (hk.sub fun a ha => (List.mem_filter.mp ha).1)).symm
  rw [this]

theorem namesOurs_perm {s s' : Scenario} (h : Reordered s s') (p : Parent) : namesOurs s' p = namesOurs s p := by
  unfold namesOurs; exact (ours_perm h).symm.any_eq

theorem sectionNameRefs_perm {s s' : Scenario} (h : Reordered s s') (r : Route) :
    sectionNameRefs s' r = sectionNameRefs s r := by
  unfold sectionNameRefs
  have : namesOurs s' = namesOurs s := funext (namesOurs_perm h)
  rw [this]

/-- the status written for a route — every parentRef entry with every condition's type / status / reason, in parentRef
order — is a function of the cluster state only -/
theorem routeParentStatuses_perm {s s' : Scenario} (h : Reordered s s') (hk : KeyInj s.gateways) (reloadErr : Bool)
    (gen : Int) (r : Route) : routeParentStatuses s' reloadErr gen r = routeParentStatuses s reloadErr gen r := by
  unfold routeParentStatuses
  rw [graphGateway_perm h hk, sectionNameRefs_perm h, h.ctlr]

theorem listenerRoutes_perm {s s' : Scenario} (h : Reordered s s') (gw : Gateway) (l : Listener) :
    (listenerRoutes s gw l).Perm (listenerRoutes s' gw l) := by
  unfold listenerRoutes
  refine (h.routes.filter _).trans (List.Perm.of_eq ?_)
  apply List.filter_congr
  intro r _
  rw [sectionNameRefs_perm h]

/-- the status of the winning Gateway, its listeners' conditions and `attachedRoutes` included -/
theorem gatewayStatus_perm {s s' : Scenario} (h : Reordered s s') (hk : KeyInj s.gateways) (reloadErr : Bool) (gen : Int) :
    gatewayStatus s' reloadErr gen = gatewayStatus s reloadErr gen := by
  unfold gatewayStatus
  rw [graphGateway_perm h hk]
  cases graphGateway s with
  | none => rfl
  | some gg =>
    simp only [Option.map_some]
    congr 1
    obtain ⟨gw, v⟩ := gg
    have hl : ∀ l, ((listenerRoutes s' gw l).map routeKeyStr).length = ((listenerRoutes s gw l).map routeKeyStr).length := by
      intro l; simp only [List.length_map]; exact (listenerRoutes_perm h gw l).length_eq.symm
    unfold NGF.StatusPrep.prepareGateway toPrepGateway
    simp only
    have hvc : ∀ (f g : Listener → List String),
        NGF.StatusPrep.validListenerCount ((graphListeners gw v).map fun l =>
          ({ name := str l.name, valid := true, conds := [], routes := f l, l4routes := [] } : NGF.StatusPrep.Listener)) =
        NGF.StatusPrep.validListenerCount ((graphListeners gw v).map fun l =>
          ({ name := str l.name, valid := true, conds := [], routes := g l, l4routes := [] } : NGF.StatusPrep.Listener)) := by
      intro f g
      unfold NGF.StatusPrep.validListenerCount
      simp [List.filter_map, Function.comp_def]
    cases v with
    | false => rfl
    | true =>
      simp only [↓reduceIte]
      congr 1
      · unfold NGF.StatusPrep.gatewayConds
        simp only [List.length_map]
        rw [hvc (fun l => (listenerRoutes s' gw l).map routeKeyStr) (fun l => (listenerRoutes s gw l).map routeKeyStr)]
      · simp only [List.map_map]
        apply List.map_congr_left
        intro l _
        simp only [Function.comp, NGF.StatusPrep.prepareListener, NGF.StatusPrep.listenerConds, hl l]

theorem listenerStatuses_perm {s s' : Scenario} (h : Reordered s s') (hk : KeyInj s.gateways) (reloadErr : Bool) (gen : Int) :
    listenerStatuses s' reloadErr gen = listenerStatuses s reloadErr gen := by
  unfold listenerStatuses; rw [gatewayStatus_perm h hk]

theorem ignoredGateways_perm {s s' : Scenario} (h : Reordered s s') (hk : KeyInj s.gateways) :
    (ignoredGateways s).Perm (ignoredGateways s') := by
  unfold ignoredGateways
  rw [graphGateway_perm h hk]
  cases graphGateway s with
  | none => exact List.Perm.refl _
  | some gg => exact (ours_perm h).filter _

/-! ### §3 HTTPS listeners and certificates -/

open NGF.PipelineTls

/-- `s'` holds the objects of `s` — GatewayClasses, Gateways, HTTPRoutes, Secrets, ReferenceGrants — in another order
(the listeners INSIDE a Gateway stay in spec order) -/
structure ReorderedT (s s' : ScenarioT) : Prop where
  cls : s'.cls = s.cls
  ctlr : s'.ctlr = s.ctlr
  classes : s.classes.Perm s'.classes
  gateways : s.gateways.Perm s'.gateways
  routes : s.routes.Perm s'.routes
  secrets : s.secrets.Perm s'.secrets
  grants : s.grants.Perm s'.grants

/-- Gateways have distinct (namespace, name) -/
def KeyInjT (l : List GatewayT) : Prop := ∀ a ∈ l, ∀ b ∈ l, a.ns = b.ns → a.name = b.name → a = b

/-- Secrets have distinct (namespace, name) -/
def SecretKeysNodup (l : List Tls.SecretObj) : Prop := (l.map fun x => (x.ns, x.name)).Nodup

theorem findSecret_perm {l l' : List Tls.SecretObj} (hp : l.Perm l') (hn : SecretKeysNodup l) (ns name : Tls.Name) :
    Tls.findSecret l' ns name = Tls.findSecret l ns name := by
  unfold Tls.findSecret
  symm
  apply find?_perm_of_unique hp
  intro a ha b hb pa pb
  simp only [Bool.and_eq_true, decide_eq_true_eq] at pa pb
  exact inj_of_nodup_map hn a ha b hb (by simp [pa.1, pa.2, pb.1, pb.2])

theorem secretRefAllowed_perm {gs gs' : List Tls.Grant} (hp : gs.Perm gs') (a b c : Tls.Name) :
    Tls.secretRefAllowed gs' a b c = Tls.secretRefAllowed gs a b c := by
  unfold Tls.secretRefAllowed; exact hp.symm.any_eq

theorem resolveRef_perm {gs gs' : List Tls.Grant} {secs secs' : List Tls.SecretObj} (hg : gs.Perm gs')
    (hs : secs.Perm secs') (hn : SecretKeysNodup secs) (gwNs : Tls.Name) (r : Tls.CertRef) :
    Tls.resolveRef gs' secs' gwNs r = Tls.resolveRef gs secs gwNs r := by
  unfold Tls.resolveRef
  rw [secretRefAllowed_perm hg, findSecret_perm hs hn]

theorem validHttps_perm {s s' : ScenarioT} (h : ReorderedT s s') (hn : SecretKeysNodup s.secrets) :
    validHttps s' = validHttps s := by
  funext g l
  unfold validHttps resolution
  rw [resolveRef_perm h.grants h.secrets hn]

theorem proj_reordered (keep : GatewayT → ListenerT → Bool) {s s' : ScenarioT} (h : ReorderedT s s') :
    Reordered (proj keep s) (proj keep s') :=
  ⟨h.cls, h.ctlr, h.classes, h.gateways.map _, h.routes⟩

theorem keyInj_proj (keep : GatewayT → ListenerT → Bool) {s : ScenarioT} (hk : KeyInjT s.gateways) :
    KeyInj (proj keep s).gateways := by
  intro a ha b hb e1 e2
  obtain ⟨a0, ha0, rfl⟩ := List.mem_map.mp ha
  obtain ⟨b0, hb0, rfl⟩ := List.mem_map.mp hb
  rw [hk a0 ha0 b0 hb0 e1 e2]

/-- the served Gateway (with its TLS fields) does not depend on the order of Gateways and classes -/
theorem winnerT_perm {s s' : ScenarioT} (h : ReorderedT s s') (hk : KeyInjT s.gateways) : winnerT s' = winnerT s := by
  have hw := NGF.Props.C14Pipeline.winner_perm _ _ (proj_reordered (fun _ _ => true) h) (keyInj_proj _ hk)
  rw [winner_proj, winner_proj] at hw
  cases h1 : winnerT s' with
  | none =>
    cases h2 : winnerT s with
    | none => rfl
    | some b => rw [h1, h2] at hw; cases hw
  | some a =>
    cases h2 : winnerT s with
    | none => rw [h1, h2] at hw; cases hw
    | some b =>
      rw [h1, h2] at hw
      simp only [Option.map_some, Option.some.injEq] at hw
      have e1 : a.ns = b.ns := congrArg Gateway.ns hw
      have e2 : a.name = b.name := congrArg Gateway.name hw
      rw [hk a (h.gateways.mem_iff.mpr (winnerT_mem h1)) b (winnerT_mem h2) e1 e2]

theorem accHosts_contains_perm (g : Gateway) {routes routes' : List Route} (hp : routes.Perm routes') (l : Listener) (h : Str) :
    (accHosts g routes' l).contains h = (accHosts g routes l).contains h := by
  unfold accHosts
  exact (hp.symm.flatMap_right _).contains_eq

theorem ownerFrom_perm (g : Gateway) {routes routes' : List Route} (hp : routes.Perm routes') (h : Str) :
    ∀ (ls : List ListenerT) (acc : Option ListenerT), ownerFrom g routes' h acc ls = ownerFrom g routes h acc ls
  | [], _ => rfl
  | l :: ls, acc => by
    simp only [ownerFrom]
    have : ownerStep g routes' h acc l = ownerStep g routes h acc l := by
      unfold ownerStep; rw [accHosts_contains_perm g hp]
    rw [this, ownerFrom_perm g hp h ls]

theorem nroutes_perm (g : Gateway) {routes routes' : List Route} (hp : routes.Perm routes') (l : Listener) :
    nroutes g routes' l = nroutes g routes l := by
  unfold nroutes; exact (hp.symm.filter _).length_eq

theorem listenerOnly_perm (g : Gateway) {routes routes' : List Route} (hp : routes.Perm routes') (ls : List ListenerT) :
    listenerOnly g routes' ls = listenerOnly g routes ls := by
  unfold listenerOnly
  congr 1
  apply List.filter_congr
  intro l _
  rw [nroutes_perm g hp]

theorem keyPairsFrom_perm {secs secs' : List Tls.SecretObj} (hs : secs.Perm secs') (hn : SecretKeysNodup secs) :
    ∀ (ls : List ListenerT) (m : List Tls.KeyPair), keyPairsFrom secs' m ls = keyPairsFrom secs m ls
  | [], _ => rfl
  | l :: ls, m => by
    simp only [keyPairsFrom]
    have : kpStep secs' m l = kpStep secs m l := by
      unfold kpStep
      cases l.cert with
      | none => rfl
      | some c => simp only [findSecret_perm hs hn]
    rw [this, keyPairsFrom_perm hs hn ls]

/-- two TLS configurations that differ only in the order of servers / locations / ports: every SSL server keeps its
key pair, the key-pair files are the same -/
structure ConfTEquiv (c c' : ConfT) : Prop where
  http : Conf.equiv c.http c'.http
  ssl : PermRel (fun a b : CServer × Option (List Char) => CServer.equiv a.1 b.1 ∧ a.2 = b.2) c.ssl c'.ssl
  sslPorts : c.sslPorts.Perm c'.sslPorts
  keyPairs : c'.keyPairs = c.keyPairs

theorem genT_equiv_of_reordered {s s' : ScenarioT} (h : ReorderedT s s') (hk : KeyInjT s.gateways)
    (hr : RouteKeysNodup s.routes) (hn : SecretKeysNodup s.secrets) : ConfTEquiv (genT s) (genT s') := by
  have hv := validHttps_perm h hn
  have hw := winnerT_perm h hk
  have hhttp : Conf.equiv (gen (httpPart s)) (gen (httpPart s')) :=
    NGF.Props.C14Pipeline.gen_perm_equiv _ _ (proj_reordered _ h) (keyInj_proj _ hk) hr
  have hhttps : Conf.equiv (gen (httpsPart s)) (gen (httpsPart s')) := by
    have : httpsPart s' = proj (fun g l => validHttps s g l) s' := by unfold httpsPart; rw [hv]
    rw [this]
    exact NGF.Props.C14Pipeline.gen_perm_equiv _ _ (proj_reordered _ h) (keyInj_proj _ hk) hr
  cases hws : winnerT s with
  | none =>
    rw [genT_none hws, genT_none (hw.trans hws)]
    exact ⟨hhttp, ⟨[], List.Perm.refl _, .nil⟩, List.Perm.refl _, rfl⟩
  | some gT =>
    rw [genT_some hws, genT_some (hw.trans hws)]
    have hvs : sslListeners s' gT = sslListeners s gT := by unfold sslListeners; rw [hv]
    refine ⟨hhttp, ?_, hhttps.1, ?_⟩
    · simp only [hv, hvs]
      apply PermRel.append
      · apply hhttps.2.map
        intro a b r
        refine ⟨r, ?_⟩
        simp only
        unfold ownerOf
        rw [ownerFrom_perm _ h.routes, r.1, r.2.1]
      · rw [listenerOnly_perm _ h.routes]
        exact PermRel.refl_of (fun a => ⟨⟨rfl, rfl, List.Perm.refl _⟩, rfl⟩) _
    · simp only [hvs]
      exact keyPairsFrom_perm h.secrets hn _ _

/-- the port conflict resolver is stateful and runs in listener order, but WHICH listeners it invalidates does not depend on
that order (through C16's `port_conflict_resolver_exact`) -/
theorem pcRun_verdict_perm (g g' : GatewayT) (hp : g.listeners.Perm g'.listeners) (l : ListenerT) (hl : l ∈ g.listeners)
    (hf : l.fieldsOK = true) : l ∈ (pcRun g.listeners).invalid ↔ l ∈ (pcRun g'.listeners).invalid := by
  rw [port_conflict_resolver_exact g l hl hf, port_conflict_resolver_exact g' l (hp.mem_iff.mp hl) hf]
  unfold conflicted
  rw [hp.any_eq]

/-! ### §4 endpoints -/

open NGF.PipelineEndpoints
open NGF.Resolver (Slice SvcPort Up Ep)

/-- `c'` = `c` with, in addition to the objects of the reference layer, the Service port entries and the EndpointSlices in
another order -/
structure ReorderedE (c c' : ScenarioE) : Prop where
  base : ReorderedR c.base c'.base
  ports : c.ports.Perm c'.ports
  slices : c.slices.Perm c'.slices

/-- one `spec.ports` entry per (Service, port number) -/
def PortKeysNodup (l : List PortInfo) : Prop := (l.map fun i => (i.ns, i.name, i.sp.port)).Nodup

theorem ReorderedR.symm {c c' : ScenarioR} (h : ReorderedR c c') : ReorderedR c' c :=
  ⟨by rw [h.cls], by rw [h.ctlr], h.classes.symm, h.gateways.symm, h.routes.symm, h.services.symm, h.grants.symm⟩

theorem ReorderedE.symm {c c' : ScenarioE} (h : ReorderedE c c') : ReorderedE c' c :=
  ⟨h.base.symm, h.ports.symm, h.slices.symm⟩

theorem servicePort_perm {c c' : ScenarioE} (hp : c.ports.Perm c'.ports) (hn : PortKeysNodup c.ports)
    (ns name : String) (port : Nat) : servicePort c' ns name port = servicePort c ns name port := by
  unfold servicePort
  rw [← find?_perm_of_unique hp]
  intro a ha b hb pa pb
  simp only [Bool.and_eq_true, beq_iff_eq] at pa pb
  exact inj_of_nodup_map hn a ha b hb (by simp [pa.1.1, pa.1.2, pa.2, pb.1.1, pb.1.2, pb.2])

theorem collect_perm {f f' : List Slice} (hp : f.Perm f') (sp : SvcPort) :
    (Resolver.collect f sp).Perm (Resolver.collect f' sp) := by
  unfold Resolver.collect
  rw [List.perm_ext_iff_of_nodup (Resolver.nodup_dedup _) (Resolver.nodup_dedup _)]
  intro a
  rw [Resolver.mem_dedup, Resolver.mem_dedup]
  exact (hp.flatMap_right _).mem_iff

/-- the endpoints resolved for a Service port are the same SET whatever the order in which the API server lists the
EndpointSlices (the Go code collects them in a map: their order is not determined by the input at all) -/
theorem upstreamEndpoints_perm {all all' : List Slice} (hp : all.Perm all') (ns name : String) (sp : SvcPort)
    (fam : Resolver.IPFamily) :
    (Resolver.upstreamEndpoints all ns name sp fam).Perm (Resolver.upstreamEndpoints all' ns name sp fam) := by
  unfold Resolver.upstreamEndpoints Resolver.resolve
  by_cases hpanic : sp.port = 0 ∨ name = "" ∨ ns = ""
  · simp only [hpanic, ↓reduceIte]; exact List.Perm.refl _
  · simp only [hpanic, ↓reduceIte]
    have hl : (Resolver.listSlices all ns name).Perm (Resolver.listSlices all' ns name) := hp.filter _
    rw [← hl.isEmpty_eq]
    by_cases he : (Resolver.listSlices all ns name).isEmpty = true
    · simp only [he, ↓reduceIte]; exact List.Perm.refl _
    · simp only [he, Bool.false_eq_true, ↓reduceIte]
      unfold Resolver.resolveEndpoints
      have hf : (Resolver.filterEndpointSliceList (Resolver.listSlices all ns name) sp (Resolver.getAllowedAddressType fam)).Perm
          (Resolver.filterEndpointSliceList (Resolver.listSlices all' ns name) sp (Resolver.getAllowedAddressType fam)) :=
        hl.filter _
      simp only
      rw [← hf.isEmpty_eq]
      by_cases he2 : (Resolver.filterEndpointSliceList (Resolver.listSlices all ns name) sp
          (Resolver.getAllowedAddressType fam)).isEmpty = true
      · simp only [he2, ↓reduceIte]; exact List.Perm.refl _
      · simp only [he2, Bool.false_eq_true, ↓reduceIte, Resolver.Res.eps]
        exact collect_perm hf sp

theorem resolveRef_reordered {c c' : ScenarioR} (h : ReorderedR c c') (hs : SvcKeysNodup c.services) (ns : String)
    (ref : BackendRef) : resolveRef c'.grants c'.services ns ref = resolveRef c.grants c.services ns ref := by
  have hs' : SvcKeysNodup c'.services := by unfold SvcKeysNodup at hs ⊢; exact (h.services.map _).nodup hs
  apply resolveRef_mixed (xg := []) (xs := [])
  · rw [List.append_nil]; exact h.grants
  · rw [List.append_nil]; exact h.services
  · exact hs'
  · intro _ hx; exact absurd hx List.not_mem_nil
  · intro _ hx; exact absurd hx List.not_mem_nil

theorem routeBackends_reordered {c c' : ScenarioE} (h : ReorderedE c c') (hs : SvcKeysNodup c.base.services) :
    routeBackends c' = routeBackends c := by
  funext r
  unfold routeBackends
  have : resolveRef c'.base.grants c'.base.services r.ns = resolveRef c.base.grants c.base.services r.ns :=
    funext fun ref => resolveRef_reordered h.base hs r.ns ref
  rw [this]

theorem winnerR_reordered {c c' : ScenarioR} (h : ReorderedR c c') (hk : KeyInj c.gateways) :
    winner (resolve c') = winner (resolve c) :=
  winner_mixed (mixed_of_reorderedR h) (foreign_empty c) (hk.perm h.gateways)

/-- the valid backendRefs `buildUpstreams` visits are the same up to order -/
theorem backends_perm {c c' : ScenarioE} (h : ReorderedE c c') (hk : KeyInj c.base.gateways)
    (hs : SvcKeysNodup c.base.services) : (backends c).Perm (backends c') := by
  unfold backends
  rw [winnerR_reordered h.base hk]
  cases winner (resolve c.base) with
  | none => exact List.Perm.refl _
  | some g =>
    simp only
    apply flatMap_perm_congr
    intro l _
    rw [routeBackends_reordered h hs]
    exact (h.base.routes.filter _).flatMap_right _

theorem toDigits_inj {p q : Nat} (h : Nat.toDigits 10 p = Nat.toDigits 10 q) : p = q := by
  apply Nat.repr_injective
  simp only [Nat.repr, h]

/-- `ServicePortReference` identifies (namespace, name, port) when namespaces and names contain no `_` -/
theorem servicePortReference_inj {b b' : RefGrant.GBackendRef} (hv : b.valid = true) (hv' : b'.valid = true)
    (h1 : noUnderscore b.svcNs = true) (h2 : noUnderscore b.svcName = true) (h3 : noUnderscore b'.svcNs = true)
    (h4 : noUnderscore b'.svcName = true) (h : RefGrant.servicePortReference b = RefGrant.servicePortReference b') :
    b.svcNs = b'.svcNs ∧ b.svcName = b'.svcName ∧ b.port = b'.port := by
  have e : upstreamOf b.svcNs b.svcName b.port = upstreamOf b'.svcNs b'.svcName b'.port := by
    rw [← servicePortReference_valid hv, ← servicePortReference_valid hv', h]
  rw [upstreamOf_eq, upstreamOf_eq] at e
  obtain ⟨e1, e⟩ := split_at_underscore (noUnderscore_iff.1 h1) (noUnderscore_iff.1 h3) e
  obtain ⟨e2, e⟩ := split_at_underscore (noUnderscore_iff.1 h2) (noUnderscore_iff.1 h4) e
  exact ⟨String.toList_inj.1 e1, String.toList_inj.1 e2, toDigits_inj e⟩

theorem backend_names_plain {c : ScenarioE} (hn : namesOK c.base = true) {b : RefGrant.GBackendRef} (hb : b ∈ backends c) :
    b.valid = true ∧ noUnderscore b.svcNs = true ∧ noUnderscore b.svcName = true := by
  obtain ⟨hv, g, _, r, hr, _, ru, hru, refs, hact, ref, href, e1, e2, _, _⟩ := backends_provenance hb
  obtain ⟨n1, n2⟩ := namesOK_spec hn r hr
  obtain ⟨n3, n4⟩ := n2 ru hru refs hact ref href
  refine ⟨hv, ?_, by rw [e2]; exact n3⟩
  rw [e1]
  unfold RefGrant.refNs
  cases hns : ref.ns with
  | none => exact n1
  | some n => exact n4 n hns

theorem namesOK_perm {c c' : ScenarioR} (h : ReorderedR c c') (hn : namesOK c = true) : namesOK c' = true := by
  unfold namesOK at hn ⊢
  rw [← h.routes.all_eq]; exact hn

/-- one direction of `upstreamsOf_of_reordered` -/
theorem upstreamsOf_sub {c c' : ScenarioE} (h : ReorderedE c c') (hk : KeyInj c.base.gateways)
    (hs : SvcKeysNodup c.base.services) (hpk : PortKeysNodup c.ports) (hn : namesOK c.base = true) :
    ∀ u ∈ upstreamsOf c, ∃ u' ∈ upstreamsOf c', u'.name = u.name ∧ u.eps.Perm u'.eps := by
  intro u hu
  obtain ⟨b, hb, rfl⟩ := mem_upstreamsOf hu
  have hb' : b ∈ backends c' := (backends_perm h hk hs).mem_iff.mp hb
  obtain ⟨u', hu', hname⟩ := List.mem_map.mp (name_mem_upstreamsOf hb')
  obtain ⟨b2, hb2, rfl⟩ := mem_upstreamsOf hu'
  refine ⟨_, hu', hname, ?_⟩
  obtain ⟨v1, p1, p2⟩ := backend_names_plain hn hb
  obtain ⟨v2, q1, q2⟩ := backend_names_plain (namesOK_perm h.base hn) hb2
  have hname' : RefGrant.servicePortReference b2 = RefGrant.servicePortReference b := hname
  obtain ⟨e1, e2, e3⟩ := servicePortReference_inj v2 v1 q1 q2 p1 p2 hname'
  unfold toUp
  simp only
  rw [e1, e2, e3, servicePort_perm h.ports hpk]
  exact upstreamEndpoints_perm h.slices _ _ _ _

/-! ### §5 the Go-map port order of the renderer -/

open NGF.Render

/-- a server without its position in `conf.HTTPServers` -/
def unsid (sv : RServer) : RServer := { sv with sid := 0 }

/-- The iteration order of `portPathRules` (a Go map) only decides the serverIDs: the servers (path rules, locations,
match rules, actions), the default-server ports and the BackendGroups are the same for any two orders. -/
theorem genR_order_only_sids (s : Scenario) (o₁ o₂ : List Nat) :
    (Render.genR s o₁).servers.map unsid = (Render.genR s o₂).servers.map unsid ∧
    (Render.genR s o₁).dports.map (·.1) = (Render.genR s o₂).dports.map (·.1) ∧
    (Render.genR s o₁).groups = (Render.genR s o₂).groups := by
  unfold Render.genR
  cases winner s with
  | none => exact ⟨rfl, rfl, rfl⟩
  | some g =>
    refine ⟨?_, ?_, rfl⟩
    · simp only [List.map_map]
      exact List.map_congr_left fun ph _ => rfl
    · simp only [List.map_map]
      exact List.map_congr_left fun p _ => rfl

/-- … hence the same split_clients blocks, -/
theorem splitDirs_order_irrelevant (s : Scenario) (o₁ o₂ : List Nat) :
    splitDirs (Render.genR s o₁) = splitDirs (Render.genR s o₂) := by
  unfold splitDirs; rw [(genR_order_only_sids s o₁ o₂).2.2]

/-- the same abstract configuration (C03's `forget_genR`), -/
theorem forget_order_irrelevant (s : Scenario) (o₁ o₂ : List Nat) :
    (Render.genR s o₁).forget = (Render.genR s o₂).forget := by
  rw [forget_genR, forget_genR]

/-- and the same answer of NGINX to every request -/
theorem render_meaning_order_irrelevant (s : Scenario) (o₁ o₂ : List Nat) (q : Req) :
    nginxEvalConf (Render.genR s o₁).forget q = nginxEvalConf (Render.genR s o₂).forget q := by
  rw [forget_order_irrelevant s o₁ o₂]

/-- the structural well-formedness judge gives the same verdict (no issue) for every port order -/
theorem wfDirs_order_irrelevant (s : Scenario) (o₁ o₂ : List Nat) (hf : inFragment s = true) (hs : namesSafe s = true)
    (hp : portsOK s = true) :
    wfDirs (render (Render.genR s o₁)) (matchKeysOf (Render.genR s o₁)) =
      wfDirs (render (Render.genR s o₂)) (matchKeysOf (Render.genR s o₂)) := by
  rw [NGF.Props.C03Render.render_wellformed_fragment s o₁ hf hs hp,
    NGF.Props.C03Render.render_wellformed_fragment s o₂ hf hs hp]

end NGF.PipelineLayers
