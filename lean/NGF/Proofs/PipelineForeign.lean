/-
C17 on the pipeline model with references (`genR = gen ∘ resolve`, Model/Pipeline.lean + Model/PipelineRefs.lean):
foreign non-interference in SET form. A cluster `c` and a set `X` of foreign objects — GatewayClasses of other names,
Gateways of other classes, HTTPRoutes that attach to no listener of the served Gateway, Services and ReferenceGrants
that no route of ours uses — mixed in ANY arrival order (`Mixed`: `List.Perm` of the concatenations) generate a
configuration NGINX cannot tell from that of `c` alone.

  §1 vocabulary: `XSet`, `ext`, `Mixed`, `Foreign`
  §2 the served Gateway ignores X
  §3 the resolution of our routes' backendRefs ignores X's Services and ReferenceGrants
  §4 `genR (ext c x) = genR c` (X appended), `Conf.equiv (genR c) (genR c')` and same meaning (X anywhere)
  §5 `referencedServices`
Property theorems: NGF/Props/C17.lean §Pipeline. Core Lean only (imports read-only shared modules).
-/
import NGF.Model.PipelineRefs
import NGF.Model.PipelineForeign
import NGF.Proofs.PipelineRefs
import NGF.Proofs.PipelinePerm
import NGF.Props.C14Pipeline

namespace NGF.PipelineForeign
open NGF.Pipeline NGF.PipelineRefs NGF.ListPerm
open NGF.RefGrant (Grant BackendRef)

/-! ### §1 vocabulary: Model/PipelineForeign.lean -/

theorem foreign_of_foreignB {c : ScenarioR} {x : XSet} (h : foreignB c x = true) : Foreign c x := by
  unfold foreignB at h
  simp only [Bool.and_eq_true, List.all_eq_true, Bool.not_eq_true'] at h
  obtain ⟨⟨h1, h2⟩, h3⟩ := h
  refine ⟨h1, h2, ?_, ?_, ?_⟩
  · intro g hg r hr
    rw [hg] at h3
    simp only [Bool.and_eq_true, List.all_eq_true, Bool.not_eq_true'] at h3
    exact h3.1 r hr
  · intro g hg r hr hin ref href s hs
    rw [hg] at h3
    simp only [Bool.and_eq_true, List.all_eq_true, Bool.not_eq_true', Bool.or_eq_true] at h3
    rcases h3.2 r hr with h4 | h4
    · rw [hin] at h4; cases h4
    · have := (h4 ref href).1 s hs
      simpa [Bool.and_eq_false_iff] using this
  · intro g hg r hr hin ref href gr hgr
    rw [hg] at h3
    simp only [Bool.and_eq_true, List.all_eq_true, Bool.not_eq_true', Bool.or_eq_true] at h3
    rcases h3.2 r hr with h4 | h4
    · rw [hin] at h4; cases h4
    · exact (h4 ref href).2 gr hgr

/-! ### §2 the served Gateway -/

theorem winner_ext (c : ScenarioR) (x : XSet) (hc : ∀ y ∈ x.classes, (y.name == c.cls) = false)
    (hg : ∀ y ∈ x.gateways, (y.cls == c.cls) = false) :
    winner (resolve (ext c x)) = winner (resolve c) := by
  unfold winner classOurs
  show (if (c.classes ++ x.classes).any (fun k => k.name == c.cls && k.ctlr == c.ctlr) = true then
      oldest ((c.gateways ++ x.gateways).filter (·.cls == c.cls)) else none) =
    (if c.classes.any (fun k => k.name == c.cls && k.ctlr == c.ctlr) = true then
      oldest (c.gateways.filter (·.cls == c.cls)) else none)
  have e1 : (c.classes ++ x.classes).any (fun k => k.name == c.cls && k.ctlr == c.ctlr) =
      c.classes.any (fun k => k.name == c.cls && k.ctlr == c.ctlr) := by
    rw [List.any_append]
    have : x.classes.any (fun k => k.name == c.cls && k.ctlr == c.ctlr) = false := by
      rw [List.any_eq_false]
      intro y hy; simp [hc y hy]
    rw [this, Bool.or_false]
  have e2 : (c.gateways ++ x.gateways).filter (·.cls == c.cls) = c.gateways.filter (·.cls == c.cls) := by
    rw [List.filter_append]
    have : x.gateways.filter (·.cls == c.cls) = [] := by
      rw [List.filter_eq_nil_iff]
      intro y hy; simp [hg y hy]
    rw [this, List.append_nil]
  rw [e1, e2]

theorem attached_inGraph {g : Gateway} {r : RouteR} (h : attached g r = true) : inGraph g r = true := by
  unfold attached at h
  unfold inGraph
  simp only [Bool.and_eq_true, List.any_eq_true] at h ⊢
  refine ⟨h.1, ?_⟩
  obtain ⟨l, _, hl⟩ := h.2
  unfold acceptedAtR acceptedAt at hl
  split at hl
  · rename_i hr
    simp only [Bool.and_eq_true] at hr
    unfold refersTo at hr
    unfold belongsTo
    obtain ⟨p, hp, hpp⟩ := List.any_eq_true.mp hr.1
    simp only [Bool.and_eq_true] at hpp
    exact List.any_eq_true.mpr ⟨p, hp, by simp [hpp.1.1, hpp.1.2]⟩
  · simp at hl

/-! ### §3 the resolution of our routes' backendRefs does not see X's Services and ReferenceGrants -/

theorem mem_refsOf {r : RouteR} {ru : RuleR} {refs : List BackendRef} {ref : BackendRef}
    (hru : ru ∈ r.rules) (ha : ru.action = .forward refs) (href : ref ∈ refs) : ref ∈ refsOf r := by
  unfold refsOf
  exact List.mem_flatMap.mpr ⟨ru, hru, by rw [ha]; exact href⟩

/-- Service lookup in `c.services ++ X` in any order, for a key no Service of X carries -/
theorem lookupSvc_mixed {svcs xs svcs' : List Service} {ns name : String} (hp : (svcs ++ xs).Perm svcs')
    (hn : SvcKeysNodup svcs') (hx : ∀ s ∈ xs, ¬ (s.ns = ns ∧ s.name = name)) :
    lookupSvc svcs' ns name = lookupSvc svcs ns name := by
  unfold lookupSvc
  have hn' : SvcKeysNodup (svcs ++ xs) := by
    unfold SvcKeysNodup at hn ⊢
    exact (hp.map _).nodup_iff.mpr hn
  rw [← find?_perm_of_unique hp (fun a ha b hb pa pb => by
    simp only [Bool.and_eq_true, beq_iff_eq] at pa pb
    exact inj_of_nodup_map hn' a ha b hb (by simp [pa.1, pa.2, pb.1, pb.2]))]
  rw [List.find?_append]
  have : xs.find? (fun s => s.ns == ns && s.name == name) = none := by
    rw [List.find?_eq_none]
    intro s hs
    simp only [Bool.and_eq_true, beq_iff_eq]
    exact hx s hs
  rw [this, Option.or_none]

/-- the resolver's answer for one target, with the grants of X mixed in anywhere -/
theorem refAllowed_mixed {gs xg gs' : List Grant} (hp : (gs ++ xg).Perm gs') (to : RefGrant.ToRes) (frm : RefGrant.FromRes)
    (hx : ∀ gr ∈ xg, RefGrant.refAllowed (RefGrant.grantKeys gr) to frm = false) :
    RefGrant.refAllowed (RefGrant.newResolver gs') to frm = RefGrant.refAllowed (RefGrant.newResolver gs) to frm := by
  have key : ∀ k : RefGrant.AllowedRef, (k = ⟨to, frm⟩ ∨ k = ⟨{ group := "", kind := to.kind, name := "", ns := to.ns }, frm⟩) →
      (k ∈ RefGrant.newResolver gs' ↔ k ∈ RefGrant.newResolver gs) := by
    intro k hk
    simp only [RefGrant.newResolver, List.mem_flatMap]
    constructor
    · rintro ⟨g, hg, hkg⟩
      rcases List.mem_append.mp (hp.mem_iff.mpr hg) with h | h
      · exact ⟨g, h, hkg⟩
      · have := hx g h
        have hf : ¬ (RefGrant.refAllowed (RefGrant.grantKeys g) to frm = true) := by simp [this]
        rw [RefGrant.refAllowed_iff_mem] at hf
        rcases hk with rfl | rfl
        · exact absurd (Or.inl hkg) hf
        · exact absurd (Or.inr hkg) hf
    · rintro ⟨g, hg, hkg⟩
      exact ⟨g, hp.mem_iff.mp (List.mem_append_left _ hg), hkg⟩
  have e : (RefGrant.refAllowed (RefGrant.newResolver gs') to frm = true) ↔
      (RefGrant.refAllowed (RefGrant.newResolver gs) to frm = true) := by
    rw [RefGrant.refAllowed_iff_mem, RefGrant.refAllowed_iff_mem, key _ (Or.inl rfl), key _ (Or.inr rfl)]
  cases h1 : RefGrant.refAllowed (RefGrant.newResolver gs') to frm <;>
    cases h2 : RefGrant.refAllowed (RefGrant.newResolver gs) to frm <;> simp_all

/-- `validateBackendRef` asks the resolver about `toService n ref.name` only, and only when `ref.ns = some n` -/
theorem validateBackendRef_congr {ref : BackendRef} {routeNs : String} {a b : RefGrant.ToRes → Bool}
    (h : a (RefGrant.toService (RefGrant.refNs ref routeNs) ref.name) = b (RefGrant.toService (RefGrant.refNs ref routeNs) ref.name)) :
    RefGrant.validateBackendRef ref routeNs a = RefGrant.validateBackendRef ref routeNs b := by
  unfold RefGrant.validateBackendRef
  cases hns : ref.ns with
  | none => rfl
  | some n =>
    have : RefGrant.refNs ref routeNs = n := by simp [RefGrant.refNs, hns]
    rw [this] at h
    simp only [h]

theorem routeRefVerdict_mixed {gs xg gs' : List Grant} (hp : (gs ++ xg).Perm gs') {routeNs : String} {ref : BackendRef}
    (hx : ∀ gr ∈ xg, grantSilent gr routeNs ref = true) :
    RefGrant.routeRefVerdict gs' .http routeNs ref = RefGrant.routeRefVerdict gs .http routeNs ref := by
  unfold RefGrant.routeRefVerdict RefGrant.validateRouteBackendRef
  simp only
  split
  · rfl
  · apply validateBackendRef_congr
    unfold RefGrant.refAllowedFrom
    apply refAllowed_mixed hp
    intro gr hgr
    have := hx gr hgr
    unfold grantSilent at this
    show RefGrant.refAllowed (RefGrant.grantKeys gr) (RefGrant.toService (RefGrant.refNs ref routeNs) ref.name)
      (RefGrant.fromHTTPRoute routeNs) = false
    simpa using this

/-- the graph BackendRef of a backendRef of one of our routes is the same in `c` and in `c ∪ X` (any order) -/
theorem resolveRef_mixed {gs xg gs' : List Grant} {svcs xs svcs' : List Service} {routeNs : String} {ref : BackendRef}
    (hpg : (gs ++ xg).Perm gs') (hps : (svcs ++ xs).Perm svcs') (hn : SvcKeysNodup svcs')
    (hxs : ∀ s ∈ xs, ¬ (s.ns = RefGrant.refNs ref routeNs ∧ s.name = ref.name))
    (hxg : ∀ gr ∈ xg, grantSilent gr routeNs ref = true) :
    resolveRef gs' svcs' routeNs ref = resolveRef gs svcs routeNs ref := by
  apply resolveRef_congr (routeRefVerdict_mixed hpg hxg)
  intro _
  exact findPort_congr (lookupSvc_mixed hps hn hxs)

theorem resolveAction_mixed {gs xg gs' : List Grant} {svcs xs svcs' : List Service} {routeNs : String} {act : ActionR}
    (hpg : (gs ++ xg).Perm gs') (hps : (svcs ++ xs).Perm svcs') (hn : SvcKeysNodup svcs')
    (hxs : ∀ refs, act = .forward refs → ∀ ref ∈ refs, ∀ s ∈ xs, ¬ (s.ns = RefGrant.refNs ref routeNs ∧ s.name = ref.name))
    (hxg : ∀ refs, act = .forward refs → ∀ ref ∈ refs, ∀ gr ∈ xg, grantSilent gr routeNs ref = true) :
    resolveAction gs' svcs' routeNs act = resolveAction gs svcs routeNs act := by
  cases act with
  | redirect code sch h p => rfl
  | forward refs =>
    show Action.forward (refs.map fun ref => toPBackend (resolveRef gs' svcs' routeNs ref)) =
      Action.forward (refs.map fun ref => toPBackend (resolveRef gs svcs routeNs ref))
    congr 1
    apply List.map_congr_left
    intro ref href
    rw [resolveRef_mixed hpg hps hn (hxs refs rfl ref href) (hxg refs rfl ref href)]

/-! ### §4 the configuration -/

theorem unattached_cases {g : Gateway} {r : RouteR} (h : attached g r = false) :
    r.valid = false ∨ ∀ l ∈ g.listeners, acceptedAtR g l r = [] := by
  unfold attached at h
  cases hv : r.valid with
  | false => exact .inl rfl
  | true =>
    right
    intro l hl
    rw [hv, Bool.true_and, List.any_eq_false] at h
    have := h l hl
    cases ha : acceptedAtR g l r with
    | nil => rfl
    | cons a as => simp [ha] at this

theorem contrib_unattached {g : Gateway} {l : Listener} (hl : l ∈ g.listeners) (gs : List Grant) (svcs : List Service)
    {r : RouteR} (h : attached g r = false) :
    contrib g l (resolveRoute gs svcs r) = [] ∧ hostContrib g l (resolveRoute gs svcs r) = [] := by
  unfold contrib hostContrib
  rw [acceptedAt_resolveRoute]
  have hvalid : (resolveRoute gs svcs r).valid = r.valid := rfl
  rw [hvalid]
  rcases unattached_cases h with hv | ha
  · simp [hv]
  · rw [ha l hl, routeEntries_nil]; simp

theorem flatMap_append_nil {α β} (f : α → List β) (a b : List α) (h : ∀ x ∈ b, f x = []) :
    (a ++ b).flatMap f = a.flatMap f := by
  rw [List.flatMap_append]
  have : b.flatMap f = [] := by
    rw [List.flatMap_eq_nil_iff]; exact h
  rw [this, List.append_nil]

/-- routes attached to no listener of the served Gateway, appended, contribute no match rule and no server -/
theorem entries_append_unattached (g : Gateway) (gs : List Grant) (svcs : List Service) (a : List Route) (b : List RouteR)
    (h : ∀ r ∈ b, attached g r = false) :
    entries g (a ++ b.map (resolveRoute gs svcs)) = entries g a ∧
    hostsOf g (a ++ b.map (resolveRoute gs svcs)) = hostsOf g a := by
  constructor
  · rw [PipelineRefs.entries_eq, PipelineRefs.entries_eq]
    apply flatMap_congr'
    intro l hl
    apply flatMap_append_nil
    intro rt hrt
    obtain ⟨r, hr, rfl⟩ := List.mem_map.mp hrt
    exact (contrib_unattached hl gs svcs (h r hr)).1
  · rw [hostsOf_eq, hostsOf_eq]
    congr 1
    apply flatMap_congr'
    intro l hl
    apply flatMap_append_nil
    intro rt hrt
    obtain ⟨r, hr, rfl⟩ := List.mem_map.mp hrt
    exact (contrib_unattached hl gs svcs (h r hr)).2

/-- with the grants and Services of `c ∪ X` in any order, the rules of our routes in the graph resolve as in `c` -/
theorem resolveAction_of_foreign {c : ScenarioR} {x : XSet} (hf : Foreign c x) {gs' : List Grant} {svcs' : List Service}
    (hpg : (c.grants ++ x.grants).Perm gs') (hps : (c.services ++ x.services).Perm svcs') (hn : SvcKeysNodup svcs')
    {g : Gateway} (hw : winner (resolve c) = some g) {r : RouteR} (hr : r ∈ c.routes) (hin : inGraph g r = true)
    {ru : RuleR} (hru : ru ∈ r.rules) :
    resolveAction gs' svcs' r.ns ru.action = resolveAction c.grants c.services r.ns ru.action :=
  resolveAction_mixed hpg hps hn
    (fun _ ha ref href s hs => hf.services g hw r hr hin ref (mem_refsOf hru ha href) s hs)
    (fun _ ha ref href gr hgr => hf.grants g hw r hr hin ref (mem_refsOf hru ha href) gr hgr)

/-- X appended, its grants and Services mixed in anywhere: the SAME configuration -/
theorem genR_ext_with (c : ScenarioR) (x : XSet) (hf : Foreign c x) (gs' : List Grant) (svcs' : List Service)
    (hpg : (c.grants ++ x.grants).Perm gs') (hps : (c.services ++ x.services).Perm svcs') (hn : SvcKeysNodup svcs') :
    genR { ext c x with grants := gs', services := svcs' } = genR c := by
  have hw : winner (resolve { ext c x with grants := gs', services := svcs' }) = winner (resolve c) :=
    (winner_congr (s := resolve { ext c x with grants := gs', services := svcs' }) (t := resolve (ext c x))
      rfl rfl rfl rfl).trans (winner_ext c x hf.classes hf.gateways)
  unfold genR
  apply gen_congr hw
  · intro g hg
    rw [hw] at hg
    show entries g ((c.routes ++ x.routes).map (resolveRoute gs' svcs')) =
      entries g (c.routes.map (resolveRoute c.grants c.services))
    rw [List.map_append, (entries_append_unattached g gs' svcs' _ x.routes (hf.routes g hg)).1]
    apply entries_map_congr
    intro r hr l hl
    exact contrib_resolveRoute hl (fun hatt ru hru =>
      resolveAction_of_foreign hf hpg hps hn hg hr (attached_inGraph hatt) hru)
  · intro g hg
    rw [hw] at hg
    show hostsOf g ((c.routes ++ x.routes).map (resolveRoute gs' svcs')) =
      hostsOf g (c.routes.map (resolveRoute c.grants c.services))
    rw [List.map_append, (entries_append_unattached g gs' svcs' _ x.routes (hf.routes g hg)).2]
    apply hostsOf_map_congr
    intro r _ l _
    exact hostContrib_resolveRoute g l _ _ _ _ r

/-- X appended: the SAME configuration -/
theorem genR_ext (c : ScenarioR) (x : XSet) (hf : Foreign c x) (hn : SvcKeysNodup (c.services ++ x.services)) :
    genR (ext c x) = genR c :=
  genR_ext_with c x hf _ _ (List.Perm.refl _) (List.Perm.refl _) hn

theorem routeKeys_perm {a b : List Route} (hp : a.Perm b) (h : RouteKeysNodup b) : RouteKeysNodup a := by
  unfold RouteKeysNodup at h ⊢
  exact (hp.map _).nodup_iff.mpr h

/-- the scenario `c ∪ X` with X appended but the grants and Services in the order of `c'`, and `c'`, differ by a
reordering of GatewayClasses, Gateways and Routes only -/
theorem reordered_of_mixed {c : ScenarioR} {x : XSet} {c' : ScenarioR} (hm : Mixed c x c') :
    NGF.Props.C14Pipeline.Reordered (resolve { ext c x with grants := c'.grants, services := c'.services }) (resolve c') where
  cls := hm.cls
  ctlr := hm.ctlr
  classes := hm.classes
  gateways := hm.gateways
  routes := hm.routes.map _

/-- the served Gateway of `c ∪ X` (any order) is the served Gateway of `c` -/
theorem winner_mixed {c : ScenarioR} {x : XSet} {c' : ScenarioR} (hm : Mixed c x c') (hf : Foreign c x)
    (hk : KeyInj c'.gateways) : winner (resolve c') = winner (resolve c) := by
  have h1 := NGF.Props.C14Pipeline.winner_perm _ _ (reordered_of_mixed hm) (hk.perm hm.gateways.symm)
  rw [h1]
  exact (winner_congr (s := resolve { ext c x with grants := c'.grants, services := c'.services }) (t := resolve (ext c x))
    rfl rfl rfl rfl).trans (winner_ext c x hf.classes hf.gateways)

/-- **X anywhere: the same configuration up to the order of servers and locations** -/
theorem genR_mixed_equiv {c : ScenarioR} {x : XSet} {c' : ScenarioR} (hm : Mixed c x c') (hf : Foreign c x)
    (hk : KeyInj c'.gateways) (hrk : RouteKeysNodup (resolve c').routes) (hsk : SvcKeysNodup c'.services) :
    Conf.equiv (genR c) (genR c') := by
  have h1 : genR { ext c x with grants := c'.grants, services := c'.services } = genR c :=
    genR_ext_with c x hf _ _ hm.grants hm.services hsk
  rw [← h1]
  unfold genR
  have hr := reordered_of_mixed hm
  exact NGF.Props.C14Pipeline.gen_perm_equiv _ _ hr (hk.perm hm.gateways.symm) (routeKeys_perm hr.routes hrk)

/-- no match of a route of the cluster has an empty path -/
def PathsOKR (c : ScenarioR) : Prop := ∀ r ∈ c.routes, ∀ ru ∈ r.rules, ∀ m ∈ ru.ms, m.path ≠ []

theorem pathsOK_resolve {c : ScenarioR} (h : PathsOKR c) : PathsOK (resolve c).routes := by
  intro rt hrt rule hrule m hm
  obtain ⟨r, hr, rfl⟩ := List.mem_map.mp hrt
  obtain ⟨ru, hru, rfl⟩ := List.mem_map.mp hrule
  exact h r hr ru hru m hm

/-- **X anywhere: NGINX answers every request the same way** -/
theorem genR_mixed_meaning {c : ScenarioR} {x : XSet} {c' : ScenarioR} (hm : Mixed c x c') (hf : Foreign c x)
    (hk : KeyInj c'.gateways) (hrk : RouteKeysNodup (resolve c').routes) (hsk : SvcKeysNodup c'.services)
    (hp : PathsOKR c) : ∀ q, nginxEvalConf (genR c') q = nginxEvalConf (genR c) q := by
  intro q
  exact (equiv_meaning (genR_mixed_equiv hm hf hk hrk hsk) (gen_wf (resolve c) (pathsOK_resolve hp)) q).symm

/-! ### §5 referenced Services -/

theorem filterMap_congr' {α β} {l : List α} {f g : α → Option β} (h : ∀ a ∈ l, f a = g a) :
    l.filterMap f = l.filterMap g := by
  induction l with
  | nil => rfl
  | cons x xs ih =>
    simp only [List.filterMap_cons]
    rw [h x List.mem_cons_self, ih (fun a ha => h a (List.mem_cons_of_mem _ ha))]

theorem routeSvcNames_mixed {gs xg gs' : List Grant} (hp : (gs ++ xg).Perm gs') (r : RouteR)
    (hx : ∀ ref ∈ refsOf r, ∀ gr ∈ xg, grantSilent gr r.ns ref = true) :
    routeSvcNames gs' r = routeSvcNames gs r := by
  unfold routeSvcNames
  apply flatMap_congr'
  intro ru hru
  cases ha : ru.action with
  | redirect code sch h p => rfl
  | forward refs =>
    simp only
    apply filterMap_congr'
    intro ref href
    rw [routeRefVerdict_mixed hp (hx ref (mem_refsOf hru ha href))]

/-- **`Graph.ReferencedServices` of `c ∪ X` (any order) = that of `c`, up to order** — provided no route of X is in
the graph on behalf of the served Gateway (a route naming our Gateway with an unknown section configures nothing but IS
in the graph: the code tracks its Services; see `unknown_section_route_is_tracked`). -/
theorem referencedServices_mixed {c : ScenarioR} {x : XSet} {c' : ScenarioR} (hm : Mixed c x c') (hf : Foreign c x)
    (hk : KeyInj c'.gateways) (hx : ∀ g, winner (resolve c) = some g → ∀ r ∈ x.routes, inGraph g r = false) :
    (referencedServices c').Perm (referencedServices c) := by
  unfold referencedServices
  rw [winner_mixed hm hf hk]
  cases hw : winner (resolve c) with
  | none => exact List.Perm.refl _
  | some g =>
    simp only
    have e1 : ((c.routes ++ x.routes).filter fun r => r.valid && belongsTo g r) =
        c.routes.filter fun r => r.valid && belongsTo g r := by
      rw [List.filter_append]
      have : (x.routes.filter fun r => r.valid && belongsTo g r) = [] := by
        rw [List.filter_eq_nil_iff]
        intro r hr
        have := hx g hw r hr
        unfold inGraph at this
        simp [this]
      rw [this, List.append_nil]
    have p1 : ((c'.routes.filter fun r => r.valid && belongsTo g r).flatMap (routeSvcNames c'.grants)).Perm
        ((c.routes.filter fun r => r.valid && belongsTo g r).flatMap (routeSvcNames c'.grants)) := by
      rw [← e1]
      exact ((hm.routes.symm.filter _).flatMap_right _)
    refine p1.trans ?_
    rw [flatMap_congr' (l := c.routes.filter fun r => r.valid && belongsTo g r)
      (f := routeSvcNames c'.grants) (g := routeSvcNames c.grants)]
    intro r hr
    have hr' := List.mem_filter.mp hr
    exact routeSvcNames_mixed hm.grants r (fun ref href gr hgr => hf.grants g hw r hr'.1 hr'.2 ref href gr hgr)

/-! ### the executable hypotheses are sound -/

theorem mixed_of_mixedB {c : ScenarioR} {x : XSet} {c' : ScenarioR} (h : mixedB c x c' = true) : Mixed c x c' := by
  unfold mixedB at h
  simp only [Bool.and_eq_true, beq_iff_eq, List.isPerm_iff] at h
  obtain ⟨⟨⟨⟨⟨⟨h1, h2⟩, h3⟩, h4⟩, h5⟩, h6⟩, h7⟩ := h
  exact ⟨h1, h2, h3, h4, h5, h6, h7⟩

theorem keys_of_keysB {c c' : ScenarioR} (h : keysB c c' = true) :
    KeyInj c'.gateways ∧ RouteKeysNodup (resolve c').routes ∧ SvcKeysNodup c'.services ∧ PathsOKR c := by
  unfold keysB at h
  simp only [Bool.and_eq_true] at h
  obtain ⟨⟨⟨h1, h2⟩, h3⟩, h4⟩ := h
  refine ⟨NGF.Props.C14Pipeline.keyInj_of_nodup _ h1, ?_, ?_, ?_⟩
  · unfold RouteKeysNodup
    unfold nodup at h2
    exact nodup_of_eraseDups_length (by simpa using h2)
  · unfold SvcKeysNodup
    unfold nodup at h3
    exact nodup_of_eraseDups_length (by simpa using h3)
  · intro r hr ru hru m hm he
    simp only [List.all_eq_true] at h4
    have := h4 r hr ru hru m hm
    simp [he] at this

/-- the theorem in the form the driver evaluates it: all hypotheses as ONE executable check -/
theorem genR_meaning_of_hypsB {c : ScenarioR} {x : XSet} {c' : ScenarioR} (h : hypsB c x c' = true) :
    (∀ q, nginxEvalConf (genR c') q = nginxEvalConf (genR c) q) ∧ Conf.equiv (genR c) (genR c') := by
  unfold hypsB at h
  simp only [Bool.and_eq_true] at h
  obtain ⟨⟨hm, hf⟩, hk⟩ := h
  obtain ⟨k1, k2, k3, k4⟩ := keys_of_keysB hk
  exact ⟨genR_mixed_meaning (mixed_of_mixedB hm) (foreign_of_foreignB hf) k1 k2 k3 k4,
    genR_mixed_equiv (mixed_of_mixedB hm) (foreign_of_foreignB hf) k1 k2 k3⟩

/-! ### what makes a route foreign, syntactically -/

/-- every parentRef names another (or an unknown) Gateway, or a section the served Gateway does not have -/
theorem unattached_of_parents_elsewhere {g : Gateway} {r : RouteR}
    (h : ∀ p ∈ r.parents, (p.ns == g.ns && p.name == g.name) = false ∨
      ∃ sn, p.sectionName = some sn ∧ ∀ l ∈ g.listeners, (sn == l.name) = false) : attached g r = false := by
  unfold attached
  cases hv : r.valid with
  | false => rfl
  | true =>
    rw [Bool.true_and, List.any_eq_false]
    intro l hl
    have : refersTo g l (shell r) = false := by
      unfold refersTo
      rw [List.any_eq_false]
      intro p hp
      have hp' : p ∈ r.parents := hp
      rcases h p hp' with h1 | ⟨sn, h1, h2⟩
      · simp [h1]
      · simp [h1, h2 l hl]
    unfold acceptedAtR acceptedAt
    simp [this]

/-- the route lives in another namespace and no listener of the served Gateway admits other namespaces -/
theorem unattached_of_namespace {g : Gateway} {r : RouteR} (hns : (r.ns.toList == g.ns) = false)
    (hsame : ∀ l ∈ g.listeners, l.fromAll = false) : attached g r = false := by
  unfold attached
  cases hv : r.valid with
  | false => rfl
  | true =>
    rw [Bool.true_and, List.any_eq_false]
    intro l hl
    have : nsAllowed g l (shell r) = false := by
      unfold nsAllowed
      have e : (shell r).ns = r.ns.toList := rfl
      rw [e, hsame l hl, hns]; rfl
    unfold acceptedAtR acceptedAt
    simp [this]

end NGF.PipelineForeign
