/-
Well-formedness of the SSL half of `renderT` (Model/RenderTls), by the invariant technique of Proofs/RenderWF*:
directive views of `renderSsl`, (listen, server_name) pairs, locations, match keys `SSL_<i>_<j>`, listen arguments.
Core Lean only.
-/
import NGF.Proofs.RenderTls

namespace NGF.RenderTls
open NGF.Pipeline NGF.PipelineTls NGF.Render NGF.Nginx NGF.Mangle

/-! ### generic: pairs of a duplicate-free list of (port, name) -/

theorem pairsOf_nodup {items : List (Nat × Str)} (h : items.Nodup) : (items.flatMap pairsOf).Nodup := by
  apply nodup_flatMap
  · intro a _
    simp only [pairsOf, List.nodup_cons, List.mem_singleton, Prod.mk.injEq, List.not_mem_nil, not_false_eq_true,
      List.nodup_nil, and_true]
    intro e
    have := (lk_inj e).1
    simp at this
  · refine pairwise_of_nodup_inj h ?_
    intro a _ b _ hne x hx y hy e
    simp only [pairsOf, List.mem_cons, List.mem_nil_iff, or_false] at hx hy
    apply hne
    rcases hx with rfl | rfl <;> rcases hy with rfl | rfl <;>
      (simp only [Prod.mk.injEq] at e; exact Prod.ext (lk_inj e.1).2 e.2)

theorem mem_pairsOf_flatMap {items : List (Nat × Str)} {x : List Char × List Char} (h : x ∈ items.flatMap pairsOf) :
    ∃ u, ∃ pn ∈ items, x = (lk u pn.1, pn.2) := by
  obtain ⟨pn, hpn, hx⟩ := List.mem_flatMap.mp h
  simp only [pairsOf, List.mem_cons, List.mem_nil_iff, or_false] at hx
  rcases hx with rfl | rfl
  · exact ⟨false, pn, hpn, rfl⟩
  · exact ⟨true, pn, hpn, rfl⟩

/-! ### directive view of an SSL server -/

theorem sslListens_names (p : Nat) (extra : List String) : ∀ d ∈ sslListens p extra, d.name = "listen".toList := by
  intro d hd
  simp only [sslListens, List.mem_cons, List.mem_nil_iff, or_false] at hd
  rcases hd with rfl | rfl <;> rfl

/-- the head of an SSL server block: listens, certificate, SNI guard -/
def sslHead (sv : SslR) : List Dir :=
  match sv.kp with
  | some id => sslListens sv.port [] ++ [dir "ssl_certificate" [wl (pemFile id)], dir "ssl_certificate_key" [wl (pemFile id)], sniGuard]
  | none => listenDirs sv.port []

theorem renderSsl_body (sv : SslR) : body (renderSsl sv) = sslHead sv ++ [dir "server_name" [wl sv.name]] ++ sslLocs sv := by
  unfold sslHead
  cases hk : sv.kp <;> simp [renderSsl, sslLocs, hk, List.append_assoc]

/-- the listen directives of an SSL server -/
def sslListenDirs (sv : SslR) : List Dir :=
  match sv.kp with
  | some _ => sslListens sv.port []
  | none => listenDirs sv.port []

theorem named_listen_sslHead (sv : SslR) : named "listen" (sslHead sv) = sslListenDirs sv := by
  unfold sslHead sslListenDirs
  cases sv.kp with
  | none =>
    unfold named
    rw [List.filter_eq_self]
    intro d hd; simp [listenDirs_names _ _ d hd]
  | some id =>
    rw [named_append,
      named_eq_nil (l := [dir "ssl_certificate" [wl (pemFile id)], dir "ssl_certificate_key" [wl (pemFile id)], sniGuard]) (fun d hd => by
        simp only [List.mem_cons, List.mem_nil_iff, or_false] at hd
        rcases hd with rfl | rfl | rfl
        · rw [dir_name]; decide
        · rw [dir_name]; decide
        · decide)]
    simp only [List.append_nil]
    unfold named
    rw [List.filter_eq_self]
    intro d hd; simp [sslListens_names _ _ d hd]

theorem sslHead_not {n : String} (hn1 : n.toList ≠ "listen".toList) (hn2 : n.toList ≠ "ssl_certificate".toList)
    (hn3 : n.toList ≠ "ssl_certificate_key".toList) (hn4 : n.toList ≠ "if".toList) (sv : SslR) : named n (sslHead sv) = [] := by
  apply named_eq_nil
  intro d hd
  unfold sslHead at hd
  cases hk : sv.kp with
  | none => rw [hk] at hd; rw [listenDirs_names _ _ d hd]; exact fun e => hn1 e.symm
  | some id =>
    rw [hk] at hd
    simp only [List.mem_append, List.mem_cons, List.mem_nil_iff, or_false] at hd
    rcases hd with hd | rfl | rfl | rfl
    · rw [sslListens_names _ _ d hd]; exact fun e => hn1 e.symm
    · exact fun e => hn2 e.symm
    · exact fun e => hn3 e.symm
    · exact fun e => hn4 e.symm

theorem listens_of_renderSsl (sv : SslR) : named "listen" (body (renderSsl sv)) = sslListenDirs sv := by
  rw [renderSsl_body, named_append, named_append, named_listen_sslHead,
    named_eq_nil (l := sslLocs sv) (fun d hd => by rw [mem_sslLocs_name hd]; decide),
    named_eq_nil (l := [dir "server_name" [wl sv.name]]) (fun d hd => by rw [List.mem_singleton.mp hd, dir_name]; decide)]
  simp

theorem names_of_renderSsl (sv : SslR) : named "server_name" (body (renderSsl sv)) = [dir "server_name" [wl sv.name]] := by
  rw [renderSsl_body, named_append, named_append,
    sslHead_not (by decide) (by decide) (by decide) (by decide),
    named_eq_nil (l := sslLocs sv) (fun d hd => by rw [mem_sslLocs_name hd]; decide)]
  rfl

theorem sslListenDirs_arg0 (sv : SslR) : (sslListenDirs sv).map arg0 = [lk false sv.port, lk true sv.port] := by
  unfold sslListenDirs
  cases sv.kp <;> simp [sslListens, listenDirs, arg0, wl, lk]

theorem srvPairs_ssl (sv : SslR) : srvPairs (renderSsl sv) = pairsOf (sv.port, sv.name) := by
  unfold srvPairs
  rw [listens_of_renderSsl, names_of_renderSsl, sslListenDirs_arg0]
  simp [pairsOf, wl]

theorem srvPairs_sslDefault (p : Nat) : srvPairs (renderSslDefault p) = pairsOf (p, []) := rfl

/-! ### (listen, server_name) pairs of the SSL servers -/

def sslPairItems (c : ConfTR) : List (Nat × Str) :=
  c.sslDefaults.map (fun d => (d.1, ([] : Str))) ++ c.ssl.map fun sv => (sv.port, sv.name)

theorem sslPairs_perm (c : ConfTR) : ((sslDirs c).flatMap srvPairs).Perm ((sslPairItems c).flatMap pairsOf) := by
  refine ((sslDirs_perm c).flatMap_right srvPairs).trans ?_
  have e : ((sslItems c).map (·.2)).flatMap srvPairs = (sslPairItems c).flatMap pairsOf := by
    simp only [sslItems, sslPairItems, List.map_append, List.map_map, Function.comp_def, List.flatMap_append, List.flatMap_map,
      srvPairs_sslDefault, srvPairs_ssl]
  rw [e]

/-- what the distinctness of SSL (listen, server_name) pairs rests on -/
structure GoodSslNames (c : ConfTR) : Prop where
  defaults_nodup : (c.sslDefaults.map (·.1)).Nodup
  names_nodup : (c.ssl.map fun sv => (sv.port, sv.name)).Nodup
  name_ne : ∀ sv ∈ c.ssl, sv.name ≠ []

theorem sslPairItems_nodup {c : ConfTR} (h : GoodSslNames c) : (sslPairItems c).Nodup := by
  unfold sslPairItems
  rw [List.nodup_append]
  refine ⟨?_, h.names_nodup, ?_⟩
  · have : c.sslDefaults.map (fun d => (d.1, ([] : Str))) = (c.sslDefaults.map (·.1)).map fun p => (p, ([] : Str)) := by
      simp [List.map_map, Function.comp_def]
    rw [this]
    exact nodup_map_of_inj (fun a _ b _ e => by simpa using e) h.defaults_nodup
  · intro a ha b hb e
    obtain ⟨d, _, rfl⟩ := List.mem_map.mp ha
    obtain ⟨sv, hsv, rfl⟩ := List.mem_map.mp hb
    simp only [Prod.mk.injEq] at e
    exact h.name_ne sv hsv e.2.symm

theorem sslPairs_nodup {c : ConfTR} (h : GoodSslNames c) : ((sslDirs c).flatMap srvPairs).Nodup := by
  rw [(sslPairs_perm c).nodup_iff]
  exact pairsOf_nodup (sslPairItems_nodup h)

/-! ### `GoodSslNames` for `genTR` -/

theorem genR_dports_nodup (s : Scenario) (order : List Nat) : ((genR s order).dports.map (·.1)).Nodup := by
  unfold genR
  cases winner s with
  | none => simp
  | some g =>
    simp only [List.map_map, Function.comp_def, List.map_id']
    exact nodup_eraseDups _

theorem serverName_ne_nil (h : Str) : serverName h ≠ [] := by
  unfold serverName
  cases h <;> simp [Hostname.wildcardHostname]

theorem goodSslNames_genTR {s : ScenarioT} (order orderS : List Nat) (hf : inFragment (httpsPart s) = true)
    (hd : noDupSsl (genTR s order orderS) = true) : GoodSslNames (genTR s order orderS) := by
  refine ⟨?_, nodup_of_nodupB hd, ?_⟩
  · unfold genTR
    cases winnerT s with
    | none => simp
    | some gT =>
      simp only [List.map_map, Function.comp_def, List.map_id']
      exact genR_dports_nodup _ _
  · unfold genTR
    cases winnerT s with
    | none => simp
    | some gT =>
      intro sv hsv
      simp only [List.mem_append, List.mem_map] at hsv
      rcases hsv with ⟨rs, hrs, rfl⟩ | ⟨e, he, rfl⟩
      · exact (goodServers_genR orderS hf rs hrs).name_ne
      · simp only [listenerOnlyR, List.mem_map] at he
        obtain ⟨l, _, rfl⟩ := he
        exact serverName_ne_nil _

/-! ### locations of an SSL server -/

/-- the path rules of an SSL server seen as a server of Model/Render (same rules, name, root) -/
def SslR.toR (sv : SslR) : RServer := { sid := sv.sid, port := sv.port, name := sv.name, rules := sv.rules, root404 := sv.root404 }

theorem renderRuleK_block {key : Nat → List Char} {r : RRule} {d : Dir} (h : d ∈ renderRuleK key r) : d.block.isSome = true := by
  unfold renderRuleK at h
  cases hact : r.act with
  | direct a =>
    simp only [hact, List.mem_map] at h
    obtain ⟨k, _, rfl⟩ := h; rfl
  | njs ms =>
    simp only [hact, List.mem_append, List.mem_map] at h
    rcases h with ⟨k, _, rfl⟩ | ⟨jm, _, rfl⟩ <;> rfl

theorem mem_sslLocs_block {sv : SslR} {d : Dir} (h : d ∈ sslLocs sv) : d.block.isSome = true := by
  unfold sslLocs at h
  rcases List.mem_append.mp h with h | h
  · obtain ⟨r, _, hd⟩ := List.mem_flatMap.mp h
    exact renderRuleK_block hd
  · by_cases hr : sv.root404 = true
    · simp only [hr, ↓reduceIte, List.mem_singleton] at h
      subst h; rfl
    · simp [hr] at h

theorem blocksNamed_location_sslHead (sv : SslR) : blocksNamed "location" (sslHead sv) = [] := by
  apply blocksNamed_eq_nil
  intro d hd
  unfold sslHead at hd
  cases hk : sv.kp with
  | none => rw [hk] at hd; rw [listenDirs_names _ _ d hd]; decide
  | some id =>
    rw [hk] at hd
    simp only [List.mem_append, List.mem_cons, List.mem_nil_iff, or_false] at hd
    rcases hd with hd | rfl | rfl | rfl
    · rw [sslListens_names _ _ d hd]; decide
    · rw [dir_name]; decide
    · rw [dir_name]; decide
    · decide

theorem locs_of_renderSsl (sv : SslR) : blocksNamed "location" (body (renderSsl sv)) = sslLocs sv := by
  rw [renderSsl_body, blocksNamed_append, blocksNamed_append, blocksNamed_location_sslHead,
    blocksNamed_eq_nil (l := [dir "server_name" [wl sv.name]]) (fun d hd => by rw [List.mem_singleton.mp hd, dir_name]; decide),
    blocksNamed_eq_self (fun d hd => ⟨mem_sslLocs_name hd, mem_sslLocs_block hd⟩)]
  rfl

theorem renderRuleK_keys (key : Nat → List Char) (r : RRule) : (renderRuleK key r).map locKeyL = ruleKeys r := by
  unfold renderRuleK ruleKeys intKeys
  cases r.act with
  | direct a => simp [List.map_map, Function.comp_def, locKeyL_ext]
  | njs ms => simp [List.map_map, Function.comp_def, locKeyL_ext, locKeyL_internal]

/-- per SSL server no two locations share (modifier, path) -/
theorem sslKeys_nodup {sv : SslR} (hs : GoodServer sv.toR) : ((sslLocs sv).map locKeyL).Nodup := by
  unfold sslLocs
  rw [List.map_append, List.map_flatMap]
  simp only [renderRuleK_keys]
  have hperm : ((sortRules sv.rules).flatMap ruleKeys).Perm (sv.rules.flatMap ruleKeys) :=
    (sortRules_perm sv.rules).flatMap_right _
  rw [(hperm.append_right _).nodup_iff, List.nodup_append]
  refine ⟨allKeys_nodup (sv := sv.toR) hs, ?_, ?_⟩
  · by_cases hr : sv.root404 = true <;> simp [hr]
  · intro x hx y hy e
    by_cases hr : sv.root404 = true
    · simp only [hr, ↓reduceIte, List.map_cons, List.map_nil, List.mem_singleton, locKeyL_root] at hy
      subst hy; subst e
      exact rootKey_not_mem (sv := sv.toR) hs hr hx
    · simp [hr] at hy

theorem goodServer_listenerOnly {sid port : Nat} {name : Str} {kp : Option (List Char)} (hn : name ≠ []) :
    GoodServer (SslR.toR { sid := sid, port := port, name := name, kp := kp, rules := [], root404 := true }) :=
  ⟨hn, by simp [SslR.toR], by simp [SslR.toR], by simp [SslR.toR], by simp [SslR.toR]⟩

theorem goodSslServers_genTR {s : ScenarioT} (order orderS : List Nat) (hf : inFragment (httpsPart s) = true) :
    ∀ sv ∈ (genTR s order orderS).ssl, GoodServer sv.toR := by
  unfold genTR
  cases winnerT s with
  | none => simp
  | some gT =>
    intro sv hsv
    simp only [List.mem_append, List.mem_map] at hsv
    rcases hsv with ⟨rs, hrs, rfl⟩ | ⟨e, he, rfl⟩
    · have h := goodServers_genR orderS hf rs hrs
      exact ⟨h.name_ne, h.idx_inj, h.ext_nodup, h.ext_shape, h.root_free⟩
    · simp only [listenerOnlyR, List.mem_map] at he
      obtain ⟨l, _, rfl⟩ := he
      exact goodServer_listenerOnly (serverName_ne_nil _)

/-! ### listen arguments of the SSL servers -/

theorem listenFlag_ssl : NGF.WF.listenFlagOK ['s', 's', 'l'] = true := by decide

theorem listenIssue_ssl (u : Bool) {p : Nat} (h1 : 1 ≤ p) (h2 : p ≤ 65535) :
    listenIssue (dir "listen" [wl (lk u p), w "ssl"]) = [] := by
  simp [listenIssue, NGF.WF.listenWhy, wl, w, listenAddrOK_lk u h1 h2, listenFlag_ssl]

theorem listenIssue_ssl_default (u : Bool) {p : Nat} (h1 : 1 ≤ p) (h2 : p ≤ 65535) :
    listenIssue (dir "listen" [wl (lk u p), w "ssl", w "default_server"]) = [] := by
  simp [listenIssue, NGF.WF.listenWhy, wl, w, listenAddrOK_lk u h1 h2, listenFlag_ssl, listenFlag_default]

theorem sslListens_eq (p : Nat) (extra : List String) :
    sslListens p extra = [dir "listen" (wl (lk false p) :: w "ssl" :: extra.map w), dir "listen" (wl (lk true p) :: w "ssl" :: extra.map w)] := by
  simp [sslListens, lk]

theorem listenIssues_renderSsl (sv : SslR) (h1 : 1 ≤ sv.port) (h2 : sv.port ≤ 65535) :
    (named "listen" (body (renderSsl sv))).flatMap listenIssue = [] := by
  rw [listens_of_renderSsl]
  unfold sslListenDirs
  cases sv.kp with
  | none => rw [listenDirs_eq]; simp [listenIssue_plain _ h1 h2]
  | some id => rw [sslListens_eq]; simp [listenIssue_ssl _ h1 h2]

theorem listenIssues_sslDefault (p : Nat) (h1 : 1 ≤ p) (h2 : p ≤ 65535) :
    (named "listen" (body (renderSslDefault p))).flatMap listenIssue = [] := by
  have : named "listen" (body (renderSslDefault p)) = sslListens p ["default_server"] := rfl
  rw [this, sslListens_eq]
  simp [listenIssue_ssl_default _ h1 h2]

end NGF.RenderTls
