/-
Lexing the printed text of a tree whose words may contain backslashes (Model/PrintEsc `dirsOKw`): the text is tokenised
with the skeleton of the intended token stream (`lex_printDirs_w`); the words themselves are the unescaped ones.
Core Lean only.
-/
import NGF.Model.PrintEsc
import NGF.Proofs.PrintLex
import NGF.Proofs.InjCompose

namespace NGF.Print
open NGF.Nginx

/-! ### the word predicates -/

theorem inert_of_escOK : ∀ (a : List Char), escOK a = true → Inert .dq a
  | [], _ => .nil
  | [c], h => by
    simp only [escOK, Bool.not_eq_true', Bool.or_eq_false_iff, beq_eq_false_iff_ne, ne_eq] at h
    exact .plain (by simp [isTerm, h.1]) h.2 .nil
  | c :: d :: t, h => by
    simp only [escOK] at h
    split at h
    · rename_i hc
      have : c = '\\' := by simpa using hc
      subst this
      exact .esc (inert_of_escOK t h)
    · rename_i hc
      simp only [Bool.and_eq_true, Bool.not_eq_true', beq_eq_false_iff_ne, ne_eq] at h
      exact .plain (by simp [isTerm, h.1]) (by simpa using hc) (inert_of_escOK (d :: t) h.2)

theorem escOK_of_inert {a : List Char} (h : Inert .dq a) : escOK a = true := by
  induction h with
  | nil => rfl
  | @plain c t ht hb _ ih =>
    have hq : c ≠ '"' := by simpa [isTerm] using ht
    cases t with
    | nil => simp [escOK, hq, hb]
    | cons d t' => simp [escOK, hq, hb, ih]
  | @esc c t _ ih => simp [escOK, ih]

theorem escOK_of_dqOK {a : List Char} (h : dqOK a = true) : escOK a = true := escOK_of_inert (dqOK_facts h).1

theorem escOK_append {a b : List Char} (ha : escOK a = true) (hb : escOK b = true) : escOK (a ++ b) = true :=
  escOK_of_inert (NGF.Inj.inert_append (inert_of_escOK a ha) (inert_of_escOK b hb))

theorem looseChar_of_tailChar {c : Char} (h : tailChar c = true) : looseChar c = true := by
  simp only [tailChar, Bool.not_eq_true', Bool.or_eq_false_iff] at h
  simp only [looseChar, Bool.not_eq_true', Bool.or_eq_false_iff]
  exact h.1

theorem looseOK_of_bareOK {a : List Char} (h : bareOK a = true) : looseOK a = true := by
  cases a with
  | nil => simp [bareOK] at h
  | cons c t =>
    simp only [bareOK, Bool.and_eq_true, List.all_eq_true] at h
    simp only [looseOK, Bool.and_eq_true, List.all_eq_true]
    exact ⟨h.1, fun x hx => looseChar_of_tailChar (h.2 x hx)⟩

theorem argOKw_of_argOK {a : Arg} (h : argOK a = true) : argOKw a = true := by
  obtain ⟨v, q⟩ := a
  cases q with
  | false => simpa [argOK, argOKw] using h
  | true => simp only [argOK, if_true] at h; simpa [argOKw] using escOK_of_dqOK h

theorem lastOKw_of_argOKw {a : Arg} (h : argOKw a = true) : lastOKw a = true := by
  obtain ⟨v, q⟩ := a
  cases q with
  | false => simp only [argOKw, Bool.false_eq_true, if_false] at h; simpa [lastOKw] using looseOK_of_bareOK h
  | true => simpa [argOKw, lastOKw] using h

theorem headOKw_of_all : ∀ {args : List Arg}, args.all argOKw = true → headOKw args = true
  | [], _ => rfl
  | [a], h => by
    simp only [List.all_cons, List.all_nil, Bool.and_true] at h
    simpa [headOKw] using lastOKw_of_argOKw h
  | a :: b :: r, h => by
    simp only [List.all_cons, Bool.and_eq_true] at h
    simp only [headOKw, Bool.and_eq_true]
    exact ⟨h.1, headOKw_of_all (by simp [h.2])⟩

mutual
/-- the strict predicate implies the weak one -/
theorem dirOKw_of_dirOK : ∀ (d : Dir), dirOK d = true → dirOKw d = true
  | .mk n args none, h => by
    simp only [dirOK, Bool.and_eq_true, List.all_eq_true] at h
    simp only [dirOKw, Bool.and_eq_true, List.all_eq_true]
    exact ⟨h.1, fun a ha => argOKw_of_argOK (h.2 a ha)⟩
  | .mk n args (some ch), h => by
    simp only [dirOK, Bool.and_eq_true, List.all_eq_true] at h
    simp only [dirOKw, Bool.and_eq_true]
    exact ⟨⟨h.1.1, headOKw_of_all (List.all_eq_true.mpr fun a ha => argOKw_of_argOK (h.1.2 a ha))⟩, dirsOKw_of_dirsOK ch h.2⟩
theorem dirsOKw_of_dirsOK : ∀ (ds : List Dir), dirsOK ds = true → dirsOKw ds = true
  | [], _ => rfl
  | d :: ds, h => by
    simp only [dirsOK, Bool.and_eq_true] at h
    simp only [dirsOKw, Bool.and_eq_true]
    exact ⟨dirOKw_of_dirOK d h.1, dirsOKw_of_dirsOK ds h.2⟩
end

theorem dirsOKw_iff (ds : List Dir) : dirsOKw ds = true ↔ ∀ d ∈ ds, dirOKw d = true := by
  induction ds with
  | nil => simp [dirsOKw]
  | cons d ds ih => simp [dirsOKw, ih]

/-! ### words -/

/-- a word that is not the last of a block head, followed by a space or `;`: one word token of the same quotedness -/
theorem lexFrom_word_w {a : Arg} (ha : argOKw a = true) {c : Char} (hc : c = ' ' ∨ c = ';') (k : Nat) (post : List Char) :
    ∃ w, lexFrom (Sk k) (printArg a ++ c :: post) =
      prepend (Tok.word w a.2 :: sepToks c) (lexFrom (sepState k c) post) := by
  obtain ⟨v, q⟩ := a
  cases q with
  | false =>
    have : argOK (v, false) = true := by simpa [argOK, argOKw] using ha
    exact ⟨v, lexFrom_word this hc k post⟩
  | true =>
    simp only [argOKw, if_true] at ha
    have hi := inert_of_escOK v ha
    refine ⟨unescape v, ?_⟩
    simp only [printArg, if_true]
    have h0 : step (Sk k) '"' = .ok (Dk k, []) := by simp [step, Sk, Dk, isWs]
    have hq : lexFrom (Dk k) (v ++ '"' :: c :: post) =
        prepend [.word (unescape v) true] (lexFrom (Nk (k + 1)) (c :: post)) :=
      hole_dquoted (st := Dk k) (v := v) (post := c :: post) rfl rfl hi
    rw [List.cons_append, lexFrom_cons_ok h0, List.append_assoc, List.singleton_append, hq, prepend_prepend]
    rcases hc with rfl | rfl
    · have h1 : step (Nk (k + 1)) ' ' = .ok (Sk (k + 1), []) := by simp [step, Sk, Nk, isWs]
      rw [lexFrom_cons_ok h1, prepend_prepend]; rfl
    · have h1 : step (Nk (k + 1)) ';' = .ok (Sk 0, [.semi]) := by simp [step, Sk, Nk, isWs]
      rw [lexFrom_cons_ok h1, prepend_prepend]; rfl

/-- the last word of a block head and the template's ` {`: one word token and the opening brace -/
theorem lexFrom_last_w {a : Arg} (ha : lastOKw a = true) (k : Nat) (post : List Char) :
    ∃ w, lexFrom (Sk k) (printArg a ++ ' ' :: '{' :: post) = prepend [Tok.word w a.2, .open] (lexFrom (Sk 0) post) := by
  obtain ⟨v, q⟩ := a
  cases q with
  | true =>
    obtain ⟨w, hw⟩ := lexFrom_word_w (a := (v, true)) (by simpa [lastOKw, argOKw] using ha) (c := ' ') (.inl rfl) k
      ('{' :: post)
    refine ⟨w, ?_⟩
    have e : sepState k ' ' = Sk (k + 1) := rfl
    have e2 : sepToks ' ' = [] := rfl
    rw [hw, e, e2, lexFrom_cons_ok (step_open k), prepend_prepend]
    rfl
  | false =>
    simp only [lastOKw, Bool.false_eq_true, if_false] at ha
    cases v with
    | nil => simp [looseOK] at ha
    | cons c t =>
      simp only [looseOK, Bool.and_eq_true, List.all_eq_true] at ha
      have ht : ∀ c' ∈ t, isTerm .bare c' = false := by
        intro c' hc'
        have := ha.2 c' hc'
        simp only [looseChar, Bool.not_eq_true'] at this
        simpa [isTerm] using this
      obtain ⟨w, hw, _⟩ := hole_bare_path_open (st := Sk k) (c := c) (t := t) (post := post) rfl rfl ha.1 ht
      have e : ({ Sk k with mode := .space, dollar := false, cur := [], pending := 0 } : LexSt) = Sk 0 := rfl
      rw [e] at hw
      exact ⟨w, by simpa [printArg] using hw⟩

theorem shape_word (w v : List Char) (q : Bool) : Tok.shape (.word w q) = Tok.shape (.word v q) := rfl

/-- the words of a simple directive -/
theorem lexFrom_words_w : ∀ (ws : List Arg), ws ≠ [] → ws.all argOKw = true → ∀ {c : Char}, c = ' ' ∨ c = ';' →
    ∀ (k : Nat) (post : List Char),
      ∃ ts, lexFrom (Sk k) (printWords ws (c :: post)) =
          prepend (ts ++ sepToks c) (lexFrom (sepState (k + ws.length - 1) c) post) ∧
        skeleton ts = skeleton (ws.map argTok)
  | [], h, _, _, _, _, _ => absurd rfl h
  | [a], _, hok, c, hc, k, post => by
    simp only [List.all_cons, List.all_nil, Bool.and_true] at hok
    obtain ⟨w, hw⟩ := lexFrom_word_w hok hc k post
    exact ⟨[.word w a.2], by simpa [printWords] using hw, rfl⟩
  | a :: b :: r, _, hok, c, hc, k, post => by
    simp only [List.all_cons, Bool.and_eq_true] at hok
    obtain ⟨ts, ih, hsk⟩ := lexFrom_words_w (b :: r) (by simp) (by simp [hok.2]) hc (k + 1) post
    obtain ⟨w, hw⟩ := lexFrom_word_w hok.1 (c := ' ') (.inl rfl) k (printWords (b :: r) (c :: post))
    have e : sepState k ' ' = Sk (k + 1) := rfl
    have e2 : sepToks ' ' = [] := rfl
    have pw : printWords (a :: b :: r) (c :: post) = printArg a ++ ' ' :: printWords (b :: r) (c :: post) := rfl
    refine ⟨.word w a.2 :: ts, ?_, ?_⟩
    · rw [pw, hw, e, e2, ih, prepend_prepend]
      have : k + 1 + (b :: r).length - 1 = k + (a :: b :: r).length - 1 := by simp; omega
      rw [this]
      simp
    · simp only [skeleton, List.map_cons] at hsk ⊢
      rw [hsk]; rfl

/-- the words of a block head, up to and including the opening brace -/
theorem lexFrom_head_w : ∀ (ws : List Arg), ws ≠ [] → headOKw ws = true → ∀ (k : Nat) (post : List Char),
    ∃ ts, lexFrom (Sk k) (printWords ws (' ' :: '{' :: post)) = prepend (ts ++ [.open]) (lexFrom (Sk 0) post) ∧
      skeleton ts = skeleton (ws.map argTok)
  | [], h, _, _, _ => absurd rfl h
  | [a], _, hok, k, post => by
    simp only [headOKw] at hok
    obtain ⟨w, hw⟩ := lexFrom_last_w hok k post
    exact ⟨[.word w a.2], by simpa [printWords] using hw, rfl⟩
  | a :: b :: r, _, hok, k, post => by
    simp only [headOKw, Bool.and_eq_true] at hok
    obtain ⟨ts, ih, hsk⟩ := lexFrom_head_w (b :: r) (by simp) hok.2 (k + 1) post
    obtain ⟨w, hw⟩ := lexFrom_word_w hok.1 (c := ' ') (.inl rfl) k (printWords (b :: r) (' ' :: '{' :: post))
    have e : sepState k ' ' = Sk (k + 1) := rfl
    have e2 : sepToks ' ' = [] := rfl
    have pw : printWords (a :: b :: r) (' ' :: '{' :: post) =
        printArg a ++ ' ' :: printWords (b :: r) (' ' :: '{' :: post) := rfl
    refine ⟨.word w a.2 :: ts, ?_, ?_⟩
    · rw [pw, hw, e, e2, ih, prepend_prepend]
      simp
    · simp only [skeleton, List.map_cons] at hsk ⊢
      rw [hsk]; rfl

/-! ### directives and blocks -/

theorem skeleton_append (a b : List Tok) : skeleton (a ++ b) = skeleton a ++ skeleton b := by simp [skeleton]

mutual
theorem lexFrom_printDir_w : ∀ (d : Dir), dirOKw d = true → ∀ (post : List Char),
    ∃ ts, lexFrom (Sk 0) (printDir d ++ post) = prepend ts (lexFrom (Sk 0) post) ∧ skeleton ts = skeleton (dirToks d)
  | .mk n args none, h, post => by
    simp only [dirOKw, Bool.and_eq_true] at h
    obtain ⟨ts, hw, hsk⟩ := lexFrom_words_w ((n, false) :: args) (by simp) (by simp [argOKw, h.1, h.2]) (c := ';')
      (.inr rfl) 0 ('\n' :: post)
    have e1 : sepState (0 + ((n, false) :: args).length - 1) ';' = Sk 0 := rfl
    have e2 : sepToks ';' = [.semi] := rfl
    refine ⟨ts ++ [.semi], ?_, ?_⟩
    · simp only [printDir, printWords_append, List.cons_append, List.nil_append]
      rw [hw, e1, e2, lexFrom_cons_ok (step_nl 0), prepend_nil]
    · rw [skeleton_append, hsk]
      simp [skeleton, dirToks, argTok]
  | .mk n args (some ch), h, post => by
    simp only [dirOKw, Bool.and_eq_true] at h
    have hhead : headOKw ((n, false) :: args) = true := by
      cases args with
      | nil => simpa [headOKw, lastOKw] using looseOK_of_bareOK h.1.1
      | cons b r => simp only [headOKw, Bool.and_eq_true]; exact ⟨by simpa [argOKw] using h.1.1, h.1.2⟩
    obtain ⟨ts, hw, hsk⟩ := lexFrom_head_w ((n, false) :: args) (by simp) hhead 0
      ('\n' :: (printDirs ch ++ '}' :: '\n' :: post))
    obtain ⟨tc, ih, hskc⟩ := lexFrom_printDirs_w ch h.2 ('}' :: '\n' :: post)
    refine ⟨ts ++ [.open] ++ tc ++ [.close], ?_, ?_⟩
    · simp only [printDir, printWords_append, List.cons_append, List.nil_append, List.append_assoc]
      rw [hw, lexFrom_cons_ok (step_nl 0), prepend_nil, ih, lexFrom_cons_ok step_close, lexFrom_cons_ok (step_nl 0),
        prepend_nil, prepend_prepend, prepend_prepend]
      simp
    · simp only [skeleton_append, hsk, hskc]
      simp [skeleton, dirToks, argTok, Tok.shape]
theorem lexFrom_printDirs_w : ∀ (ds : List Dir), dirsOKw ds = true → ∀ (post : List Char),
    ∃ ts, lexFrom (Sk 0) (printDirs ds ++ post) = prepend ts (lexFrom (Sk 0) post) ∧ skeleton ts = skeleton (dirsToks ds)
  | [], _, post => ⟨[], by simp [printDirs, prepend_nil], rfl⟩
  | d :: ds, h, post => by
    simp only [dirsOKw, Bool.and_eq_true] at h
    obtain ⟨t1, h1, s1⟩ := lexFrom_printDir_w d h.1 (printDirs ds ++ post)
    obtain ⟨t2, h2, s2⟩ := lexFrom_printDirs_w ds h.2 post
    refine ⟨t1 ++ t2, ?_, ?_⟩
    · simp only [printDirs, List.append_assoc]
      rw [h1, h2, prepend_prepend]
    · simp only [dirsToks, skeleton_append, s1, s2]
end

/-- the whole text (backslashes in paths and quoted holes allowed): it is tokenised, the end of file is legal, and the
skeleton of the token stream is the intended one -/
theorem lex_printDirs_w {ds : List Dir} (h : dirsOKw ds = true) :
    ∃ ts, lex (printDirs ds) = .ok ts ∧ skeleton ts = skeleton (dirsToks ds) := by
  obtain ⟨ts, hl, hs⟩ := lexFrom_printDirs_w ds h []
  simp only [List.append_nil] at hl
  refine ⟨ts, ?_, hs⟩
  unfold lex
  rw [init_eq, hl]
  simp [lexFrom, prepend, atEOF, Sk]

end NGF.Print
