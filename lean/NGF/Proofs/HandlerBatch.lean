/-
C12 — helper lemmas for the COMPOSED model: handler state machine ∘ apply transaction ∘ reload oracle,
over whole batch sequences (core only).
-/
import NGF.Model.HandlerVer
import NGF.Proofs.Reload
import NGF.Proofs.HandlerVer

namespace NGF.HandlerVer
open NGF.Reload NGF.C12

/-- A batch that builds a configuration ends without error — stated over the ENVIRONMENT only (what
`ReplaceFiles` did, what the master did during `Reload(v)`, the Plus API) and the result `le`
remembered before the batch: for Plus + endpoints-only with the remembered result ok (`apiOnly`) the
API result alone; otherwise all files written, `reload_ok_iff`'s right-hand side for version `v`, and
(Plus) the API. -/
def ApplyOk (plus le : Bool) (b : Batch) (v : Nat) : Prop :=
  if apiOnly plus le b = true then b.apiOk = true
  else b.files = .ok ∧ Running b.oracle v ∧ (plus = true → b.apiOk = true)

theorem hstep_err_false_iff (plus : Bool) (s : H) (b : Batch) (hct : b.ct ≠ .noChange) :
    (hstep plus s b).2.err = false ↔ ApplyOk plus s.lastErr b (s.version + 1) := by
  have h := hstep_err_iff plus s b
  unfold ApplyOk
  have hcast : ((s.version + 1 : Nat) : Int) = (s.version : Int) + 1 := by simp
  rw [hcast]
  have hr := reload_res_none_iff b.oracle ((s.version : Int) + 1)
  cases he : (hstep plus s b).2.err with
  | true =>
    simp only [Bool.true_eq_false, false_iff]
    have h' := (h.1 he).2
    cases hpe : apiOnly plus s.lastErr b with
    | true => simp only [hpe, if_true] at h' ⊢; simp [h']
    | false =>
      simp only [hpe, Bool.false_eq_true, if_false] at h' ⊢
      rintro ⟨hf, hrun, hapi⟩
      rcases h' with hw | hre | ⟨hp, ha⟩
      · simp [Batch.writeOk, hf, FilesOutcome.isOk] at hw
      · rw [hr.2 hrun] at hre; simp at hre
      · rw [hapi hp] at ha; cases ha
  | false =>
    simp only [true_iff]
    rw [he] at h
    simp only [Bool.false_eq_true, false_iff, not_and] at h
    have h' := h hct
    cases hpe : apiOnly plus s.lastErr b with
    | true => simp only [hpe, if_true] at h' ⊢; simpa using h'
    | false =>
      simp only [hpe, Bool.false_eq_true, if_false, not_or, not_and] at h' ⊢
      obtain ⟨h1, h2, h3⟩ := h'
      refine ⟨?_, ?_, ?_⟩
      · exact (isOk_iff _).1 (by simpa [Batch.writeOk] using h1)
      · apply hr.1
        cases hres : (reload b.oracle ((s.version : Int) + 1)).res with
        | none => rfl
        | some e => rw [hres] at h2; simp at h2
      · intro hp; simpa using h3 hp

/-- the remembered result after one batch, for every state and every environment -/
theorem hstep_lastErr_false_iff (plus : Bool) (s : H) (b : Batch) :
    (hstep plus s b).1.lastErr = false ↔
      (b.ct = .noChange ∧ s.lastErr = false) ∨
        (b.ct ≠ .noChange ∧ ApplyOk plus s.lastErr b (s.version + 1)) := by
  rw [hstep_lastErr]
  by_cases hct : b.ct = .noChange
  · simp [hct]
  · simp only [hct, if_false, false_and, false_or, ne_eq, not_false_eq_true, true_and]
    exact hstep_err_false_iff plus s b hct

/-! ### sequences -/

theorem hrun_append (plus : Bool) : ∀ (pre bs : List Batch) (s : H),
    hrun plus s (pre ++ bs) =
      ((hrun plus (hrun plus s pre).1 bs).1, (hrun plus s pre).2 ++ (hrun plus (hrun plus s pre).1 bs).2)
  | [], bs, s => by simp [hrun_nil]
  | b :: pre, bs, s => by
    simp only [List.cons_append, hrun_cons]
    rw [hrun_append plus pre bs (hstep plus s b).1]

theorem hrun_snoc_state (plus : Bool) (pre : List Batch) (b : Batch) (s : H) :
    (hrun plus s (pre ++ [b])).1 = (hstep plus (hrun plus s pre).1 b).1 := by
  rw [hrun_append]; simp [hrun_cons, hrun_nil]

/-- every batch that builds a configuration consumes exactly one version, failed or not -/
theorem run_version (plus : Bool) : ∀ (bs : List Batch) (s : H),
    (hrun plus s bs).1.version = s.version + applies bs
  | [], s => by simp [hrun_nil, applies]
  | b :: bs, s => by
    rw [hrun_cons]
    simp only [applies]
    rw [run_version plus bs, hstep_version]
    split <;> omega

theorem applies_append : ∀ (pre bs : List Batch), applies (pre ++ bs) = applies pre + applies bs
  | [], bs => by simp [applies]
  | b :: pre, bs => by simp only [List.cons_append, applies, applies_append pre bs]; omega

theorem applies_noChange : ∀ (bs : List Batch), (∀ b ∈ bs, b.ct = .noChange) → applies bs = 0
  | [], _ => rfl
  | b :: bs, h => by
    simp only [applies, h b List.mem_cons_self, if_true, Nat.zero_add]
    exact applies_noChange bs (fun x hx => h x (List.mem_cons_of_mem _ hx))

/-- batches that change nothing leave version, remembered result and `firstBatchError` alone -/
theorem run_noChange_keeps (plus : Bool) : ∀ (bs : List Batch) (s : H),
    (∀ b ∈ bs, b.ct = .noChange) →
      (hrun plus s bs).1.lastErr = s.lastErr ∧ (hrun plus s bs).1.version = s.version ∧
        (∀ e ∈ (hrun plus s bs).2, e = Emit.none)
  | [], s, _ => by simp [hrun_nil]
  | b :: bs, s, h => by
    have hb := h b List.mem_cons_self
    obtain ⟨i1, i2, i3⟩ := run_noChange_keeps plus bs (hstep plus s b).1
      (fun x hx => h x (List.mem_cons_of_mem _ hx))
    rw [hrun_cons]
    refine ⟨?_, ?_, ?_⟩
    · rw [i1, hstep_lastErr]; simp [hb]
    · rw [i2, hstep_version]; simp [hb]
    · intro e he
      rcases List.mem_cons.1 he with rfl | he
      · rw [hstep_noChange plus s b hb]
      · exact i3 e he

/-- the last batch that built a configuration, and the batches before it -/
def lastApply : List Batch → Option (List Batch × Batch)
  | [] => none
  | b :: bs =>
    match lastApply bs with
    | some (pre, x) => some (b :: pre, x)
    | none => if b.ct = .noChange then none else some ([], b)

theorem lastApply_spec : ∀ (bs : List Batch),
    match lastApply bs with
    | none => ∀ b ∈ bs, b.ct = .noChange
    | some (pre, x) => x.ct ≠ .noChange ∧ ∃ post, bs = pre ++ x :: post ∧ ∀ b ∈ post, b.ct = .noChange
  | [] => by simp [lastApply]
  | b :: bs => by
    have ih := lastApply_spec bs
    simp only [lastApply]
    cases h : lastApply bs with
    | some px =>
      obtain ⟨pre, x⟩ := px
      rw [h] at ih
      obtain ⟨hx, post, hbs, hpost⟩ := ih
      exact ⟨hx, post, by simp [hbs], hpost⟩
    | none =>
      rw [h] at ih
      by_cases hb : b.ct = .noChange
      · simp only [hb, if_true]
        intro x hx
        rcases List.mem_cons.1 hx with rfl | hx
        · exact hb
        · exact ih x hx
      · simp only [hb, if_false]
        exact ⟨hb, bs, rfl, ih⟩

/-- closed form of the remembered result, from any state -/
theorem run_lastErr_false_iff (plus : Bool) : ∀ (bs : List Batch) (s : H),
    (hrun plus s bs).1.lastErr = false ↔
      match lastApply bs with
      | none => s.lastErr = false
      | some (pre, x) => ApplyOk plus (hrun plus s pre).1.lastErr x (s.version + applies pre + 1)
  | [], s => by simp [hrun_nil, lastApply]
  | b :: bs, s => by
    rw [hrun_cons]
    have ih := run_lastErr_false_iff plus bs (hstep plus s b).1
    simp only [lastApply]
    cases h : lastApply bs with
    | some px =>
      obtain ⟨pre, x⟩ := px
      rw [h] at ih
      simp only at ih ⊢
      rw [ih, hstep_version]
      have : (if b.ct = .noChange then s.version else s.version + 1) + applies pre + 1 =
          s.version + applies (b :: pre) + 1 := by
        simp only [applies]; split <;> omega
      rw [this, hrun_cons plus s b pre]
    | none =>
      rw [h] at ih
      simp only at ih ⊢
      rw [ih]
      by_cases hb : b.ct = .noChange
      · simp only [hb, if_true]
        rw [hstep_lastErr]; simp [hb]
      · simp only [hb, if_false, applies, Nat.add_zero]
        rw [hstep_lastErr_false_iff]
        simp [hb, hrun_nil]

/-- Since /repo c94173a: while a failed apply is remembered EVERY batch that builds a configuration
goes through `updateNginxConf` (Plus endpoints-only included); so if none of the following batches
does, the failure stays remembered. -/
theorem run_lastErr_stays (plus : Bool) : ∀ (post : List Batch) (s : H), s.lastErr = true →
    (∀ e ∈ (hrun plus s post).2, e.generated = false) → (hrun plus s post).1.lastErr = true
  | [], s, h, _ => by simpa [hrun_nil] using h
  | b :: post, s, h, hg => by
    rw [hrun_cons] at hg ⊢
    have h0 := hg _ List.mem_cons_self
    have hrest : ∀ e ∈ (hrun plus (hstep plus s b).1 post).2, e.generated = false :=
      fun e he => hg e (List.mem_cons_of_mem _ he)
    by_cases hct : b.ct = .noChange
    · exact run_lastErr_stays plus post _ (by rw [hstep_lastErr]; simpa [hct] using h) hrest
    · exfalso
      rw [hstep_change plus s b hct] at h0
      have : (apply plus s.lastErr b (s.version + 1)).generated = true :=
        (apply_generated_iff plus s.lastErr b _).2 ⟨hct, by simp [apiOnly, h]⟩
      simp only at h0
      rw [this] at h0; cases h0

/-- a batch that went through `updateNginxConf` and ended without error wrote all files and the master
runs its version -/
theorem hstep_generated_ok (plus : Bool) (s : H) (b : Batch)
    (hg : (hstep plus s b).2.generated = true) (he : (hstep plus s b).1.lastErr = false) :
    b.files = .ok ∧ Running b.oracle (s.version + 1 : Nat) := by
  have hct : b.ct ≠ .noChange := by
    intro hc; rw [hstep_noChange plus s b hc] at hg; simp [Emit.none] at hg
  rw [hstep_change plus s b hct] at hg
  have ha := ((apply_generated_iff plus s.lastErr b _).1 hg).2
  rcases (hstep_lastErr_false_iff plus s b).1 he with ⟨hn, _⟩ | ⟨_, hok⟩
  · exact absurd hn hct
  · simp only [ApplyOk, ha, Bool.false_eq_true, if_false] at hok
    exact ⟨hok.1, hok.2.1⟩

/-! ### readiness -/

theorem hstep_ready_iff (plus : Bool) (s : H) (b : Batch) :
    (hstep plus s b).1.ready = true ↔
      s.ready = true ∨ (b.ct = .noChange ∧ s.firstBatchErr = false) ∨
        (b.ct ≠ .noChange ∧ (hstep plus s b).2.err = false) := by
  by_cases hct : b.ct = .noChange
  · rw [hstep_noChange plus s b hct]
    simp only [hct, true_and, ne_eq, not_true_eq_false, false_and, or_false]
    state_cases0 s
  · rw [hstep_change plus s b hct]
    simp only [hct, false_and, false_or, ne_eq, not_false_eq_true, true_and]
    generalize (apply plus s.lastErr b (s.version + 1)).err = e
    state_cases s e

/-- "settled": some batch has been handled — the pod is ready or a first-batch error is stored -/
def Settled (s : H) : Prop := s.ready = true ∨ s.firstBatchErr = true

theorem hstep_settled (plus : Bool) (s : H) (b : Batch) (h : Settled s) : Settled (hstep plus s b).1 := by
  unfold Settled at *
  by_cases hct : b.ct = .noChange
  · rw [hstep_noChange plus s b hct]; state_cases0 s
  · rw [hstep_change plus s b hct]
    generalize (apply plus s.lastErr b (s.version + 1)).err = e
    state_cases s e

/-- from a settled state only a successful apply can make the pod ready -/
theorem run_ready_iff_settled (plus : Bool) : ∀ (bs : List Batch) (s : H), Settled s →
    ((hrun plus s bs).1.ready = true ↔
      s.ready = true ∨ ∃ pre b post, bs = pre ++ b :: post ∧ b.ct ≠ .noChange ∧
        ApplyOk plus (hrun plus s pre).1.lastErr b (s.version + applies pre + 1))
  | [], s, _ => by simp [hrun_nil]
  | b :: bs, s, hs => by
    rw [hrun_cons]
    have ih := run_ready_iff_settled plus bs (hstep plus s b).1 (hstep_settled plus s b hs)
    simp only at ih ⊢
    rw [ih, hstep_ready_iff]
    have hv := hstep_version plus s b
    constructor
    · rintro ((hr | ⟨hn, hf⟩ | ⟨hc, he⟩) | ⟨pre, x, post, hbs, hx, hok⟩)
      · exact Or.inl hr
      · rcases hs with hr | hfb
        · exact Or.inl hr
        · rw [hf] at hfb; cases hfb
      · exact Or.inr ⟨[], b, bs, rfl, hc, by simpa [applies, hrun_nil] using (hstep_err_false_iff plus s b hc).1 he⟩
      · refine Or.inr ⟨b :: pre, x, post, by simp [hbs], hx, ?_⟩
        rw [hv] at hok
        have : (if b.ct = .noChange then s.version else s.version + 1) + applies pre + 1 =
            s.version + applies (b :: pre) + 1 := by
          simp only [applies]; split <;> omega
        rwa [this] at hok
    · rintro (hr | ⟨pre, x, post, hbs, hx, hok⟩)
      · exact Or.inl (Or.inl hr)
      · cases pre with
        | nil =>
          simp only [List.nil_append, List.cons.injEq] at hbs
          obtain ⟨rfl, rfl⟩ := hbs
          exact Or.inl (Or.inr (Or.inr ⟨hx, (hstep_err_false_iff plus s b hx).2 (by simpa [applies, hrun_nil] using hok)⟩))
        | cons p pre =>
          simp only [List.cons_append, List.cons.injEq] at hbs
          obtain ⟨rfl, rfl⟩ := hbs
          refine Or.inr ⟨pre, x, post, rfl, hx, ?_⟩
          rw [hv]
          have : (if b.ct = .noChange then s.version else s.version + 1) + applies pre + 1 =
              s.version + applies (b :: pre) + 1 := by
            simp only [applies]; split <;> omega
          rwa [this]

theorem hstep_init_settled (plus : Bool) (b : Batch) : Settled (hstep plus H.init b).1 := by
  unfold Settled
  by_cases hct : b.ct = .noChange
  · rw [hstep_noChange plus _ b hct]; simp [noChangeStep, setAsReady, H.init]
  · rw [hstep_change plus _ b hct]
    generalize (apply plus H.init.lastErr b (H.init.version + 1)).err = e
    cases e <;> simp [advance, setAsReady, H.init]

end NGF.HandlerVer
