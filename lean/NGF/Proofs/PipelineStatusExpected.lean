/-
Expected source text of the graph / status functions that `NGF.Model.PipelineStatus` mirrors (hand-pinned copy of the statement
lists; the theorems `facts_binding_*` of `NGF.Props.C07Fragment` compare the text regenerated from /repo on every run
(`NGF.Generated.BindingFacts`, translator/gen_binding.go) with these). When one of these functions changes, re-read it, repair the
model if its behaviour changed, and re-pin.
-/
namespace NGF.PipelineStatus.Expected

/-- statements of buildSectionNameRefs (graph/route_common.go) -/
def buildSectionNameRefsBody : List String :=
  ["sectionNameRefs := make([]ParentRef, 0, len(parentRefs))",
   "type key struct { gwNsName types.NamespacedName sectionName string }",
   "uniqueSectionsPerGateway := make(map[key]struct{})",
   "for i, p := range parentRefs { gw, found := findGatewayForParentRef(p, routeNamespace, gatewayNsNames) if !found { continue } var sectionName string if p.SectionName != nil { sectionName = string(*p.SectionName) } k := key{ gwNsName: gw, sectionName: sectionName, } if _, exist := uniqueSectionsPerGateway[k]; exist { return nil, fmt.Errorf(\"duplicate section name %q for Gateway %s\", sectionName, gw.String()) } uniqueSectionsPerGateway[k] = struct{}{} sectionNameRefs = append(sectionNameRefs, ParentRef{ Idx: i, Gateway: gw, SectionName: p.SectionName, Port: p.Port, }) }",
   "return sectionNameRefs, nil"]

/-- statements of findGatewayForParentRef (graph/route_common.go) -/
def findGatewayForParentRefBody : List String :=
  ["if ref.Kind != nil && *ref.Kind != kinds.Gateway { return types.NamespacedName{}, false }",
   "if ref.Group != nil && *ref.Group != v1.GroupName { return types.NamespacedName{}, false }",
   "ns := routeNamespace",
   "if ref.Namespace != nil { ns = string(*ref.Namespace) }",
   "for _, gw := range gatewayNsNames { if gw.Namespace == ns && gw.Name == string(ref.Name) { return gw, true } }",
   "return types.NamespacedName{}, false"]

/-- statements of validateParentRef (graph/route_common.go) -/
def validateParentRefBody : List String :=
  ["attachment := &ParentRefAttachmentStatus{ AcceptedHostnames: make(map[string][]string), }",
   "ref.Attachment = attachment",
   "path := field.NewPath(\"spec\").Child(\"parentRefs\").Index(ref.Idx)",
   "attachableListeners, listenerExists := findAttachableListeners( getSectionName(ref.SectionName), gw.Listeners, )",
   "if !listenerExists { attachment.FailedCondition = staticConds.NewRouteNoMatchingParent() return attachment, nil }",
   "if ref.Port != nil { valErr := field.Forbidden(path.Child(\"port\"), \"cannot be set\") attachment.FailedCondition = staticConds.NewRouteUnsupportedValue(valErr.Error()) return attachment, attachableListeners }",
   "referencesWinningGw := ref.Gateway.Namespace == gw.Source.Namespace && ref.Gateway.Name == gw.Source.Name",
   "if !referencesWinningGw { attachment.FailedCondition = staticConds.NewRouteNotAcceptedGatewayIgnored() return attachment, attachableListeners }",
   "if !gw.Valid { attachment.FailedCondition = staticConds.NewRouteInvalidGateway() return attachment, attachableListeners }",
   "return attachment, attachableListeners"]

/-- statements of bindL7RouteToListeners (graph/route_common.go) -/
def bindL7RouteToListenersBody : List String :=
  ["if !route.Attachable { return }",
   "for i := range route.ParentRefs { ref := &(route.ParentRefs)[i] attachment, attachableListeners := validateParentRef(ref, gw) if attachment.FailedCondition != (conditions.Condition{}) { continue } cond, attached := tryToAttachL7RouteToListeners( ref.Attachment, attachableListeners, route, gw, namespaces, ) if !attached { attachment.FailedCondition = cond continue } if cond != (conditions.Condition{}) { route.Conditions = append(route.Conditions, cond) } attachment.Attached = true }"]

/-- statements of tryToAttachL7RouteToListeners (graph/route_common.go) -/
def tryToAttachL7RouteToListenersBody : List String :=
  ["if len(attachableListeners) == 0 { return staticConds.NewRouteInvalidListener(), false }",
   "rk := CreateRouteKey(route.Source)",
   "bind := func(l *Listener) (allowed, attached bool) { if !isRouteNamespaceAllowedByListener(l, route.Source.GetNamespace(), gw.Source.Namespace, namespaces) { return false, false } if !isRouteTypeAllowedByListener(l, convertRouteType(route.RouteType)) { return false, false } hostnames := findAcceptedHostnames(l.Source.Hostname, route.Spec.Hostnames) if len(hostnames) == 0 { return true, false } refStatus.AcceptedHostnames[string(l.Source.Name)] = hostnames refStatus.ListenerPort = l.Source.Port l.Routes[rk] = route return true, true }",
   "var attachedToAtLeastOneValidListener bool",
   "var allowed, attached bool",
   "for _, l := range attachableListeners { routeAllowed, routeAttached := bind(l) allowed = allowed || routeAllowed attached = attached || routeAttached attachedToAtLeastOneValidListener = attachedToAtLeastOneValidListener || (routeAttached && l.Valid) }",
   "if !attached { if !allowed { return staticConds.NewRouteNotAllowedByListeners(), false } return staticConds.NewRouteNoMatchingListenerHostname(), false }",
   "if !attachedToAtLeastOneValidListener { return staticConds.NewRouteInvalidListener(), true }",
   "return conditions.Condition{}, true"]

/-- statements of findAttachableListeners (graph/route_common.go) -/
def findAttachableListenersBody : List String :=
  ["if sectionName != \"\" { for _, l := range listeners { if l.Name == sectionName { if l.Attachable { return []*Listener{l}, true } return nil, true } } return nil, false }",
   "attachableListeners := make([]*Listener, 0, len(listeners))",
   "for _, l := range listeners { if !l.Attachable { continue } attachableListeners = append(attachableListeners, l) }",
   "return attachableListeners, true"]

/-- statements of processGateways (graph/gateway.go) -/
def processGatewaysBody : List String :=
  ["referencedGws := make([]*v1.Gateway, 0, len(gws))",
   "for _, gw := range gws { if string(gw.Spec.GatewayClassName) != gcName { continue } referencedGws = append(referencedGws, gw) }",
   "if len(referencedGws) == 0 { return processedGateways{} }",
   "sort.Slice(referencedGws, func(i, j int) bool { return ngfsort.LessClientObject(referencedGws[i], referencedGws[j]) })",
   "ignoredGws := make(map[types.NamespacedName]*v1.Gateway)",
   "for _, gw := range referencedGws[1:] { ignoredGws[client.ObjectKeyFromObject(gw)] = gw }",
   "return processedGateways{ Winner: referencedGws[0], Ignored: ignoredGws, }"]

/-- statements of processedGateways.GetAllNsNames -/
def getAllNsNamesBody : List String :=
  ["winnerCnt := 0",
   "if gws.Winner != nil { winnerCnt = 1 }",
   "length := winnerCnt + len(gws.Ignored)",
   "if length == 0 { return nil }",
   "allNsNames := make([]types.NamespacedName, 0, length)",
   "if gws.Winner != nil { allNsNames = append(allNsNames, client.ObjectKeyFromObject(gws.Winner)) }",
   "for nsName := range gws.Ignored { allNsNames = append(allNsNames, nsName) }",
   "return allNsNames"]

/-- statements of buildGateway -/
def buildGatewayBody : List String :=
  ["if gw == nil { return nil }",
   "conds := validateGateway(gw, gc)",
   "if len(conds) > 0 { return &Gateway{ Source: gw, Valid: false, Conditions: conds, } }",
   "return &Gateway{ Source: gw, Listeners: buildListeners(gw, secretResolver, refGrantResolver, protectedPorts), Valid: true, }"]

/-- statements of validateGateway -/
def validateGatewayBody : List String :=
  ["var conds []conditions.Condition",
   "if gc == nil { conds = append(conds, staticConds.NewGatewayInvalid(\"GatewayClass doesn't exist\")...) } else if !gc.Valid { conds = append(conds, staticConds.NewGatewayInvalid(\"GatewayClass is invalid\")...) }",
   "if len(gw.Spec.Addresses) > 0 { path := field.NewPath(\"spec\", \"addresses\") valErr := field.Forbidden(path, \"addresses are not supported\") conds = append(conds, staticConds.NewGatewayUnsupportedValue(valErr.Error())...) }",
   "return conds"]

/-- statements of processGatewayClasses -/
def processGatewayClassesBody : List String :=
  ["processedGwClasses := processedGatewayClasses{}",
   "var gcExists bool",
   "for _, gc := range gcs { if gc.Name == gcName { gcExists = true if string(gc.Spec.ControllerName) == controllerName { processedGwClasses.Winner = gc } } else if string(gc.Spec.ControllerName) == controllerName { if processedGwClasses.Ignored == nil { processedGwClasses.Ignored = make(map[types.NamespacedName]*v1.GatewayClass) } processedGwClasses.Ignored[client.ObjectKeyFromObject(gc)] = gc } }",
   "return processedGwClasses, gcExists"]

/-- statements of BuildGraph up to and including bindRoutesToListeners(...) -/
def buildGraphHead : List String :=
  ["var globalSettings *policies.GlobalSettings",
   "processedGwClasses, gcExists := processGatewayClasses(state.GatewayClasses, gcName, controllerName)",
   "if gcExists && processedGwClasses.Winner == nil { return &Graph{} }",
   "npCfg := buildNginxProxy(state.NginxProxies, processedGwClasses.Winner, validators.GenericValidator)",
   "gc := buildGatewayClass(processedGwClasses.Winner, npCfg, state.CRDMetadata)",
   "if gc != nil && npCfg != nil && npCfg.Source != nil { spec := npCfg.Source.Spec globalSettings = &policies.GlobalSettings{ NginxProxyValid: npCfg.Valid, TelemetryEnabled: spec.Telemetry != nil && spec.Telemetry.Exporter != nil, } }",
   "secretResolver := newSecretResolver(state.Secrets)",
   "configMapResolver := newConfigMapResolver(state.ConfigMaps)",
   "processedGws := processGateways(state.Gateways, gcName)",
   "refGrantResolver := newReferenceGrantResolver(state.ReferenceGrants)",
   "gw := buildGateway(processedGws.Winner, secretResolver, gc, refGrantResolver, protectedPorts)",
   "processedBackendTLSPolicies := processBackendTLSPolicies( state.BackendTLSPolicies, configMapResolver, controllerName, gw, )",
   "processedSnippetsFilters := processSnippetsFilters(state.SnippetsFilters)",
   "routes := buildRoutesForGateways( validators.HTTPFieldsValidator, state.HTTPRoutes, state.GRPCRoutes, processedGws.GetAllNsNames(), npCfg, processedSnippetsFilters, )",
   "l4routes := buildL4RoutesForGateways( state.TLSRoutes, processedGws.GetAllNsNames(), state.Services, npCfg, refGrantResolver, )",
   "bindRoutesToListeners(routes, l4routes, gw, state.Namespaces)"]

/-- statements of buildHTTPRoute -/
def buildHTTPRouteBody : List String :=
  ["r := &L7Route{ Source: ghr, RouteType: RouteTypeHTTP, }",
   "sectionNameRefs, err := buildSectionNameRefs(ghr.Spec.ParentRefs, ghr.Namespace, gatewayNsNames)",
   "if err != nil { r.Valid = false return r }",
   "if len(sectionNameRefs) == 0 { return nil }",
   "r.ParentRefs = sectionNameRefs",
   "if err := validateHostnames( ghr.Spec.Hostnames, field.NewPath(\"spec\").Child(\"hostnames\"), ); err != nil { r.Valid = false r.Conditions = append(r.Conditions, staticConds.NewRouteUnsupportedValue(err.Error())) return r }",
   "r.Spec.Hostnames = ghr.Spec.Hostnames",
   "r.Attachable = true",
   "rules, valid, conds := processHTTPRouteRules( ghr.Spec.Rules, validator, getSnippetsFilterResolverForNamespace(snippetsFilters, r.Source.GetNamespace()), )",
   "r.Spec.Rules = rules",
   "r.Conditions = append(r.Conditions, conds...)",
   "r.Valid = valid",
   "return r"]

/-- statements of processHTTPRouteRules -/
def processHTTPRouteRulesBody : List String :=
  ["rules = make([]RouteRule, len(specRules))",
   "var ( allRulesErrors routeRuleErrors atLeastOneValid bool )",
   "for i, rule := range specRules { rulePath := field.NewPath(\"spec\").Child(\"rules\").Index(i) rr, errors := processHTTPRouteRule(rule, rulePath, validator, resolveExtRefFunc) if rr.ValidMatches && rr.Filters.Valid { atLeastOneValid = true } allRulesErrors = allRulesErrors.append(errors) rules[i] = rr }",
   "conds = make([]conditions.Condition, 0, 2)",
   "valid = true",
   "if len(allRulesErrors.invalid) > 0 { msg := allRulesErrors.invalid.ToAggregate().Error() if atLeastOneValid { conds = append(conds, staticConds.NewRoutePartiallyInvalid(msg)) } else { msg = \"All rules are invalid: \" + msg conds = append(conds, staticConds.NewRouteUnsupportedValue(msg)) valid = false } }",
   "if len(allRulesErrors.resolve) > 0 { msg := allRulesErrors.resolve.ToAggregate().Error() conds = append(conds, staticConds.NewRouteResolvedRefsInvalidFilter(msg)) }",
   "return rules, valid, conds"]

/-- statements of addBackendRefsToRules -/
def addBackendRefsToRulesBody : List String :=
  ["if !route.Valid { return }",
   "for idx, rule := range route.Spec.Rules { if !rule.ValidMatches { continue } if !rule.Filters.Valid { continue } if len(rule.RouteBackendRefs) == 0 { continue } backendRefs := make([]BackendRef, 0, len(rule.RouteBackendRefs)) for refIdx, ref := range rule.RouteBackendRefs { refPath := field.NewPath(\"spec\").Child(\"rules\").Index(idx).Child(\"backendRefs\").Index(refIdx) routeNs := route.Source.GetNamespace() ref, cond := createBackendRef( ref, routeNs, refGrantResolver.refAllowedFrom(getRefGrantFromResourceForRoute(route.RouteType, routeNs)), services, refPath, backendTLSPolicies, npCfg, ) backendRefs = append(backendRefs, ref) if cond != nil { route.Conditions = append(route.Conditions, *cond) } } if len(backendRefs) > 1 { cond := validateBackendTLSPolicyMatchingAllBackends(backendRefs) if cond != nil { route.Conditions = append(route.Conditions, *cond) for i := range backendRefs { backendRefs[i].Valid = false } } } route.Spec.Rules[idx].BackendRefs = backendRefs }"]

/-- statements of PrepareRouteRequests -/
def prepareRouteRequestsBody : List String :=
  ["reqs := make([]frameworkStatus.UpdateRequest, 0, len(routes))",
   "for routeKey, r := range l4routes { routeStatus := prepareRouteStatus( gatewayCtlrName, r.ParentRefs, r.Conditions, nginxReloadRes, transitionTime, r.Source.GetGeneration(), ) status := v1alpha2.TLSRouteStatus{ RouteStatus: routeStatus, } req := frameworkStatus.UpdateRequest{ NsName: routeKey.NamespacedName, ResourceType: &v1alpha2.TLSRoute{}, Setter: newTLSRouteStatusSetter(status, gatewayCtlrName), } reqs = append(reqs, req) }",
   "for routeKey, r := range routes { routeStatus := prepareRouteStatus( gatewayCtlrName, r.ParentRefs, r.Conditions, nginxReloadRes, transitionTime, r.Source.GetGeneration(), ) switch r.RouteType { case graph.RouteTypeHTTP: status := v1.HTTPRouteStatus{ RouteStatus: routeStatus, } req := frameworkStatus.UpdateRequest{ NsName: routeKey.NamespacedName, ResourceType: &v1.HTTPRoute{}, Setter: newHTTPRouteStatusSetter(status, gatewayCtlrName), } reqs = append(reqs, req) case graph.RouteTypeGRPC: status := v1.GRPCRouteStatus{ RouteStatus: routeStatus, } req := frameworkStatus.UpdateRequest{ NsName: routeKey.NamespacedName, ResourceType: &v1.GRPCRoute{}, Setter: newGRPCRouteStatusSetter(status, gatewayCtlrName), } reqs = append(reqs, req) default: panic(fmt.Sprintf(\"Unknown route type: %s\", r.RouteType)) } }",
   "return reqs"]

/-- statements of Graph.attachPolicies -/
def attachPoliciesBody : List String :=
  ["if g.Gateway == nil { return }",
   "for _, policy := range g.NGFPolicies { for _, ref := range policy.TargetRefs { switch ref.Kind { case kinds.Gateway: attachPolicyToGateway(policy, ref, g.Gateway, g.IgnoredGateways, ctlrName) case kinds.HTTPRoute, kinds.GRPCRoute: route, exists := g.Routes[routeKeyForKind(ref.Kind, ref.Nsname)] if !exists { continue } attachPolicyToRoute(policy, route, ctlrName) case kinds.Service: svc, exists := g.ReferencedServices[ref.Nsname] if !exists { continue } attachPolicyToService(policy, svc, g.Gateway, ctlrName) } } }"]

/-- statements of attachPolicyToService -/
def attachPolicyToServiceBody : List String :=
  ["if ngfPolicyAncestorsFull(policy, ctlrName) { return }",
   "ancestor := PolicyAncestor{ Ancestor: createParentReference(v1.GroupName, kinds.Gateway, client.ObjectKeyFromObject(gw.Source)), }",
   "if !gw.Valid { ancestor.Conditions = []conditions.Condition{staticConds.NewPolicyTargetNotFound(\"Parent Gateway is invalid\")} if ancestorsContainsAncestorRef(policy.Ancestors, ancestor.Ancestor) { return } policy.Ancestors = append(policy.Ancestors, ancestor) return }",
   "if !ancestorsContainsAncestorRef(policy.Ancestors, ancestor.Ancestor) { policy.Ancestors = append(policy.Ancestors, ancestor) }",
   "svc.Policies = append(svc.Policies, policy)"]

/-- statements of ancestorsContainsAncestorRef -/
def ancestorsContainsAncestorRefBody : List String :=
  ["for _, an := range ancestors { if parentRefEqual(an.Ancestor, ref) { return true } }",
   "return false"]

end NGF.PipelineStatus.Expected
