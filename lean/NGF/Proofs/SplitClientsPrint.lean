import NGF.Model.F64
import NGF.Model.SplitClientsJudge
/-
`%.2f` output read back by NGINX's `ngx_atofp(…, 2)` (as modelled in the judge).
-/
namespace NGF.SplitClientsJudge
open NGF.F64

def dval (c : Char) : Nat := c.toNat - 48

/-- value of a digit string continuing from `v` -/
def val : List Char → Nat → Nat
  | [], v => v
  | c :: cs, v => val cs (v * 10 + dval c)

theorem digitChar_props (d : Nat) :
    (digitChar d).isDigit = true ∧ digitChar d ≠ '.' ∧ dval (digitChar d) = d % 10 := by
  have h : ∀ k : Fin 10, (Char.ofNat (48 + k.val)).isDigit = true ∧ Char.ofNat (48 + k.val) ≠ '.' ∧
      dval (Char.ofNat (48 + k.val)) = k.val := by decide
  exact h ⟨d % 10, Nat.mod_lt _ (by decide)⟩

def AllDigits (cs : List Char) : Prop := ∀ c ∈ cs, c.isDigit = true ∧ c ≠ '.'

theorem atofpAux_digits (ds rest : List Char) (v : Nat) (h : AllDigits ds) :
    atofpAux (ds ++ rest) v false 2 = atofpAux rest (val ds v) false 2 := by
  induction ds generalizing v with
  | nil => rfl
  | cons c cs ih =>
    have hc := h c (by simp)
    have := ih (v * 10 + dval c) (fun x hx => h x (by simp [hx]))
    simp only [List.cons_append, atofpAux, hc.1, hc.2, if_false, if_true, val]
    simpa [dval] using this

theorem natDigitsAux_spec (fuel n : Nat) (acc : List Char) (hf : n < fuel) (hacc : AllDigits acc) :
    AllDigits (natDigitsAux fuel n acc) ∧ val (natDigitsAux fuel n acc) 0 = val acc n := by
  induction fuel generalizing n acc with
  | zero => omega
  | succ f ih =>
    have hd := digitChar_props n
    have hacc' : AllDigits (digitChar n :: acc) := by
      intro c hc
      simp only [List.mem_cons] at hc
      rcases hc with e | e
      · subst e; exact ⟨hd.1, hd.2.1⟩
      · exact hacc c e
    simp only [natDigitsAux]
    split
    · rename_i hn
      refine ⟨hacc', ?_⟩
      simp only [val, hd.2.2, Nat.zero_mul, Nat.zero_add]
      congr 1; omega
    · rename_i hn
      obtain ⟨i1, i2⟩ := ih (n / 10) (digitChar n :: acc) (by omega) hacc'
      refine ⟨i1, ?_⟩
      rw [i2]
      simp only [val, hd.2.2]
      congr 1; omega

/-- NGINX reads a non-negative `%.2f` string as exactly its hundredths -/
theorem atofp2_chars (d : Dec2) (h : d.neg = false) : atofp2 d.chars = some d.cents := by
  obtain ⟨i1, i2⟩ := natDigitsAux_spec (d.cents / 100 + 1) (d.cents / 100) [] (by omega)
    (by intro c hc; simp at hc)
  have a := digitChar_props (d.cents % 100 / 10)
  have b := digitChar_props (d.cents % 10)
  have hne : (Dec2.chars d).isEmpty = false := by simp [Dec2.chars]
  simp only [atofp2, hne, Bool.false_eq_true, if_false]
  simp only [Dec2.chars, h, Bool.false_eq_true, if_false, List.nil_append]
  unfold natDigits
  rw [atofpAux_digits _ _ _ i1, i2]
  simp only [val, atofpAux, a.1, a.2.1, b.1, b.2.1, if_true, if_false]
  simp [dval] at a b
  simp [a.2, b.2]
  omega

/-- … and rejects a signed one (`-0.00`) -/
theorem atofp2_neg (d : Dec2) (h : d.neg = true) : atofp2 d.chars = none := by
  simp [atofp2, Dec2.chars, h, atofpAux]

end NGF.SplitClientsJudge
