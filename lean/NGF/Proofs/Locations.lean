/-
Helper lemmas for C02 about the external location scheme (Model/Precedence.genLocs, mirroring
`createLocations`/`initializeExternalLocations`) and NGINX's location selection (Model/NginxEval.selectLoc).
-/
import NGF.Model.Precedence
import NGF.Proofs.NginxEval

namespace NGF.Locations
open NGF.Precedence NGF.NginxEval

/-- a generated location as NGINX sees it (every generated external location of a routing rule proxies or hands
over to njs; `passes := true` is the case in which the auto-redirect can fire) -/
def toLoc (g : GenLoc) : Loc := { exact := g.exact, path := g.path, passes := true }

def locsOf (rules : List PathRule) : List Loc := (genLocs rules).map toLoc

theorem mem_extLocsFrom {rules : List PathRule} : ∀ {rs : List PathRule} {k : Nat} {g : GenLoc},
    g ∈ extLocsFrom rules k rs ↔ ∃ j r, rs[j]? = some r ∧ g ∈ extLocs rules (k + j) r
  | [], k, g => by simp [extLocsFrom]
  | r :: rs, k, g => by
    simp only [extLocsFrom, List.mem_append, mem_extLocsFrom (rs := rs)]
    constructor
    · rintro (h | ⟨j, r', hj, hg⟩)
      · exact ⟨0, r, by simp, by simpa using h⟩
      · exact ⟨j + 1, r', by simpa using hj, by rw [show k + (j + 1) = k + 1 + j by omega]; exact hg⟩
    · rintro ⟨j, r', hj, hg⟩
      cases j with
      | zero => left; simp at hj; subst hj; simpa using hg
      | succ j => right; exact ⟨j, r', by simpa using hj, by rw [show k + 1 + j = k + (j + 1) by omega]; exact hg⟩

theorem mem_genLocs {rules : List PathRule} {g : GenLoc} :
    g ∈ genLocs rules ↔ (∃ i r, rules[i]? = some r ∧ g ∈ extLocs rules i r) ∨
      (g = ⟨false, ['/'], rules.length⟩ ∧ rules.any (fun r => r.path == ['/']) = false) := by
  unfold genLocs
  simp only [List.mem_append, mem_extLocsFrom, Nat.zero_add]
  constructor
  · rintro (h | h)
    · exact Or.inl h
    · right
      by_cases hr : rules.any (fun r => r.path == ['/']) = true
      · simp [hr] at h
      · have hr' : rules.any (fun r => r.path == ['/']) = false := Bool.eq_false_iff.mpr hr
        simp [hr'] at h; exact ⟨h, hr'⟩
  · rintro (h | ⟨h, hr⟩)
    · exact Or.inl h
    · right; simp [hr, h]

/-- every generated prefix (non-exact) location ends in `/`: a prefix rule `/p` is served by `location /p/`
(and `location = /p`), never by `location /p` — so `/px` cannot reach it -/
theorem nonexact_ends_slash {rules : List PathRule} {g : GenLoc} (hg : g ∈ genLocs rules) (hne : g.exact = false) :
    endsSlash g.path = true := by
  rcases mem_genLocs.mp hg with ⟨i, r, _, hx⟩ | ⟨rfl, _⟩
  · unfold extLocs at hx
    by_cases hc : (r.isPrefix && !endsSlash r.path) = true
    · simp only [hc, ↓reduceIte] at hx
      by_cases h2 : (hasExact rules r.path && hasPrefix rules (r.path ++ ['/'])) = true
      · simp [h2] at hx
      · simp only [h2, Bool.false_eq_true, ↓reduceIte, List.mem_append] at hx
        rcases hx with hx | hx
        · by_cases h3 : hasPrefix rules (r.path ++ ['/']) = true
          · simp [h3] at hx
          · simp [h3] at hx; subst hx; simp [endsSlash]
        · by_cases h4 : hasExact rules r.path = true
          · simp [h4] at hx
          · simp [h4] at hx; subst hx; simp at hne
    · have hc' : (r.isPrefix && !endsSlash r.path) = false := Bool.eq_false_iff.mpr hc
      simp only [hc', Bool.false_eq_true, ↓reduceIte, List.mem_singleton] at hx
      subst hx
      simp only [Bool.not_eq_false'] at hne
      simp only [hne, Bool.true_and, Bool.not_eq_false'] at hc'
      exact hc'
  · rfl

/-- an exact rule always gets its own exact location -/
theorem exact_rule_has_location {rules : List PathRule} {i : Nat} {p : List Char} (h : rules[i]? = some ⟨p, false⟩) :
    (⟨true, p, i⟩ : GenLoc) ∈ genLocs rules :=
  mem_genLocs.mpr (Or.inl ⟨i, ⟨p, false⟩, h, by simp [extLocs]⟩)

/-- a prefix rule `/p` (no trailing slash) is reachable at the bare path `/p`: through its own `= /p` location, or
through the exact rule's when an exact rule for `/p` exists (exact over prefix) -/
theorem prefix_rule_bare_path {rules : List PathRule} {i : Nat} {p : List Char} (h : rules[i]? = some ⟨p, true⟩)
    (hs : endsSlash p = false) :
    (hasExact rules p = false ∧ (⟨true, p, i⟩ : GenLoc) ∈ genLocs rules) ∨
    (hasExact rules p = true ∧ ∃ j, rules[j]? = some ⟨p, false⟩ ∧ (⟨true, p, j⟩ : GenLoc) ∈ genLocs rules) := by
  cases he : hasExact rules p with
  | false =>
    left
    refine ⟨rfl, mem_genLocs.mpr (Or.inl ⟨i, ⟨p, true⟩, h, ?_⟩)⟩
    simp [extLocs, hs, he]
  | true =>
    right
    refine ⟨rfl, ?_⟩
    unfold hasExact at he
    obtain ⟨r, hr, hp⟩ := List.any_eq_true.mp he
    obtain ⟨j, hj⟩ := List.getElem?_of_mem hr
    simp only [Bool.and_eq_true, Bool.not_eq_true', beq_iff_eq] at hp
    have : r = ⟨p, false⟩ := by cases r; simp_all
    subst this
    exact ⟨j, hj, exact_rule_has_location hj⟩

/-- … and in its subtree through `location /p/`, or through the `/p/` prefix rule's when such a rule exists -/
theorem prefix_rule_subtree {rules : List PathRule} {i : Nat} {p : List Char} (h : rules[i]? = some ⟨p, true⟩)
    (hs : endsSlash p = false) :
    ∃ j, (⟨false, p ++ ['/'], j⟩ : GenLoc) ∈ genLocs rules ∧
      ((j = i ∧ hasPrefix rules (p ++ ['/']) = false) ∨ rules[j]? = some ⟨p ++ ['/'], true⟩) := by
  cases hp : hasPrefix rules (p ++ ['/']) with
  | false =>
    refine ⟨i, mem_genLocs.mpr (Or.inl ⟨i, ⟨p, true⟩, h, ?_⟩), Or.inl ⟨rfl, rfl⟩⟩
    cases he : hasExact rules p <;> simp [extLocs, hs, hp, he]
  | true =>
    unfold hasPrefix at hp
    obtain ⟨r, hr, hq⟩ := List.any_eq_true.mp hp
    obtain ⟨j, hj⟩ := List.getElem?_of_mem hr
    simp only [Bool.and_eq_true, beq_iff_eq] at hq
    have : r = ⟨p ++ ['/'], true⟩ := by cases r; simp_all
    subst this
    refine ⟨j, mem_genLocs.mpr (Or.inl ⟨j, _, hj, ?_⟩), Or.inr hj⟩
    have : endsSlash (p ++ ['/']) = true := by simp [endsSlash]
    simp [extLocs, this]

/-! ### NGINX selection over a location list -/

/-- exact over prefix: if an exact location for the request path exists, NGINX takes (the first) one -/
theorem select_exact_first {locs : List Loc} {p : List Char} {l : Loc}
    (h : locs.find? (fun l => l.exact && l.path == p) = some l) : ∃ l', selectLoc locs p = .loc l' ∧ l' = l := by
  unfold selectLoc; rw [h]; exact ⟨l, rfl, rfl⟩

/-- when no location equals the request path (and no auto-redirect applies), the longest prefix location wins -/
theorem select_longest_prefix {locs : List Loc} {p : List Char}
    (h1 : locs.find? (fun l => l.exact && l.path == p) = none)
    (h2 : locs.find? (fun l => !l.exact && l.path == p) = none)
    (h3 : locs.find? (fun l => !l.exact && l.passes && l.path == p ++ ['/']) = none) :
    (∀ w, bestPrefix p locs = some w → selectLoc locs p = .loc w ∧ w ∈ locs ∧ w.exact = false ∧ w.path <+: p ∧
        ∀ l ∈ locs, l.exact = false → l.path <+: p → l.path.length ≤ w.path.length) ∧
    (bestPrefix p locs = none → selectLoc locs p = .none ∧ ∀ l ∈ locs, l.exact = false → ¬ l.path <+: p) := by
  constructor
  · intro w hw
    obtain ⟨a, b, c, d⟩ := bestPrefix_some hw
    refine ⟨?_, a, b, c, d⟩
    unfold selectLoc; rw [h1, h2, h3, hw]
  · intro hn
    refine ⟨by unfold selectLoc; rw [h1, h2, h3, hn], ?_⟩
    intro l hl he hp
    have := bestPrefix_none hn l hl
    simp [he, List.isPrefixOf_iff_prefix.mpr hp] at this

/-- whatever location NGINX selects either equals the request path exactly or is a prefix location that is a prefix
of it -/
theorem select_sound {locs : List Loc} {q : List Char} {l : Loc} (h : selectLoc locs q = .loc l) :
    l ∈ locs ∧ ((l.exact = true ∧ l.path = q) ∨ (l.exact = false ∧ l.path <+: q)) := by
  unfold selectLoc at h
  cases h1 : locs.find? (fun l => l.exact && l.path == q) with
  | some a =>
    rw [h1] at h; simp only [LocChoice.loc.injEq] at h; subst h
    have := List.find?_some h1
    simp only [Bool.and_eq_true, beq_iff_eq] at this
    exact ⟨List.mem_of_find?_eq_some h1, Or.inl this⟩
  | none =>
    rw [h1] at h
    cases h2 : locs.find? (fun l => !l.exact && l.path == q) with
    | some a =>
      rw [h2] at h; simp only [LocChoice.loc.injEq] at h; subst h
      have := List.find?_some h2
      simp only [Bool.and_eq_true, Bool.not_eq_true', beq_iff_eq] at this
      exact ⟨List.mem_of_find?_eq_some h2, Or.inr ⟨this.1, by rw [this.2]; exact List.prefix_refl _⟩⟩
    | none =>
      rw [h2] at h
      cases h3 : locs.find? (fun l => !l.exact && l.passes && l.path == q ++ ['/']) with
      | some a => rw [h3] at h; cases h
      | none =>
        rw [h3] at h
        cases h4 : bestPrefix q locs with
        | none => rw [h4] at h; cases h
        | some w =>
          rw [h4] at h; simp only [LocChoice.loc.injEq] at h; subst h
          obtain ⟨a, b, c, _⟩ := bestPrefix_some h4
          exact ⟨a, Or.inr ⟨b, c⟩⟩

/-- `/p/` is a prefix of the request path exactly when the request is in the subtree of `/p`: `/p/x` yes, `/px` no -/
theorem slash_prefix_iff (p q : List Char) : (p ++ ['/']) <+: q ↔ ∃ rest, q = p ++ '/' :: rest := by
  constructor
  · rintro ⟨t, ht⟩; exact ⟨t, by rw [← ht]; simp⟩
  · rintro ⟨rest, rfl⟩; exact ⟨rest, by simp⟩

theorem not_subtree_of_other_char (p rest : List Char) (c : Char) (hc : c ≠ '/') : ¬ (p ++ ['/']) <+: (p ++ c :: rest) := by
  rintro ⟨t, ht⟩
  have : (p ++ ['/']) ++ t = p ++ ('/' :: t) := by simp
  rw [this] at ht
  have := List.append_cancel_left ht
  simp at this
  exact hc this.1.symm

end NGF.Locations
