/-
Helper lemmas for C02 about the external location scheme (Model/Precedence.genLocs) and NGINX's location
selection (Model/NginxEval.selectLoc).
-/
import NGF.Model.Precedence
import NGF.Proofs.NginxEval

namespace NGF.Locations

end NGF.Locations
