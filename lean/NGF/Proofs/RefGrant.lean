/-
Helper lemmas for C06 (`NGF.Model.RefGrant`). Core Lean only.
-/
import NGF.Model.RefGrant

namespace NGF.RefGrant

theorem mem_grantKeys {g : Grant} {k : AllowedRef} :
    k ∈ grantKeys g ↔ ∃ t ∈ g.tos, ∃ f ∈ g.froms, k = keyOf g.ns t f := by
  simp only [grantKeys, List.mem_flatMap, List.mem_map]
  constructor
  · rintro ⟨t, ht, f, hf, e⟩; exact ⟨t, ht, f, hf, e.symm⟩
  · rintro ⟨t, ht, f, hf, e⟩; exact ⟨t, ht, f, hf, e.symm⟩

theorem mem_newResolver {gs : List Grant} {k : AllowedRef} :
    k ∈ newResolver gs ↔ ∃ g ∈ gs, ∃ t ∈ g.tos, ∃ f ∈ g.froms, k = keyOf g.ns t f := by
  simp only [newResolver, List.mem_flatMap, mem_grantKeys]

/-- `refAllowed` is two map lookups -/
theorem refAllowed_iff_mem (allowed : List AllowedRef) (to : ToRes) (frm : FromRes) :
    refAllowed allowed to frm = true ↔
      (⟨to, frm⟩ : AllowedRef) ∈ allowed ∨
      (⟨{ group := "", kind := to.kind, name := "", ns := to.ns }, frm⟩ : AllowedRef) ∈ allowed := by
  simp [refAllowed]

theorem normGroup_eq_empty {g : String} : normGroup g = "" ↔ g = "" ∨ g = "core" := by
  unfold normGroup
  by_cases h : g = "core"
  · simp [h]
  · simp [h]

theorem toName_eq {t : GrantTo} {n : String} :
    toName t = n ↔ (t.name = none ∧ n = "") ∨ t.name = some n := by
  unfold toName
  cases h : t.name with
  | none => simp [eq_comm]
  | some m => simp

theorem permittedB_iff (gs : List Grant) (kind ns name : String) (frm : FromRes) :
    permittedB gs kind ns name frm = true ↔ Permitted gs kind ns name frm := by
  simp only [permittedB, Permitted, List.any_eq_true, Bool.and_eq_true, decide_eq_true_eq]
  constructor
  · rintro ⟨g, hg, ⟨hns, f, hf, hff⟩, t, ht, htt⟩
    exact ⟨g, hg, hns, ⟨f, hf, hff⟩, t, ht, htt⟩
  · rintro ⟨g, hg, hns, ⟨f, hf, hff⟩, t, ht, htt⟩
    exact ⟨g, hg, ⟨hns, f, hf, hff⟩, t, ht, htt⟩

/-- key equality, unfolded -/
theorem key_eq_iff {to : ToRes} {frm : FromRes} {gns : String} {t : GrantTo} {f : GrantFrom} :
    (⟨to, frm⟩ : AllowedRef) = keyOf gns t f ↔
      (to.group = normGroup t.group ∧ to.kind = t.kind ∧ to.name = toName t ∧ to.ns = gns) ∧
      (frm.group = f.group ∧ frm.kind = f.kind ∧ frm.ns = f.ns) := by
  cases to; cases frm
  simp [keyOf]

/-! ### monotonicity, validators -/


theorem newResolver_mono {gs gs' : List Grant} (h : ∀ g ∈ gs, g ∈ gs') :
    ∀ k ∈ newResolver gs, k ∈ newResolver gs' := by
  intro k hk
  obtain ⟨g, hg, rest⟩ := mem_newResolver.1 hk
  exact mem_newResolver.2 ⟨g, h g hg, rest⟩

theorem refAllowed_mono_keys {a b : List AllowedRef} (h : ∀ k ∈ a, k ∈ b) (to : ToRes) (frm : FromRes) :
    refAllowed a to frm = true → refAllowed b to frm = true := by
  rw [refAllowed_iff_mem, refAllowed_iff_mem]
  rintro (h1 | h1)
  · exact .inl (h _ h1)
  · exact .inr (h _ h1)

theorem bool_eq_of_iff {a b : Bool} (h : a = true ↔ b = true) : a = b := by
  cases a <;> cases b <;> simp_all

/-! validators -/

theorem validateBackendRef_ok_crossns {ref : BackendRef} {routeNs : String} {allowed : ToRes → Bool} {n : String}
    (hv : validateBackendRef ref routeNs allowed = .ok) (hn : ref.ns = some n) (hne : n ≠ routeNs) :
    allowed (toService n ref.name) = true := by
  unfold validateBackendRef at hv
  rw [hn] at hv
  by_cases ha : allowed (toService n ref.name) = true
  · exact ha
  · simp [ha, hne] at hv
    repeat (split at hv <;> try (exact absurd hv (by decide)))

theorem validateBackendRef_refused {ref : BackendRef} {routeNs : String} {allowed : ToRes → Bool} {n : String}
    (hg : ref.group = none ∨ ref.group = some "" ∨ ref.group = some "core")
    (hk : ref.kind = none ∨ ref.kind = some "Service")
    (hn : ref.ns = some n) (hne : n ≠ routeNs) (ha : allowed (toService n ref.name) = false) :
    validateBackendRef ref routeNs allowed = .refNotPermitted := by
  unfold validateBackendRef
  rw [hn]
  rcases hg with hg | hg | hg <;> rcases hk with hk | hk <;> simp [hg, hk, ha, hne]

theorem validateBackendRef_same_ns {ref : BackendRef} {routeNs : String} (a b : ToRes → Bool)
    (h : ref.ns = none ∨ ref.ns = some routeNs) :
    validateBackendRef ref routeNs a = validateBackendRef ref routeNs b := by
  unfold validateBackendRef
  rcases h with h | h <;> simp [h]


/-! ### downstream, certificates -/


/-! downstream -/

theorem invalid_single_group (gname : String) (b : Backend) (h : b.valid = false) :
    backendGroupName gname [b] = invalidBackendRef := by
  simp [backendGroupName, h]

theorem invalid_split_value (b : Backend) (h : b.valid = false) : splitClientValue b = invalidBackendRef := by
  simp [splitClientValue, h]

/-- every real upstream a backend group can send to is the reference of a VALID graph backend -/
theorem groupTargets_sound (gname : String) (rs : List GBackendRef) :
    ∀ t ∈ groupTargets gname (rs.map toBackend),
      t = invalidBackendRef ∨ ∃ r ∈ rs, r.valid = true ∧ t = servicePortReference r := by
  intro t ht
  match rs, ht with
  | [], ht => simp [groupTargets, backendGroupName] at ht; exact .inl ht
  | [r], ht =>
    simp only [List.map, groupTargets, backendGroupName, List.mem_singleton] at ht
    by_cases hv : r.valid = true
    · by_cases hw : r.weight = 0
      · simp [toBackend, hw] at ht; exact .inl ht
      · simp [toBackend, hw, hv] at ht; exact .inr ⟨r, by simp, hv, ht⟩
    · simp [toBackend, hv] at ht; exact .inl ht
  | r1 :: r2 :: rest, ht =>
    have ht' : t ∈ ((r1 :: r2 :: rest).map toBackend).map splitClientValue := by
      simpa [groupTargets] using ht
    obtain ⟨b, hb, e⟩ := List.mem_map.1 ht'
    obtain ⟨r, hr, e2⟩ := List.mem_map.1 hb
    subst e2
    by_cases hv : r.valid = true
    · right; exact ⟨r, hr, hv, by simp [← e, splitClientValue, toBackend, hv]⟩
    · left; simp [← e, splitClientValue, toBackend, hv]

/-! certificates -/

theorem mem_sslKeyPairs {ls : List GListener} {x : String × String} :
    x ∈ sslKeyPairs ls ↔ ∃ l ∈ ls, l.valid = true ∧ l.secret = some x := by
  simp only [sslKeyPairs, List.mem_filterMap]
  constructor
  · rintro ⟨l, hl, h⟩
    by_cases hv : l.valid = true
    · simp [hv] at h; exact ⟨l, hl, hv, h⟩
    · simp [hv] at h
  · rintro ⟨l, hl, hv, hs⟩
    exact ⟨l, hl, by simp [hv, hs]⟩


/-! ### store -/


/-- the latest graph was built from the grants the store holds now -/
def Synced (s : Store) : Prop :=
  s.changeType = .noChange → (s.graphGrants = some s.grants ∨ (s.graphGrants = none ∧ s.grants = []))

theorem setChangeType_true_false (c : ChangeType) : setChangeType c true false = .clusterState := by
  cases c <;> simp [setChangeType]

theorem setChangeType_false (c : ChangeType) (e : Bool) : setChangeType c false e = c := by
  simp [setChangeType]

theorem setChangeType_ne_noChange (c : ChangeType) (ch e : Bool) (h : c ≠ .noChange) :
    setChangeType c ch e ≠ .noChange := by
  cases c <;> cases ch <;> cases e <;> simp_all [setChangeType]

theorem setChangeType_noChange_iff (c : ChangeType) (ch e : Bool) :
    setChangeType c ch e = .noChange ↔ c = .noChange ∧ ch = false := by
  cases c <;> cases ch <;> cases e <;> simp [setChangeType]

theorem synced_init : Synced Store.init := by
  intro _; right; exact ⟨rfl, rfl⟩

theorem synced_step (s : Store) (e : Ev) (h : Synced s) : Synced (stepStore s e) := by
  cases e with
  | upsertGrant g =>
    intro hc
    simp [stepStore, setChangeType_true_false] at hc
  | deleteGrant ns name =>
    simp only [stepStore]
    split
    · intro hc; simp [setChangeType_true_false] at hc
    · intro hc
      simp only [setChangeType_false] at hc
      exact h hc
  | other changed endpoints =>
    intro hc
    simp only [stepStore] at hc ⊢
    obtain ⟨h1, _⟩ := (setChangeType_noChange_iff _ _ _).1 hc
    exact h h1
  | process =>
    simp only [stepStore]
    split
    · exact h
    · intro _; left; rfl

theorem synced_run (evs : List Ev) : ∀ s, Synced s → Synced (runStore s evs) := by
  induction evs with
  | nil => intro s h; exact h
  | cons e es ih => intro s h; exact ih _ (synced_step s e h)

theorem runStore_append (a b : List Ev) (s : Store) : runStore s (a ++ b) = runStore (runStore s a) b := by
  induction a generalizing s with
  | nil => rfl
  | cons e es ih => simp [runStore, ih]

theorem process_changeType (s : Store) : (stepStore s .process).changeType = .noChange := by
  simp only [stepStore]
  split
  · assumption
  · rfl

theorem process_grants (s : Store) : (stepStore s .process).grants = s.grants := by
  simp only [stepStore]
  split <;> rfl


end NGF.RefGrant
