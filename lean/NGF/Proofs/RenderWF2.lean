/-
`wfDirs (render c)` for a `GoodConf c`, part 2: the clauses about one server — duplicate locations (external,
internal and the default root), `$match_key` keys and the internal locations they redirect to, and the variables of
`proxy_pass`. Core Lean only.
-/
import NGF.Proofs.RenderWF1

namespace NGF.Render
open NGF.Pipeline NGF.Nginx NGF.Mangle

/-! ### location keys -/

def extKey (k : Bool × Str) : List Char × List Char := if k.1 then ("=".toList, k.2) else ("P".toList, k.2)

theorem locKeyL_ext (k : Bool × Str) (ch : List Dir) : locKeyL (blk "location" (locArgs k) ch) = extKey k := by
  obtain ⟨e, p⟩ := k
  cases e <;> simp [locKeyL, locArgs, extKey, w, wl]

theorem extKey_inj {a b : Bool × Str} (e : extKey a = extKey b) : a = b := by
  obtain ⟨a1, a2⟩ := a
  obtain ⟨b1, b2⟩ := b
  have hne : "=".toList ≠ "P".toList := by decide
  cases a1 <;> cases b1 <;> simp only [extKey, Bool.false_eq_true, ↓reduceIte, Prod.mk.injEq] at e
  · rw [e.2]
  · exact absurd e.1.symm hne
  · exact absurd e.1 hne
  · rw [e.2]

theorem internalLocPath_last (i j : Nat) : (internalLocPath i j).getLast? ≠ some '/' := by
  simp only [internalLocPath, lit]
  rw [List.getLast?_append]
  intro e
  cases hd : (digits j).getLast? with
  | none => exact digits_ne_nil j (List.getLast?_eq_none_iff.mp hd)
  | some c =>
    rw [hd] at e
    have e' : c = '/' := by simpa using e
    subst e'
    exact not_mem_digits_of_not_isDigit (by decide) (List.mem_of_getLast? hd)

def intKey (idx : Nat) (jm : Nat × RMatch) : List Char × List Char := ("P".toList, internalLocPath idx jm.1)

def intKeys (r : RRule) : List (List Char × List Char) :=
  match r.act with
  | .njs ms => (enumFrom 0 ms).map (intKey r.idx)
  | .direct _ => []

def ruleKeys (r : RRule) : List (List Char × List Char) := r.ext.map extKey ++ intKeys r

theorem locKeyL_internal (idx : Nat) (jm : Nat × RMatch) : locKeyL (internalLoc idx jm) = intKey idx jm := by
  simp [locKeyL, internalLoc, intKey, wl]

theorem renderRule_keys (sid : Nat) (r : RRule) : (renderRule sid r).map locKeyL = ruleKeys r := by
  unfold renderRule ruleKeys intKeys
  cases r.act with
  | direct a => simp [List.map_map, Function.comp_def, locKeyL_ext]
  | njs ms => simp [List.map_map, Function.comp_def, locKeyL_ext, locKeyL_internal]

theorem ext_ne_int {r : RRule} (hshape : ∀ k ∈ r.ext, k.1 = true ∨ k.2.getLast? = some '/') {k : Bool × Str} (hk : k ∈ r.ext)
    (idx : Nat) (jm : Nat × RMatch) : extKey k ≠ intKey idx jm := by
  intro e
  rcases hshape k hk with h | h
  · simp only [extKey, h, ↓reduceIte, intKey, Prod.mk.injEq] at e
    exact absurd e.1 (by decide)
  · by_cases hk1 : k.1 = true
    · simp only [extKey, hk1, ↓reduceIte, intKey, Prod.mk.injEq] at e
      exact absurd e.1 (by decide)
    · simp only [extKey, hk1, Bool.false_eq_true, ↓reduceIte, intKey, Prod.mk.injEq] at e
      rw [e.2] at h
      exact internalLocPath_last _ _ h

theorem mem_intKeys {r : RRule} {x : List Char × List Char} (h : x ∈ intKeys r) : ∃ jm, x = intKey r.idx jm := by
  unfold intKeys at h
  cases hact : r.act with
  | direct a => simp [hact] at h
  | njs ms =>
    simp only [hact, List.mem_map] at h
    obtain ⟨jm, _, rfl⟩ := h
    exact ⟨jm, rfl⟩

theorem intKey_inj {i i' : Nat} {a b : Nat × RMatch} (e : intKey i a = intKey i' b) : i = i' ∧ a.1 = b.1 := by
  simp only [intKey, Prod.mk.injEq, true_and] at e
  exact internalLocPath_inj e

theorem ruleKeys_nodup {sv : RServer} (hs : GoodServer sv) {r : RRule} (hr : r ∈ sv.rules) : (ruleKeys r).Nodup := by
  unfold ruleKeys
  rw [List.nodup_append]
  refine ⟨?_, ?_, ?_⟩
  · have hext : r.ext.Nodup := by
      have := hs.ext_nodup
      rw [List.nodup_iff_pairwise_ne, List.pairwise_flatMap] at this
      exact List.nodup_iff_pairwise_ne.mpr (this.1 r hr)
    exact nodup_map_of_inj (fun a _ b _ e => extKey_inj e) hext
  · unfold intKeys
    cases r.act with
    | direct a => simp
    | njs ms =>
      exact nodup_map_of_inj (fun a ha b hb e => enumFrom_inj ha hb (intKey_inj e).2) (enumFrom_nodup _ _)
  · intro x hx y hy e
    obtain ⟨k, hk, rfl⟩ := List.mem_map.mp hx
    obtain ⟨jm, rfl⟩ := mem_intKeys hy
    exact ext_ne_int (hs.ext_shape r hr) hk _ _ e

theorem allKeys_nodup {sv : RServer} (hs : GoodServer sv) : (sv.rules.flatMap ruleKeys).Nodup := by
  apply nodup_flatMap
  · intro r hr; exact ruleKeys_nodup hs hr
  · have hext := hs.ext_nodup
    rw [List.nodup_iff_pairwise_ne, List.pairwise_flatMap] at hext
    refine List.Pairwise.imp_of_mem ?_ (hs.idx_inj.and hext.2)
    intro a b ha hb ⟨hidx, hdis⟩ x hx y hy e
    subst e
    unfold ruleKeys at hx hy
    rcases List.mem_append.mp hx with hx | hx <;> rcases List.mem_append.mp hy with hy | hy
    · obtain ⟨k, hk, rfl⟩ := List.mem_map.mp hx
      obtain ⟨k', hk', e⟩ := List.mem_map.mp hy
      exact hdis k hk k' hk' (extKey_inj e).symm
    · obtain ⟨k, hk, rfl⟩ := List.mem_map.mp hx
      obtain ⟨jm, e⟩ := mem_intKeys hy
      exact ext_ne_int (hs.ext_shape a ha) hk _ _ e
    · obtain ⟨k, hk, rfl⟩ := List.mem_map.mp hy
      obtain ⟨jm, e⟩ := mem_intKeys hx
      exact ext_ne_int (hs.ext_shape b hb) hk _ _ e
    · obtain ⟨jm, e1⟩ := mem_intKeys hx
      obtain ⟨jm', e2⟩ := mem_intKeys hy
      exact hidx (intKey_inj (e1.symm.trans e2)).1

def rootKey : List Char × List Char := ("P".toList, ['/'])

theorem locKeyL_root : locKeyL rootLoc = rootKey := by
  simp [locKeyL, rootLoc, rootKey, w]

theorem rootKey_not_mem {sv : RServer} (hs : GoodServer sv) (hroot : sv.root404 = true) : rootKey ∉ sv.rules.flatMap ruleKeys := by
  intro hm
  obtain ⟨r, hr, hx⟩ := List.mem_flatMap.mp hm
  unfold ruleKeys at hx
  rcases List.mem_append.mp hx with hx | hx
  · obtain ⟨k, hk, e⟩ := List.mem_map.mp hx
    have : k = (false, ['/']) := by
      apply extKey_inj
      rw [e]
      simp [extKey, rootKey]
    exact hs.root_free hroot r hr (this ▸ hk)
  · obtain ⟨jm, e⟩ := mem_intKeys hx
    simp only [rootKey, intKey, Prod.mk.injEq, true_and] at e
    have := internalLocPath_last r.idx jm.1
    rw [← e] at this
    exact this (by decide)

theorem sortRules_perm (rs : List RRule) : (sortRules rs).Perm rs := List.mergeSort_perm _ _

/-- per server no two locations share (modifier, path), the internal ones and the default root included -/
theorem serverKeys_nodup {sv : RServer} (hs : GoodServer sv) : ((serverLocs sv).map locKeyL).Nodup := by
  unfold serverLocs
  rw [List.map_append, List.map_flatMap]
  simp only [renderRule_keys]
  have hperm : ((sortRules sv.rules).flatMap ruleKeys).Perm (sv.rules.flatMap ruleKeys) :=
    (sortRules_perm sv.rules).flatMap_right _
  rw [(hperm.append_right _).nodup_iff, List.nodup_append]
  refine ⟨allKeys_nodup hs, ?_, ?_⟩
  · by_cases hr : sv.root404 = true <;> simp [hr]
  · intro x hx y hy e
    by_cases hr : sv.root404 = true
    · simp only [hr, ↓reduceIte, List.map_cons, List.map_nil, List.mem_singleton, locKeyL_root] at hy
      subst hy; subst e
      exact rootKey_not_mem hs hr hx
    · simp [hr] at hy

/-! ### `$match_key` -/

theorem actDirs_names {a : RAct} {d : Dir} (h : d ∈ actDirs a) :
    d.name = "proxy_http_version".toList ∨ d.name = "proxy_set_header".toList ∨ d.name = "proxy_pass".toList ∨
      d.name = "return".toList := by
  cases a with
  | proxy src bs =>
    simp only [actDirs, List.mem_cons, List.mem_append, List.mem_map, List.mem_nil_iff, or_false] at h
    rcases h with (rfl | ⟨hh, _, rfl⟩) | rfl
    · exact Or.inl rfl
    · exact Or.inr (Or.inl rfl)
    · exact Or.inr (Or.inr (Or.inl rfl))
  | redirect code scheme host port =>
    simp only [actDirs, List.mem_cons, List.mem_nil_iff, or_false] at h
    rcases h with rfl | rfl
    · exact Or.inr (Or.inr (Or.inr rfl))
    · exact Or.inl rfl
  | status code =>
    simp only [actDirs, List.mem_cons, List.mem_nil_iff, or_false] at h
    rcases h with rfl | rfl
    · exact Or.inr (Or.inr (Or.inr rfl))
    · exact Or.inl rfl

theorem keyOfDir_of_name {d : Dir} (h : d.name ≠ "set".toList) : keyOfDir d = none := by
  unfold keyOfDir
  have : (d.name == "set".toList) = false := by simpa using h
  simp only [this, Bool.false_and, Bool.false_eq_true, ↓reduceIte]

theorem keys_actDirs (a : RAct) : (actDirs a).filterMap keyOfDir = [] := by
  rw [List.filterMap_eq_nil_iff]
  intro d hd
  apply keyOfDir_of_name
  rcases actDirs_names hd with h | h | h | h <;> rw [h] <;> decide

theorem keys_njsDirs (sid idx : Nat) : (njsDirs sid idx).filterMap keyOfDir = [matchKey sid idx] := rfl

theorem keys_internal (idx : Nat) (jm : Nat × RMatch) : (body (internalLoc idx jm)).filterMap keyOfDir = [] := by
  simp only [internalLoc, body_blk, List.filterMap_cons]
  have : keyOfDir (dir "internal" []) = none := rfl
  rw [this, keys_actDirs]

theorem mem_keysUsed {sv : RServer} {k : List Char} (h : k ∈ keysUsed (serverLocs sv)) :
    ∃ r ∈ sv.rules, ∃ ms, r.act = .njs ms ∧ r.ext ≠ [] ∧ k = matchKey sv.sid r.idx := by
  unfold keysUsed serverLocs at h
  rw [List.flatMap_append, List.mem_append] at h
  rcases h with h | h
  · obtain ⟨d, hd, hk⟩ := List.mem_flatMap.mp h
    obtain ⟨r, hr, hdr⟩ := List.mem_flatMap.mp hd
    have hr' : r ∈ sv.rules := (sortRules_perm sv.rules).mem_iff.mp hr
    unfold renderRule at hdr
    cases hact : r.act with
    | direct a =>
      simp only [hact, List.mem_map] at hdr
      obtain ⟨_, _, rfl⟩ := hdr
      rw [body_blk, keys_actDirs] at hk
      simp at hk
    | njs ms =>
      simp only [hact, List.mem_append, List.mem_map] at hdr
      rcases hdr with ⟨kk, hkk, rfl⟩ | ⟨jm, _, rfl⟩
      · rw [body_blk, keys_njsDirs] at hk
        refine ⟨r, hr', ms, hact, ?_, List.mem_singleton.mp hk⟩
        intro e; rw [e] at hkk; simp at hkk
      · rw [keys_internal] at hk
        simp at hk
  · by_cases hr : sv.root404 = true
    · simp only [hr, ↓reduceIte, List.flatMap_cons, List.flatMap_nil, List.append_nil, rootLoc, body_blk, keys_actDirs] at h
      simp at h
    · simp [hr] at h

def ruleKeyEntry (sid : Nat) (r : RRule) (ms : List RMatch) : List Char × List (List Char) :=
  (matchKey sid r.idx, (enumFrom 0 ms).map fun jm => internalLocPath r.idx jm.1)

theorem matchKeysOf_eq (c : ConfR) :
    matchKeysOf c = c.servers.flatMap fun sv => sv.rules.flatMap fun r =>
      (ruleMatches sv.sid r).map fun km => (km.1, km.2.map (·.redirectPath)) := by
  simp [matchKeysOf, matchesOf, List.map_flatMap]

theorem ruleMatches_keys (sid : Nat) (r : RRule) :
    ((ruleMatches sid r).map fun km => (km.1, km.2.map (·.redirectPath))) =
      match r.act with
      | .njs ms => if r.ext.isEmpty then [] else [ruleKeyEntry sid r ms]
      | .direct _ => [] := by
  unfold ruleMatches
  cases r.act with
  | direct a => rfl
  | njs ms =>
    by_cases he : r.ext.isEmpty = true
    · simp [he]
    · simp [he, ruleKeyEntry, withPath, List.map_map, Function.comp_def]

theorem mem_matchKeysOf {c : ConfR} {sv : RServer} (hsv : sv ∈ c.servers) {r : RRule} (hr : r ∈ sv.rules) {ms : List RMatch}
    (hact : r.act = .njs ms) (hext : r.ext ≠ []) : ruleKeyEntry sv.sid r ms ∈ matchKeysOf c := by
  rw [matchKeysOf_eq]
  refine List.mem_flatMap.mpr ⟨sv, hsv, List.mem_flatMap.mpr ⟨r, hr, ?_⟩⟩
  rw [ruleMatches_keys, hact]
  have : r.ext.isEmpty = false := by cases h : r.ext <;> simp_all
  simp [this]

theorem mem_ruleKeys_fst {sid : Nat} {r : RRule} {x : List Char × List (List Char)}
    (h : x ∈ (ruleMatches sid r).map fun km => (km.1, km.2.map (·.redirectPath))) : x.1 = matchKey sid r.idx := by
  rw [ruleMatches_keys] at h
  cases hact : r.act with
  | direct a => simp [hact] at h
  | njs ms =>
    simp only [hact] at h
    by_cases he : r.ext.isEmpty = true
    · simp [he] at h
    · simp only [he, Bool.false_eq_true, ↓reduceIte, List.mem_singleton] at h
      rw [h]; rfl

theorem matchKeys_nodup {c : ConfR} (h : GoodConf c) : ((matchKeysOf c).map (·.1)).Nodup := by
  rw [matchKeysOf_eq, List.map_flatMap]
  apply nodup_flatMap
  · intro sv hsv
    rw [List.map_flatMap]
    apply nodup_flatMap
    · intro r _
      rw [ruleMatches_keys]
      cases r.act with
      | direct a => simp
      | njs ms => by_cases he : r.ext.isEmpty = true <;> simp [he]
    · refine List.Pairwise.imp_of_mem ?_ (h.servers sv hsv).idx_inj
      intro a b _ _ hidx x hx y hy e
      obtain ⟨x', hx', rfl⟩ := List.mem_map.mp hx
      obtain ⟨y', hy', rfl⟩ := List.mem_map.mp hy
      rw [mem_ruleKeys_fst hx', mem_ruleKeys_fst hy'] at e
      exact hidx (matchKey_inj e).2
  · have hsid := h.sids_nodup
    rw [List.nodup_iff_pairwise_ne, List.pairwise_map] at hsid
    refine hsid.imp ?_
    intro a b hne x hx y hy e
    rw [List.map_flatMap] at hx hy
    obtain ⟨r, _, hx⟩ := List.mem_flatMap.mp hx
    obtain ⟨r', _, hy⟩ := List.mem_flatMap.mp hy
    obtain ⟨x', hx', rfl⟩ := List.mem_map.mp hx
    obtain ⟨y', hy', rfl⟩ := List.mem_map.mp hy
    rw [mem_ruleKeys_fst hx', mem_ruleKeys_fst hy'] at e
    exact hne (matchKey_inj e).1

theorem find?_of_nodup_keys {β} : ∀ {l : List (List Char × β)} {k : List Char} {v : β}, (l.map (·.1)).Nodup → (k, v) ∈ l →
    l.find? (·.1 == k) = some (k, v)
  | [], _, _, _, h => by simp at h
  | x :: xs, k, v, hn, h => by
    simp only [List.map_cons, List.nodup_cons] at hn
    rw [List.find?_cons]
    rcases List.mem_cons.mp h with rfl | h'
    · simp
    · have : (x.1 == k) = false := by
        rw [beq_eq_false_iff_ne]
        intro e
        exact hn.1 (e ▸ List.mem_map.mpr ⟨(k, v), h', rfl⟩)
      rw [this]
      exact find?_of_nodup_keys hn.2 h'

theorem isInternal_internalLoc (idx : Nat) (jm : Nat × RMatch) : isInternal (internalLoc idx jm) = true := by
  simp [isInternal, internalLoc]

theorem internal_mem {sv : RServer} {r : RRule} (hr : r ∈ sv.rules) {ms : List RMatch} (hact : r.act = .njs ms)
    {jm : Nat × RMatch} (hjm : jm ∈ enumFrom 0 ms) :
    ("P".toList, internalLocPath r.idx jm.1) ∈ ((serverLocs sv).filter isInternal).map locKeyL := by
  refine List.mem_map.mpr ⟨internalLoc r.idx jm, List.mem_filter.mpr ⟨?_, isInternal_internalLoc _ _⟩, locKeyL_internal _ _⟩
  unfold serverLocs
  refine List.mem_append_left _ (List.mem_flatMap.mpr ⟨r, (sortRules_perm sv.rules).mem_iff.mpr hr, ?_⟩)
  unfold renderRule
  simp only [hact]
  exact List.mem_append_right _ (List.mem_map.mpr ⟨jm, hjm, rfl⟩)

theorem keyIssues_server {c : ConfR} (h : GoodConf c) {sv : RServer} (hsv : sv ∈ c.servers) :
    keyIssues (matchKeysOf c) (serverLocs sv) = [] := by
  unfold keyIssues
  rw [List.flatMap_eq_nil_iff]
  intro k hk
  obtain ⟨r, hr, ms, hact, hext, rfl⟩ := mem_keysUsed hk
  have hfind := find?_of_nodup_keys (matchKeys_nodup h) (mem_matchKeysOf hsv hr hact hext)
  simp only [hfind]
  rw [List.map_eq_nil_iff, List.filter_eq_nil_iff]
  intro p hp
  obtain ⟨jm, hjm, rfl⟩ := List.mem_map.mp hp
  have hc : (((serverLocs sv).filter isInternal).map locKeyL).contains ("P".toList, internalLocPath r.idx jm.1) = true :=
    List.contains_iff_mem.mpr (internal_mem hr hact hjm)
  simp only [hc, Bool.not_true, Bool.false_eq_true, not_false_eq_true]

/-! ### `proxy_pass` -/

theorem named_pass_actDirs (a : RAct) :
    named "proxy_pass" (actDirs a) =
      match a with
      | .proxy src bs => [dir "proxy_pass" [wl (passTarget src bs)]]
      | _ => [] := by
  cases a with
  | proxy src bs =>
    simp only [actDirs]
    rw [show (httpVersion :: (baseHeaders.map fun h => dir "proxy_set_header" [w h.1, q h.2.toList]) ++
        [dir "proxy_pass" [wl (passTarget src bs)]]) =
        [httpVersion] ++ (baseHeaders.map fun h => dir "proxy_set_header" [w h.1, q h.2.toList]) ++
        [dir "proxy_pass" [wl (passTarget src bs)]] from rfl,
      named_append, named_append,
      named_eq_nil (l := [httpVersion]) (fun d hd => by rw [List.mem_singleton.mp hd]; decide),
      named_eq_nil (l := baseHeaders.map fun h => dir "proxy_set_header" [w h.1, q h.2.toList]) (fun d hd => by
        obtain ⟨_, _, rfl⟩ := List.mem_map.mp hd
        rw [dir_name]; decide)]
    simp [named]
  | redirect code scheme host port => simp [actDirs, named, httpVersion]
  | status code => simp [actDirs, named, httpVersion]

theorem invalidBackendRef_no_dollar : '$' ∉ invalidBackendRef := by decide

theorem srcVar_head (a : Src) : ∃ t, srcVar a = 'g' :: t := by
  simp [srcVar, groupVar, groupName, lit, safeVar]

theorem builtin_request_uri : builtinL.contains "request_uri".toList = true := by
  rw [List.contains_iff_mem]
  exact List.mem_map.mpr ⟨"request_uri", by simp [NGF.WF.builtinHttp], rfl⟩

theorem refIssue_builtin (vars : List (List Char)) (arg : List Char) : refIssue vars arg (.name "request_uri") = [] := by
  simp only [refIssue, builtin_request_uri, Bool.or_true, ↓reduceIte]

theorem refIssue_var {vars : List (List Char)} (arg : List Char) {v : List Char} (h : vars.contains v = true) :
    refIssue vars arg (.name (NGF.WF.str v)) = [] := by
  simp only [refIssue, NGF.WF.str, String.toList_ofList, h, Bool.true_or, ↓reduceIte]

theorem passIssues_good {c : ConfR} {src : Src} {bs : List Backend} (hg : GoodAct c (.proxy src bs)) :
    passIssues ((splitDirs c).map splitVar) (dir "proxy_pass" [wl (passTarget src bs)]) = [] := by
  obtain ⟨htargets, hsafe, hgroup⟩ := hg
  unfold passIssues
  have harg : arg0 (dir "proxy_pass" [wl (passTarget src bs)]) = passTarget src bs := rfl
  rw [harg]
  have hup : ∀ host : List Char, '$' ∉ host → ∀ arg,
      (NGF.WF.scriptVars ("http://".toList ++ host ++ requestURI)).flatMap (refIssue ((splitDirs c).map splitVar) arg) = [] := by
    intro host hh arg
    rw [scriptVars_upstream hh]
    simp only [List.flatMap_cons, List.flatMap_nil, refIssue_builtin, List.append_nil]
  match bs, htargets, hgroup with
  | [], _, _ => exact hup _ invalidBackendRef_no_dollar _
  | [b], ht, _ =>
    unfold passTarget passHost
    by_cases hb : (b.weight == 0 || !b.valid) = true
    · simp only [hb, ↓reduceIte]; exact hup _ invalidBackendRef_no_dollar _
    · simp only [hb, Bool.false_eq_true, ↓reduceIte]; exact hup _ (ht b List.mem_cons_self) _
  | b :: b' :: rest, _, hgr =>
    obtain ⟨g, hgm, hg1, hg2⟩ := hgr (by simp)
    obtain ⟨t, ht⟩ := srcVar_head src
    have hlex := srcVar_lexable hsafe
    have hmem : ((splitDirs c).map splitVar).contains ('g' :: t) = true := by
      rw [List.contains_iff_mem, splitVars_eq, ← ht]
      exact List.mem_map.mpr ⟨g, List.mem_filter.mpr ⟨hgm, hg2⟩, by rw [hg1]⟩
    have e : passTarget src (b :: b' :: rest) = "http://".toList ++ ('$' :: srcVar src) ++ requestURI := rfl
    rw [ht] at e
    generalize passTarget src (b :: b' :: rest) = arg at e ⊢
    subst e
    rw [scriptVars_groupVar (ht ▸ hlex)]
    simp only [List.flatMap_cons, List.flatMap_nil, refIssue_builtin, refIssue_var _ hmem, List.append_nil]

/-- the body of a rendered location -/
theorem mem_serverLocs_body {sv : RServer} {l : Dir} (h : l ∈ serverLocs sv) :
    (∃ r ∈ sv.rules, ∃ a ∈ actsOf r.act, body l = actDirs a ∨ body l = dir "internal" [] :: actDirs a) ∨
    (∃ sid idx, body l = njsDirs sid idx) ∨ body l = actDirs (.status 404) := by
  unfold serverLocs at h
  rcases List.mem_append.mp h with h | h
  · obtain ⟨r, hr, hd⟩ := List.mem_flatMap.mp h
    have hr' : r ∈ sv.rules := (sortRules_perm sv.rules).mem_iff.mp hr
    unfold renderRule at hd
    cases hact : r.act with
    | direct a =>
      simp only [hact, List.mem_map] at hd
      obtain ⟨_, _, rfl⟩ := hd
      exact Or.inl ⟨r, hr', a, by simp [hact, actsOf], Or.inl rfl⟩
    | njs ms =>
      simp only [hact, List.mem_append, List.mem_map] at hd
      rcases hd with ⟨_, _, rfl⟩ | ⟨jm, hjm, rfl⟩
      · exact Or.inr (Or.inl ⟨_, _, rfl⟩)
      · refine Or.inl ⟨r, hr', jm.2.act, ?_, Or.inr rfl⟩
        simp only [hact, actsOf, List.mem_map]
        exact ⟨jm.2, enumFrom_mem_snd hjm, rfl⟩
  · by_cases hr : sv.root404 = true
    · simp only [hr, ↓reduceIte, List.mem_singleton] at h
      subst h; exact Or.inr (Or.inr rfl)
    · simp [hr] at h

theorem named_pass_njsDirs (sid idx : Nat) : named "proxy_pass" (njsDirs sid idx) = [] := by
  simp [njsDirs, named, httpVersion]

theorem passIssues_server {c : ConfR} (h : GoodConf c) {sv : RServer} (hsv : sv ∈ c.servers) {l : Dir}
    (hl : l ∈ serverLocs sv) : (named "proxy_pass" (body l)).flatMap (passIssues ((splitDirs c).map splitVar)) = [] := by
  have hact : ∀ a, (∃ r ∈ sv.rules, a ∈ actsOf r.act) ∨ a = .status 404 →
      (named "proxy_pass" (actDirs a)).flatMap (passIssues ((splitDirs c).map splitVar)) = [] := by
    intro a ha
    rw [named_pass_actDirs]
    cases a with
    | proxy src bs =>
      rcases ha with ⟨r, hr, ha⟩ | ha
      · simp only [List.flatMap_cons, List.flatMap_nil, List.append_nil]
        exact passIssues_good (h.acts sv hsv r hr _ ha)
      · cases ha
    | redirect _ _ _ _ => rfl
    | status _ => rfl
  rcases mem_serverLocs_body hl with ⟨r, hr, a, ha, hb | hb⟩ | ⟨sid, idx, hb⟩ | hb
  · rw [hb]; exact hact a (Or.inl ⟨r, hr, ha⟩)
  · rw [hb]
    have : named "proxy_pass" (dir "internal" [] :: actDirs a) = named "proxy_pass" (actDirs a) := by
      simp [named]
    rw [this]; exact hact a (Or.inl ⟨r, hr, ha⟩)
  · rw [hb, named_pass_njsDirs]; rfl
  · rw [hb]; exact hact _ (Or.inr rfl)

end NGF.Render
